(* T22 / compiled counterexamples: operation-level calls OUTSIDE [op_call_ok] (T22Def.v) on which the conclusion of the C01 row
   theorem fails on the model.  Every example satisfies the other hypotheses of T22_rows_norm (plain configuration, hb_ok
   unless stated, every other call inside [ok_hist]); they are meant to be replayed on the real code.
     concl c h  :=  exists p, rebuild c (tp (final c init_sys h)) = (p, Ok tt) /\ rows p = map norm_row (rows (db (final ...)))

   1. [T22_update_unindexed_refuted]       Update of a name that has no row (known finding C01-update-of-unindexed-name): Update
                                           reports success and writes the record, the running index ignores it, the last-indexed
                                           position does not advance; the NEXT write replays from the stale position with the
                                           wrong in-memory headers: its header is applied at the position of the ignored record
                                           and the call fails (header missing) after its own record went to the tape.
   2. [T22_update_tombstone_meta_refuted]  the same through a tombstoned name with replace = false (the metadata update looks
                                           the live row up); with replace = true the tombstone is revived on both sides
                                           ([T22_update_tombstone_replace_holds], covered by the theorem).
   3. [T22_archive_uncleaned_name_refuted] Archive of a directory header named "/b/" (tar.FileInfoHeader spelling): the running
                                           index stores "/b/", the rebuild stores "b".
   4. [T22_archive_forged_*]               Archive with caller-supplied STFS records: DELETE of a missing name (refused AFTER the
                                           record was written: the rebuild then fails), UPDATE of an unindexed name (as 1.),
                                           an unknown STFS.Version, an unparsable STFS.UncompressedSize.
                                           (For C07 the forged rename of Proofs/T07Counter.v is excluded by [op_call_ok] as well:
                                           [T22_forged_rename_excluded].)
   5. [T22_delete_root_reopen_refuted]     Delete "/" then Reopen then MkdirAll "/" (the operation-level form of C01Counter (c)).
   6. [T22_archive_zero_header_blocks]     a batch whose members have zero header blocks (excluded by hb_ok, as C01Counter (b)).
   NOT covered and NO counterexample known (the conclusion holds on the instances evaluated in [T22_uncovered_instances_hold]):
   relative names in Archive / Update / Move ("a/f": the index joins them to the cached root; Delete IS covered for every
   spelling), Move from / onto the root, Delete of the root without a later Reopen, symlink headers (link name set). *)
From Coq Require Import String List NArith ZArith Bool.
Import ListNotations.
From STFS Require C01Counter T07Counter.
From STFS Require Import Str Db Tape Index Ops Fs Diff Prefix Replay Norm C01Fs2 C01Rows T22Def T22Test.
Open Scope string_scope.
Open Scope N_scope.

Notation concl := C01Counter.concl.

Ltac refute :=
  let p := fresh "p" in let E := fresh "E" in let H := fresh "H" in
  intros (p & E & H); vm_compute in E;
  first [ discriminate E | inversion E; subst p; vm_compute in H; discriminate H ].

Definition base : list (call * env) :=
  [(CInitialize (s "/"), e0 1); (CMkdir (s "/a") 493, e0 2); (CCreateFile (s "/a/f") [(1, 0, 70)], e0 3)].
Definition flp (tf : N) (name : string) (size : N) (px : pax) : file := {| f_hdr := hd tf name size px; f_data := [] |}.

Example base_ok : ok_hist cf init_sys base = true /\ concl cf base.
Proof. split; [reflexivity|]. unfold C01Counter.concl. eexists. split; vm_compute; reflexivity. Qed.

(* ---------- 1. Update of an unindexed name *)
Definition upd_unindexed : call := CUpdate [fl TypeReg "/zz" 0 []] false.
Definition h_upd_unindexed : list (call * env) := base ++ [(upd_unindexed, e0 4); (CMkdir (s "/q") 493, e0 5)].

Example T22_update_unindexed_refuted :
  let s0 := final cf init_sys base in
  let '(s1, o1) := step cf (with_env s0 (e0 4)) upd_unindexed in
  let '(s2, o2) := step cf (with_env s1 (e0 5)) (CMkdir (s "/q") 493) in
  (* the only hypothesis that fails: the name has no row *)
  op_call_ok s0 upd_unindexed = false /\ forallb hb_ok h_upd_unindexed = true /\
  call_ok22 s1 (CMkdir (s "/q") 493) = true /\
  (* Update reports success and writes one record + trailer ... *)
  o1 = OOk /\ tape_blocks (tp s1) = tape_blocks (tp s0) + 5 /\
  (* ... which the running index ignores: same rows, same last-indexed position *)
  eqb_list eqb_row (rows (db s1)) (rows (db s0)) = true /\
  last_indexed (db s1) (c_rs cf) = last_indexed (db s0) (c_rs cf) /\
  (* rows of the rebuild still agree right after it (the rebuild ignores the record too) ... *)
  rows_norm_ok cf s1 = true /\
  (* ... but the next write is replayed from the stale position and fails, after its record went to the tape *)
  o2 = OOther 113 /\ tape_blocks (tp s2) = tape_blocks (tp s1) + 5 /\
  (* the header of "/q" was applied at the position of the ignored Update record (block 21 = record 7, block 0); its own record
     is at block 26 = (8, 2), where the rebuild finds it: rows and positions diverge *)
  map (fun r => (r_rec r, r_blk r)) (filter (fun r => eqb_str (r_name r) (s "/q")) (rows (db s2))) = [(7, 0)] /\
  map (fun r => (r_rec r, r_blk r)) (filter (fun r => eqb_str (r_name r) (s "q")) (rows (fst (rebuild cf (tp s2))))) = [(8, 2)] /\
  ~ concl cf h_upd_unindexed.
Proof.
  vm_compute. repeat (split; [reflexivity|]). intros (p & E & H). inversion E; subst p. discriminate H.
Qed.

(* the same with replace = true *)
Example T22_update_unindexed_replace_refuted :
  ok_hist cf init_sys (base ++ [(CUpdate [fl TypeReg "/zz" 0 []] true, e0 4); (CMkdir (s "/q") 493, e0 5)]) = false /\
  ~ concl cf (base ++ [(CUpdate [fl TypeReg "/zz" 0 []] true, e0 4); (CMkdir (s "/q") 493, e0 5)]).
Proof. split; [reflexivity|]. unfold C01Counter.concl. refute. Qed.

(* ---------- 2. Update of a tombstoned name *)
Definition h_tomb (replace : bool) : list (call * env) :=
  base ++ [(CRemove (s "/a/f"), e0 4); (CUpdate [fl TypeReg "/a/f" 0 []] replace, e0 5); (CMkdir (s "/q") 493, e0 6)].

Example T22_update_tombstone_meta_refuted :
  ok_hist cf init_sys (h_tomb false) = false /\ forallb hb_ok (h_tomb false) = true /\
  map ob_out (run cf init_sys (h_tomb false)) = [OOk; OOk; OOk; OOk; OOk; OOther 113] /\
  ~ concl cf (h_tomb false).
Proof. split; [reflexivity|]. split; [reflexivity|]. split; [vm_compute; reflexivity|]. unfold C01Counter.concl. refute. Qed.

Example T22_update_tombstone_replace_holds :
  ok_hist cf init_sys (h_tomb true) = true /\ rows_norm_all cf init_sys (h_tomb true) = true /\
  map ob_out (run cf init_sys (h_tomb true)) = [OOk; OOk; OOk; OOk; OOk; OOk].
Proof. vm_compute. repeat split; reflexivity. Qed.

(* ---------- 3. Archive of an uncleaned name *)
Definition h_uncleaned : list (call * env) := base ++ [(CArchive [fl TypeDir "/b/" 0 []], e0 4)].
Example T22_archive_uncleaned_name_refuted :
  ok_hist cf init_sys h_uncleaned = false /\ forallb hb_ok h_uncleaned = true /\
  map ob_out (run cf init_sys h_uncleaned) = [OOk; OOk; OOk; OOk] /\
  existsb (fun r => eqb_str (r_name r) (s "/b/")) (rows (db (final cf init_sys h_uncleaned))) = true /\
  existsb (fun r => eqb_str (r_name r) (s "b")) (rows (fst (rebuild cf (tp (final cf init_sys h_uncleaned))))) = true /\
  ~ concl cf h_uncleaned.
Proof. vm_compute. repeat (split; [reflexivity|]). intros (p & E & H). inversion E; subst p. discriminate H. Qed.

(* ---------- 4. Archive with caller-supplied STFS records *)
Definition h_forged (px : pax) (name : string) : list (call * env) :=
  base ++ [(CArchive [flp TypeReg name 0 px], e0 4); (CMkdir (s "/q") 493, e0 5)].

Example T22_archive_forged_delete_refuted :
  ok_hist cf init_sys (h_forged [(K_action, V_delete)] "/zz") = false /\
  map ob_out (run cf init_sys (h_forged [(K_action, V_delete)] "/zz")) = [OOk; OOk; OOk; ONotExist; OOther 113] /\
  res_ok (snd (rebuild cf (tp (final cf init_sys (h_forged [(K_action, V_delete)] "/zz"))))) = false /\
  ~ concl cf (h_forged [(K_action, V_delete)] "/zz").
Proof. split; [reflexivity|]. split; [vm_compute; reflexivity|]. split; [vm_compute; reflexivity|]. unfold C01Counter.concl. refute. Qed.

Example T22_archive_forged_update_refuted :
  ok_hist cf init_sys (h_forged [(K_action, V_update)] "/zz") = false /\
  map ob_out (run cf init_sys (h_forged [(K_action, V_update)] "/zz")) = [OOk; OOk; OOk; OOk; OOther 113] /\
  ~ concl cf (h_forged [(K_action, V_update)] "/zz").
Proof. split; [reflexivity|]. split; [vm_compute; reflexivity|]. unfold C01Counter.concl. refute. Qed.

Example T22_archive_forged_version_refuted :
  ok_hist cf init_sys (h_forged [(K_version, s "2")] "/zz") = false /\
  map ob_out (run cf init_sys (h_forged [(K_version, s "2")] "/zz")) = [OOk; OOk; OOk; OOther 111; OOther 113] /\
  ~ concl cf (h_forged [(K_version, s "2")] "/zz").
Proof. split; [reflexivity|]. split; [vm_compute; reflexivity|]. unfold C01Counter.concl. refute. Qed.

Example T22_archive_forged_usize_refuted :
  ok_hist cf init_sys (h_forged [(K_usize, s "x")] "/zz") = false /\
  map ob_out (run cf init_sys (h_forged [(K_usize, s "x")] "/zz")) = [OOk; OOk; OOk; OOther 110; OOther 113] /\
  ~ concl cf (h_forged [(K_usize, s "x")] "/zz").
Proof. split; [reflexivity|]. split; [vm_compute; reflexivity|]. unfold C01Counter.concl. refute. Qed.

(* a parsable size record supplied by the caller is inside [op_call_ok] *)
Example T22_archive_caller_usize_holds :
  ok_hist cf init_sys (h_forged [(K_usize, s "12")] "/zz") = true /\ rows_norm_all cf init_sys (h_forged [(K_usize, s "12")] "/zz") = true.
Proof. vm_compute. split; reflexivity. Qed.

(* the forged rename record that refutes C07_full_statement (T07Counter.v) is outside [ok_hist] *)
Example T22_forged_rename_excluded : ok_hist T07Counter.cf init_sys T07Counter.h_bad = false.
Proof. reflexivity. Qed.

(* ---------- 5. Delete of the root, then Reopen *)
Definition h_del_root : list (call * env) :=
  [(CInitialize (s "/"), e0 1); (CDelete (s "/"), e0 2); (CReopen, e0 3); (CMkdirAll (s "/") 493, e0 4)].
Example T22_delete_root_reopen_refuted :
  ok_hist cf init_sys h_del_root = false /\ forallb hb_ok h_del_root = true /\ ~ concl cf h_del_root.
Proof. split; [reflexivity|]. split; [reflexivity|]. unfold C01Counter.concl. refute. Qed.

(* ---------- 6. zero header blocks in a batch *)
Definition h_zero_hb : list (call * env) :=
  base ++ [(CArchive [fl TypeDir "/b" 0 []; fl TypeDir "/c" 0 []], e1 4 [0; 0] []); (CMkdir (s "/q") 493, e0 5)].
Example T22_archive_zero_header_blocks :
  ok_hist cf init_sys h_zero_hb = true /\ forallb hb_ok h_zero_hb = false /\ ~ concl cf h_zero_hb.
Proof. split; [reflexivity|]. split; [reflexivity|]. unfold C01Counter.concl. refute. Qed.

(* ---------- outside [op_call_ok] without a counterexample: the conclusion holds on these instances *)
Definition lnk (name target : string) : file :=
  {| f_hdr := {| h_tf := TypeSymlink; h_name := s name; h_link := s target; h_size := 0; h_mode := 420; h_uid := 7; h_gid := 8;
     h_uname := s "u"; h_gname := s "g"; h_mtime := 5%Z; h_atime := 6%Z; h_ctime := 7%Z; h_pax := [] |}; f_data := [] |}.
Definition uncovered : list (list (call * env)) :=
  [ (base ++ [(CArchive [fl TypeReg "b" 0 []], e0 4); (CMkdir (s "/q") 493, e0 5)])%list;
    (base ++ [(CMove (s "a") (s "/b"), e0 4); (CMkdir (s "/q") 493, e0 5)])%list;
    (base ++ [(CMove (s "/a") (s "b"), e0 4); (CMkdir (s "/q") 493, e0 5)])%list;
    (base ++ [(CMove (s "/") (s "/b"), e0 4); (CMkdir (s "/q") 493, e0 5)])%list;
    (base ++ [(CMove (s "/a") (s "/"), e0 4); (CMkdir (s "/q") 493, e0 5)])%list;
    (base ++ [(CDelete (s "/"), e0 4); (CMkdir (s "/q") 493, e0 5)])%list;
    (base ++ [(CArchive [lnk "/l" "/a/f"], e0 4); (CMove (s "/l") (s "/m"), e0 5); (CDelete (s "/m"), e0 6)])%list ].
Example T22_uncovered_instances_hold :
  forallb (fun h => negb (ok_hist cf init_sys h) && rows_norm_all cf init_sys h && replay_all cf h) uncovered = true.
Proof. vm_compute. reflexivity. Qed.
