(* T17 / Str: relative stored names [join_slash cs] (the names an index rebuilt from a foreign archive holds),
   what path.Clean / path.Join / path.Base do on the names a tar writer emits, and the string form of
   "direct child". *)
From Coq Require Import List NArith ZArith Bool Lia.
From Coq Require Import ZifyN ZifyBool.
Import ListNotations.
From STFS Require Import Str Db StrLemmas C01Str T13Path T13ListStr T13View.
Open Scope N_scope.

(* ---------- component lists *)
Fixpoint childb (sc p : list str) : bool :=
  match sc, p with
  | [], [x] => true
  | a :: sc', b :: p' => eqb_str a b && childb sc' p'
  | _, _ => false
  end.

Lemma childb_spec sc : forall p, childb sc p = true <-> exists x, p = sc ++ [x].
Proof.
  induction sc as [|a sc IH]; intros p.
  - destruct p as [|x [|y p]]; cbn; split; intro H; try discriminate; try (destruct H as (x0 & H); discriminate).
    + exists x. reflexivity.
    + reflexivity.
  - destruct p as [|b p]; cbn [childb]; [split; [discriminate|intros (x & H); discriminate]|].
    rewrite andb_true_iff, eqb_str_eq, IH. split.
    + intros (-> & x & ->). exists x. reflexivity.
    + intros (x & H). cbn in H. inversion H; subst. split; [reflexivity|exists x; reflexivity].
Qed.

Lemma childb_app pre q p : childb (pre ++ q) (pre ++ p) = childb q p.
Proof. induction pre as [|a pre IH]; cbn [app childb]; [reflexivity|]. rewrite eqb_str_refl. exact IH. Qed.

Lemma childb_snoc sc x : childb sc (sc ++ [x]) = true.
Proof. apply childb_spec. exists x. reflexivity. Qed.

Lemma childb_false sc p : (forall x, p <> sc ++ [x]) -> childb sc p = false.
Proof.
  intro H. destruct (childb sc p) eqn:E; [|reflexivity]. apply childb_spec in E as (x & E). exfalso. exact (H x E).
Qed.

(* ---------- join_slash on okc components *)
Lemma join_cons a r : r <> [] -> join_slash (a :: r) = a ++ slash :: join_slash r.
Proof. destruct r; [contradiction|reflexivity]. Qed.

Lemma join_snoc cs c : cs <> [] -> join_slash (cs ++ [c]) = join_slash cs ++ slash :: c.
Proof. intro H. rewrite join_app by (assumption || discriminate). reflexivity. Qed.

Lemma join_nil_iff cs : Forall okc cs -> (join_slash cs = [] <-> cs = []).
Proof.
  intro H. split; [|intros ->; reflexivity]. intro E. destruct cs as [|a r]; [reflexivity|].
  exfalso. apply (join_nonempty (a :: r)); [discriminate|exact H|exact E].
Qed.

Lemma join_inj cs ds : Forall okc cs -> Forall okc ds -> join_slash cs = join_slash ds -> cs = ds.
Proof.
  intros Hc Hd E. apply (pth_inj cs ds Hc Hd). unfold pth. rewrite E. reflexivity.
Qed.

Lemma join_not_abs cs : Forall okc cs -> is_abs (join_slash cs) = false.
Proof.
  intro H. destruct cs as [|a r]; [reflexivity|]. inversion H as [|? ? Ha Hr]; subst.
  destruct (join_head a r Ha) as (x & t & E & Ex). rewrite E. exact Ex.
Qed.

Lemma join_no_trailing cs : Forall okc cs -> has_suffix [slash] (join_slash cs) = false.
Proof.
  intro H. destruct cs as [|a r]; [reflexivity|].
  rewrite has_suffix_slash. destruct (join_last (a :: r) ltac:(discriminate) H) as (t & x & E & Ex).
  rewrite E. exact Ex.
Qed.

Lemma join_trim_slash cs : Forall okc cs -> trim_suffix [slash] (join_slash cs) = join_slash cs.
Proof. intro H. apply trim_suffix_false. apply join_no_trailing. exact H. Qed.

Lemma trim_slash_rel cs : Forall okc cs -> trim_prefix [slash] (join_slash cs) = join_slash cs.
Proof.
  intro H. pose proof (join_not_abs cs H) as E. destruct (join_slash cs) as [|c n]; [reflexivity|].
  unfold trim_prefix. cbn [has_prefix]. cbn [is_abs] in E. rewrite N.eqb_sym, E. reflexivity.
Qed.

Lemma trim_suffix_snoc_slash x : trim_suffix [slash] (x ++ [slash]) = x.
Proof.
  unfold trim_suffix, has_suffix. rewrite rev_app_distr. cbn [rev app has_prefix]. rewrite N.eqb_refl. cbn [andb].
  rewrite app_length. cbn [length]. replace (length x + 1 - 1)%nat with (length x) by lia.
  rewrite firstn_app, firstn_all, Nat.sub_diag. cbn [firstn]. apply app_nil_r.
Qed.

Lemma join_is_root cs : Forall okc cs -> cs <> [] -> is_root_name (join_slash cs) = false.
Proof.
  intros H Hn. destruct cs as [|a r]; [contradiction|]. inversion H as [|? ? Ha Hr]; subst.
  destruct Ha as (A1 & A2 & A3 & A4). unfold is_root_name.
  destruct r as [|b r].
  - cbn [join_slash].
    assert (E1 : eqb_str a [] = false) by (apply eqb_str_neq; exact A1).
    assert (E2 : eqb_str a [dot] = false) by (apply eqb_str_neq; exact A2).
    assert (E3 : eqb_str a [slash] = false) by (apply eqb_str_neq; intros ->; apply A4; left; reflexivity).
    assert (E4 : eqb_str a [dot; slash] = false) by (apply eqb_str_neq; intros ->; apply A4; right; left; reflexivity).
    rewrite E1, E2, E3, E4. reflexivity.
  - rewrite join_cons by discriminate.
    destruct a as [|x [|y a]]; [contradiction| |].
    + assert (x <> dot) by (intros ->; apply A2; reflexivity).
      assert (x <> slash) by (intros ->; apply A4; left; reflexivity).
      cbn. destruct (x =? dot) eqn:E; [apply N.eqb_eq in E; contradiction|].
      destruct (x =? slash) eqn:E'; [apply N.eqb_eq in E'; contradiction|]. reflexivity.
    + assert (y <> slash) by (intros ->; apply A4; right; left; reflexivity).
      cbn. destruct (y =? slash) eqn:E'; [apply N.eqb_eq in E'; contradiction|].
      rewrite !andb_false_r. reflexivity.
Qed.

(* ---------- path.Clean on the names a tar writer emits *)
Definition keepb (c : str) : bool := negb (eqb_str c [] || is_dot c).

Lemma clean_comps_rel l : forall stk, Forall (fun c => okc c \/ c = [] \/ c = [dot]) l ->
  clean_comps false l stk = rev stk ++ filter keepb l.
Proof.
  induction l as [|c l IH]; intros stk H; cbn [clean_comps filter].
  - rewrite app_nil_r. reflexivity.
  - inversion H as [|? ? Hc Hl]; subst. destruct Hc as [Hc|[Hc|Hc]].
    + destruct (okc_flags c Hc) as (E1 & E2 & E3). unfold keepb. rewrite E1, E2, E3. cbn [orb negb].
      rewrite IH by exact Hl. cbn [rev]. rewrite <- app_assoc. reflexivity.
    + subst c. cbn. apply IH. exact Hl.
    + subst c. cbn. apply IH. exact Hl.
Qed.

Lemma filter_keepb_okc cs : Forall okc cs -> filter keepb cs = cs.
Proof.
  induction 1 as [|c cs Hc _ IH]; [reflexivity|]. cbn [filter]. unfold keepb at 1.
  destruct (okc_flags c Hc) as (E1 & E2 & _). rewrite E1, E2. cbn. rewrite IH. reflexivity.
Qed.

(* a relative name whose components are okc, "" or ".", with at least one okc: Clean keeps the okc ones *)
Lemma path_clean_rel_gen x l cs :
  is_abs x = false -> x <> [] -> split_slash x = l -> Forall (fun c => okc c \/ c = [] \/ c = [dot]) l ->
  filter keepb l = cs -> cs <> [] -> path_clean x = join_slash cs.
Proof.
  intros Ha Hx Hs Hl Hf Hn. unfold path_clean. destruct x as [|c x']; [contradiction|].
  cbn [is_abs] in Ha. rewrite Ha. rewrite Hs, clean_comps_rel by exact Hl. cbn [rev app]. rewrite Hf.
  destruct (join_slash cs) eqn:E; [|reflexivity].
  exfalso. assert (Forall okc cs).
  { subst cs. clear -Hl. induction Hl as [|a l Ha _ IH]; [constructor|]. cbn [filter]. unfold keepb at 1.
    destruct Ha as [Ha|[->| ->]]; [|exact IH|exact IH].
    destruct (okc_flags a Ha) as (E1 & E2 & _). rewrite E1, E2. cbn. constructor; assumption. }
  apply join_nil_iff in E; [contradiction|assumption].
Qed.

Lemma okc_or cs : Forall okc cs -> Forall (fun c => okc c \/ c = [] \/ c = [dot]) cs.
Proof. intro H. eapply Forall_impl; [|exact H]. intros; left; assumption. Qed.

(* "d/f/" and "d/f" *)
Lemma path_clean_rel_trailing cs : cs <> [] -> Forall okc cs -> path_clean (join_slash cs ++ [slash]) = join_slash cs.
Proof.
  intros Hn H. apply (path_clean_rel_gen _ (cs ++ [[]]) cs).
  - destruct cs as [|a r]; [contradiction|]. inversion H as [|? ? Ha Hr]; subst.
    destruct (join_head a r Ha) as (x & t & E & Ex). rewrite E. exact Ex.
  - destruct (join_slash cs); discriminate.
  - rewrite split_slash_app. rewrite split_join; [reflexivity|exact Hn|apply okc_noslash; exact H].
  - apply Forall_app. split; [apply okc_or; exact H|constructor; [right; left; reflexivity|constructor]].
  - rewrite filter_app, filter_keepb_okc by exact H. cbn. apply app_nil_r.
  - exact Hn.
Qed.

(* "./d/f/" and "./d/f" *)
Lemma path_clean_dotslash cs : cs <> [] -> Forall okc cs -> path_clean ([dot; slash] ++ join_slash cs) = join_slash cs.
Proof.
  intros Hn H. apply (path_clean_rel_gen _ ([dot] :: cs) cs).
  - reflexivity.
  - discriminate.
  - change ([dot; slash] ++ join_slash cs) with ([dot] ++ slash :: join_slash cs).
    rewrite split_slash_app. rewrite split_join; [reflexivity|exact Hn|apply okc_noslash; exact H].
  - constructor; [right; right; reflexivity|apply okc_or; exact H].
  - cbn [filter]. unfold keepb at 1. cbn. apply filter_keepb_okc. exact H.
  - exact Hn.
Qed.

Lemma path_clean_dotslash_trailing cs : cs <> [] -> Forall okc cs ->
  path_clean ([dot; slash] ++ join_slash cs ++ [slash]) = join_slash cs.
Proof.
  intros Hn H. apply (path_clean_rel_gen _ ([dot] :: cs ++ [[]]) cs).
  - reflexivity.
  - discriminate.
  - change ([dot; slash] ++ join_slash cs ++ [slash]) with ([dot] ++ slash :: (join_slash cs ++ slash :: [])).
    rewrite !split_slash_app. rewrite split_join; [reflexivity|exact Hn|apply okc_noslash; exact H].
  - constructor; [right; right; reflexivity|]. apply Forall_app. split; [apply okc_or; exact H|].
    constructor; [right; left; reflexivity|constructor].
  - cbn [filter]. unfold keepb at 1. cbn. rewrite filter_app, filter_keepb_okc by exact H. cbn. apply app_nil_r.
  - exact Hn.
Qed.

(* path.Join("", x) = Clean(x) *)
Lemma path_join2_nil x : x <> [] -> path_join2 [] x = path_clean x.
Proof. destruct x; [contradiction|reflexivity]. Qed.

(* ---------- path.Base, path.Join of a directory and a member *)
Lemma path_base_join sc x : Forall okc sc -> okc x -> path_base (join_slash (sc ++ [x])) = x.
Proof.
  intros H Hx.
  assert (F : Forall okc (sc ++ [x])) by (apply Forall_app; split; [exact H|constructor; [exact Hx|constructor]]).
  rewrite path_base_notrail.
  - destruct sc as [|a r].
    + cbn [app join_slash]. unfold after_last_slash. rewrite last_slash_aux_noslash by (apply okc_ns; exact Hx). reflexivity.
    + rewrite join_snoc by discriminate. apply after_last_slash_app. apply okc_ns. exact Hx.
  - intro E. apply join_nil_iff in E; [destruct sc; discriminate|exact F].
  - apply join_no_trailing. exact F.
Qed.

Lemma path_join2_rel sc x : sc <> [] -> Forall okc sc -> okc x ->
  path_join2 (join_slash sc) x = join_slash (sc ++ [x]).
Proof.
  intros Hn H Hx.
  assert (F : Forall okc (sc ++ [x])) by (apply Forall_app; split; [exact H|constructor; [exact Hx|constructor]]).
  unfold path_join2. destruct (join_slash sc) eqn:E.
  - apply join_nil_iff in E; [contradiction|exact H].
  - destruct x as [|x0 xt]; [destruct Hx as (K & _); contradiction|].
    rewrite <- E. rewrite <- join_snoc by exact Hn. apply path_clean_rel; [destruct sc; discriminate|exact F].
Qed.

Lemma path_join2_pth q x : Forall okc q -> okc x -> path_join2 (pth q) x = pth (q ++ [x]).
Proof.
  intros H Hx.
  assert (F : Forall okc (q ++ [x])) by (apply Forall_app; split; [exact H|constructor; [exact Hx|constructor]]).
  unfold path_join2, pth. destruct x as [|x0 xt]; [destruct Hx as (K & _); contradiction|].
  destruct q as [|a r].
  - cbn [join_slash app].
    change (path_clean (slash :: slash :: x0 :: xt)) with
      (slash :: join_slash (clean_comps true (split_slash (slash :: slash :: x0 :: xt)) [])).
    rewrite !split_slash_cons_slash.
    change (clean_comps true ([] :: [] :: split_slash (x0 :: xt)) []) with (clean_comps true (split_slash (x0 :: xt)) []).
    unfold split_slash. rewrite split_aux_noslash by (apply okc_ns; exact Hx). cbn [rev app].
    rewrite clean_comps_ok by (constructor; [left; exact Hx|constructor]).
    cbn [rev app filter]. destruct (okc_flags _ Hx) as (E1 & _). rewrite E1. reflexivity.
  - change (slash :: join_slash (a :: r)) with (pth (a :: r)).
    rewrite <- pth_snoc by discriminate. apply path_clean_good. apply good_pth. exact F.
Qed.

(* ---------- "direct child" on stored names *)
Lemma has_prefix_len_false p x : (length x < length p)%nat -> has_prefix p x = false.
Proof.
  intro H. destruct (has_prefix p x) eqn:E; [|reflexivity]. apply has_prefix_length in E. lia.
Qed.

Lemma noslash_existsb c : existsb (fun x => x =? slash) c = false -> noslash c.
Proof.
  intros H K. assert (existsb (fun x => x =? slash) c = true); [|congruence].
  apply existsb_exists. exists slash. split; [exact K|apply N.eqb_refl].
Qed.

Lemma join_under sc p : sc <> [] -> Forall okc sc -> Forall okc p ->
  has_prefix (join_slash sc ++ [slash]) (join_slash p) = true -> exists rs, rs <> [] /\ p = sc ++ rs.
Proof.
  intros Hn Hs Hp H.
  assert (U : under (pth sc) (pth p)).
  { unfold under, pth. cbn [app has_prefix]. rewrite N.eqb_refl. exact H. }
  destruct (prefix_dec sc p) as [(rs & ->)|Hno].
  - exists rs. split; [|reflexivity]. intros ->. rewrite app_nil_r in U. apply under_ne in U. apply U. reflexivity.
  - exfalso. assert (Hp0 : p <> []).
    { intros ->. cbn in H. destruct (join_slash sc); discriminate. }
    pose proof (under_pth sc p Hn Hs Hp) as K. apply K in U. destruct U as (rs & _ & E). exact (Hno rs E).
Qed.
