(* T02 / the reference: a small executable specification of the filesystem calls over an abstract
   namespace [ns] (name -> attributes), the abstraction function from the index, and the comparison
   used in the theorems (equality as finite maps).  Definitions and list-level lemmas only. *)
From Coq Require Import List NArith ZArith Bool Lia.
From Coq Require Import ZifyN ZifyBool.
Import ListNotations.
From STFS Require Import Str Db Tape Index Ops Fs Diff C01Str.
Open Scope N_scope.

(* ---------- the abstract namespace *)
Record node := {
  n_tf : N;                 (* kind: TypeDir / TypeReg *)
  n_size : N;
  n_mode : N;               (* permission bits *)
  n_uid : N; n_gid : N; n_uname : str; n_gname : str;
  n_mtime : Z; n_atime : Z; n_ctime : Z;
  n_cid : N * N             (* content id of a regular file: where its bytes live on the tape; (0,0) for the rest *)
}.
Definition ns := list (str * node).

Definition lookup (a : ns) (n : str) : option node :=
  match find (fun e => eqb_str (fst e) n) a with Some e => Some (snd e) | None => None end.

(* equality as finite maps (the order of entries is not part of the namespace) *)
Definition ns_eq (a b : ns) : Prop := forall m, lookup a m = lookup b m.

Definition ns_del (n : str) (a : ns) : ns := filter (fun e => negb (eqb_str (fst e) n)) a.
Definition ns_set (a : ns) (n : str) (v : node) : ns :=
  if existsb (fun e => eqb_str (fst e) n) a
  then map (fun e => if eqb_str (fst e) n then (n, v) else e) a
  else a ++ [(n, v)].

(* ---------- abstraction: the live rows, projected *)
Definition node_of (r : row) : node :=
  {| n_tf := r_tf r; n_size := r_size r; n_mode := perm_bits (r_mode r);
     n_uid := r_uid r; n_gid := r_gid r; n_uname := r_uname r; n_gname := r_gname r;
     n_mtime := r_mtime r; n_atime := r_atime r; n_ctime := r_ctime r;
     n_cid := if tf_regular (r_tf r) then (r_rec r, r_blk r) else (0, 0) |}.
Definition absp (p : pstate) : ns := map (fun r => (r_name r, node_of r)) (filter live (rows p)).
Definition abs (s : sys) : ns := absp (db s).

(* ---------- names *)
Definition is_dir (v : node) : bool := n_tf v =? TypeDir.
(* "<dir>/" ("/" for the root) *)
Definition pfx (n : str) : str := trim_suffix [slash] n ++ [slash].
(* m lies strictly below the directory name n *)
Definition below (n m : str) : bool := has_prefix (pfx n) m && negb (eqb_str m n).
Definition has_below (a : ns) (n : str) : bool := existsb (fun e => below n (fst e)) a.

(* every live entry sits in a tree: all its proper ancestors are live directories *)
Fixpoint paths_from (done cs : list str) : list str :=
  match cs with
  | [] => []
  | c0 :: r => (slash :: join_slash (done ++ [c0])) :: paths_from (done ++ [c0]) r
  end.
Definition comps (n : str) : list str :=         (* the components of a cleaned absolute name *)
  match n with _ :: (_ :: _) as body => split_slash body | _ => [] end.
Definition paths (n : str) : list str := [slash] :: paths_from [] (comps n).   (* "/", "/c1", "/c1/c2", ..., n *)
Definition ancestors (m : str) : list str := removelast (paths m).            (* the proper ancestors, root first *)
Definition closedb (a : ns) : bool :=
  forallb (fun e => forallb (fun p => match lookup a p with Some v => is_dir v | None => false end)
                            (ancestors (fst e))) a.
Definition closed (a : ns) : Prop :=
  forall m v, lookup a m = Some v -> forall p, good p -> below p m = true ->
  exists d, lookup a p = Some d /\ is_dir d = true.

(* ---------- the reference calls.  Each returns the new namespace and the outcome; a failed call
   returns the namespace unchanged. *)
Definition spec_parent (a : ns) (n : str) : outc :=
  match lookup a (path_dir n) with
  | None => ONotExist
  | Some p => if is_dir p then OOk else OIsFile
  end.

Definition new_node (c : cfg) (dir : bool) (perm : N) (now : Z) (cid : N * N) : node :=
  {| n_tf := if dir then TypeDir else TypeReg; n_size := 0; n_mode := perm_bits perm;
     n_uid := c_uid c; n_gid := c_gid c; n_uname := c_uname c; n_gname := c_gname c;
     n_mtime := now; n_atime := 0%Z; n_ctime := 0%Z; n_cid := if dir then (0, 0) else cid |}.

Definition spec_mkdir (c : cfg) (a : ns) (n : str) (perm : N) (now : Z) : ns * outc :=
  match spec_parent a n with
  | OOk => match lookup a n with
           | Some _ => (a, OExist)
           | None => (ns_set a n (new_node c true perm now (0, 0)), OOk)
           end
  | e => (a, e)
  end.

Definition spec_remove (a : ns) (n : str) : ns * outc :=
  match lookup a n with
  | None => (a, ONotExist)
  | Some v => if is_dir v && has_below a n then (a, ONotEmpty) else (ns_del n a, OOk)
  end.

Definition spec_remove_all (a : ns) (n : str) : ns * outc :=
  match lookup a n with
  | None => (a, OOk)
  | Some _ => (filter (fun e => negb (eqb_str (fst e) n || below n (fst e))) a, OOk)
  end.

Definition ns_upd (a : ns) (n : str) (f : node -> node) : ns :=
  map (fun e => if eqb_str (fst e) n then (fst e, f (snd e)) else e) a.

Definition with_mode (m : N) (v : node) : node :=
  {| n_tf := n_tf v; n_size := n_size v; n_mode := perm_bits m; n_uid := n_uid v; n_gid := n_gid v;
     n_uname := n_uname v; n_gname := n_gname v; n_mtime := n_mtime v; n_atime := n_atime v; n_ctime := n_ctime v;
     n_cid := n_cid v |}.
Definition with_owner (u g : N) (v : node) : node :=
  {| n_tf := n_tf v; n_size := n_size v; n_mode := n_mode v; n_uid := u; n_gid := g;
     n_uname := n_uname v; n_gname := n_gname v; n_mtime := n_mtime v; n_atime := n_atime v; n_ctime := n_ctime v;
     n_cid := n_cid v |}.
Definition with_times (at_ mt : Z) (v : node) : node :=
  {| n_tf := n_tf v; n_size := n_size v; n_mode := n_mode v; n_uid := n_uid v; n_gid := n_gid v;
     n_uname := n_uname v; n_gname := n_gname v; n_mtime := mt; n_atime := at_; n_ctime := n_ctime v;
     n_cid := n_cid v |}.

Definition spec_ch (a : ns) (n : str) (f : node -> node) : ns * outc :=
  match lookup a n with
  | None => (a, ONotExist)
  | Some _ => (ns_upd a n f, OOk)
  end.
Definition spec_chmod (a : ns) (n : str) (m : N) := spec_ch a n (with_mode m).
Definition spec_chown (a : ns) (n : str) (u g : N) := spec_ch a n (with_owner u g).
Definition spec_chtimes (a : ns) (n : str) (at_ mt : Z) := spec_ch a n (with_times at_ mt).

(* Rename: the entry and everything below it move; an existing target of the same kind is replaced
   (a directory only if it is empty) *)
Definition moved_name (old new m : str) : str := new ++ skipn (length old) m.
Definition ns_move (a : ns) (old new : str) : ns :=
  map (fun e => if eqb_str (fst e) old || below old (fst e) then (moved_name old new (fst e), snd e) else e) a.

Definition spec_rename (a : ns) (old new : str) : ns * outc :=
  if eqb_str old [slash] then (a, OInvalid) else
  match lookup a old with
  | None => (a, ONotExist)
  | Some sv =>
    if eqb_str old new then (a, OOk) else
    if is_dir sv && has_prefix (pfx old) new then (a, OInvalid) else
    match spec_parent a new with
    | OOk =>
      match lookup a new with
      | Some tv =>
        if negb (n_tf tv =? n_tf sv) then (a, OExist) else
        match spec_remove a new with
        | (a1, OOk) => (ns_move a1 old new, OOk)
        | x => (a, snd x)
        end
      | None => (ns_move a old new, OOk)
      end
    | e => (a, e)
    end
  end.

(* MkdirAll: every missing directory on the way is created *)
Fixpoint spec_mkdirall_loop (c : cfg) (a : ns) (ps : list str) (perm : N) (now : Z) : ns * outc :=
  match ps with
  | [] => (a, OOk)
  | p :: rest =>
    match lookup a p with
    | Some v => if is_dir v then spec_mkdirall_loop c a rest perm now else (a, OIsFile)
    | None => spec_mkdirall_loop c (ns_set a p (new_node c true perm now (0, 0))) rest perm now
    end
  end.
Definition spec_mkdirall (c : cfg) (a : ns) (n : str) (perm : N) (now : Z) : ns * outc :=
  match spec_mkdirall_loop c a (paths n) perm now with
  | (a', OOk) => (a', OOk)
  | (_, e) => (a, e)          (* a failed call changes nothing *)
  end.

(* Create; Write d; Close (the content id of the written file is a parameter).  A NEW file, with or without content,
   is owned by the creating process (c_uid, c_gid, c_uname, c_gname), has mode 0666, modification time [now] and access /
   change time 0 (the index records the times of the header that was written; nothing stamps these two).  Writing to an
   EXISTING file keeps its mode, owner, group, access and change time, replaces size and content and stamps the
   modification time (as the implementation does when it flushes content; only when NOTHING is written to an existing
   EMPTY file does the implementation do nothing at all, where this reference still stamps: T02Counter.v (2)). *)
Definition file_node (c : cfg) (size : N) (now : Z) (cid : N * N) : node :=
  {| n_tf := TypeReg; n_size := size; n_mode := perm_bits 438;
     n_uid := c_uid c; n_gid := c_gid c; n_uname := c_uname c; n_gname := c_gname c;
     n_mtime := now; n_atime := 0%Z; n_ctime := 0%Z; n_cid := cid |}.
Definition spec_create_file (c : cfg) (a : ns) (n : str) (size : N) (now : Z) (cid : N * N) : ns * outc :=
  match spec_parent a n with
  | OOk => match lookup a n with
           | Some v => if is_dir v then (a, OIsDir)
                       else (ns_upd a n (fun v =>
                               {| n_tf := TypeReg; n_size := size; n_mode := n_mode v; n_uid := n_uid v; n_gid := n_gid v;
                                  n_uname := n_uname v; n_gname := n_gname v; n_mtime := now; n_atime := n_atime v;
                                  n_ctime := n_ctime v; n_cid := cid |}), OOk)
           | None => (ns_set a n (file_node c size now cid), OOk)
           end
  | e => (a, e)
  end.

(* ---------- executable comparison, for the tests *)
Definition eqb_pair (x y : N * N) : bool := (fst x =? fst y) && (snd x =? snd y).
Definition eqb_node (x y : node) : bool :=
  (n_tf x =? n_tf y) && (n_size x =? n_size y) && (n_mode x =? n_mode y) && (n_uid x =? n_uid y) && (n_gid x =? n_gid y)
  && eqb_str (n_uname x) (n_uname y) && eqb_str (n_gname x) (n_gname y)
  && (n_mtime x =? n_mtime y)%Z && (n_atime x =? n_atime y)%Z && (n_ctime x =? n_ctime y)%Z && eqb_pair (n_cid x) (n_cid y).
Definition ns_eqb (a b : ns) : bool :=
  forallb (fun e => eqb_opt eqb_node (lookup a (fst e)) (lookup b (fst e))) (a ++ b).
Definition outc_eqb (x y : outc) : bool :=
  match x, y with
  | OOk, OOk | ONotExist, ONotExist | OExist, OExist | OPerm, OPerm | OInvalid, OInvalid
  | OIsDir, OIsDir | OIsFile, OIsFile | ONotEmpty, ONotEmpty => true
  | OOther i, OOther j => i =? j
  | _, _ => false
  end.

(* ---------- lookups in the results of the list operations *)
Lemma lookup_cons e a m : lookup (e :: a) m = if eqb_str (fst e) m then Some (snd e) else lookup a m.
Proof. unfold lookup. cbn [find]. destruct (eqb_str (fst e) m); reflexivity. Qed.

Lemma lookup_filter (P : str -> bool) a m :
  lookup (filter (fun e => negb (P (fst e))) a) m = if P m then None else lookup a m.
Proof.
  induction a as [|e a IH]; cbn [filter]; [unfold lookup; cbn; destruct (P m); reflexivity|].
  destruct (P (fst e)) eqn:Pe; cbn [negb].
  - rewrite IH, lookup_cons. destruct (eqb_str (fst e) m) eqn:E; [|reflexivity].
    apply eqb_str_eq in E. rewrite <- E, Pe. reflexivity.
  - rewrite !lookup_cons, IH. destruct (eqb_str (fst e) m) eqn:E; [|reflexivity].
    apply eqb_str_eq in E. rewrite <- E, Pe. reflexivity.
Qed.

Lemma lookup_ns_del n a m : lookup (ns_del n a) m = if eqb_str m n then None else lookup a m.
Proof.
  unfold ns_del. rewrite (lookup_filter (fun x => eqb_str x n)). reflexivity.
Qed.

Lemma lookup_none_existsb a n : existsb (fun e => eqb_str (fst e) n) a = false -> lookup a n = None.
Proof.
  unfold lookup. induction a as [|e a IH]; cbn; [reflexivity|]. intro H. apply orb_false_iff in H as [H1 H2].
  rewrite H1. apply IH. exact H2.
Qed.

Lemma lookup_app a b m : lookup (a ++ b) m = match lookup a m with Some v => Some v | None => lookup b m end.
Proof.
  induction a as [|e a IH]; [reflexivity|]. cbn [app]. rewrite !lookup_cons. destruct (eqb_str (fst e) m); [reflexivity|exact IH].
Qed.

Lemma lookup_map_set a n v m :
  lookup (map (fun e => if eqb_str (fst e) n then (n, v) else e) a) m =
  if eqb_str m n then match lookup a n with Some _ => Some v | None => None end else lookup a m.
Proof.
  induction a as [|e a IH]; cbn [map]; [unfold lookup; cbn; destruct (eqb_str m n); reflexivity|].
  rewrite lookup_cons, IH. destruct (eqb_str (fst e) n) eqn:E1; cbn [fst snd].
  - apply eqb_str_eq in E1. rewrite eqb_str_sym. destruct (eqb_str m n) eqn:E2.
    + rewrite lookup_cons, E1, eqb_str_refl. reflexivity.
    + rewrite lookup_cons, E1, eqb_str_sym, E2. reflexivity.
  - destruct (eqb_str (fst e) m) eqn:E2.
    + apply eqb_str_eq in E2. rewrite <- E2, E1. rewrite lookup_cons, eqb_str_refl. reflexivity.
    + destruct (eqb_str m n) eqn:E3; [|rewrite lookup_cons, E2; reflexivity].
      rewrite lookup_cons, E1. reflexivity.
Qed.

Lemma lookup_ns_set a n v m : lookup (ns_set a n v) m = if eqb_str m n then Some v else lookup a m.
Proof.
  unfold ns_set. destruct (existsb (fun e => eqb_str (fst e) n) a) eqn:E.
  - rewrite lookup_map_set. destruct (eqb_str m n); [|reflexivity].
    destruct (lookup a n) eqn:K; [reflexivity|]. exfalso.
    apply existsb_exists in E as (e & He & Ee). unfold lookup in K.
    destruct (find (fun e => eqb_str (fst e) n) a) eqn:F; [discriminate|].
    apply (find_none _ _ F) in He. congruence.
  - rewrite lookup_app. destruct (eqb_str m n) eqn:E2.
    + apply eqb_str_eq in E2. subst m. rewrite (lookup_none_existsb a n E). rewrite lookup_cons. cbn [fst snd]. rewrite eqb_str_refl. reflexivity.
    + destruct (lookup a m); [reflexivity|]. rewrite lookup_cons. cbn [fst]. rewrite eqb_str_sym, E2. reflexivity.
Qed.

Lemma lookup_ns_upd a n f m : lookup (ns_upd a n f) m = if eqb_str m n then option_map f (lookup a n) else lookup a m.
Proof.
  unfold ns_upd. induction a as [|e a IH]; cbn [map]; [unfold lookup; cbn; destruct (eqb_str m n); reflexivity|].
  rewrite lookup_cons, IH. destruct (eqb_str (fst e) n) eqn:E1; cbn [fst snd].
  - apply eqb_str_eq in E1. destruct (eqb_str (fst e) m) eqn:E2.
    + apply eqb_str_eq in E2. rewrite <- E2, E1, eqb_str_refl. rewrite lookup_cons, E1, eqb_str_refl. reflexivity.
    + destruct (eqb_str m n) eqn:E3.
      * apply eqb_str_eq in E3. subst m. rewrite E1, eqb_str_refl in E2. discriminate.
      * rewrite lookup_cons, E2. reflexivity.
  - destruct (eqb_str (fst e) m) eqn:E2.
    + apply eqb_str_eq in E2. rewrite <- E2, E1. rewrite lookup_cons, eqb_str_refl. reflexivity.
    + destruct (eqb_str m n) eqn:E3; [|rewrite lookup_cons, E2; reflexivity].
      rewrite lookup_cons, E1. reflexivity.
Qed.

Lemma ns_eq_refl a : ns_eq a a.
Proof. intro m. reflexivity. Qed.
Lemma ns_eq_trans a b c : ns_eq a b -> ns_eq b c -> ns_eq a c.
Proof. intros H1 H2 m. rewrite H1. apply H2. Qed.
Lemma ns_eq_sym a b : ns_eq a b -> ns_eq b a.
Proof. intros H m. symmetry. apply H. Qed.

Lemma perm_bits_idem m : perm_bits (perm_bits m) = perm_bits m.
Proof. unfold perm_bits. rewrite <- N.land_assoc. reflexivity. Qed.
