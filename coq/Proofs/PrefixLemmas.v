(* Layout arithmetic of cut tapes (C06): the headers applied form a prefix of the members, and every
   applied member except possibly the last one is wholly inside the cut. *)
From Coq Require Import List NArith ZArith Bool Lia.
From Coq Require Import ZifyN ZifyBool.
Import ListNotations.
From STFS Require Import Str Db Tape Index Prefix TapeLemmas.
Open Scope N_scope.
Ltac Zify.zify_post_hook ::= Z.div_mod_to_equations.

Lemma cdiv_ge a : a <= cdiv a 512 * 512.
Proof. unfold cdiv. lia. Qed.

(* members with starts, with the start offset made explicit *)
Fixpoint members_at (t : tape) (a : N) : list (N * member) :=
  match t with
  | [] => []
  | TM m :: r => (a, m) :: members_at r (a + item_blocks (TM m))
  | TT :: r => members_at r (a + 2)
  end.

Lemma all_members_at t a :
  flat_map (fun p => match snd p with TM m => [(fst p, m)] | TT => [] end) (with_starts t a) = members_at t a.
Proof. revert a. induction t as [|[m|] r IH]; intro a; cbn; [reflexivity| |]; rewrite IH; reflexivity. Qed.

Lemma all_members_eq t : all_members t = members_at t 0.
Proof. apply all_members_at. Qed.

(* every member of the rest of the tape starts at or after the end of the current one *)
Lemma members_at_ge t : forall a p, In p (members_at t a) -> a <= fst p.
Proof.
  induction t as [|[m|] r IH]; intros a p H; cbn in H; [contradiction| |].
  - destruct H as [<-|H]; cbn; [lia|]. apply IH in H. unfold item_blocks in H. lia.
  - apply IH in H. lia.
Qed.

Definition ordered (l : list (N * member)) : Prop :=
  forall i j p q, nth_error l i = Some p -> nth_error l j = Some q -> (i < j)%nat -> data_end p <= hdr_end q.

Lemma data_end_le_next a m q r : In q (members_at r (a + item_blocks (TM m))) -> data_end (a, m) <= hdr_end q.
Proof.
  intro H. apply members_at_ge in H. unfold data_end, hdr_end, item_blocks in *. cbn [fst snd] in *.
  pose proof (cdiv_ge (m_enc m)). nia.
Qed.

Lemma members_at_ordered t : forall a, ordered (members_at t a).
Proof.
  induction t as [|[m|] r IH]; intro a; cbn.
  - intros i j p q Hi. destruct i; discriminate.
  - intros i j p q Hi Hj Hij. destruct j as [|j]; [lia|]. cbn in Hj.
    destruct i as [|i]; cbn in Hi.
    + inversion Hi; subst p. apply data_end_le_next with (r := r). eapply nth_error_In; eassumption.
    + eapply (IH _ i j); eauto. lia.
  - apply IH.
Qed.

Lemma hdr_le_data p : hdr_end p <= data_end p.
Proof. unfold data_end. lia. Qed.

(* on an ordered list, filtering by "header end <= n" keeps a prefix *)
Lemma filter_prefix (l : list (N * member)) n : ordered l ->
  exists j, filter (fun p => hdr_end p <=? n) l = firstn j l.
Proof.
  induction l as [|p l IH]; intro Ho; [exists 0%nat; reflexivity|].
  cbn. destruct (hdr_end p <=? n) eqn:E.
  - destruct IH as [j Hj].
    { intros i k a b Hi Hk Hik. apply (Ho (S i) (S k) a b); cbn; auto. lia. }
    exists (S j). cbn. now rewrite Hj.
  - exists 0%nat. cbn.
    (* nothing later can pass either *)
    assert (forall q, In q l -> (hdr_end q <=? n) = false) as Hall.
    { intros q Hq. apply In_nth_error in Hq as [k Hk].
      pose proof (Ho 0%nat (S k) p q eq_refl Hk ltac:(lia)) as H. pose proof (hdr_le_data p). lia. }
    clear -Hall. induction l as [|q l IH]; [reflexivity|]. cbn. rewrite (Hall q (or_introl eq_refl)). apply IH.
    intros r Hr. apply Hall. right. exact Hr.
Qed.

Theorem applied_is_prefix t n : exists j, applied t n = firstn j (all_members t).
Proof. unfold applied. apply filter_prefix. rewrite all_members_eq. apply members_at_ordered. Qed.

Lemma nth_error_firstn_some {A} (l : list A) : forall k i x, nth_error (firstn k l) i = Some x -> nth_error l i = Some x.
Proof.
  induction l as [|a l IH]; intros k i x H; destruct k; cbn in H; try (destruct i; discriminate).
  destruct i; cbn in *; [exact H|eapply IH; exact H].
Qed.

Lemma forallb_filter_id {A} (f : A -> bool) l : forallb f l = true -> filter f l = l.
Proof. induction l as [|a l IH]; cbn; [reflexivity|]. intro H. apply andb_true_iff in H as [Ha Hl]. rewrite Ha, (IH Hl). reflexivity. Qed.

(* every applied member that is followed by another applied member is wholly inside the cut *)
Theorem applied_complete_but_last t n i j p q :
  nth_error (applied t n) i = Some p -> nth_error (applied t n) j = Some q -> (i < j)%nat -> data_end p <= n.
Proof.
  destruct (applied_is_prefix t n) as [k Hk]. intros Hi Hj Hij.
  assert (Hq : hdr_end q <= n).
  { apply nth_error_In in Hj. unfold applied in Hj. apply filter_In in Hj as [_ H]. lia. }
  rewrite Hk in Hi, Hj.
  assert (Ho := members_at_ordered t 0). rewrite <- all_members_eq in Ho.
  assert (Hi' : nth_error (all_members t) i = Some p) by (eapply nth_error_firstn_some; exact Hi).
  assert (Hj' : nth_error (all_members t) j = Some q) by (eapply nth_error_firstn_some; exact Hj).
  pose proof (Ho i j p q Hi' Hj' Hij). lia.
Qed.

(* the whole tape: every header applied, nothing torn *)
Lemma all_members_within t p : In p (all_members t) -> data_end p <= tape_blocks t * 512.
Proof.
  unfold all_members. rewrite in_flat_map. intros [[a i] [Hin Hp]]. cbn in Hp. destruct i as [m|]; [|contradiction].
  destruct Hp as [<-|[]]. apply with_starts_lt in Hin. cbn in Hin.
  unfold data_end, hdr_end; cbn [fst snd]. pose proof (cdiv_ge (m_enc m)). nia.
Qed.

Theorem full_tape_all_applied t : applied t (tape_blocks t * 512) = all_members t /\ torn t (tape_blocks t * 512) = false.
Proof.
  split.
  - unfold applied. apply forallb_filter_id. apply forallb_forall. intros p Hp.
    pose proof (all_members_within t p Hp). pose proof (hdr_le_data p). lia.
  - unfold torn. apply not_true_is_false. intro H. apply existsb_exists in H as [p [Hp H]].
    pose proof (all_members_within t p Hp). lia.
Qed.
