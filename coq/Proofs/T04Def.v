(* T04 / definitions: the content a read of a live regular entry returns, the ghost map "what was last
   written under each name" (the reference for contents), and the predicate "the member a position designates
   is the content record of that entry".  Definitions only. *)
From Coq Require Import List NArith ZArith Bool.
Import ListNotations.
From STFS Require Import Str Db Tape Index Ops Fs File Diff Norm C01Str T02Ns T02Db T02Str.
Open Scope N_scope.

(* what a read of [n] returns when [n] is a live regular entry (Stat, then Restore -> GetHeader -> Fetch at the
   row's position); None for a missing name and for a directory *)
Definition content_of (c : cfg) (s : sys) (n : str) : option content :=
  match stat_s s n false with
  | (_, Ok h) =>
    if tf_regular (h_tf h) then match read_path c s n with (_, Ok x) => Some x | _ => None end else None
  | _ => None
  end.

(* the bytes a member carries (a member without data carries none) *)
Definition mdata (m : member) : content := match m_data m with Some d => d | None => [] end.

(* the same, from the abstract node of T02 and the tape: fetch at the content id *)
Definition cof (c : cfg) (t : tape) (v : option node) : option content :=
  match v with
  | Some x => if tf_regular (n_tf x) then fetch_at c t (fst (n_cid x)) (snd (n_cid x)) else None
  | None => None
  end.

(* ---------- the reference for contents: a ghost map from names to the content last written.
   CreateFile sets it, Remove / RemoveAll clear it, Rename moves it; only successful calls count. *)
Definition wmap := str -> option content.
Definition w_empty : wmap := fun _ => None.

Definition w_move (old new : str) (w : wmap) : wmap :=
  fun m => if inside new m then w (old ++ skipn (length new) m) else if inside old m then None else w m.

Definition upd_w (k : call) (o : outc) (w : wmap) : wmap :=
  match o with
  | OOk =>
    match k with
    | CCreateFile n d => fun m => if eqb_str m n then Some d else w m
    | CRemove n => fun m => if eqb_str m n then None else w m
    | CRemoveAll n => fun m => if inside n m then None else w m
    | CRename a b => if eqb_str a b then w else w_move a b w
    | _ => w
    end
  | _ => w
  end.

Fixpoint last_written (c : cfg) (s : sys) (h : list (call * env)) (w : wmap) : wmap :=
  match h with
  | [] => w
  | (k, e) :: r => let '(s', o) := step c (with_env s e) k in last_written c s' r (upd_w k o w)
  end.

(* equality of contents as byte strings (contents are piece lists; [expand] gives the bytes) *)
Definition content_eq (a b : option content) : Prop :=
  match a, b with
  | Some x, Some y => expand x = expand y
  | None, None => True
  | _, _ => False
  end.
Definition content_eqb (a b : option content) : bool :=
  match a, b with
  | Some x, Some y => ceqb x y
  | None, None => true
  | _, _ => false
  end.

(* ---------- "the member at this position is the content record of this entry" *)
Definition is_content_record (m : member) (size : N) : Prop :=
  tf_regular (h_tf (m_hdr m)) = true /\ hsize (m_hdr m) = Some size /\ clen (mdata m) = size.

(* every live regular entry's position designates a member of the tape that is a content record of its size *)
Definition designates (c : cfg) (s : sys) : Prop :=
  forall n v, lookup (abs s) n = Some v -> tf_regular (n_tf v) = true ->
    exists m, member_at (tp s) (off_of (c_rs c) (fst (n_cid v)) (snd (n_cid v))) = Some m /\
              is_content_record m (n_size v).

(* executable versions, for the tests *)
Definition is_content_recordb (m : member) (size : N) : bool :=
  tf_regular (h_tf (m_hdr m)) && match hsize (m_hdr m) with Some x => x =? size | None => false end
  && (clen (mdata m) =? size).
Definition designatesb (c : cfg) (s : sys) : bool :=
  forallb (fun e => let v := snd e in
                    negb (tf_regular (n_tf v)) ||
                    match member_at (tp s) (off_of (c_rs c) (fst (n_cid v)) (snd (n_cid v))) with
                    | Some m => is_content_recordb m (n_size v)
                    | None => false
                    end) (abs s).
