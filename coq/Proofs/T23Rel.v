(* T23 / Rel: the relation between the WRITER TWIN of a foreign archive (absolute spelling, cached root "/": the twin of
   the style "/", Proofs/T20Twin.v) and the instance opened over the archive written below a NAMED top directory
   (cached root "top", stored names "top", "top/d/f").

   The name map [psi top]: "/" -> "top", "/d/f" -> "top/d/f".  Under the cached root "top" getSanitizedPath returns every
   name unchanged (T17Db.sanitize_named), so the spelling the caller hands in IS the stored spelling; the calls the two
   instances receive therefore differ ([ren_call]: "/d/f" on the twin, "top/d/f" on the named instance), and everything
   the named instance stores or writes is the EXACT psi-image of what the twin stores or writes:
   - index rows: same rows in the same order, tombstones included; every column equal except r_name (psi) and the value
     of the PAX record STFS.ReplacesName (psi);
   - tape: same header-block counts, contents and encoded sizes, hence the same positions (the headers of the foreign
     members differ in their spelling - "top/d/" against "/d/" - and are not related; the headers appended later are
     related by [hrel] when they are appended);
   - cached root "/" vs "top" (or "" for the index a rebuild of the named instance's tape produces: a rebuild never
     reads the root). *)
From Coq Require Import List NArith ZArith Bool.
Import ListNotations.
From STFS Require Import Str Db Tape Index Ops Fs Diff Norm T19Rel.
Open Scope N_scope.

Definition psi (top n : str) : str := if eqb_str n [slash] then top else top ++ n.

(* the renamed call: what the named instance receives when the twin receives [k] *)
Definition ren_call (top : str) (k : call) : call :=
  match k with
  | CMkdir n p => CMkdir (psi top n) p
  | CMkdirAll n p => CMkdirAll (psi top n) p
  | CRemove n => CRemove (psi top n)
  | CRemoveAll n => CRemoveAll (psi top n)
  | CRename a b => CRename (psi top a) (psi top b)
  | CChmod n m => CChmod (psi top n) m
  | CChown n u g => CChown (psi top n) u g
  | CChtimes n a m => CChtimes (psi top n) a m
  | CCreateFile n d => CCreateFile (psi top n) d
  | CWriteFile n o p d f => CWriteFile (psi top n) o p d f
  | k => k
  end.
Definition ren_hist (top : str) (h : list (call * env)) : list (call * env) := map (fun ke => (ren_call top (fst ke), snd ke)) h.

Section Rel.
Variable top : str.

Definition vrel (k va vr : str) : Prop := vr = if eqb_str k K_replaces_name then psi top va else va.
Definition kvrel (a r : str * str) : Prop := fst r = fst a /\ vrel (fst a) (snd a) (snd r).
Definition pax_rel (a r : pax) : Prop := Forall2 kvrel a r.

Record rowrel (a r : row) : Prop := {
  rr_abs : is_abs (r_name a) = true;
  rr_name : r_name r = psi top (r_name a);
  rr_link : r_link r = r_link a;
  rr_tf : r_tf r = r_tf a; rr_size : r_size r = r_size a; rr_mode : r_mode r = r_mode a;
  rr_uid : r_uid r = r_uid a; rr_gid : r_gid r = r_gid a; rr_uname : r_uname r = r_uname a; rr_gname : r_gname r = r_gname a;
  rr_mtime : r_mtime r = r_mtime a; rr_atime : r_atime r = r_atime a; rr_ctime : r_ctime r = r_ctime a;
  rr_rec : r_rec r = r_rec a; rr_blk : r_blk r = r_blk a; rr_lkrec : r_lkrec r = r_lkrec a; rr_lkblk : r_lkblk r = r_lkblk a;
  rr_del : r_del r = r_del a;
  rr_pax : pax_rel (r_pax a) (r_pax r) }.

Record hrel (a r : hdr) : Prop := {
  hr_name : h_name r = psi top (h_name a);
  hr_link : h_link r = h_link a;
  hr_tf : h_tf r = h_tf a; hr_size : h_size r = h_size a; hr_mode : h_mode r = h_mode a;
  hr_uid : h_uid r = h_uid a; hr_gid : h_gid r = h_gid a; hr_uname : h_uname r = h_uname a; hr_gname : h_gname r = h_gname a;
  hr_mtime : h_mtime r = h_mtime a; hr_atime : h_atime r = h_atime a; hr_ctime : h_ctime r = h_ctime a;
  hr_pax : pax_rel (h_pax a) (h_pax r) }.

Record mrel (a r : member) : Prop := {
  mr_hdr : hrel (m_hdr a) (m_hdr r);
  mr_hb : m_hb r = m_hb a; mr_data : m_data r = m_data a; mr_enc : m_enc r = m_enc a }.

(* the tapes: positions and contents only *)
Inductive irel : titem -> titem -> Prop :=
| irel_T : irel TT TT
| irel_M a r : m_hb r = m_hb a -> m_data r = m_data a -> m_enc r = m_enc a -> irel (TM a) (TM r).
Definition tape_rel (a r : tape) : Prop := Forall2 irel a r.
Definition rows_rel (a r : list row) : Prop := Forall2 rowrel a r.

(* [rt]: the cached root of the named instance's index: "top" for the running index, "" for the index a rebuild of its
   tape produces (a rebuild never reads the root) *)
Record prel (rt : str) (a r : pstate) : Prop := {
  pr_rows : rows_rel (rows a) (rows r);
  pr_root_a : root a = [slash];
  pr_root_r : root r = rt }.

Record R (sa sr : sys) : Prop := {
  R_tp : tape_rel (tp sa) (tp sr);
  R_db : prel top (db sa) (db sr) }.
Record Re (sa sr : sys) : Prop := {
  Re_R : R sa sr;
  Re_hbq : hbq sr = hbq sa; Re_encq : encq sr = encq sa; Re_clk : clk sr = clk sa }.

(* the visible trees: the same entries, the paths renamed *)
Definition ren_entry (e : entry) : entry :=
  {| e_path := psi top (e_path e); e_tf := e_tf e; e_size := e_size e; e_mode := e_mode e; e_uid := e_uid e; e_gid := e_gid e;
     e_mtime := e_mtime e; e_link := e_link e; e_data := e_data e |}.

(* ---------- the same relation as a boolean checker (for tests by computation) *)
Definition vrelb (k va vr : str) : bool := eqb_str vr (if eqb_str k K_replaces_name then psi top va else va).
Fixpoint pax_relb (a r : pax) : bool :=
  match a, r with
  | [], [] => true
  | (k, v) :: a', (k', v') :: r' => eqb_str k' k && vrelb k v v' && pax_relb a' r'
  | _, _ => false
  end.
Definition rowrelb (a r : row) : bool :=
  is_abs (r_name a) && eqb_str (r_name r) (psi top (r_name a)) && eqb_str (r_link r) (r_link a) && (r_tf r =? r_tf a) && (r_size r =? r_size a)
  && (r_mode r =? r_mode a) && (r_uid r =? r_uid a) && (r_gid r =? r_gid a)
  && eqb_str (r_uname r) (r_uname a) && eqb_str (r_gname r) (r_gname a)
  && (r_mtime r =? r_mtime a)%Z && (r_atime r =? r_atime a)%Z && (r_ctime r =? r_ctime a)%Z
  && (r_rec r =? r_rec a) && (r_blk r =? r_blk a) && (r_lkrec r =? r_lkrec a) && (r_lkblk r =? r_lkblk a)
  && Bool.eqb (r_del r) (r_del a) && pax_relb (r_pax a) (r_pax r).
Definition irelb (a r : titem) : bool :=
  match a, r with
  | TT, TT => true
  | TM x, TM y => (m_hb y =? m_hb x) && eqb_ocontent (m_data y) (m_data x) && (m_enc y =? m_enc x)
  | _, _ => false
  end.
Definition prelb (a r : pstate) : bool :=
  eqb_list rowrelb (rows a) (rows r) && eqb_str (root a) [slash] && eqb_str (root r) top.
Definition Rb (sa sr : sys) : bool := eqb_list irelb (tp sa) (tp sr) && prelb (db sa) (db sr).
End Rel.
