(* C01 / the afero-level calls preserve the state invariant. *)
From Coq Require Import List NArith ZArith Bool Lia.
From Coq Require Import ZifyN ZifyBool.
Import ListNotations.
From STFS Require Import Str Db Tape Index Ops Fs Diff Norm TapeLemmas
  C01Str C01Db C01Inv C01Sim C01Tape C01Hdr C01Ops C01Ops2 C01Reads.
Open Scope N_scope.

Definition alive (lv : pstate) : Prop := live_name (rows lv) [slash] = true \/ nonroot_row lv.

Lemma live_alive lv n : live_name (rows lv) n = true -> alive lv.
Proof.
  intro H. destruct (live_name_row _ _ H) as (x & Hx & Hl & En).
  destruct (eqb_str n [slash]) eqn:E.
  - apply eqb_str_eq in E. left. rewrite <- E. exact H.
  - apply eqb_str_neq in E. right. exists x. split; [exact Hx|congruence].
Qed.

Lemma from_row_alive lv h : from_row lv h -> alive lv.
Proof.
  intros (d & Hin & Hlive & _). apply (live_alive lv (r_name d)).
  unfold live_name. apply existsb_exists. exists d. split; [exact Hin|]. rewrite Hlive, eqb_str_refl. reflexivity.
Qed.

Lemma alive_cpre lv n : alive lv -> cpre lv n.
Proof. intros [H|H]; [right; left; exact H|right; right; exact H]. Qed.

Lemma parent_check_lv2 hr s name : LI hr (db s) ->
  exists o, parent_check s name = (s, o) /\ (o = OOk -> alive (db s)).
Proof.
  intro HL. unfold parent_check. destruct (stat_s_false hr s (path_dir name) HL) as (res & E & P). rewrite E.
  destruct res as [h| | |e]; try contradiction.
  - destruct (h_tf h =? TypeDir); eexists; (split; [reflexivity|]); [intros _; eapply from_row_alive; exact P|discriminate].
  - eexists; split; [reflexivity|discriminate].
Qed.

Section FsOps.
Variable hr : bool.
Variable c : cfg.
Hypothesis HP : plain c.
Hypothesis Hrs : 0 < c_rs c.
Hypothesis Hro : c_readonly c = false.

Definition OKs (s : sys) : Prop := Inv hr c s /\ hbok s.

Ltac same_state := eexists _, _; split; [reflexivity|split; assumption].

(* ---------- Mkdir *)
Lemma fs_mkdir_ok s n perm : OKs s -> is_abs n = true ->
  exists s' o, fs_mkdir c s n perm = (s', o) /\ OKs s'.
Proof.
  intros [HI Hhb] Ha. pose proof (iv_li hr c s HI) as HL. unfold fs_mkdir. rewrite Hro.
  destruct (parent_check_lv2 hr s (path_clean n) HL) as (o & E & Hal). rewrite E.
  destruct o; try same_state.
  assert (MK : exists s' o, mknode c s true (path_clean n) perm false [] false = (s', o) /\ OKs s').
  { destruct (mknode_ok hr c HP Hrs Hro s true (path_clean n) perm HI Hhb (path_clean_abs_good n Ha)
                (alive_cpre _ _ (Hal eq_refl))) as (s' & E' & A & B & _).
    exists s', OOk. split; [exact E'|split; assumption]. }
  destruct (stat_s_false hr s (path_clean n) HL) as (res & E2 & P). rewrite E2.
  destruct res as [h| | |e]; try same_state; rewrite (stat_s_true hr s (path_clean n) HL); exact MK.
Qed.

(* ---------- MkdirAll *)
Lemma mkdirall_loop_ok perm parts : forall s cur, OKs s -> good cur -> alive (db s) ->
  exists s' o, mkdirall_loop c s cur false parts perm = (s', o) /\ OKs s'.
Proof.
  induction parts as [|part rest IH]; intros s cur [HI Hhb] G Hal; cbn [mkdirall_loop]; [same_state|].
  pose proof (iv_li hr c s HI) as HL. cbn [andb].
  destruct cur as [|c0 cr]; [exfalso; exact (good_nonempty [] G eq_refl)|].
  set (cur' := path_join2 (c0 :: cr) part).
  assert (G' : good cur') by (apply path_join2_good; exact G).
  destruct (stat_s_false hr s cur' HL) as (res & E2 & P). rewrite E2.
  destruct res as [h| | |e]; try same_state.
  - destruct (h_tf h =? TypeDir); [|same_state]. apply IH; [split; assumption|exact G'|exact Hal].
  - rewrite (stat_s_true hr s cur' HL).
    destruct (mknode_ok hr c HP Hrs Hro s true cur' perm HI Hhb G' (alive_cpre _ _ Hal)) as (s' & E' & A & B & Lv). rewrite E'.
    apply IH; [split; assumption|exact G'|eapply live_alive; exact Lv].
Qed.

Lemma fs_mkdirall_ok s n perm : OKs s -> is_abs n = true ->
  exists s' o, fs_mkdirall c s n perm = (s', o) /\ OKs s'.
Proof.
  intros [HI Hhb] Ha. pose proof (iv_li hr c s HI) as HL. unfold fs_mkdirall. rewrite Hro.
  destruct (path_clean_abs_good n Ha) as (cs & Hcs & ->).
  rewrite split_slash_cons_slash. cbn [mkdirall_loop]. cbn [eqb_str andb].
  destruct (stat_s_false hr s [slash] HL) as (res & E2 & P). rewrite E2.
  destruct res as [h| | |e]; try same_state.
  - destruct (h_tf h =? TypeDir); [|same_state].
    apply mkdirall_loop_ok; [split; assumption|apply good_root|eapply from_row_alive; exact P].
  - rewrite (stat_s_true hr s [slash] HL).
    destruct (mknode_ok hr c HP Hrs Hro s true [slash] perm HI Hhb good_root (or_introl eq_refl)) as (s' & E' & A & B & Lv). rewrite E'.
    apply mkdirall_loop_ok; [split; assumption|apply good_root|eapply live_alive; exact Lv].
Qed.

(* ---------- Remove / RemoveAll *)
Lemma delete_ok' s name : OKs s -> good name -> (hr = true -> name <> [slash]) ->
  exists s' o, delete_op c s name = (s', o) /\ OKs s'.
Proof.
  intros [HI Hhb] G Hn. destruct (delete_ok hr c HP Hrs s name HI Hhb G Hn) as (s' & o & E & A & B).
  exists s', o. split; [exact E|split; assumption].
Qed.

Lemma fs_remove_nl_ok s name : OKs s -> good name -> (hr = true -> name <> [slash]) ->
  exists s' o, fs_remove_nl c s name = (s', o) /\ OKs s'.
Proof.
  intros [HI Hhb] G Hn. pose proof (iv_li hr c s HI) as HL. unfold fs_remove_nl. rewrite Hro.
  assert (K : forall r, exists s' o,
     match r with
     | Ok h => if (h_tf h =? TypeDir) && eqb_str (h_link h) []
               then match inv_list (db s) name None with
                    | (p, Ok l) => match l with [] => delete_op c (set_db s p) name | _ :: _ => (set_db s p, ONotEmpty) end
                    | (p, e) => (set_db s p, outc_of_res e) end
               else delete_op c s name
     | NoRows => (s, ONotExist)
     | e => (s, outc_of_res e) end = (s', o) /\ OKs s').
  { intros [h| | |e]; try same_state.
    destruct ((h_tf h =? TypeDir) && eqb_str (h_link h) []); [|apply delete_ok'; [split; assumption|exact G|exact Hn]].
    pose proof (inv_list_fst hr (db s) name None HL) as El.
    destruct (inv_list (db s) name None) as [p [l| | |e]]; cbn [fst] in El; subst p; rewrite set_db_same; try same_state.
    destruct l; [|same_state]. apply delete_ok'; [split; assumption|exact G|exact Hn]. }
  destruct (stat_s_false hr s name HL) as (res & E2 & P). rewrite E2.
  destruct res as [h| | |e]; try contradiction.
  - apply (K (Ok h)).
  - rewrite (stat_s_true hr s name HL). apply (K NoRows).
Qed.

Lemma fs_remove_ok s n : OKs s -> is_abs n = true -> (hr = true -> path_clean n <> [slash]) ->
  exists s' o, fs_remove c s n = (s', o) /\ OKs s'.
Proof.
  intros HO Ha Hn. unfold fs_remove. rewrite Hro. apply fs_remove_nl_ok; [exact HO|apply path_clean_abs_good; exact Ha|exact Hn].
Qed.

Lemma fs_removeall_ok s n : OKs s -> is_abs n = true -> (hr = true -> path_clean n <> [slash]) ->
  exists s' o, fs_removeall c s n = (s', o) /\ OKs s'.
Proof.
  intros HO Ha Hn. unfold fs_removeall. rewrite Hro.
  destruct (delete_ok' s (path_clean n) HO (path_clean_abs_good n Ha) Hn) as (s' & o & E & A). rewrite E.
  destruct o; eexists _, _; (split; [reflexivity|exact A]).
Qed.

(* ---------- Chmod / Chown / Chtimes *)
Lemma from_row_facts lv h : LI hr lv -> from_row lv h ->
  good (h_name h) /\ h_link h = [] /\ usize_ok (h_pax h) /\ live_name (rows lv) (h_name h) = true.
Proof.
  intros HL (d & Hin & Hlive & ->). assert (Hrows : Forall rowok (rows lv)) by apply HL.
  rewrite Forall_forall in Hrows. destruct (Hrows d Hin) as (G & Hk & Hu).
  repeat split; try assumption. unfold live_name. apply existsb_exists. exists d. split; [exact Hin|].
  cbn [hdr_of_row h_name]. rewrite Hlive, eqb_str_refl. reflexivity.
Qed.

Lemma fs_update_meta_ok s n patch : OKs s -> is_abs n = true ->
  (forall h, h_name (patch h) = h_name h /\ h_link (patch h) = h_link h /\ h_pax (patch h) = h_pax h) ->
  exists s' o, fs_update_meta c s n patch = (s', o) /\ OKs s'.
Proof.
  intros [HI Hhb] Ha Hpatch. pose proof (iv_li hr c s HI) as HL. unfold fs_update_meta. rewrite Hro.
  destruct n as [|n0 n']; [discriminate|]. set (name := path_clean (n0 :: n')).
  destruct (stat_s_false hr s name HL) as (res & E2 & P). rewrite E2.
  destruct res as [h| | |e]; try contradiction.
  - destruct (from_row_facts (db s) h HL P) as (G & Hk & Hu & Hlive).
    destruct (Hpatch h) as (P1 & P2 & P3).
    destruct (update_ok hr c HP Hrs s {| f_hdr := patch h; f_data := [] |} false false HI Hhb) as (s' & E & A & B);
      cbn [f_hdr]; rewrite ?P1, ?P2, ?P3; try assumption.
    exists s', OOk. split; [exact E|split; assumption].
  - rewrite (stat_s_true hr s name HL). same_state.
Qed.
End FsOps.
