(* T23 / Db: every index operation commutes with the renaming [psi top] on related index states.
   Twin side: the C01 characterisations (index with cached root "/"; obtained through the T19 lemmas over the canonical
   reader of the twin's index).  Named side: under the cached root "top" (and under "" for relative cleaned names)
   getSanitizedPath returns the name unchanged and leaves the index state alone, so both sides run the SAME list
   functions on psi-related names. *)
From Coq Require Import List NArith ZArith Bool Lia.
From Coq Require Import ZifyN ZifyBool.
Import ListNotations.
From STFS Require T19Rel T19Base T19Db.
From STFS Require Import Str Db Tape Index Ops Fs Diff Norm StrLemmas C01Str C01Db C01Inv C01Sim C01Ops2
  T13Path T13ListStr T13List T17Str T17Db T23Rel T23Base.
Open Scope N_scope.
Set Default Proof Using "All".

(* ---------- the canonical T19 reader of a writer index: gives the writer-side equations of T19Db *)
Definition canon19 (pa : pstate) : pstate := {| rows := NR (rows pa); root := []; root_empty := true |}.

Lemma rows_rel19_NR l : Forall rowok l -> T19Rel.rows_rel l (NR l).
Proof.
  induction 1 as [|a l Ha _ IH]; constructor; [|exact IH]. destruct Ha as (G & _).
  constructor; try reflexivity; [apply good_abs; exact G|apply T19Base.pax_rel_refl].
Qed.

Lemma PR19 pa : LI true pa -> T19Db.PR pa (canon19 pa).
Proof.
  intro HL. split; [exact HL|]. split; [|exact (li_root _ _ HL)|reflexivity]. apply rows_rel19_NR. apply HL.
Qed.

Inductive optrel {A B} (P : A -> B -> Prop) : option A -> option B -> Prop :=
| optrel_none : optrel P None None
| optrel_some a b : P a b -> optrel P (Some a) (Some b).

Definition of_find (o : option row) : res row := match o with Some r => Ok r | None => NoRows end.
Definition stat_res (o : option row) : res hdr := match o with Some d => Ok (hdr_of_row d) | None => NoRows end.

Lemma like_absorb p x : sql_like (p ++ [pct]) x && has_prefix p x = has_prefix p x.
Proof. destruct (has_prefix p x) eqn:E; [rewrite (like_of_prefix p x E); reflexivity|apply andb_false_r]. Qed.

Lemma has_prefix_app_same t : forall u v, has_prefix (t ++ u) (t ++ v) = has_prefix u v.
Proof. induction t as [|a t IH]; intros u v; [reflexivity|]. cbn [app has_prefix]. rewrite N.eqb_refl. apply IH. Qed.

Section Top.
Variable top : str.
Hypothesis Htop : okc top.

Notation psi := (psi top).
Notation rowrel := (rowrel top).
Notation hrel := (hrel top).
Notation rows_rel := (rows_rel top).
Notation prel := (prel top).
Notation top_nonempty := (T23Base.top_nonempty top Htop).
Notation psi_root := (T23Base.psi_root top Htop).
Notation psi_pth := (T23Base.psi_pth top Htop).
Notation psi_good := (T23Base.psi_good top Htop).
Notation psi_nonroot := (T23Base.psi_nonroot top Htop).
Notation psi_inj := (T23Base.psi_inj top Htop).
Notation psi_eqb := (T23Base.psi_eqb top Htop).
Notation tcs_okc := (T23Base.tcs_okc top Htop).
Notation psi_not_abs := (T23Base.psi_not_abs top Htop).
Notation psi_nonempty := (T23Base.psi_nonempty top Htop).
Notation psi_is_root := (T23Base.psi_is_root top Htop).
Notation psi_clean := (T23Base.psi_clean top Htop).
Notation psi_trim_slash := (T23Base.psi_trim_slash top Htop).
Notation vrel_refl := (T23Base.vrel_refl top Htop).
Notation pax_rel_nil := (T23Base.pax_rel_nil top Htop).
Notation pax_get_rel := (T23Base.pax_get_rel top Htop).
Notation pax_get_rel_rn := (T23Base.pax_get_rel_rn top Htop).
Notation pax_set_rel := (T23Base.pax_set_rel top Htop).
Notation pax_set_rel_eq := (T23Base.pax_set_rel_eq top Htop).
Notation pax_del_rel := (T23Base.pax_del_rel top Htop).
Notation pax_rel_fun := (T23Base.pax_rel_fun top Htop).
Notation hrel_of_rowrel := (T23Base.hrel_of_rowrel top Htop).
Notation rowrel_of_hrel := (T23Base.rowrel_of_hrel top Htop).
Notation rowrel_set_lk := (T23Base.rowrel_set_lk top Htop).
Notation rowrel_set_name := (T23Base.rowrel_set_name top Htop).
Notation rowrel_fun := (T23Base.rowrel_fun top Htop).
Notation rows_rel_fun := (T23Base.rows_rel_fun top Htop).
Notation hrel_wsn := (T23Base.hrel_wsn top Htop).
Notation hrel_wsn_self := (T23Base.hrel_wsn_self top Htop).
Notation hrel_set_pax := (T23Base.hrel_set_pax top Htop).
Notation keep_size_rel := (T23Base.keep_size_rel top Htop).
Notation hrel_patch_mode := (T23Base.hrel_patch_mode top Htop).
Notation hrel_patch_owner := (T23Base.hrel_patch_owner top Htop).
Notation hrel_patch_times := (T23Base.hrel_patch_times top Htop).
Notation hrel_stamp := (T23Base.hrel_stamp top Htop).
Notation rowrel_name_eqb := (T23Base.rowrel_name_eqb top Htop).
Notation rowrel_key_eq := (T23Base.rowrel_key_eq top Htop).
Notation rowrel_live := (T23Base.rowrel_live top Htop).
Notation last_indexed_rel := (T23Base.last_indexed_rel top Htop).

(* the cached root of the named side: "top" (running index) or "" (rebuild in progress) *)
Definition RT (rt : str) : Prop := rt = top \/ rt = [].

Record PR (rt : str) (pa pr : pstate) : Prop := { PR_li : LI true pa; PR_rel : prel rt pa pr }.

Lemma PR_rowok rt pa pr : PR rt pa pr -> Forall rowok (rows pa).
Proof. intros [[_ _ [H _ _]] _]. exact H. Qed.

Lemma PR_good_r rt pa pr r : PR rt pa pr -> In r (rows pr) -> exists g, good g /\ r_name r = psi g /\ r_link r = [].
Proof.
  intros H Hr. destruct (F2_in_r _ _ _ r (pr_rows _ _ _ _ (PR_rel _ _ _ H)) Hr) as (a & Ha & Har).
  pose proof (PR_rowok _ _ _ H) as F. rewrite Forall_forall in F. destruct (F a Ha) as (G & Lk & _).
  exists (r_name a). split; [exact G|]. split; [exact (rr_name _ _ _ Har)|]. rewrite (rr_link _ _ _ Har). exact Lk.
Qed.

Lemma prel_with rt pa pr la lr : prel rt pa pr -> rows_rel la lr -> prel rt (with_rows pa la) (with_rows pr lr).
Proof. intros [A B C] H. split; [exact H|exact B|exact C]. Qed.

(* ---------- getSanitizedPath *)
Lemma sanitize_wr rt pa pr g : PR rt pa pr -> good g -> sanitize pa g = (pa, g).
Proof. intros H G. apply sanitize_live; [exact (pr_root_a _ _ _ _ (PR_rel _ _ _ H))|exact G]. Qed.

Lemma sanitize_top p n : root p = top -> is_root_name n = false -> sanitize p n = (p, n).
Proof.
  intros Hr Hn. rewrite sanitize_named by (rewrite Hr; exact Htop). rewrite Hn. cbn [orb].
  destruct (eqb_str n (root p)) eqn:E; [apply eqb_str_eq in E; rewrite E|]; reflexivity.
Qed.

Lemma sanitize_nil p n : root p = [] -> is_root_name n = false -> is_abs n = false -> path_clean n = n -> sanitize p n = (p, n).
Proof.
  intros Hr Hn Ha Hc. unfold sanitize. rewrite Hn, Hr. cbn [orb].
  assert (E : eqb_str n [] = false) by (destruct n; [discriminate Hn|reflexivity]). rewrite E. cbn [eqb_str].
  rewrite Ha. cbn [andb is_abs].
  assert (T : trim_prefix [slash] n = n).
  { unfold trim_prefix. destruct n as [|x n']; [reflexivity|]. cbn [has_prefix is_abs] in *. rewrite N.eqb_sym, Ha. reflexivity. }
  rewrite T. rewrite path_join2_nil by (destruct n; discriminate). rewrite Hc, ?Hr. reflexivity.
Qed.

Lemma sanitize_rd rt pa pr g : RT rt -> PR rt pa pr -> good g -> sanitize pr (psi g) = (pr, psi g).
Proof.
  intros [-> | ->] H G.
  - apply sanitize_top; [exact (pr_root_r _ _ _ _ (PR_rel _ _ _ H))|apply psi_is_root; assumption].
  - apply sanitize_nil; [exact (pr_root_r _ _ _ _ (PR_rel _ _ _ H))|apply psi_is_root; assumption|apply psi_not_abs; assumption|apply psi_clean; assumption].
Qed.

(* the directory spelling of a name *)
Lemma psi_slash_not_root g : good g -> is_root_name (psi g ++ [slash]) = false.
Proof.
  intro G. destruct (psi_good g G) as (cs & Hcs & _ & ->).
  destruct (join_head top cs Htop) as (x & t & E & Ex). rewrite E. unfold is_root_name. cbn [app eqb_str]. rewrite Ex.
  destruct (x =? dot) eqn:Ed; cbn [andb orb]; [|reflexivity].
  destruct t as [|y t]; cbn [app eqb_str].
  - exfalso. apply N.eqb_eq in Ed. subst x. destruct cs as [|b r].
    + cbn [join_slash] in E. destruct Htop as (_ & K & _). apply K. exact E.
    + rewrite join_cons in E by discriminate. destruct (okc_head top Htop) as (x0 & t0 & Et & _). rewrite Et in E.
      cbn [app] in E. injection E as _ E. destruct t0; discriminate.
  - destruct (y =? slash); destruct t; reflexivity.
Qed.

Lemma sanitize_rd_slash pa pr g : PR top pa pr -> good g -> sanitize pr (psi g ++ [slash]) = (pr, psi g ++ [slash]).
Proof.
  intros H G. apply sanitize_top; [exact (pr_root_r _ _ _ _ (PR_rel _ _ _ H))|apply psi_slash_not_root; exact G].
Qed.

(* ---------- lookups *)
Lemma min_link_rel la lr : rows_rel la lr -> forall ba br, optrel rowrel ba br -> optrel rowrel (min_link la ba) (min_link lr br).
Proof.
  induction 1 as [|a r la lr Har _ IH]; intros ba br Hb; cbn [min_link]; [exact Hb|].
  destruct Hb as [|b b' Hb].
  - apply IH. constructor. exact Har.
  - rewrite (rr_link _ _ _ Har), (rr_link _ _ _ Hb). destruct (ltb_str (r_link a) (r_link b)); apply IH; constructor; assumption.
Qed.

Lemma find_rows_rel la lr n : rows_rel la lr -> is_abs n = true -> optrel rowrel (find_rows la n) (find_rows lr (psi n)).
Proof.
  intros H Hn. unfold find_rows. apply min_link_rel; [|constructor].
  apply F2_filter; [exact H|]. intros a r _ _ Har. rewrite (rowrel_live _ _ Har), (rowrel_name_eqb _ _ n Har Hn). reflexivity.
Qed.

Lemma get_header_wr rt pa pr g : PR rt pa pr -> good g -> get_header pa g = (pa, of_find (find_rows (rows pa) g)).
Proof. intros H G. rewrite (get_header_lv true pa g (PR_li _ _ _ H) G). reflexivity. Qed.

Lemma get_header_rd rt pa pr g : RT rt -> PR rt pa pr -> good g ->
  get_header pr (psi g) = (pr, of_find (find_rows (rows pr) (psi g))).
Proof. intros Hrt H G. rewrite get_header_form, (sanitize_rd rt pa pr g Hrt H G). reflexivity. Qed.

Lemma find_rel rt pa pr g : PR rt pa pr -> good g -> optrel rowrel (find_rows (rows pa) g) (find_rows (rows pr) (psi g)).
Proof. intros H G. apply find_rows_rel; [exact (pr_rows _ _ _ _ (PR_rel _ _ _ H))|apply good_abs; exact G]. Qed.

(* no stored name ends in a slash *)
Lemma find_rows_trailing_rd rt pa pr g : PR rt pa pr -> good g -> find_rows (rows pr) (psi g ++ [slash]) = None.
Proof.
  intros H G. destruct (find_rows (rows pr) (psi g ++ [slash])) as [r|] eqn:E; [|reflexivity]. exfalso.
  apply find_rows_some in E as (Hin & _ & Nm). destruct (PR_good_r _ _ _ r H Hin) as (g' & G' & E' & _).
  destruct (psi_good g' G') as (cs & Hcs & _ & Ep). rewrite Nm, Ep in E'.
  pose proof (join_no_trailing (top :: cs) (tcs_okc cs Hcs)) as K. rewrite <- E' in K.
  unfold has_suffix in K. rewrite rev_app_distr in K. cbn in K. discriminate.
Qed.

Lemma get_header_slash_rd pa pr g : PR top pa pr -> good g -> get_header pr (psi g ++ [slash]) = (pr, NoRows).
Proof.
  intros H G. rewrite get_header_form, (sanitize_rd_slash pa pr g H G). cbn [fst snd].
  rewrite (find_rows_trailing_rd _ _ _ g H G). reflexivity.
Qed.

Lemma find_rows_row rt pa pr g d : PR rt pa pr -> find_rows (rows pa) g = Some d ->
  In d (rows pa) /\ live d = true /\ r_name d = g /\ r_link d = [] /\ rowok d.
Proof.
  intros H E. destruct (find_rows_link true pa g d (PR_li _ _ _ H) E) as (A & B & C).
  apply find_rows_some in E as (E1 & E2 & E3). repeat split; try assumption; apply C.
Qed.

(* inventory.Stat(name, false) *)
Lemma inv_stat_false_wr rt pa pr g : PR rt pa pr -> good g -> inv_stat pa g false = (pa, stat_res (find_rows (rows pa) g)).
Proof.
  intros H G. destruct (T19Db.inv_stat_false_sim pa (canon19 pa) g g (PR19 pa (PR_li _ _ _ H)) G (T19Base.nrel_refl _)) as (_ & _ & E & _).
  exact E.
Qed.

Lemma inv_stat_false_rd pa pr g : PR top pa pr -> good g -> inv_stat pr (psi g) false = (pr, stat_res (find_rows (rows pr) (psi g))).
Proof.
  intros H G. unfold inv_stat. rewrite (get_header_rd top pa pr g (or_introl eq_refl) H G).
  destruct (find_rows (rows pr) (psi g)) as [d|] eqn:Ef; cbn [of_find stat_res].
  - apply find_rows_some in Ef as (Hin & _). destruct (PR_good_r _ _ _ d H Hin) as (_ & _ & _ & Lk). rewrite Lk. reflexivity.
  - rewrite (psi_trim_slash g G), (get_header_slash_rd pa pr g H G). reflexivity.
Qed.

Lemma stat_res_rel oa or_ : optrel rowrel oa or_ -> T19Db.resrel hrel (stat_res oa) (stat_res or_).
Proof. intros [|a r H]; constructor. apply hrel_of_rowrel. exact H. Qed.

(* inventory.Stat(name, true): no link names in the index *)
Lemma links_nil rt pa pr : PR rt pa pr -> Forall (fun r => r_link r = []) (rows pa) /\ Forall (fun r => r_link r = []) (rows pr).
Proof.
  intro H. pose proof (PR_rowok _ _ _ H) as F. split.
  - eapply Forall_impl; [|exact F]. intros a (_ & K & _). exact K.
  - apply Forall_forall. intros r Hr. destruct (PR_good_r _ _ _ r H Hr) as (_ & _ & _ & K). exact K.
Qed.

Lemma gh_link_rd pa pr g : PR top pa pr -> good g ->
  get_header_by_linkname pr (psi g) = (pr, NoRows) /\ get_header_by_linkname pr (psi g ++ [slash]) = (pr, NoRows).
Proof.
  intros H G.
  assert (K : forall n, n <> [] -> filter (fun r => live r && eqb_str (r_link r) n) (rows pr) = []).
  { intros n Hn. apply filter_nil_all'. intros r Hr. destruct (links_nil _ _ _ H) as [_ F]. rewrite Forall_forall in F.
    rewrite (F r Hr). destruct n; [contradiction|]. apply andb_false_r. }
  split; unfold get_header_by_linkname.
  - rewrite (sanitize_rd top pa pr g (or_introl eq_refl) H G), (K _ (psi_nonempty g G)). reflexivity.
  - rewrite (sanitize_rd_slash pa pr g H G), K; [reflexivity|]. destruct (psi g); discriminate.
Qed.

Lemma inv_stat_true_rd pa pr g : PR top pa pr -> good g -> inv_stat pr (psi g) true = (pr, NoRows).
Proof.
  intros H G. unfold inv_stat. destruct (gh_link_rd pa pr g H G) as (E1 & E2).
  rewrite E1, (psi_trim_slash g G), E2. reflexivity.
Qed.

Lemma lookup_entry_wr rt pa pr g : PR rt pa pr -> good g -> lookup_entry pa g = (pa, of_find (find_rows (rows pa) g)).
Proof. intros H G. rewrite (lookup_entry_lv true pa g (PR_li _ _ _ H) G). reflexivity. Qed.

Lemma lookup_entry_rd pa pr g : PR top pa pr -> good g -> lookup_entry pr (psi g) = (pr, of_find (find_rows (rows pr) (psi g))).
Proof.
  intros H G. unfold lookup_entry. rewrite (get_header_rd top pa pr g (or_introl eq_refl) H G).
  destruct (find_rows (rows pr) (psi g)); cbn [of_find]; [reflexivity|]. exact (proj1 (gh_link_rd pa pr g H G)).
Qed.

(* ---------- GetHeaderChildren (the subtree of a directory other than the root) *)
Lemma psi_pth_app cs : Forall okc cs -> cs <> [] -> psi (pth cs) = top ++ pth cs.
Proof. intros H Hn. apply psi_nonroot. intro K. apply pth_root_iff in K; [contradiction|exact H]. Qed.

Lemma kid_filter_rel g a r : good g -> g <> [slash] -> rowrel a r -> good (r_name a) ->
  kid_filter (psi g) r = kid_filter g a.
Proof.
  intros G Hg Har Ga. unfold kid_filter. rewrite (rowrel_live _ _ Har), (rr_name _ _ _ Har).
  rewrite (psi_trim_slash g G), (good_trim_slash g G Hg).
  rewrite <- !andb_assoc. f_equal. rewrite !andb_assoc, !like_absorb.
  destruct (good_inv g G) as (cs & Hcs & ->). destruct (good_inv _ Ga) as (ds & Hds & Ea). rewrite Ea.
  assert (Hc : cs <> []) by (intro K; subst cs; apply Hg; reflexivity).
  rewrite (psi_pth_app cs Hcs Hc).
  destruct ds as [|d ds].
  - (* the root row *)
    change (pth []) with [slash]. rewrite psi_root.
    replace (has_prefix ((top ++ pth cs) ++ [slash]) top) with false.
    2:{ symmetry. apply has_prefix_len_false. rewrite !app_length. cbn. lia. }
    replace (has_prefix (pth cs ++ [slash]) [slash]) with false; [reflexivity|].
    symmetry. apply has_prefix_len_false. rewrite app_length. unfold pth. cbn [length].
    pose proof (join_nonempty cs Hc Hcs). destruct (join_slash cs); [contradiction|cbn; lia].
  - assert (Hd : d :: ds <> []) by discriminate. rewrite (psi_pth_app (d :: ds) Hds Hd).
    rewrite <- app_assoc, has_prefix_app_same. f_equal.
    unfold not_self. cbn [r_name]. rewrite (rr_name _ _ _ Har), Ea, (psi_pth_app (d :: ds) Hds Hd).
    assert (T1 : trim_suffix [slash] (top ++ pth (d :: ds)) = top ++ pth (d :: ds)).
    { rewrite <- (psi_pth_app (d :: ds) Hds Hd). apply (psi_trim_slash). apply good_pth. exact Hds. }
    assert (T2 : trim_suffix [slash] (pth (d :: ds)) = pth (d :: ds)).
    { apply good_trim_slash; [apply good_pth; exact Hds|]. intro K. apply pth_root_iff in K; [discriminate|exact Hds]. }
    rewrite T1, T2.
    assert (E1 : eqb_str (top ++ pth cs) (top ++ pth (d :: ds)) = eqb_str (pth cs) (pth (d :: ds))).
    { rewrite <- (psi_pth_app cs Hcs Hc), <- (psi_pth_app (d :: ds) Hds Hd). apply (psi_eqb); apply good_abs; apply good_pth; assumption. }
    assert (E2 : eqb_str (top ++ pth cs) ((top ++ pth (d :: ds)) ++ [slash]) = false).
    { apply eqb_str_neq. intro K. rewrite <- app_assoc in K. apply app_inv_head in K.
      pose proof (good_no_trailing (pth cs) (good_pth cs Hcs) Hg) as T. rewrite K in T.
      unfold has_suffix in T. rewrite rev_app_distr in T. cbn in T. discriminate. }
    assert (E3 : eqb_str (pth cs) (pth (d :: ds) ++ [slash]) = false).
    { apply eqb_str_neq. intro K. pose proof (good_no_trailing (pth cs) (good_pth cs Hcs) Hg) as T. rewrite K in T.
      unfold has_suffix in T. rewrite rev_app_distr in T. cbn in T. discriminate. }
    rewrite E1, E2, E3. reflexivity.
Qed.

Lemma get_children_wr rt pa pr g : PR rt pa pr -> good g -> get_children pa g = (pa, filter (kid_filter g) (rows pa)).
Proof. intros H G. apply (get_children_lv true); [exact (PR_li _ _ _ H)|exact G]. Qed.

Lemma get_children_rd pa pr g : PR top pa pr -> good g -> get_children pr (psi g) = (pr, filter (kid_filter (psi g)) (rows pr)).
Proof. intros H G. unfold get_children. rewrite (sanitize_rd top pa pr g (or_introl eq_refl) H G). reflexivity. Qed.

Lemma kids_rel rt pa pr g : PR rt pa pr -> good g -> g <> [slash] ->
  rows_rel (filter (kid_filter g) (rows pa)) (filter (kid_filter (psi g)) (rows pr)).
Proof.
  intros H G Hg. apply F2_filter; [exact (pr_rows _ _ _ _ (PR_rel _ _ _ H))|]. intros a r Ha _ Har. symmetry. apply kid_filter_rel; try assumption.
  pose proof (PR_rowok _ _ _ H) as F. rewrite Forall_forall in F. apply (F a Ha).
Qed.

(* ---------- GetHeaderDirectChildren (no limit): the rows one component below, on both sides *)
Lemma direct_pred_rel g a r : good g -> rowrel a r -> good (r_name a) -> r_link a = [] ->
  (let n := psi g in selp (pfx n) 0 r && postf (pfx n) n r) = childp g a.
Proof.
  intros G Har Ga Lk. cbv zeta. destruct (good_inv g G) as (sc & Hsc & ->). destruct (good_inv _ Ga) as (cs & Hcs & Ea).
  assert (Er : r_name r = join_slash (top :: cs)) by (rewrite (rr_name _ _ _ Har), Ea; apply (psi_pth); exact Hcs).
  rewrite (psi_pth sc Hsc).
  pose proof (tcs_okc sc Hsc) as Hsc'. pose proof (tcs_okc cs Hcs) as Hcs'.
  assert (Epf : pfx (join_slash (top :: sc)) = join_slash (top :: sc) ++ [slash]).
  { unfold pfx. rewrite join_is_root by (exact Hsc' || discriminate). rewrite join_trim_slash by exact Hsc'. reflexivity. }
  rewrite Epf.
  destruct (live a) eqn:Lv.
  - assert (Sh : forall x : row, In x [r] -> live (id x) = true /\ r_link (id x) = [] /\ r_name (id x) = join_slash ((fun _ => top :: cs) x) /\ Forall okc ((fun _ => top :: cs) x)).
    { intros x [<-|[]]. unfold id. rewrite (rowrel_live _ _ Har), (rr_link _ _ _ Har). repeat split; assumption. }
    unfold childp. rewrite Lv, Ea. cbn [andb]. rewrite T19Db.childp_childb by assumption.
    pose proof (sel_nonroot id (fun _ => top :: cs) [r] Sh (top :: sc) r (or_introl eq_refl) ltac:(discriminate) Hsc') as K.
    unfold id in K. rewrite K. exact (childb_app [top] sc cs).
  - unfold childp. rewrite Lv. cbn [andb]. unfold selp. rewrite (rowrel_live _ _ Har), Lv. rewrite !andb_false_r. reflexivity.
Qed.

Lemma gdc_wr rt pa pr g : PR rt pa pr -> good g -> get_direct_children pa g None = (pa, Ok (filter (childp g) (rows pa))).
Proof.
  intros H G. destruct (T19Db.gdc_sim pa (canon19 pa) g g (PR19 pa (PR_li _ _ _ H)) G (T19Base.nrel_refl _)) as (_ & _ & E & _).
  exact E.
Qed.

Lemma gdc_rd pa pr g : PR top pa pr -> good g ->
  exists lr, get_direct_children pr (psi g) None = (pr, Ok lr) /\ rows_rel (filter (childp g) (rows pa)) lr.
Proof.
  intros H G. destruct (links_nil _ _ _ H) as [La Lr]. pose proof (PR_rowok _ _ _ H) as F.
  exists (filter (fun r => selp (pfx (psi g)) 0 r && postf (pfx (psi g)) (psi g) r) (rows pr)). split.
  - rewrite (gdc_form' pr (psi g) pr (psi g) (sanitize_rd top pa pr g (or_introl eq_refl) H G) Lr).
    rewrite (psi_is_root g G). rewrite filter_filter. reflexivity.
  - apply F2_filter; [exact (pr_rows _ _ _ _ (PR_rel _ _ _ H))|]. intros a r Ha _ Har. symmetry.
    rewrite Forall_forall in F, La. apply (direct_pred_rel g a r G Har); [apply (F a Ha)|apply La; exact Ha].
Qed.

(* inventory.List *)
Lemma inv_list_wr rt pa pr g : PR rt pa pr -> good g -> inv_list pa g None = (pa, Ok (map hdr_of_row (filter (childp g) (rows pa)))).
Proof. intros H G. unfold inv_list. rewrite (gdc_wr rt pa pr g H G). reflexivity. Qed.

Lemma inv_list_rd pa pr g : PR top pa pr -> good g ->
  exists lr, inv_list pr (psi g) None = (pr, Ok (map hdr_of_row lr)) /\ rows_rel (filter (childp g) (rows pa)) lr.
Proof.
  intros H G. destruct (gdc_rd pa pr g H G) as (lr & E & HR). exists lr. unfold inv_list. rewrite E. split; [reflexivity|exact HR].
Qed.

(* ---------- the list functions behind the write operations *)
Lemma replace_row_rel la lr n k na nr : rows_rel la lr -> is_abs n = true -> rowrel na nr ->
  rows_rel (replace_row n k na la) (replace_row (psi n) k nr lr).
Proof.
  intros H Hn Hnew. induction H as [|a r la lr Har Ht IH]; cbn [replace_row]; [constructor|].
  rewrite (rowrel_key_eq a r n k Har Hn). destruct (key_eq n k a); constructor; assumption.
Qed.

Lemma has_key_rel la lr n k : rows_rel la lr -> is_abs n = true -> has_key lr (psi n) k = has_key la n k.
Proof.
  intros H Hn. unfold has_key. symmetry. apply (F2_existsb rowrel); [exact H|]. intros a r _ _ Har. symmetry. apply (rowrel_key_eq); assumption.
Qed.

Lemma upsert_rows_rel la lr a r : rows_rel la lr -> rowrel a r -> rows_rel (upsert_rows la a) (upsert_rows lr r).
Proof.
  intros H Har. unfold upsert_rows. rewrite (rr_name _ _ _ Har), (rr_link _ _ _ Har).
  rewrite (has_key_rel la lr (r_name a) (r_link a) H (rr_abs _ _ _ Har)).
  destruct (has_key la (r_name a) (r_link a)).
  - apply replace_row_rel; [exact H|exact (rr_abs _ _ _ Har)|exact Har].
  - apply F2_snoc; assumption.
Qed.

Lemma move_list_rel la lr old new x y : rows_rel la lr -> is_abs old = true -> is_abs new = true ->
  rows_rel (fst (move_list la old new x y)) (fst (move_list lr (psi old) (psi new) x y)) /\
  snd (move_list lr (psi old) (psi new) x y) = snd (move_list la old new x y).
Proof.
  intros H Ho Hn. unfold move_list. rewrite (psi_eqb new old Hn Ho).
  set (ma := filter (fun r => eqb_str (r_name r) old) la). set (mr := filter (fun r => eqb_str (r_name r) (psi old)) lr).
  assert (Hm : rows_rel ma mr).
  { apply F2_filter; [exact H|]. intros a r _ _ Har. symmetry. apply (rowrel_name_eqb); assumption. }
  set (r1a := if eqb_str new old then la else filter _ la). set (r1r := if eqb_str new old then lr else filter _ lr).
  assert (H1 : rows_rel r1a r1r).
  { unfold r1a, r1r. destruct (eqb_str new old); [exact H|]. apply F2_filter; [exact H|]. intros a r _ _ Har.
    rewrite (rowrel_name_eqb a r new Har Hn). f_equal. f_equal. rewrite (rr_link _ _ _ Har).
    apply (F2_existsb rowrel); [exact Hm|]. intros a' r' _ _ Har'. rewrite (rr_link _ _ _ Har'). reflexivity. }
  set (sa := filter (fun r => negb (eqb_str (r_name r) old)) r1a).
  set (sr := filter (fun r => negb (eqb_str (r_name r) (psi old))) r1r).
  assert (Hs : rows_rel sa sr).
  { apply F2_filter; [exact H1|]. intros a r _ _ Har. rewrite (rowrel_name_eqb a r old Har Ho). reflexivity. }
  assert (E : existsb (fun m => has_key sr (psi new) (r_link m)) mr = existsb (fun m => has_key sa new (r_link m)) ma).
  { symmetry. apply (F2_existsb rowrel); [exact Hm|]. intros a r _ _ Har. rewrite (rr_link _ _ _ Har). symmetry. apply has_key_rel; assumption. }
  rewrite E. destruct (existsb (fun m => has_key sa new (r_link m)) ma); cbn [fst snd]; (split; [|reflexivity]); [exact H1|].
  apply (F2_map rowrel rowrel); [exact H1|]. intros a r _ _ Har. rewrite (rowrel_name_eqb a r old Har Ho).
  destruct (eqb_str (r_name a) old); [|exact Har]. rewrite (rr_del _ _ _ Har). apply rowrel_set_lk. apply rowrel_set_name; assumption.
Qed.
End Top.
