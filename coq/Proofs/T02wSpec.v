(* T02w (properties C02 / C04 for "open with any flag combination, write, close"): [CWriteFile n o perm d force] =
   OpenFile(n, o, perm); Write d (performed if d is non-empty or [force]); Close, against the reference of T02wNs.v.

   T02_write_file_exact : from every [Good4 hr c s] state, for a cleaned absolute name, ANY flag combination, any data and
                          both values of [force]: the outcome is that of [spec_write_file_q true], the namespace after
                          the call is its namespace, [Good4] is preserved.  No call is excluded.
   T02_write_file       : the same against the reference [spec_write_file] (= [spec_write_file_q false]), for every call
                          that is not one of the corners W1, W2, W3 ([write_corner], T02wCounter.v).
   T04_write_file       : the content read under [n] afterwards is the reference content [spec_content] (as bytes:
                          [content_eq]) - [coverlay (if truncated then [] else old) (if O_APPEND then len else 0) d] when
                          something is written - and the content read under every other name is unchanged.  No call is
                          excluded (the corners concern the modification time and an outcome only).
   Hypotheses: those of T02Spec.v / T04Content.v (plain configuration, record size > 0, not read-only, header-block
   counts >= 1, cleaned absolute name) and [write_bound]: the resulting size stays below 10^40 (the rendering of the PAX
   size record).  The state hypothesis is [Good4] (not only [Good]) because a Write that does not truncate reads the old
   content back from the tape at the position the index stores: that this read succeeds is [designates].  *)
From Coq Require Import List NArith ZArith Bool Lia.
From Coq Require Import ZifyN ZifyBool.
Import ListNotations.
From STFS Require Import Str Db Tape Index Ops Fs File Diff Norm TapeLemmas Append StrLemmas
  C01Str C01Db C01Inv C01Sim C01Tape C01Hdr C01Ops C01Ops2 C01Reads C01Fs C01Fs2 C01Rows
  T02Ns T02Db T02Ops T02Reads T02Str T02Closed T02Move T02Calls T02Rename T02MkdirAll T02Create T02Spec
  T04Def T04Tape T04Ops T04Create T04Ns T04Content C14Refine T02wNs T02wStr T02wCore.
Open Scope N_scope.

(* the size after the call stays below 10^40 *)
Definition write_bound (a : ns) (n : str) (d : content) : Prop :=
  match lookup a n with Some v => n_size v + clen d < 10 ^ 40 | None => clen d < 10 ^ 40 end.

Definition write_pre (a : ns) (n : str) (o : oflag) (d : content) (force : bool) : Prop :=
  write_bound a n d /\ write_corner a n o d force = false.

Definition old_content (oc : option content) : content := match oc with Some x => x | None => [] end.

(* the reference for the content read under [n] after the call, from the namespace and the content before it *)
Definition spec_content (a : ns) (n : str) (o : oflag) (d : content) (force : bool) (oldc : option content) : option content :=
  match lookup a n with
  | Some v => if is_dir v then None
              else Some (if o_create o && o_excl o then old_content oldc else spec_data o d force (old_content oldc))
  | None => if o_create o && outc_eqb (spec_parent a n) OOk then Some (spec_data o d force []) else None
  end.

(* ---------- the reference namespace: shape, kinds *)
Lemma is_dir_wnode size now cid v : is_dir (wnode size now cid v) = false.
Proof. reflexivity. Qed.

Lemma rw_node_file q o d force now cid v v' : fst (rw_node q o d force now cid v) = Some v' -> is_dir v' = false.
Proof. intro H. destruct (rw_node_some q o d force now cid v v' H) as (_ & K). unfold is_dir. rewrite K. reflexivity. Qed.

Lemma closed_write_file q c a n o perm d force now cid : names_good a -> good n -> closed a ->
  closed (fst (spec_write_file_q q c a n o perm d force now cid)).
Proof.
  intros Hg G Hc. unfold spec_write_file_q. destruct (lookup a n) as [v|] eqn:Ln.
  - destruct (o_create o && o_excl o); [exact Hc|]. destruct (is_dir v) eqn:Ed.
    + destruct (wr_acc o || o_trunc o || (q && o_append o)); [exact Hc|]. destruct (writes d force); exact Hc.
    + pose proof (rw_node_file q o d force now cid v) as K.
      destruct (rw_node q o d force now cid v) as [[v'|] e]; cbn [fst] in *; [|exact Hc].
      apply (closed_set_existing a n v v' Ln Ed (K v' eq_refl) Hc).
  - destruct (o_create o); [|exact Hc]. unfold spec_parent.
    destruct (lookup a (path_dir n)) as [pd|] eqn:Lp; [|exact Hc]. destruct (is_dir pd) eqn:Epd; [|exact Hc].
    destruct (rw_node q o d force now cid _) as [[v'|] e]; cbn [fst]; exact (closed_set_dir a n _ pd Hg G Hc Lp Epd Ln).
Qed.

Lemma kinds_write_file q c a n o perm d force now cid : kinds_ok a ->
  kinds_ok (fst (spec_write_file_q q c a n o perm d force now cid)).
Proof.
  intros Hk. unfold spec_write_file_q. destruct (lookup a n) as [v|] eqn:Ln.
  - destruct (o_create o && o_excl o); [exact Hk|]. destruct (is_dir v) eqn:Ed.
    + destruct (wr_acc o || o_trunc o || (q && o_append o)); [exact Hk|]. destruct (writes d force); exact Hk.
    + pose proof (rw_node_some q o d force now cid v) as K.
      destruct (rw_node q o d force now cid v) as [[v'|] e]; cbn [fst] in *; [|exact Hk].
      intros x vx Hx. rewrite lookup_ns_set in Hx. destruct (eqb_str x n); [|exact (Hk x vx Hx)].
      inversion Hx; subst vx. right. apply (K v' eq_refl).
  - destruct (o_create o); [|exact Hk]. destruct (spec_parent a n); try exact Hk.
    pose proof (rw_node_some q o d force now cid (new_node c false perm now cid)) as K.
    destruct (rw_node q o d force now cid _) as [[v'|] e]; cbn [fst] in *;
      intros x vx Hx; rewrite lookup_ns_set in Hx; (destruct (eqb_str x n); [|exact (Hk x vx Hx)]); inversion Hx; subst vx; right.
    + apply (K v' eq_refl).
    + reflexivity.
Qed.

(* the reference content, read off the reference namespace and outcome *)
Lemma spec_content_sound q c a n o perm d force now cid oldc : (lookup a n = None -> oldc = None) ->
  let sp := spec_write_file_q q c a n o perm d force now cid in
  spec_content a n o d force oldc =
  match lookup (fst sp) n with
  | Some v' => if is_dir v' then None
               else Some (if outc_eqb (snd sp) OExist then old_content oldc else spec_data o d force (old_content oldc))
  | None => None
  end.
Proof.
  intro Hold. cbn zeta. unfold spec_content, spec_write_file_q. destruct (lookup a n) as [v|] eqn:Ln.
  - destruct (o_create o && o_excl o); cbn [fst snd]; [rewrite Ln; reflexivity|]. destruct (is_dir v) eqn:Ed.
    + destruct (wr_acc o || o_trunc o || (q && o_append o)); cbn [fst snd]; [rewrite Ln, Ed; reflexivity|].
      destruct (writes d force); cbn [fst snd]; rewrite Ln, Ed; reflexivity.
    + pose proof (rw_node_file q o d force now cid v) as K. pose proof (rw_node_outc q o d force now cid v) as Eo.
      destruct (rw_node q o d force now cid v) as [[v'|] e]; cbn [fst snd] in *.
      * rewrite lookup_ns_set, eqb_str_refl, (K v' eq_refl), Eo. reflexivity.
      * rewrite Ln, Ed, Eo. reflexivity.
  - rewrite (Hold eq_refl). destruct (o_create o); cbn [andb fst snd]; [|rewrite Ln; reflexivity].
    destruct (spec_parent a n); cbn [outc_eqb fst snd]; try (rewrite Ln; reflexivity).
    pose proof (rw_node_file q o d force now cid (new_node c false perm now cid)) as K.
    pose proof (rw_node_outc q o d force now cid (new_node c false perm now cid)) as Eo.
    destruct (rw_node q o d force now cid _) as [[v'|] e]; cbn [fst snd] in *; rewrite lookup_ns_set, eqb_str_refl, Eo.
    + rewrite (K v' eq_refl). reflexivity.
    + reflexivity.
Qed.

(* ---------- consistency of the references: with the flags of Create (O_RDWR|O_CREATE|O_TRUNC, mode 0666) and a parent
   that is a directory, [spec_write_file] is [spec_create_file] (Create checks the parent first, whatever the name is) *)
Lemma spec_write_file_is_create_file c a n d now cid : spec_parent a n = OOk ->
  ns_eq (fst (spec_write_file c a n create_flags 438 d false now cid)) (fst (spec_create_file c a n (clen d) now cid)) /\
  snd (spec_write_file c a n create_flags 438 d false now cid) = snd (spec_create_file c a n (clen d) now cid).
Proof.
  intro Hpar. unfold spec_write_file, spec_write_file_q, spec_create_file. rewrite Hpar.
  assert (Ers : forall v, rw_node false create_flags d false now cid v = (Some (wnode (clen d) now cid v), OOk)).
  { intro v. unfold rw_node, new_size, nonempty. cbn [create_flags wr_acc o_acc o_trunc o_append N.eqb Pos.eqb orb andb negb].
    destruct d as [|p r]; cbn [writes]; [reflexivity|]. rewrite N.max_0_l. rewrite andb_false_r. reflexivity. }
  destruct (lookup a n) as [v|] eqn:Ln.
  - cbn [create_flags o_create o_excl andb]. destruct (is_dir v).
    + split; [apply ns_eq_refl|reflexivity].
    + rewrite Ers. cbn [fst snd]. split; [|reflexivity]. intro m. rewrite lookup_ns_set, lookup_ns_upd, Ln. reflexivity.
  - cbn [create_flags o_create]. rewrite Ers. cbn [fst snd]. split; [|reflexivity]. intro m. reflexivity.
Qed.

Section Spec.
Variable hr : bool.
Variable c : cfg.
Hypothesis HP : plain c.
Hypothesis Hrs : 0 < c_rs c.
Hypothesis Hro : c_readonly c = false.

(* ---------- everything about one call, from [write_file_exact] *)
Lemma write_file_all s e n o perm d force : Good4 hr c s -> hb_env e -> good n -> write_bound (abs s) n d ->
  let '(s', oc) := step c (with_env s e) (CWriteFile n o perm d force) in
  exists cid,
    let sp := spec_write_file_q true c (abs s) n o perm d force (ev_now e) cid in
    Good4 hr c s' /\ oc = snd sp /\ ns_eq (abs s') (fst sp) /\
    (forall m, good m -> m <> n -> content_of c s' m = content_of c s m) /\
    content_eq (content_of c s' n) (spec_content (abs s) n o d force (content_of c s n)).
Proof.
  intros H4 Hhb G Hb. pose proof (g4_good _ _ _ H4) as HG. pose proof (g_wf _ _ _ HG) as HW.
  pose proof (T02Spec.Wf_env hr c s e HW) as HW0. pose proof (hbok_env c Hrs s e Hhb) as Hhb0.
  pose proof (g_closed _ _ _ HG) as Hcl. pose proof (wf_inv hr c s HW) as HI.
  pose proof (names_good_abs hr c s HI) as Hng.
  pose proof (step_extends c (with_env s e) (CWriteFile n o perm d force)) as Hext. change (tp (with_env s e)) with (tp s) in Hext.
  destruct (write_file_exact hr c HP Hrs Hro (with_env s e) n o perm d force HW0 Hhb0 (g4_des _ _ _ H4) (g4_kinds _ _ _ H4) G Hb)
    as (s' & cid & K). cbn zeta in K.
  change (abs (with_env s e)) with (abs s) in K. change (clk (with_env s e)) with (ev_now e) in K.
  change (tp (with_env s e)) with (tp s) in K.
  destruct K as (E & HW' & Hhb' & Eq & Hrec). rewrite E in Hext |- *. cbn [fst] in Hext.
  set (sp := spec_write_file_q true c (abs s) n o perm d force (ev_now e) cid) in *.
  exists cid. cbn zeta. fold sp.
  assert (HG' : Good hr c s').
  { split; [exact HW'|]. eapply closed_ns_eq; [apply ns_eq_sym; exact Eq|]. apply closed_write_file; assumption. }
  pose proof (wf_inv hr c s' HW') as HI'.
  assert (Hother : forall x, eqb_str x n = false -> lookup (abs s') x = lookup (abs s) x).
  { intros x Ex. rewrite Eq. apply spec_write_file_other. exact Ex. }
  assert (Hkinds' : kinds_ok (abs s')).
  { intros x vx Hx. rewrite Eq in Hx. exact (kinds_write_file true c (abs s) n o perm d force (ev_now e) cid (g4_kinds _ _ _ H4) x vx Hx). }
  assert (H4' : Good4 hr c s').
  { split; [exact HG'| |exact Hkinds'].
    intros x vx Hx Hrx. destruct (eqb_str x n) eqn:Ex.
    - apply eqb_str_eq in Ex. subst x.
      assert (Hnd : is_dir vx = false).
      { unfold is_dir. destruct (Hkinds' n vx Hx) as [K|K]; rewrite K in Hrx |- *; [discriminate|reflexivity]. }
      destruct (Hrec vx Hx Hnd) as (m & Hm & Hr & _). exists m. split; assumption.
    - rewrite (Hother x Ex) in Hx. destruct (g4_des _ _ _ H4 x vx Hx Hrx) as (mx & Hmx & Hr).
      exists mx. split; [eapply member_at_extends; eassumption|exact Hr]. }
  split; [exact H4'|]. split; [reflexivity|]. split; [exact Eq|]. split.
  - intros x Gx Hx. rewrite (content_of_abs hr c s' x HI' Gx), (Hother x (eqb_str_false x n Hx)).
    rewrite (cof_stable c s (tp s') x (g4_des _ _ _ H4) Hext). symmetry. apply (content_of_abs hr c s x HI Gx).
  - rewrite (spec_content_sound true c (abs s) n o perm d force (ev_now e) cid).
    2:{ intro Ln. rewrite (content_of_abs hr c s n HI G), Ln. reflexivity. }
    cbn zeta. fold sp. rewrite <- (Eq n).
    rewrite (content_of_abs hr c s' n HI' G).
    destruct (lookup (abs s') n) as [v'|] eqn:Lv; [|exact I].
    destruct (is_dir v') eqn:Ed.
    + unfold is_dir in Ed. rewrite cof_dir; [exact I|]. apply N.eqb_eq. exact Ed.
    + destruct (Hrec v' eq_refl Ed) as (m & Hm & Hr & He).
      assert (Hreg : tf_regular (n_tf v') = true).
      { unfold is_dir in Ed. destruct (Hkinds' n v' Lv) as [K|K]; rewrite K in Ed |- *; [discriminate|reflexivity]. }
      rewrite (cof_member c (tp s') v' m Hreg Hm). cbn [content_eq]. rewrite He.
      unfold old_of. rewrite (content_of_abs hr c s n HI G). reflexivity.
Qed.

(* ---------- the namespace: outcome, effect, invariant - every flag combination, nothing excluded *)
Theorem T02_write_file_exact : forall s e n o perm d force, Good4 hr c s -> hb_env e -> good n -> write_bound (abs s) n d ->
  let '(s', oc) := step c (with_env s e) (CWriteFile n o perm d force) in
  exists cid, Good4 hr c s' /\ oc = snd (spec_write_file_q true c (abs s) n o perm d force (ev_now e) cid) /\
    ns_eq (abs s') (fst (spec_write_file_q true c (abs s) n o perm d force (ev_now e) cid)).
Proof.
  intros s e n o perm d force H4 Hhb G Hb. pose proof (write_file_all s e n o perm d force H4 Hhb G Hb) as K.
  destruct (step c (with_env s e) (CWriteFile n o perm d force)) as [s' oc]. destruct K as (cid & A & B & C & _).
  exists cid. split; [exact A|]. split; assumption.
Qed.

(* against the reference, outside the corners W1, W2, W3 *)
Theorem T02_write_file : forall s e n o perm d force, Good4 hr c s -> hb_env e -> good n -> write_pre (abs s) n o d force ->
  let '(s', oc) := step c (with_env s e) (CWriteFile n o perm d force) in
  exists cid, Good4 hr c s' /\ oc = snd (spec_write_file c (abs s) n o perm d force (ev_now e) cid) /\
    ns_eq (abs s') (fst (spec_write_file c (abs s) n o perm d force (ev_now e) cid)).
Proof.
  intros s e n o perm d force H4 Hhb G (Hb & Hc). pose proof (T02_write_file_exact s e n o perm d force H4 Hhb G Hb) as K.
  destruct (step c (with_env s e) (CWriteFile n o perm d force)) as [s' oc]. destruct K as (cid & A & B & C).
  destruct (spec_write_file_q_agree c (abs s) n o perm d force (ev_now e) cid Hc) as (E1 & E2).
  exists cid. split; [exact A|]. split; [rewrite B; exact E2|]. eapply ns_eq_trans; eassumption.
Qed.

(* ---------- the contents *)
Theorem T04_write_file : forall s e n o perm d force, Good4 hr c s -> hb_env e -> good n -> write_bound (abs s) n d ->
  let '(s', oc) := step c (with_env s e) (CWriteFile n o perm d force) in
  Good4 hr c s' /\
  (* nobody else's content changed *)
  (forall m, good m -> m <> n -> content_of c s' m = content_of c s m) /\
  (* the content under the name is the reference content *)
  content_eq (content_of c s' n) (spec_content (abs s) n o d force (content_of c s n)).
Proof.
  intros s e n o perm d force H4 Hhb G Hb. pose proof (write_file_all s e n o perm d force H4 Hhb G Hb) as K.
  destruct (step c (with_env s e) (CWriteFile n o perm d force)) as [s' oc]. destruct K as (cid & A & _ & _ & D & E).
  split; [exact A|]. split; assumption.
Qed.
End Spec.

Print Assumptions T02_write_file_exact.
Print Assumptions T02_write_file.
Print Assumptions T04_write_file.
