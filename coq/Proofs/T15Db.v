(* T15 / Db: every query of the index model only fills the root cache ([cachefill]): rows are never touched, and once the
   root is cached the state is returned as it was.  For ALL index states (no invariant). *)
From Coq Require Import List NArith ZArith Bool.
Import ListNotations.
From STFS Require Import Str Db Tape Index Ops Fs File Diff Norm T15Def.
Open Scope N_scope.

Lemma eqb_str_nil_false (x : str) : x <> [] -> eqb_str x [] = false.
Proof. destruct x; [congruence|reflexivity]. Qed.

Lemma sanitize_cf p n : cachefill p (fst (sanitize p n)).
Proof.
  unfold sanitize. destruct (is_root_name n || eqb_str n (root p)); [apply cachefill_refl|].
  destruct (eqb_str (root p) [] && is_abs n && negb (root_empty p)) eqn:E.
  - apply andb_true_iff in E as [E _]. apply andb_true_iff in E as [E _].
    assert (R : root p = []) by (destruct (root p); [reflexivity|discriminate]).
    destruct (exists_exact p []).
    + cbn [root rows root_empty]. rewrite R. cbn. split; [reflexivity|]. rewrite R. congruence.
    + split; [reflexivity|]. rewrite R. congruence.
  - cbn [root]. split.
    + repeat match goal with |- context [if ?b then _ else _] => destruct b end; reflexivity.
    + intros _. repeat match goal with |- context [if ?b then _ else _] => destruct b end; reflexivity.
Qed.

(* ---- the query lemmas, for ANY reflexive and transitive relation on index states that [sanitize] respects
   (instantiated with [cachefill] below, and with the view-preserving relation of T15View) *)
Section Gen.
Variable Rel : pstate -> pstate -> Prop.
Hypothesis Rel_refl : forall p, Rel p p.
Hypothesis Rel_trans : forall p q r, Rel p q -> Rel q r -> Rel p r.
Hypothesis Rel_san : forall p n, Rel p (fst (sanitize p n)).

Definition gframe (s s' : sys) : Prop :=
  tp s' = tp s /\ hbq s' = hbq s /\ encq s' = encq s /\ clk s' = clk s /\ Rel (db s) (db s').
Lemma gframe_refl s : gframe s s.
Proof. repeat split; auto. Qed.
Lemma gframe_trans a b c : gframe a b -> gframe b c -> gframe a c.
Proof.
  intros (A1 & A2 & A3 & A4 & A5) (B1 & B2 & B3 & B4 & B5).
  repeat split; try congruence. eapply Rel_trans; eauto.
Qed.
Lemma gframe_set_db s p : Rel (db s) p -> gframe s (set_db s p).
Proof. intro H. repeat split; try reflexivity; apply H. Qed.

Lemma get_header_rel p n : Rel p (fst (get_header p n)).
Proof.
  unfold get_header. pose proof (Rel_san p n) as H. destruct (sanitize p n) as [p' n']. cbn [fst] in H.
  destruct (find_by_name p' n'); exact H.
Qed.

Lemma get_header_by_linkname_rel p n : Rel p (fst (get_header_by_linkname p n)).
Proof.
  unfold get_header_by_linkname. pose proof (Rel_san p n) as H. destruct (sanitize p n) as [p' n']. cbn [fst] in H.
  destruct (filter _ (rows p')); exact H.
Qed.

Lemma get_children_rel p n : Rel p (fst (get_children p n)).
Proof.
  unfold get_children. pose proof (Rel_san p n) as H. destruct (sanitize p n) as [p' n']. exact H.
Qed.

Lemma links_fold_rel (l : list row) : forall p out,
  Rel p (fst (fold_left (fun acc lr =>
        let '(p, out) := acc in
        let '(p, tr) := get_header p [] in
        match tr with
        | Ok t => (p, out ++ [set_link (set_name t (r_link lr)) []])
        | _ => (p, out ++ [set_link (set_name lr (r_link lr)) []])
        end) l (p, out))).
Proof.
  induction l as [|lr l IH]; intros p out; cbn [fold_left]; [apply Rel_refl|].
  pose proof (get_header_rel p []) as H. destruct (get_header p []) as [p1 tr]. cbn [fst] in H.
  destruct tr; (eapply Rel_trans; [exact H|apply IH]).
Qed.

Lemma get_direct_children_rel p n lim : Rel p (fst (get_direct_children p n lim)).
Proof.
  unfold get_direct_children. pose proof (Rel_san p n) as H. destruct (sanitize p n) as [p' n']. cbn [fst] in H.
  destruct (if is_root_name n' then min_slashes (filter live (rows p')) else Some 0); [|exact H].
  match goal with |- context [fold_left ?f ?l (p', [])] => pose proof (links_fold_rel l p' []) as H2;
    destruct (fold_left f l (p', [])) as [p2 links] end.
  cbn [fst] in H2. pose proof (Rel_trans _ _ _ H H2) as H3.
  destruct lim; [|exact H3].
  match goal with |- context [if ?b then _ else _] => destruct b end; exact H3.
Qed.

Lemma inv_list_rel p n lim : Rel p (fst (inv_list p n lim)).
Proof.
  unfold inv_list. pose proof (get_direct_children_rel p n lim) as H.
  destruct (get_direct_children p n lim) as [p' [l| | |e]]; exact H.
Qed.

Lemma inv_stat_rel p n sym : Rel p (fst (inv_stat p n sym)).
Proof.
  assert (P : forall p nm link, Rel p (fst (
    (fun (p : pstate) (nm : str) (link : option row) =>
    let '(p, r) := match get_header p nm with
                   | (p, NoRows) => get_header p (trim_suffix [slash] nm ++ [slash])
                   | x => x end in
    match r with
    | Ok d =>
      match link with
      | None => if negb (eqb_str (r_link d) []) then (p, NoRows) else (p, Ok (hdr_of_row d))
      | Some l => (p, Ok (hdr_of_row (set_link (set_name d (r_link l)) (r_name l))))
      end
    | NoRows => (p, NoRows) | Unique => (p, Unique) | Fail e => (p, Fail e)
    end) p nm link))).
  { intros q nm link. cbv beta.
    pose proof (get_header_rel q nm) as H. destruct (get_header q nm) as [q1 r1]. cbn [fst] in H.
    assert (H' : Rel q (fst (match r1 with NoRows => get_header q1 (trim_suffix [slash] nm ++ [slash]) | _ => (q1, r1) end))).
    { destruct r1; try exact H. eapply Rel_trans; [exact H|apply get_header_rel]. }
    assert (E : (match r1 with NoRows => get_header q1 (trim_suffix [slash] nm ++ [slash]) | _ => (q1, r1) end) =
                (let (p0, r0) := (q1, r1) in match r0 with NoRows => get_header p0 (trim_suffix [slash] nm ++ [slash]) | _ => (q1, r1) end)) by reflexivity.
    destruct r1 as [d| | |e]; cbn [fst] in H'.
    - destruct link; [exact H|]. destruct (negb (eqb_str (r_link d) [])); exact H.
    - destruct (get_header q1 (trim_suffix [slash] nm ++ [slash])) as [q2 [d| | |e]]; cbn [fst] in H'; try exact H'.
      destruct link; [exact H'|]. destruct (negb (eqb_str (r_link d) [])); exact H'.
    - exact H.
    - exact H. }
  unfold inv_stat. destruct sym.
  - pose proof (get_header_by_linkname_rel p n) as H. destruct (get_header_by_linkname p n) as [p1 r1]. cbn [fst] in H.
    destruct r1 as [l| | |e].
    + eapply Rel_trans; [exact H|exact (P p1 (r_name l) (Some l))].
    + pose proof (get_header_by_linkname_rel p1 (trim_suffix [slash] n ++ [slash])) as H2.
      destruct (get_header_by_linkname p1 (trim_suffix [slash] n ++ [slash])) as [p2 r2]. cbn [fst] in H2.
      pose proof (Rel_trans _ _ _ H H2) as H3.
      destruct r2 as [l| | |e]; try exact H3. eapply Rel_trans; [exact H3|exact (P p2 (r_name l) (Some l))].
    + exact H.
    + exact H.
  - exact (P p n None).
Qed.

Lemma stat_s_gframe s n sym : gframe s (fst (stat_s s n sym)).
Proof.
  unfold stat_s. pose proof (inv_stat_rel (db s) n sym) as H. destruct (inv_stat (db s) n sym) as [p r].
  apply gframe_set_db. exact H.
Qed.

Lemma read_path_gframe c s path : gframe s (fst (read_path c s path)).
Proof.
  unfold read_path.
  pose proof (get_header_rel (db s) (trim_suffix [slash] path)) as H.
  destruct (get_header (db s) (trim_suffix [slash] path)) as [p1 r1]. cbn [fst] in H.
  assert (H' : Rel (db s) (fst (match r1 with NoRows => get_header p1 (trim_suffix [slash] path ++ [slash]) | _ => (p1, r1) end))).
  { destruct r1; try exact H. eapply Rel_trans; [exact H|apply get_header_rel]. }
  destruct r1 as [d| | |e]; cbn [fst] in H'.
  - destruct (fetch_at c (tp s) (r_rec d) (r_blk d)); apply gframe_set_db; exact H.
  - destruct (get_header p1 (trim_suffix [slash] path ++ [slash])) as [p2 [d| | |e]]; cbn [fst] in H';
      try (apply gframe_set_db; exact H').
    destruct (fetch_at c (tp s) (r_rec d) (r_blk d)); apply gframe_set_db; exact H'.
  - apply gframe_set_db; exact H.
  - apply gframe_set_db; exact H.
Qed.
End Gen.

(* ---- instance: [cachefill] *)
Lemma get_header_cf p n : cachefill p (fst (get_header p n)).
Proof. apply get_header_rel; first [apply cachefill_refl|apply cachefill_trans|apply sanitize_cf]. Qed.
Lemma get_header_by_linkname_cf p n : cachefill p (fst (get_header_by_linkname p n)).
Proof. apply get_header_by_linkname_rel; first [apply cachefill_refl|apply cachefill_trans|apply sanitize_cf]. Qed.
Lemma get_children_cf p n : cachefill p (fst (get_children p n)).
Proof. apply get_children_rel; first [apply cachefill_refl|apply cachefill_trans|apply sanitize_cf]. Qed.
Lemma get_root_path_cf p : cachefill p (fst (get_root_path p)).
Proof.
  unfold get_root_path. destruct (root p) eqn:R.
  - destruct (min_depth_row (filter live (rows p)) None); cbn [fst]; [|apply cachefill_refl].
    split; [reflexivity|]. rewrite R. congruence.
  - apply cachefill_refl.
Qed.

Lemma get_direct_children_cf p n lim : cachefill p (fst (get_direct_children p n lim)).
Proof. apply get_direct_children_rel; first [apply cachefill_refl|apply cachefill_trans|apply sanitize_cf]. Qed.
Lemma inv_list_cf p n lim : cachefill p (fst (inv_list p n lim)).
Proof. apply inv_list_rel; first [apply cachefill_refl|apply cachefill_trans|apply sanitize_cf]. Qed.
Lemma inv_stat_cf p n sym : cachefill p (fst (inv_stat p n sym)).
Proof. apply inv_stat_rel; first [apply cachefill_refl|apply cachefill_trans|apply sanitize_cf]. Qed.

Lemma gframe_cachefill s s' : gframe cachefill s s' <-> frame s s'.
Proof. reflexivity. Qed.
Lemma stat_s_frame s n sym : frame s (fst (stat_s s n sym)).
Proof. apply (stat_s_gframe cachefill); first [apply cachefill_refl|apply cachefill_trans|apply sanitize_cf]. Qed.
Lemma read_path_frame c s path : frame s (fst (read_path c s path)).
Proof. apply (read_path_gframe cachefill); first [apply cachefill_refl|apply cachefill_trans|apply sanitize_cf]. Qed.
