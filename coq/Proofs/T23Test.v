(* T23 / Test: the named-top instance against the writer twin of the style "/", checked by computation before anything
   was proved: the C17-style archive  top/ top/d/ top/d/f top/g  and larger trees (a member called like the top, LIKE
   wildcards), histories of Mkdir, Create with content, Chmod/Chown/Chtimes/Rename/Remove/RemoveAll of original
   members, MkdirAll, WriteFile, Reopen. *)
From Coq Require Import String List NArith ZArith Bool.
Import ListNotations.
From STFS Require Import Str Db Tape Index Ops Fs Diff Norm T17Tree T17Forest T17Rebuild T17Test T19Rel T19Test T20Twin T20Test T23Rel.
From STFS Require T23Main.
Open Scope N_scope.
Open Scope string_scope.

(* relation, outcomes and (renamed) views along the two runs *)
Fixpoint Rb_all (top : str) (c : cfg) (sa sr : sys) (h : list (call * env)) : bool :=
  match h with
  | [] => true
  | (k, e) :: r =>
    let '(sa', oa) := step c (with_env sa e) k in
    let '(sr', or_) := step c (with_env sr e) (ren_call top k) in
    eqb_outc oa or_ && match oa, or_ with OOther x, OOther y => (x =? y)%N | _, _ => true end
    && Rb top sa' sr' && eqb_list N.eqb (hbq sr') (hbq sa') && eqb_list N.eqb (encq sr') (encq sa') && (clk sr' =? clk sa')%Z
    && eqb_list eqb_entry (map (ren_entry top) (view c sa')) (view_at c sr' top) && Rb_all top c sa' sr' r
  end.

(* the named instance's own tape rebuilds to exactly the rows of its index *)
Definition REBb (c : cfg) (sr : sys) : bool :=
  match rebuild c (tp sr) with
  | (qr, Ok _) => eqb_list eqb_row (rows qr) (rows (db sr)) && eqb_str (root qr) []
  | _ => false
  end.

Definition run_ok (top : str) c t h : bool :=
  let sa := twin c Slash t in let sr := opened c (archive_of (Named top) t) in
  Rb top sa sr && REBb c sr &&
  Rb_all top c sa sr h && REBb c (final c sr (ren_hist top h)) && reb_ok c (final c sa h).

Definition outs c s h := map ob_out (run c s h).

Example T23_test_run :
  run_ok (s "top") (tcf 20) tdemo hD && run_ok (s "top") (tcf 3) tdemo hD && run_ok (s "top") (tcf 20) tt1 h1 && run_ok (s "top") (tcf 1) tt1 h1
  && run_ok (s "top") (tcf 5) tt3 h1 && run_ok (s "a_") (tcf 5) tt3 h1 && run_ok (s "d") (tcf 5) tt1 h1 = true.
Proof. vm_compute. reflexivity. Qed.

(* the 18 calls of hD all succeed on the named instance *)
Example T23_test_outcomes :
  forallb (fun o => eqb_outc o OOk) (outs (tcf 20) (opened (tcf 20) (archive_of (Named (s "top")) tdemo)) (ren_hist (s "top") hD)) = true.
Proof. vm_compute. reflexivity. Qed.

(* a member called like the top, below itself; renames through "top/top"; the root itself *)
Definition hT : list (call * env) :=
  [(CMkdir (s "/top/x") 493, e0 2); (CRename (s "/top/top") (s "/t2"), e0 3); (CRename (s "/top") (s "/t2/top"), e0 4);
   (CRename (s "/t2") (s "/top"), e0 5); (CRemoveAll (s "/top/top/x"), e0 6); (CMkdirAll (s "/top/top/top/top") 493, e0 7);
   (CCreateFile (s "/top/top/top/top/top") [(3, 0, 9)], e0 8); (CRename (s "/") (s "/r"), e0 9); (CMkdir (s "/") 493, e0 10);
   (CMkdirAll (s "/") 493, e0 11); (CChmod (s "/") 448, e0 12); (CChown (s "/") 4 5, e0 13); (CChtimes (s "/") 4 5, e0 14);
   (CCreateFile (s "/") [(1, 0, 2)], e0 15); (CRename (s "/top") (s "/top/top/q"), e0 16); (CRemove (s "/nope"), e0 17);
   (CRemove (s "/top"), e0 18); (CRemoveAll (s "/top"), e0 19);
   (CWriteFile (s "/a%") (fl 1 true false false false) 420 [(9, 0, 5)] false, e0 20);
   (CWriteFile (s "/") (fl 0 false false false false) 420 [] false, e0 21)].
Example T23_test_top_names : run_ok (s "top") (tcf 5) tt3 hT && run_ok (s "a") (tcf 5) tt3 hT = true.
Proof. vm_compute. reflexivity. Qed.

(* the statement of T23_named_continuation on the C17-style archive  top/ top/d/ top/d/f top/g  with a 12-call history given
   in the NAMED spelling (Mkdir, Create with content, Chmod / Rename / RemoveAll of original members, MkdirAll, WriteFile) *)
Definition hN12 : list (call * env) :=
  [(CMkdir (s "top/new") 493, e0 2); (CCreateFile (s "top/new/h") [(7, 0, 600)], e0 3);
   (CChmod (s "top/d/f") 384, e0 4); (CChown (s "top/g") 5 6, e0 5); (CRename (s "top/d") (s "top/new/d"), e0 6);
   (CMkdirAll (s "top/a/b/c") 493, e0 7); (CWriteFile (s "top/g") (fl 1 false false false true) 420 [(8, 0, 33)] false, e0 8);
   (CWriteFile (s "top/new/d/f") (fl 1 true false false false) 420 [(9, 0, 5)] false, e0 9);
   (CRemoveAll (s "top/new/d"), e0 10); (CChtimes (s "top") 7 8, e0 11); (CRemove (s "top/g"), e0 12);
   (CCreateFile (s "top/a/b/c/top") [], e0 13)].

Definition stmt_ok (top : str) c st t (hN : list (call * env)) : bool :=
  let h := T23Main.unren_hist top hN in
  let sn := opened c (archive_of (Named top) t) in
  let sa := twin c st t in
  let sf := opened c (archive_of st t) in
  forallb (fun ke => T23Main.named_call top (fst ke)) hN && forallb (fun ke => T23Main.named_call_ok top (fst ke)) hN
  && forallb (fun ke => fs_call (fst ke)) h && forallb (fun ke => T23Main.clean_call (fst ke)) h
  && eqb_list eqb_outc (outs c sn hN) (outs c sa h) && eqb_list eqb_outc (outs c sn hN) (outs c sf h)
  && eqb_list eqb_entry (view_at c (final c sn hN) top) (map (ren_entry top) (view c (final c sa h)))
  && eqb_list eqb_entry (view_at c (final c sn hN) top) (map (ren_entry top) (view c (final c sf h)))
  && REBb c (final c sn hN) && Rb top (final c sa h) (final c sn hN).

Example T23_test_statement :
  stmt_ok (s "top") (tcf 20) Slash tdemo hN12 && stmt_ok (s "top") (tcf 3) DotSlash tdemo hN12
  && stmt_ok (s "top") (tcf 20) DotSlash tdemo (ren_hist (s "top") hD) && stmt_ok (s "top") (tcf 1) Slash tt1 (ren_hist (s "top") h1) = true.
Proof. vm_compute. reflexivity. Qed.

Example T23_test_outcomes12 :
  outs (tcf 20) (opened (tcf 20) (archive_of (Named (s "top")) tdemo)) hN12
  = [OOk; OOk; OOk; OOk; OOk; OOk; OOk; OOk; OOk; OOk; OOk; OOk].
Proof. vm_compute. reflexivity. Qed.
