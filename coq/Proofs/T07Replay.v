(* T07 / C07: re-indexing a tape into an index that already reflects a prefix of it converges to the rebuild.

   MAIN RESULTS (all for histories  (CInitialize "/", e) :: r  of filesystem-level calls with absolute names):
   - [T07_replay_converges]: for EVERY prefix length j (no bound on j needed), replaying the whole tape into
     [prefix_index c t j] succeeds and yields the same visible rows as a rebuild from scratch;
   - [T07_C07_statement]: the same in the literal shape of [C07_full_statement] (Props/C07.v);
   - [T07_replay_idempotent]: a second replay succeeds and changes nothing visible;
   - [T07_rebuild_ok]: the rebuild itself succeeds (so the hypothesis [res_ok (snd (rebuild c t)) = true]
     of the full statement is not needed).

   HYPOTHESES (those of C01_rows_norm_root_kept):
     0 < c_rs c, c_readonly c = false, plain configuration (c_csuf c = [] /\ c_esuf c = []),
     [hb_ok] for every call (header block counts >= 1), [call_ok] (no Remove / RemoveAll of the root, no Rename
     onto it), [fs_call] (filesystem-level calls with absolute names).

   Structure: T07Order (sorting is canonical), T07Look (index operations on the finite map name -> row),
   T07Core (dirty-name argument on live-style indexes), T07Sim (transfer to rebuilt-style indexes),
   T07Inv / T07Fs (the tape written by a history is well formed: every rename record finds its source),
   this file (assembly). *)
From Coq Require Import List NArith ZArith Bool Lia.
From Coq Require Import ZifyN ZifyBool.
Import ListNotations.
From STFS Require Import Str Db Tape Index Ops Fs Diff Prefix Replay Norm TapeLemmas
  C01Str C01Db C01Inv C01Sim C01Tape C01Hdr C01Ops C01Ops2 C01Reads C01Fs C01Fs2 C01Rows
  T07Order T07Look T07Core T07Sim T07Inv T07Fs.
Open Scope N_scope.

(* ---------- the replay functions as folds over the record list of the tape *)
Lemma replay_into_loop c t p : replay_into c t p = loop0 c (hdrs t) p.
Proof. unfold replay_into, index_tape. rewrite members_from_zero. apply index_loop_none. Qed.

Lemma rebuild_hdrs c t : rebuild c t = loop0 c (hdrs t) p_empty.
Proof. apply rebuild_loop. Qed.

Lemma hd_of_firstn j l : hd_of (firstn j l) = firstn j (hd_of l).
Proof. unfold hd_of. symmetry. apply firstn_map. Qed.

Lemma prefix_index_loop c t j : prefix_index c t j = fst (loop0 c (firstn j (hdrs t)) p_empty).
Proof.
  unfold prefix_index. rewrite index_loop_none. rewrite hd_of_firstn. reflexivity.
Qed.

(* ---------- the first call *)
Lemma init_index c rec blk now :
  index_header c rec blk (mknode_hdr c true [slash] [] 511 now) false p_live0 =
  ({| rows := [row_of_hdr rec rec blk blk (mknode_hdr c true [slash] [] 511 now)]; root := [slash]; root_empty := false |}, Ok tt).
Proof. reflexivity. Qed.

Section Hist.
Variable c : cfg.
Hypothesis HP : plain c.
Hypothesis Hrs : 0 < c_rs c.
Hypothesis Hro : c_readonly c = false.

Lemma init_ok2 e : forallb (fun x => 0 <? x) (ev_hb e) = true ->
  OKs2 c (fst (step c (with_env init_sys e) (CInitialize [slash]))).
Proof.
  intro Hhb. destruct (init_ok c Hrs Hro e Hhb) as [HI Hb].
  destruct (init_eq c Hrs Hro e Hhb) as (m & r0 & s1 & E & A & B & C & D).
  rewrite E in HI, Hb |- *. cbn [fst] in *. split; [exact HI|]. split; [exact Hb|].
  unfold TWs. cbn [tp db].
  assert (Eh : hdrs [TM m; TT] = [(0, m_hdr m)]) by reflexivity. rewrite Eh. rewrite D.
  destruct (mknode_hdr_ok true c true [slash] 511 (ev_now e) good_root) as (K1 & K2 & K3).
  assert (EL : loop0 c [(0, mknode_hdr c true [slash] [] 511 (ev_now e))] p_live0
               = ({| rows := [r0]; root := [slash]; root_empty := false |}, Ok tt)).
  { cbn [loop0]. rewrite init_index. rewrite C, D. reflexivity. }
  split; [|exact EL]. split.
  - cbn [twrun]. split.
    + split; [exact K1|]. split; [exact K2|]. intro K. rewrite K3 in K. discriminate.
    + rewrite init_index. eexists. split; [reflexivity|exact I].
  - eexists _, _, _. split; [reflexivity|]. split; [reflexivity|exact K3].
Qed.

Lemma final_ok2 r : forall s, OKs2 c s ->
  forallb (fun ke => fs_call (fst ke)) r = true ->
  forallb (fun ke => call_ok (fst ke)) r = true ->
  forallb hb_ok r = true ->
  OKs2 c (final c s r).
Proof.
  induction r as [|[k e] r IH]; intros s HO H1 H2 H3; cbn [final]; [exact HO|].
  cbn [forallb fst] in H1, H2, H3.
  apply andb_true_iff in H1 as [K1 H1]. apply andb_true_iff in H2 as [K2 H2]. apply andb_true_iff in H3 as [K3 H3].
  unfold call_ok in K2. apply andb_true_iff in K2 as [K2a K2b].
  assert (HO' : OKs2 c (with_env s e)).
  { destruct HO as (HI & Hb & HT). split; [eapply Inv_ext; [| |exact HI]; reflexivity|].
    split; [apply (hbok_env c Hrs); exact K3|eapply TWs_ext; [| |exact HT]; reflexivity]. }
  destruct (step_ok2 c HP Hrs Hro (with_env s e) k HO' K1 K2a K2b) as (s' & o & E & A).
  rewrite E. cbn [fst]. apply IH; assumption.
Qed.
End Hist.

(* the tape written by a history is well formed, and the live index is its live-style replay *)
Theorem history_tape_wf : forall c e r,
  0 < c_rs c -> c_readonly c = false -> c_csuf c = [] -> c_esuf c = [] ->
  forallb hb_ok ((CInitialize [slash], e) :: r) = true ->
  forallb (fun ke => call_ok (fst ke)) r = true ->
  forallb (fun ke => fs_call (fst ke)) r = true ->
  let s := final c init_sys ((CInitialize [slash], e) :: r) in
  TW c (hdrs (tp s)) /\ loop0 c (hdrs (tp s)) p_live0 = (db s, Ok tt).
Proof.
  intros c e r Hrs Hro Hc He Hhb Hok Hfs. cbn zeta. cbn [final].
  cbn [forallb] in Hhb. apply andb_true_iff in Hhb as [Hb0 Hb].
  assert (HP : plain c) by (split; assumption).
  pose proof (init_ok2 c Hrs Hro e Hb0) as H0.
  pose proof (final_ok2 c HP Hrs Hro r _ H0 Hfs Hok Hb) as (_ & _ & HT). exact HT.
Qed.

Section Main.
Variables (c : cfg) (e : env) (r : list (call * env)).
Hypothesis Hrs : 0 < c_rs c.
Hypothesis Hro : c_readonly c = false.
Hypothesis Hc : c_csuf c = [].
Hypothesis He : c_esuf c = [].
Hypothesis Hhb : forallb hb_ok ((CInitialize [slash], e) :: r) = true.
Hypothesis Hok : forallb (fun ke => call_ok (fst ke)) r = true.
Hypothesis Hfs : forallb (fun ke => fs_call (fst ke)) r = true.

Let t := tp (final c init_sys ((CInitialize [slash], e) :: r)).

Lemma main_facts j :
  exists p rb lvp, replay_into c t (prefix_index c t j) = (p, Ok tt) /\ rebuild c t = (rb, Ok tt) /\
    visible p = visible rb /\ LI true lvp /\ R lvp p /\ covered (hdrs t) lvp /\ TW c (hdrs t).
Proof.
  assert (HP : plain c) by (split; assumption).
  destruct (history_tape_wf c e r Hrs Hro Hc He Hhb Hok Hfs) as (HT & _). fold t in HT.
  destruct (hdrs_converge c (hdrs t) j HP HT) as (Pj & p & rb & lvp & A & B & C & D & E).
  exists p, rb, lvp. rewrite prefix_index_loop, A. cbn [fst]. rewrite replay_into_loop, rebuild_hdrs.
  split; [exact B|]. split; [exact C|]. split; [exact D|]. destruct E as (E1 & E2 & E3). split; [exact E1|]. split; [exact E2|]. split; [exact E3|exact HT].
Qed.

Theorem T07_rebuild_ok_ : res_ok (snd (rebuild c t)) = true.
Proof. destruct (main_facts 0) as (p & rb & lvp & _ & B & _). rewrite B. reflexivity. Qed.

Theorem T07_replay_converges_ j :
  let '(p, rr) := replay_into c t (prefix_index c t j) in
  res_ok rr = true /\ eqb_list eqb_row (visible p) (visible (fst (rebuild c t))) = true.
Proof.
  destruct (main_facts j) as (p & rb & lvp & A & B & C & _). rewrite A, B. cbn [fst].
  split; [reflexivity|]. rewrite C. apply eqb_list_row_refl.
Qed.

Theorem T07_replay_idempotent_ j :
  let p1 := fst (replay_into c t (prefix_index c t j)) in
  let '(p2, r2) := replay_into c t p1 in
  res_ok r2 = true /\ eqb_list eqb_row (visible p2) (visible p1) = true.
Proof.
  assert (HP : plain c) by (split; assumption).
  destruct (main_facts j) as (p & rb & lvp & A & B & C & D1 & D2 & D3 & HT). rewrite A. cbn [fst].
  destruct (replay_from c (hdrs t) lvp p HP HT D1 D2 D3) as (p2 & rb2 & lv2 & A2 & B2 & C2 & _).
  rewrite replay_into_loop, A2. split; [reflexivity|].
  rewrite rebuild_hdrs in B. rewrite B in B2. inversion B2; subst rb2.
  rewrite C2, <- C. apply eqb_list_row_refl.
Qed.
End Main.

(* ---------- the theorems, closed *)
Theorem T07_rebuild_ok : forall c e r,
  0 < c_rs c -> c_readonly c = false -> c_csuf c = [] -> c_esuf c = [] ->
  forallb hb_ok ((CInitialize [slash], e) :: r) = true ->
  forallb (fun ke => call_ok (fst ke)) r = true ->
  forallb (fun ke => fs_call (fst ke)) r = true ->
  res_ok (snd (rebuild c (tp (final c init_sys ((CInitialize [slash], e) :: r))))) = true.
Proof. intros. apply T07_rebuild_ok_; assumption. Qed.

Theorem T07_replay_converges : forall c e r j,
  0 < c_rs c -> c_readonly c = false ->
  c_csuf c = [] -> c_esuf c = [] ->
  forallb hb_ok ((CInitialize [slash], e) :: r) = true ->
  forallb (fun ke => call_ok (fst ke)) r = true ->
  forallb (fun ke => fs_call (fst ke)) r = true ->
  let t := tp (final c init_sys ((CInitialize [slash], e) :: r)) in
  let '(p, rr) := replay_into c t (prefix_index c t j) in
  res_ok rr = true /\ eqb_list eqb_row (visible p) (visible (fst (rebuild c t))) = true.
Proof. intros. apply T07_replay_converges_; assumption. Qed.

(* a second replay changes nothing visible *)
Theorem T07_replay_idempotent : forall c e r j,
  0 < c_rs c -> c_readonly c = false ->
  c_csuf c = [] -> c_esuf c = [] ->
  forallb hb_ok ((CInitialize [slash], e) :: r) = true ->
  forallb (fun ke => call_ok (fst ke)) r = true ->
  forallb (fun ke => fs_call (fst ke)) r = true ->
  let t := tp (final c init_sys ((CInitialize [slash], e) :: r)) in
  let p1 := fst (replay_into c t (prefix_index c t j)) in
  let '(p2, r2) := replay_into c t p1 in
  res_ok r2 = true /\ eqb_list eqb_row (visible p2) (visible p1) = true.
Proof. intros. apply T07_replay_idempotent_; assumption. Qed.

(* the statement of Props/C07.v ([C07_full_statement]), for the histories covered here; its hypotheses
   [j <= length (all_members t)] and [res_ok (snd (rebuild c t)) = true] are not needed *)
Theorem T07_C07_statement : forall c h j e r,
  h = (CInitialize [slash], e) :: r ->
  c_readonly c = false -> c_csuf c = [] -> c_esuf c = [] ->
  forallb hb_ok h = true ->
  forallb (fun ke => call_ok (fst ke)) r = true ->
  forallb (fun ke => fs_call (fst ke)) r = true ->
  0 < c_rs c ->
  let t := tp (final c init_sys h) in
  (j <= length (all_members t))%nat ->
  res_ok (snd (rebuild c t)) = true ->
  let '(p, r) := replay_into c t (prefix_index c t j) in
  res_ok r = true /\ eqb_list eqb_row (visible p) (visible (fst (rebuild c t))) = true.
Proof.
  intros c h j e r -> Hro Hc He Hhb Hok Hfs Hrs t _ _. apply T07_replay_converges; assumption.
Qed.

Print Assumptions T07_replay_converges.
Print Assumptions T07_replay_idempotent.
Print Assumptions T07_C07_statement.
