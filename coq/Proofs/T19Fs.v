(* T19 / Fs: every filesystem-level call on related instances returns the same outcome and leaves related instances.
   Plain configuration; the root is never removed or renamed onto (call_ok). *)
From Coq Require Import List NArith ZArith Bool Lia.
From Coq Require Import ZifyN ZifyBool.
Import ListNotations.
From STFS Require Import Str Db Tape Index Ops Fs Diff Norm StrLemmas C01Str C01Db C01Inv C01Sim C01Tape C01Hdr C01Ops C01Ops2
  C01Reads C01Fs C01Fs2 T13Path T17Str T19Rel T19Base T19Db T19Index T19Ops T19Reads.
Open Scope N_scope.

Lemma get_root_path_rd pa pr : PR pa pr -> exists pr', get_root_path pr = (pr', Some []) /\ same pr pr'.
Proof.
  intro H. destruct (PR_head _ _ H) as (a0 & ta & r0 & tr & _ & Er & _ & _ & _ & Nr & Dr).
  assert (F : filter live (rows pr) = r0 :: filter live tr) by (rewrite Er; cbn [filter]; unfold live at 1; rewrite Dr; reflexivity).
  unfold get_root_path. rewrite (pr_root_r _ _ (PR_rel _ _ H)). rewrite F. cbn [min_depth_row].
  rewrite min_depth_keep by (intros x _; rewrite Nr; cbn; lia).
  rewrite Nr. eexists. split; [reflexivity|]. split; [reflexivity|]. cbn [root]. symmetry. exact (pr_root_r _ _ (PR_rel _ _ H)).
Qed.

Section Fs.
Variable c : cfg.
Hypothesis HP : plain c.
Hypothesis Hrs : 0 < c_rs c.
Hypothesis Hro : c_readonly c = false.

(* same outcome, related results *)
Definition SIM (x y : sys * outc) : Prop := snd y = snd x /\ GoodE c (fst x) (fst y).

Definition stat_form (sa : sys) (g : str) : res hdr :=
  match find_rows (rows (db sa)) g with Some d => Ok (hdr_of_row d) | None => NoRows end.

Lemma statF sa sr g nr : GoodE c sa sr -> good g -> nrel g nr ->
  exists sr' rr, stat_s sa g false = (sa, stat_form sa g) /\ stat_s sr nr false = (sr', rr) /\ GoodE c sa sr' /\
    resrel hrel (stat_form sa g) rr.
Proof.
  intros HG G Hn. destruct (stat_false_sim sa sr g nr (GoodE_PR _ _ _ HG) G Hn) as (pr' & rr & Ea & Er & S & HR).
  exists (set_db sr pr'), rr. split; [exact Ea|]. split; [exact Er|]. split; [apply GoodE_set_db; assumption|exact HR].
Qed.

Lemma statT sa sr g nr : GoodE c sa sr -> good g -> g <> [slash] -> nrel g nr ->
  exists sr', stat_s sa g true = (sa, NoRows) /\ stat_s sr nr true = (sr', NoRows) /\ GoodE c sa sr'.
Proof.
  intros HG G Hg Hn. destruct (stat_true_sim sa sr g nr (GoodE_PR _ _ _ HG) G Hg Hn) as (pr' & Ea & Er & S).
  exists (set_db sr pr'). split; [exact Ea|]. split; [exact Er|]. apply GoodE_set_db; assumption.
Qed.

Lemma stat_form_root sa sr g : GoodE c sa sr -> stat_form sa g = NoRows -> g <> [slash].
Proof.
  intros HG E K. subst g. destruct (find_root _ _ (GoodE_PR _ _ _ HG)) as (d & Ed). unfold stat_form in E. rewrite Ed in E. discriminate.
Qed.

(* facts about a header returned by Stat on the writer *)
Lemma stat_form_ok sa sr g h : GoodE c sa sr -> stat_form sa g = Ok h ->
  exists d, h = hdr_of_row d /\ In d (rows (db sa)) /\ live d = true /\ r_name d = g /\ r_link d = [] /\ rowok d.
Proof.
  intros HG E. unfold stat_form in E. destruct (find_rows (rows (db sa)) g) as [d|] eqn:Ef; [|discriminate]. injection E as <-.
  exists d. split; [reflexivity|]. exact (find_rows_row _ _ g d (GoodE_PR _ _ _ HG) Ef).
Qed.

Lemma parent_check_sim sa sr name : GoodE c sa sr -> is_abs name = true ->
  exists sr' o, parent_check sa name = (sa, o) /\ parent_check sr name = (sr', o) /\ GoodE c sa sr'.
Proof.
  intros HG Ha. unfold parent_check.
  destruct (statF sa sr (path_dir name) (path_dir name) HG (path_dir_good name Ha) (nrel_refl _)) as (sr1 & rr & Ea & Er & HG1 & HR).
  rewrite Ea, Er. destruct (stat_form sa (path_dir name)) as [h| | |e]; inversion HR as [? hr Hh| | |]; subst.
  - rewrite (hr_tf _ _ Hh). destruct (h_tf h =? TypeDir); eexists _, _; (split; [reflexivity|]; split; [reflexivity|exact HG1]).
  - eexists _, _. split; [reflexivity|]. split; [reflexivity|exact HG1].
  - eexists _, _. split; [reflexivity|]. split; [reflexivity|exact HG1].
  - eexists _, _. split; [reflexivity|]. split; [reflexivity|exact HG1].
Qed.

Ltac sim_done HG := split; [reflexivity|exact HG].
Ltac bad_form Es := exfalso; unfold stat_form in Es; destruct (find_rows _ _); discriminate Es.

(* ---------- Mkdir *)
Lemma fs_mkdir_sim sa sr n perm : GoodE c sa sr -> is_abs n = true -> SIM (fs_mkdir c sa n perm) (fs_mkdir c sr n perm).
Proof.
  intros HG Ha. unfold fs_mkdir. rewrite Hro. pose proof (path_clean_abs_good n Ha) as G. set (name := path_clean n) in *.
  destruct (parent_check_sim sa sr name HG (good_abs _ G)) as (sr1 & o & Ea & Er & HG1). rewrite Ea, Er.
  destruct o; try sim_done HG1.
  destruct (statF sa sr1 name name HG1 G (nrel_refl _)) as (sr2 & rr & Ea2 & Er2 & HG2 & HR). rewrite Ea2, Er2.
  destruct (stat_form sa name) as [h| | |e] eqn:Es; inversion HR; subst; try sim_done HG2; try bad_form Es.
  pose proof (stat_form_root _ _ _ HG Es) as Hn.
  destruct (statT sa sr2 name name HG2 G Hn (nrel_refl _)) as (sr3 & Ea3 & Er3 & HG3). rewrite Ea3, Er3.
  destruct (mknode_simr c HP Hrs Hro sa sr3 true name perm HG3 G) as (sa' & sr' & E1 & E2 & HG' & _). rewrite E1, E2. sim_done HG'.
Qed.

(* ---------- MkdirAll *)
Lemma mkdirall_loop_sim perm parts : forall sa sr cur, GoodE c sa sr -> good cur ->
  SIM (mkdirall_loop c sa cur false parts perm) (mkdirall_loop c sr cur false parts perm).
Proof.
  induction parts as [|part rest IH]; intros sa sr cur HG G; cbn [mkdirall_loop]; [sim_done HG|].
  cbn [andb]. match goal with |- context [stat_s sa ?x false] => set (cur' := x) in * end.
  assert (G' : good cur').
  { unfold cur'. destruct cur; [exfalso; exact (good_nonempty _ G eq_refl)|apply path_join2_good; exact G]. }
  destruct (statF sa sr cur' cur' HG G' (nrel_refl _)) as (sr1 & rr & Ea & Er & HG1 & HR). rewrite Ea, Er.
  destruct (stat_form sa cur') as [h| | |e] eqn:Es; inversion HR as [? hr Hh| | |]; subst; try sim_done HG1.
  - rewrite (hr_tf _ _ Hh). destruct (h_tf h =? TypeDir); [apply IH; assumption|sim_done HG1].
  - pose proof (stat_form_root _ _ _ HG Es) as Hn.
    destruct (statT sa sr1 cur' cur' HG1 G' Hn (nrel_refl _)) as (sr2 & Ea2 & Er2 & HG2). rewrite Ea2, Er2.
    destruct (mknode_simr c HP Hrs Hro sa sr2 true cur' perm HG2 G') as (sa' & sr' & E1 & E2 & HG' & _). rewrite E1, E2.
    apply IH; assumption.
Qed.

Lemma fs_mkdirall_sim sa sr n perm : GoodE c sa sr -> is_abs n = true -> SIM (fs_mkdirall c sa n perm) (fs_mkdirall c sr n perm).
Proof.
  intros HG Ha. unfold fs_mkdirall. rewrite Hro.
  destruct (path_clean_abs_good n Ha) as (cs & Hcs & ->). rewrite split_slash_cons_slash.
  cbn [mkdirall_loop andb eqb_str].
  destruct (statF sa sr [slash] [slash] HG good_root (nrel_refl _)) as (sr1 & rr & Ea & Er & HG1 & HR). rewrite Ea, Er.
  destruct (stat_form sa [slash]) as [h| | |e] eqn:Es; inversion HR as [? hr Hh| | |]; subst; try sim_done HG1.
  - rewrite (hr_tf _ _ Hh). destruct (h_tf h =? TypeDir); [apply mkdirall_loop_sim; [assumption|exact good_root]|sim_done HG1].
  - exfalso. exact (stat_form_root _ _ _ HG Es eq_refl).
Qed.

(* ---------- Remove / RemoveAll *)
Lemma stat2_sim sa sr g : GoodE c sa sr -> good g ->
  exists sr' rr, (match stat_s sa g false with (s, NoRows) => stat_s s g true | x => x end) = (sa, stat_form sa g) /\
    (match stat_s sr g false with (s, NoRows) => stat_s s g true | x => x end) = (sr', rr) /\ GoodE c sa sr' /\
    resrel hrel (stat_form sa g) rr.
Proof.
  intros HG G. destruct (statF sa sr g g HG G (nrel_refl _)) as (sr1 & rr & Ea & Er & HG1 & HR). rewrite Ea, Er.
  destruct (stat_form sa g) as [h| | |e] eqn:Es; inversion HR as [? hr Hh| | |]; subst.
  - exists sr1, (Ok hr). split; [reflexivity|]. split; [reflexivity|]. split; [exact HG1|]. constructor. exact Hh.
  - pose proof (stat_form_root _ _ _ HG Es) as Hn.
    destruct (statT sa sr1 g g HG1 G Hn (nrel_refl _)) as (sr2 & Ea2 & Er2 & HG2). rewrite Ea2, Er2.
    exists sr2, NoRows. split; [reflexivity|]. split; [reflexivity|]. split; [exact HG2|]. constructor.
  - exists sr1, Unique. split; [reflexivity|]. split; [reflexivity|]. split; [exact HG1|]. constructor.
  - exists sr1, (Fail e). split; [reflexivity|]. split; [reflexivity|]. split; [exact HG1|]. constructor.
Qed.

Lemma delete_sim sa sr name : GoodE c sa sr -> good name -> name <> [slash] -> SIM (delete_op c sa name) (delete_op c sr name).
Proof.
  intros HG G Hn. destruct (delete_op_simr c HP Hrs sa sr name HG G Hn) as (sa' & sr' & o & E1 & E2 & HG'). rewrite E1, E2. sim_done HG'.
Qed.

Lemma fs_remove_nl_sim sa sr name : GoodE c sa sr -> good name -> name <> [slash] ->
  SIM (fs_remove_nl c sa name) (fs_remove_nl c sr name).
Proof.
  intros HG G Hn. unfold fs_remove_nl. rewrite Hro.
  destruct (stat2_sim sa sr name HG G) as (sr1 & rr & Ea & Er & HG1 & HR). rewrite Ea, Er.
  destruct (stat_form sa name) as [h| | |e] eqn:Es; inversion HR as [? hr Hh| | |]; subst; try sim_done HG1.
  rewrite (hr_tf _ _ Hh), (hr_link _ _ Hh).
  destruct ((h_tf h =? TypeDir) && eqb_str (h_link h) []); [|apply delete_sim; assumption].
  destruct (inv_list_sim (db sa) (db sr1) name name (GoodE_PR _ _ _ HG1) G (nrel_refl _)) as (pr2 & lr & Ea2 & Er2 & S2 & Hrows).
  rewrite Ea2, Er2. rewrite set_db_same.
  pose proof (GoodE_set_db c sa sr1 pr2 HG1 S2) as HG2.
  destruct Hrows as [|a r la lr' Har Hl]; cbn [map].
  - apply delete_sim; assumption.
  - sim_done HG2.
Qed.

Lemma fs_remove_sim sa sr n : GoodE c sa sr -> is_abs n = true -> path_clean n <> [slash] -> SIM (fs_remove c sa n) (fs_remove c sr n).
Proof. intros HG Ha Hn. unfold fs_remove. rewrite Hro. apply fs_remove_nl_sim; [exact HG|apply path_clean_abs_good; exact Ha|exact Hn]. Qed.

Lemma fs_removeall_sim sa sr n : GoodE c sa sr -> is_abs n = true -> path_clean n <> [slash] ->
  SIM (fs_removeall c sa n) (fs_removeall c sr n).
Proof.
  intros HG Ha Hn. unfold fs_removeall. rewrite Hro.
  destruct (delete_op_simr c HP Hrs sa sr (path_clean n) HG (path_clean_abs_good n Ha) Hn) as (sa' & sr' & o & E1 & E2 & HG'). rewrite E1, E2.
  destruct o; sim_done HG'.
Qed.

(* ---------- Chmod / Chown / Chtimes *)
Lemma fs_update_meta_sim sa sr n patch : GoodE c sa sr -> is_abs n = true ->
  (forall h, h_name (patch h) = h_name h /\ h_link (patch h) = h_link h /\ h_pax (patch h) = h_pax h) ->
  (forall ha hr, hrel ha hr -> hrel (patch ha) (patch hr)) ->
  SIM (fs_update_meta c sa n patch) (fs_update_meta c sr n patch).
Proof.
  intros HG Ha Hp1 Hp2. unfold fs_update_meta. rewrite Hro. destruct n as [|n0 n']; [discriminate|].
  pose proof (path_clean_abs_good _ Ha) as G. set (name := path_clean (n0 :: n')) in *.
  assert (K : exists sr1 rr,
     (match stat_s sa name false with
      | (s, NoRows) => match stat_s s name true with (s, Ok lh) => stat_s s (h_link lh) false | x => x end
      | x => x end) = (sa, stat_form sa name) /\
     (match stat_s sr name false with
      | (s, NoRows) => match stat_s s name true with (s, Ok lh) => stat_s s (h_link lh) false | x => x end
      | x => x end) = (sr1, rr) /\ GoodE c sa sr1 /\ resrel hrel (stat_form sa name) rr).
  { destruct (statF sa sr name name HG G (nrel_refl _)) as (sr1 & rr & Ea & Er & HG1 & HR). rewrite Ea, Er.
    destruct (stat_form sa name) as [h| | |e] eqn:Es; inversion HR as [? hr Hh| | |]; subst.
    - exists sr1, (Ok hr). split; [reflexivity|]. split; [reflexivity|]. split; [exact HG1|]. constructor. exact Hh.
    - pose proof (stat_form_root _ _ _ HG Es) as Hn.
      destruct (statT sa sr1 name name HG1 G Hn (nrel_refl _)) as (sr2 & Ea2 & Er2 & HG2). rewrite Ea2, Er2.
      exists sr2, NoRows. split; [reflexivity|]. split; [reflexivity|]. split; [exact HG2|]. constructor.
    - exists sr1, Unique. split; [reflexivity|]. split; [reflexivity|]. split; [exact HG1|]. constructor.
    - exists sr1, (Fail e). split; [reflexivity|]. split; [reflexivity|]. split; [exact HG1|]. constructor. }
  destruct K as (sr1 & rr & -> & -> & HG1 & HR).
  destruct (stat_form sa name) as [h| | |e] eqn:Es; inversion HR as [? hr Hh| | |]; subst; try sim_done HG1.
  destruct (stat_form_ok _ _ _ _ HG Es) as (d & -> & Hin & Hlv & Hnm & Hlk & Hok).
  destruct (Hp1 (hdr_of_row d)) as (P1 & P2 & P3).
  destruct (update_simr c HP Hrs sa sr1 {| f_hdr := patch (hdr_of_row d); f_data := [] |} {| f_hdr := patch hr; f_data := [] |} false false HG1)
    as (sa' & sr' & E1 & E2 & HG').
  - cbn [f_hdr]. apply Hp2. exact Hh.
  - reflexivity.
  - cbn [f_hdr]. rewrite P1. apply Hok.
  - cbn [f_hdr]. rewrite P2. exact Hlk.
  - cbn [f_hdr]. rewrite P3. apply Hok.
  - cbn [f_hdr]. rewrite P1. cbn [h_name hdr_of_row]. unfold live_name. apply existsb_exists. exists d. split; [exact Hin|].
    rewrite Hlv, eqb_str_refl. reflexivity.
  - rewrite E1, E2. sim_done HG'.
Qed.

(* ---------- Rename *)
Lemma spelling_root : spelling [] = spelling [slash].
Proof. reflexivity. Qed.

Lemma fs_rename_sim sa sr a b : GoodE c sa sr -> is_abs a = true -> is_abs b = true -> path_clean b <> [slash] ->
  SIM (fs_rename c sa a b) (fs_rename c sr a b).
Proof.
  intros HG Ha Hb Hnb. unfold fs_rename. rewrite Hro.
  destruct a as [|a0 a']; [discriminate|]. destruct b as [|b0 b']; [discriminate|].
  pose proof (path_clean_abs_good _ Ha) as Go. pose proof (path_clean_abs_good _ Hb) as Gn.
  set (old := path_clean (a0 :: a')) in *. set (new := path_clean (b0 :: b')) in *.
  rewrite (get_root_path_lv true (db sa) (PR_li _ _ (GoodE_PR _ _ _ HG))).
  destruct (get_root_path_rd _ _ (GoodE_PR _ _ _ HG)) as (pr0 & Eg & S0). rewrite Eg. rewrite set_db_same.
  pose proof (GoodE_set_db c sa sr pr0 HG S0) as HG0.
  assert (Eb : eqb_str [] old || eqb_str (spelling []) (spelling old) = eqb_str [slash] old || eqb_str (spelling [slash]) (spelling old)).
  { rewrite spelling_root. replace (eqb_str [] old) with false by (symmetry; apply eqb_str_neq; intro K; apply (good_nonempty _ Go); symmetry; exact K).
    destruct (eqb_str [slash] old) eqn:E; [|reflexivity]. apply eqb_str_eq in E. rewrite <- E. reflexivity. }
  rewrite Eb. destruct (eqb_str [slash] old || eqb_str (spelling [slash]) (spelling old)) eqn:Eroot; [sim_done HG0|].
  assert (Ho : old <> [slash]).
  { intro K. rewrite K in Eroot. cbn in Eroot. discriminate. }
  destruct (stat2_sim sa (set_db sr pr0) old HG0 Go) as (sr1 & rr & Ea & Er & HG1 & HR). rewrite Ea, Er.
  destruct (stat_form sa old) as [sh| | |e] eqn:Es; inversion HR as [? shr Hsh| | |]; subst; try sim_done HG1.
  destruct (eqb_str old new || eqb_str (spelling old) (spelling new)) eqn:Esame; [sim_done HG1|].
  assert (Hon : old <> new).
  { intro K. rewrite K, eqb_str_refl in Esame. discriminate. }
  rewrite (hr_tf _ _ Hsh).
  destruct ((h_tf sh =? TypeDir) && has_prefix (trim_suffix [slash] (spelling old) ++ [slash]) (spelling new)); [sim_done HG1|].
  destruct (parent_check_sim sa sr1 new HG1 (good_abs _ Gn)) as (sr2 & o & Ea2 & Er2 & HG2). rewrite Ea2, Er2.
  destruct o; try sim_done HG2.
  destruct (statF sa sr2 new new HG2 Gn (nrel_refl _)) as (sr3 & rr3 & Ea3 & Er3 & HG3 & HR3). rewrite Ea3, Er3.
  assert (MV : forall xa xr, GoodE c xa xr -> SIM (move_op c xa old new) (move_op c xr old new)).
  { intros xa xr HX. destruct (move_op_simr c HP Hrs xa xr old new HX Go Gn Ho Hnb Hon) as (sa' & sr' & o & E1 & E2 & HG'). rewrite E1, E2. sim_done HG'. }
  destruct (stat_form sa new) as [th| | |e] eqn:Et; inversion HR3 as [? thr Hth| | |]; subst; try (apply MV; exact HG3).
  rewrite (hr_tf _ _ Hth). destruct (negb (h_tf th =? h_tf sh)); [sim_done HG3|].
  pose proof (fs_remove_nl_sim sa sr3 new HG3 Gn Hnb) as [K1 K2].
  destruct (fs_remove_nl c sa new) as [sa4 o4]. destruct (fs_remove_nl c sr3 new) as [sr4 o4']. cbn [fst snd] in K1, K2. subst o4'.
  destruct o4; try sim_done K2. apply MV. exact K2.
Qed.
End Fs.
