(* T19 / Cfg: the simulation for ANY codec configuration (suffixes c_csuf / c_esuf, arbitrary encoded sizes).
   By Tcfg* every call under [c] on a state [s] is the call under [plain_of c] on [Pl c s] (the same state, with the codec
   suffixes removed from the names of the records that carry content: [efft]); so two instances are related under [c] when
   their [Pl c] images are ([SimC]), and the theorems of T19Main transfer without a hypothesis on the configuration. *)
From Coq Require Import List NArith ZArith Bool Lia.
Import ListNotations.
From STFS Require Import Str Db Tape Index Ops Fs Diff Norm C01Inv C01Sim C01Ops C01Fs2 C01Rows
  TcfgSim TcfgOps TcfgFs TcfgHist TcfgThms T19Rel T19Base T19Db T19Index T19Append T19Main.
Open Scope N_scope.

Definition SimC (c : cfg) (sa sr : sys) : Prop := Sim (plain_of c) (Pl c sa) (Pl c sr).

(* for a plain configuration this is [Sim] itself *)
Lemma efft_plain c t : plain c -> efft c t = t.
Proof.
  intro HP. unfold efft. induction t as [|i t IH]; [reflexivity|]. cbn [map]. rewrite IH. f_equal.
  destruct i as [m|]; [|reflexivity]. cbn [effi]. f_equal. destruct m. unfold effm. cbn. rewrite (effh_plain c _ HP). reflexivity.
Qed.
Lemma Pl_plain c s : plain c -> Pl c s = s.
Proof. intro HP. unfold Pl. rewrite (efft_plain c _ HP). destruct s; reflexivity. Qed.
Lemma SimC_plain c sa sr : plain c -> (SimC c sa sr <-> Sim c sa sr).
Proof. intro HP. unfold SimC. rewrite (plain_of_id c HP), !(Pl_plain c _ HP). reflexivity. Qed.

Section Any.
Variable c : cfg.
Hypothesis Hrs : 0 < c_rs c.
Hypothesis Hro : c_readonly c = false.

Theorem T19_view_sim_any_config : forall sa sr, SimC c sa sr -> view c sr = view c sa.
Proof. intros sa sr H. rewrite <- (view_Pl c sr), <- (view_Pl c sa). apply T19_view_sim'. exact H. Qed.

Theorem T19_step_sim_any_config : forall sa sr k e, SimC c sa sr ->
  fs_call k = true -> call_ok k = true -> hb_ok (k, e) = true ->
  snd (step c (with_env sr e) k) = snd (step c (with_env sa e) k) /\
  SimC c (fst (step c (with_env sa e) k)) (fst (step c (with_env sr e) k)).
Proof.
  intros sa sr k e H Hk Hok Hb.
  destruct (T19_step_sim (plain_of c) (plain_of_plain c) Hrs Hro (Pl c sa) (Pl c sr) k e H Hk Hok Hb) as (A & B & _).
  rewrite !with_env_Pl, !step_Pl in A, B. unfold liftP in A, B. cbn [fst snd] in A, B. split; assumption.
Qed.

Theorem T19_run_sim_any_config : forall h sa sr, SimC c sa sr ->
  forallb (fun ke => fs_call (fst ke)) h = true -> forallb (fun ke => call_ok (fst ke)) h = true -> forallb hb_ok h = true ->
  Forall2 obs_rel (run c sa h) (run c sr h) /\ SimC c (final c sa h) (final c sr h).
Proof.
  intros h sa sr H H1 H2 H3.
  destruct (T19_run_sim (plain_of c) (plain_of_plain c) Hrs Hro h (Pl c sa) (Pl c sr) H H1 H2 H3) as (A & B).
  rewrite !run_Pl in A. rewrite !final_Pl in B. split; assumption.
Qed.

Lemma Pl_absent t q1 q2 k : Pl c {| tp := t; db := p_empty; hbq := q1; encq := q2; clk := k |} =
  {| tp := efft c t; db := p_empty; hbq := q1; encq := q2; clk := k |}.
Proof. reflexivity. Qed.

Theorem T19_rel_init_any_config : forall e r,
  forallb hb_ok ((CInitialize [slash], e) :: r) = true ->
  forallb (fun ke => fs_call (fst ke)) r = true ->
  forallb (fun ke => call_ok (fst ke)) r = true ->
  forall rootp q1 q2 k,
  let s := final c init_sys ((CInitialize [slash], e) :: r) in
  let s0 := {| tp := tp s; db := p_empty; hbq := q1; encq := q2; clk := k |} in
  snd (fs_initialize c s0 rootp) = OOk /\ SimC c s (fst (fs_initialize c s0 rootp)).
Proof.
  intros e r Hhb Hfs Hok rootp q1 q2 k s s0.
  pose proof (T19_rel_init (plain_of c) e r (plain_of_plain c) Hrs Hro Hhb Hfs Hok rootp q1 q2 k) as K. cbv zeta in K.
  rewrite (final_hist_Pl c e r) in K. fold s in K. change (tp (Pl c s)) with (efft c (tp s)) in K.
  rewrite <- (Pl_absent (tp s) q1 q2 k) in K. fold s0 in K. rewrite fs_initialize_Pl in K. exact K.
Qed.

Theorem T19_reopen_rebuilt_any_config : forall sa sr rootp q1 q2 k, SimC c sa sr ->
  let s0 := {| tp := tp sr; db := p_empty; hbq := q1; encq := q2; clk := k |} in
  snd (fs_initialize c s0 rootp) = OOk /\ tp (fst (fs_initialize c s0 rootp)) = tp sr /\
  SimC c sa (fst (fs_initialize c s0 rootp)) /\ view c (fst (fs_initialize c s0 rootp)) = view c sr.
Proof.
  intros sa sr rootp q1 q2 k H s0.
  pose proof (T19_reopen_rebuilt (plain_of c) (Pl c sa) (Pl c sr) rootp q1 q2 k H) as K. cbv zeta in K.
  change (tp (Pl c sr)) with (efft c (tp sr)) in K. rewrite <- (Pl_absent (tp sr) q1 q2 k) in K. fold s0 in K.
  rewrite fs_initialize_Pl in K. unfold liftP in K. cbn [fst snd] in K. destruct K as (A & B & C & D).
  split; [exact A|]. split; [|split; [exact C|rewrite !view_Pl in D; exact D]].
  destruct H as (_ & _ & (qr & Eq & _ & _)). change (tp (Pl c sr)) with (efft c (tp sr)) in Eq. rewrite rebuild_eff in Eq.
  assert (Ht : tp sr <> []).
  { intro E. apply (Sim_tape_nonempty _ _ _ C). rewrite B, E. reflexivity. }
  apply (T05Open.T05_initialize_over_rebuildable_tape_appends_nothing c s0 rootp qr Ht Eq).
Qed.

(* the two C16 statements, any configuration *)
Theorem T19_rebuilt_instance_simulates_writer_any_config : forall e r r2,
  forallb hb_ok ((CInitialize [slash], e) :: r) = true ->
  forallb (fun ke => fs_call (fst ke)) r = true -> forallb (fun ke => call_ok (fst ke)) r = true ->
  forallb (fun ke => fs_call (fst ke)) r2 = true -> forallb (fun ke => call_ok (fst ke)) r2 = true -> forallb hb_ok r2 = true ->
  forall rootp q1 q2 k,
  let s := final c init_sys ((CInitialize [slash], e) :: r) in
  let sr := fst (fs_initialize c {| tp := tp s; db := p_empty; hbq := q1; encq := q2; clk := k |} rootp) in
  map ob_out (run c sr r2) = map ob_out (run c s r2) /\
  map ob_view (run c sr r2) = map ob_view (run c s r2) /\
  map ob_blocks (run c sr r2) = map ob_blocks (run c s r2) /\
  Forall2 rows_rel (map ob_rows (run c s r2)) (map ob_rows (run c sr r2)) /\
  SimC c (final c s r2) (final c sr r2).
Proof.
  intros e r r2 Hhb Hfs Hok Hfs2 Hok2 Hhb2 rootp q1 q2 k s sr.
  destruct (T19_rel_init_any_config e r Hhb Hfs Hok rootp q1 q2 k) as (_ & HS). fold s in HS. fold sr in HS.
  destruct (T19_run_sim_any_config r2 s sr HS Hfs2 Hok2 Hhb2) as (Hobs & HS').
  destruct (obs_rel_maps _ _ Hobs) as (A & B & C & D). split; [exact A|]. split; [exact B|]. split; [exact C|]. split; [exact D|exact HS'].
Qed.

Theorem T19_written_after_opening_survive_rebuild_any_config : forall e r r2,
  forallb hb_ok ((CInitialize [slash], e) :: r) = true ->
  forallb (fun ke => fs_call (fst ke)) r = true -> forallb (fun ke => call_ok (fst ke)) r = true ->
  forallb (fun ke => fs_call (fst ke)) r2 = true -> forallb (fun ke => call_ok (fst ke)) r2 = true -> forallb hb_ok r2 = true ->
  forall rootp q1 q2 k rootp' q1' q2' k',
  let s := final c init_sys ((CInitialize [slash], e) :: r) in
  let sr := fst (fs_initialize c {| tp := tp s; db := p_empty; hbq := q1; encq := q2; clk := k |} rootp) in
  let sr' := final c sr r2 in
  let s2 := {| tp := tp sr'; db := p_empty; hbq := q1'; encq := q2'; clk := k' |} in
  view c sr' = view c (final c s r2) /\
  snd (fs_initialize c s2 rootp') = OOk /\ tp (fst (fs_initialize c s2 rootp')) = tp sr' /\
  view c (fst (fs_initialize c s2 rootp')) = view c sr' /\
  exists p, rebuild c (tp sr') = (p, Ok tt) /\ rows p = rows (db sr').
Proof.
  intros e r r2 Hhb Hfs Hok Hfs2 Hok2 Hhb2 rootp q1 q2 k rootp' q1' q2' k' s sr sr' s2.
  destruct (T19_rel_init_any_config e r Hhb Hfs Hok rootp q1 q2 k) as (_ & HS). fold s in HS. fold sr in HS.
  destruct (T19_run_sim_any_config r2 s sr HS Hfs2 Hok2 Hhb2) as (_ & HS'). fold sr' in HS'.
  split; [exact (T19_view_sim_any_config _ _ HS')|].
  destruct (T19_reopen_rebuilt_any_config _ sr' rootp' q1' q2' k' HS') as (A & B & _ & D). fold s2 in A, B, D.
  split; [exact A|]. split; [exact B|]. split; [exact D|].
  destruct (T19_rebuilt_continuation_keeps_C01 _ _ _ HS') as (p & E & F & _).
  change (tp (Pl c sr')) with (efft c (tp sr')) in E. rewrite rebuild_eff in E. exists p. split; assumption.
Qed.
End Any.

Print Assumptions T19_step_sim_any_config.
Print Assumptions T19_rel_init_any_config.
Print Assumptions T19_rebuilt_instance_simulates_writer_any_config.
Print Assumptions T19_written_after_opening_survive_rebuild_any_config.
