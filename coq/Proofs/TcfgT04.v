(* Tcfg / C04 (T04): contents (what is read is what was last written; positions designate content records), for
   arbitrary codec suffixes.  [Good4 hr c s] is literally the state hypothesis of T04Content.v. *)
From Coq Require Import List NArith ZArith Bool Lia.
From Coq Require Import ZifyN ZifyBool.
Import ListNotations.
From STFS Require Import Str Db Tape Index Ops Fs File Diff Norm TapeLemmas
  C01Str C01Sim C01Rows T02Ns T02Db T02Str T02Calls T02Spec T04Def T04Ns T04Content T04View
  TcfgSim TcfgOps TcfgFs TcfgHist TcfgT02.
Open Scope N_scope.

Lemma is_content_record_effm c m sz : is_content_record (effm c m) sz <-> is_content_record m sz.
Proof. unfold is_content_record. tauto. Qed.

Lemma designates_Pl c s : designates c s <-> designates (plain_of c) (Pl c s).
Proof.
  unfold designates. change (abs (Pl c s)) with (abs s). change (c_rs (plain_of c)) with (c_rs c).
  change (tp (Pl c s)) with (efft c (tp s)). split; intros H n v Hl Hr; destruct (H n v Hl Hr) as (m & Hm & Hc).
  - exists (effm c m). rewrite member_at_efft, Hm. split; [reflexivity|apply is_content_record_effm; exact Hc].
  - rewrite member_at_efft in Hm.
    destruct (member_at (tp s) (off_of (c_rs c) (fst (n_cid v)) (snd (n_cid v)))) as [m1|]; [|discriminate].
    cbn [option_map] in Hm. inversion Hm; subst m. exists m1. split; [reflexivity|apply (is_content_record_effm c); exact Hc].
Qed.

Lemma Good4_Pl hr c s : Good4 hr c s <-> Good4 hr (plain_of c) (Pl c s).
Proof.
  split; intros [A B C]; split; try exact C.
  - apply (proj1 (Good_Pl hr c s)); exact A.
  - apply (proj1 (designates_Pl c s)); exact B.
  - apply (proj2 (Good_Pl hr c s)); exact A.
  - apply (proj2 (designates_Pl c s)); exact B.
Qed.

Lemma content_of_Pl c s n : content_of (plain_of c) (Pl c s) n = content_of c s n.
Proof.
  unfold content_of. rewrite stat_s_Pl. destruct (stat_s s n false) as [s1 [h| | |e]]; try reflexivity.
  unfold liftP. cbn [fst snd]. destruct (tf_regular (h_tf h)); [|reflexivity].
  rewrite read_path_Pl. destruct (read_path c s n) as [s2 [x| | |e]]; reflexivity.
Qed.

Lemma last_written_Pl c r : forall s w,
  last_written (plain_of c) (Pl c s) r w = last_written c s r w.
Proof.
  induction r as [|[k e] r IH]; intros s w; [reflexivity|]. cbn [last_written].
  rewrite with_env_Pl, (step_Pl c (with_env s e) k).
  destruct (step c (with_env s e) k) as [s' o]. unfold liftP. cbn [fst snd]. apply IH.
Qed.

Lemma upd_w_ext k o f g : (forall x, f x = g x) -> forall m, upd_w k o f m = upd_w k o g m.
Proof.
  intros H m. unfold upd_w. destruct o; try apply H. destruct k; try apply H.
  - destruct (eqb_str m n); [reflexivity|apply H].
  - destruct (inside n m); [reflexivity|apply H].
  - destruct (eqb_str a b); [apply H|]. unfold w_move. destruct (inside b m); [apply H|].
    destruct (inside a m); [reflexivity|apply H].
  - destruct (eqb_str m n); [reflexivity|apply H].
Qed.

Section Any.
Variable hr : bool.
Variable c : cfg.
Hypothesis Hrs : 0 < c_rs c.
Hypothesis Hro : c_readonly c = false.

Ltac transfer K s e k :=
  rewrite with_env_Pl, (step_Pl c (with_env s e) k) in K;
  destruct (step c (with_env s e) k) as [s' o]; unfold liftP in K; cbn [fst snd] in K.

Theorem T04_step_any_config : forall s e k, Good4 hr c s -> hb_env e -> call_pre4 hr k ->
  let '(s', o) := step c (with_env s e) k in
  Good4 hr c s' /\ (o = OOk -> wgood k) /\
  forall m, good m -> content_eq (content_of c s' m) (upd_w k o (content_of c s) m).
Proof.
  intros s e k H4 Hhb Hpre.
  pose proof (T04_step hr (plain_of c) (plain_of_plain c) Hrs Hro (Pl c s) e k (proj1 (Good4_Pl hr c s) H4) Hhb Hpre) as K.
  transfer K s e k. destruct K as (A & B & C). split; [apply Good4_Pl; exact A|]. split; [exact B|].
  intros m Gm. specialize (C m Gm). rewrite content_of_Pl in C.
  rewrite (upd_w_ext k o _ _ (content_of_Pl c s) m) in C. exact C.
Qed.

Theorem T04_create_any_config : forall s e n d, Good4 hr c s -> hb_env e -> good n -> clen d < 10 ^ 40 ->
  let '(s', o) := step c (with_env s e) (CCreateFile n d) in
  Good4 hr c s' /\
  (forall m, good m -> m <> n -> content_of c s' m = content_of c s m) /\
  (o <> OOk -> content_of c s' n = content_of c s n) /\
  (o = OOk -> content_eq (content_of c s' n) (Some d) /\
              (d <> [] \/ content_of c s n = None -> content_of c s' n = Some d)).
Proof.
  intros s e n d H4 Hhb G Hlen.
  pose proof (T04_create hr (plain_of c) (plain_of_plain c) Hrs Hro (Pl c s) e n d (proj1 (Good4_Pl hr c s) H4) Hhb G Hlen) as K.
  transfer K s e (CCreateFile n d). rewrite !content_of_Pl in K. destruct K as (A & B & C & D).
  split; [apply Good4_Pl; exact A|]. split; [|split; [exact C|exact D]].
  intros m Gm Hm. specialize (B m Gm Hm). rewrite !content_of_Pl in B. exact B.
Qed.

Theorem T04_read_after_create_any_config : forall s e n d, Good4 hr c s -> hb_env e -> good n -> clen d < 10 ^ 40 ->
  let '(s', o) := step c (with_env s e) (CCreateFile n d) in
  o = OOk ->
  content_eq (content_of c s' n) (Some d) /\
  (d <> [] \/ content_of c s n = None -> content_of c s' n = Some d) /\
  (forall m, m <> n -> good m -> content_of c s' m = content_of c s m).
Proof.
  intros s e n d H4 Hhb G Hlen.
  pose proof (T04_read_after_create hr (plain_of c) (plain_of_plain c) Hrs Hro (Pl c s) e n d (proj1 (Good4_Pl hr c s) H4) Hhb G Hlen) as K.
  transfer K s e (CCreateFile n d). intro Eo. specialize (K Eo). rewrite !content_of_Pl in K. destruct K as (A & B & C).
  split; [exact A|]. split; [exact B|]. intros m Hm Gm. specialize (C m Hm Gm). rewrite !content_of_Pl in C. exact C.
Qed.

Theorem T04_other_calls_keep_contents_any_config : forall s e k, Good4 hr c s -> hb_env e -> call_pre4 hr k ->
  match k with CCreateFile _ _ => False | _ => True end ->
  let '(s', o) := step c (with_env s e) k in
  Good4 hr c s' /\ forall m, good m -> content_of c s' m = upd_w k o (content_of c s) m.
Proof.
  intros s e k H4 Hhb Hpre Hk.
  pose proof (T04_other_calls_keep_contents hr (plain_of c) (plain_of_plain c) Hrs Hro (Pl c s) e k (proj1 (Good4_Pl hr c s) H4) Hhb Hpre Hk) as K.
  transfer K s e k. destruct K as (A & B). split; [apply Good4_Pl; exact A|].
  intros m Gm. specialize (B m Gm). rewrite content_of_Pl in B. rewrite (upd_w_ext k o _ _ (content_of_Pl c s) m) in B. exact B.
Qed.

Theorem T04_rename_moves_any_config : forall s e old new, Good4 hr c s -> hb_env e -> good old -> good new -> new <> [slash] ->
  let '(s', o) := step c (with_env s e) (CRename old new) in
  o = OOk -> old <> new ->
  (forall sfx, sfx_ok sfx = true -> good (new ++ sfx) -> content_of c s' (new ++ sfx) = content_of c s (old ++ sfx)) /\
  (forall m, good m -> inside new m = false -> inside old m = true -> content_of c s' m = None) /\
  (forall m, good m -> inside new m = false -> inside old m = false -> content_of c s' m = content_of c s m).
Proof.
  intros s e old new H4 Hhb Go Gn Hn.
  pose proof (T04_rename_moves hr (plain_of c) (plain_of_plain c) Hrs Hro (Pl c s) e old new (proj1 (Good4_Pl hr c s) H4) Hhb Go Gn Hn) as K.
  transfer K s e (CRename old new). intros Eo Hne. destruct (K Eo Hne) as (A & B & C).
  split; [|split].
  - intros sfx H1 H2. specialize (A sfx H1 H2). rewrite !content_of_Pl in A. exact A.
  - intros m H1 H2 H3. specialize (B m H1 H2 H3). rewrite content_of_Pl in B. exact B.
  - intros m H1 H2 H3. specialize (C m H1 H2 H3). rewrite !content_of_Pl in C. exact C.
Qed.

(* ---------- histories *)
Theorem T04_history_any_config : forall r s w, Good4 hr c s -> ok_run4 hr r ->
  (forall m, good m -> content_eq (content_of c s m) (w m)) ->
  Good4 hr c (final c s r) /\
  forall m, good m -> content_eq (content_of c (final c s r) m) (last_written c s r w m).
Proof.
  intros r s w H4 Hok Hw.
  assert (Hw' : forall m, good m -> content_eq (content_of (plain_of c) (Pl c s) m) (w m)).
  { intros m Gm. rewrite content_of_Pl. apply Hw. exact Gm. }
  destruct (T04_history hr (plain_of c) (plain_of_plain c) Hrs Hro r (Pl c s) w (proj1 (Good4_Pl hr c s) H4) Hok Hw') as (A & B).
  rewrite (final_Pl c r s) in A, B. split; [apply Good4_Pl; exact A|].
  intros m Gm. specialize (B m Gm). rewrite content_of_Pl, (last_written_Pl c r s w) in B. exact B.
Qed.

Theorem T04_positions_designate_content_any_config : forall r s w, Good4 hr c s -> ok_run4 hr r ->
  (forall m, good m -> content_eq (content_of c s m) (w m)) ->
  forall x, In x (rows (db (final c s r))) -> live x = true -> tf_regular (r_tf x) = true ->
  exists m, member_at (tp (final c s r)) (off_of (c_rs c) (r_rec x) (r_blk x)) = Some m /\
            is_content_record m (r_size x) /\
            content_eq (Some (mdata m)) (last_written c s r w (r_name x)).
Proof.
  intros r s w H4 Hok Hw x Hin Hl Hr.
  assert (Hw' : forall m, good m -> content_eq (content_of (plain_of c) (Pl c s) m) (w m)).
  { intros m Gm. rewrite content_of_Pl. apply Hw. exact Gm. }
  pose proof (T04_positions_designate_content hr (plain_of c) (plain_of_plain c) Hrs Hro r (Pl c s) w
                (proj1 (Good4_Pl hr c s) H4) Hok Hw' x) as K.
  rewrite (final_Pl c r s), (last_written_Pl c r s w) in K. cbn [tp db Pl] in K.
  destruct (K Hin Hl Hr) as (m0 & Hm & Hc & He). change (c_rs (plain_of c)) with (c_rs c) in Hm.
  rewrite member_at_efft in Hm.
  destruct (member_at (tp (final c s r)) (off_of (c_rs c) (r_rec x) (r_blk x))) as [m|]; [|discriminate].
  cbn [option_map] in Hm. inversion Hm; subst m0. exists m. split; [reflexivity|].
  split; [apply (is_content_record_effm c); exact Hc|exact He].
Qed.
End Any.

(* ---------- from the empty system: Initialize "/" and then any history of filesystem calls *)
Lemma Good4_init_any_config c e : 0 < c_rs c -> c_readonly c = false -> hb_env e ->
  Good4 true c (fst (step c (with_env init_sys e) (CInitialize [slash]))) /\
  forall m, good m -> content_of c (fst (step c (with_env init_sys e) (CInitialize [slash]))) m = None.
Proof. exact (Good4_init c e). Qed.

Theorem T04_reachable_any_config : forall c e0 r, 0 < c_rs c -> c_readonly c = false -> hb_env e0 -> ok_run4 true r ->
  let h := (CInitialize [slash], e0) :: r in
  Good4 true c (final c init_sys h) /\
  (forall m, good m -> content_eq (content_of c (final c init_sys h) m) (last_written c init_sys h w_empty m)) /\
  (forall x, In x (rows (db (final c init_sys h))) -> live x = true -> tf_regular (r_tf x) = true ->
     exists m, member_at (tp (final c init_sys h)) (off_of (c_rs c) (r_rec x) (r_blk x)) = Some m /\
               is_content_record m (r_size x) /\
               content_eq (Some (mdata m)) (last_written c init_sys h w_empty (r_name x))).
Proof.
  intros c e0 r Hrs Hro Hhb Hok. cbn zeta.
  destruct (T04_reachable (plain_of c) e0 r (plain_of_plain c) Hrs Hro Hhb Hok) as (A & B & C). cbn zeta in A, B, C.
  rewrite <- (Pl_init c) in A, B, C. rewrite (final_Pl c _ init_sys) in A, B, C.
  rewrite (last_written_Pl c _ init_sys w_empty) in B, C. cbn [tp db Pl] in C.
  split; [apply Good4_Pl; exact A|]. split.
  - intros m Gm. specialize (B m Gm). rewrite content_of_Pl in B. exact B.
  - intros x Hin Hl Hr. destruct (C x Hin Hl Hr) as (m0 & Hm & Hc & He). change (c_rs (plain_of c)) with (c_rs c) in Hm.
    rewrite member_at_efft in Hm.
    destruct (member_at (tp (final c init_sys ((CInitialize [slash], e0) :: r))) (off_of (c_rs c) (r_rec x) (r_blk x))) as [m|]; [|discriminate].
    cbn [option_map] in Hm. inversion Hm; subst m0. exists m. split; [reflexivity|].
    split; [apply (is_content_record_effm c); exact Hc|exact He].
Qed.

(* the walk shows, for every entry, the content last written under its path *)
Theorem T04_view_reachable_any_config : forall c e0 r, 0 < c_rs c -> c_readonly c = false -> hb_env e0 -> ok_run4 true r ->
  let h := (CInitialize [slash], e0) :: r in
  forall e, In e (view c (final c init_sys h)) ->
    content_eq (e_data e) (last_written c init_sys h w_empty (e_path e)).
Proof.
  intros c e0 r Hrs Hro Hhb Hok h e He.
  pose proof (T04_view_reachable (plain_of c) e0 r (plain_of_plain c) Hrs Hro Hhb Hok) as K. cbn zeta in K. fold h in K.
  rewrite <- (Pl_init c) in K. rewrite (final_Pl c h init_sys), view_Pl, (last_written_Pl c h init_sys w_empty) in K.
  apply K. exact He.
Qed.

Print Assumptions T04_step_any_config.
Print Assumptions T04_history_any_config.
Print Assumptions T04_reachable_any_config.
Print Assumptions T04_view_reachable_any_config.
