(* T13 / operations: Delete and Move with their effect on the type map of the live rows. *)
From Coq Require Import List NArith ZArith Bool Lia.
From Coq Require Import ZifyN ZifyBool.
Import ListNotations.
From STFS Require Import Str Db Tape Index Ops Fs Norm TapeLemmas StrLemmas
  C01Str C01Db C01Inv C01Sim C01Tape C01Hdr C01Ops C01Ops2 T13Path T13Def T13Map T13Eff T13Ops.
Open Scope N_scope.

(* ---------- small facts *)
Lemma existsb_eqb_in m l : existsb (eqb_str m) l = true <-> In m l.
Proof.
  rewrite existsb_exists. split.
  - intros (x & Hx & E). apply eqb_str_eq in E. subst. exact Hx.
  - intro H. exists m. split; [exact H|apply eqb_str_refl].
Qed.

Lemma existsb_eqb_notin m l : ~ In m l -> existsb (eqb_str m) l = false.
Proof. intro H. destruct (existsb (eqb_str m) l) eqn:E; [|reflexivity]. apply existsb_eqb_in in E. contradiction. Qed.

Lemma has_suffix_snoc x : has_suffix [slash] (x ++ [slash]) = true.
Proof. rewrite has_suffix_slash. rewrite rev_app_distr. cbn. reflexivity. Qed.

Lemma under_nonroot a x : a <> [] -> under a x -> x <> [slash].
Proof. intros Ha H. eapply nonroot_of_prefix; [exact Ha|exact H]. Qed.

Lemma kid_filter_conv name z : good name -> name <> [slash] -> good (r_name z) -> live z = true ->
  under name (r_name z) -> kid_filter name z = true.
Proof.
  intros G Hn Gz Hl Hu. unfold kid_filter. rewrite (good_trim_slash name G Hn). rewrite Hl. cbn [andb].
  rewrite (like_of_prefix _ _ Hu). unfold under in Hu. rewrite Hu. cbn [andb].
  unfold not_self.
  assert (Hz : r_name z <> [slash]) by (eapply under_nonroot; [apply good_nonempty; exact G|exact Hu]).
  rewrite (good_trim_slash _ Gz Hz).
  assert (E1 : eqb_str name (r_name z) = false).
  { apply eqb_str_neq. intro K. apply (under_ne name (r_name z) Hu). symmetry. exact K. }
  assert (E2 : eqb_str name (r_name z ++ [slash]) = false).
  { apply eqb_str_neq. intro K. pose proof (good_no_trailing name G Hn) as T. rewrite K, has_suffix_snoc in T. discriminate. }
  rewrite E1, E2. reflexivity.
Qed.

Lemma dead_below f ns rs : wfm f -> Forall okc (ns ++ rs) -> f (pth ns) = None -> f (pth (ns ++ rs)) = None.
Proof.
  intros Hw Hf H. destruct rs as [|r0 rt]; [rewrite app_nil_r; exact H|].
  destruct (f (pth (ns ++ r0 :: rt))) eqn:E; [|reflexivity]. exfalso.
  assert (K : f (pth ns) = Some TypeDir).
  { apply (wfm_ancestor f ns Hw (r0 :: rt)); [exact Hf|discriminate|rewrite E; discriminate]. }
  rewrite H in K. discriminate.
Qed.

Lemma NoDup_map_transfer {A B C} (f : A -> B) (g : A -> C) l :
  (forall x y, In x l -> In y l -> f x = f y -> g x = g y) -> NoDup (map g l) -> NoDup (map f l).
Proof.
  induction l as [|a l IH]; intros H Hnd; cbn [map]; [constructor|].
  cbn [map] in Hnd. inversion Hnd as [|? ? Hnot Hnd']; subst. constructor.
  - intro K. apply in_map_iff in K as (y & Ey & Hy). apply Hnot.
    rewrite (H a y (or_introl eq_refl) (or_intror Hy) (eq_sym Ey)). apply in_map. exact Hy.
  - apply IH; [|exact Hnd']. intros x y Hx Hy. apply H; right; assumption.
Qed.

Lemma okc_dec c : okc c \/ ~ okc c.
Proof.
  unfold okc, noslash.
  destruct (str_eq_dec c []) as [E|E]; [right; tauto|].
  destruct (str_eq_dec c [dot]) as [E2|E2]; [right; tauto|].
  destruct (str_eq_dec c [dot; dot]) as [E3|E3]; [right; tauto|].
  destruct (in_dec N.eq_dec slash c) as [E4|E4]; [right; tauto|]. left. tauto.
Qed.

Lemma Forall_okc_dec l : Forall okc l \/ ~ Forall okc l.
Proof.
  induction l as [|a l IH]; [left; constructor|].
  destruct (okc_dec a) as [Ha|Ha]; [|right; intro K; inversion K; contradiction].
  destruct IH as [Hl|Hl]; [left; constructor; assumption|right; intro K; inversion K; contradiction].
Qed.

(* ---------- Delete *)
Definition rm_hdr (h : hdr) (f : str -> option N) : str -> option N := rm_step f (h_name h).

Lemma rm_hdr_cong h f g : (forall m, f m = g m) -> forall m, rm_hdr h f m = rm_hdr h g m.
Proof. intros H m. unfold rm_hdr, rm_step. destruct (eqb_str m (h_name h)); [reflexivity|apply H]. Qed.

Lemma foldE_rm L : forall f, foldE rm_hdr (map del_hdr L) f = fold_left rm_step (map r_name L) f.
Proof. induction L as [|x L IH]; intro f; [reflexivity|]. cbn [map foldE fold_left]. apply IH. Qed.

Section Del.
Variable hr : bool.
Variable c : cfg.
Hypothesis HP : plain c.
Hypothesis Hrs : 0 < c_rs c.

Lemma Qdelete_eff rec blk h rest lv lv' : LI hr lv -> Qdelete hr (h :: rest) lv ->
  index_header c rec blk h false lv = (lv', Ok tt) -> forall m, tfo (rows lv') m = rm_hdr h (tfo (rows lv)) m.
Proof.
  intros HL [HQ _] E m. inversion HQ as [|? ? (A & B & C & D) Hr]; subst.
  apply (eff_delete hr c rec blk h lv HP HL A B lv' C D E).
Qed.

Lemma delete_ok_t s name : Inv hr c s -> hbok s -> good name -> name <> [slash] ->
  exists s' o, delete_op c s name = (s', o) /\ Inv hr c s' /\ hbok s' /\
    (wfm (tfo (rows (db s))) -> wfm (tfo (rows (db s')))) /\
    tfo (rows (db s')) name = None /\
    (forall m, tfo (rows (db s')) m = None \/ tfo (rows (db s')) m = tfo (rows (db s)) m) /\
    (forall m, m <> name -> ~ under name m -> tfo (rows (db s')) m = tfo (rows (db s)) m).
Proof.
  intros HI Hhb G Hn. pose proof (iv_li hr c s HI) as HL. unfold delete_op.
  rewrite (lookup_entry_lv hr (db s) name HL G).
  assert (Hrows : Forall rowok (rows (db s))) by apply HL.
  assert (Hndr : NoDup (map r_name (rows (db s)))) by apply HL.
  destruct (find_rows (rows (db s)) name) as [r|] eqn:Ef.
  2:{ eexists _, _. split; [reflexivity|]. rewrite set_db_same. split; [exact HI|]. split; [exact Hhb|].
      split; [tauto|]. split; [apply tfo_none; apply find_rows_none; exact Ef|]. split; [intro; right; reflexivity|intros; reflexivity]. }
  destruct (find_rows_some _ _ _ Ef) as (Hin & Hlive & Hrn).
  assert (KK : exists kids,
    (if (r_tf r =? TypeDir) && eqb_str (r_link r) [] then get_children (db s) name else (db s, [])) = (db s, kids) /\
    Forall (fun x => In x (rows (db s)) /\ kid_filter name x = true) kids /\ NoDup (map r_name kids) /\
    (r_tf r = TypeDir -> forall z, In z (rows (db s)) -> kid_filter name z = true -> In z kids) /\
    (r_tf r <> TypeDir -> kids = [])).
  { rewrite Forall_forall in Hrows. destruct (Hrows r Hin) as (_ & Hk & _). rewrite Hk. cbn [eqb_str]. rewrite andb_true_r.
    destruct (r_tf r =? TypeDir) eqn:Et.
    - rewrite (get_children_lv hr (db s) name HL G). eexists. split; [reflexivity|]. split; [|split; [|split]].
      + apply Forall_forall. intros x Hx. apply filter_In in Hx. exact Hx.
      + apply NoDup_map_filter. apply HL.
      + intros _ z Hz Hk2. apply filter_In. split; assumption.
      + intro K. apply N.eqb_eq in Et. contradiction.
    - exists []. split; [reflexivity|]. split; [constructor|]. split; [constructor|]. split; [|reflexivity].
      intro K. rewrite K in Et. rewrite N.eqb_refl in Et. discriminate. }
  destruct KK as (kids & -> & Hkids & Hnd & Hcomp & Hnokids).
  rewrite delete_hdrs_eq. rewrite set_db_same.
  destruct (plain_members_spec (map del_hdr (r :: kids)) s Hhb) as (A & B & T1 & T2 & T3).
  destruct (plain_members s (map del_hdr (r :: kids))) as [ms s1]. cbn [fst snd] in *.
  assert (HI1 : Inv hr c s1) by (eapply Inv_ext; eassumption).
  assert (HkidF : Forall (fun x => In x (rows (db s)) /\ rowok x /\ live x = true /\ r_name x <> name /\ under name (r_name x)) kids).
  { apply Forall_forall. intros x Hx. rewrite Forall_forall in Hkids. destruct (Hkids x Hx) as (Hxin & Hxf).
    rewrite Forall_forall in Hrows. pose proof (Hrows x Hxin) as Hok.
    destruct (kid_filter_facts name x G Hn (proj1 Hok) Hxf) as (L1 & L2 & L3). exact (conj Hxin (conj Hok (conj L1 (conj L3 L2)))). }
  assert (Hkid_nonroot : forall x, In x kids -> r_name x <> [slash]).
  { intros x Hx. rewrite Forall_forall in HkidF. destruct (HkidF x Hx) as (_ & _ & _ & _ & L2).
    eapply under_nonroot; [apply good_nonempty; exact G|exact L2]. }
  assert (Hall : Forall (fun x => rowok x /\ (hr = true -> r_name x <> [slash]) /\ live x = true) (r :: kids)).
  { constructor.
    - rewrite Forall_forall in Hrows. split; [apply Hrows; exact Hin|]. split; [rewrite Hrn; intros _; exact Hn|exact Hlive].
    - apply Forall_forall. intros x Hx. rewrite Forall_forall in HkidF. destruct (HkidF x Hx) as (_ & Hok & Hl & _).
      split; [exact Hok|]. split; [intros _; apply Hkid_nonroot; exact Hx|exact Hl]. }
  assert (Hnd2 : NoDup (map r_name (r :: kids))).
  { cbn [map]. constructor; [|exact Hnd]. intro K. apply in_map_iff in K as (x & Ex & Hx).
    rewrite Forall_forall in HkidF. destruct (HkidF x Hx) as (_ & _ & _ & L3 & _). congruence. }
  set (F := foldE rm_hdr (map del_hdr (r :: kids)) (tfo (rows (db s1)))).
  destruct (append_ok hr c HP Hrs (QT (Qdelete hr) rm_hdr F)
              (QT_step hr c (Qdelete hr) rm_hdr (Qdelete_step hr c HP) rm_hdr_cong Qdelete_eff F) s1 ms HI1) as (lv' & E1 & HI' & Q').
  { intro K. subst ms. discriminate. }
  { exact B. }
  { rewrite A. apply Forall_forall. intros h Hh. apply in_map_iff in Hh as (x & <- & Hx).
    rewrite Forall_forall in Hall. destruct (Hall x Hx) as (K1 & K2 & _). apply del_hdr_ok; assumption. }
  { rewrite A. split; [|intro; reflexivity]. split.
    - apply Forall_forall. intros h Hh. apply in_map_iff in Hh as (x & <- & Hx).
      rewrite Forall_forall in Hall. destruct (Hall x Hx) as (K1 & K2 & K3).
      destruct (del_hdr_ok hr x K1 K2) as (D1 & D2 & D3 & D4). split; [exact D1|]. split; [exact D2|]. split; [exact D3|].
      rewrite D4, T2. unfold live_name. apply existsb_exists. exists x. split.
      + destruct Hx as [<-|Hx]; [exact Hin|]. rewrite Forall_forall in Hkids. apply (Hkids x Hx).
      + rewrite K3, eqb_str_refl. reflexivity.
    - rewrite map_map. exact Hnd2. }
  { intros rb B0 HR. rewrite T2 in HR |- *.
    assert (Ems : map m_hdr ms = map del_hdr (r :: kids)) by exact A.
    assert (Hre : root_empty rb = true).
    { eapply R_nonroot; [exact HR|]. exists r. split; [exact Hin|congruence]. }
    destruct ms as [|m0 [|m1 ms']]; cbn; [exact I|left; exact Hre|exact Hre]. }
  rewrite A in E1. rewrite <- T2. rewrite E1.
  eexists _, _. split; [reflexivity|]. split; [exact HI'|]. split; [exact T3|]. cbn [db].
  (* the type map afterwards *)
  set (names := map r_name (r :: kids)).
  assert (Hf' : forall m, tfo (rows lv') m = if existsb (eqb_str m) names then None else tfo (rows (db s1)) m).
  { intro m. destruct Q' as [_ Q']. specialize (Q' m). cbn [foldE fold_left] in Q'. rewrite Q'.
    unfold F. rewrite foldE_rm. apply fold_rm. }
  assert (Hnames : forall m, In m names -> m = name \/ under name m).
  { intros m Hm. unfold names in Hm. cbn [map] in Hm. destruct Hm as [<-|Hm]; [left; exact Hrn|].
    apply in_map_iff in Hm as (x & <- & Hx). rewrite Forall_forall in HkidF. right. apply (HkidF x Hx). }
  assert (Hname_in : In name names) by (left; exact Hrn).
  split; [|split; [|split]].
  - intro Hw. destruct G as (xs & Hxs & Exs).
    assert (Hxn : xs <> []) by (intro K; subst xs; apply Hn; exact Exs).
    apply (wfm_remove (tfo (rows (db s1))) _ (fun m => In m names) Hw).
    + intros m Hm. rewrite Hf'. apply existsb_eqb_in in Hm. rewrite Hm. reflexivity.
    + intros m Hm. rewrite Hf'. rewrite existsb_eqb_notin by exact Hm. reflexivity.
    + intro m. destruct (in_dec str_eq_dec m names); [left|right]; assumption.
    + intros cs c0 Hcs Hc0 HD Hlv.
      assert (Fc : Forall okc (cs ++ [c0])) by (apply Forall_app; split; [exact Hcs|constructor; [exact Hc0|constructor]]).
      assert (Hu : under name (pth (cs ++ [c0]))).
      { rewrite Exs. apply under_pth; [exact Hxn|exact Hxs|exact Fc|].
        destruct (Hnames _ HD) as [K|K].
        - rewrite Exs in K. apply pth_inj in K; [|exact Hcs|exact Hxs]. subst cs. exists [c0]. split; [discriminate|reflexivity].
        - rewrite Exs in K. apply under_pth in K; [|exact Hxn|exact Hxs|exact Hcs]. destruct K as (rs & Hr & ->).
          exists (rs ++ [c0]). split; [destruct rs; discriminate|rewrite app_assoc; reflexivity]. }
      destruct (tfo (rows (db s1)) (pth (cs ++ [c0]))) as [t|] eqn:Et; [|contradiction].
      rewrite T2 in Et. apply tfo_some in Et as (z & Z1 & Z2 & Z3 & Z4).
      destruct (N.eq_dec (r_tf r) TypeDir) as [Ed|Ed].
      * right. apply in_map_iff. exists z. split; [exact Z3|]. apply Hcomp; [exact Ed|exact Z1|].
        apply kid_filter_conv; [exists xs; split; assumption|exact Hn|rewrite Z3; apply good_pth; exact Fc|exact Z2|rewrite Z3; exact Hu].
      * exfalso. unfold names in HD. rewrite (Hnokids Ed) in HD. cbn [map In] in HD. destruct HD as [HD|[]].
        assert (K : tfo (rows (db s1)) (pth cs) = Some TypeDir).
        { apply Hw with (c := c0); [exact Hcs|exact Hc0|]. rewrite T2. rewrite <- Z3. rewrite (tfo_in _ z Hndr Z1 Z2). discriminate. }
        rewrite T2, <- HD in K. rewrite (tfo_in _ r Hndr Hin Hlive) in K. inversion K. contradiction.
  - rewrite Hf'. apply existsb_eqb_in in Hname_in. rewrite Hname_in. reflexivity.
  - intro m. rewrite Hf', T2. destruct (existsb (eqb_str m) names); [left|right]; reflexivity.
  - intros m H1 H2. rewrite Hf', T2. rewrite existsb_eqb_notin; [reflexivity|].
    intro K. destruct (Hnames m K); contradiction.
Qed.
End Del.

(* ---------- Move *)
Definition mv_hdr_step (h : hdr) (f : str -> option N) : str -> option N :=
  match h_rep h with Some o => mv_step f (o, h_name h, h_tf h) | None => f end.

Lemma mv_hdr_step_cong h f g : (forall m, f m = g m) -> forall m, mv_hdr_step h f m = mv_hdr_step h g m.
Proof.
  intros H m. unfold mv_hdr_step. destruct (h_rep h) as [o|]; [|apply H]. unfold mv_step.
  destruct (eqb_str m (h_name h)); [reflexivity|]. destruct (eqb_str m o); [reflexivity|apply H].
Qed.

Section Mov.
Variable hr : bool.
Variable c : cfg.
Hypothesis HP : plain c.
Hypothesis Hrs : 0 < c_rs c.

Definition Qmove' (hs : list hdr) (lv : pstate) : Prop :=
  Qmove hr hs lv /\ Forall (fun h => forall o, h_rep h = Some o -> live_name (rows lv) o = true) hs.

Lemma Qmove'_step rec blk h rest lv : LI hr lv -> Qmove' (h :: rest) lv ->
  exists lv', index_header c rec blk h false lv = (lv', Ok tt) /\ In (rec, blk) (lks (rows lv')) /\ Qmove' rest lv'.
Proof.
  intros HL [HQ HLv]. destruct (Qmove_step hr c HP rec blk h rest lv HL HQ) as (lv' & E & St & Q1).
  exists lv'. split; [exact E|]. split; [exact St|]. split; [exact Q1|].
  destruct HQ as [HF [Hq1 Hq2]]. inversion HF as [|? ? (A & B & C & o & D & F) Hr]; subst.
  inversion HLv as [|? ? Hlo Hlrest]; subst.
  pose proof (eff_move hr c rec blk h lv HP HL A B lv' o C D (Hlo o D) E) as Eff.
  apply Forall_forall. intros h' Hh' o' D'. apply tfo_live. rewrite Eff.
  destruct (eqb_str o' (h_name h)); [discriminate|].
  destruct (eqb_str o' o) eqn:Eo.
  - apply eqb_str_eq in Eo. exfalso. exact (Hq1 h' o o' Hh' D D' Eo).
  - apply tfo_live. rewrite Forall_forall in Hlrest. apply (Hlrest h' Hh' o' D').
Qed.

Lemma Qmove'_eff rec blk h rest lv lv' : LI hr lv -> Qmove' (h :: rest) lv ->
  index_header c rec blk h false lv = (lv', Ok tt) -> forall m, tfo (rows lv') m = mv_hdr_step h (tfo (rows lv)) m.
Proof.
  intros HL [HQ HLv] E m. destruct HQ as [HF _]. inversion HF as [|? ? (A & B & C & o & D & F) Hr]; subst.
  inversion HLv as [|? ? Hlo Hlrest]; subst.
  rewrite (eff_move hr c rec blk h lv HP HL A B lv' o C D (Hlo o D) E). unfold mv_hdr_step. rewrite D. reflexivity.
Qed.

Variables (from to : str).
Hypothesis Gf : good from.
Hypothesis Gt : good to.
Hypothesis Hf : from <> [slash].
Hypothesis Ht : to <> [slash].
Hypothesis Hft : from <> to.

Definition trip (x : row) : str * str * N := (r_name x, nn from to x, r_tf x).

Lemma foldE_mv L : (forall x, In x L -> h_rep (mk from to x) = Some (r_name x)) ->
  forall f, foldE mv_hdr_step (map (mk from to) L) f = fold_left mv_step (map trip L) f.
Proof.
  induction L as [|x L IH]; intros H f; [reflexivity|]. cbn [map foldE fold_left].
  assert (E : mv_hdr_step (mk from to x) f = mv_step f (trip x)).
  { unfold mv_hdr_step. rewrite (H x (or_introl eq_refl)). reflexivity. }
  rewrite E. apply IH. intros y Hy. apply H. right. exact Hy.
Qed.

Lemma move_ok_t s : Inv hr c s -> hbok s ->
  wfm (tfo (rows (db s))) ->
  tfo (rows (db s)) (path_dir to) = Some TypeDir ->
  tfo (rows (db s)) to = None ->
  (tfo (rows (db s)) from = Some TypeDir -> ~ under from to) ->
  exists s' o, move_op c s from to = (s', o) /\ Inv hr c s' /\ hbok s' /\ wfm (tfo (rows (db s'))).
Proof.
  intros HI Hhb Hw Hpar Hdead Hnest. pose proof (iv_li hr c s HI) as HL. unfold move_op.
  assert (Eft : eqb_str from to = false) by (apply eqb_str_neq; exact Hft). rewrite Eft.
  rewrite (lookup_entry_lv hr (db s) from HL Gf).
  destruct (find_rows (rows (db s)) from) as [r|] eqn:Ef.
  2:{ eexists _, _. split; [reflexivity|]. rewrite set_db_same. split; [exact HI|]. split; [exact Hhb|exact Hw]. }
  destruct (find_rows_some _ _ _ Ef) as (Hin & Hlive & Hrn).
  assert (Hrows : Forall rowok (rows (db s))) by apply HL.
  assert (Hndr : NoDup (map r_name (rows (db s)))) by apply HL.
  assert (Hrok : rowok r) by (rewrite Forall_forall in Hrows; apply Hrows; exact Hin).
  assert (Eabs : is_abs to && negb (is_abs (r_name r)) = false).
  { rewrite (good_abs _ (proj1 Hrok)). apply andb_false_r. }
  rewrite Eabs, Eft.
  assert (KK : exists kids,
    (if r_tf r =? TypeDir then get_children (db s) from else (db s, [])) = (db s, kids) /\
    Forall (fun x => In x (rows (db s)) /\ kid_filter from x = true) kids /\ NoDup (map r_name kids) /\
    (r_tf r = TypeDir -> forall z, In z (rows (db s)) -> kid_filter from z = true -> In z kids)).
  { destruct (r_tf r =? TypeDir) eqn:Et.
    - rewrite (get_children_lv hr (db s) from HL Gf). eexists. split; [reflexivity|]. split; [|split].
      + apply Forall_forall. intros x Hx. apply filter_In in Hx. exact Hx.
      + apply NoDup_map_filter. apply HL.
      + intros _ z Hz Hk2. apply filter_In. split; assumption.
    - exists []. split; [reflexivity|]. split; [constructor|]. split; [constructor|].
      intro K. rewrite K in Et. rewrite N.eqb_refl in Et. discriminate. }
  destruct KK as (kids & -> & Hkids & Hnd & Hcomp).
  rewrite move_hdrs_eq. rewrite set_db_same.
  destruct (plain_members_spec (map (mk from to) (r :: kids)) s Hhb) as (A & B & T1 & T2 & T3).
  destruct (plain_members s (map (mk from to) (r :: kids))) as [ms s1]. cbn [fst snd] in *.
  assert (HI1 : Inv hr c s1) by (eapply Inv_ext; eassumption).
  assert (HkidF : Forall (fun x => In x (rows (db s)) /\ rowok x /\ Kid from x /\ r_name x <> from /\ live x = true) kids).
  { apply Forall_forall. intros x Hx. rewrite Forall_forall in Hkids. destruct (Hkids x Hx) as (Hxin & Hxf).
    rewrite Forall_forall in Hrows. pose proof (Hrows x Hxin) as Hok.
    destruct (kid_filter_facts from x Gf Hf (proj1 Hok) Hxf) as (L1 & L2 & L3).
    split; [exact Hxin|]. split; [exact Hok|]. split; [exact L2|]. split; [exact L3|exact L1]. }
  assert (HPP : Forall (PP from to) (r :: kids)).
  { constructor.
    - split; [exact Hrok|]. left. split; [exact Hrn|]. unfold nn. rewrite Hrn. apply move_name_self; assumption.
    - apply Forall_forall. intros x Hx. rewrite Forall_forall in HkidF. destruct (HkidF x Hx) as (_ & Hok & Kx & _).
      split; [exact Hok|]. right. unfold nn. apply move_name_below; try assumption. apply Hok. }
  assert (Hnd2 : NoDup (map r_name (r :: kids))).
  { cbn [map]. constructor; [|exact Hnd]. intro K. apply in_map_iff in K as (x & Ex & Hx).
    rewrite Forall_forall in HkidF. destruct (HkidF x Hx) as (_ & _ & _ & L3 & _). congruence. }
  assert (Hhdr : forall x, In x (r :: kids) ->
     hnames_ok hr (mk from to x) /\ ver_ok (mk from to x) /\ h_act (mk from to x) = V_update /\ h_rep (mk from to x) = Some (r_name x)).
  { intros x Hx. rewrite Forall_forall in HPP. pose proof (HPP x Hx) as Px.
    destruct (PP_facts from to Gf Gt Hf Ht Hft x Px) as (F1 & F2 & F3 & F4).
    destruct (mov_hdr_ok hr x (nn from to x) (proj1 Px) F1 F2 F3 F4) as (M1 & M2 & M3 & M4 & _). exact (conj M1 (conj M2 (conj M3 M4))). }
  assert (HinL : forall x, In x (r :: kids) -> In x (rows (db s)) /\ live x = true).
  { intros x [<-|Hx]; [split; assumption|]. rewrite Forall_forall in HkidF. destruct (HkidF x Hx) as (K1 & _ & _ & _ & K5). split; assumption. }
  set (F := foldE mv_hdr_step (map (mk from to) (r :: kids)) (tfo (rows (db s1)))).
  destruct (append_ok hr c HP Hrs (QT Qmove' mv_hdr_step F)
              (QT_step hr c Qmove' mv_hdr_step Qmove'_step mv_hdr_step_cong Qmove'_eff F) s1 ms HI1) as (lv' & E1 & HI' & Q').
  { intro K. subst ms. discriminate. }
  { exact B. }
  { rewrite A. apply Forall_forall. intros h Hh. apply in_map_iff in Hh as (x & <- & Hx). apply Hhdr. exact Hx. }
  { rewrite A. split; [|intro; reflexivity]. split; [split|].
    - apply Forall_forall. intros h Hh. apply in_map_iff in Hh as (x & <- & Hx).
      destruct (Hhdr x Hx) as (M1 & M2 & M3 & M4). split; [exact M1|]. split; [exact M2|]. split; [exact M3|].
      exists (r_name x). split; [exact M4|]. rewrite T2. apply has_name_in. apply in_map. apply HinL. exact Hx.
    - apply (mvq_gen hr from to Gf Gt Hf Ht Hft); assumption.
    - apply Forall_forall. intros h Hh o Ho. apply in_map_iff in Hh as (x & <- & Hx).
      destruct (Hhdr x Hx) as (_ & _ & _ & M4). rewrite M4 in Ho. inversion Ho; subst o. rewrite T2.
      destruct (HinL x Hx) as (K1 & K2). unfold live_name. apply existsb_exists. exists x. split; [exact K1|].
      rewrite K2, eqb_str_refl. reflexivity. }
  { intros rb B0 HR. rewrite T2 in HR |- *.
    assert (Hre : root_empty rb = true).
    { eapply R_nonroot; [exact HR|]. exists r. split; [exact Hin|congruence]. }
    destruct ms as [|m0 [|m1 ms']]; cbn; [exact I|left; exact Hre|exact Hre]. }
  rewrite A in E1. rewrite <- T2. rewrite E1.
  eexists _, _. split; [reflexivity|]. split; [exact HI'|]. split; [exact T3|]. cbn [db].
  (* ---- the type map afterwards *)
  set (f := tfo (rows (db s))) in *.
  set (L := r :: kids) in *.
  assert (Hg : forall m, tfo (rows lv') m = fold_left mv_step (map trip L) f m).
  { intro m. destruct Q' as [_ Q']. specialize (Q' m). cbn [foldE fold_left] in Q'. rewrite Q'.
    unfold F. rewrite foldE_mv; [rewrite T2; reflexivity|]. intros x Hx. apply Hhdr. exact Hx. }
  destruct Gf as (os & Hos & Eos). destruct (good_split to Gt Ht) as (ns' & nc & Hns' & Hnc & Ens).
  assert (Hosn : os <> []) by (intro K; subst os; apply Hf; exact Eos).
  set (ns := ns' ++ [nc]) in *.
  assert (Hns : Forall okc ns) by (apply Forall_app; split; [exact Hns'|constructor; [exact Hnc|constructor]]).
  assert (Hnsn : ns <> []) by (unfold ns; destruct ns'; discriminate).
  (* shape of the moved rows *)
  assert (Shape : forall x, In x L -> exists rs, Forall okc rs /\ r_name x = pth (os ++ rs) /\ nn from to x = pth (ns ++ rs)).
  { intros x Hx. rewrite Forall_forall in HPP. destruct (HPP x Hx) as (Hok & [[K1 K2]|(rest & K1 & K2)]).
    - exists []. split; [constructor|]. rewrite !app_nil_r. split; [rewrite K1; exact Eos|rewrite K2; exact Ens].
    - assert (Hu : under from (r_name x)).
      { unfold under. rewrite K1. rewrite app_assoc. apply has_prefix_app'. }
      destruct Hok as (Gx & _). destruct Gx as (cs & Hcs & Ecs).
      rewrite Eos, Ecs in Hu. apply under_pth in Hu; [|exact Hosn|exact Hos|exact Hcs]. destruct Hu as (rs & Hr & ->).
      apply Forall_app in Hcs as [_ Hrs']. exists rs. split; [exact Hrs'|]. split; [exact Ecs|].
      rewrite K2. rewrite Ecs in K1. change (slash :: join_slash (os ++ rs)) with (pth (os ++ rs)) in K1.
      rewrite pth_app in K1 by assumption. rewrite Eos in K1. change (slash :: join_slash os) with (pth os) in K1.
      apply app_inv_head in K1. cbn [app] in K1. inversion K1 as [K1'].
      rewrite Ens. rewrite pth_app by assumption. reflexivity. }
  assert (Hfo : forall x, In x L -> f (r_name x) = Some (r_tf x)).
  { intros x Hx. destruct (HinL x Hx) as (K1 & K2). apply tfo_in; assumption. }
  assert (Hto_dead : f (pth ns) = None) by (rewrite <- Ens; exact Hdead).
  assert (Hnews_dead : forall x, In x L -> f (nn from to x) = None).
  { intros x Hx. destruct (Shape x Hx) as (rs & Hr & _ & ->). apply dead_below; [exact Hw|apply Forall_app; split; assumption|exact Hto_dead]. }
  assert (Hno : NoDup (olds (map trip L))).
  { unfold olds. rewrite map_map. exact Hnd2. }
  assert (Hnn : NoDup (news (map trip L))).
  { unfold news. rewrite map_map. cbn [trip fst snd].
    apply (NoDup_map_transfer (fun x => nn from to x) r_name L); [|exact Hnd2].
    intros x y Hx Hy E. destruct (Shape x Hx) as (rs & Hr & X1 & X2). destruct (Shape y Hy) as (rs2 & Hr2 & Y1 & Y2).
    rewrite X2, Y2 in E. apply pth_inj in E; [|apply Forall_app; split; assumption|apply Forall_app; split; assumption].
    apply app_inv_head in E. subst rs2. congruence. }
  assert (Hdis : forall o n, In o (olds (map trip L)) -> In n (news (map trip L)) -> o <> n).
  { intros o n Ho Hn0 E. unfold olds in Ho. unfold news in Hn0. rewrite map_map in Ho, Hn0. cbn [trip fst snd] in Ho, Hn0.
    apply in_map_iff in Ho as (x & <- & Hx). apply in_map_iff in Hn0 as (y & <- & Hy).
    pose proof (Hfo x Hx) as K1. rewrite E, (Hnews_dead y Hy) in K1. discriminate. }
  set (names := map r_name L).
  set (Rp := fun rs : list str => Forall okc rs /\ In (pth (os ++ rs)) names).
  assert (HR_x : forall rs, Rp rs -> exists x, In x L /\ r_name x = pth (os ++ rs) /\ nn from to x = pth (ns ++ rs)).
  { intros rs [Hr Hi]. unfold names in Hi. apply in_map_iff in Hi as (x & Ex & Hx). exists x. split; [exact Hx|]. split; [exact Ex|].
    destruct (Shape x Hx) as (rs2 & Hr2 & X1 & X2). rewrite X1 in Ex.
    apply pth_inj in Ex; [|apply Forall_app; split; assumption|apply Forall_app; split; assumption].
    apply app_inv_head in Ex. subst rs2. exact X2. }
  rewrite Ens in Hpar. fold ns in Hpar. unfold ns in Hpar. rewrite path_dir_pth in Hpar by assumption.
  apply (wfm_move f (tfo (rows lv')) os ns' nc Rp Hw Hos Hns' Hnc).
  - intro rs. unfold Rp. destruct (Forall_okc_dec rs) as [K|K]; [|right; tauto].
    destruct (in_dec str_eq_dec (pth (os ++ rs)) names) as [K2|K2]; [left; tauto|right; tauto].
  - intros rs [K _]. exact K.
  - intros rs HR0. destruct (HR_x rs HR0) as (x & Hx & X1 & X2). fold ns. rewrite <- X1, <- X2.
    rewrite Hg. destruct (fold_mv_spec (map trip L) f Hno Hnn Hdis (r_name x) (nn from to x) (r_tf x)) as [S1 _].
    { apply in_map_iff. exists x. split; [reflexivity|exact Hx]. }
    rewrite S1, (Hfo x Hx). split; [reflexivity|discriminate].
  - intros rs HR0. destruct (HR_x rs HR0) as (x & Hx & X1 & X2). rewrite <- X1. rewrite Hg.
    destruct (fold_mv_spec (map trip L) f Hno Hnn Hdis (r_name x) (nn from to x) (r_tf x)) as [_ S2]; [|exact S2].
    apply in_map_iff. exists x. split; [reflexivity|exact Hx].
  - intros cs Hcs HA HB. rewrite Hg. apply fold_mv_frame.
    + intro K. unfold olds in K. rewrite map_map in K. cbn [trip fst snd] in K. apply in_map_iff in K as (x & Ex & Hx).
      destruct (Shape x Hx) as (rs & Hr & X1 & X2). rewrite X1 in Ex.
      apply pth_inj in Ex; [|apply Forall_app; split; assumption|exact Hcs].
      apply (HB rs); [|symmetry; exact Ex]. split; [exact Hr|]. unfold names. rewrite <- X1. apply in_map. exact Hx.
    + intro K. unfold news in K. rewrite map_map in K. cbn [trip fst snd] in K. apply in_map_iff in K as (x & Ex & Hx).
      destruct (Shape x Hx) as (rs & Hr & X1 & X2). rewrite X2 in Ex.
      apply pth_inj in Ex; [|apply Forall_app; split; assumption|exact Hcs].
      apply (HA rs); [|symmetry; exact Ex]. split; [exact Hr|]. unfold names. rewrite <- X1. apply in_map. exact Hx.
  - intros rs Hr Hlv. split; [exact Hr|]. unfold names.
    destruct rs as [|r0 rt].
    + rewrite app_nil_r. left. rewrite Hrn. exact Eos.
    + destruct (f (pth (os ++ r0 :: rt))) as [t|] eqn:Et; [|contradiction].
      apply tfo_some in Et as (z & Z1 & Z2 & Z3 & Z4).
      assert (Fz : Forall okc (os ++ r0 :: rt)) by (apply Forall_app; split; assumption).
      assert (Hu : under from (r_name z)).
      { rewrite Z3, Eos. apply under_pth; [exact Hosn|exact Hos|exact Fz|]. exists (r0 :: rt). split; [discriminate|reflexivity]. }
      destruct (N.eq_dec (r_tf r) TypeDir) as [Ed|Ed].
      * right. apply in_map_iff. exists z. split; [exact Z3|]. apply Hcomp; [exact Ed|exact Z1|].
        apply kid_filter_conv; [exists os; split; assumption|exact Hf|rewrite Z3; apply good_pth; exact Fz|exact Z2|exact Hu].
      * exfalso. assert (K : f (pth os) = Some TypeDir).
        { apply (wfm_ancestor f os Hw (r0 :: rt)); [exact Fz|discriminate|].
          rewrite <- Z3. unfold f. rewrite (tfo_in _ z Hndr Z1 Z2). discriminate. }
        change (pth os) with (slash :: join_slash os) in K. rewrite <- Eos, <- Hrn in K.
        unfold f in K. rewrite (tfo_in _ r Hndr Hin Hlive) in K. inversion K. contradiction.
  - exact Hto_dead.
  - exact Hpar.
  - intros rs E.
    assert (Fr : Forall okc rs) by (rewrite E in Hns'; apply Forall_app in Hns'; apply Hns').
    assert (Hut : under from to).
    { rewrite Eos, Ens. apply under_pth; [exact Hosn|exact Hos|exact Hns|]. exists (rs ++ [nc]). split; [destruct rs; discriminate|].
      unfold ns. rewrite E, app_assoc. reflexivity. }
    assert (K : f (pth os) = Some TypeDir).
    { destruct rs as [|r0 rt]; [rewrite app_nil_r in E; rewrite <- E; exact Hpar|].
      apply (wfm_ancestor f os Hw (r0 :: rt)); [rewrite <- E; exact Hns'|discriminate|rewrite <- E, Hpar; discriminate]. }
    change (pth os) with (slash :: join_slash os) in K. rewrite <- Eos in K. exact (Hnest K Hut).
Qed.
End Mov.
