(* T02 / CreateFile (Create; Write; Close): new names, directories and existing regular files. *)
From Coq Require Import List NArith ZArith Bool Lia.
From Coq Require Import ZifyN ZifyBool.
Import ListNotations.
From STFS Require Import Str Db Tape Index Ops Fs Diff Norm TapeLemmas StrLemmas
  C01Str C01Db C01Inv C01Sim C01Tape C01Hdr C01Ops C01Ops2 C01Reads C01Fs
  T02Ns T02Db T02Ops T02Reads T02Str T02Closed T02Calls.
Open Scope N_scope.

(* the size record round-trips: [undecimal_decimal_eq], in C01Hdr *)

Section Create.
Variable hr : bool.
Variable c : cfg.
Hypothesis HP : plain c.
Hypothesis Hrs : 0 < c_rs c.
Hypothesis Hro : c_readonly c = false.

(* ---------- Update of one entry with new content (replace = true), as Close writes it *)
Definition content_hdr (h0 : hdr) (enc : N) : hdr :=
  with_size_name (set_pax h0 (pax_set K_replaces_content V_true
                    (pax_set K_usize (decimal (h_size h0)) (upd_pax (h_pax h0))))) enc (h_name h0).

Lemma update_content_exact s h0 b d : Inv hr c s -> hbok s ->
  good (h_name h0) -> h_link h0 = [] -> is_reg h0 = true -> h_size h0 < 10 ^ 40 ->
  find_rows (rows (db s)) (h_name h0) = Some d ->
  exists s' rec blk enc, update_op c s [{| f_hdr := h0; f_data := b |}] true true = (s', OOk) /\ Inv hr c s' /\ hbok s' /\
    db s' = with_rows (db s) (replace_row (h_name h0) []
              (row_of_hdr rec rec blk blk (with_size_name (content_hdr h0 enc) (h_size h0) (h_name h0))) (rows (db s))).
Proof.
  intros HI Hhb G Hk Hreg Hsz Hf. unfold update_op. cbn [update_members f_hdr f_data].
  set (h1 := set_pax h0 (pax_del K_replaces_name (pax_set K_action V_update (pax_set K_version V_1 (h_pax h0))))).
  assert (Ec : is_reg h1 && true && ((0 <? h_size h1) || true) = true).
  { change (is_reg h1) with (is_reg h0). rewrite Hreg, orb_true_r. reflexivity. }
  rewrite Ec. unfold encode.
  destruct (pop_enc_spec s (h_size h1)) as (T1 & T2 & T3).
  destruct (pop_enc s (h_size h1)) as [enc s1]. cbn [fst snd] in *.
  rewrite (suffix_if_plain c _ _ HP).
  match goal with |- context [mk_member s1 ?h (Some b) enc] => change h with (content_hdr h0 enc) end.
  assert (Hhb1 : hbok s1) by (unfold hbok; rewrite T3; exact Hhb).
  destruct (mk_member_spec s1 (content_hdr h0 enc) (Some b) enc Hhb1) as (A & B & C & D & E).
  destruct (mk_member s1 (content_hdr h0 enc) (Some b) enc) as [m s2]. cbn [fst snd] in *.
  assert (HI2 : Inv hr c s2) by (eapply Inv_ext; [| |exact HI]; congruence).
  pose proof (iv_li hr c s2 HI2) as HL2.
  set (px := pax_set K_replaces_content V_true (pax_set K_usize (decimal (h_size h0)) (upd_pax (h_pax h0)))).
  assert (Epx : h_pax (content_hdr h0 enc) = px) by reflexivity.
  assert (Y3 : usize_ok px) by (unfold px; apply usize_ok_set; [reflexivity|apply usize_ok_put]).
  assert (Y4 : pax_get K_action px = Some V_update) by (unfold px, upd_pax; paxs; reflexivity).
  assert (Y5 : pax_get K_version px = Some V_1) by (unfold px, upd_pax; paxs; reflexivity).
  assert (Y6 : pax_get K_replaces_name px = None) by (unfold px, upd_pax; paxs; reflexivity).
  assert (Y7 : pax_get K_replaces_content px = Some V_true) by (unfold px, upd_pax; paxs; reflexivity).
  assert (Y8 : pax_get K_usize px = Some (decimal (h_size h0))) by (unfold px, upd_pax; paxs; reflexivity).
  destruct (upd_hdr_ok hr (content_hdr h0 enc) px G Hk Y3 Y4 Y5 Y6 Epx) as (X1 & X2 & X3 & X4).
  assert (Hus : usz (content_hdr h0 enc) = Some (h_size h0)).
  { unfold usz. rewrite Epx, Y8. rewrite (undecimal_decimal_eq _ Hsz). reflexivity. }
  assert (Hlive : live_name (rows (db s)) (h_name h0) = true) by (eapply find_live; exact Hf).
  assert (Edb2 : db s2 = db s) by congruence.
  destruct (append_one hr c HP Hrs s2 m (fun rec blk => with_rows (db s2) (replace_row (h_name h0) []
              (row_of_hdr rec rec blk blk (with_size_name (content_hdr h0 enc) (h_size h0) (h_name h0))) (rows (db s2)))) HI2 B)
    as (rec & blk & E1 & HI').
  { rewrite A. exact X1. }
  { intros rec blk. rewrite A. split.
    - pose proof (ih_update_exact hr c rec blk (content_hdr h0 enc) (db s2) HP HL2 X1 X2 (h_size h0) d X3 X4 Hus) as K.
      cbn zeta in K. rewrite Epx, Y7 in K. change (negb (eqb_str V_true V_true)) with false in K. cbn iota in K.
      apply K. rewrite Edb2. exact Hf.
    - rewrite with_rows_rows.
      apply (stamped_replace (h_name h0) (row_of_hdr rec rec blk blk (with_size_name (content_hdr h0 enc) (h_size h0) (h_name h0)))).
      + apply HL2.
      + rewrite Edb2. apply live_name_has. exact Hlive. }
  { intros rb HR. rewrite A. rewrite Edb2 in HR |- *.
    destruct (eqb_str (h_name h0) [slash]) eqn:En.
    - apply eqb_str_eq in En. right. right. split; [exact En|intros _; exact X4].
    - apply eqb_str_neq in En. left. eapply R_nonroot; [exact HR|].
      destruct (live_name_row _ _ Hlive) as (x & Hx & _ & Ex). exists x. split; [exact Hx|congruence]. }
  rewrite A in E1. rewrite <- Edb2. rewrite E1.
  eexists _, rec, blk, enc. split; [reflexivity|]. split; [exact HI'|]. split; [exact E|reflexivity].
Qed.

(* ---------- Create; Write d; Close on a name that does not exist (or is a directory) *)
Definition create_flags : oflag := {| o_acc := 2; o_append := false; o_create := true; o_excl := false; o_trunc := true |}.

Lemma coverlay_nil d : clen (coverlay [] 0 d) = clen d.
Proof. unfold coverlay. cbn. rewrite app_nil_r. reflexivity. Qed.

(* the name does not exist or is a directory - or the parent is missing / not a directory, whatever the name is *)
Lemma create_file_new s n d : Wf hr c s -> hbok s -> good n -> clen d < 10 ^ 40 ->
  (spec_parent (abs s) n = OOk -> match lookup (abs s) n with Some v => is_dir v = true | None => True end) ->
  exists s' cid, step c s (CCreateFile n d) = (s', snd (spec_create_file c (abs s) n (clen d) (clk s) cid)) /\
    Wf hr c s' /\ hbok s' /\ ns_eq (abs s') (fst (spec_create_file c (abs s) n (clen d) (clk s) cid)).
Proof.
  intros HW Hhb G Hlen Hnew0. pose proof (wf_inv hr c s HW) as HI. pose proof (iv_li hr c s HI) as HL.
  assert (Hrows : Forall rowok (rows (db s))) by apply HL.
  assert (Hnd : NoDup (map r_name (rows (db s)))) by apply HL.
  cbn [step]. unfold fs_create. rewrite Hro.
  destruct n as [|n0 n'] eqn:Enn; [exfalso; exact (good_nonempty [] G eq_refl)|]. rewrite <- Enn in *. clear Enn.
  rewrite (path_clean_good n G).
  rewrite (parent_check_exact hr s n HL (good_abs n G)).
  unfold spec_create_file, spec_parent. unfold spec_parent in Hnew0. rewrite (lookup_abs hr c s _ HI) in Hnew0 |- *. unfold look in Hnew0 |- *.
  destruct (find_rows (rows (db s)) (path_dir n)) as [pd|] eqn:Ep; cbn [option_map] in Hnew0 |- *.
  2:{ exists s, (0, 0). split; [reflexivity|]. apply same_state; assumption. }
  change (is_dir (node_of pd)) with (r_tf pd =? TypeDir) in Hnew0 |- *.
  destruct (r_tf pd =? TypeDir) eqn:Ed.
  2:{ exists s, (0, 0). split; [reflexivity|]. apply same_state; assumption. }
  pose proof (Hnew0 eq_refl) as Hnew. clear Hnew0.
  unfold fs_openfile. destruct n as [|n2 n3] eqn:Enn; [exfalso; exact (good_nonempty [] G eq_refl)|]. rewrite <- Enn in *. clear Enn.
  rewrite (path_clean_good n G).
  rewrite (stat_false_exact hr s n HL G).
  rewrite (lookup_abs hr c s _ HI) in Hnew |- *. unfold look in Hnew |- *.
  destruct (find_rows (rows (db s)) n) as [dd|] eqn:En; cbn [option_map] in Hnew |- *.
  { (* an existing directory *)
    rewrite Hnew. change (h_tf (hdr_of_row dd)) with (r_tf dd). change (is_dir (node_of dd)) with (r_tf dd =? TypeDir) in Hnew.
    rewrite Hnew. unfold decode_flags. rewrite Hro. cbn.
    exists s, (0, 0). split; [reflexivity|]. apply same_state; assumption. }
  rewrite (stat_s_true hr s n HL). rewrite Hro. cbn [negb andb create_flags o_create].
  rewrite (parent_check_exact hr s n HL (good_abs n G)), Ep, Ed.
  destruct (mknode_exact hr c HP Hrs Hro s false n 438 HI Hhb G) as (s1 & rec & blk & E & HI1 & Hhb1 & Eclk & Edb).
  { apply alive_cpre. apply (live_alive _ (path_dir n)). eapply find_live. exact Ep. }
  rewrite E. pose proof (iv_li hr c s1 HI1) as HL1.
  set (nr := new_row c false n 438 (clk s) rec blk) in *.
  assert (Fn1 : find_rows (rows (db s1)) n = Some nr).
  { rewrite Edb, with_rows_rows. rewrite find_rows_upsert; [|exact Hrows|exact Hnd|reflexivity|reflexivity].
    change (r_name nr) with n. rewrite eqb_str_refl. reflexivity. }
  rewrite (stat_false_exact hr s1 n HL1 G), Fn1.
  assert (HW1 : Wf hr c s1).
  { split; [exact HI1|]. rewrite Edb, with_rows_rows. apply sizes_upsert; [apply HW|]. reflexivity. }
  assert (Ea1 : ns_eq (abs s1) (ns_set (abs s) n (new_node c false 438 (clk s) (rec, blk)))).
  { intro m. rewrite (lookup_abs hr c s1 m HI1), Edb, with_rows_rows.
    rewrite look_upsert; [|exact Hrows|exact Hnd|reflexivity|reflexivity].
    rewrite lookup_ns_set, (lookup_abs hr c s m HI). change (r_name nr) with n.
    destruct (eqb_str m n); [|reflexivity]. unfold nr. rewrite node_of_new_row. reflexivity. }
  (* the handle *)
  unfold decode_flags. rewrite Hro.
  cbn [o_acc o_append o_create o_excl o_trunc create_flags negb andb orb fl_write fl_append fl_trunc N.eqb Pos.eqb].
  change (h_tf (hdr_of_row nr)) with TypeReg. change (h_size (hdr_of_row nr)) with 0.
  change (TypeReg =? TypeDir) with false. cbn [andb negb orb N.eqb].
  unfold write_close.
  destruct d as [|p0 dr].
  - (* nothing to write: the handle has no buffer, Close writes nothing *)
    cbn [hd_buf handle_close]. exists s1, (rec, blk). split; [reflexivity|]. split; [exact HW1|]. split; [exact Hhb1|].
    cbn [fst snd clen fold_right]. exact Ea1.
  - remember (p0 :: dr) as d eqn:Ed0. clear Ed0 p0 dr.
    unfold handle_write_all. cbn [hd_info hd_flags hd_buf hd_path fl_write fl_append fl_trunc negb].
    change (h_tf (hdr_of_row nr)) with TypeReg. change (TypeReg =? TypeDir) with false. cbn iota.
    change (h_name (hdr_of_row nr)) with n.
    rewrite (stat_false_exact hr s1 n HL1 G), Fn1.
    change (h_size (hdr_of_row nr)) with 0. cbn [N.eqb negb].
    unfold handle_close.
    match goal with |- context [flush_hdr ?h _] => set (hd := h) end.
    set (bb := coverlay [] 0 d).
    set (fh := stamp_mtime (flush_hdr hd (clen bb)) (clk s1)).
    destruct (update_content_exact s1 fh bb nr HI1 Hhb1) as (s2 & rec2 & blk2 & enc & E2 & HI2 & Hhb2 & Edb2).
    { exact G. } { reflexivity. } { reflexivity. } { unfold fh, bb. cbn [h_size stamp_mtime flush_hdr]. rewrite coverlay_nil. exact Hlen. } { exact Fn1. }
    rewrite E2. exists s2, (rec2, blk2). split; [reflexivity|].
    change (h_name fh) with n in Edb2. change (h_size fh) with (clen bb) in Edb2.
    set (fr := row_of_hdr rec2 rec2 blk2 blk2 (with_size_name (content_hdr fh enc) (clen bb) n)) in *.
    assert (Hrows1 : Forall rowok (rows (db s1))) by apply HL1.
    assert (Hnd1 : NoDup (map r_name (rows (db s1)))) by apply HL1.
    split; [|split; [exact Hhb2|]].
    + split; [exact HI2|]. rewrite Edb2, with_rows_rows. apply replace_row_Forall; [apply HW1|].
      unfold fr. apply size_ok_row_of_hdr.
      * unfold hsize, content_hdr, upd_pax. cbn [h_pax with_size_name set_pax]. paxs.
        apply undecimal_decimal_eq. unfold fh, bb. cbn [h_size stamp_mtime flush_hdr]. rewrite coverlay_nil. exact Hlen.
      * unfold content_hdr, upd_pax. cbn [h_pax with_size_name set_pax]. paxs. discriminate.
    + intro m. cbn [fst snd]. rewrite (lookup_abs hr c s2 m HI2), Edb2, with_rows_rows.
      rewrite look_replace; [|exact Hrows1|exact Hnd1|reflexivity|eapply find_rows_has; exact Fn1].
      rewrite lookup_ns_set. rewrite <- (lookup_abs hr c s1 m HI1), (Ea1 m), lookup_ns_set.
      destruct (eqb_str m n); [|reflexivity]. change (live fr) with true. cbn iota. f_equal.
      unfold fr, fh, node_of, file_node, bb, hd, nr. cbn -[coverlay clen perm_bits N.pow]. rewrite coverlay_nil, !perm_bits_idem, Eclk. reflexivity.
Qed.
(* ---------- an EXISTING regular file: content, size and content position are replaced, the modification time is
   the clock's (the flush stamps it, Fs.stamp_mtime) and mode, owner, group, access and change time are kept - the
   reference's [spec_create_file]; nothing at all happens when the file is empty and nothing is written (the corner
   T02Counter.v (2): the reference stamps the modification time there too) *)
Definition flushed_node (size : N) (now : Z) (cid : N * N) (v : node) : node :=
  {| n_tf := TypeReg; n_size := size; n_mode := n_mode v; n_uid := n_uid v; n_gid := n_gid v;
     n_uname := n_uname v; n_gname := n_gname v;
     n_mtime := now; n_atime := n_atime v; n_ctime := n_ctime v; n_cid := cid |}.

Definition no_content (d : content) : bool := match d with [] => true | _ => false end.

Theorem T02_create_existing s n d v : Wf hr c s -> hbok s -> good n -> clen d < 10 ^ 40 ->
  lookup (abs s) n = Some v -> is_dir v = false -> spec_parent (abs s) n = OOk ->
  exists s' cid, step c s (CCreateFile n d) = (s', OOk) /\ Wf hr c s' /\ hbok s' /\
    ns_eq (abs s') (if (n_size v =? 0) && no_content d
                    then abs s else ns_upd (abs s) n (flushed_node (clen d) (clk s) cid)).
Proof.
  intros HW Hhb G Hlen Hv Hnd Hpar. pose proof (wf_inv hr c s HW) as HI. pose proof (iv_li hr c s HI) as HL.
  assert (Hrows : Forall rowok (rows (db s))) by apply HL.
  assert (Hndn : NoDup (map r_name (rows (db s)))) by apply HL.
  cbn [step]. unfold fs_create. rewrite Hro.
  destruct n as [|n0 n'] eqn:Enn; [exfalso; exact (good_nonempty [] G eq_refl)|]. rewrite <- Enn in *. clear Enn.
  rewrite (path_clean_good n G).
  rewrite (parent_check_exact hr s n HL (good_abs n G)).
  unfold spec_parent in Hpar. rewrite (lookup_abs hr c s _ HI) in Hpar. rewrite (lookup_abs hr c s _ HI) in Hv. unfold look in Hpar, Hv.
  destruct (find_rows (rows (db s)) (path_dir n)) as [pd|] eqn:Ep; cbn [option_map] in Hpar; [|discriminate].
  change (is_dir (node_of pd)) with (r_tf pd =? TypeDir) in Hpar.
  destruct (r_tf pd =? TypeDir) eqn:Ed; [clear Hpar|discriminate].
  unfold fs_openfile. destruct n as [|n2 n3] eqn:Enn; [exfalso; exact (good_nonempty [] G eq_refl)|]. rewrite <- Enn in *. clear Enn.
  rewrite (path_clean_good n G).
  rewrite (stat_false_exact hr s n HL G).
  destruct (find_rows (rows (db s)) n) as [d0|] eqn:En; cbn [option_map] in Hv; [|discriminate].
  inversion Hv; subst v. clear Hv. change (is_dir (node_of d0)) with (r_tf d0 =? TypeDir) in Hnd.
  destruct (find_rows_link hr (db s) n d0 HL En) as (Hk & Hrn & Hok).
  unfold decode_flags. rewrite Hro.
  cbn [o_acc o_append o_create o_excl o_trunc negb andb orb fl_write fl_append fl_trunc N.eqb Pos.eqb].
  change (h_tf (hdr_of_row d0)) with (r_tf d0). rewrite Hnd. cbn [andb negb].
  change (h_size (hdr_of_row d0)) with (r_size d0). change (n_size (node_of d0)) with (r_size d0).
  change (h_name (hdr_of_row d0)) with (r_name d0). change (h_link (hdr_of_row d0)) with (r_link d0). rewrite Hrn, Hk.
  set (fl := {| fl_read := true; fl_write := true; fl_append := false; fl_trunc := true |}).
  (* flushing a buffer of the size of d *)
  assert (FLUSH : forall buf bb, clen bb = clen d ->
     exists s' cid, update_op c s [{| f_hdr := stamp_mtime (flush_hdr {| hd_path := n; hd_link := []; hd_flags := fl; hd_info := hdr_of_row d0; hd_buf := buf |} (clen bb)) (clk s);
                                      f_data := bb |}] true true = (s', OOk) /\ Wf hr c s' /\ hbok s' /\
       ns_eq (abs s') (ns_upd (abs s) n (flushed_node (clen d) (clk s) cid))).
  { intros buf bb Hbb.
    set (hd := {| hd_path := n; hd_link := []; hd_flags := fl; hd_info := hdr_of_row d0; hd_buf := buf |}).
    set (fh := stamp_mtime (flush_hdr hd (clen bb)) (clk s)).
    destruct (update_content_exact s fh bb d0 HI Hhb) as (s2 & rec2 & blk2 & enc & E2 & HI2 & Hhb2 & Edb2).
    { exact G. } { reflexivity. } { reflexivity. } { unfold fh. cbn [h_size stamp_mtime flush_hdr]. rewrite Hbb. exact Hlen. } { exact En. }
    exists s2, (rec2, blk2). split; [exact E2|].
    change (h_name fh) with n in Edb2. change (h_size fh) with (clen bb) in Edb2.
    set (fr := row_of_hdr rec2 rec2 blk2 blk2 (with_size_name (content_hdr fh enc) (clen bb) n)) in *.
    split; [|split; [exact Hhb2|]].
    - split; [exact HI2|]. rewrite Edb2, with_rows_rows. apply replace_row_Forall; [apply HW|].
      unfold fr. apply size_ok_row_of_hdr.
      + unfold hsize, content_hdr, upd_pax. cbn [h_pax with_size_name set_pax]. paxs.
        apply undecimal_decimal_eq. unfold fh. cbn [h_size stamp_mtime flush_hdr]. rewrite Hbb. exact Hlen.
      + unfold content_hdr, upd_pax. cbn [h_pax with_size_name set_pax]. paxs. discriminate.
    - intro m. rewrite (lookup_abs hr c s2 m HI2), Edb2, with_rows_rows.
      rewrite look_replace; [|exact Hrows|exact Hndn|reflexivity|eapply find_rows_has; exact En].
      rewrite lookup_ns_upd, !(lookup_abs hr c s _ HI). unfold look at 2. rewrite En. cbn [option_map].
      destruct (eqb_str m n); [|reflexivity]. change (live fr) with true. cbn iota. f_equal.
      unfold fr, fh, node_of, flushed_node, hd. cbn -[clen perm_bits N.pow]. rewrite Hbb, !perm_bits_idem. reflexivity. }
  unfold write_close.
  destruct (r_size d0 =? 0) eqn:Esz; cbn [negb andb].
  - (* an empty file: the handle has no buffer *)
    destruct d as [|p0 dr].
    + cbn [hd_buf handle_close no_content]. exists s, (0, 0). split; [reflexivity|]. apply same_state; assumption.
    + cbn [no_content]. remember (p0 :: dr) as d eqn:Ed0. clear Ed0 p0 dr.
      unfold handle_write_all. cbn [hd_info hd_flags hd_buf hd_path fl fl_write fl_append fl_trunc negb].
      change (h_tf (hdr_of_row d0)) with (r_tf d0). rewrite Hnd. cbn iota.
      rewrite (stat_false_exact hr s n HL G), En.
      change (h_size (hdr_of_row d0)) with (r_size d0). rewrite Esz. cbn [negb].
      unfold handle_close. apply FLUSH. apply coverlay_nil.
  - (* a non-empty file: O_TRUNC gave the handle an empty buffer *)
    destruct d as [|p0 dr].
    + cbn [hd_buf handle_close]. apply (FLUSH (Some []) []). reflexivity.
    + remember (p0 :: dr) as d eqn:Ed0. clear Ed0 p0 dr.
      unfold handle_write_all. cbn [hd_info hd_flags hd_buf hd_path fl fl_write fl_append fl_trunc negb].
      change (h_tf (hdr_of_row d0)) with (r_tf d0). rewrite Hnd. cbn iota.
      unfold handle_close. apply FLUSH. apply coverlay_nil.
Qed.

(* ---------- CreateFile, all cases: the reference's outcome and namespace, unless nothing is written to an existing
   EMPTY regular file (then nothing happens: [T02_create_existing]) *)
Theorem T02_create_file s n d : Wf hr c s -> hbok s -> good n -> clen d < 10 ^ 40 ->
  match lookup (abs s) n with
  | Some v => is_dir v = true \/ (n_size v =? 0) && no_content d = false
  | None => True end ->
  exists s' cid, step c s (CCreateFile n d) = (s', snd (spec_create_file c (abs s) n (clen d) (clk s) cid)) /\
    Wf hr c s' /\ hbok s' /\ ns_eq (abs s') (fst (spec_create_file c (abs s) n (clen d) (clk s) cid)).
Proof.
  intros HW Hhb G Hlen Hpre.
  destruct (spec_parent (abs s) n) eqn:Epar;
    try (apply create_file_new; try assumption; rewrite Epar; discriminate).
  destruct (lookup (abs s) n) as [v|] eqn:Ev;
    [|apply create_file_new; try assumption; rewrite Ev; intros _; exact I].
  destruct (is_dir v) eqn:Edir;
    [apply create_file_new; try assumption; rewrite Ev; intros _; exact Edir|].
  destruct Hpre as [Hpre|Hpre]; [discriminate|].
  destruct (T02_create_existing s n d v HW Hhb G Hlen Ev Edir Epar) as (s' & cid & E & HW' & Hhb' & Eq).
  exists s', cid. unfold spec_create_file. rewrite Epar, Ev, Edir. cbn [fst snd].
  split; [exact E|]. split; [exact HW'|]. split; [exact Hhb'|]. rewrite Hpre in Eq. exact Eq.
Qed.
End Create.
