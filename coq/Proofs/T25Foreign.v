(* T25 / Foreign: the history theorems of C13, C02 and C04 for an OPENED FOREIGN ARCHIVE, styles "./" and "/"
   (stored root ""), followed by any history of filesystem-level calls.  Through the writer twin of T20
   ([twin c st t], related to [opened c (archive_of st t)] by T19's [Sim]: T20_foreign_sim).  Plain configuration (as T20).
   - the twin satisfies the tree invariant [OKt] of T13 for EVERY well-formed tree (no size bound), so the C13 statements
     hold on the archive's instance after every history of filesystem-level calls (T25_foreign_C13);
   - with [sizes_bounded t] the twin is a [Good] state (T20_twin_Good) and even a [Good4] state (the position of every
     regular member designates its content record: T25_twin_Good4), so the reference semantics of C02 and the content
     statement of C04 apply: T25_foreign_C02, T25_foreign_C04.  What a read returns before the history is the member's
     data ([w_tree t], T25_twin_content). *)
From Coq Require Import List NArith ZArith Bool Lia.
From Coq Require Import ZifyN ZifyBool.
Import ListNotations.
From STFS Require Import Str Db Tape Index Ops Fs File Diff Norm TapeLemmas StrLemmas C01Str C01Db C01Inv C01Sim C01Ops C01Fs2 C01Rows
  T02Ns T02Db T02Str T02Move T02Calls T02Spec T04Def T04Tape T04Ns T04Content T13Path T13Def T13View T13Fs T13Tree
  T17Tree T17Forest T17Rebuild T17View T19Rel T19Base T19Db T19Main T19Cfg
  T20Twin T20Rebuild T20Inv T20Abs T20Good T25Core T25Abs.
From STFS Require T13ListStr T04View.
Open Scope N_scope.

(* ---------- a state with the C01 invariant whose namespace is closed under parents is a tree *)
Lemma Inv_closed_wf hr c s : Inv hr c s -> closed (abs s) -> wf_tree (db s) /\ idx_plain (db s).
Proof.
  intros HI Hcl. pose proof (iv_li hr c s HI) as HL.
  assert (Hrows : Forall rowok (rows (db s))) by apply HL.
  assert (Hnd : NoDup (map r_name (rows (db s)))) by apply HL.
  split.
  - split; [|split].
    + unfold lrows. apply NoDup_map_filter. exact Hnd.
    + intros r Hr Hne. unfold lrows in Hr. apply filter_In in Hr as [Hin Hlive].
      assert (G : good (r_name r)) by (rewrite Forall_forall in Hrows; apply (Hrows r Hin)).
      assert (Lr : T02Ns.lookup (abs s) (r_name r) = Some (node_of r)).
      { rewrite (lookup_abs hr c s _ HI). unfold look. rewrite (find_rows_self _ r Hnd Hin Hlive). reflexivity. }
      destruct (parent_below (r_name r) G Hne) as (Hb & Gp).
      destruct (Hcl _ _ Lr (path_dir (r_name r)) Gp Hb) as (d & Hd & Hdir).
      rewrite (lookup_abs hr c s _ HI) in Hd. unfold look in Hd.
      destruct (find_rows (rows (db s)) (path_dir (r_name r))) as [q|] eqn:Eq; [|discriminate].
      cbn [option_map] in Hd. inversion Hd; subst d.
      destruct (find_rows_some _ _ _ Eq) as (Q1 & Q2 & Q3).
      exists q. split; [unfold lrows; apply filter_In; split; assumption|]. split; [exact Q3|].
      change (is_dir (node_of q)) with (r_tf q =? TypeDir) in Hdir. apply N.eqb_eq. exact Hdir.
    + intros r Hr. unfold lrows in Hr. apply filter_In in Hr as [Hin _]. rewrite Forall_forall in Hrows. apply (Hrows r Hin).
  - split; [apply HL|]. eapply Forall_impl; [|exact Hrows]. intros a (_ & K & _). exact K.
Qed.

Lemma tfo_lrows p n : tfo (lrows p) n = tfo (rows p) n.
Proof.
  unfold tfo, lrows. induction (rows p) as [|x l IH]; [reflexivity|]. cbn [filter find].
  destruct (live x) eqn:Lx; cbn [find andb]; [rewrite Lx; cbn [andb]; destruct (eqb_str (r_name x) n); [reflexivity|exact IH]|exact IH].
Qed.

Section Foreign.
Variables (c : cfg) (st : style) (t : tree).
Hypothesis HP : plain c.
Hypothesis Hrs : 0 < c_rs c.
Hypothesis Hs : wf_style st.
Hypothesis Hsr : style_root st = [].
Hypothesis Hwf : wf t.

Let sa := twin c st t.
Let sr := opened c (archive_of st t).

Lemma twin_OKt : OKt true c sa.
Proof.
  pose proof (T20_twin_Inv c st t HP Hrs Hs Hsr Hwf) as HI. split; [exact HI|]. split; [constructor|].
  assert (Hcl : closed (abs sa)) by (unfold sa; rewrite (T20_twin_abs c st t Hs Hsr); apply namespace_closed; exact Hwf).
  destruct (Inv_closed_wf true c sa HI Hcl) as (W & _).
  apply (wfm_ext (tfo (lrows (db sa)))); [intro m; symmetry; apply tfo_lrows|apply wf_wfm; exact W].
Qed.

Lemma foreign_SimC : SimC c sa sr.
Proof. apply (SimC_plain c sa sr HP). exact (T20_foreign_sim c st t HP Hrs Hs Hsr Hwf). Qed.

Hypothesis Hro : c_readonly c = false.

(* ---------- C13 on the archive's instance, after any history of filesystem-level calls *)
Theorem T25_foreign_C13_ : forall h,
  forallb (fun ke => fs_call (fst ke)) h = true -> forallb (fun ke => call_ok (fst ke)) h = true -> forallb hb_ok h = true ->
  let sr' := final c sr h in
  let sa' := final c sa h in
  let p := db sr' in
  wf_tree_rel p /\
  (forall d nr, good d -> nrel d nr ->
    exists l, snd (get_direct_children p nr None) = Ok l /\
      l = filter (fun x => live x && negb (eqb_str (r_name x) []) && eqb_str (path_dir (slash :: r_name x)) d) (rows p) /\
      NoDup (map r_name l) /\
      (forall x, In x l <-> (In x (lrows p) /\ r_name x <> [] /\ path_dir (slash :: r_name x) = d)) /\
      (forall j lk, snd (get_direct_children p nr (Some j)) = Ok lk -> exists i, (i <= j)%nat /\ lk = firstn i l) /\
      rows_rel (filter (T13ListStr.childp d) (rows (db sa'))) l /\
      snd (inv_list p nr None) = Ok (map hdr_of_row l)) /\
  view c sr' = view c sa' /\
  (exists l, view c sr' = map (ent_rd c sr') l /\ NoDup l /\
     forall x, In x l <-> (In x (lrows p) /\ slash_count (slash :: r_name x) <= 16)).
Proof.
  intros h H1 H2 H3 sr' sa' p.
  destruct (T19_run_sim_any_config c Hrs Hro h sa sr foreign_SimC H1 H2 H3) as (_ & HS'). fold sr' sa' in HS'.
  destruct (OKt_wf true c sa' (final_t c HP Hrs Hro h sa twin_OKt H1 H2 H3)) as (W & Ip).
  exact (T25_C13_rd c sa' sr' HS' W Ip).
Qed.

Hypothesis He : sizes_bounded t.

(* ---------- C02: the reference semantics, run on the archive's own namespace *)
Theorem T25_foreign_C02_ : forall h, ok_run_rd c sr h ->
  abs_rd sr = namespace_of c t /\
  conforms_rd c sr h /\
  map ob_out (run c sr h) = map ob_out (run c sa h) /\
  conforms c sa h /\ abs_rd (final c sr h) = abs (final c sa h).
Proof.
  intros h Hok. pose proof foreign_SimC as HS. pose proof (T20_twin_Good c st t HP Hrs Hs Hsr Hwf He) as HG. fold sa in HG.
  split; [rewrite (abs_rd_eq sa sr (SimC_rows c _ _ HS)); exact (T20_twin_abs c st t Hs Hsr)|].
  destruct (T25_history_rd c Hrs Hro true h sa sr HS HG Hok) as (A & B & C & _).
  split; [exact A|]. split; [exact B|]. split.
  - apply (T25_ok_run_rd c Hrs Hro h sa sr HS) in Hok. exact (proj1 (T02Spec.T02_history true c HP Hrs Hro h sa HG Hok)).
  - exact (abs_rd_eq _ _ (SimC_rows c _ _ C)).
Qed.

(* ---------- the twin is a Good4 state: positions designate the members' content records *)
Lemma twin_tape_items : tp sa = twin_items st (items t) ++ [TT].
Proof. reflexivity. Qed.

Lemma member_at_twin x : In x (istarts 0 (items t)) -> member_at (tp sa) (fst x) = Some (twin_member st (snd x)).
Proof.
  intro Hx. rewrite twin_tape_items. destruct (istarts_split (items t) 0 x Hx) as (l1 & l2 & E & Ea).
  rewrite E. unfold twin_items. rewrite map_app. cbn [map]. rewrite <- app_assoc. cbn [app].
  fold (twin_items st l1). rewrite Ea, N.add_0_l, <- (tape_blocks_twin st).
  apply member_at_new. apply pos_items_twin. intros i Hi. apply (items_hb t i Hwf). rewrite E. apply in_or_app. left. exact Hi.
Qed.

Lemma ns_in m v : T02Ns.lookup (abs sa) m = Some v ->
  exists x, In x (istarts 0 (items t)) /\ m = pth (i_path (snd x)) /\ v = ns_node (c_rs c) x.
Proof.
  unfold sa. rewrite (T20_twin_abs c st t Hs Hsr). intro H. apply lookup_in in H. unfold namespace_of in H.
  apply in_map_iff in H as (x & Ex & Hx). injection Ex as Em Ev. exists x. split; [exact Hx|]. split; symmetry; assumption.
Qed.

Lemma twin_member_record (x : N * item) : i_dir (snd x) = false ->
  is_content_record (twin_member st (snd x)) (clen (i_data (snd x))) /\ mdata (twin_member st (snd x)) = i_data (snd x).
Proof.
  intro Hd. unfold is_content_record, mdata, hsize, twin_member, member_of_item, hdr_of_item. cbn. rewrite Hd. cbn. repeat split.
Qed.

Theorem T25_twin_Good4 : Good4 true c sa.
Proof.
  split; [exact (T20_twin_Good c st t HP Hrs Hs Hsr Hwf He)| |].
  - intros n v Hl Hreg. destruct (ns_in n v Hl) as (x & Hx & -> & ->).
    assert (Hd : i_dir (snd x) = false).
    { unfold ns_node in Hreg. cbn [n_tf] in Hreg. destruct (i_dir (snd x)); [discriminate|reflexivity]. }
    exists (twin_member st (snd x)). unfold ns_node. cbn [n_cid n_size]. rewrite Hd.
    rewrite (pos_of_roundtrip (c_rs c) (fst x) Hrs). split; [exact (member_at_twin x Hx)|exact (proj1 (twin_member_record x Hd))].
  - intros n v Hl. destruct (ns_in n v Hl) as (x & _ & _ & ->). unfold ns_node. cbn [n_tf]. destruct (i_dir (snd x)); [left|right]; reflexivity.
Qed.

(* what a read of the twin (hence of the archive's instance) returns before any call: the member's data *)
Definition w_tree : wmap := fun m =>
  match find (fun i => eqb_str (pth (i_path i)) m) (items t) with
  | Some i => if i_dir i then None else Some (i_data i)
  | None => None
  end.

Theorem T25_twin_content : forall m, good m -> content_of c sa m = w_tree m.
Proof.
  intros m G. pose proof (T20_twin_Inv c st t HP Hrs Hs Hsr Hwf) as HI. fold sa in HI.
  rewrite (content_of_abs true c sa m HI G). unfold w_tree.
  destruct (find (fun i => eqb_str (pth (i_path i)) m) (items t)) as [i|] eqn:Ef.
  - apply find_some in Ef as (Hi & Em). apply eqb_str_eq in Em.
    assert (Hx : exists a, In (a, i) (istarts 0 (items t))).
    { rewrite <- (istarts_snd (items t) 0) in Hi. apply in_map_iff in Hi as ([a j] & E & Hx). cbn in E. subst j. exists a. exact Hx. }
    destruct Hx as (a & Hx).
    assert (El : T02Ns.lookup (abs sa) m = Some (ns_node (c_rs c) (a, i))).
    { unfold sa. rewrite (T20_twin_abs c st t Hs Hsr). apply in_lookup; [apply namespace_nodup; exact Hwf|].
      unfold namespace_of. apply in_map_iff. exists (a, i). split; [cbn [snd]; rewrite Em; reflexivity|exact Hx]. }
    rewrite El. destruct (i_dir i) eqn:Hd.
    + apply cof_dir. unfold ns_node. cbn [n_tf snd]. rewrite Hd. reflexivity.
    + rewrite (cof_member c (tp sa) _ (twin_member st i)).
      * f_equal. exact (proj2 (twin_member_record (a, i) Hd)).
      * unfold ns_node. cbn [n_tf snd]. rewrite Hd. reflexivity.
      * unfold ns_node. cbn [n_cid snd fst]. rewrite Hd. rewrite (pos_of_roundtrip (c_rs c) a Hrs). exact (member_at_twin (a, i) Hx).
  - destruct (T02Ns.lookup (abs sa) m) as [v|] eqn:El; [|reflexivity]. exfalso.
    destruct (ns_in m v El) as (x & Hx & Em & _).
    assert (Hi : In (snd x) (items t)) by (rewrite <- (istarts_snd (items t) 0); apply in_map; exact Hx).
    pose proof (find_none _ _ Ef (snd x) Hi) as K. cbn beta in K. rewrite <- Em, eqb_str_refl in K. discriminate.
Qed.

(* ---------- C04 on the archive's instance *)
Theorem T25_foreign_C04_ : forall h, ok_run4 true h -> forallb (fun ke => fs_call (fst ke)) h = true ->
  let sr' := final c sr h in
  (* before the history: a read returns the member's data *)
  (forall m nr, good m -> nrel m nr -> content_of c sr nr = w_tree m) /\
  (* after it: what was last written (the members' data counting as written) *)
  (forall m nr, good m -> nrel m nr -> content_eq (content_of c sr' nr) (last_written c sr h w_tree m)) /\
  (forall e, In e (view c sr') -> content_eq (e_data e) (last_written c sr h w_tree (e_path e))) /\
  (forall x, In x (rows (db sr')) -> live x = true -> tf_regular (r_tf x) = true ->
     exists m, member_at (tp sr') (off_of (c_rs c) (r_rec x) (r_blk x)) = Some m /\
               is_content_record m (r_size x) /\
               content_eq (Some (mdata m)) (last_written c sr h w_tree (slash :: r_name x))) /\
  last_written c sr h w_tree = last_written c sa h w_tree.
Proof.
  intros h Hok Hfs sr'. pose proof foreign_SimC as HS. pose proof T25_twin_Good4 as H4.
  assert (Hw : forall m, good m -> content_eq (content_of c sa m) (w_tree m)).
  { intros m G. rewrite (T25_twin_content m G). apply content_eq_refl. }
  destruct (ok_run4_hyps true h Hok) as (Hcok & Hhb).
  destruct (T25_read_is_last_written_rd c Hrs Hro h sa sr w_tree HS H4 Hw Hok Hfs) as (HS' & H4' & A & B). fold sr' in HS', A, B.
  pose proof (T25_last_written_rd c Hrs Hro h sa sr w_tree HS Hfs Hcok Hhb) as El.
  split; [intros m nr G Hn; rewrite (T25_content_rd c sa sr m nr HS G Hn); apply T25_twin_content; exact G|].
  split; [exact A|]. split; [exact B|]. split; [|exact El].
  intros x Hx Hl Hreg. destruct (F2_in_r _ _ _ x (SimC_rows c _ _ HS') Hx) as (a & Ha & Hax).
  rewrite (rowrel_live a x Hax) in Hl. rewrite (rr_tf _ _ Hax) in Hreg.
  destruct (T04_positions_designate_content true c HP Hrs Hro h sa w_tree H4 Hok Hw a Ha Hl Hreg) as (ma & Hma & Hrec & Hce).
  destruct (T25_member_rd c (final c sa h) sr' HS' a x ma (r_size a) Hax Hma Hrec) as (mr & Hmr & Hrr & Ed).
  exists mr. split; [exact Hmr|]. split; [rewrite (rr_size _ _ Hax); exact Hrr|].
  rewrite El, <- (rowrel_abs_name a x Hax). unfold mdata in *. rewrite Ed. exact Hce.
Qed.
End Foreign.

(* ---------- the statements, closed *)
Definition T25_foreign_C13 := T25_foreign_C13_.
Definition T25_foreign_C02 := T25_foreign_C02_.
Definition T25_foreign_C04 := T25_foreign_C04_.

Print Assumptions T25_foreign_C13.
Print Assumptions T25_foreign_C02.
Print Assumptions T25_foreign_C04.
Print Assumptions T25_twin_Good4.
Print Assumptions T25_twin_content.
