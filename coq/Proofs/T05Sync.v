(* T05 / a replay that fails leaves no stamp: if the archive an operation appended was replayed and the index then
   knows the position of the archive's LAST member as a last-known position, every header of the archive was applied
   successfully, i.e. the operation returned OOk.  Consequence (T05Strong.v): in the states the C01 invariant describes,
   a call that does not return OOk has appended nothing.

   [Sync c s] is the tape/position part of the C01 invariant [Inv] (Proofs/C01Ops.v iv_pos, iv_sync). *)
From Coq Require Import List NArith ZArith Bool Lia.
From Coq Require Import ZifyN ZifyBool.
Import ListNotations.
From STFS Require Import Str Db Tape Index Ops Fs Norm TapeLemmas Append C04Db
  C01Str C01Db C01Inv C01Sim C01Tape C01Hdr C01Ops.
Open Scope N_scope.

Definition Sync (c : cfg) (s : sys) : Prop :=
  pos_items (tp s) /\
  exists pre m, tp s = pre ++ [TM m; TT] /\ lk_le (c_rs c) (rows (db s)) (tape_blocks pre) /\
                In (pos_of (c_rs c) (tape_blocks pre)) (lks (rows (db s))).

Lemma Inv_Sync hr c s : Inv hr c s -> Sync c s.
Proof. intros [_ _ A B]. split; assumption. Qed.

(* ---------- a failing indexHeader only drops rows; a successful one stamps at most its own position *)

Definition sub (l' l : list row) : Prop := forall x, In x l' -> In x l.

Lemma sub_refl l : sub l l. Proof. intros x H; exact H. Qed.
Lemma sub_filter f l : sub (filter f l) l. Proof. intros x H. apply filter_In in H. tauto. Qed.

Lemma delete_row_cases p n a b :
  (exists r, snd (delete_row p n a b) = Ok r) \/ (snd (delete_row p n a b) = NoRows /\ rows (fst (delete_row p n a b)) = rows p).
Proof.
  unfold delete_row. pose proof (sanitize_rows p n) as H. destruct (sanitize p n) as [p1 n1]; cbn [fst] in H.
  destruct (find_by_name p1 n1); cbn [fst snd]; [left; eauto|right; split; [reflexivity|exact H]].
Qed.

Lemma move_rows_cases p old new a b :
  snd (move_rows p old new a b) = Ok tt \/ (snd (move_rows p old new a b) = Unique /\ sub (rows (fst (move_rows p old new a b))) (rows p)).
Proof.
  unfold move_rows.
  pose proof (sanitize_rows p new) as H1. destruct (sanitize p new) as [p1 new']; cbn [fst] in H1.
  pose proof (sanitize_rows p1 old) as H2. destruct (sanitize p1 old) as [p2 old']; cbn [fst] in H2.
  cbv zeta.
  match goal with |- context [if existsb ?f ?l then _ else _] => destruct (existsb f l) end; cbn [fst snd with_rows rows]; [right|left; reflexivity].
  split; [reflexivity|]. destruct (eqb_str new' old'); [rewrite H2, H1; apply sub_refl|].
  intros x Hx. apply sub_filter in Hx. rewrite H2, H1 in Hx. exact Hx.
Qed.

Lemma upsert_ok p r0 ini : snd (upsert p r0 ini) = Ok tt.
Proof.
  unfold upsert. destruct (if ini then (p, r_name r0) else sanitize p (r_name r0)) as [p1 n].
  destruct (has_key (rows p1) n (r_link (set_name r0 n))); reflexivity.
Qed.

Lemma update_meta_ok p r0 : snd (update_meta p r0) = Ok tt.
Proof. unfold update_meta. destruct (sanitize p (r_name r0)). reflexivity. Qed.

Lemma index_header_fail_sub c rec blk h0 ini p :
  snd (index_header c rec blk h0 ini p) <> Ok tt -> sub (rows (fst (index_header c rec blk h0 ini p))) (rows p).
Proof.
  unfold index_header.
  destruct (match pax_get K_usize (h_pax h0) with
            | Some v => match undecimal v with Some n => Some n | None => None end
            | None => Some (h_size h0) end) as [sz|]; [|intros _; apply sub_refl].
  set (h := with_size_name h0 sz _). clearbody h. cbv zeta.
  destruct (negb _); [intros _; apply sub_refl|].
  destruct (eqb_str _ V_create).
  { intro H. exfalso. apply H. apply upsert_ok. }
  destruct (eqb_str _ V_delete).
  { destruct (delete_row_cases p (h_name h) rec blk) as [[r E]|[E1 E2]].
    - destruct (delete_row p (h_name h) rec blk) as [p1 rr]. cbn [snd] in E. subst rr. cbn. intro H. exfalso. apply H. reflexivity.
    - destruct (delete_row p (h_name h) rec blk) as [p1 rr]. cbn [fst snd] in E1, E2. subst rr. cbn. intros _. rewrite E2. apply sub_refl. }
  destruct (eqb_str _ V_update); [|intros _; apply sub_refl].
  set (old_name := match pax_get K_replaces_name (h_pax h) with Some o => o | None => h_name h end). clearbody old_name.
  set (moves := match pax_get K_replaces_name (h_pax h) with Some _ => true | None => false end). clearbody moves.
  (* the move step: Ok, or Unique with fewer rows *)
  assert (Mv : forall p1, sub (rows p1) (rows p) ->
     let x := (if moves then move_rows p1 old_name (h_name h) rec blk else (p1, Ok tt)) in
     snd x = Ok tt \/ (snd x = Unique /\ sub (rows (fst x)) (rows p))).
  { intros p1 S1. destruct moves; cbv zeta; [|left; reflexivity].
    destruct (move_rows_cases p1 old_name (h_name h) rec blk) as [E|[E1 E2]]; [left; exact E|right].
    split; [exact E1|]. intros x Hx. apply S1. apply E2. exact Hx. }
  assert (LF : forall p1 r1, sub (rows p1) (rows p) ->
     let y := lift (if moves then move_rows p1 old_name (h_name h) rec blk else (p1, Ok tt)) (fun p _ => update_meta p r1) in
     snd y <> Ok tt -> sub (rows (fst y)) (rows p)).
  { intros p1 r1 S1. cbv zeta. specialize (Mv p1 S1). cbv zeta in Mv.
    destruct (if moves then move_rows p1 old_name (h_name h) rec blk else (p1, Ok tt)) as [p2 rr]. cbn [fst snd] in Mv.
    destruct Mv as [E|[E1 E2]]; subst rr; cbn [lift].
    - intro H. exfalso. apply H. apply update_meta_ok.
    - intros _. exact E2. }
  assert (MU : snd (match get_header p old_name with
        | (p, Ok o) => lift (if moves then move_rows p old_name (h_name h) rec blk else (p, Ok tt))
                            (fun p _ => update_meta p (row_of_hdr (r_rec o) rec (r_blk o) blk h))
        | (p, NoRows) => if moves then move_rows p old_name (h_name h) rec blk else (p, Ok tt)
        | (p, Unique) => (p, Unique)
        | (p, Fail e) => (p, Fail e)
        end) <> Ok tt ->
     sub (rows (fst (match get_header p old_name with
        | (p, Ok o) => lift (if moves then move_rows p old_name (h_name h) rec blk else (p, Ok tt))
                            (fun p _ => update_meta p (row_of_hdr (r_rec o) rec (r_blk o) blk h))
        | (p, NoRows) => if moves then move_rows p old_name (h_name h) rec blk else (p, Ok tt)
        | (p, Unique) => (p, Unique)
        | (p, Fail e) => (p, Fail e)
        end))) (rows p)).
  { pose proof (get_header_rows p old_name) as Hr.
    destruct (get_header p old_name) as [p1 [o| | |e]]; cbn [fst] in Hr.
    - apply LF. rewrite Hr. apply sub_refl.
    - assert (S1 : sub (rows p1) (rows p)) by (rewrite Hr; apply sub_refl). specialize (Mv p1 S1). cbv zeta in Mv.
      destruct Mv as [E|[E1 E2]]; [intro H; contradiction|intros _; exact E2].
    - intros _. cbn [fst]. rewrite Hr. apply sub_refl.
    - intros _. cbn [fst]. rewrite Hr. apply sub_refl. }
  destruct (pax_get K_replaces_content (h_pax h)) as [v|]; [|exact MU].
  destruct (eqb_str v V_true); [|exact MU]. apply LF. apply sub_refl.
Qed.

Lemma sub_lks l' l y : sub l' l -> In y (lks l') -> In y (lks l).
Proof. intros S H. unfold lks in *. apply in_map_iff in H as (x & E & Hx). apply in_map_iff. exists x. split; [exact E|apply S; exact Hx]. Qed.

(* a call stamps at most its own position *)
Lemma index_header_lks c rec blk h0 ini p y :
  In y (lks (rows (fst (index_header c rec blk h0 ini p)))) -> In y (lks (rows p)) \/ y = (rec, blk).
Proof.
  intro H.
  pose proof (index_header_P (fun _ _ a b => In (a, b) (lks (rows p)) \/ (a, b) = (rec, blk)) c rec blk h0 ini p) as K.
  assert (A : allP (fun _ _ a b => In (a, b) (lks (rows p)) \/ (a, b) = (rec, blk)) (rows (fst (index_header c rec blk h0 ini p)))).
  { apply K.
    - right. reflexivity.
    - intros; right; reflexivity.
    - intros x Hx. unfold rowP. left. unfold lks. apply in_map_iff. exists x. split; [reflexivity|exact Hx]. }
  unfold lks in H. apply in_map_iff in H as (x & <- & Hx). exact (A x Hx).
Qed.

(* ---------- the fold: after a failure only the positions of members BEFORE the last one can have been stamped *)
Lemma loop0_fail_lks c : forall l p, snd (loop0 c l p) <> Ok tt ->
  forall y, In y (lks (rows (fst (loop0 c l p)))) ->
    In y (lks (rows p)) \/ exists st, In st (removelast (map fst l)) /\ y = pos_of (c_rs c) st.
Proof.
  induction l as [|[st h] rest IH]; intros p Hf y Hy; cbn [loop0] in *; [exfalso; apply Hf; reflexivity|].
  pose proof (index_header_fail_sub c (fst (pos_of (c_rs c) st)) (snd (pos_of (c_rs c) st)) h false p) as Fs.
  pose proof (index_header_lks c (fst (pos_of (c_rs c) st)) (snd (pos_of (c_rs c) st)) h false p) as St.
  destruct (index_header c (fst (pos_of (c_rs c) st)) (snd (pos_of (c_rs c) st)) h false p) as [p1 [[]| | |e]]; cbn [fst snd] in *.
  - destruct rest as [|x rest']; [exfalso; apply Hf; reflexivity|].
    destruct (IH p1 Hf y Hy) as [K|(st' & K1 & K2)].
    + destruct (St y K) as [K'|K']; [left; exact K'|right]. exists st. split; [cbn; left; reflexivity|].
      rewrite K'. destruct (pos_of (c_rs c) st); reflexivity.
    + right. exists st'. split; [|exact K2]. cbn [map removelast fst] in *. right. exact K1.
  - left. eapply sub_lks; [apply Fs; discriminate|exact Hy].
  - left. eapply sub_lks; [apply Fs; discriminate|exact Hy].
  - left. eapply sub_lks; [apply Fs; discriminate|exact Hy].
Qed.

Lemma mstarts_lt ms : forall B st, Forall (fun m => 0 < m_hb m) ms ->
  In st (removelast (map fst (mstarts ms B))) -> B <= st /\ st < B + tape_blocks (map TM (removelast ms)).
Proof.
  induction ms as [|m ms IH]; intros B st Hp H; cbn in H; [contradiction|].
  inversion Hp as [|? ? Hm Hp']; subst.
  destruct ms as [|m1 ms']; [cbn in H; contradiction|].
  cbn [mstarts map fst removelast] in H. fold (mstarts ms' (B + item_blocks (TM m) + item_blocks (TM m1))) in H.
  change (removelast (m :: m1 :: ms')) with (m :: removelast (m1 :: ms')).
  cbn [map]. change (tape_blocks (TM m :: map TM (removelast (m1 :: ms')))) with (item_blocks (TM m) + tape_blocks (map TM (removelast (m1 :: ms')))).
  destruct H as [<-|H].
  - unfold item_blocks at 1. lia.
  - specialize (IH (B + item_blocks (TM m)) st Hp'). cbn [mstarts map fst removelast] in IH.
    fold (mstarts ms' (B + item_blocks (TM m) + item_blocks (TM m1))) in IH. specialize (IH H). cbn [removelast] in IH |- *. lia.
Qed.

Lemma app_two_inj {A} (a b : list A) x y x' y' : a ++ [x; y] = b ++ [x'; y'] -> a = b /\ x = x'.
Proof.
  intro H. change (a ++ [x; y]) with (a ++ [x] ++ [y]) in H. change (b ++ [x'; y']) with (b ++ [x'] ++ [y']) in H.
  rewrite !app_assoc in H. apply app_inj_tail in H as [H _]. apply app_inj_tail in H. exact H.
Qed.

(* ---------- the theorem *)
Theorem replay_ok_of_sync c s ms : 0 < c_rs c -> Sync c s -> ms <> [] -> Forall (fun m => 0 < m_hb m) ms ->
  Sync c (fst (append_and_index c s (last_indexed (db s) (c_rs c)) ms (map m_hdr ms) false false)) ->
  snd (append_and_index c s (last_indexed (db s) (c_rs c)) ms (map m_hdr ms) false false) = OOk.
Proof.
  intros Hrs [Hpos (pre & m & Etp & Hle & Hin)] Hne Hhb HS'.
  unfold append_and_index in *.
  replace (match ms with [] => [] | _ :: _ => [TT] end) with [TT] in * by (destruct ms; [contradiction|reflexivity]).
  replace (if false then 0%nat else 1%nat) with 1%nat in * by reflexivity.
  assert (Eoff : off_of (c_rs c) (fst (last_indexed (db s) (c_rs c))) (snd (last_indexed (db s) (c_rs c))) = tape_blocks pre).
  { eapply last_indexed_max; [exact Hle|exact Hin|]. apply pos_of_roundtrip. exact Hrs. }
  rewrite Eoff in *.
  assert (Hpre : pos_items pre) by (rewrite Etp in Hpos; apply pos_items_app in Hpos; tauto).
  change (map TM ms ++ [TT]) with (new_items ms) in *.
  assert (Eidx : index_tape c (tp s ++ new_items ms) (tape_blocks pre) 1 (Some (map m_hdr ms)) false false (db s)
                 = loop0 c (hd_of (mstarts ms (tape_blocks (tp s)))) (db s)).
  { rewrite Etp. apply live_replay. exact Hpre. }
  rewrite Eidx in *. set (B := tape_blocks (tp s)) in *.
  pose proof (loop0_fail_lks c (hd_of (mstarts ms B)) (db s)) as LF.
  destruct (loop0 c (hd_of (mstarts ms B)) (db s)) as [p' rr]. cbn [fst snd tp db] in *.
  destruct rr as [[]| | |e]; [reflexivity| | |]; exfalso.
  all: destruct HS' as [_ (pre' & m' & Etp' & _ & Hin')].
  all: destruct (exists_last Hne) as (ms0 & ml & Ems).
  all: assert (Epre' : pre' = tp s ++ map TM ms0)
         by (assert (E3 : tp s ++ new_items ms = (tp s ++ map TM ms0) ++ [TM ml; TT])
               by (unfold new_items; rewrite Ems, map_app, <- !app_assoc; reflexivity);
             rewrite E3 in Etp'; apply app_two_inj in Etp'; symmetry; apply Etp').
  all: assert (EP : tape_blocks pre' = B + tape_blocks (map TM ms0)) by (rewrite Epre', tape_blocks_app; reflexivity).
  all: assert (Hrl : removelast ms = ms0) by (rewrite Ems; apply removelast_last).
  all: destruct (LF ltac:(discriminate) _ Hin') as [K|(st & K1 & K2)].
  all: try (specialize (Hle _ K); rewrite pos_of_roundtrip in Hle by exact Hrs;
            assert (tape_blocks pre < B) by (unfold B; rewrite Etp, tape_blocks_app; unfold tape_blocks; cbn; lia); lia).
  all: rewrite hd_of_fst in K1; apply (mstarts_lt ms B st Hhb) in K1; rewrite Hrl in K1;
       assert (E2 : off_of (c_rs c) (fst (pos_of (c_rs c) st)) (snd (pos_of (c_rs c) st)) =
                    off_of (c_rs c) (fst (pos_of (c_rs c) (tape_blocks pre'))) (snd (pos_of (c_rs c) (tape_blocks pre')))) by (rewrite K2; reflexivity);
       rewrite !pos_of_roundtrip in E2 by exact Hrs; lia.
Qed.
