(* T15 / Def: vocabulary of the read-only theorem (model half of C15).
   [ro c]            the instance was opened read-only
   [set_ro c b]      the same configuration with the read-only switch set to b; [wr c] = the writable twin
   [mutator k]       the calls that must be refused
   [ro_call k]       the calls a read-only instance can issue: everything except the three operation-level calls
                     CUpdate / CDelete / CMove, whose model ([update_op], [delete_op], [move_op]) does not look at
                     [c_readonly] (in the implementation a read-only filesystem is constructed without these operations'
                     writer; the afero-level methods that use them all check the switch first).  [fs_call k] implies [ro_call k].
   [cachefill p p']  what a read may do to the index state: the rows are the same, and once the root is cached nothing changes
                     at all (only the two cache fields [root], [root_empty] can ever differ)
   [frame s s']      tape, oracle queues and clock equal, index related by [cachefill]. *)
From Coq Require Import List NArith ZArith Bool.
Import ListNotations.
From STFS Require Import Str Db Tape Index Ops Fs File Diff Norm.
Open Scope N_scope.

Definition ro (c : cfg) : Prop := c_readonly c = true.

Definition set_ro (c : cfg) (b : bool) : cfg :=
  {| c_rs := c_rs c; c_csuf := c_csuf c; c_esuf := c_esuf c; c_readonly := b;
     c_uid := c_uid c; c_gid := c_gid c; c_uname := c_uname c; c_gname := c_gname c |}.
Definition wr (c : cfg) : cfg := set_ro c false.

Lemma ro_set_ro c : ro (set_ro c true).
Proof. reflexivity. Qed.
Lemma set_ro_id c : set_ro c (c_readonly c) = c.
Proof. destruct c; reflexivity. Qed.
Lemma ro_eq c : ro c -> c = set_ro c true.
Proof. intro H. rewrite <- H. symmetry. apply set_ro_id. Qed.

Definition mutator (k : call) : bool :=
  match k with
  | CMkdir _ _ | CMkdirAll _ _ | CRemove _ | CRemoveAll _ | CRename _ _ | CChmod _ _ | CChown _ _ _ | CChtimes _ _ _
  | CCreateFile _ _ => true
  | _ => false
  end.

Definition ro_call (k : call) : bool :=
  match k with CUpdate _ _ | CDelete _ | CMove _ _ => false | _ => true end.

Definition is_init (k : call) : bool := match k with CInitialize _ => true | _ => false end.
Definition is_reopen (k : call) : bool := match k with CReopen => true | _ => false end.

Lemma fs_call_ro_call k : fs_call k = true -> ro_call k = true.
Proof. destruct k; cbn; congruence. Qed.

Definition cachefill (p p' : pstate) : Prop := rows p' = rows p /\ (root p <> [] -> p' = p).

Lemma cachefill_refl p : cachefill p p.
Proof. split; auto. Qed.
Lemma cachefill_trans p q r : cachefill p q -> cachefill q r -> cachefill p r.
Proof.
  intros [H1 H2] [H3 H4]. split; [congruence|]. intro H. specialize (H2 H). subst q. auto.
Qed.

Definition frame (s s' : sys) : Prop :=
  tp s' = tp s /\ hbq s' = hbq s /\ encq s' = encq s /\ clk s' = clk s /\ cachefill (db s) (db s').

Lemma frame_refl s : frame s s.
Proof. repeat split; auto. Qed.
Lemma frame_trans a b c : frame a b -> frame b c -> frame a c.
Proof.
  intros (A1 & A2 & A3 & A4 & A5) (B1 & B2 & B3 & B4 & B5).
  repeat split; try congruence; eapply cachefill_trans; eauto.
Qed.
Lemma frame_set_db s p : cachefill (db s) p -> frame s (set_db s p).
Proof. intro H. repeat split; try reflexivity; apply H. Qed.
Lemma frame_eq_root s s' : frame s s' -> root (db s) <> [] -> s' = s.
Proof.
  intros (A1 & A2 & A3 & A4 & A5 & A6) H. specialize (A6 H).
  destruct s, s'; cbn in *; subst; reflexivity.
Qed.

(* every call of a history, projected *)
Definition calls (h : list (call * env)) : list call := map fst h.
Definition init_free (h : list (call * env)) : Prop := Forall (fun ke => is_init (fst ke) = false) h.
