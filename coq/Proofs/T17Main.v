(* T17 / Main: a foreign tar archive opens as a filesystem - for ALL well-formed directory trees, every root
   style, every record size: the rebuild succeeds, the walk of the visible tree shows exactly the members (each
   under its directory, in archive order), every directory lists its members, every regular member reads back
   the content the writer stored.

   Hypotheses: plain codecs, record size >= 1, component names okc (non-empty, no slash, not "." / ".."),
   siblings distinct, header blocks >= 1; for the walk: at most 16 levels below the top (the fuel of Fs.walk,
   a bound of the model's [view], not of the implementation; [T17_walk_any_depth] has no such bound).
   Named top: the raw model has no base-path layer (afero.BasePathFs is outside the model), so the statement is
   about the walk from "top" and shows "top/d/f"; from "/" only the first level resolves (T17Counter.v). *)
From Coq Require Import List NArith ZArith Bool Lia.
Import ListNotations.
From STFS Require Import Str Db Tape Index Ops Fs C01Str C01Sim T17Tree T17Str T17Forest T17Db T17Rebuild T17View.
Open Scope N_scope.

(* the index a rebuild produces: one live row per member, archive order, cleaned relative names, tape positions *)
Theorem T17_rebuild : forall c st t, plain c -> wf_style st -> wf t ->
  exists p, rebuild c (archive_of st t) = (p, Ok tt) /\ rows p = archive_rows c st t /\ root p = [].
Proof. exact T17_rebuild_rows. Qed.

(* any state whose index holds the archive's rows with the root read (after Open + Initialize: [opened]) *)
Definition is_open (c : cfg) (st : style) (t : tree) (s : sys) : Prop :=
  Opened c st t (db s) /\ tp s = archive_of st t.

Lemma opened_is_open c st t : plain c -> wf_style st -> wf t -> is_open c st t (opened c (archive_of st t)).
Proof. intros HP Hs Hw. split; [apply opened_Opened; assumption|reflexivity]. Qed.

(* for "./" and "/" the rebuilt index alone (root not yet read) is already such a state *)
Lemma rebuilt_is_open c st t hb enc clk : plain c -> wf_style st -> wf t -> style_root st = [] ->
  is_open c st t {| tp := archive_of st t; db := fst (rebuild c (archive_of st t)); hbq := hb; encq := enc; clk := clk |}.
Proof.
  intros HP Hs Hw E. destruct (T17_rebuild_rows c st t HP Hs Hw) as (p & Hreb & Hrows & Hroot).
  split; [|reflexivity]. cbn [db]. rewrite Hreb. cbn [fst]. split; [exact Hrows|]. rewrite Hroot, E. reflexivity.
Qed.

Theorem T17_foreign_view : forall c st t, plain c -> 0 < c_rs c -> wf_style st -> wf t ->
  (depth_forest (t_kids t) <= 16)%nat ->
  let s := opened c (archive_of st t) in
  snd (rebuild c (archive_of st t)) = Ok tt /\
  view_at c s (view_base st) = expected_entries st t.
Proof.
  intros c st t HP Hrs Hs Hw Hd s. split; [apply rebuild_ok; assumption|].
  apply (view_res c st t Hrs Hs Hw (db s) (opened_Opened c st t HP Hs Hw) s eq_refl eq_refl Hd).
Qed.

(* styles "./" and "/": Fs.view itself, paths "/" ++ d/f *)
Corollary T17_foreign_view_dotslash : forall c t, plain c -> 0 < c_rs c -> wf t -> (depth_forest (t_kids t) <= 16)%nat ->
  view c (opened c (archive_of DotSlash t)) = expected_entries DotSlash t.
Proof. intros c t HP Hrs Hw Hd. apply (T17_foreign_view c DotSlash t HP Hrs I Hw Hd). Qed.

Corollary T17_foreign_view_slash : forall c t, plain c -> 0 < c_rs c -> wf t -> (depth_forest (t_kids t) <= 16)%nat ->
  view c (opened c (archive_of Slash t)) = expected_entries Slash t.
Proof. intros c t HP Hrs Hw Hd. apply (T17_foreign_view c Slash t HP Hrs I Hw Hd). Qed.

(* the same from any open state (e.g. the rebuilt index before the root is read, whatever the oracle queues) *)
Theorem T17_foreign_view_open : forall c st t s, 0 < c_rs c -> wf_style st -> wf t -> is_open c st t s ->
  (depth_forest (t_kids t) <= 16)%nat -> view_at c s (view_base st) = expected_entries st t.
Proof. intros c st t s Hrs Hs Hw [Ho Ht] Hd. exact (view_res c st t Hrs Hs Hw (db s) Ho s eq_refl Ht Hd). Qed.

(* "every member is listed under its directory": Readdir of the directory at q = its members, in archive order *)
Theorem T17_listing : forall c st t s q ks, wf_style st -> wf t -> is_open c st t s ->
  lookup q (t_kids t) = Some ks ->
  snd (inv_list (db s) (shown_path st q) None) = Ok (map (fun k => shdr st (item_of q k)) ks).
Proof. intros c st t s q ks Hs Hw [Ho _] Hl. exact (listing_opened c st t Hs Hw (db s) Ho q ks Hl). Qed.

(* the walk below any directory, with any fuel that covers the levels below it (no global depth bound) *)
Theorem T17_walk_any_depth : forall c st t s f q ks, 0 < c_rs c -> wf_style st -> wf t -> is_open c st t s ->
  lookup q (t_kids t) = Some ks -> (depth_forest ks <= f)%nat ->
  walk f c s (shown_path st q) = map (expected_entry st) (flatten_forest q ks).
Proof. intros c st t s f q ks Hrs Hs Hw [Ho Ht] Hl Hd. exact (walk_res c st t Hrs Hs Hw (db s) Ho s eq_refl Ht f q ks Hl Hd). Qed.

(* Stat of every member under its shown path; the content of every regular member *)
Theorem T17_stat : forall c st t s i, wf_style st -> wf t -> is_open c st t s -> In i (items t) ->
  snd (stat_s s (shown_path st (i_path i)) false) = Ok (shdr st i).
Proof.
  intros c st t s i Hs Hw [Ho _] Hi. destruct (L_in t i Hi) as (a & Ha).
  destruct (stat_res c st t Hs Hw (db s) Ho (shown_path st (i_path i)) (a, i) Ha) as (p' & E & _).
  - apply (res_shown c st t Hs Hw (db s) Ho). apply (items_okc t i Hw Hi).
  - unfold stat_s. rewrite E. reflexivity.
Qed.

Theorem T17_read : forall c st t s i, 0 < c_rs c -> wf_style st -> wf t -> is_open c st t s -> In i (items t) ->
  i_dir i = false ->
  snd (read_path c s (h_name (shdr st i))) = Ok (i_data i).
Proof.
  intros c st t s i Hrs Hs Hw [Ho Ht] Hi Hd. destruct (L_in t i Hi) as (a & Ha).
  exact (read_res c st t Hrs Hs Hw (db s) Ho s eq_refl Ht (a, i) Ha Hd).
Qed.

(* every member of the tree appears in the walk with its size and content *)
Corollary T17_member_shown : forall c st t i, plain c -> 0 < c_rs c -> wf_style st -> wf t ->
  (depth_forest (t_kids t) <= 16)%nat -> In i (items t) ->
  In (expected_entry st i) (view_at c (opened c (archive_of st t)) (view_base st)).
Proof.
  intros c st t i HP Hrs Hs Hw Hd Hi. destruct (T17_foreign_view c st t HP Hrs Hs Hw Hd) as [_ E]. cbv zeta in E.
  rewrite E. apply in_map. exact Hi.
Qed.

Print Assumptions T17_foreign_view.
Print Assumptions T17_listing.
Print Assumptions T17_read.
