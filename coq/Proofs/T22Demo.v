(* T22 / non-vacuity: a history that interleaves filesystem-level calls with operation-level calls and satisfies the hypotheses
   of the T22 theorems ([T22Test.hist1]):
     Initialize; Mkdir /x; ARCHIVE [dir /a; file /a/f (700 bytes, encoded to 650); empty file /a/g] (header blocks 3, 1, 2);
     UPDATE [/a/f] replace (new content); Chmod /a/g; MOVE /a -> /b (directory with two children); DELETE /b/g; CreateFile /b/h;
     UPDATE [/b/f; /b; /] metadata only; ARCHIVE [] and UPDATE [] (empty batches); ARCHIVE [/b/f (existing: upsert); /b/g (deleted:
     revived); / (the root itself)]; MOVE /b/h -> /b/f (onto an existing entry); Mkdir /b/c; MOVE /b -> /b/c/d (below itself);
     DELETE /nope and MOVE /nope (refused); MOVE /x -> /x; ARCHIVE [/orphan/deep/file twice] (no parent, duplicate names);
     DELETE /b/c/d (directory with children); Reopen; MkdirAll /b/c/d/e.
   The hypotheses are checked by evaluation, the conclusions are obtained FROM THE THEOREMS and, independently, by evaluation
   ([rows_norm_ok] after every call). *)
From Coq Require Import String List NArith ZArith Bool.
Import ListNotations.
From STFS Require C01Counter.
From STFS Require Import Str Db Tape Index Ops Fs Diff Prefix Replay Norm C01Fs2 C01Rows T22Def T22Test T22Hist.
Open Scope string_scope.
Open Scope N_scope.

Definition demo_rest : list (call * env) := tl hist1.

Example T22_demo_shape : hist1 = (CInitialize [slash], e0 1) :: demo_rest.
Proof. reflexivity. Qed.

(* the hypotheses *)
Example T22_demo_hyps :
  forallb hb_ok hist1 = true /\ ok_hist cf init_sys hist1 = true /\ ok_hist cfx init_sys hist1 = true /\
  (* the history really mixes the two levels, and is outside the filesystem-only theorems *)
  length (filter (fun ke => op_call (fst ke)) hist1) = 15%nat /\
  length (filter (fun ke => fs_call (fst ke)) hist1) = 7%nat /\
  forallb (fun ke => fs_call (fst ke)) demo_rest = false.
Proof. vm_compute. repeat split; reflexivity. Qed.

(* tape items written (members + trailer): the batched Archive has three members, the Move of the directory three, the recursive Delete four *)
Example T22_demo_batches :
  map (fun ke => length (tp (final cf init_sys (firstn (S (fst ke)) hist1))) - length (tp (final cf init_sys (firstn (fst ke) hist1))))%nat
      [(2, tt); (5, tt); (19, tt)]%nat = [4; 4; 5]%nat.
Proof. vm_compute. reflexivity. Qed.

(* the conclusion by evaluation, after every call *)
Example T22_demo_rows_eval :
  rows_norm_ok cf (final cf init_sys hist1) = true /\ rows_norm_all cf init_sys hist1 = true /\
  rows_norm_ok cfx (final cfx init_sys hist1) = true /\ rows_norm_all cfx init_sys hist1 = true /\
  length (rows (db (final cf init_sys hist1))) = 10%nat.
Proof. vm_compute. repeat split; reflexivity. Qed.

(* the conclusions from the theorems *)
Example T22_demo_rows : C01Counter.concl cf hist1.
Proof. apply (T22_rows_norm cf (e0 1) demo_rest); vm_compute; reflexivity. Qed.

Example T22_demo_rows_codec : C01Counter.concl cfx hist1.
Proof. apply (T22_rows_norm_any_config cfx (e0 1) demo_rest); vm_compute; reflexivity. Qed.

Example T22_demo_replay : forall j,
  let t := tp (final cf init_sys hist1) in
  let '(p, rr) := replay_into cf t (prefix_index cf t j) in
  res_ok rr = true /\ eqb_list eqb_row (visible p) (visible (fst (rebuild cf t))) = true.
Proof. intro j. apply (T22_replay_converges cf (e0 1) demo_rest j); vm_compute; reflexivity. Qed.

Example T22_demo_replay_codec : forall j,
  let t := tp (final cfx init_sys hist1) in
  let '(p, rr) := replay_into cfx t (prefix_index cfx t j) in
  res_ok rr = true /\ eqb_list eqb_row (visible p) (visible (fst (rebuild cfx t))) = true.
Proof. intro j. apply (T22_replay_converges_any_config cfx (e0 1) demo_rest j); vm_compute; reflexivity. Qed.

(* and, exhaustively over j, by evaluation (with the second replay) *)
Example T22_demo_replay_eval : replay_all cf hist1 = true /\ (30 <= length (all_members (tp (final cf init_sys hist1))))%nat.
Proof. vm_compute. split; [reflexivity|]. repeat constructor. Qed.
