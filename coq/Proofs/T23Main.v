(* T23 / Main: ARBITRARY further filesystem calls on a foreign archive written below a NAMED top directory.
   [Sim top c sa sr]: the writer twin [sa] satisfies the C01 invariant (root row live and first), the two instances are
   related by [R top] (Proofs/T23Rel.v: same rows up to the renaming psi "/d/f" -> "top/d/f", same tape positions and
   contents, cached roots "/" and "top"), and the named instance's own tape rebuilds to exactly the rows of its index.
   - T23_step_sim : every filesystem-level call with a cleaned absolute name (root never removed or renamed onto) returns
     on the named instance - called with the psi-image "top/..." - the outcome it returns on the twin, and keeps [Sim];
   - T23_view_sim : related instances show the same entries, the named one walked from its stored root "top", the twin
     from "/", paths renamed, contents included (any configuration);
   - T23_named_sim : the instance opened over the archive  top/ top/d/ top/d/f ...  and the twin of the tree (the twin
     of T20 for either stored-root-"" style) are in [Sim];
   - T23_run_sim, T23_named_continuation : histories; T23_named_vs_foreign: the same against the instance opened over
     the "./" or "/" archive of the same tree (through T20); T23_named_reference: against the T02 reference semantics.
   Plain configuration (c_csuf = c_esuf = []) for the calls. *)
From Coq Require Import List NArith ZArith Bool Lia.
From Coq Require Import ZifyN ZifyBool.
Import ListNotations.
From STFS Require T19Rel T19Main T20Main T20Abs T20Good T02Ns T02Spec.
From STFS Require Import Str Db Tape Index Ops Fs Diff Norm StrLemmas C01Str C01Db C01Inv C01Sim C01Tape C01Hdr C01Ops C01Ops2
  C01Reads C01Fs C01Fs2 C01Rows T05Sync T05Open T13Path T13ListStr T17Tree T17Str T17Forest T17Rebuild T17View T20Twin T20Rebuild T20Inv
  T23Rel T23Base T23Db T23Index T23Append T23Ops T23Reads T23Fs T23File.
Open Scope N_scope.
Set Default Proof Using "All".

(* the states after each call of a history *)
Fixpoint states (c : cfg) (s : sys) (h : list (call * env)) : list sys :=
  match h with
  | [] => []
  | (k, e) :: r => let s' := fst (step c (with_env s e) k) in s' :: states c s' r
  end.

(* the names of the filesystem-level calls are cleaned (with [fs_call]: cleaned absolute names, "/d/f") *)
Definition cleanb (n : str) : bool := eqb_str (path_clean n) n.
Definition clean_call (k : call) : bool :=
  match k with
  | CMkdir n _ | CMkdirAll n _ | CRemove n | CRemoveAll n | CChmod n _ | CChown n _ _ | CChtimes n _ _
  | CCreateFile n _ | CWriteFile n _ _ _ _ => cleanb n
  | CRename a b => cleanb a && cleanb b
  | _ => true
  end.

Lemma good_of_clean n : is_abs n = true -> cleanb n = true -> good n.
Proof. intros Ha Hc. apply eqb_str_eq in Hc. rewrite <- Hc. apply path_clean_abs_good. exact Ha. Qed.

Lemma clean_of_good n : good n -> is_abs n = true /\ cleanb n = true.
Proof. intro G. split; [apply good_abs; exact G|]. unfold cleanb. rewrite (path_clean_good n G). apply eqb_str_refl. Qed.

Section Top.
Variable top : str.
Hypothesis Htop : okc top.

Definition Sim (c : cfg) (sa sr : sys) : Prop := Inv true c sa /\ R top sa sr /\ REB c sr.

Lemma Sim_PR c sa sr : Sim c sa sr -> PR top top (db sa) (db sr).
Proof. intros (HI & HR & _). split; [exact (iv_li _ _ _ HI)|exact (R_db _ _ _ HR)]. Qed.

(* ---------- the visible tree (any configuration) *)
Theorem T23_view_sim : forall c sa sr, LI true (db sa) -> R top sa sr ->
  view_at c sr top = map (ren_entry top) (view c sa).
Proof. intros c sa sr HL [Ht Hd]. apply (T23Reads.view_sim top Htop c); [split; assumption|exact Ht]. Qed.

Corollary T23_view_sim' : forall c sa sr, Sim c sa sr -> view_at c sr top = map (ren_entry top) (view c sa).
Proof. intros c sa sr (HI & HR & _). apply T23_view_sim; [exact (iv_li _ _ _ HI)|exact HR]. Qed.

(* the abstract namespaces (T02Ns.abs: live rows as name -> attributes): the same nodes under the renamed names *)
Lemma node_of_rel a r : rowrel top a r -> T02Ns.node_of r = T02Ns.node_of a.
Proof.
  intros []. unfold T02Ns.node_of. rewrite rr_tf, rr_size, rr_mode, rr_uid, rr_gid, rr_uname, rr_gname, rr_mtime, rr_atime, rr_ctime, rr_rec, rr_blk.
  reflexivity.
Qed.

Theorem T23_abs_rel : forall sa sr, R top sa sr -> T02Ns.abs sr = map (fun e => (psi top (fst e), snd e)) (T02Ns.abs sa).
Proof.
  intros sa sr [_ [Hrows _ _]]. unfold T02Ns.abs, T02Ns.absp. rewrite map_map. cbn [fst snd].
  induction Hrows as [|a r la lr Har _ IH]; [reflexivity|]. cbn [filter]. rewrite (T23Base.rowrel_live top Htop a r Har).
  destruct (live a); [|exact IH]. cbn [map]. rewrite IH, (node_of_rel a r Har), (rr_name _ _ _ Har). reflexivity.
Qed.

(* Reopen on the named side: the row with the fewest slashes is the root row "top" *)
Lemma p_open_rd pa pr : PR top top pa pr -> rows (p_open (rows pr)) = rows pr /\ root (p_open (rows pr)) = top.
Proof.
  intro H. pose proof (PR_li _ _ _ _ H) as [_ _ [_ _ Hh]]. destruct (Hh eq_refl) as (a0 & ta & E & N & D).
  pose proof (pr_rows _ _ _ _ (PR_rel _ _ _ _ H)) as HR. unfold rows_rel in HR. rewrite E in HR.
  inversion HR as [|? r0 ? tr H0 Ht E1 E2]; subst.
  assert (Nr : r_name r0 = top) by (rewrite (rr_name _ _ _ H0), N; reflexivity).
  assert (Dr : live r0 = true) by (unfold live; rewrite (rr_del _ _ _ H0), D; reflexivity).
  unfold p_open, get_root_path. cbn [root rows filter]. rewrite Dr. cbn [min_depth_row].
  rewrite min_depth_first by (rewrite Nr; apply sc_noslash; apply okc_ns; exact Htop).
  cbn [fst rows root]. split; [reflexivity|exact Nr].
Qed.

Section Step.
Variable c : cfg.
Hypothesis HP : plain c.
Hypothesis Hrs : 0 < c_rs c.
Hypothesis Hro : c_readonly c = false.

Notation GoodE := (GoodE top c).
Notation SIM := (T23Fs.SIM top c).

Lemma GoodE_env sa sr e : Sim c sa sr -> forallb (fun x => 0 <? x) (ev_hb e) = true -> GoodE (with_env sa e) (with_env sr e).
Proof.
  intros (HI & [Ht Hd] & Hq) Hb. split.
  - eapply Inv_ext; [| |exact HI]; reflexivity.
  - unfold hbok, with_env. cbn [hbq]. apply Forall_forall. intros x Hx. rewrite forallb_forall in Hb. specialize (Hb x Hx). lia.
  - split; assumption.
  - repeat split.
  - exact Hq.
Qed.

Lemma GoodE_Sim sa sr : GoodE sa sr -> Sim c sa sr /\ envq sa sr.
Proof. intros [A B C D E]. split; [split; [exact A|split; assumption]|exact D]. Qed.

Lemma patch_props : (forall m h, h_name (patch_mode m h) = h_name h /\ h_link (patch_mode m h) = h_link h /\ h_pax (patch_mode m h) = h_pax h) /\
  (forall u g h, h_name (patch_owner u g h) = h_name h /\ h_link (patch_owner u g h) = h_link h /\ h_pax (patch_owner u g h) = h_pax h) /\
  (forall a m h, h_name (patch_times a m h) = h_name h /\ h_link (patch_times a m h) = h_link h /\ h_pax (patch_times a m h) = h_pax h).
Proof. repeat split. Qed.

Lemma step_SIM sa sr k : GoodE sa sr -> fs_call k = true -> call_ok k = true -> clean_call k = true ->
  SIM (step c sa k) (step c sr (ren_call top k)).
Proof.
  intros HG Hk Hok Hcl. unfold call_ok in Hok. apply andb_true_iff in Hok as [Hren Hkept].
  destruct patch_props as (P1 & P2 & P3). pose proof (T23Ops.GoodE_PR top Htop c _ _ HG) as HQ.
  destruct k; cbn [fs_call] in Hk; try discriminate; cbn [clean_call] in Hcl; cbn [step ren_call].
  - apply (T23Fs.fs_mkdir_sim top Htop c HP Hrs Hro); [exact HG|apply good_of_clean; assumption].
  - apply (T23Fs.fs_mkdirall_sim top Htop c HP Hrs Hro); [exact HG|apply good_of_clean; assumption].
  - pose proof (good_of_clean n Hk Hcl) as G. cbn [root_kept] in Hkept. rewrite (path_clean_good n G) in Hkept.
    apply negb_true_iff in Hkept. apply eqb_str_neq in Hkept. apply (T23Fs.fs_remove_sim top Htop c HP Hrs Hro); assumption.
  - pose proof (good_of_clean n Hk Hcl) as G. cbn [root_kept] in Hkept. rewrite (path_clean_good n G) in Hkept.
    apply negb_true_iff in Hkept. apply eqb_str_neq in Hkept. apply (T23Fs.fs_removeall_sim top Htop c HP Hrs Hro); assumption.
  - apply andb_true_iff in Hk as [Ha Hb]. apply andb_true_iff in Hcl as [Ca Cb].
    pose proof (good_of_clean a Ha Ca) as Ga. pose proof (good_of_clean b Hb Cb) as Gb.
    cbn [rename_ok] in Hren. rewrite (path_clean_good b Gb) in Hren. apply negb_true_iff in Hren. apply eqb_str_neq in Hren.
    apply (T23Fs.fs_rename_sim top Htop c HP Hrs Hro); assumption.
  - apply (T23Fs.fs_update_meta_sim top Htop c HP Hrs Hro); try assumption; [apply good_of_clean; assumption|apply P1|intros; apply (T23Base.hrel_patch_mode top Htop); assumption].
  - apply (T23Fs.fs_update_meta_sim top Htop c HP Hrs Hro); try assumption; [apply good_of_clean; assumption|apply P2|intros; apply (T23Base.hrel_patch_owner top Htop); assumption].
  - apply (T23Fs.fs_update_meta_sim top Htop c HP Hrs Hro); try assumption; [apply good_of_clean; assumption|apply P3|intros; apply (T23Base.hrel_patch_times top Htop); assumption].
  - apply (T23File.open_then_write_sim top Htop c HP Hrs Hro). apply (T23File.fs_create_sim top Htop c HP Hrs Hro); [exact HG|apply good_of_clean; assumption].
  - apply (T23File.open_then_write_sim top Htop c HP Hrs Hro). apply (T23File.fs_openfile_sim top Htop c HP Hrs Hro); [exact HG|apply good_of_clean; assumption].
  - (* Initialize: both instances know a root *)
    unfold fs_initialize. rewrite (get_root_path_lv true (db sa) (PR_li _ _ _ _ HQ)).
    rewrite (T23Fs.get_root_path_rd top Htop c HP Hrs Hro (db sr) (pr_root_r _ _ _ _ (PR_rel _ _ _ _ HQ))). rewrite !set_db_same.
    split; [reflexivity|exact HG].
  - (* Reopen *)
    rewrite (p_open_lv (db sa) (PR_li _ _ _ _ HQ)), set_db_same.
    split; [reflexivity|]. cbn [fst]. destruct (p_open_rd _ _ HQ) as (E1 & E2). destruct HG as [A B [C D] E F].
    split; [exact A|exact B| |exact E|].
    + split; [exact C|]. cbn [db set_db]. split; [rewrite E1; exact (pr_rows _ _ _ _ D)|exact (pr_root_a _ _ _ _ D)|exact E2].
    + destruct F as (qr & F1 & F2 & F3). exists qr. cbn [tp db set_db]. rewrite E1. split; [exact F1|split; [exact F2|exact F3]].
  - split; [reflexivity|exact HG].
Qed.

Theorem T23_step_sim : forall sa sr k e, Sim c sa sr ->
  fs_call k = true -> call_ok k = true -> clean_call k = true -> hb_ok (k, e) = true ->
  snd (step c (with_env sr e) (ren_call top k)) = snd (step c (with_env sa e) k) /\
  Sim c (fst (step c (with_env sa e) k)) (fst (step c (with_env sr e) (ren_call top k))) /\
  envq (fst (step c (with_env sa e) k)) (fst (step c (with_env sr e) (ren_call top k))).
Proof.
  intros sa sr k e HS Hk Hok Hcl Hb. destruct (step_SIM _ _ k (GoodE_env sa sr e HS Hb) Hk Hok Hcl) as [E HG].
  split; [exact E|]. apply GoodE_Sim. exact HG.
Qed.

(* ---------- histories *)
Theorem T23_run_sim : forall h sa sr, Sim c sa sr ->
  forallb (fun ke => fs_call (fst ke)) h = true -> forallb (fun ke => call_ok (fst ke)) h = true ->
  forallb (fun ke => clean_call (fst ke)) h = true -> forallb hb_ok h = true ->
  map ob_out (run c sr (ren_hist top h)) = map ob_out (run c sa h) /\
  map ob_blocks (run c sr (ren_hist top h)) = map ob_blocks (run c sa h) /\
  Forall2 (Sim c) (states c sa h) (states c sr (ren_hist top h)) /\
  Sim c (final c sa h) (final c sr (ren_hist top h)).
Proof.
  induction h as [|[k e] h IH]; intros sa sr HS H1 H2 H3 H4; cbn [run final states ren_hist map fst snd]; [split; [reflexivity|split; [reflexivity|split; [constructor|exact HS]]]|].
  cbn [forallb fst] in H1, H2, H3, H4. apply andb_true_iff in H1 as [K1 H1]. apply andb_true_iff in H2 as [K2 H2].
  apply andb_true_iff in H3 as [K3 H3]. apply andb_true_iff in H4 as [K4 H4].
  destruct (T23_step_sim sa sr k e HS K1 K2 K3 K4) as (Eo & HS' & _).
  destruct (step c (with_env sa e) k) as [sa' oa]. destruct (step c (with_env sr e) (ren_call top k)) as [sr' or_]. cbn [fst snd] in *. subst or_.
  destruct (IH sa' sr' HS' H1 H2 H3 H4) as (I1 & I2 & I3 & I4). fold (ren_hist top h).
  cbn [map ob_out ob_blocks observe]. rewrite I1, I2. split; [reflexivity|]. split.
  - f_equal. apply tape_rel_blocks. exact (R_tp _ _ _ (proj1 (proj2 HS'))).
  - split; [constructor; assumption|exact I4].
Qed.
End Step.

(* ---------- the initial pair: the twin of the tree and the instance opened over the archive below "top" *)
Section Init.
Variables (c : cfg) (st : style) (t : tree).
Hypothesis HP : plain c.
Hypothesis Hrs : 0 < c_rs c.
Hypothesis Hs : wf_style st.
Hypothesis Hsr : style_root st = [].
Hypothesis Hwf : wf t.

Lemma stored_plain q : stored_name st q = join_slash q.
Proof. destruct st; try reflexivity. cbn in Hsr. destruct Hs as (K & _). contradiction. Qed.

Lemma srow_rel x : Forall okc (i_path (snd x)) -> rowrel top (abs_row (srow st (c_rs c) x)) (srow (Named top) (c_rs c) x).
Proof.
  intro Hok. constructor; try reflexivity; [|constructor].
  cbn [abs_row set_name r_name]. change (r_name (srow st (c_rs c) x)) with (stored_name st (i_path (snd x))).
  change (r_name (srow (Named top) (c_rs c) x)) with (join_slash (top :: i_path (snd x))).
  rewrite stored_plain. symmetry. apply (T23Base.psi_pth top Htop). exact Hok.
Qed.

Lemma named_rows_rel : rows_rel top (twin_rows c st t) (archive_rows c (Named top) t).
Proof.
  unfold twin_rows, archive_rows. rewrite map_map.
  assert (H : forall x, In x (istarts 0 (items t)) -> Forall okc (i_path (snd x))).
  { intros x Hx. apply (items_okc t (snd x) Hwf). rewrite <- (istarts_snd (items t) 0). apply in_map. exact Hx. }
  induction (istarts 0 (items t)) as [|x l IH]; cbn [map]; constructor.
  - apply srow_rel. apply H. left. reflexivity.
  - apply IH. intros y Hy. apply H. right. exact Hy.
Qed.

Lemma named_tape_rel : tape_rel (twin_tape st t) (archive_of (Named top) t).
Proof.
  unfold twin_tape, archive_of. apply Forall2_app; [|constructor; [constructor|constructor]].
  induction (items t) as [|i l IH]; cbn [map]; constructor; [constructor; reflexivity|exact IH].
Qed.

Theorem T23_named_sim : Sim c (twin c st t) (opened c (archive_of (Named top) t)).
Proof.
  destruct (opened_Opened c (Named top) t HP Htop Hwf) as (Hrows & Hroot).
  split; [apply T20_twin_Inv; assumption|]. split.
  - split; [exact named_tape_rel|]. split; [rewrite Hrows; exact named_rows_rel|reflexivity|exact Hroot].
  - destruct (T17_rebuild_rows c (Named top) t HP Htop Hwf) as (p & Hreb & Hprows & Hproot).
    exists p. split; [exact Hreb|]. split; [rewrite Hprows, Hrows; reflexivity|exact Hproot].
Qed.
End Init.
(* ---------- reading the root of a rebuilt index of the named instance: the row with the fewest slashes is "top" *)
Lemma get_root_path_rebuilt pa pr q : PR top top pa pr -> rows q = rows pr -> root q = [] ->
  get_root_path q = ({| rows := rows q; root := top; root_empty := root_empty q |}, Some top).
Proof.
  intros H Eq Hr. pose proof (PR_li _ _ _ _ H) as [_ _ [_ _ Hh]]. destruct (Hh eq_refl) as (a0 & ta & E & N & D).
  pose proof (pr_rows _ _ _ _ (PR_rel _ _ _ _ H)) as HR. unfold rows_rel in HR. rewrite E in HR.
  inversion HR as [|? r0 ? tr H0 Ht E1 E2]; subst.
  assert (Nr : r_name r0 = top) by (rewrite (rr_name _ _ _ H0), N; reflexivity).
  assert (Dr : live r0 = true) by (unfold live; rewrite (rr_del _ _ _ H0), D; reflexivity).
  unfold get_root_path. rewrite Hr, Eq, <- E2. cbn [filter]. rewrite Dr. cbn [min_depth_row].
  rewrite min_depth_first by (rewrite Nr; apply sc_noslash; apply okc_ns; exact Htop).
  rewrite Nr. reflexivity.
Qed.

(* what was written through the named instance survives a rebuild: opening ITS tape again without an index succeeds,
   appends nothing and gives an instance that is again in [Sim] with the twin (hence shows the same tree) *)
Theorem T23_reopen_rebuilt : forall c sa sr rootp q1 q2 k, Sim c sa sr ->
  let s0 := {| tp := tp sr; db := p_empty; hbq := q1; encq := q2; clk := k |} in
  snd (fs_initialize c s0 rootp) = OOk /\ tp (fst (fs_initialize c s0 rootp)) = tp sr /\
  Sim c sa (fst (fs_initialize c s0 rootp)) /\
  view_at c (fst (fs_initialize c s0 rootp)) top = view_at c sr top.
Proof.
  intros c sa sr rootp q1 q2 k HS0 s0. pose proof HS0 as (HI & HR & (qr & Eq & Hrw & Hroot)).
  assert (Ht : tp sr <> []).
  { destruct (iv_sync _ _ _ HI) as (pre & m & Et & _). intro K. pose proof (R_tp _ _ _ HR) as T. rewrite K, Et in T.
    apply F2_length in T. rewrite app_length in T. cbn in T. lia. }
  rewrite (T05_initialize_over_rebuildable_tape c s0 rootp qr Ht Eq).
  change (get_root_path (db s0)) with (p_empty, @None str). cbn [snd fst].
  rewrite (get_root_path_rebuilt (db sa) (db sr) qr (Sim_PR _ _ _ HS0) Hrw Hroot). cbn [fst snd tp db set_db].
  split; [reflexivity|]. split; [reflexivity|].
  assert (HS : Sim c sa {| tp := tp sr; db := {| rows := rows qr; root := top; root_empty := root_empty qr |}; hbq := q1; encq := q2; clk := k |}).
  { split; [exact HI|]. split.
    - split; [exact (R_tp _ _ _ HR)|]. cbn [db]. split; [cbn [rows]; rewrite Hrw; exact (pr_rows _ _ _ _ (R_db _ _ _ HR))|exact (pr_root_a _ _ _ _ (R_db _ _ _ HR))|reflexivity].
    - exists qr. cbn [tp db rows]. split; [exact Eq|split; [reflexivity|exact Hroot]]. }
  split; [exact HS|]. etransitivity; [apply (T23_view_sim' c sa); exact HS|]. symmetry. apply T23_view_sim'. exact HS0.
Qed.
End Top.


(* ---------- the calls the named instance receives: names "top" or "top/q" (q a cleaned relative path) *)
Definition unpsi (top n : str) : str := if eqb_str n top then [slash] else skipn (length top) n.
Definition named_name (top n : str) : bool :=
  let g := unpsi top n in is_abs g && cleanb g && eqb_str (psi top g) n.

Definition unren_call (top : str) (k : call) : call :=
  match k with
  | CMkdir n p => CMkdir (unpsi top n) p
  | CMkdirAll n p => CMkdirAll (unpsi top n) p
  | CRemove n => CRemove (unpsi top n)
  | CRemoveAll n => CRemoveAll (unpsi top n)
  | CRename a b => CRename (unpsi top a) (unpsi top b)
  | CChmod n m => CChmod (unpsi top n) m
  | CChown n u g => CChown (unpsi top n) u g
  | CChtimes n a m => CChtimes (unpsi top n) a m
  | CCreateFile n d => CCreateFile (unpsi top n) d
  | CWriteFile n o p d f => CWriteFile (unpsi top n) o p d f
  | k => k
  end.
Definition unren_hist (top : str) (h : list (call * env)) : list (call * env) := map (fun ke => (unren_call top (fst ke), snd ke)) h.

Definition named_call (top : str) (k : call) : bool :=
  match k with
  | CMkdir n _ | CMkdirAll n _ | CRemove n | CRemoveAll n | CChmod n _ | CChown n _ _ | CChtimes n _ _
  | CCreateFile n _ | CWriteFile n _ _ _ _ => named_name top n
  | CRename a b => named_name top a && named_name top b
  | CInitialize r => eqb_str r [slash]
  | CReopen | CNop => true
  | _ => false
  end.
(* the root "top" is never removed or renamed onto *)
Definition named_call_ok (top : str) (k : call) : bool := call_ok (unren_call top k).

Lemma named_name_spec top n : named_name top n = true -> is_abs (unpsi top n) = true /\ cleanb (unpsi top n) = true /\ psi top (unpsi top n) = n.
Proof.
  unfold named_name. intro H. apply andb_true_iff in H as [H H3]. apply andb_true_iff in H as [H1 H2].
  apply eqb_str_eq in H3. repeat split; assumption.
Qed.

(* every name "top" / "top/q" with q of okc components is such a name *)
Lemma named_name_join top q : okc top -> Forall okc q -> named_name top (join_slash (top :: q)) = true.
Proof.
  intros Htop Hq. assert (E : unpsi top (join_slash (top :: q)) = pth q).
  { unfold unpsi. destruct q as [|a r]; [cbn [join_slash]; rewrite eqb_str_refl; reflexivity|].
    rewrite join_cons by discriminate.
    replace (eqb_str (top ++ slash :: join_slash (a :: r)) top) with false.
    - apply skipn_app_len.
    - symmetry. apply eqb_str_neq. intro K. apply (f_equal (@length N)) in K. rewrite app_length in K. cbn in K. lia. }
  unfold named_name. rewrite E. destruct (clean_of_good (pth q) (good_pth q Hq)) as (A & B). rewrite A, B. cbn [andb].
  apply eqb_str_eq. apply (T23Base.psi_pth top Htop). exact Hq.
Qed.

Lemma named_call_spec top k : named_call top k = true ->
  fs_call (unren_call top k) = true /\ clean_call (unren_call top k) = true /\ ren_call top (unren_call top k) = k.
Proof.
  destruct k; cbn [named_call unren_call fs_call clean_call ren_call]; try discriminate; intro H;
    try (destruct (named_name_spec top n H) as (A & B & C); rewrite A, B, C; repeat split; reflexivity);
    try (repeat split; (exact H || reflexivity)).
  apply andb_true_iff in H as [Ha Hb]. destruct (named_name_spec top a Ha) as (A1 & B1 & C1). destruct (named_name_spec top b Hb) as (A2 & B2 & C2).
  rewrite A1, B1, C1, A2, B2, C2. repeat split; reflexivity.
Qed.

Lemma named_hist_spec top h : forallb (fun ke => named_call top (fst ke)) h = true ->
  forallb (fun ke => fs_call (fst ke)) (unren_hist top h) = true /\
  forallb (fun ke => clean_call (fst ke)) (unren_hist top h) = true /\
  ren_hist top (unren_hist top h) = h.
Proof.
  induction h as [|[k e] h IH]; cbn [forallb unren_hist ren_hist map fst snd]; intro H; [repeat split|].
  apply andb_true_iff in H as [H1 H2]. destruct (named_call_spec top k H1) as (A & B & C). destruct (IH H2) as (I1 & I2 & I3).
  fold (unren_hist top h). fold (ren_hist top (unren_hist top h)). rewrite A, B, C, I1, I2, I3. repeat split.
Qed.

Lemma unren_hb top h : forallb hb_ok (unren_hist top h) = forallb hb_ok h.
Proof. induction h as [|[k e] h IH]; [reflexivity|]. cbn [unren_hist map forallb]. fold (unren_hist top h). rewrite IH. reflexivity. Qed.

(* ===================================================================================================
   The continuation theorem.  [h] is the history as the TWIN receives it (cleaned absolute names "/d/f"), the named
   instance receives [ren_hist top h] (names "top/d/f"); T23_named_continuation below starts from the latter. *)
Theorem T23_named_continuation_twin : forall c top st t h, plain c -> 0 < c_rs c -> c_readonly c = false ->
  okc top -> wf_style st -> style_root st = [] -> wf t ->
  forallb (fun ke => fs_call (fst ke)) h = true -> forallb (fun ke => call_ok (fst ke)) h = true ->
  forallb (fun ke => clean_call (fst ke)) h = true -> forallb hb_ok h = true ->
  let sr := opened c (archive_of (Named top) t) in
  let sa := twin c st t in
  let hr := ren_hist top h in
  let sr' := final c sr hr in
  let sa' := final c sa h in
  (* every call answers as on the twin; the tape lengths agree after every call *)
  map ob_out (run c sr hr) = map ob_out (run c sa h) /\
  map ob_blocks (run c sr hr) = map ob_blocks (run c sa h) /\
  (* after every call the two instances are in [Sim] and show the same entries (walked from "top" / from "/") *)
  Forall2 (fun xa xr => Sim top c xa xr /\ view_at c xr top = map (ren_entry top) (view c xa)) (states c sa h) (states c sr hr) /\
  view_at c sr' top = map (ren_entry top) (view c sa') /\
  (* the invariant of the twin, the simulation: the statement composes with any further history *)
  Inv true c sa' /\ Sim top c sa' sr' /\
  (* survives a rebuild, exactly *)
  (exists p, rebuild c (tp sr') = (p, Ok tt) /\ rows p = rows (db sr') /\ rows_rel top (rows (db sa')) (rows (db sr'))) /\
  (* opening the tape again without an index: success, nothing appended, the same tree *)
  forall rootp q1 q2 k,
    let s2 := {| tp := tp sr'; db := p_empty; hbq := q1; encq := q2; clk := k |} in
    snd (fs_initialize c s2 rootp) = OOk /\ tp (fst (fs_initialize c s2 rootp)) = tp sr' /\
    view_at c (fst (fs_initialize c s2 rootp)) top = view_at c sr' top.
Proof.
  intros c top st t h HP Hrs Hro Htop Hs Hsr Hwf H1 H2 H3 H4 sr sa hr sr' sa'.
  pose proof (T23_named_sim top Htop c st t HP Hrs Hs Hsr Hwf) as HS. fold sr sa in HS.
  destruct (T23_run_sim top Htop c HP Hrs Hro h sa sr HS H1 H2 H3 H4) as (A & B & C & D). fold hr sr' sa' in A, B, C, D.
  split; [exact A|]. split; [exact B|]. split.
  { fold hr in C. clear -C Htop. induction C as [|xa xr la lr Hx _ IH]; constructor; [|exact IH].
    split; [exact Hx|apply (T23_view_sim' top Htop); exact Hx]. }
  split; [exact (T23_view_sim' top Htop c _ _ D)|]. split; [exact (proj1 D)|]. split; [exact D|]. split.
  { destruct D as (_ & HR & (qr & E1 & E2 & _)). exists qr. split; [exact E1|]. split; [exact E2|exact (pr_rows _ _ _ _ (R_db _ _ _ HR))]. }
  intros rootp q1 q2 k s2. destruct (T23_reopen_rebuilt top Htop c sa' sr' rootp q1 q2 k D) as (X & Y & _ & Z).
  split; [exact X|]. split; [exact Y|exact Z].
Qed.

(* the same, stated from the history the NAMED instance receives: every name is "top" or "top/q" ([named_call]),
   "top" is never removed or renamed onto ([named_call_ok]); the twin runs the correspondingly renamed history *)
Theorem T23_named_continuation : forall c top st t hN, plain c -> 0 < c_rs c -> c_readonly c = false ->
  okc top -> wf_style st -> style_root st = [] -> wf t ->
  forallb (fun ke => named_call top (fst ke)) hN = true -> forallb (fun ke => named_call_ok top (fst ke)) hN = true ->
  forallb hb_ok hN = true ->
  let h := unren_hist top hN in
  let sr := opened c (archive_of (Named top) t) in
  let sa := twin c st t in
  let sr' := final c sr hN in
  let sa' := final c sa h in
  ren_hist top h = hN /\
  forallb (fun ke => fs_call (fst ke)) h = true /\ forallb (fun ke => call_ok (fst ke)) h = true /\ forallb hb_ok h = true /\
  map ob_out (run c sr hN) = map ob_out (run c sa h) /\
  map ob_blocks (run c sr hN) = map ob_blocks (run c sa h) /\
  Forall2 (fun xa xr => Sim top c xa xr /\ view_at c xr top = map (ren_entry top) (view c xa)) (states c sa h) (states c sr hN) /\
  view_at c sr' top = map (ren_entry top) (view c sa') /\
  Inv true c sa' /\ Sim top c sa' sr' /\
  (exists p, rebuild c (tp sr') = (p, Ok tt) /\ rows p = rows (db sr') /\ rows_rel top (rows (db sa')) (rows (db sr'))) /\
  forall rootp q1 q2 k,
    let s2 := {| tp := tp sr'; db := p_empty; hbq := q1; encq := q2; clk := k |} in
    snd (fs_initialize c s2 rootp) = OOk /\ tp (fst (fs_initialize c s2 rootp)) = tp sr' /\
    view_at c (fst (fs_initialize c s2 rootp)) top = view_at c sr' top.
Proof.
  intros c top st t hN HP Hrs Hro Htop Hs Hsr Hwf Hn Hok Hhb h sr sa sr' sa'.
  destruct (named_hist_spec top hN Hn) as (F1 & F2 & F3). fold h in F1, F2, F3.
  assert (F4 : forallb (fun ke => call_ok (fst ke)) h = true).
  { unfold h, unren_hist. rewrite forallb_forall in *. intros x Hx. apply in_map_iff in Hx as ([k e] & <- & Hke). exact (Hok _ Hke). }
  assert (F5 : forallb hb_ok h = true) by (unfold h; rewrite unren_hb; exact Hhb).
  pose proof (T23_named_continuation_twin c top st t h HP Hrs Hro Htop Hs Hsr Hwf F1 F4 F2 F5) as K. cbv zeta in K. rewrite F3 in K.
  split; [exact F3|]. split; [exact F1|]. split; [exact F4|]. split; [exact F5|]. exact K.
Qed.

(* ---------- through T20: the named instance against the instance opened over the "./" or "/" archive of the same tree,
   each on its own spelling of the history *)
Theorem T23_named_vs_foreign : forall c top st t hN, plain c -> 0 < c_rs c -> c_readonly c = false ->
  okc top -> wf_style st -> style_root st = [] -> wf t ->
  forallb (fun ke => named_call top (fst ke)) hN = true -> forallb (fun ke => named_call_ok top (fst ke)) hN = true ->
  forallb hb_ok hN = true ->
  let h := unren_hist top hN in
  let sn := opened c (archive_of (Named top) t) in
  let sf := opened c (archive_of st t) in
  map ob_out (run c sn hN) = map ob_out (run c sf h) /\
  map ob_blocks (run c sn hN) = map ob_blocks (run c sf h) /\
  view_at c (final c sn hN) top = map (ren_entry top) (view c (final c sf h)).
Proof.
  intros c top st t hN HP Hrs Hro Htop Hs Hsr Hwf Hn Hok Hhb h sn sf.
  destruct (T23_named_continuation c top st t hN HP Hrs Hro Htop Hs Hsr Hwf Hn Hok Hhb) as (_ & F1 & F4 & F5 & A & B & _ & V & _).
  fold h sn in F1, F4, F5, A, B, V.
  destruct (T20Main.T20_foreign_continuation c st t h HP Hrs Hro Hs Hsr Hwf F1 F4 F5) as (A' & _ & B' & _ & V' & _). fold sf in A', B', V'.
  split; [rewrite A, A'; reflexivity|]. split; [rewrite B, B'; reflexivity|]. rewrite V, V'. reflexivity.
Qed.

(* ---------- through T20Good: against the T02 reference semantics started from the tree *)
Lemma ok_run_clean c : forall h s, T02Spec.ok_run c s h -> forallb (fun ke => clean_call (fst ke)) h = true.
Proof.
  induction h as [|[k e] h IH]; intros s H; cbn [T02Spec.ok_run forallb fst] in *; [reflexivity|].
  destruct H as (_ & Hp & Hr). rewrite (IH _ Hr), andb_true_r.
  destruct k; cbn [T02Spec.call_pre clean_call] in *; try contradiction;
    try (apply clean_of_good; exact Hp); try (apply clean_of_good; apply Hp).
  destruct Hp as (Ga & Gb & _). rewrite (proj2 (clean_of_good _ Ga)), (proj2 (clean_of_good _ Gb)). reflexivity.
Qed.

Theorem T23_named_reference : forall c top st t h, plain c -> 0 < c_rs c -> c_readonly c = false ->
  okc top -> wf_style st -> style_root st = [] -> wf t -> T20Good.sizes_bounded t ->
  let sn := opened c (archive_of (Named top) t) in
  let sa := twin c st t in
  T02Spec.ok_run c sa h ->                (* every call meets the reference's precondition in the state it is issued in *)
  (* the reference starts from the tree and the twin conforms to it ... *)
  T02Ns.abs sa = T20Abs.namespace_of c t /\
  T02Spec.conforms c sa h /\ T02Spec.Good true c (final c sa h) /\
  (* ... the named instance, called with the names "top/...", returns the same outcomes, shows the same tree from "top",
     and its namespace is the twin's under the renamed names *)
  map ob_out (run c sn (ren_hist top h)) = map ob_out (run c sa h) /\
  view_at c (final c sn (ren_hist top h)) top = map (ren_entry top) (view c (final c sa h)) /\
  T02Ns.abs (final c sn (ren_hist top h)) = map (fun e => (psi top (fst e), snd e)) (T02Ns.abs (final c sa h)).
Proof.
  intros c top st t h HP Hrs Hro Htop Hs Hsr Hwf He sn sa Hok.
  destruct (T20Good.T20_foreign_reference c st t h HP Hrs Hro Hs Hsr Hwf He Hok) as (A & B & C & _). fold sa in A, B, C.
  destruct (T20Good.ok_run_hyps c h sa Hok) as (H1 & H2 & H3). pose proof (ok_run_clean c h sa Hok) as H4.
  destruct (T23_named_continuation_twin c top st t h HP Hrs Hro Htop Hs Hsr Hwf H1 H2 H4 H3) as (D & _ & _ & V & _ & HS & _).
  fold sn sa in D, V, HS.
  split; [exact A|]. split; [exact B|]. split; [exact C|]. split; [exact D|]. split; [exact V|].
  apply (T23_abs_rel top Htop). exact (proj1 (proj2 HS)).
Qed.

Print Assumptions T23_step_sim.
Print Assumptions T23_view_sim.
Print Assumptions T23_named_sim.
Print Assumptions T23_named_continuation_twin.
Print Assumptions T23_named_continuation.
Print Assumptions T23_named_vs_foreign.
Print Assumptions T23_named_reference.
