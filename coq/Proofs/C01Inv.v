(* C01 / invariants of the live index and list-level preservation lemmas. *)
From Coq Require Import List NArith ZArith Bool Lia.
From Coq Require Import ZifyN ZifyBool.
Import ListNotations.
From STFS Require Import Str Db Tape Index Norm C01Str C01Db.
Open Scope N_scope.

Definition usize_ok (p : pax) : Prop :=
  match pax_get K_usize p with Some v => undecimal v <> None | None => True end.

Definition rowok (r : row) : Prop := good (r_name r) /\ r_link r = [] /\ usize_ok (r_pax r).

Definition headroot (l : list row) : Prop :=
  exists r0 tl, l = r0 :: tl /\ r_name r0 = [slash] /\ r_del r0 = false.

(* [hr] = true: the root row is known to be live and first (needed for Reopen); false: not tracked *)
Record LL (hr : bool) (l : list row) : Prop := {
  ll_rows : Forall rowok l;
  ll_nodup : NoDup (map r_name l);
  ll_head : hr = true -> headroot l }.

Record LI (hr : bool) (p : pstate) : Prop := {
  li_root : root p = [slash];
  li_re : root_empty p = false;
  li_ll : LL hr (rows p) }.

Definition allroot (l : list row) : Prop := Forall (fun r => r_name r = [slash]) l.

Record R (lv rb : pstate) : Prop := {
  r_rows : rows rb = NR (rows lv);
  r_root : root rb = [];
  r_re : root_empty rb = true \/ allroot (rows lv) }.

Lemma LL_weaken hr l : LL hr l -> LL false l.
Proof. intros [A B _]. split; [exact A|exact B|discriminate]. Qed.
Lemma LI_weaken hr p : LI hr p -> LI false p.
Proof. intros [A B C]. split; [exact A|exact B|eapply LL_weaken; exact C]. Qed.

Definition lks (l : list row) : list (N * N) := map (fun r => (r_lkrec r, r_lkblk r)) l.
Definition has_name (l : list row) (n : str) : bool := existsb (fun r => eqb_str (r_name r) n) l.
Definition live_name (l : list row) (n : str) : bool := existsb (fun r => live r && eqb_str (r_name r) n) l.

Lemma rowok_absr r : rowok r -> absr r.
Proof. intros (G & _). apply good_abs. exact G. Qed.
Lemma LL_absr hr l : LL hr l -> Forall absr l.
Proof. intros [H _ _]. eapply Forall_impl; [|exact H]. apply rowok_absr. Qed.

Lemma key_eq_nil n r : r_link r = [] -> key_eq n [] r = eqb_str (r_name r) n.
Proof. intro H. unfold key_eq. rewrite H. cbn. apply andb_true_r. Qed.

Lemma has_key_nil l n : Forall rowok l -> has_key l n [] = has_name l n.
Proof.
  intro H. unfold has_key, has_name. apply existsb_ext_in. intros x Hx.
  rewrite Forall_forall in H. destruct (H x Hx) as (_ & Hk & _). apply key_eq_nil. exact Hk.
Qed.

Lemma has_name_in l n : has_name l n = true <-> In n (map r_name l).
Proof.
  unfold has_name. rewrite existsb_exists. rewrite in_map_iff. split.
  - intros (x & Hx & E). apply eqb_str_eq in E. exists x. split; assumption.
  - intros (x & E & Hx). exists x. split; [exact Hx|]. apply eqb_str_eq. exact E.
Qed.

Lemma live_name_has l n : live_name l n = true -> has_name l n = true.
Proof.
  unfold live_name, has_name. rewrite !existsb_exists. intros (x & Hx & E).
  apply andb_true_iff in E as [_ E]. exists x. split; assumption.
Qed.

(* ---------- replace_row *)
Lemma replace_row_Forall (P : row -> Prop) n k new l : Forall P l -> P new -> Forall P (replace_row n k new l).
Proof.
  intros Hl Hn. induction l as [|r t IH]; cbn; [constructor|].
  inversion Hl; subst. destruct (key_eq n k r); constructor; auto.
Qed.

Lemma replace_row_names n new l : Forall rowok l -> r_name new = n ->
  map r_name (replace_row n [] new l) = map r_name l.
Proof.
  intros Hl Hn. induction l as [|r t IH]; cbn; [reflexivity|].
  inversion Hl as [|? ? Hr Ht]; subst. destruct Hr as (_ & Hk & _).
  rewrite (key_eq_nil _ r Hk). destruct (eqb_str (r_name r) (r_name new)) eqn:E; cbn.
  - apply eqb_str_eq in E. rewrite E. reflexivity.
  - rewrite IH by exact Ht. reflexivity.
Qed.

Lemma replace_row_lks n k new l x : In x (lks (replace_row n k new l)) ->
  In x (lks l) \/ x = (r_lkrec new, r_lkblk new).
Proof.
  induction l as [|r t IH]; cbn; [tauto|].
  destruct (key_eq n k r); cbn.
  - intros [H|H]; [right; symmetry; exact H|left; right; exact H].
  - intros [H|H]; [left; left; exact H|]. destruct (IH H); [left; right; assumption|right; assumption].
Qed.

Lemma replace_row_in n k new l : has_key l n k = true -> In new (replace_row n k new l).
Proof.
  induction l as [|r t IH]; cbn; [discriminate|].
  destruct (key_eq n k r); cbn; [intros _; left; reflexivity|]. intro H. right. apply IH. exact H.
Qed.

Lemma replace_row_head n new l : Forall rowok l -> headroot l ->
  (n = [slash] -> r_name new = [slash] /\ r_del new = false) ->
  headroot (replace_row n [] new l).
Proof.
  intros Hl (r0 & tl & -> & Hn & Hd) Hnew. cbn.
  inversion Hl as [|? ? Hr Ht]; subst. destruct Hr as (_ & Hk & _).
  rewrite (key_eq_nil _ r0 Hk). rewrite Hn.
  destruct (eqb_str [slash] n) eqn:E.
  - apply eqb_str_eq in E. destruct (Hnew (eq_sym E)) as [A B]. exists new, tl. repeat split; assumption.
  - exists r0, (replace_row n [] new tl). repeat split; assumption.
Qed.

Lemma replace_row_existsb f n k new l :
  f new = false -> (forall r, In r l -> key_eq n k r = true -> f r = false) ->
  existsb f (replace_row n k new l) = existsb f l.
Proof.
  intros Hn Hk. induction l as [|r t IH]; cbn; [reflexivity|].
  destruct (key_eq n k r) eqn:E; cbn.
  - rewrite Hn, (Hk r (or_introl eq_refl) E). reflexivity.
  - rewrite IH; [reflexivity|]. intros r' Hr'. apply Hk. right. exact Hr'.
Qed.

Lemma replace_row_LL hr n new l : LL hr l -> rowok new -> r_name new = n ->
  (hr = true -> n = [slash] -> r_del new = false) -> LL hr (replace_row n [] new l).
Proof.
  intros [H1 H2 H3] Hok Hn Hd. split.
  - apply replace_row_Forall; assumption.
  - rewrite replace_row_names by assumption. exact H2.
  - intro Hhr. apply replace_row_head; try assumption; [apply H3; exact Hhr|]. intro E. split; [congruence|auto].
Qed.

Lemma replace_row_allroot n k new l : allroot l -> r_name new = [slash] -> allroot (replace_row n k new l).
Proof. intros H Hn. apply replace_row_Forall; assumption. Qed.

(* ---------- find_rows *)
Lemma min_link_in l : forall b r, min_link l b = Some r -> In r l \/ b = Some r.
Proof.
  induction l as [|x t IH]; intros b r H; cbn in H; [right; exact H|].
  destruct b as [b|].
  - destruct (ltb_str (r_link x) (r_link b)).
    + destruct (IH _ _ H) as [K|K]; [left; right; exact K|left; left; congruence].
    + destruct (IH _ _ H) as [K|K]; [left; right; exact K|right; exact K].
  - destruct (IH _ _ H) as [K|K]; [left; right; exact K|left; left; congruence].
Qed.

Lemma min_link_some l : forall b, (l <> [] \/ b <> None) -> min_link l b <> None.
Proof.
  induction l as [|x t IH]; intros b H; cbn.
  - destruct H as [H|H]; [contradiction|exact H].
  - destruct b as [b|].
    + destruct (ltb_str (r_link x) (r_link b)); apply IH; right; discriminate.
    + apply IH. right. discriminate.
Qed.

Lemma find_rows_some l n r : find_rows l n = Some r -> In r l /\ live r = true /\ r_name r = n.
Proof.
  unfold find_rows. intro H. apply min_link_in in H. destruct H as [H|H]; [|discriminate].
  apply filter_In in H as [H1 H2]. apply andb_true_iff in H2 as [H2 H3]. apply eqb_str_eq in H3. auto.
Qed.

Lemma find_rows_none l n : find_rows l n = None -> live_name l n = false.
Proof.
  unfold find_rows, live_name. intro H.
  destruct (existsb (fun r => live r && eqb_str (r_name r) n) l) eqn:E; [|reflexivity].
  exfalso. apply existsb_exists in E as (x & Hx & Ex).
  revert H. apply min_link_some. left. intro K.
  assert (In x (filter (fun r => live r && eqb_str (r_name r) n) l)) by (apply filter_In; split; assumption).
  rewrite K in H. contradiction.
Qed.

Lemma find_rows_live l n : live_name l n = true -> exists r, find_rows l n = Some r.
Proof.
  intro H. destruct (find_rows l n) eqn:E; [eexists; reflexivity|].
  apply find_rows_none in E. congruence.
Qed.

(* ---------- upsert_rows *)
Lemma NoDup_app_one {A} (l : list A) x : NoDup l -> ~ In x l -> NoDup (l ++ [x]).
Proof.
  induction l as [|a l IH]; intros H Hx; cbn.
  - constructor; [intros []|constructor].
  - inversion H; subst. constructor.
    + intro K. apply in_app_or in K as [K|[K|[]]]; [contradiction|]. subst. apply Hx. left. reflexivity.
    + apply IH; [assumption|]. intro K. apply Hx. right. exact K.
Qed.

Lemma upsert_rows_LL hr l r : LL hr l -> rowok r -> r_del r = false -> LL hr (upsert_rows l r).
Proof.
  intros HL Hok Hd. unfold upsert_rows. destruct Hok as (G & Hk & Hu). rewrite Hk.
  destruct (has_key l (r_name r) []) eqn:E.
  - apply replace_row_LL; try assumption; [repeat split; assumption|reflexivity|auto].
  - destruct HL as [H1 H2 H3]. rewrite has_key_nil in E by exact H1. split.
    + apply Forall_app. split; [exact H1|]. constructor; [repeat split; assumption|constructor].
    + rewrite map_app. cbn. apply NoDup_app_one; [exact H2|].
      intro K. apply has_name_in in K. congruence.
    + intro Hhr. destruct (H3 Hhr) as (r0 & tl & -> & A & B). exists r0, (tl ++ [r]). repeat split; assumption.
Qed.

Lemma upsert_rows_allroot l r : allroot l -> r_name r = [slash] -> allroot (upsert_rows l r).
Proof.
  intros H Hn. unfold upsert_rows. destruct (has_key l (r_name r) (r_link r)).
  - apply replace_row_allroot; assumption.
  - apply Forall_app. split; [exact H|]. constructor; [exact Hn|constructor].
Qed.

Lemma upsert_rows_live l r : r_del r = false -> live_name (upsert_rows l r) (r_name r) = true.
Proof.
  intro Hd. unfold live_name. apply existsb_exists. exists r. split; [|unfold live; rewrite Hd, eqb_str_refl; reflexivity].
  unfold upsert_rows. destruct (has_key l (r_name r) (r_link r)) eqn:E.
  - apply replace_row_in. exact E.
  - apply in_or_app. right. left. reflexivity.
Qed.

Lemma upsert_rows_in l r : In r (upsert_rows l r).
Proof.
  unfold upsert_rows. destruct (has_key l (r_name r) (r_link r)) eqn:E.
  - apply replace_row_in. exact E.
  - apply in_or_app. right. left. reflexivity.
Qed.

Lemma upsert_rows_lks l r x : In x (lks (upsert_rows l r)) -> In x (lks l) \/ x = (r_lkrec r, r_lkblk r).
Proof.
  unfold upsert_rows. destruct (has_key l (r_name r) (r_link r)).
  - apply replace_row_lks.
  - unfold lks. rewrite map_app. intro H. apply in_app_or in H as [H|H]; [left; exact H|].
    cbn in H. destruct H as [H|[]]. right. symmetry. exact H.
Qed.

(* ---------- move_list on a live list (all link names empty) *)
Definition mv_rows1 (l : list row) (old new : str) : list row :=
  if has_name l old then filter (fun r => negb (eqb_str (r_name r) new)) l else l.
Definition mv_fun (old new : str) (a b : N) (r : row) : row :=
  if eqb_str (r_name r) old then set_lk (set_name r new) a b (r_del r) else r.

Lemma existsb_const_true {A} (f : A -> bool) l : (forall x, In x l -> f x = true) -> existsb f l = negb (match l with [] => true | _ => false end).
Proof. intro H. destruct l as [|x t]; [reflexivity|]. cbn. rewrite (H x (or_introl eq_refl)). reflexivity. Qed.

Lemma has_name_filter_nil l old : has_name l old = false -> filter (fun r => eqb_str (r_name r) old) l = [].
Proof.
  unfold has_name. induction l as [|x t IH]; cbn; [reflexivity|].
  intro H. apply orb_false_iff in H as [H1 H2]. rewrite H1. apply IH. exact H2.
Qed.

Lemma has_name_filter_cons l old : has_name l old = true -> filter (fun r => eqb_str (r_name r) old) l <> [].
Proof.
  unfold has_name. rewrite existsb_exists. intros (x & Hx & E) K.
  assert (In x (filter (fun r => eqb_str (r_name r) old) l)) by (apply filter_In; split; assumption).
  rewrite K in H. contradiction.
Qed.

Lemma move_list_live l old new a b : Forall rowok l -> new <> old ->
  move_list l old new a b = (map (mv_fun old new a b) (mv_rows1 l old new), Ok tt).
Proof.
  intros Hl Hne. unfold move_list. apply eqb_str_neq in Hne. rewrite Hne.
  set (moved := filter (fun r => eqb_str (r_name r) old) l).
  assert (Hm : Forall rowok moved) by (apply Forall_filter; exact Hl).
  assert (E1 : filter (fun r => negb (eqb_str (r_name r) new && existsb (fun m => eqb_str (r_link m) (r_link r)) moved)) l
               = mv_rows1 l old new).
  { unfold mv_rows1. destruct (has_name l old) eqn:Eo.
    - apply filter_ext_in'. intros x Hx. f_equal.
      rewrite Forall_forall in Hl. destruct (Hl x Hx) as (_ & Hk & _). rewrite Hk.
      pose proof (has_name_filter_cons l old Eo) as Hne'. fold moved in Hne'.
      destruct moved as [|m0 mt] eqn:Em; [contradiction|]. cbn.
      inversion Hm as [|? ? Hm0 _]; subst. destruct Hm0 as (_ & Hk0 & _). rewrite Hk0. cbn. apply andb_true_r.
    - pose proof (has_name_filter_nil l old Eo) as Hnil. fold moved in Hnil. rewrite Hnil. cbn.
      rewrite <- (filter_ext_in' (fun _ => true)).
      + clear. induction l; cbn; congruence.
      + intros x _. rewrite andb_false_r. reflexivity. }
  rewrite E1.
  assert (E2 : existsb (fun m => has_key (filter (fun r => negb (eqb_str (r_name r) old)) (mv_rows1 l old new)) new (r_link m)) moved = false).
  { unfold mv_rows1. destruct (has_name l old) eqn:Eo.
    - apply not_true_is_false. intro K. apply existsb_exists in K as (m & Hmi & K).
      rewrite Forall_forall in Hm. destruct (Hm m Hmi) as (_ & Hk & _). rewrite Hk in K.
      unfold has_key in K. apply existsb_exists in K as (x & Hx & K).
      apply filter_In in Hx as [Hx _]. apply filter_In in Hx as [Hx1 Hx2].
      rewrite Forall_forall in Hl. destruct (Hl x Hx1) as (_ & Hkx & _).
      rewrite (key_eq_nil _ x Hkx) in K. rewrite K in Hx2. discriminate.
    - pose proof (has_name_filter_nil l old Eo) as Hnil. fold moved in Hnil. rewrite Hnil. reflexivity. }
  rewrite E2. reflexivity.
Qed.

Lemma NoDup_map_inj_in {A B} (f : A -> B) l :
  (forall x y, In x l -> In y l -> f x = f y -> x = y) -> NoDup l -> NoDup (map f l).
Proof.
  induction l as [|a l IH]; intros Hinj Hnd; cbn; [constructor|].
  inversion Hnd; subst. constructor.
  - intro K. apply in_map_iff in K as (y & Ey & Hy).
    assert (y = a) by (apply Hinj; [right; exact Hy|left; reflexivity|exact Ey]). subst. contradiction.
  - apply IH; [|assumption]. intros x y Hx Hy. apply Hinj; right; assumption.
Qed.

Lemma NoDup_map_filter {A B} (g : A -> B) f l : NoDup (map g l) -> NoDup (map g (filter f l)).
Proof.
  induction l as [|a l IH]; cbn; intro H; [constructor|].
  inversion H; subst. destruct (f a); cbn.
  - constructor; [|apply IH; assumption]. intro K. apply in_map_iff in K as (y & Ey & Hy).
    apply filter_In in Hy as [Hy _]. apply H2. rewrite <- Ey. apply in_map. exact Hy.
  - apply IH. assumption.
Qed.

Lemma mv_fun_id old new a b l : has_name l old = false -> map (mv_fun old new a b) l = l.
Proof.
  unfold has_name. induction l as [|x t IH]; cbn; [reflexivity|]. intro H.
  apply orb_false_iff in H as [H1 H2]. unfold mv_fun at 1. rewrite H1. rewrite IH by exact H2. reflexivity.
Qed.

Lemma mv_names old new a b l :
  map r_name (map (mv_fun old new a b) l) = map (fun x => if eqb_str x old then new else x) (map r_name l).
Proof.
  rewrite !map_map. apply map_ext. intro r. unfold mv_fun. destruct (eqb_str (r_name r) old); reflexivity.
Qed.

Lemma mv_result_LL hr l old new a b : LL hr l -> good new -> new <> [slash] -> old <> [slash] -> new <> old ->
  LL hr (map (mv_fun old new a b) (mv_rows1 l old new)).
Proof.
  intros [H1 H2 H3] Gn Hn Ho Hne. unfold mv_rows1. destruct (has_name l old) eqn:Eo.
  2:{ rewrite mv_fun_id by exact Eo. split; assumption. }
  set (l1 := filter (fun r => negb (eqb_str (r_name r) new)) l).
  assert (F1 : Forall rowok l1) by (apply Forall_filter; exact H1).
  split.
  - apply Forall_forall. intros x Hx. apply in_map_iff in Hx as (y & <- & Hy).
    rewrite Forall_forall in F1. destruct (F1 y Hy) as (G & K & U).
    unfold mv_fun. destruct (eqb_str (r_name y) old); [|repeat split; assumption].
    repeat split; cbn; assumption.
  - rewrite mv_names. apply NoDup_map_inj_in; [|apply NoDup_map_filter; exact H2].
    assert (Hnew : ~ In new (map r_name l1)).
    { intro K. apply in_map_iff in K as (y & Ey & Hy). apply filter_In in Hy as [_ Hy].
      rewrite Ey, eqb_str_refl in Hy. discriminate. }
    intros x y Hx Hy. destruct (eqb_str x old) eqn:Ex, (eqb_str y old) eqn:Ey; intro E.
    + apply eqb_str_eq in Ex, Ey. congruence.
    + subst y. contradiction.
    + subst x. contradiction.
    + exact E.
  - intro Hhr. destruct (H3 Hhr) as (r0 & tl & -> & A & B). unfold l1. cbn. rewrite A.
    assert (E : eqb_str [slash] new = false) by (apply eqb_str_neq; congruence). rewrite E. cbn.
    unfold mv_fun at 1. rewrite A.
    assert (E' : eqb_str [slash] old = false) by (apply eqb_str_neq; congruence). rewrite E'.
    eexists _, _. split; [reflexivity|]. split; assumption.
Qed.

Lemma mv_result_lks l old new a b x : In x (lks (map (mv_fun old new a b) (mv_rows1 l old new))) ->
  In x (lks l) \/ x = (a, b).
Proof.
  unfold lks. rewrite map_map. intro H. apply in_map_iff in H as (y & E & Hy).
  assert (Hyl : In y l).
  { unfold mv_rows1 in Hy. destruct (has_name l old); [apply filter_In in Hy as [Hy _]|]; exact Hy. }
  unfold mv_fun in E. destruct (eqb_str (r_name y) old).
  - right. cbn in E. symmetry. exact E.
  - left. apply in_map_iff. exists y. split; assumption.
Qed.

Lemma mv_result_stamp l old new a b : new <> old -> has_name l old = true ->
  In (a, b) (lks (map (mv_fun old new a b) (mv_rows1 l old new))) /\
  has_name (map (mv_fun old new a b) (mv_rows1 l old new)) new = true.
Proof.
  intros Hne Ho. unfold mv_rows1. rewrite Ho. pose proof Ho as Ho'.
  unfold has_name in Ho. apply existsb_exists in Ho as (x & Hx & Ex).
  assert (Hx1 : In x (filter (fun r => negb (eqb_str (r_name r) new)) l)).
  { apply filter_In. split; [exact Hx|]. apply eqb_str_eq in Ex. rewrite Ex.
    apply negb_true_iff. apply eqb_str_neq. congruence. }
  split.
  - unfold lks. rewrite map_map. apply in_map_iff. exists x. split; [|exact Hx1].
    unfold mv_fun. rewrite Ex. reflexivity.
  - unfold has_name. apply existsb_exists. exists (mv_fun old new a b x). split; [apply in_map; exact Hx1|].
    unfold mv_fun. rewrite Ex. cbn. apply eqb_str_refl.
Qed.

Lemma mv_result_frame l old new a b m : m <> old -> m <> new ->
  has_name (map (mv_fun old new a b) (mv_rows1 l old new)) m = has_name l m.
Proof.
  intros Hmo Hmn. unfold has_name. rewrite existsb_map_comm with (f' := fun r => eqb_str (r_name r) m).
  - unfold mv_rows1. destruct (has_name l old); [|reflexivity].
    induction l as [|x t IH]; cbn; [reflexivity|].
    destruct (eqb_str (r_name x) new) eqn:E; cbn.
    + rewrite IH. apply eqb_str_eq in E. rewrite E.
      assert (E2 : eqb_str new m = false) by (apply eqb_str_neq; congruence). rewrite E2. reflexivity.
    + rewrite IH. reflexivity.
  - intros x _. unfold mv_fun. destruct (eqb_str (r_name x) old) eqn:E; [|reflexivity].
    cbn. apply eqb_str_eq in E. rewrite E.
    assert (E1 : eqb_str new m = false) by (apply eqb_str_neq; congruence).
    assert (E2 : eqb_str old m = false) by (apply eqb_str_neq; congruence). rewrite E1, E2. reflexivity.
Qed.

Lemma mv_result_mono l old new a b m : new <> old -> has_name l old = true -> m <> old ->
  has_name l m = true -> has_name (map (mv_fun old new a b) (mv_rows1 l old new)) m = true.
Proof.
  intros Hne Ho Hm H. destruct (eqb_str m new) eqn:E.
  - apply eqb_str_eq in E. subst m. apply (mv_result_stamp l old new a b Hne Ho).
  - apply eqb_str_neq in E. rewrite mv_result_frame by assumption. exact H.
Qed.
