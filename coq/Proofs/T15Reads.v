(* T15 / Reads: after any read-only history the visible tree is the one of the initial state.
   Hypothesis [opened (db s)]: the cached root is the one Open() computes from the rows (true after Open / Initialize / CReopen, and
   kept by every call of a writable history that does not remove or rename the root).  It cannot be dropped:
   Proofs/T15Counter.v has an un-opened state where one OpenFile O_RDONLY changes the view. *)
From Coq Require Import List NArith ZArith Bool.
Import ListNotations.
From STFS Require Import Str Db Tape Index Ops Fs File Diff Norm T15Def T15Db T15Step T15Hist T15Ceq T15View.
Open Scope N_scope.

Definition opened (p : pstate) : Prop := root p = root (p_open (rows p)).

Lemma p_open_opened l : opened (p_open l).
Proof. unfold opened. rewrite p_open_rows. reflexivity. Qed.

Lemma min_depth_row_in l : forall best r, min_depth_row l best = Some r -> In r l \/ best = Some r.
Proof.
  induction l as [|x l IH]; intros best r H; cbn in H; [right; exact H|].
  destruct best as [b|].
  - destruct (slash_count (r_name x) <? slash_count (r_name b)).
    + destruct (IH _ _ H) as [I|I]; [left; right; exact I|left; left; congruence].
    + destruct (IH _ _ H) as [I|I]; [left; right; exact I|right; exact I].
  - destruct (IH _ _ H) as [I|I]; [left; right; exact I|left; left; congruence].
Qed.

Lemma root_p_open l : root (p_open l) = match min_depth_row (filter live l) None with Some r => r_name r | None => [] end.
Proof. unfold p_open, get_root_path. cbn [root rows]. destruct (min_depth_row (filter live l) None); reflexivity. Qed.

Lemma opened_live_exact p : opened p -> has_live p -> root p = [] -> exists_exact p [] = true.
Proof.
  unfold opened, has_live. rewrite root_p_open. intros O L Z.
  destruct (min_depth_row (filter live (rows p)) None) as [r|] eqn:M.
  - destruct (min_depth_row_in _ _ _ M) as [I|I]; [|discriminate I].
    apply filter_In in I as [I1 I2]. unfold exists_exact. apply existsb_exists. exists r. split; [exact I1|].
    rewrite I2. cbn [andb]. rewrite <- O, Z. reflexivity.
  - apply min_depth_row_none in M. contradiction.
Qed.

Lemma opened_live_cok p : opened p -> has_live p -> cok p.
Proof.
  intros O L. destruct (root_nil_dec (root p)) as [Z|NZ]; [|left; exact NZ].
  right. right. apply opened_live_exact; assumption.
Qed.

Lemma opened_get_root_path p : opened p -> fst (get_root_path p) = p.
Proof.
  unfold opened. rewrite root_p_open. unfold get_root_path. intro O. destruct (root p) eqn:Z; [|reflexivity].
  destruct (min_depth_row (filter live (rows p)) None); [|reflexivity]. cbn [fst]. rewrite <- O.
  destruct p; cbn in *. subst. reflexivity.
Qed.

Lemma ceq_opened p q : ceq p q -> opened p -> opened q.
Proof. intros (A & B & _). unfold opened. rewrite <- A, <- B. auto. Qed.
Lemma ceq_has_live p q : ceq p q -> has_live p -> has_live q.
Proof. intros (A & _). unfold has_live. rewrite <- A. auto. Qed.

(* ---------------------------------------------------------------- an index without live rows shows nothing *)
Lemma filter_live_and (f : row -> bool) l : filter live l = [] -> filter (fun r => live r && f r) l = [].
Proof.
  induction l as [|x l IH]; [reflexivity|]. cbn. destruct (live x); cbn; [discriminate|]. exact IH.
Qed.

Lemma get_header_nolive p n : filter live (rows p) = [] ->
  snd (get_header p n) = NoRows /\ filter live (rows (fst (get_header p n))) = [].
Proof.
  intro L. unfold get_header. pose proof (sanitize_cf p n) as [R _]. destruct (sanitize p n) as [p1 n1]. cbn [fst] in R.
  unfold find_by_name. rewrite R, filter_live_and by exact L. cbn [min_link fst snd]. split; [reflexivity|]. rewrite R. exact L.
Qed.

Theorem view_nolive c s : filter live (rows (db s)) = [] -> view c s = [].
Proof.
  intro L. unfold view, stat_s, inv_stat.
  destruct (get_header_nolive (db s) [slash] L) as [E1 E2]. destruct (get_header (db s) [slash]) as [p1 r1]. cbn [fst snd] in *. subst r1.
  destruct (get_header_nolive p1 (trim_suffix [slash] [slash] ++ [slash]) E2) as [F1 _].
  destruct (get_header p1 (trim_suffix [slash] [slash] ++ [slash])) as [p2 r2]. cbn [snd] in F1. subst r2. reflexivity.
Qed.

(* ---------------------------------------------------------------- one call keeps the [veq] class *)
Definition vinv (s : sys) : Prop := opened (db s) /\ has_live (db s).

Lemma initialize_has_root c s r : has_root (db s) ->
  fs_initialize c s r = (set_db s (fst (get_root_path (db s))), OOk).
Proof.
  unfold has_root, fs_initialize. destruct (get_root_path (db s)) as [p [x|]]; cbn [fst snd]; [reflexivity|congruence].
Qed.

Lemma set_db_same s : set_db s (db s) = s.
Proof. destruct s; reflexivity. Qed.

Theorem T15_step_veq c s k : ro c -> ro_call k = true -> vinv s ->
  veq s (fst (step c s k)) /\ vinv (fst (step c s k)).
Proof.
  intros R C [O L]. pose proof (opened_live_cok _ O L) as K.
  destruct (is_init k) eqn:I; [|destruct (is_reopen k) eqn:P].
  - destruct k; try discriminate I. cbn [step].
    rewrite initialize_has_root by (apply has_live_has_root; exact L).
    rewrite opened_get_root_path by exact O. rewrite set_db_same. cbn [fst].
    split; [split; [reflexivity|apply ceq_refl]|split; assumption].
  - destruct k; try discriminate P. cbn [step fst].
    assert (Q : ceq (db s) (p_open (rows (db s)))).
    { split; [symmetry; apply p_open_rows|]. split; [exact O|].
      destruct (root_nil_dec (root (db s))) as [Z|NZ]; [|left; exact NZ].
      right. right. apply opened_live_exact; assumption. }
    split; [split; [reflexivity|exact Q]|]. split; cbn [db set_db]; [apply p_open_opened|].
    eapply ceq_has_live; eauto.
  - destruct (step_gframe vrel vrel_refl vrel_trans vrel_san c s k R C I P) as (T & _ & _ & _ & V).
    destruct (V K) as [Q K']. split; [split; [symmetry; exact T|exact Q]|].
    split; [eapply ceq_opened; eauto|eapply ceq_has_live; eauto].
Qed.

Lemma veq_refl s : veq s s.
Proof. split; [reflexivity|apply ceq_refl]. Qed.
Lemma veq_trans a b c : veq a b -> veq b c -> veq a c.
Proof. intros [A B] [A' B']. split; [congruence|eapply ceq_trans; eauto]. Qed.
Lemma veq_with_env s e : veq s (with_env s e).
Proof. split; [reflexivity|apply ceq_refl]. Qed.

(* ---------------------------------------------------------------- histories *)
Lemma final_veq c : ro c -> forall h s, ro_hist h -> vinv s ->
  veq s (final c s h) /\ Forall (fun ob => ob_view ob = sort_entries (view c s)) (run c s h).
Proof.
  intros R h. induction h as [|[k e] h IH]; intros s RH V; cbn [final run]; [split; [apply veq_refl|constructor]|].
  inversion RH as [|x l C RH']; subst. cbn [fst] in C.
  assert (V0 : vinv (with_env s e)) by exact V.
  destruct (T15_step_veq c (with_env s e) k R C V0) as [Q V1].
  pose proof (veq_trans _ _ _ (veq_with_env s e) Q) as Q1.
  destruct (IH _ RH' V1) as [Q2 F].
  destruct (step c (with_env s e) k) as [s1 o]. cbn [fst] in *.
  split; [eapply veq_trans; eauto|]. constructor.
  - unfold observe. cbn [ob_view]. rewrite (view_veq c s s1 Q1). reflexivity.
  - eapply Forall_impl; [|exact F]. intros ob H. rewrite H, (view_veq c s s1 Q1). reflexivity.
Qed.

Lemma live_dec (p : pstate) : {filter live (rows p) = []} + {has_live p}.
Proof. unfold has_live. destruct (filter live (rows p)); [left; reflexivity|right; congruence]. Qed.

Lemma run_view_nolive c : ro c -> forall h s, ro_hist h -> init_free h -> filter live (rows (db s)) = [] ->
  Forall (fun ob => ob_view ob = sort_entries []) (run c s h).
Proof.
  intros R h. induction h as [|[k e] h IH]; intros s RH IF L; cbn [run]; [constructor|].
  inversion RH as [|x l C RH']; subst. inversion IF as [|x l I IF']; subst. cbn [fst] in *.
  pose proof (T15_step_rows_ro c (with_env s e) k R C I) as RW. rewrite with_env_db in RW.
  destruct (step c (with_env s e) k) as [s1 o]. cbn [fst] in RW.
  assert (L1 : filter live (rows (db s1)) = []) by (rewrite RW; exact L).
  constructor.
  - unfold observe. cbn [ob_view]. rewrite view_nolive by exact L1. reflexivity.
  - apply IH; assumption.
Qed.

Theorem T15_view_history c s h : ro c -> ro_hist h -> opened (db s) -> (init_free h \/ has_live (db s)) ->
  view c (final c s h) = view c s /\ Forall (fun ob => ob_view ob = sort_entries (view c s)) (run c s h).
Proof.
  intros R RH O HI. destruct (live_dec (db s)) as [L|L].
  - assert (IF : init_free h) by (destruct HI as [HI|HI]; [exact HI|contradiction]).
    destruct (T15_history c R h s RH (or_introl IF)) as (_ & RW & F).
    split.
    + rewrite !view_nolive; [reflexivity|exact L|rewrite RW; exact L].
    + rewrite (view_nolive c s L). apply run_view_nolive; assumption.
  - destruct (final_veq c R h s RH (conj O L)) as [Q F]. split; [symmetry; apply view_veq; exact Q|exact F].
Qed.

Corollary T15_view_history_fs c s h : ro c -> Forall (fun ke => fs_call (fst ke) = true) h -> opened (db s) ->
  (init_free h \/ has_live (db s)) -> view c (final c s h) = view c s.
Proof. intros R F O HI. apply T15_view_history; try assumption. apply fs_hist_ro_hist. exact F. Qed.

(* ... and it is the view a writable instance over the same data shows *)
Corollary T15_view_history_wr c s h : ro c -> ro_hist h -> opened (db s) -> (init_free h \/ has_live (db s)) ->
  view c (final c s h) = view (wr c) s.
Proof. intros R RH O HI. rewrite T15_view_wr. apply T15_view_history; assumption. Qed.

(* ---------------------------------------------------------------- every other read: Stat / Lstat, Readdir, content, OpenFile *)
Lemma get_header_by_linkname_ceq p q n : ceq p q ->
  snd (get_header_by_linkname p n) = snd (get_header_by_linkname q n)
  /\ ceq (fst (get_header_by_linkname p n)) (fst (get_header_by_linkname q n)).
Proof.
  intro H. unfold get_header_by_linkname. destruct (sanitize_ceq p q n H) as [E1 E2].
  destruct (sanitize p n) as [p1 n1], (sanitize q n) as [q1 n2]. cbn [fst snd] in *. subst n2.
  rewrite (proj1 E2). destruct (filter _ (rows q1)); split; auto.
Qed.

Definition proceed (p : pstate) (nm : str) (link : option row) : pstate * res hdr :=
  let '(p, r) := match get_header p nm with
                 | (p, NoRows) => get_header p (trim_suffix [slash] nm ++ [slash])
                 | x => x end in
  match r with
  | Ok d =>
    match link with
    | None => if negb (eqb_str (r_link d) []) then (p, NoRows) else (p, Ok (hdr_of_row d))
    | Some l => (p, Ok (hdr_of_row (set_link (set_name d (r_link l)) (r_name l))))
    end
  | NoRows => (p, NoRows) | Unique => (p, Unique) | Fail e => (p, Fail e)
  end.

Lemma inv_stat_eq p name sym : inv_stat p name sym =
  if sym then
    match (match get_header_by_linkname p name with
           | (p, NoRows) => get_header_by_linkname p (trim_suffix [slash] name ++ [slash])
           | x => x end) with
    | (p, Ok l) => proceed p (r_name l) (Some l)
    | (p, NoRows) => (p, NoRows) | (p, Unique) => (p, Unique) | (p, Fail e) => (p, Fail e)
    end
  else proceed p name None.
Proof.
  destruct sym; [|reflexivity]. unfold inv_stat.
  destruct (get_header_by_linkname p name) as [p1 [l| | |e]]; try reflexivity.
Qed.

Lemma proceed_ceq p q nm link : ceq p q ->
  snd (proceed p nm link) = snd (proceed q nm link) /\ ceq (fst (proceed p nm link)) (fst (proceed q nm link)).
Proof.
  intro H. unfold proceed. destruct (get_header_ceq p q nm H) as [E1 E2].
  destruct (get_header p nm) as [p1 r1], (get_header q nm) as [q1 r2]. cbn [fst snd] in *. subst r2.
  destruct r1 as [d| | |e]; try (split; [reflexivity|exact E2]).
  - destruct link; [split; [reflexivity|exact E2]|]. destruct (negb (eqb_str (r_link d) [])); split; auto.
  - destruct (get_header_ceq p1 q1 (trim_suffix [slash] nm ++ [slash]) E2) as [F1 F2].
    destruct (get_header p1 (trim_suffix [slash] nm ++ [slash])) as [p2 r1], (get_header q1 (trim_suffix [slash] nm ++ [slash])) as [q2 r2].
    cbn [fst snd] in *. subst r2. destruct r1 as [d| | |e]; try (split; [reflexivity|exact F2]).
    destruct link; [split; [reflexivity|exact F2]|]. destruct (negb (eqb_str (r_link d) [])); split; auto.
Qed.

Lemma inv_stat_ceq p q n sym : ceq p q ->
  snd (inv_stat p n sym) = snd (inv_stat q n sym) /\ ceq (fst (inv_stat p n sym)) (fst (inv_stat q n sym)).
Proof.
  intro H. rewrite !inv_stat_eq. destruct sym; [|apply proceed_ceq; exact H].
  destruct (get_header_by_linkname_ceq p q n H) as [E1 E2].
  destruct (get_header_by_linkname p n) as [p1 r1], (get_header_by_linkname q n) as [q1 r2]. cbn [fst snd] in *. subst r2.
  destruct r1 as [l| | |e]; try (split; [reflexivity|exact E2]).
  - apply proceed_ceq. exact E2.
  - destruct (get_header_by_linkname_ceq p1 q1 (trim_suffix [slash] n ++ [slash]) E2) as [F1 F2].
    destruct (get_header_by_linkname p1 (trim_suffix [slash] n ++ [slash])) as [p2 r1],
             (get_header_by_linkname q1 (trim_suffix [slash] n ++ [slash])) as [q2 r2]. cbn [fst snd] in *. subst r2.
    destruct r1 as [l| | |e]; try (split; [reflexivity|exact F2]). apply proceed_ceq. exact F2.
Qed.

Lemma stat_s_veq s s' n sym : veq s s' ->
  snd (stat_s s n sym) = snd (stat_s s' n sym) /\ veq (fst (stat_s s n sym)) (fst (stat_s s' n sym)).
Proof.
  intros [T H]. unfold stat_s. destruct (inv_stat_ceq _ _ n sym H) as [E1 E2].
  destruct (inv_stat (db s) n sym), (inv_stat (db s') n sym). cbn [fst snd] in *. split; [exact E1|split; [exact T|exact E2]].
Qed.

(* OpenFile on a read-only instance, on [veq] states: same outcome, same handle *)
Theorem openfile_veq c s s' n o perm : ro c -> veq s s' ->
  snd (fst (fs_openfile c s n o perm)) = snd (fst (fs_openfile c s' n o perm)) /\
  snd (fs_openfile c s n o perm) = snd (fs_openfile c s' n o perm) /\
  veq (fst (fst (fs_openfile c s n o perm))) (fst (fst (fs_openfile c s' n o perm))).
Proof.
  intros R V. destruct n as [|a n']; [cbn; repeat split; apply V|].
  rewrite !(T15_openfile_ro c _ (a :: n') o perm R) by congruence.
  destruct (stat_s_veq s s' (path_clean (a :: n')) false V) as [E1 E2].
  destruct (stat_s s (path_clean (a :: n')) false) as [s1 r1], (stat_s s' (path_clean (a :: n')) false) as [s1' r2].
  cbn [fst snd] in *. subst r2. destruct r1 as [h| | |e]; try (cbn [fst snd]; repeat split; apply E2).
  destruct (stat_s_veq s1 s1' (path_clean (a :: n')) true E2) as [F1 F2].
  destruct (stat_s s1 (path_clean (a :: n')) true) as [s2 r1], (stat_s s1' (path_clean (a :: n')) true) as [s2' r2].
  cbn [fst snd] in *. subst r2. destruct r1 as [h| | |e]; cbn [fst snd]; repeat split; apply F2.
Qed.

(* after a read-only history every read returns what it returned before the history *)
Theorem T15_reads_history c s h : ro c -> ro_hist h -> opened (db s) -> has_live (db s) ->
  let s' := final c s h in
  (forall n sym, snd (stat_s s' n sym) = snd (stat_s s n sym)) /\
  (forall n lim, snd (inv_list (db s') n lim) = snd (inv_list (db s) n lim)) /\
  (forall path, snd (read_path c s' path) = snd (read_path c s path)) /\
  (forall n o perm, snd (fst (fs_openfile c s' n o perm)) = snd (fst (fs_openfile c s n o perm))
                    /\ snd (fs_openfile c s' n o perm) = snd (fs_openfile c s n o perm)) /\
  view c s' = view c s.
Proof.
  intros R RH O L s'. destruct (final_veq c R h s RH (conj O L)) as [Q _]. fold s' in Q.
  split; [|split; [|split; [|split]]].
  - intros n sym. symmetry. apply stat_s_veq. exact Q.
  - intros n lim. symmetry. apply inv_list_ceq. apply Q.
  - intro path. symmetry. apply read_path_veq. exact Q.
  - intros n o perm. destruct (openfile_veq c s s' n o perm R Q) as (A & B & _). split; symmetry; assumption.
  - symmetry. apply view_veq. exact Q.
Qed.

Print Assumptions T15_view_history.
Print Assumptions T15_reads_history.
