(* T13 / listing, string layer: the SQL selection of GetHeaderDirectChildren ([selp]) followed by the exact
   post-filter ([postf]) is, on a row with a cleaned absolute name and no link name, the predicate
   "live, not the root, and the parent ([path_dir]) of the name is the listed directory". *)
From Coq Require Import List NArith ZArith Bool Lia.
From Coq Require Import ZifyN ZifyBool.
Import ListNotations.
From STFS Require Import Str Db Norm StrLemmas C01Str C01Db T13Path.
Open Scope N_scope.

(* ---------- the two row predicates of get_direct_children *)
Definition selp (prefix : str) (rd : N) (r : row) : bool :=
  let k := r_name r in
  let d := sql_depth k prefix in
  sql_like (prefix ++ [pct]) k
  && ((d =? rd) || (ends_slash k && (d =? rd + 1)))
  && live r
  && (false || eqb_str (r_link r) [])
  && negb (is_root_name k).

Definition postf (prefix d : str) (r : row) : bool := is_direct_child prefix (r_name r) && not_self d r.

(* the statement's predicate *)
Definition childp (d : str) (r : row) : bool :=
  live r && negb (eqb_str (r_name r) [slash]) && eqb_str (path_dir (r_name r)) d.

(* ---------- slash counting *)
Lemma sc_app x y : slash_count (x ++ y) = slash_count x + slash_count y.
Proof. unfold slash_count. rewrite filter_app, app_length. lia. Qed.

Lemma sc_cons_slash x : slash_count (slash :: x) = 1 + slash_count x.
Proof. unfold slash_count. cbn [filter]. rewrite N.eqb_refl. cbn [length]. lia. Qed.

Lemma filter_noslash c : noslash c -> filter (fun x => x =? slash) c = [].
Proof.
  induction c as [|x c IH]; intro H; cbn [filter]; [reflexivity|].
  destruct (x =? slash) eqn:E.
  - apply N.eqb_eq in E. subst. exfalso. apply H. left. reflexivity.
  - apply IH. intro K. apply H. right. exact K.
Qed.

Lemma sc_noslash c : noslash c -> slash_count c = 0.
Proof. intro H. unfold slash_count. rewrite filter_noslash by exact H. reflexivity. Qed.

Lemma existsb_noslash c : noslash c -> existsb (fun x => x =? slash) c = false.
Proof.
  induction c as [|x c IH]; intro H; cbn [existsb]; [reflexivity|].
  destruct (x =? slash) eqn:E.
  - apply N.eqb_eq in E. subst. exfalso. apply H. left. reflexivity.
  - apply IH. intro K. apply H. right. exact K.
Qed.

Lemma sc_pth_ge cs : 1 <= slash_count (pth cs).
Proof. unfold pth. rewrite sc_cons_slash. lia. Qed.

Lemma sc_pth_single c : okc c -> slash_count (pth [c]) = 1.
Proof. intro H. rewrite pth_single, sc_cons_slash, sc_noslash by (apply okc_ns; exact H). reflexivity. Qed.

Lemma sc_pth_snoc cs c : cs <> [] -> 2 <= slash_count (pth (cs ++ [c])).
Proof.
  intro H. rewrite pth_snoc by exact H. rewrite sc_app, sc_cons_slash. pose proof (sc_pth_ge cs). lia.
Qed.

(* ---------- replace(name, prefix, '') on a direct child *)
Lemma remove_all_noslash pt c : noslash c -> forall fuel, sql_remove_all fuel (slash :: pt) c = c.
Proof.
  induction c as [|x c IH]; intros H fuel; destruct fuel as [|f]; cbn [sql_remove_all]; try reflexivity.
  cbn [has_prefix].
  destruct (slash =? x) eqn:E.
  - apply N.eqb_eq in E. subst. exfalso. apply H. left. reflexivity.
  - cbn [andb]. rewrite IH; [reflexivity|]. intro K. apply H. right. exact K.
Qed.

Lemma skipn_app_len {A} (a b : list A) : skipn (length a) (a ++ b) = b.
Proof. induction a as [|x a IH]; cbn; [reflexivity|exact IH]. Qed.

Lemma replace_child pt c : noslash c -> sql_replace_empty ((slash :: pt) ++ c) (slash :: pt) = c.
Proof.
  intro H. unfold sql_replace_empty.
  change ((slash :: pt) ++ c) with (slash :: (pt ++ c)) at 2.
  cbn [sql_remove_all].
  change (slash :: (pt ++ c)) with ((slash :: pt) ++ c).
  rewrite has_prefix_app'. rewrite skipn_app_len. apply remove_all_noslash. exact H.
Qed.

Lemma idc_nonempty prefix n : prefix <> [] ->
  is_direct_child prefix n = has_prefix prefix n
    && negb (existsb (fun c => c =? slash) (trim_suffix [slash] (trim_prefix prefix n))).
Proof. intro H. destruct prefix; [contradiction|reflexivity]. Qed.

Lemma okc_trim_slash c : okc c -> trim_suffix [slash] c = c.
Proof.
  intro H. apply trim_suffix_false. rewrite has_suffix_slash.
  destruct (okc_last c H) as (t & x & E & Ex). rewrite E. exact Ex.
Qed.

Lemma good_cons d : good d -> exists dj, d = slash :: dj.
Proof. intros (cs & _ & ->). eexists. reflexivity. Qed.

(* a direct child passes the SQL selection and the exact filter *)
Lemma child_sel d c : good d -> okc c ->
  sql_like ((d ++ [slash]) ++ [pct]) ((d ++ [slash]) ++ c) = true /\
  sql_depth ((d ++ [slash]) ++ c) (d ++ [slash]) = 0 /\
  is_direct_child (d ++ [slash]) ((d ++ [slash]) ++ c) = true.
Proof.
  intros G Hc. pose proof (okc_ns c Hc) as Hns. split; [|split].
  - apply like_of_prefix. apply has_prefix_app'.
  - destruct (good_cons d G) as (dj & ->). unfold sql_depth.
    change ((slash :: dj) ++ [slash]) with (slash :: (dj ++ [slash])).
    rewrite replace_child by exact Hns. apply sc_noslash. exact Hns.
  - rewrite idc_nonempty by (destruct d; discriminate).
    rewrite has_prefix_app', trim_prefix_app, okc_trim_slash by exact Hc.
    rewrite existsb_noslash by exact Hns. reflexivity.
Qed.

Lemma length_neq {A} (a b : list A) : length a <> length b -> a <> b.
Proof. intros H E. subst. apply H. reflexivity. Qed.

Lemma not_self_child d r : good (r_name r) -> r_name r <> [slash] -> (length d < length (r_name r))%nat ->
  not_self d r = true.
Proof.
  intros G Hn E. unfold not_self. rewrite good_trim_slash by assumption.
  apply andb_true_iff. split; apply negb_true_iff; apply eqb_str_neq; apply length_neq;
    rewrite ?app_length; cbn [length]; lia.
Qed.

(* ---------- a name that passes the exact filter is a direct child *)
Lemma join_two_slash a b r : existsb (fun x => x =? slash) (join_slash (a :: b :: r)) = true.
Proof.
  change (join_slash (a :: b :: r)) with (a ++ slash :: join_slash (b :: r)).
  rewrite existsb_app. cbn [existsb]. rewrite N.eqb_refl. cbn [orb]. apply orb_true_r.
Qed.

Lemma idc_parent d n : good d -> d <> [slash] -> good n -> is_direct_child (d ++ [slash]) n = true ->
  n <> [slash] /\ path_dir n = d.
Proof.
  intros Gd Hd Gn H. rewrite idc_nonempty in H by (destruct d; discriminate).
  apply andb_true_iff in H as [Hp Hs]. apply negb_true_iff in Hs.
  destruct (below_decompose d n Gd Hd Gn Hp) as (fcs & rcs & Hf & Hr & Ff & Fr & -> & En).
  change (slash :: join_slash fcs) with (pth fcs) in *.
  change (slash :: join_slash (fcs ++ rcs)) with (pth (fcs ++ rcs)) in En.
  rewrite En in Hs. rewrite pth_app in Hs by assumption.
  replace (pth fcs ++ slash :: join_slash rcs) with ((pth fcs ++ [slash]) ++ join_slash rcs) in Hs
    by (rewrite <- app_assoc; reflexivity).
  rewrite trim_prefix_app in Hs.
  assert (Ht : trim_suffix [slash] (join_slash rcs) = join_slash rcs).
  { apply trim_suffix_false. rewrite has_suffix_slash.
    destruct (join_last rcs Hr Fr) as (t & x & E & Ex). rewrite E. exact Ex. }
  rewrite Ht in Hs.
  destruct rcs as [|c [|b rt]]; [contradiction| |rewrite join_two_slash in Hs; discriminate].
  inversion Fr as [|? ? Hc _]; subst. split.
  - intro K. apply pth_root_iff in K; [destruct fcs; discriminate|].
    apply Forall_app. split; assumption.
  - apply path_dir_pth; assumption.
Qed.

(* ---------- the row predicate, directory other than the root *)
Lemma row_nonroot d r : good d -> d <> [slash] -> r_link r = [] -> (live r = true -> good (r_name r)) ->
  selp (d ++ [slash]) 0 r && postf (d ++ [slash]) d r = childp d r.
Proof.
  intros Gd Hd Hk Hg. apply eq_iff_eq_true. split; intro H.
  - apply andb_true_iff in H as [Hs Hp]. unfold selp in Hs.
    repeat (apply andb_true_iff in Hs as [Hs ?]). unfold postf in Hp. apply andb_true_iff in Hp as [Hp _].
    assert (Hl : live r = true) by assumption.
    destruct (idc_parent d (r_name r) Gd Hd (Hg Hl) Hp) as [Hn Hpd].
    unfold childp. rewrite Hl. cbn [andb]. apply andb_true_iff. split.
    + apply negb_true_iff. apply eqb_str_neq. exact Hn.
    + apply eqb_str_eq. exact Hpd.
  - unfold childp in H. apply andb_true_iff in H as [H Hpd]. apply andb_true_iff in H as [Hl Hn].
    apply negb_true_iff in Hn. apply eqb_str_neq in Hn. apply eqb_str_eq in Hpd.
    pose proof (Hg Hl) as G.
    destruct (good_split (r_name r) G Hn) as (cs & c & Fcs & Hc & En).
    rewrite En in Hpd. rewrite path_dir_pth in Hpd by assumption. subst d.
    assert (Hcs : cs <> []) by (intro K; subst cs; apply Hd; reflexivity).
    rewrite pth_snoc in En by exact Hcs.
    assert (En' : r_name r = (pth cs ++ [slash]) ++ c) by (rewrite En, <- app_assoc; reflexivity).
    destruct (child_sel (pth cs) c Gd Hc) as (S1 & S2 & S3).
    unfold selp, postf. rewrite Hl, Hk. rewrite (good_is_root_false _ G Hn).
    rewrite (not_self_child (pth cs) r G Hn) by (rewrite En, app_length; cbn [length]; lia).
    rewrite En'. rewrite S1, S2, S3. reflexivity.
Qed.

(* ---------- the row predicate, the root directory: prefix "", depth of the root row = 1 *)
Lemma row_root r : r_link r = [] -> (live r = true -> good (r_name r)) ->
  selp [] 1 r && postf [] [slash] r = childp [slash] r.
Proof.
  intros Hk Hg. apply eq_iff_eq_true. split; intro H.
  - apply andb_true_iff in H as [Hs _]. unfold selp in Hs.
    apply andb_true_iff in Hs as [Hs Hr]. apply andb_true_iff in Hs as [Hs _].
    apply andb_true_iff in Hs as [Hs Hl]. apply andb_true_iff in Hs as [_ Hd].
    pose proof (Hg Hl) as G. apply negb_true_iff in Hr.
    assert (Hn : r_name r <> [slash]) by (intro K; rewrite K in Hr; discriminate).
    unfold ends_slash in Hd. rewrite (good_no_trailing _ G Hn) in Hd. cbn [andb] in Hd. rewrite orb_false_r in Hd.
    change (sql_depth (r_name r) []) with (slash_count (r_name r)) in Hd. apply N.eqb_eq in Hd.
    destruct (good_split (r_name r) G Hn) as (cs & c & Fcs & Hc & En).
    assert (Hcs : cs = []).
    { destruct cs as [|a t]; [reflexivity|]. exfalso.
      pose proof (sc_pth_snoc (a :: t) c ltac:(discriminate)) as K. rewrite <- En in K. lia. }
    subst cs. unfold childp. rewrite Hl. cbn [andb]. apply andb_true_iff. split.
    + apply negb_true_iff. apply eqb_str_neq. exact Hn.
    + apply eqb_str_eq. rewrite En. rewrite path_dir_pth by assumption. reflexivity.
  - unfold childp in H. apply andb_true_iff in H as [H Hpd]. apply andb_true_iff in H as [Hl Hn].
    apply negb_true_iff in Hn. apply eqb_str_neq in Hn. apply eqb_str_eq in Hpd.
    pose proof (Hg Hl) as G.
    destruct (good_split (r_name r) G Hn) as (cs & c & Fcs & Hc & En).
    rewrite En in Hpd. rewrite path_dir_pth in Hpd by assumption.
    apply pth_root_iff in Hpd; [|exact Fcs]. subst cs. cbn [app] in En.
    unfold selp, postf. rewrite Hl, Hk. rewrite (good_is_root_false _ G Hn).
    change (sql_depth (r_name r) []) with (slash_count (r_name r)).
    rewrite (not_self_child [slash] r G Hn)
      by (rewrite En; destruct Hc as (Hc0 & _); destruct c; [contradiction|cbn; lia]).
    rewrite En. rewrite sc_pth_single by exact Hc. cbn [app]. rewrite like_pct_any. reflexivity.
Qed.
