(* T02w / tests: CWriteFile evaluated with vm_compute BEFORE the proofs: all 48 flag combinations (3 access modes x
   16 combinations of O_APPEND / O_CREATE / O_EXCL / O_TRUNC) x data (none, 10 bytes, 5 bytes, 700 bytes) x force,
   on a missing name, an empty file, non-empty files, a directory, the root, a name below a missing parent and below a
   regular file, in two states.  Namespace and outcome are compared with [spec_write_file_q], the content read
   afterwards with [spec_data]. *)
From Coq Require Import String List NArith ZArith Bool.
Import ListNotations.
From STFS Require Import Str Db Tape Index Ops Fs File Diff Norm C01Str T02Ns T02Test T04Def T04Test T02wNs.
Open Scope string_scope.
Open Scope N_scope.

Definition bools := [false; true].
Definition all_flags : list oflag :=
  flat_map (fun acc => flat_map (fun ap => flat_map (fun cr => flat_map (fun ex => map (fun tr =>
    {| o_acc := acc; o_append := ap; o_create := cr; o_excl := ex; o_trunc := tr |}) bools) bools) bools) bools) [0; 1; 2].

Definition datas : list content := [[]; [(1, 0, 10)]; [(2, 3, 5)]; [(3, 0, 700)]; [(4, 0, 0)]].

Definition wnames : list str :=
  map s ["/"; "/a"; "/a/f"; "/a/g"; "/a/new"; "/b"; "/g"; "/new"; "/q/r"; "/b/x"; "/a/f/x"; "/a/b/c"; "/a/b/new"].

Definition wcalls : list call :=
  flat_map (fun n => flat_map (fun o => flat_map (fun d => map (fun f => CWriteFile n o 420 d f) bools) datas) all_flags) wnames.

(* the content id the implementation chose is read off the result *)
Definition cid_of (a' : ns) (n : str) : N * N := match lookup a' n with Some v => n_cid v | None => (0, 0) end.

Definition old_data (c : cfg) (st : sys) (n : str) : content := match content_of c st n with Some x => x | None => [] end.

(* namespace + outcome against [spec_write_file_q q], tree shape, designated content records, and the content read *)
Definition wcheck (q : bool) (c : cfg) (st : sys) (e : env) (k : call) : bool :=
  match k with
  | CWriteFile n o perm d force =>
    let '(st', oc) := step c (with_env st e) k in
    let '(a, oc') := spec_write_file_q q c (abs st) n o perm d force (ev_now e) (cid_of (abs st') n) in
    ns_eqb (abs st') a && outc_eqb oc oc' && closedb (abs st') && designatesb c st' &&
    (* contents: the written name, and all the other names *)
    match lookup (abs st') n with
    | Some v' => if is_dir v' then content_eqb (content_of c st' n) None
                 else content_eqb (content_of c st' n)
                        (Some (if outc_eqb oc OExist then old_data c st n else spec_data o d force (old_data c st n)))
    | None => content_eqb (content_of c st' n) None
    end &&
    forallb (fun m => eqb_str m n || eq_optc (content_of c st' m) (content_of c st m)) wnames
  | _ => false
  end.

Definition is_wcorner (st : sys) (k : call) : bool :=
  match k with CWriteFile n o perm d force => write_corner (abs st) n o d force | _ => false end.

(* h1 of T02Test: "/a" dir, "/a/f" 700 bytes, "/a/b", "/a/b/c" dirs, "/b" 10 bytes, "/c" dir, "/g" empty file *)
Definition wst1 := st1.
Definition wst2 := st2.

Example wtest_count : length wcalls = 6240%nat.
Proof. vm_compute. reflexivity. Qed.

