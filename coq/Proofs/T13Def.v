(* T13 / definitions: the well-formed tree property of an index state, the type map of the live rows
   ([tfo l n] = typeflag of the live row named n), and the component-level form [wfm] of "every live
   name has a live directory as its parent". *)
From Coq Require Import List NArith ZArith Bool Lia.
From Coq Require Import ZifyN ZifyBool.
Import ListNotations.
From STFS Require Import Str Db Norm C01Str C01Db C01Inv T13Path.
Open Scope N_scope.

Definition lrows (p : pstate) : list row := filter live (rows p).

(* (i) no two live rows have the same name; (ii) every live row other than the root has a live parent row
   that is a directory; (iii) live names are cleaned absolute names *)
Definition wf_tree (p : pstate) : Prop :=
  NoDup (map r_name (lrows p)) /\
  (forall r, In r (lrows p) -> r_name r <> [slash] ->
     exists q, In q (lrows p) /\ r_name q = path_dir (r_name r) /\ r_tf q = TypeDir) /\
  (forall r, In r (lrows p) -> good (r_name r)).

(* the index of a running instance: cached root "/", no link names *)
Definition idx_plain (p : pstate) : Prop :=
  root p = [slash] /\ Forall (fun r => r_link r = []) (rows p).

(* ---------- the type map of the live rows *)
Definition tfo (l : list row) (n : str) : option N :=
  match find (fun r => live r && eqb_str (r_name r) n) l with Some r => Some (r_tf r) | None => None end.

Lemma tfo_some l n t : tfo l n = Some t -> exists x, In x l /\ live x = true /\ r_name x = n /\ r_tf x = t.
Proof.
  unfold tfo. destruct (find _ l) as [r|] eqn:E; [|discriminate]. intro H. inversion H; subst.
  apply find_some in E as [E1 E2]. apply andb_true_iff in E2 as [E2 E3]. apply eqb_str_eq in E3.
  exists r. repeat split; assumption.
Qed.

Lemma tfo_in l x : NoDup (map r_name l) -> In x l -> live x = true -> tfo l (r_name x) = Some (r_tf x).
Proof.
  unfold tfo. induction l as [|y l IH]; intros Hnd Hin Hl; [contradiction|].
  cbn [map] in Hnd. inversion Hnd as [|? ? Hnot Hnd']; subst. cbn [find].
  destruct Hin as [->|Hin].
  - rewrite Hl, eqb_str_refl. reflexivity.
  - destruct (live y && eqb_str (r_name y) (r_name x)) eqn:E.
    + exfalso. apply andb_true_iff in E as [_ E]. apply eqb_str_eq in E. apply Hnot. rewrite E. apply in_map. exact Hin.
    + apply IH; assumption.
Qed.

Lemma tfo_none l n : tfo l n = None <-> live_name l n = false.
Proof.
  unfold tfo, live_name. induction l as [|y l IH]; cbn [find existsb]; [split; reflexivity|].
  destruct (live y && eqb_str (r_name y) n); cbn [orb]; [split; discriminate|exact IH].
Qed.

Lemma tfo_live l n : live_name l n = true <-> tfo l n <> None.
Proof.
  split.
  - intros H K. apply tfo_none in K. congruence.
  - intro H. destruct (live_name l n) eqn:E; [reflexivity|]. apply tfo_none in E. contradiction.
Qed.

Lemma tfo_find_rows l n r : NoDup (map r_name l) -> find_rows l n = Some r -> tfo l n = Some (r_tf r).
Proof.
  intros Hnd H. apply find_rows_some in H as (H1 & H2 & H3). rewrite <- H3. apply tfo_in; assumption.
Qed.

(* ---------- component form of the parent condition *)
Definition wfm (f : str -> option N) : Prop :=
  forall cs c, Forall okc cs -> okc c -> f (pth (cs ++ [c])) <> None -> f (pth cs) = Some TypeDir.

Lemma wfm_ancestor f xs : wfm f -> forall rs, Forall okc (xs ++ rs) -> rs <> [] ->
  f (pth (xs ++ rs)) <> None -> f (pth xs) = Some TypeDir.
Proof.
  intros Hw rs. induction rs as [|c rs IH] using rev_ind; intros Hf Hn Hl; [contradiction|].
  rewrite app_assoc in Hf, Hl. apply Forall_app in Hf as [Hf1 Hf2]. inversion Hf2 as [|? ? Hc _]; subst.
  pose proof (Hw (xs ++ rs) c Hf1 Hc Hl) as K.
  destruct rs as [|r0 rt].
  - rewrite app_nil_r in K. exact K.
  - apply IH; [exact Hf1|discriminate|rewrite K; discriminate].
Qed.

Lemma wf_of_wfm p : Forall rowok (rows p) -> NoDup (map r_name (rows p)) -> wfm (tfo (rows p)) -> wf_tree p.
Proof.
  intros Hok Hnd Hw. unfold wf_tree, lrows. split; [|split].
  - apply NoDup_map_filter. exact Hnd.
  - intros r Hr Hn. apply filter_In in Hr as [Hin Hl].
    rewrite Forall_forall in Hok. destruct (Hok r Hin) as (G & _).
    destruct (good_split (r_name r) G Hn) as (cs & c & Hcs & Hc & E).
    assert (K : tfo (rows p) (pth cs) = Some TypeDir).
    { apply Hw with (c := c); [exact Hcs|exact Hc|]. rewrite <- E. rewrite (tfo_in _ r Hnd Hin Hl). discriminate. }
    apply tfo_some in K as (q & Q1 & Q2 & Q3 & Q4). exists q. split; [apply filter_In; split; assumption|].
    split; [|exact Q4]. rewrite Q3, E. symmetry. apply path_dir_pth; assumption.
  - intros r Hr. apply filter_In in Hr as [Hin _]. rewrite Forall_forall in Hok. apply (Hok r Hin).
Qed.
