(* T13 / the afero-level calls preserve "the live rows form a tree" (on top of the C01 invariant). *)
From Coq Require Import List NArith ZArith Bool Lia.
From Coq Require Import ZifyN ZifyBool.
Import ListNotations.
From STFS Require Spelling.
From STFS Require Import Str Db Tape Index Ops Fs Diff Norm TapeLemmas StrLemmas
  C01Str C01Db C01Inv C01Sim C01Tape C01Hdr C01Ops C01Ops2 C01Reads C01Fs C01Fs2
  T13Path T13Def T13Map T13Eff T13Ops T13Ops2.
Open Scope N_scope.

Definition OKt (hr : bool) (c : cfg) (s : sys) : Prop :=
  Inv hr c s /\ hbok s /\ wfm (tfo (rows (db s))).

Lemma wfm_ext f g : (forall m, g m = f m) -> wfm f -> wfm g.
Proof. intros H Hw cs c0 Hcs Hc Hl. rewrite H in Hl |- *. apply Hw with (c := c0); assumption. Qed.

Lemma wfm_parent f n : wfm f -> good n -> n <> [slash] -> f n <> None -> f (path_dir n) = Some TypeDir.
Proof.
  intros Hw G Hn Hl. destruct (good_split n G Hn) as (cs & c0 & Hcs & Hc & ->).
  rewrite path_dir_pth by assumption. apply Hw with (c := c0); assumption.
Qed.

Lemma parent_not_below n : good n -> n <> [slash] -> path_dir n <> n /\ ~ under n (path_dir n).
Proof.
  intros G Hn. destruct (good_split n G Hn) as (cs & c0 & Hcs & Hc & ->).
  assert (F : Forall okc (cs ++ [c0])) by (apply Forall_app; split; [exact Hcs|constructor; [exact Hc|constructor]]).
  rewrite path_dir_pth by assumption. split.
  - intro K. apply pth_inj in K; [|exact Hcs|exact F]. apply (f_equal (@length str)) in K. rewrite app_length in K. cbn in K. lia.
  - intro K. apply under_pth in K; [|destruct cs; discriminate|exact F|exact Hcs]. destruct K as (rs & _ & K).
    apply (f_equal (@length str)) in K. rewrite !app_length in K. cbn in K. lia.
Qed.

Lemma from_row_tfo hr lv h : LI hr lv -> from_row lv h -> tfo (rows lv) (h_name h) = Some (h_tf h).
Proof.
  intros HL (d & Hin & Hlive & ->). cbn [hdr_of_row h_name h_tf]. apply tfo_in; [apply HL|exact Hin|exact Hlive].
Qed.

Lemma tfo_alive lv n : tfo (rows lv) n <> None -> alive lv.
Proof. intro H. apply (live_alive lv n). apply tfo_live. exact H. Qed.

(* ---------- Stat of a cleaned name *)
Lemma slashed_not_good n : good n -> n <> [slash] -> ~ good (n ++ [slash]).
Proof.
  intros G Hn K. assert (Hne : n ++ [slash] <> [slash]).
  { intro E. destruct n as [|x n']; [apply (good_nonempty [] G); reflexivity|]. destruct n'; discriminate. }
  pose proof (good_no_trailing _ K Hne) as T. rewrite has_suffix_snoc in T. discriminate.
Qed.

Lemma get_header_slashed hr lv n : LI hr lv -> good n -> find_rows (rows lv) n = None ->
  get_header lv (trim_suffix [slash] n ++ [slash]) = (lv, NoRows).
Proof.
  intros HL G Hf. destruct (eqb_str n [slash]) eqn:En.
  - apply eqb_str_eq in En. subst n. rewrite root_trim_slash. cbn [app].
    rewrite (get_header_lv hr lv [slash] HL good_root). rewrite Hf. reflexivity.
  - apply eqb_str_neq in En. rewrite (good_trim_slash n G En).
    rewrite get_header_form. rewrite (sanitize_root_eq lv _ (li_root hr lv HL)).
    assert (E1 : is_root_name (n ++ [slash]) || eqb_str (n ++ [slash]) [slash] = false).
    { destruct G as (cs & Hcs & ->). destruct cs as [|a r]; [exfalso; apply En; reflexivity|].
      inversion Hcs as [|? ? Ha _]; subst. destruct (join_head a r Ha) as (x & t & E & Ex). rewrite E.
      unfold is_root_name. cbn. reflexivity. }
    rewrite E1. assert (E2 : is_abs (n ++ [slash]) = true) by (destruct G as (cs & _ & ->); reflexivity).
    rewrite E2. cbn [fst snd].
    destruct (find_rows (rows lv) (n ++ [slash])) as [d|] eqn:E; [|reflexivity]. exfalso.
    destruct (find_rows_link hr lv _ d HL E) as (_ & Hnm & (Gd & _)). rewrite Hnm in Gd.
    exact (slashed_not_good n G En Gd).
Qed.

Lemma stat_s_spec hr s name : LI hr (db s) -> good name ->
  exists res, stat_s s name false = (s, res) /\
    match res with
    | Ok h => from_row (db s) h /\ h_name h = name /\ tfo (rows (db s)) name = Some (h_tf h)
    | NoRows => tfo (rows (db s)) name = None
    | _ => False
    end.
Proof.
  intros HL G. unfold stat_s, inv_stat. rewrite (get_header_lv hr (db s) name HL G).
  destruct (find_rows (rows (db s)) name) as [d|] eqn:E.
  - destruct (find_rows_link hr (db s) name d HL E) as (Hk & Hn & _). rewrite Hk. cbn [eqb_str negb].
    rewrite set_db_same. eexists. split; [reflexivity|].
    destruct (find_rows_some _ _ _ E) as (Hin & Hlive & _).
    split; [exists d; repeat split; assumption|]. split; [exact Hn|].
    cbn [hdr_of_row h_tf]. apply tfo_find_rows; [apply HL|exact E].
  - rewrite (get_header_slashed hr (db s) name HL G E). rewrite set_db_same. eexists. split; [reflexivity|].
    apply tfo_none. apply find_rows_none. exact E.
Qed.

Lemma parent_check_spec hr s name : LI hr (db s) -> is_abs name = true ->
  exists o, parent_check s name = (s, o) /\ (o = OOk -> tfo (rows (db s)) (path_dir name) = Some TypeDir).
Proof.
  intros HL Ha. unfold parent_check.
  destruct (stat_s_spec hr s (path_dir name) HL (path_dir_good name Ha)) as (res & E & P). rewrite E.
  destruct res as [h| | |e]; try contradiction.
  - destruct (h_tf h =? TypeDir) eqn:Et; eexists; (split; [reflexivity|]); [|discriminate].
    intros _. apply N.eqb_eq in Et. destruct P as (_ & _ & P). rewrite P, Et. reflexivity.
  - eexists; split; [reflexivity|discriminate].
Qed.

(* ---------- joining one component *)
Lemma path_join2_pth cs part : Forall okc cs -> okc part -> path_join2 (pth cs) part = pth (cs ++ [part]).
Proof.
  intros Hcs Hp. assert (Hpn : part <> []) by apply Hp.
  assert (E0 : path_join2 (pth cs) part = path_clean (pth cs ++ slash :: part)).
  { unfold path_join2, pth. destruct part; [contradiction|reflexivity]. }
  rewrite E0. destruct cs as [|a r].
  - change (pth [] ++ slash :: part) with (slash :: slash :: part). unfold path_clean. rewrite N.eqb_refl.
    rewrite !split_slash_cons_slash. unfold split_slash. rewrite split_aux_noslash by (apply okc_ns; exact Hp).
    cbn [rev app]. rewrite clean_comps_ok.
    + cbn [rev app filter eqb_str negb]. destruct (okc_flags _ Hp) as (E & _). rewrite E. reflexivity.
    + constructor; [right; reflexivity|]. constructor; [right; reflexivity|]. constructor; [left; exact Hp|constructor].
  - rewrite <- pth_snoc by discriminate.
    apply path_clean_good. apply good_pth. apply Forall_app. split; [exact Hcs|constructor; [exact Hp|constructor]].
Qed.

Section FsT.
Variable hr : bool.
Variable c : cfg.
Hypothesis HP : plain c.
Hypothesis Hrs : 0 < c_rs c.
Hypothesis Hro : c_readonly c = false.

Notation OKt := (OKt hr c).
Notation tf s := (tfo (rows (db s))).
Ltac same_state := eexists _, _; split; [reflexivity|split; [assumption|split; assumption]].

(* ---------- creation of one entry below a live directory *)
Lemma mknode_t s dir name perm : OKt s -> good name ->
  (name = [slash] \/ tf s (path_dir name) = Some TypeDir) ->
  (tf s name = Some TypeDir -> dir = true) ->
  exists s', mknode c s dir name perm false [] false = (s', OOk) /\ OKt s' /\
    forall m, tf s' m = if eqb_str m name then Some (if dir then TypeDir else TypeReg) else tf s m.
Proof.
  intros (HI & Hhb & Hw) G Hpar Hty.
  assert (Hc : cpre (db s) name).
  { destruct Hpar as [K|K]; [left; exact K|]. apply alive_cpre. apply (tfo_alive (db s) (path_dir name)). rewrite K. discriminate. }
  destruct (mknode_ok_t hr c HP Hrs Hro s dir name perm HI Hhb G Hc) as (s' & E & A & B & F).
  exists s'. split; [exact E|]. split; [|exact F]. split; [exact A|]. split; [exact B|].
  apply (wfm_set (tf s) (tf s') name (if dir then TypeDir else TypeReg) Hw G Hpar); [|exact F].
  intro K. rewrite (Hty K). reflexivity.
Qed.

(* ---------- Mkdir *)
Lemma fs_mkdir_t s n perm : OKt s -> is_abs n = true ->
  exists s' o, fs_mkdir c s n perm = (s', o) /\ OKt s'.
Proof.
  intros (HI & Hhb & Hw) Ha. pose proof (iv_li hr c s HI) as HL. unfold fs_mkdir. rewrite Hro.
  pose proof (path_clean_abs_good n Ha) as G.
  destruct (parent_check_spec hr s (path_clean n) HL (good_abs _ G)) as (o & E & Hpar). rewrite E.
  destruct o; try same_state.
  destruct (stat_s_spec hr s (path_clean n) HL G) as (res & E2 & P). rewrite E2.
  destruct res as [h| | |e]; try same_state; try contradiction.
  rewrite (stat_s_true hr s (path_clean n) HL).
  destruct (mknode_t s true (path_clean n) perm (conj HI (conj Hhb Hw)) G (or_intror (Hpar eq_refl)) (fun _ => eq_refl))
    as (s' & E' & A & _).
  exists s', OOk. split; [exact E'|exact A].
Qed.

(* ---------- MkdirAll *)
Lemma mkdirall_loop_t perm parts : forall s cur cs, cur = pth cs -> OKt s -> Forall okc cs -> tf s (pth cs) = Some TypeDir ->
  Forall (fun p => okc p \/ p = []) parts ->
  exists s' o, mkdirall_loop c s cur false parts perm = (s', o) /\ OKt s'.
Proof.
  induction parts as [|part rest IH]; intros s cur cs Ecur (HI & Hhb & Hw) Hcs Hcur Hparts; cbn [mkdirall_loop]; [same_state|].
  pose proof (iv_li hr c s HI) as HL. cbn [andb].
  inversion Hparts as [|? ? Hp Hrest]. subst x l.
  destruct cur as [|c0 cr]; [discriminate|]. rewrite Ecur. clear c0 cr Ecur.
  destruct Hp as [Hp|Hp].
  - rewrite (path_join2_pth cs part Hcs Hp).
    assert (Fc : Forall okc (cs ++ [part])) by (apply Forall_app; split; [exact Hcs|constructor; [exact Hp|constructor]]).
    pose proof (good_pth _ Fc) as G'.
    destruct (stat_s_spec hr s (pth (cs ++ [part])) HL G') as (res & E2 & P). rewrite E2.
    destruct res as [h| | |e]; try same_state; try contradiction.
    + destruct (h_tf h =? TypeDir) eqn:Et; [|same_state]. apply N.eqb_eq in Et.
      apply (IH s _ (cs ++ [part]) eq_refl); [split; [assumption|split; assumption]|exact Fc| |exact Hrest].
      destruct P as (_ & _ & P). rewrite P, Et. reflexivity.
    + rewrite (stat_s_true hr s _ HL).
      destruct (mknode_t s true (pth (cs ++ [part])) perm (conj HI (conj Hhb Hw)) G') as (s' & E' & A & F).
      { right. rewrite path_dir_pth by assumption. exact Hcur. }
      { intros _. reflexivity. }
      rewrite E'. apply (IH s' _ (cs ++ [part]) eq_refl); [exact A|exact Fc| |exact Hrest]. rewrite F, eqb_str_refl. reflexivity.
  - subst part. assert (Ej : path_join2 (pth cs) [] = pth cs).
    { unfold path_join2. change (pth cs) with (slash :: join_slash cs). apply path_clean_good. apply good_pth. exact Hcs. }
    rewrite Ej. pose proof (good_pth _ Hcs) as G'.
    destruct (stat_s_spec hr s (pth cs) HL G') as (res & E2 & P). rewrite E2.
    destruct res as [h| | |e]; try contradiction.
    + destruct (h_tf h =? TypeDir); [|same_state]. apply (IH s _ cs eq_refl); [split; [assumption|split; assumption]|exact Hcs|exact Hcur|exact Hrest].
    + rewrite Hcur in P. discriminate.
Qed.

Lemma fs_mkdirall_t s n perm : OKt s -> is_abs n = true ->
  exists s' o, fs_mkdirall c s n perm = (s', o) /\ OKt s'.
Proof.
  intros (HI & Hhb & Hw) Ha. pose proof (iv_li hr c s HI) as HL. unfold fs_mkdirall. rewrite Hro.
  destruct (path_clean_abs_good n Ha) as (cs & Hcs & ->).
  rewrite split_slash_cons_slash. cbn [mkdirall_loop]. cbn [eqb_str andb].
  assert (Hparts : Forall (fun p => okc p \/ p = []) (split_slash (join_slash cs))).
  { destruct cs as [|a r]; [cbn; constructor; [right; reflexivity|constructor]|].
    rewrite split_join; [|discriminate|apply okc_noslash; exact Hcs].
    eapply Forall_impl; [|exact Hcs]. intros; left; assumption. }
  destruct (stat_s_spec hr s [slash] HL good_root) as (res & E2 & P). rewrite E2.
  destruct res as [h| | |e]; try same_state; try contradiction.
  - destruct (h_tf h =? TypeDir) eqn:Et; [|same_state]. apply N.eqb_eq in Et.
    apply (mkdirall_loop_t perm _ s [slash] [] eq_refl); [split; [assumption|split; assumption]|constructor| |exact Hparts].
    destruct P as (_ & _ & P). rewrite pth_nil, P, Et. reflexivity.
  - rewrite (stat_s_true hr s [slash] HL).
    destruct (mknode_t s true [slash] perm (conj HI (conj Hhb Hw)) good_root (or_introl eq_refl) (fun _ => eq_refl)) as (s' & E' & A & F).
    rewrite E'. apply (mkdirall_loop_t perm _ s' [slash] [] eq_refl); [exact A|constructor| |exact Hparts].
    rewrite pth_nil, F. reflexivity.
Qed.

(* ---------- Remove / RemoveAll *)
Definition rm_post (name : str) (s s' : sys) : Prop :=
  (forall m, tf s' m = None \/ tf s' m = tf s m) /\
  (forall m, m <> name -> ~ under name m -> tf s' m = tf s m).

Lemma delete_t s name : OKt s -> good name -> name <> [slash] ->
  exists s' o, delete_op c s name = (s', o) /\ OKt s' /\ tf s' name = None /\ rm_post name s s'.
Proof.
  intros (HI & Hhb & Hw) G Hn.
  destruct (delete_ok_t hr c HP Hrs s name HI Hhb G Hn) as (s' & o & E & A & B & W & D1 & D2 & D3).
  exists s', o. split; [exact E|]. split; [split; [exact A|split; [exact B|exact (W Hw)]]|]. split; [exact D1|split; assumption].
Qed.

Lemma rm_post_refl name s : rm_post name s s.
Proof. split; [intro; right; reflexivity|intros; reflexivity]. Qed.

Lemma fs_remove_nl_t s name : OKt s -> good name -> name <> [slash] ->
  exists s' o, fs_remove_nl c s name = (s', o) /\ OKt s' /\ (o = OOk -> tf s' name = None) /\ rm_post name s s'.
Proof.
  intros (HI & Hhb & Hw) G Hn. pose proof (iv_li hr c s HI) as HL. unfold fs_remove_nl. rewrite Hro.
  assert (SAME : forall o, o <> OOk -> exists s' o', (s, o) = (s', o') /\ OKt s' /\ (o' = OOk -> tf s' name = None) /\ rm_post name s s').
  { intros o Ho. exists s, o. split; [reflexivity|]. split; [split; [assumption|split; assumption]|]. split; [intro K; contradiction|apply rm_post_refl]. }
  assert (DEL : exists s' o, delete_op c s name = (s', o) /\ OKt s' /\ (o = OOk -> tf s' name = None) /\ rm_post name s s').
  { destruct (delete_t s name (conj HI (conj Hhb Hw)) G Hn) as (s' & o & E & A & D1 & D2).
    exists s', o. split; [exact E|]. split; [exact A|]. split; [intros _; exact D1|exact D2]. }
  assert (K : forall r, exists s' o,
     match r with
     | Ok h => if (h_tf h =? TypeDir) && eqb_str (h_link h) []
               then match inv_list (db s) name None with
                    | (p, Ok l) => match l with [] => delete_op c (set_db s p) name | _ :: _ => (set_db s p, ONotEmpty) end
                    | (p, e) => (set_db s p, outc_of_res e) end
               else delete_op c s name
     | NoRows => (s, ONotExist)
     | e => (s, outc_of_res e) end = (s', o) /\ OKt s' /\ (o = OOk -> tf s' name = None) /\ rm_post name s s').
  { intros [h| | |e]; try (apply SAME; discriminate).
    destruct ((h_tf h =? TypeDir) && eqb_str (h_link h) []); [|exact DEL].
    pose proof (inv_list_fst hr (db s) name None HL) as El.
    destruct (inv_list (db s) name None) as [p [l| | |e]]; cbn [fst] in El; subst p; rewrite set_db_same;
      try (apply SAME; discriminate).
    destruct l; [exact DEL|apply SAME; discriminate]. }
  destruct (stat_s_false hr s name HL) as (res & E2 & P). rewrite E2.
  destruct res as [h| | |e]; try contradiction.
  - apply (K (Ok h)).
  - rewrite (stat_s_true hr s name HL). apply (K NoRows).
Qed.

Lemma fs_remove_t s n : OKt s -> is_abs n = true -> path_clean n <> [slash] ->
  exists s' o, fs_remove c s n = (s', o) /\ OKt s'.
Proof.
  intros HO Ha Hn. unfold fs_remove. rewrite Hro.
  destruct (fs_remove_nl_t s (path_clean n) HO (path_clean_abs_good n Ha) Hn) as (s' & o & E & A & _).
  exists s', o. split; [exact E|exact A].
Qed.

Lemma fs_removeall_t s n : OKt s -> is_abs n = true -> path_clean n <> [slash] ->
  exists s' o, fs_removeall c s n = (s', o) /\ OKt s'.
Proof.
  intros HO Ha Hn. unfold fs_removeall. rewrite Hro.
  destruct (delete_t s (path_clean n) HO (path_clean_abs_good n Ha) Hn) as (s' & o & E & A & _). rewrite E.
  destruct o; eexists _, _; (split; [reflexivity|exact A]).
Qed.

(* ---------- Rename *)
Lemma move_t s old new : OKt s -> good old -> good new -> old <> [slash] -> new <> [slash] -> old <> new ->
  tf s (path_dir new) = Some TypeDir -> tf s new = None -> (tf s old = Some TypeDir -> ~ under old new) ->
  exists s' o, move_op c s old new = (s', o) /\ OKt s'.
Proof.
  intros (HI & Hhb & Hw) Go Gn Ho Hn Hne H1 H2 H3.
  destruct (move_ok_t hr c HP Hrs old new Go Gn Ho Hn Hne s HI Hhb Hw H1 H2 H3) as (s' & o & E & A & B & W).
  exists s', o. split; [exact E|]. split; [exact A|split; assumption].
Qed.

Lemma fs_rename_t s a b : OKt s -> is_abs a = true -> is_abs b = true -> path_clean b <> [slash] ->
  exists s' o, fs_rename c s a b = (s', o) /\ OKt s'.
Proof.
  intros (HI & Hhb & Hw) Ha Hb Hnb. pose proof (iv_li hr c s HI) as HL. unfold fs_rename. rewrite Hro.
  pose proof (path_clean_abs_good a Ha) as Go. pose proof (path_clean_abs_good b Hb) as Gn.
  destruct a as [|a0 a']; [discriminate|]. destruct b as [|b0 b']; [discriminate|].
  set (old := path_clean (a0 :: a')) in *. set (new := path_clean (b0 :: b')) in *.
  rewrite (get_root_path_lv hr (db s) HL). rewrite set_db_same.
  rewrite ?Spelling.spelling_root, ?(Spelling.spelling_good old Go), ?(Spelling.spelling_good new Gn), ?Spelling.orb_same.
  destruct (eqb_str [slash] old) eqn:Eo; [same_state|].
  assert (Hno : old <> [slash]) by (apply eqb_str_neq in Eo; congruence).
  assert (K : forall sh, tf s old = Some (h_tf sh) -> exists s' o,
        (if eqb_str old new then (s, OOk) else
        if (h_tf sh =? TypeDir) && has_prefix (trim_suffix [slash] old ++ [slash]) new then (s, OInvalid) else
        match parent_check s new with
        | (s, OOk) =>
          match stat_s s new false with
          | (s, Ok th) =>
            if negb (h_tf th =? h_tf sh) then (s, OExist)
            else match fs_remove_nl c s new with
                 | (s, OOk) => move_op c s old new
                 | x => x
                 end
          | (s, _) => move_op c s old new
          end
        | x => x
        end) = (s', o) /\ OKt s').
  { intros sh Hsh.
    destruct (eqb_str old new) eqn:Eon; [same_state|]. apply eqb_str_neq in Eon.
    rewrite (good_trim_slash old Go Hno).
    destruct ((h_tf sh =? TypeDir) && has_prefix (old ++ [slash]) new) eqn:Enest; [same_state|].
    assert (Hnest : forall s1, (tf s1 old = None \/ tf s1 old = tf s old) -> tf s1 old = Some TypeDir -> ~ under old new).
    { intros s1 [H1|H1] H2 Hu; [rewrite H1 in H2; discriminate|]. rewrite H1, Hsh in H2. inversion H2 as [H3].
      unfold under in Hu. rewrite H3, Hu, N.eqb_refl in Enest. discriminate. }
    destruct (parent_check_spec hr s new HL (good_abs _ Gn)) as (o & E & Hpar). rewrite E. destruct o; try same_state.
    specialize (Hpar eq_refl).
    destruct (stat_s_spec hr s new HL Gn) as (res & E2 & P). rewrite E2.
    destruct res as [th| | |e]; try contradiction.
    - destruct (negb (h_tf th =? h_tf sh)); [same_state|].
      destruct (fs_remove_nl_t s new (conj HI (conj Hhb Hw)) Gn Hnb) as (s1 & o1 & E1 & A1 & D1 & D2 & D3). rewrite E1.
      destruct o1; try (eexists _, _; split; [reflexivity|exact A1]).
      destruct (parent_not_below new Gn Hnb) as (N1 & N2).
      apply move_t; try assumption.
      + rewrite (D3 _ N1 N2). exact Hpar.
      + apply D1. reflexivity.
      + apply Hnest. apply D2.
    - apply move_t; try assumption; [split; [assumption|split; assumption]|]. apply Hnest. right. reflexivity. }
  destruct (stat_s_spec hr s old HL Go) as (res & E2 & P). rewrite E2.
  destruct res as [h| | |e]; try contradiction.
  - apply K. apply P.
  - rewrite (stat_s_true hr s old HL). same_state.
Qed.

(* ---------- Chmod / Chown / Chtimes *)
Lemma fs_update_meta_t s n patch : OKt s -> is_abs n = true ->
  (forall h, h_name (patch h) = h_name h /\ h_link (patch h) = h_link h /\ h_pax (patch h) = h_pax h /\ h_tf (patch h) = h_tf h) ->
  exists s' o, fs_update_meta c s n patch = (s', o) /\ OKt s'.
Proof.
  intros (HI & Hhb & Hw) Ha Hpatch. pose proof (iv_li hr c s HI) as HL. unfold fs_update_meta. rewrite Hro.
  destruct n as [|n0 n']; [discriminate|]. set (name := path_clean (n0 :: n')).
  destruct (stat_s_false hr s name HL) as (res & E2 & P). rewrite E2.
  destruct res as [h| | |e]; try contradiction.
  - destruct (from_row_facts hr (db s) h HL P) as (G & Hk & Hu & Hlive).
    destruct (Hpatch h) as (P1 & P2 & P3 & P4).
    destruct (update_ok_t hr c HP Hrs s {| f_hdr := patch h; f_data := [] |} false false HI Hhb) as (s' & E & A & B & F);
      cbn [f_hdr]; rewrite ?P1, ?P2, ?P3; try assumption.
    exists s', OOk. split; [exact E|]. split; [exact A|]. split; [exact B|].
    apply (wfm_ext (tf s)); [|exact Hw]. intro m. rewrite F. cbn [f_hdr]. rewrite P1, P4.
    destruct (eqb_str m (h_name h)) eqn:Em; [|reflexivity]. apply eqb_str_eq in Em. subst m.
    symmetry. apply (from_row_tfo hr); assumption.
  - rewrite (stat_s_true hr s name HL). same_state.
Qed.

(* ---------- OpenFile / Create / Write / Close *)
Definition hd_good_t (s : sys) (hd : handle) : Prop :=
  hd_good s hd /\ (hd_buf hd <> None -> h_tf (hd_info hd) <> TypeDir).

Lemma fs_openfile_t s n o perm : OKt s -> is_abs n = true ->
  exists s' oc hd, fs_openfile c s n o perm = (s', oc, hd) /\ OKt s' /\ (forall x, hd = Some x -> hd_good_t s' x).
Proof.
  intros (HI & Hhb & Hw) Ha. pose proof (iv_li hr c s HI) as HL. unfold fs_openfile.
  pose proof (path_clean_abs_good n Ha) as G.
  destruct n as [|n0 n']; [discriminate|]. set (name := path_clean (n0 :: n')) in *.
  set (fl := decode_flags c o).
  assert (FIN : forall s2 h cr, OKt s2 -> from_row (db s2) h ->
    exists s' oc hd,
      (if negb cr && negb (c_readonly c) && o_create o && o_excl o then (s2, OExist, None)
       else if (h_tf h =? TypeDir) && (fl_write fl || fl_append fl || fl_trunc fl) then (s2, OIsDir, None)
       else (s2, OOk, Some {| hd_path := h_name h; hd_link := h_link h; hd_flags := fl; hd_info := h;
                              hd_buf := if fl_write fl && fl_trunc fl && negb (h_tf h =? TypeDir) && negb (h_size h =? 0) then Some [] else None |}))
      = (s', oc, hd) /\ OKt s' /\ (forall x, hd = Some x -> hd_good_t s' x)).
  { intros s2 h cr HO Hfr.
    destruct (negb cr && negb (c_readonly c) && o_create o && o_excl o).
    { eexists _, _, _. split; [reflexivity|]. split; [exact HO|discriminate]. }
    destruct ((h_tf h =? TypeDir) && (fl_write fl || fl_append fl || fl_trunc fl)).
    { eexists _, _, _. split; [reflexivity|]. split; [exact HO|discriminate]. }
    eexists _, _, _. split; [reflexivity|]. split; [exact HO|]. intros x Hx. inversion Hx; subst x.
    split; [split; [exact Hfr|split; reflexivity]|]. cbn [hd_buf hd_info].
    destruct (h_tf h =? TypeDir) eqn:Et.
    - cbn [negb]. rewrite andb_false_r. cbn [andb]. intro K. contradiction.
    - intros _ K. rewrite K in Et. rewrite N.eqb_refl in Et. discriminate. }
  assert (NOH : forall s2 oc, OKt s2 -> exists s' oc' (hd : option handle), ((s2, oc, None) : sys * outc * option handle) = (s', oc', hd) /\ OKt s' /\
                 (forall x, hd = Some x -> hd_good_t s' x)).
  { intros s2 oc HO. eexists _, _, _. split; [reflexivity|]. split; [exact HO|discriminate]. }
  assert (HO : OKt s) by (split; [assumption|split; assumption]).
  destruct (stat_s_spec hr s name HL G) as (res & E2 & P). rewrite E2.
  destruct res as [h| | |e]; try contradiction.
  - apply FIN; [exact HO|apply P].
  - rewrite (stat_s_true hr s name HL).
    destruct (negb (c_readonly c) && o_create o); [|apply NOH; exact HO].
    destruct (parent_check_spec hr s name HL (good_abs _ G)) as (o1 & E & Hpar). rewrite E.
    destruct o1; try (apply NOH; exact HO).
    destruct (mknode_t s false name perm HO G (or_intror (Hpar eq_refl))) as (s1 & E1 & A1 & _).
    { intro K. rewrite P in K. discriminate. }
    rewrite E1. pose proof (iv_li hr c s1 (proj1 A1)) as HL1.
    destruct (stat_s_false hr s1 name HL1) as (res & E3 & P3). rewrite E3.
    destruct res as [h| | |e]; try contradiction.
    + apply FIN; [exact A1|exact P3].
    + apply NOH; exact A1.
Qed.

Lemma fs_create_t s n : OKt s -> is_abs n = true ->
  exists s' oc hd, fs_create c s n = (s', oc, hd) /\ OKt s' /\ (forall x, hd = Some x -> hd_good_t s' x).
Proof.
  intros HO Ha. pose proof (iv_li hr c s (proj1 HO)) as HL. unfold fs_create. rewrite Hro.
  pose proof (path_clean_abs_good n Ha) as G.
  destruct n as [|n0 n']; [discriminate|]. set (name := path_clean (n0 :: n')) in *.
  destruct (parent_check_lv hr s name HL) as (o1 & E). rewrite E.
  destruct o1; try (eexists _, _, _; split; [reflexivity|]; split; [exact HO|discriminate]).
  apply fs_openfile_t; [exact HO|apply good_abs; exact G].
Qed.

Lemma handle_close_t s hd buf : OKt s -> hd_good s hd -> (buf <> None -> h_tf (hd_info hd) <> TypeDir) ->
  exists s' o, handle_close c s hd buf = (s', o) /\ OKt s'.
Proof.
  intros (HI & Hhb & Hw) (Hfr & Hp & Hl) Hnd. pose proof (iv_li hr c s HI) as HL. unfold handle_close.
  destruct buf as [b|]; [|same_state].
  destruct (from_row_facts hr (db s) _ HL Hfr) as (G & Hk & Hu & Hlive).
  destruct (update_ok_t hr c HP Hrs s {| f_hdr := stamp_mtime (flush_hdr hd (clen b)) (clk s); f_data := b |} true true HI Hhb) as (s' & E & A & B & F);
    cbn [f_hdr stamp_mtime flush_hdr h_name h_link h_pax]; rewrite ?Hp, ?Hl; try assumption.
  - exact I.
  - exists s', OOk. split; [exact E|]. split; [exact A|]. split; [exact B|].
    cbn [f_hdr stamp_mtime flush_hdr h_name h_tf] in F. rewrite Hp in F.
    pose proof (from_row_tfo hr (db s) _ HL Hfr) as Hcur.
    apply (wfm_set (tf s) (tf s') (h_name (hd_info hd)) TypeReg Hw G); [| |exact F].
    + destruct (eqb_str (h_name (hd_info hd)) [slash]) eqn:En; [left; apply eqb_str_eq; exact En|right].
      apply eqb_str_neq in En. apply wfm_parent; [exact Hw|exact G|exact En|rewrite Hcur; discriminate].
    + intro K. rewrite Hcur in K. inversion K as [K']. exfalso. apply Hnd; [discriminate|exact K'].
Qed.

Lemma write_close_t s hd d force : OKt s -> hd_good_t s hd ->
  exists s' o, write_close c s hd d force = (s', o) /\ OKt s'.
Proof.
  intros HO (Hg & Hb). pose proof (iv_li hr c s (proj1 HO)) as HL. unfold write_close.
  assert (K : exists s' o,
     match handle_write_all c s hd d with
     | (s0, OOk, Some b) => handle_close c s0 hd (Some b)
     | (s0, e, _) => (s0, e) end = (s', o) /\ OKt s').
  { pose proof (handle_write_all_lv hr c s hd d HL) as E.
    assert (Hnd : forall o1 b, handle_write_all c s hd d = (s, o1, Some b) -> h_tf (hd_info hd) <> TypeDir).
    { intros o1 b Hwa K. unfold handle_write_all in Hwa. rewrite K, N.eqb_refl in Hwa. discriminate. }
    destruct (handle_write_all c s hd d) as [[s1 o1] ob]. cbn [fst] in E. subst s1.
    destruct o1; try (eexists _, _; split; [reflexivity|exact HO]).
    destruct ob as [b|]; [|eexists _, _; split; [reflexivity|exact HO]].
    apply handle_close_t; [exact HO|exact Hg|]. intros _. apply (Hnd OOk b eq_refl). }
  destruct d; [destruct force; [exact K|apply handle_close_t; assumption]|exact K].
Qed.

(* ---------- every call *)
Lemma step_t s k : OKt s -> fs_call k = true -> call_ok k = true -> (is_reopen k = true -> hr = true) ->
  exists s' o, step c s k = (s', o) /\ OKt s'.
Proof.
  intros HO Hf Hc Hre. pose proof (iv_li hr c s (proj1 HO)) as HL.
  unfold call_ok in Hc. apply andb_true_iff in Hc as [Hc Hk].
  destruct k; cbn [step fs_call rename_ok root_kept is_reopen] in *; try discriminate.
  - eapply fs_mkdir_t; eassumption.
  - eapply fs_mkdirall_t; eassumption.
  - eapply fs_remove_t; try eassumption. apply negb_true_iff in Hk. apply eqb_str_neq. exact Hk.
  - eapply fs_removeall_t; try eassumption. apply negb_true_iff in Hk. apply eqb_str_neq. exact Hk.
  - apply andb_true_iff in Hf as [Ha Hb]. apply negb_true_iff in Hc.
    apply fs_rename_t; try assumption. apply eqb_str_neq. exact Hc.
  - eapply fs_update_meta_t; try eassumption. intro h. repeat split.
  - eapply fs_update_meta_t; try eassumption. intro h. repeat split.
  - eapply fs_update_meta_t; try eassumption. intro h. repeat split.
  - destruct (fs_create_t s n HO Hf) as (s1 & oc & hd & E & A & B). rewrite E.
    destruct oc; try (eexists _, _; split; [reflexivity|exact A]).
    destruct hd as [hd|]; [|eexists _, _; split; [reflexivity|exact A]].
    apply write_close_t; [exact A|apply B; reflexivity].
  - destruct (fs_openfile_t s n o perm HO Hf) as (s1 & oc & hd & E & A & B). rewrite E.
    destruct oc; try (eexists _, _; split; [reflexivity|exact A]).
    destruct hd as [hd|]; [|eexists _, _; split; [reflexivity|exact A]].
    apply write_close_t; [exact A|apply B; reflexivity].
  - unfold fs_initialize. rewrite (get_root_path_lv hr (db s) HL). rewrite set_db_same.
    eexists _, _. split; [reflexivity|exact HO].
  - specialize (Hre eq_refl). subst hr. rewrite (p_open_lv (db s) HL). rewrite set_db_same.
    eexists _, _. split; [reflexivity|exact HO].
  - eexists _, _. split; [reflexivity|exact HO].
Qed.
End FsT.
