(* C01 / tape layer: the replay loops as a fold of indexHeader over (start, header) pairs; rebuild of
   an extended tape; the live replay from the last indexed member; GetLastIndexedRecordAndBlock. *)
From Coq Require Import List NArith ZArith Bool Lia.
From Coq Require Import ZifyN ZifyBool.
Import ListNotations.
From STFS Require Import Str Db Tape Index Ops Norm TapeLemmas C01Str C01Db C01Inv C01Sim.
Open Scope N_scope.

(* ---------- the fold *)
Fixpoint loop0 (c : cfg) (l : list (N * hdr)) (p : pstate) : pstate * res unit :=
  match l with
  | [] => (p, Ok tt)
  | (start, h) :: rest =>
    match index_header c (fst (pos_of (c_rs c) start)) (snd (pos_of (c_rs c) start)) h false p with
    | (p, Ok _) => loop0 c rest p
    | (p, e) => (p, e)
    end
  end.

Definition hd_of (l : list (N * member)) : list (N * hdr) := map (fun sm => (fst sm, m_hdr (snd sm))) l.

Lemma loop0_app c l1 : forall l2 p, loop0 c (l1 ++ l2) p =
  match loop0 c l1 p with (p', Ok _) => loop0 c l2 p' | x => x end.
Proof.
  induction l1 as [|[st h] l1 IH]; intros l2 p; cbn [app loop0]; [reflexivity|].
  destruct (index_header c _ _ h false p) as [p1 [u| | |e]]; try reflexivity. apply IH.
Qed.

Lemma index_loop_none c ms : forall i p, index_loop c ms i 0 None false p = loop0 c (hd_of ms) p.
Proof.
  induction ms as [|[st m] ms IH]; intros i p; cbn [index_loop hd_of map loop0 fst snd]; [reflexivity|].
  replace (i <? 0)%nat with false by (symmetry; apply Nat.ltb_ge; lia).
  destruct (pos_of (c_rs c) st) as [rec blk] eqn:E. cbn [fst snd].
  destruct (index_header c rec blk (m_hdr m) false p) as [p1 [u| | |e]]; try reflexivity. apply IH.
Qed.

Lemma index_loop_subst c ms : forall k pre p, length pre = k ->
  index_loop c ms (S k) 1 (Some (pre ++ map (fun sm => m_hdr (snd sm)) ms)) false p = loop0 c (hd_of ms) p.
Proof.
  induction ms as [|[st m] ms IH]; intros k pre p Hk; cbn [index_loop hd_of map loop0 fst snd]; [reflexivity|].
  replace (S k <? 1)%nat with false by (symmetry; apply Nat.ltb_ge; lia).
  replace (S k - 1)%nat with k by lia.
  rewrite nth_error_app2 by lia. rewrite Hk, Nat.sub_diag. cbn [nth_error].
  destruct (pos_of (c_rs c) st) as [rec blk] eqn:E. cbn [fst snd].
  destruct (index_header c rec blk (m_hdr m) false p) as [p1 [u| | |e]]; try reflexivity.
  specialize (IH (S k) (pre ++ [m_hdr m]) p1). rewrite <- app_assoc in IH. cbn [app] in IH.
  apply IH. rewrite app_length. cbn. lia.
Qed.

(* ---------- members with their starts *)
Definition ms_of (ws : list (N * titem)) : list (N * member) :=
  flat_map (fun p => match snd p with TM m => [(fst p, m)] | TT => [] end) ws.

Fixpoint mstarts (ms : list member) (at_ : N) : list (N * member) :=
  match ms with
  | [] => []
  | m :: r => (at_, m) :: mstarts r (at_ + item_blocks (TM m))
  end.

Lemma ms_of_app a b : ms_of (a ++ b) = ms_of a ++ ms_of b.
Proof. unfold ms_of. apply flat_map_app. Qed.

Lemma ms_of_new ms : forall B, ms_of (with_starts (map TM ms ++ [TT]) B) = mstarts ms B.
Proof.
  induction ms as [|m r IH]; intro B; cbn; [reflexivity|]. f_equal. apply IH.
Qed.

Lemma mstarts_snd ms : forall B, map snd (mstarts ms B) = ms.
Proof. induction ms as [|m r IH]; intro B; cbn; [reflexivity|]. f_equal. apply IH. Qed.

Lemma mstarts_ge ms : forall B x, In x (mstarts ms B) -> B <= fst x.
Proof.
  induction ms as [|m r IH]; intros B x H; cbn in H; [contradiction|].
  destruct H as [<-|H]; [cbn; lia|]. apply IH in H. lia.
Qed.

Lemma members_from_zero t : members_from t 0 = Some (ms_of (with_starts t 0)).
Proof.
  unfold members_from.
  assert (E : (0 =? tape_blocks t) || existsb (fun p => fst p =? 0) (with_starts t 0) = true).
  { destruct t as [|i r]; [reflexivity|]. cbn. apply orb_true_r. }
  rewrite E. f_equal. unfold ms_of. apply flat_map_ext. intros [a i]. cbn [fst snd]. destruct i; [|reflexivity]. replace (0 <=? a) with true by lia. reflexivity.
Qed.

Lemma rebuild_loop c t : rebuild c t = loop0 c (hd_of (ms_of (with_starts t 0))) p_empty.
Proof.
  unfold rebuild, index_tape. cbn [purge]. rewrite members_from_zero. apply index_loop_none.
Qed.

Definition new_items (ms : list member) : tape := map TM ms ++ [TT].

Lemma rebuild_extend c t ms :
  rebuild c (t ++ new_items ms) =
  match rebuild c t with
  | (p', Ok _) => loop0 c (hd_of (mstarts ms (tape_blocks t))) p'
  | x => x
  end.
Proof.
  rewrite !rebuild_loop. unfold new_items. rewrite with_starts_app, ms_of_app. unfold hd_of at 1. rewrite map_app.
  fold (hd_of (ms_of (with_starts t 0))).
  rewrite loop0_app. rewrite ms_of_new. cbn [N.add]. reflexivity.
Qed.

(* ---------- the live replay *)
Definition pos_items (t : tape) : Prop := Forall (fun i => 0 < item_blocks i) t.

Lemma ms_of_filter_lt t : forall a L, pos_items t -> a + tape_blocks t <= L ->
  flat_map (fun p => match snd p with TM m => if L <=? fst p then [(fst p, m)] else [] | TT => [] end) (with_starts t a) = [].
Proof.
  induction t as [|i r IH]; intros a L Hp HL; cbn; [reflexivity|].
  inversion Hp as [|? ? Hi Hr]; subst.
  assert (E : tape_blocks (i :: r) = item_blocks i + tape_blocks r) by reflexivity.
  rewrite IH; [|exact Hr|lia]. rewrite app_nil_r.
  destruct i; [|reflexivity]. replace (L <=? a) with false by lia. reflexivity.
Qed.

Lemma ms_of_filter_ge t : forall a L, L <= a ->
  flat_map (fun p => match snd p with TM m => if L <=? fst p then [(fst p, m)] else [] | TT => [] end) (with_starts t a)
  = ms_of (with_starts t a).
Proof.
  induction t as [|i r IH]; intros a L HL; cbn; [reflexivity|].
  unfold ms_of in *. cbn. rewrite IH by lia. destruct i; [|reflexivity].
  replace (L <=? a) with true by lia. reflexivity.
Qed.

Lemma members_from_last pre m ms : pos_items pre ->
  members_from ((pre ++ [TM m; TT]) ++ new_items ms) (tape_blocks pre)
  = Some ((tape_blocks pre, m) :: mstarts ms (tape_blocks (pre ++ [TM m; TT]))).
Proof.
  intro Hp. unfold members_from.
  rewrite <- app_assoc. rewrite with_starts_app. cbn [N.add].
  remember (tape_blocks pre) as L eqn:EL.
  assert (E : existsb (fun p => fst p =? L) (with_starts pre 0 ++ with_starts ([TM m; TT] ++ new_items ms) L) = true).
  { rewrite existsb_app. cbn. rewrite N.eqb_refl. cbn. apply orb_true_r. }
  rewrite E, orb_true_r. f_equal. rewrite flat_map_app.
  rewrite ms_of_filter_lt; [|exact Hp|lia]. cbn [app].
  rewrite ms_of_filter_ge by lia. cbn [app with_starts ms_of flat_map snd fst].
  f_equal. fold (ms_of (with_starts (new_items ms) (L + item_blocks (TM m) + item_blocks TT))).
  unfold new_items. rewrite ms_of_new. f_equal.
  rewrite tape_blocks_app. rewrite <- EL. unfold tape_blocks. cbn. lia.
Qed.

Lemma live_replay c pre m ms p : pos_items pre ->
  index_tape c ((pre ++ [TM m; TT]) ++ new_items ms) (tape_blocks pre) 1 (Some (map m_hdr ms)) false false p
  = loop0 c (hd_of (mstarts ms (tape_blocks (pre ++ [TM m; TT])))) p.
Proof.
  intro Hp. unfold index_tape. rewrite members_from_last by exact Hp.
  cbn [index_loop]. replace (0 <? 1)%nat with true by reflexivity.
  set (new := mstarts ms (tape_blocks (pre ++ [TM m; TT]))).
  assert (E : map m_hdr ms = [] ++ map (fun sm => m_hdr (snd sm)) new).
  { cbn [app]. unfold new. rewrite <- (mstarts_snd ms (tape_blocks (pre ++ [TM m; TT]))) at 1. rewrite map_map. reflexivity. }
  rewrite E. apply index_loop_subst. reflexivity.
Qed.

(* ---------- last_indexed *)
Definition lk_le (rs : N) (l : list row) (X : N) : Prop :=
  forall y, In y (lks l) -> off_of rs (fst y) (snd y) <= X.

Lemma last_indexed_fold rs l : forall best,
  let r := fold_left (fun best r => if fst best * rs + snd best <? r_lkrec r * rs + r_lkblk r
                                    then (r_lkrec r, r_lkblk r) else best) l best in
  (r = best \/ In r (lks l)) /\ fst best * rs + snd best <= fst r * rs + snd r /\
  forall y, In y (lks l) -> fst y * rs + snd y <= fst r * rs + snd r.
Proof.
  induction l as [|x t IH]; intro best; cbn zeta; cbn [fold_left].
  - split; [left; reflexivity|]. split; [lia|]. intros y [].
  - specialize (IH (if fst best * rs + snd best <? r_lkrec x * rs + r_lkblk x then (r_lkrec x, r_lkblk x) else best)).
    cbn zeta in IH. destruct IH as (A & B & C).
    set (r := fold_left _ t _) in *.
    destruct (fst best * rs + snd best <? r_lkrec x * rs + r_lkblk x) eqn:E.
    + cbn [fst snd] in B. split; [|split].
      * destruct A as [A|A]; [right; left; symmetry; exact A|right; right; exact A].
      * lia.
      * intros y [<-|Hy]; [cbn [fst snd]; lia|apply C; exact Hy].
    + split; [|split].
      * destruct A as [A|A]; [left; exact A|right; right; exact A].
      * exact B.
      * intros y [<-|Hy]; [cbn [fst snd]; lia|apply C; exact Hy].
Qed.

Lemma last_indexed_max rs p X y : lk_le rs (rows p) X -> In y (lks (rows p)) -> off_of rs (fst y) (snd y) = X ->
  off_of rs (fst (last_indexed p rs)) (snd (last_indexed p rs)) = X.
Proof.
  intros Hle Hy HX. unfold last_indexed.
  pose proof (last_indexed_fold rs (rows p) (0, 0)) as H. cbn zeta in H.
  set (r := fold_left _ (rows p) (0, 0)) in *. destruct H as (A & _ & C).
  specialize (C y Hy). unfold off_of in *.
  assert (fst r * rs + snd r <= X).
  { destruct A as [A|A]; [rewrite A; cbn; lia|]. specialize (Hle r A). unfold off_of in Hle. lia. }
  lia.
Qed.

(* ---------- running the fold on related states *)
Definition lpre (l : list (N * hdr)) (lv rb : pstate) : Prop :=
  match l with
  | [] => True
  | [(_, h)] => hpre lv rb h
  | _ :: _ :: _ => root_empty rb = true
  end.

Section LoopSim.
Variable hr : bool.
Variable c : cfg.
Hypothesis HP : plain c.
Variable Q : list hdr -> pstate -> Prop.
Hypothesis HS : forall rec blk h rest lv, LI hr lv -> Q (h :: rest) lv ->
  exists lv', index_header c rec blk h false lv = (lv', Ok tt) /\ In (rec, blk) (lks (rows lv')) /\ Q rest lv'.

Lemma loop_sim : forall l lv rb, LI hr lv -> R lv rb -> Forall (hnames_ok hr) (map snd l) -> Q (map snd l) lv ->
  lpre l lv rb ->
  exists lv' rb', loop0 c l lv = (lv', Ok tt) /\ loop0 c l rb = (rb', Ok tt) /\ LI hr lv' /\ R lv' rb' /\
    (forall y, In y (lks (rows lv')) -> In y (lks (rows lv)) \/ exists st, In st (map fst l) /\ y = pos_of (c_rs c) st) /\
    (l <> [] -> In (pos_of (c_rs c) (last (map fst l) 0)) (lks (rows lv'))) /\ Q [] lv'.
Proof.
  induction l as [|[st h] rest IH]; intros lv rb HL HR HF HQ Hpre.
  - exists lv, rb. cbn. split; [reflexivity|]. split; [reflexivity|]. split; [exact HL|]. split; [exact HR|].
    split; [intros y Hy; left; exact Hy|]. split; [intro K; contradiction|exact HQ].
  - cbn [map snd fst] in *. inversion HF as [|? ? Hh Hrest]; subst.
    assert (Hh_pre : hpre lv rb h).
    { destruct rest as [|x rest']; [exact Hpre|left; exact Hpre]. }
    destruct (HS (fst (pos_of (c_rs c) st)) (snd (pos_of (c_rs c) st)) h (map snd rest) lv HL HQ) as (lv1 & E1 & St1 & Q1).
    destruct (index_header_sim hr c (fst (pos_of (c_rs c) st)) (snd (pos_of (c_rs c) st)) h lv rb HP HL HR Hh Hh_pre)
      as (lv1' & rb1 & res & A & B & C).
    rewrite E1 in A. inversion A; subst lv1' res. destruct (C eq_refl) as (HL1 & HR1 & Sub1 & Mono1).
    assert (Hpre1 : lpre rest lv1 rb1).
    { destruct rest as [|[st1 h1] rest']; [exact I|].
      assert (Hre : root_empty rb1 = true) by (apply Mono1; exact Hpre).
      destruct rest'; [left; exact Hre|exact Hre]. }
    destruct (IH lv1 rb1 HL1 HR1 Hrest Q1 Hpre1) as (lv' & rb' & A2 & B2 & HL2 & HR2 & Sub2 & Last2 & Q2).
    exists lv', rb'. cbn [loop0]. rewrite E1, B.
    split; [exact A2|]. split; [exact B2|]. split; [exact HL2|]. split; [exact HR2|]. split; [|split; [|exact Q2]].
    + intros y Hy. destruct (Sub2 y Hy) as [K|(st' & Hst & ->)].
      * destruct (Sub1 y K) as [K1|K1]; [left; exact K1|]. right. exists st. split; [left; reflexivity|].
        rewrite K1. destruct (pos_of (c_rs c) st); reflexivity.
      * right. exists st'. split; [right; exact Hst|reflexivity].
    + intros _. destruct rest as [|x rest'].
      * cbn in A2. inversion A2; subst lv'. cbn. destruct (pos_of (c_rs c) st); exact St1.
      * change (last (st :: map fst (x :: rest')) 0) with (last (map fst (x :: rest')) 0).
        apply Last2. discriminate.
Qed.
End LoopSim.
