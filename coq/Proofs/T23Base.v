(* T23 / Base: elementary facts about the relations of T23Rel.v: the name map [psi], Forall2 utilities, PAX records,
   conversions between rows and headers, the header transformers of the operations, tape positions.
   The relation is FUNCTIONAL (the named instance's row is determined by the twin's row): [rows_rel_fun]. *)
From Coq Require Import List NArith ZArith Bool Lia.
From Coq Require Import ZifyN ZifyBool.
Import ListNotations.
From STFS Require Import Str Db Tape Index Ops Fs Diff Norm C01Str C01Db C01Inv C01Hdr T13Path T17Str T23Rel.
Open Scope N_scope.
Set Default Proof Using "All".

(* ---------- Forall2 *)
Lemma F2_filter {A B} (P : A -> B -> Prop) (f : A -> bool) (g : B -> bool) la lr :
  Forall2 P la lr -> (forall a r, In a la -> In r lr -> P a r -> f a = g r) -> Forall2 P (filter f la) (filter g lr).
Proof.
  induction 1 as [|a r la lr Har H IH]; intro Hfg; cbn [filter]; [constructor|].
  rewrite (Hfg a r (or_introl eq_refl) (or_introl eq_refl) Har).
  assert (K : Forall2 P (filter f la) (filter g lr)) by (apply IH; intros x y Hx Hy; apply Hfg; right; assumption).
  destruct (g r); [constructor; assumption|exact K].
Qed.

Lemma F2_existsb {A B} (P : A -> B -> Prop) (f : A -> bool) (g : B -> bool) la lr :
  Forall2 P la lr -> (forall a r, In a la -> In r lr -> P a r -> f a = g r) -> existsb f la = existsb g lr.
Proof.
  induction 1 as [|a r la lr Har H IH]; intro Hfg; cbn [existsb]; [reflexivity|].
  rewrite (Hfg a r (or_introl eq_refl) (or_introl eq_refl) Har). f_equal. apply IH. intros x y Hx Hy. apply Hfg; right; assumption.
Qed.

Lemma F2_map {A B A' B'} (P : A -> B -> Prop) (Q : A' -> B' -> Prop) (f : A -> A') (g : B -> B') la lr :
  Forall2 P la lr -> (forall a r, In a la -> In r lr -> P a r -> Q (f a) (g r)) -> Forall2 Q (map f la) (map g lr).
Proof.
  induction 1 as [|a r la lr Har H IH]; intro Hfg; cbn [map]; constructor.
  - apply Hfg; [left; reflexivity|left; reflexivity|exact Har].
  - apply IH. intros x y Hx Hy. apply Hfg; right; assumption.
Qed.

Lemma F2_in_l {A B} (P : A -> B -> Prop) la lr a : Forall2 P la lr -> In a la -> exists r, In r lr /\ P a r.
Proof.
  induction 1 as [|x y la lr Hxy H IH]; intro Hin; [contradiction|]. destruct Hin as [->|Hin].
  - exists y. split; [left; reflexivity|exact Hxy].
  - destruct (IH Hin) as (r & Hr & Pr). exists r. split; [right; exact Hr|exact Pr].
Qed.

Lemma F2_in_r {A B} (P : A -> B -> Prop) la lr r : Forall2 P la lr -> In r lr -> exists a, In a la /\ P a r.
Proof.
  induction 1 as [|x y la lr Hxy H IH]; intro Hin; [contradiction|]. destruct Hin as [->|Hin].
  - exists x. split; [left; reflexivity|exact Hxy].
  - destruct (IH Hin) as (a & Ha & Pa). exists a. split; [right; exact Ha|exact Pa].
Qed.

Lemma F2_length {A B} (P : A -> B -> Prop) la lr : Forall2 P la lr -> length la = length lr.
Proof. induction 1; cbn; congruence. Qed.

Lemma F2_snoc {A B} (P : A -> B -> Prop) la lr a r : Forall2 P la lr -> P a r -> Forall2 P (la ++ [a]) (lr ++ [r]).
Proof. intros H K. apply Forall2_app; [exact H|constructor; [exact K|constructor]]. Qed.

Lemma F2_fun {A B} (P : A -> B -> Prop) : (forall a r1 r2, P a r1 -> P a r2 -> r1 = r2) ->
  forall la l1 l2, Forall2 P la l1 -> Forall2 P la l2 -> l1 = l2.
Proof.
  intros Hf la l1 l2 H. revert l2. induction H as [|a r la l1 Har _ IH]; intros l2 H2; inversion H2; subst; [reflexivity|].
  f_equal; [eapply Hf; eassumption|apply IH; assumption].
Qed.

Section Top.
Variable top : str.
Hypothesis Htop : okc top.

Notation psi := (psi top).
Notation vrel := (vrel top).
Notation pax_rel := (pax_rel top).
Notation rowrel := (rowrel top).
Notation hrel := (hrel top).
Notation mrel := (mrel top).
Notation rows_rel := (rows_rel top).
Notation prel := (prel top).

(* ---------- the name map *)
Lemma top_nonempty : top <> [].
Proof. exact (proj1 Htop). Qed.

Lemma psi_root : psi [slash] = top.
Proof. reflexivity. Qed.

Lemma psi_pth cs : Forall okc cs -> psi (pth cs) = join_slash (top :: cs).
Proof.
  intro H. unfold T23Rel.psi. destruct cs as [|a r]; [reflexivity|].
  replace (eqb_str (pth (a :: r)) [slash]) with false.
  - rewrite join_cons by discriminate. reflexivity.
  - symmetry. apply eqb_str_neq. intro K. apply pth_root_iff in K; [discriminate|exact H].
Qed.

Lemma psi_good g : good g -> exists cs, Forall okc cs /\ g = pth cs /\ psi g = join_slash (top :: cs).
Proof. intro G. destruct (good_inv g G) as (cs & Hcs & ->). exists cs. split; [exact Hcs|]. split; [reflexivity|apply psi_pth; exact Hcs]. Qed.

Lemma psi_nonroot g : g <> [slash] -> psi g = top ++ g.
Proof. intro H. unfold T23Rel.psi. replace (eqb_str g [slash]) with false; [reflexivity|]. symmetry. apply eqb_str_neq. exact H. Qed.

Lemma psi_inj a b : is_abs a = true -> is_abs b = true -> psi a = psi b -> a = b.
Proof.
  intros Ha Hb. unfold T23Rel.psi. destruct (eqb_str a [slash]) eqn:Ea; destruct (eqb_str b [slash]) eqn:Eb; intro K.
  - apply eqb_str_eq in Ea, Eb. congruence.
  - exfalso. apply (f_equal (@length N)) in K. rewrite app_length in K. destruct b; [discriminate|]. cbn in K. lia.
  - exfalso. apply (f_equal (@length N)) in K. rewrite app_length in K. destruct a; [discriminate|]. cbn in K. lia.
  - apply app_inv_head in K. exact K.
Qed.

Lemma psi_eqb a b : is_abs a = true -> is_abs b = true -> eqb_str (psi a) (psi b) = eqb_str a b.
Proof.
  intros Ha Hb. destruct (eqb_str a b) eqn:E.
  - apply eqb_str_eq in E. subst. apply eqb_str_refl.
  - apply eqb_str_neq. intro K. apply eqb_str_neq in E. apply E. apply psi_inj; assumption.
Qed.

Lemma tcs_okc cs : Forall okc cs -> Forall okc (top :: cs).
Proof. intro H. constructor; assumption. Qed.

Lemma psi_not_abs g : good g -> is_abs (psi g) = false.
Proof. intro G. destruct (psi_good g G) as (cs & Hcs & _ & ->). apply join_not_abs. apply tcs_okc. exact Hcs. Qed.

Lemma psi_nonempty g : good g -> psi g <> [].
Proof. intro G. destruct (psi_good g G) as (cs & Hcs & _ & ->). apply join_nonempty; [discriminate|apply tcs_okc; exact Hcs]. Qed.

Lemma psi_is_root g : good g -> is_root_name (psi g) = false.
Proof. intro G. destruct (psi_good g G) as (cs & Hcs & _ & ->). apply join_is_root; [apply tcs_okc; exact Hcs|discriminate]. Qed.

Lemma psi_clean g : good g -> path_clean (psi g) = psi g.
Proof. intro G. destruct (psi_good g G) as (cs & Hcs & _ & ->). apply path_clean_rel; [discriminate|apply tcs_okc; exact Hcs]. Qed.

Lemma psi_trim_slash g : good g -> trim_suffix [slash] (psi g) = psi g.
Proof. intro G. destruct (psi_good g G) as (cs & Hcs & _ & ->). apply join_trim_slash. apply tcs_okc. exact Hcs. Qed.

(* ---------- PAX records *)
Lemma vrel_refl k v : k <> K_replaces_name -> vrel k v v.
Proof. intro H. unfold T23Rel.vrel. replace (eqb_str k K_replaces_name) with false; [reflexivity|]. symmetry. apply eqb_str_neq. exact H. Qed.

Lemma pax_rel_nil : pax_rel [] [].
Proof. constructor. Qed.

Lemma pax_get_rel k pa pr : pax_rel pa pr -> k <> K_replaces_name -> pax_get k pr = pax_get k pa.
Proof.
  induction 1 as [|[ka va] [kr vr] pa pr [Hk Hv] H IH]; intro Hne; cbn [pax_get]; [reflexivity|].
  cbn [fst snd] in Hk, Hv. subst kr. destruct (eqb_str k ka) eqn:E; [|apply IH; exact Hne].
  apply eqb_str_eq in E. subst ka. unfold T23Rel.vrel in Hv. replace (eqb_str k K_replaces_name) with false in Hv; [congruence|].
  symmetry. apply eqb_str_neq. exact Hne.
Qed.

Lemma pax_get_rel_rn pa pr : pax_rel pa pr ->
  pax_get K_replaces_name pr = option_map psi (pax_get K_replaces_name pa).
Proof.
  induction 1 as [|[ka va] [kr vr] pa pr [Hk Hv] H IH]; cbn [pax_get]; [reflexivity|].
  cbn [fst snd] in Hk, Hv. subst kr. destruct (eqb_str K_replaces_name ka) eqn:E; [|exact IH].
  apply eqb_str_eq in E. subst ka. unfold T23Rel.vrel in Hv. rewrite eqb_str_refl in Hv. subst vr. reflexivity.
Qed.

Lemma pax_set_rel k va vr pa pr : pax_rel pa pr -> vrel k va vr -> pax_rel (pax_set k va pa) (pax_set k vr pr).
Proof.
  intros H Hv. induction H as [|[ka xa] [kr xr] pa pr [Hk Hx] H IH]; cbn [pax_set].
  - constructor; [split; [reflexivity|exact Hv]|constructor].
  - cbn [fst snd] in Hk, Hx. subst kr. destruct (eqb_str k ka).
    + constructor; [split; [reflexivity|exact Hv]|exact H].
    + destruct (ltb_str k ka).
      * constructor; [split; [reflexivity|exact Hv]|]. constructor; [split; [reflexivity|exact Hx]|exact H].
      * constructor; [split; [reflexivity|exact Hx]|exact IH].
Qed.

Lemma pax_set_rel_eq k v pa pr : k <> K_replaces_name -> pax_rel pa pr -> pax_rel (pax_set k v pa) (pax_set k v pr).
Proof. intros Hk H. apply pax_set_rel; [exact H|apply vrel_refl; exact Hk]. Qed.

Lemma pax_del_rel k pa pr : pax_rel pa pr -> pax_rel (pax_del k pa) (pax_del k pr).
Proof.
  intro H. unfold pax_del. apply F2_filter; [exact H|]. intros [ka xa] [kr xr] _ _ [Hk _]. cbn [fst] in *. subst kr. reflexivity.
Qed.

Lemma pax_rel_fun pa p1 p2 : pax_rel pa p1 -> pax_rel pa p2 -> p1 = p2.
Proof.
  apply F2_fun. intros [ka va] [k1 v1] [k2 v2] [A1 B1] [A2 B2]. cbn [fst snd] in *. unfold T23Rel.vrel in *. congruence.
Qed.

(* ---------- rows and headers *)
Lemma hrel_of_rowrel a r : rowrel a r -> hrel (hdr_of_row a) (hdr_of_row r).
Proof. intros []. constructor; cbn; assumption. Qed.

Lemma rowrel_of_hrel a b c d ha hr n : hrel ha hr -> is_abs n = true ->
  rowrel (set_name (row_of_hdr a b c d ha) n) (set_name (row_of_hdr a b c d hr) (psi n)).
Proof. intros [] Hn. constructor; cbn; try assumption; reflexivity. Qed.

Lemma rowrel_set_lk a r x y d : rowrel a r -> rowrel (set_lk a x y d) (set_lk r x y d).
Proof. intros []. constructor; cbn; try assumption; reflexivity. Qed.

Lemma rowrel_set_name a r n : rowrel a r -> is_abs n = true -> rowrel (set_name a n) (set_name r (psi n)).
Proof. intros [] Hn. constructor; cbn; try assumption; reflexivity. Qed.

Lemma rowrel_fun a r1 r2 : rowrel a r1 -> rowrel a r2 -> r1 = r2.
Proof.
  intros [] []. pose proof (pax_rel_fun _ _ _ rr_pax rr_pax0) as E. destruct r1, r2. cbn in *. subst. reflexivity.
Qed.

Lemma rows_rel_fun la l1 l2 : rows_rel la l1 -> rows_rel la l2 -> l1 = l2.
Proof. apply F2_fun. exact rowrel_fun. Qed.

Lemma hrel_wsn ha hr sz na : hrel ha hr -> hrel (with_size_name ha sz na) (with_size_name hr sz (psi na)).
Proof. intros []. constructor; cbn; try assumption; reflexivity. Qed.

Lemma hrel_wsn_self ha hr sz : hrel ha hr -> hrel (with_size_name ha sz (h_name ha)) (with_size_name hr sz (h_name hr)).
Proof. intro H. rewrite (hr_name _ _ _ H). apply hrel_wsn. exact H. Qed.

Lemma hrel_set_pax ha hr pa pr : hrel ha hr -> pax_rel pa pr -> hrel (set_pax ha pa) (set_pax hr pr).
Proof. intros [] Hp. constructor; cbn; assumption. Qed.

Lemma keep_size_rel ha hr : hrel ha hr -> pax_rel (keep_size ha) (keep_size hr).
Proof.
  intro H. unfold keep_size. rewrite (hr_size _ _ _ H).
  rewrite (pax_get_rel K_usize _ _ (hr_pax _ _ _ H)) by discriminate.
  destruct (0 <? h_size ha); [|exact (hr_pax _ _ _ H)].
  destruct (pax_get K_usize (h_pax ha)); [exact (hr_pax _ _ _ H)|]. apply pax_set_rel_eq; [discriminate|]. exact (hr_pax _ _ _ H).
Qed.

Lemma hrel_patch_mode m ha hr : hrel ha hr -> hrel (patch_mode m ha) (patch_mode m hr).
Proof. intros []. constructor; cbn; try assumption; reflexivity. Qed.
Lemma hrel_patch_owner u g ha hr : hrel ha hr -> hrel (patch_owner u g ha) (patch_owner u g hr).
Proof. intros []. constructor; cbn; try assumption; try reflexivity. congruence. Qed.
Lemma hrel_patch_times x y ha hr : hrel ha hr -> hrel (patch_times x y ha) (patch_times x y hr).
Proof. intros []. constructor; cbn; try assumption; try reflexivity. congruence. Qed.
Lemma hrel_stamp ha hr now : hrel ha hr -> hrel (stamp_mtime ha now) (stamp_mtime hr now).
Proof. intros []. constructor; cbn; try assumption; reflexivity. Qed.

(* the name test of the index on related rows *)
Lemma rowrel_name_eqb a r n : rowrel a r -> is_abs n = true ->
  eqb_str (r_name r) (psi n) = eqb_str (r_name a) n.
Proof. intros H Hn. rewrite (rr_name _ _ _ H). apply psi_eqb; [exact (rr_abs _ _ _ H)|exact Hn]. Qed.

Lemma rowrel_key_eq a r n k : rowrel a r -> is_abs n = true ->
  key_eq (psi n) k r = key_eq n k a.
Proof. intros H Hn. unfold key_eq. rewrite (rowrel_name_eqb a r n H Hn), (rr_link _ _ _ H). reflexivity. Qed.

Lemma rowrel_live a r : rowrel a r -> live r = live a.
Proof. intro H. unfold live. rewrite (rr_del _ _ _ H). reflexivity. Qed.

(* ---------- last_indexed *)
Lemma last_indexed_rel pa pr rs : rows_rel (rows pa) (rows pr) -> last_indexed pr rs = last_indexed pa rs.
Proof.
  intro H. unfold last_indexed. generalize (0, 0). induction H as [|a r la lr Har _ IH]; intro best; cbn [fold_left]; [reflexivity|].
  rewrite (rr_lkrec _ _ _ Har), (rr_lkblk _ _ _ Har). apply IH.
Qed.
End Top.

(* ---------- tape: positions and contents agree *)
Lemma irel_blocks a r : irel a r -> item_blocks r = item_blocks a.
Proof. intros [|x y H1 H2 H3]; [reflexivity|]. cbn. congruence. Qed.

Lemma tape_rel_blocks a r : tape_rel a r -> tape_blocks r = tape_blocks a.
Proof.
  unfold tape_blocks. induction 1 as [|x y a r H _ IH]; cbn [fold_right]; [reflexivity|]. rewrite IH, (irel_blocks _ _ H). reflexivity.
Qed.

Definition srel (x : N * titem) (y : N * titem) : Prop := fst y = fst x /\ irel (snd x) (snd y).

Lemma with_starts_rel a r : tape_rel a r -> forall at_, Forall2 srel (with_starts a at_) (with_starts r at_).
Proof.
  induction 1 as [|x y a r H _ IH]; intro at_; cbn [with_starts]; constructor.
  - split; [reflexivity|exact H].
  - rewrite (irel_blocks _ _ H). apply IH.
Qed.

Lemma fetch_at_rel c a r rec blk : tape_rel a r -> fetch_at c r rec blk = fetch_at c a rec blk.
Proof.
  intro H. unfold fetch_at, member_at.
  assert (K : Forall2 srel (filter (fun p => fst p =? off_of (c_rs c) rec blk) (with_starts a 0))
                            (filter (fun p => fst p =? off_of (c_rs c) rec blk) (with_starts r 0))).
  { apply F2_filter; [apply with_starts_rel; exact H|]. intros x y _ _ [E _]. rewrite E. reflexivity. }
  destruct K as [|[o1 i1] [o2 i2] ? ? [_ Hi] _]; [reflexivity|]. cbn [snd] in Hi. destruct Hi as [|x y H1 H2 H3]; [reflexivity|].
  rewrite H2. reflexivity.
Qed.

Lemma tape_rel_refl t : tape_rel t t.
Proof. induction t as [|[m|] t IH]; constructor; try exact IH; constructor; reflexivity. Qed.
