(* T02w / histories with CWriteFile: (1) executable test of the history statements (after EVERY call: outcome and
   namespace = the reference's, contents = the ghost map [last_written_w], positions designate content records), run
   with vm_compute before the proofs; (2) the hypotheses of [T02_history_w] / [T04_history_w] are decidable on concrete
   histories: an instance of both theorems. *)
From Coq Require Import String List NArith ZArith Bool Lia.
From Coq Require Import ZifyN ZifyBool.
Import ListNotations.
From STFS Require Import Str Db Tape Index Ops Fs File Diff Norm C01Str C01Sim C01Rows T02Ns T02Db T02Str T02Create T02Spec T02Test T02Demo
  T04Def T04Ns T04Content T04Test T04Demo T02wNs T02wStr T02wCore T02wSpec T02wHist T02wTest.
Open Scope string_scope.
Open Scope N_scope.

Definition fl (acc : N) (ap cr ex tr : bool) : oflag := {| o_acc := acc; o_append := ap; o_create := cr; o_excl := ex; o_trunc := tr |}.

(* creation through OpenFile, overwrite, append, truncate, truncate-only, read-only opens, refused writes, O_EXCL,
   directories, missing parents, interleaved with the other calls *)
Definition whist (hb : list N) : list (call * env) :=
  [(CInitialize (s "/"), eh hb 1);
   (CMkdir (s "/a") 493, eh hb 2);
   (CWriteFile (s "/a/f") (fl 1 false true false false) 420 [(1, 0, 700)] false, eh hb 3);     (* create + write *)
   (CWriteFile (s "/a/f") (fl 1 false false false false) 420 [(2, 0, 10)] false, eh hb 4);     (* overwrite the head *)
   (CWriteFile (s "/a/f") (fl 2 true false false false) 420 [(3, 0, 513)] false, eh hb 5);     (* append *)
   (CWriteFile (s "/a/g") (fl 0 false true true false) 384 [] false, eh hb 6);                 (* create, read-only, EXCL *)
   (CWriteFile (s "/a/g") (fl 0 false true true false) 384 [] false, eh hb 7);                 (* exist *)
   (CWriteFile (s "/a/g") (fl 0 false false false false) 384 [(4, 0, 5)] false, eh hb 8);      (* permission *)
   (CWriteFile (s "/a/g") (fl 1 true false false false) 384 [(4, 0, 5)] false, eh hb 9);       (* append to an empty file *)
   (CChmod (s "/a/f") 256, eh hb 10);
   (CWriteFile (s "/a/f") (fl 1 false false false true) 420 [] false, eh hb 11);               (* truncate only *)
   (CWriteFile (s "/a/f") (fl 1 false false false true) 420 [(5, 0, 3)] true, eh hb 12);       (* truncate (empty) + write *)
   (CWriteFile (s "/a") (fl 1 false false false false) 420 [(5, 0, 3)] false, eh hb 13);       (* is a directory *)
   (CWriteFile (s "/a") (fl 0 false false false false) 420 [] false, eh hb 14);                (* read-only open of a directory *)
   (CWriteFile (s "/q/x") (fl 1 false true false false) 420 [(5, 0, 3)] false, eh hb 15);      (* no parent *)
   (CWriteFile (s "/a/f/x") (fl 1 false true false false) 420 [(5, 0, 3)] false, eh hb 16);    (* parent is a file *)
   (CWriteFile (s "/zz") (fl 1 false false false false) 420 [(5, 0, 3)] false, eh hb 17);      (* not exist *)
   (CWriteFile (s "/b") (fl 0 false true false false) 420 [(5, 0, 3)] false, eh hb 18);        (* creates, then permission *)
   (CRename (s "/a") (s "/c"), eh hb 19);
   (CWriteFile (s "/c/g") (fl 2 false false false false) 420 [(6, 0, 2)] false, eh hb 20);     (* overwrite after the rename *)
   (CCreateFile (s "/c/f") [(7, 0, 1500)], eh hb 21);
   (CWriteFile (s "/c/f") (fl 2 true true false false) 420 [(8, 0, 1)] false, eh hb 22);
   (CWriteFile (s "/c/f") (fl 2 false false false true) 420 [(4, 0, 0)] false, eh hb 23);      (* a zero-length piece after truncation *)
   (CRemove (s "/b"), eh hb 24);
   (CWriteFile (s "/b") (fl 2 true true true true) 420 [(9, 0, 20)] false, eh hb 25);
   (CRemoveAll (s "/c"), eh hb 26);
   (CWriteFile (s "/c") (fl 1 false true false false) 420 [] true, eh hb 27)].                (* zero-byte write on a new file *)

Definition wtnames : list str := tnames ++ map s ["/a/g"; "/c/g"; "/zz"; "/q/x"; "/a/f/x"].

(* after every call: outcome + namespace = reference (cid read off the result), contents = ghost map, positions *)
Definition spec_of_w (q : bool) (c : cfg) (a a' : ns) (k : call) (now : Z) : option (ns * outc) :=
  match k with
  | CWriteFile n o perm d force => Some (spec_write_file_q q c a n o perm d force now (cid_of a' n))
  | _ => spec_of c a a' k now
  end.
Fixpoint winv_all (q : bool) (c : cfg) (st : sys) (h : list (call * env)) (w : wmap) (names : list str) : bool :=
  match h with
  | [] => true
  | (k, e) :: r =>
    let '(st', o) := step c (with_env st e) k in
    let w' := upd_ww k o w in
    match k with
    | CInitialize _ => true
    | _ => match spec_of_w q c (abs st) (abs st') k (ev_now e) with
           | Some (a, o') => ns_eqb (abs st') a && outc_eqb o o'
           | None => false
           end
    end &&
    forallb (fun n => content_eqb (content_of c st' n) (w' n)) names && designatesb c st' && closedb (abs st') &&
    winv_all q c st' r w' names
  end.

Example wtest_hist_rs3 : winv_all false (cfg_rs 3) init_sys (whist []) w_empty wtnames = true.
Proof. vm_compute. reflexivity. Qed.
Example wtest_hist_rs1 : winv_all true (cfg_rs 1) init_sys (whist [1]) w_empty wtnames = true.
Proof. vm_compute. reflexivity. Qed.
Example wtest_hist_rs20 : winv_all false (cfg_rs 20) init_sys (whist [2; 1]) w_empty wtnames = true.
Proof. vm_compute. reflexivity. Qed.
Example wtest_final :
  map (fun n => option_map expand (content_of (cfg_rs 3) (final (cfg_rs 3) init_sys (whist [])) (s n))) ["/b"; "/c"; "/a/f"; "/zz"]
  = [Some (expand [(9, 0, 20)]); Some []; None; None].
Proof. vm_compute. reflexivity. Qed.

(* ---------- decidable hypotheses *)
Definition write_boundb (a : ns) (n : str) (d : content) : bool :=
  match lookup a n with Some v => n_size v + clen d <? 10 ^ 40 | None => clen d <? 10 ^ 40 end.
Lemma write_boundb_sound a n d : write_boundb a n d = true -> write_bound a n d.
Proof. unfold write_boundb, write_bound. destruct (lookup a n); intro H; apply N.ltb_lt; exact H. Qed.

Definition call_pre_wb (q : bool) (a : ns) (k : call) : bool :=
  match k with
  | CWriteFile n o perm d force => goodb n && write_boundb a n d && (q || negb (write_corner a n o d force))
  | _ => call_preb a k
  end.
Lemma call_pre_wb_sound q a k : call_pre_wb q a k = true -> call_pre_w q a k.
Proof.
  destruct k; try exact (call_preb_sound a _).
  cbn [call_pre_wb call_pre_w]. intro H. apply andb_true_iff in H as [H C]. apply andb_true_iff in H as [A B].
  split; [apply goodb_good; exact A|]. split; [apply write_boundb_sound; exact B|].
  intro Hq. subst q. cbn [orb] in C. apply negb_true_iff. exact C.
Qed.
Fixpoint ok_run_wb (c : cfg) (q : bool) (st : sys) (r : list (call * env)) : bool :=
  match r with
  | [] => true
  | (k, e) :: r' => forallb (fun x => 0 <? x) (ev_hb e) && call_pre_wb q (abs st) k && ok_run_wb c q (fst (step c (with_env st e) k)) r'
  end.
Lemma ok_run_wb_sound c q r : forall st, ok_run_wb c q st r = true -> ok_run_w c q st r.
Proof.
  induction r as [|[k e] r IH]; intros st H; cbn [ok_run_wb ok_run_w] in *; [exact I|].
  apply andb_true_iff in H as [H H3]. apply andb_true_iff in H as [H1 H2].
  split; [exact H1|]. split; [apply call_pre_wb_sound; exact H2|apply IH; exact H3].
Qed.

Definition call_pre4wb (a : ns) (k : call) : bool :=
  match k with
  | CWriteFile n o perm d force => goodb n && write_boundb a n d && negb (dir_create_corner a n o d force)
  | _ => call_pre4b k
  end.
Lemma call_pre4wb_sound a k : call_pre4wb a k = true -> call_pre4w true a k.
Proof.
  destruct k; try exact (call_pre4b_sound _).
  cbn [call_pre4wb call_pre4w]. intro H. apply andb_true_iff in H as [H C]. apply andb_true_iff in H as [A B].
  split; [apply goodb_good; exact A|]. split; [apply write_boundb_sound; exact B|apply negb_true_iff; exact C].
Qed.
Fixpoint ok_run4wb (c : cfg) (st : sys) (r : list (call * env)) : bool :=
  match r with
  | [] => true
  | (k, e) :: r' => forallb (fun x => 0 <? x) (ev_hb e) && call_pre4wb (abs st) k && ok_run4wb c (fst (step c (with_env st e) k)) r'
  end.
Lemma ok_run4wb_sound c r : forall st, ok_run4wb c st r = true -> ok_run4w true c st r.
Proof.
  induction r as [|[k e] r IH]; intros st H; cbn [ok_run4wb ok_run4w] in *; [exact I|].
  apply andb_true_iff in H as [H H3]. apply andb_true_iff in H as [H1 H2].
  split; [exact H1|]. split; [apply call_pre4wb_sound; exact H2|apply IH; exact H3].
Qed.

(* ---------- an instance: the 26 calls of [whist] after Initialize "/" *)
Definition c3w : cfg := cfg_rs 3.
Definition s0w : sys := fst (step c3w (with_env init_sys (eh [1; 2] 1)) (CInitialize [slash])).

(* against the reference [spec_write_file] (no call of the history is a corner W1-W3) *)
Example demo_history_w_namespace :
  conforms_w c3w false s0w (tl (whist [1; 2])) /\ Good4 true c3w (final c3w s0w (tl (whist [1; 2]))).
Proof.
  apply (T02w_reachable c3w (eh [1; 2] 1) (tl (whist [1; 2])) false).
  - split; reflexivity.
  - reflexivity.
  - reflexivity.
  - reflexivity.
  - apply ok_run_wb_sound. vm_compute. reflexivity.
Qed.

Example demo_history_w_contents :
  Good4 true c3w (final c3w s0w (tl (whist [1; 2]))) /\
  forall m, good m -> content_eq (content_of c3w (final c3w s0w (tl (whist [1; 2]))) m)
                                 (last_written_w c3w s0w (tl (whist [1; 2])) w_empty m).
Proof.
  apply (T04w_reachable c3w (eh [1; 2] 1) (tl (whist [1; 2]))).
  - split; reflexivity.
  - reflexivity.
  - reflexivity.
  - reflexivity.
  - apply ok_run4wb_sound. vm_compute. reflexivity.
Qed.
