(* T04 / namespace level: what each reference call of T02Ns.v does to the map  name -> content  obtained by
   fetching at the content ids ([cof]): exactly the ghost update [upd_w]; and every regular node of the result
   carries kind, size and content id of a node of the argument ([sub_cores]). *)
From Coq Require Import List NArith ZArith Bool Lia.
From Coq Require Import ZifyN ZifyBool.
Import ListNotations.
From STFS Require Import Str Db Tape Index Ops Fs File Diff Norm StrLemmas C01Str
  T02Ns T02Db T02Reads T02Str T02Closed T02Rename T02MkdirAll T04Def.
Open Scope N_scope.

(* ---------- contents as byte strings *)
Lemma expand_clen0 x : clen x = 0 -> expand x = [].
Proof.
  induction x as [|[[sd off] l] r IH]; intro H; [reflexivity|].
  cbn [clen fold_right plen snd] in H. fold (clen r) in H.
  assert (l = 0) by lia. assert (clen r = 0) by lia. subst l.
  cbn [expand flat_map]. fold (expand r). rewrite (IH H1), app_nil_r.
  unfold expand_piece. destruct (sd =? 0); [reflexivity|]. destruct (1000000 <=? sd); reflexivity.
Qed.

Lemma content_eq_refl x : content_eq x x.
Proof. destruct x; cbn; reflexivity. Qed.
Lemma content_eq_of_eq x y : x = y -> content_eq x y.
Proof. intros ->. apply content_eq_refl. Qed.
Lemma content_eq_trans x y z : content_eq x y -> content_eq y z -> content_eq x z.
Proof. destruct x, y, z; cbn; try tauto; congruence. Qed.
Lemma content_eq_sym x y : content_eq x y -> content_eq y x.
Proof. destruct x, y; cbn; try tauto; congruence. Qed.

(* ---------- fetching at a node *)
Definition core (v : node) : N * N * (N * N) := (n_tf v, n_size v, n_cid v).

Lemma cof_dir c t v : n_tf v = TypeDir -> cof c t (Some v) = None.
Proof. intro H. unfold cof. rewrite H. reflexivity. Qed.

Lemma cof_core c t v v' : core v = core v' -> cof c t (Some v) = cof c t (Some v').
Proof. unfold core. intro H. inversion H as [[H1 H2 H3]]. unfold cof. rewrite H1, H3. reflexivity. Qed.

Lemma core_with_mode m v : core (with_mode m v) = core v. Proof. reflexivity. Qed.
Lemma core_with_owner u g v : core (with_owner u g v) = core v. Proof. reflexivity. Qed.
Lemma core_with_times a b v : core (with_times a b v) = core v. Proof. reflexivity. Qed.

(* every node of [a'] is a directory node or has the kind, size and content id of a node of [a] *)
Definition sub_cores (a' a : ns) : Prop :=
  forall m v, lookup a' m = Some v -> n_tf v = TypeDir \/ exists m0 v0, lookup a m0 = Some v0 /\ core v0 = core v.

Lemma sub_cores_refl a : sub_cores a a.
Proof. intros m v H. right. exists m, v. split; [exact H|reflexivity]. Qed.

(* ---------- names: the source of a moved name is a cleaned absolute name *)
Lemma good_moved_back old new m : good old -> old <> [slash] -> good new -> new <> [slash] -> good m ->
  inside new m = true -> good (old ++ skipn (length new) m).
Proof.
  intros Go Ho Gn Hn Gm Hin.
  destruct (inside_comps new m Gn Hn Gm Hin) as (cn & t & Hcn & Hcnne & Ht & En & Em).
  destruct Go as (co & Hco & Eo). fold (P co) in Eo.
  assert (Hcone : co <> []) by (intro K; subst co; apply Ho; exact Eo).
  rewrite Em, (P_app cn t Hcnne), <- En, skipn_app_len.
  replace (old ++ sfx_of t) with (P (co ++ t)) by (rewrite (P_app co t Hcone), <- Eo; reflexivity).
  apply good_P. apply Forall_app. split; assumption.
Qed.

(* ---------- the ghost update respects pointwise relations on cleaned absolute names *)
Definition wgood (k : call) : Prop :=
  match k with
  | CRename a b => a = b \/ (good a /\ good b /\ a <> [slash] /\ b <> [slash])
  | _ => True
  end.

Lemma upd_w_rel (Rel : option content -> option content -> Prop) k o f g m :
  (forall x, Rel x x) -> (o = OOk -> wgood k) -> (forall x, good x -> Rel (f x) (g x)) -> good m ->
  Rel (upd_w k o f m) (upd_w k o g m).
Proof.
  intros Hrefl Hw H Gm. unfold upd_w.
  destruct o; try (apply H; exact Gm).
  specialize (Hw eq_refl).
  destruct k; try (apply H; exact Gm).
  - destruct (eqb_str m n); [apply Hrefl|apply H; exact Gm].
  - destruct (inside n m); [apply Hrefl|apply H; exact Gm].
  - destruct (eqb_str a b) eqn:Eab; [apply H; exact Gm|].
    destruct Hw as [->|(Ga & Gb & Ha & Hb)]; [rewrite eqb_str_refl in Eab; discriminate|]. unfold w_move.
    destruct (inside b m) eqn:E.
    + apply H. apply good_moved_back; assumption.
    + destruct (inside a m); [apply Hrefl|apply H; exact Gm].
  - destruct (eqb_str m n); [apply Hrefl|apply H; exact Gm].
Qed.

(* ---------- the reference calls *)
Section Spec.
Variable c : cfg.
Variable t : tape.
Notation cm a := (fun x => cof c t (lookup a x)).

Lemma upd_w_fail k o w : o <> OOk -> upd_w k o w = w.
Proof. intro H. destruct o; try reflexivity. contradiction. Qed.

(* Mkdir *)
Lemma mkdir_cores a n perm now : sub_cores (fst (spec_mkdir c a n perm now)) a.
Proof.
  unfold spec_mkdir. destruct (spec_parent a n); try apply sub_cores_refl.
  destruct (lookup a n) eqn:E; [apply sub_cores_refl|]. cbn [fst]. intros m v Hm. rewrite lookup_ns_set in Hm.
  destruct (eqb_str m n); [left; inversion Hm; reflexivity|]. right. exists m, v. split; [exact Hm|reflexivity].
Qed.

Lemma mkdir_effect a n perm now m :
  cof c t (lookup (fst (spec_mkdir c a n perm now)) m) = cof c t (lookup a m).
Proof.
  unfold spec_mkdir. destruct (spec_parent a n); try reflexivity.
  destruct (lookup a n) eqn:E; [reflexivity|]. cbn [fst]. rewrite lookup_ns_set.
  destruct (eqb_str m n) eqn:Em; [|reflexivity]. apply eqb_str_eq in Em. subst m. rewrite E. reflexivity.
Qed.

(* MkdirAll *)
Lemma mkdirall_loop_lookup perm now ps : forall a m,
  lookup (fst (spec_mkdirall_loop c a ps perm now)) m = lookup a m \/
  (lookup a m = None /\ exists v, lookup (fst (spec_mkdirall_loop c a ps perm now)) m = Some v /\ n_tf v = TypeDir).
Proof.
  induction ps as [|p rest IH]; intros a m; cbn [spec_mkdirall_loop]; [left; reflexivity|].
  destruct (lookup a p) as [v|] eqn:Ep.
  - destruct (is_dir v); [apply IH|left; reflexivity].
  - destruct (IH (ns_set a p (new_node c true perm now (0, 0))) m) as [K|(K1 & v & K2 & K3)].
    + rewrite K, lookup_ns_set. destruct (eqb_str m p) eqn:Em; [|left; reflexivity].
      apply eqb_str_eq in Em. subst m. right. split; [exact Ep|]. eexists. split; reflexivity.
    + rewrite lookup_ns_set in K1. destruct (eqb_str m p); [discriminate|]. right. split; [exact K1|]. exists v. split; assumption.
Qed.

Lemma mkdirall_lookup a n perm now m :
  lookup (fst (spec_mkdirall c a n perm now)) m = lookup a m \/
  (lookup a m = None /\ exists v, lookup (fst (spec_mkdirall c a n perm now)) m = Some v /\ n_tf v = TypeDir).
Proof.
  unfold spec_mkdirall. pose proof (mkdirall_loop_lookup perm now (paths n) a m) as K.
  destruct (spec_mkdirall_loop c a (paths n) perm now) as [a' o]. cbn [fst] in K.
  destruct o; cbn [fst]; try (left; reflexivity). exact K.
Qed.

Lemma mkdirall_cores a n perm now : sub_cores (fst (spec_mkdirall c a n perm now)) a.
Proof.
  intros m v Hm. destruct (mkdirall_lookup a n perm now m) as [K|(_ & v' & K2 & K3)].
  - right. exists m, v. split; [congruence|reflexivity].
  - left. congruence.
Qed.

Lemma mkdirall_effect a n perm now m :
  cof c t (lookup (fst (spec_mkdirall c a n perm now)) m) = cof c t (lookup a m).
Proof.
  destruct (mkdirall_lookup a n perm now m) as [K|(K1 & v' & K2 & K3)].
  - rewrite K. reflexivity.
  - rewrite K1, K2. apply cof_dir. exact K3.
Qed.

(* Remove *)
Lemma remove_cores a n : sub_cores (fst (spec_remove a n)) a.
Proof.
  unfold spec_remove. destruct (lookup a n) as [v0|]; [|apply sub_cores_refl].
  destruct (is_dir v0 && has_below a n); [apply sub_cores_refl|]. cbn [fst]. intros m v Hm.
  rewrite lookup_ns_del in Hm. destruct (eqb_str m n); [discriminate|]. right. exists m, v. split; [exact Hm|reflexivity].
Qed.

Lemma remove_effect a n m :
  cof c t (lookup (fst (spec_remove a n)) m) = upd_w (CRemove n) (snd (spec_remove a n)) (cm a) m.
Proof.
  unfold spec_remove. destruct (lookup a n) as [v0|] eqn:E; [|reflexivity].
  destruct (is_dir v0 && has_below a n); [reflexivity|]. cbn [fst snd upd_w]. rewrite lookup_ns_del.
  destruct (eqb_str m n); reflexivity.
Qed.

(* RemoveAll *)
Lemma remove_all_cores a n : sub_cores (fst (spec_remove_all a n)) a.
Proof.
  unfold spec_remove_all. destruct (lookup a n) as [v0|]; [|apply sub_cores_refl]. cbn [fst]. intros m v Hm.
  rewrite (lookup_filter (fun x => eqb_str x n || below n x)) in Hm.
  destruct (eqb_str m n || below n m); [discriminate|]. right. exists m, v. split; [exact Hm|reflexivity].
Qed.

Lemma remove_all_effect a n m : closed a -> good n ->
  cof c t (lookup (fst (spec_remove_all a n)) m) = upd_w (CRemoveAll n) (snd (spec_remove_all a n)) (cm a) m.
Proof.
  intros Hcl G. unfold spec_remove_all. destruct (lookup a n) as [v0|] eqn:E; cbn [fst snd upd_w].
  - rewrite (lookup_filter (fun x => eqb_str x n || below n x)). unfold inside. destruct (eqb_str m n || below n m); reflexivity.
  - unfold inside. destruct (eqb_str m n) eqn:Em; cbn [orb].
    + apply eqb_str_eq in Em. subst m. rewrite E. reflexivity.
    + destruct (below n m) eqn:Eb; [|reflexivity].
      destruct (lookup a m) as [v|] eqn:Lm; [|reflexivity]. exfalso.
      destruct (Hcl m v Lm n G Eb) as (d & Hd & _). congruence.
Qed.

(* Chmod / Chown / Chtimes *)
Lemma ch_cores a n f : (forall v, core (f v) = core v) -> sub_cores (fst (spec_ch a n f)) a.
Proof.
  intro Hf. unfold spec_ch. destruct (lookup a n) as [v0|] eqn:E; [|apply sub_cores_refl]. cbn [fst]. intros m v Hm.
  rewrite lookup_ns_upd in Hm. destruct (eqb_str m n).
  - rewrite E in Hm. cbn in Hm. inversion Hm; subst v. right. exists n, v0. split; [exact E|symmetry; apply Hf].
  - right. exists m, v. split; [exact Hm|reflexivity].
Qed.

Lemma ch_effect a n f m : (forall v, core (f v) = core v) ->
  cof c t (lookup (fst (spec_ch a n f)) m) = cof c t (lookup a m).
Proof.
  intro Hf. unfold spec_ch. destruct (lookup a n) as [v0|] eqn:E; [|reflexivity]. cbn [fst].
  rewrite lookup_ns_upd. destruct (eqb_str m n) eqn:Em; [|reflexivity]. apply eqb_str_eq in Em. subst m.
  rewrite E. cbn [option_map]. apply cof_core. apply Hf.
Qed.

(* Rename *)
Lemma rename_lookup a old new : names_good a -> closed a -> good old -> good new -> new <> [slash] ->
  (snd (spec_rename a old new) <> OOk -> fst (spec_rename a old new) = a) /\
  (old = new -> fst (spec_rename a old new) = a) /\
  (snd (spec_rename a old new) = OOk -> old <> new ->
     old <> [slash] /\ forall m, lookup (fst (spec_rename a old new)) m = threeway old new (lookup a) m).
Proof.
  intros Hng Hcl Go Gn Hn. unfold spec_rename.
  destruct (eqb_str old [slash]) eqn:Eor.
  { cbn [fst snd]. split; [reflexivity|]. split; [reflexivity|]. intros K. discriminate. }
  assert (Ho : old <> [slash]) by (apply eqb_str_neq; exact Eor).
  destruct (lookup a old) as [sv|] eqn:Lo.
  2:{ cbn [fst snd]. split; [reflexivity|]. split; [reflexivity|]. intros K. discriminate. }
  destruct (eqb_str old new) eqn:Eon.
  { cbn [fst snd]. split; [reflexivity|]. split; [reflexivity|]. intros _ K. apply eqb_str_eq in Eon. contradiction. }
  destruct (is_dir sv && has_prefix (pfx old) new) eqn:Einto.
  { cbn [fst snd]. split; [reflexivity|]. split; [reflexivity|]. intros K. discriminate. }
  unfold spec_parent. destruct (lookup a (path_dir new)) as [pv|] eqn:Lp.
  2:{ cbn [fst snd]. split; [reflexivity|]. split; [reflexivity|]. intros K. discriminate. }
  destruct (is_dir pv) eqn:Epd.
  2:{ cbn [fst snd]. split; [reflexivity|]. split; [reflexivity|]. intros K. discriminate. }
  assert (Hd1 : inside old new = false).
  { unfold inside. rewrite (eqb_str_sym new old), Eon. cbn [orb]. destruct (below old new) eqn:Eb; [exfalso|reflexivity].
    destruct (is_dir sv) eqn:Esd.
    - cbn [andb] in Einto. unfold below in Eb. rewrite Einto in Eb. discriminate.
    - destruct (below_parent old new Go Gn Eb) as [K|K].
      + rewrite <- K in Lp. congruence.
      + destruct (Hcl _ _ Lp old Go K) as (d & Hd & Hdir). congruence. }
  (* the source of a moved name is never the target *)
  assert (Hsrc : forall m, inside new m = true -> eqb_str (old ++ skipn (length new) m) new = false).
  { intros m Hm. apply eqb_str_neq. intro K.
    apply (inside_iff new _ Gn Hn) in Hm as (sm & -> & Hsm). rewrite skipn_app_len in K.
    assert (inside old new = true); [|congruence]. rewrite <- K. apply inside_app; assumption. }
  destruct (lookup a new) as [tv|] eqn:Ln.
  - destruct (negb (n_tf tv =? n_tf sv)).
    { cbn [fst snd]. split; [reflexivity|]. split; [reflexivity|]. intros K. discriminate. }
    unfold spec_remove. rewrite Ln.
    destruct (is_dir tv && has_below a new) eqn:Ecase; cbn [fst snd].
    { split; [reflexivity|]. split; [reflexivity|]. intros K. discriminate. }
    split; [intro K; contradiction|]. split; [intro K; apply eqb_str_neq in Eon; contradiction|]. intros _ _.
    split; [exact Ho|].
    assert (Hbel : forall x v, lookup a x = Some v -> below new x = false).
    { intros x v Hx. destruct (below new x) eqn:Eb; [exfalso|reflexivity].
      destruct (Hcl x v Hx new Gn Eb) as (d & Hd & Hdir). rewrite Ln in Hd. inversion Hd; subst d.
      rewrite Hdir in Ecase. cbn [andb] in Ecase. rewrite (has_below_false _ _ _ _ Ecase Hx) in Eb. discriminate. }
    intro m. rewrite (lookup_ns_move old new Go Ho Gn Hn).
    + unfold threeway. rewrite !lookup_ns_del. destruct (inside new m) eqn:Em.
      * rewrite (Hsrc m Em). reflexivity.
      * destruct (inside old m); [reflexivity|].
        destruct (eqb_str m new) eqn:K; [|reflexivity]. apply eqb_str_eq in K. subst m. rewrite inside_refl in Em. discriminate.
    + intros e He. destruct (inside new (fst e)) eqn:K; [|reflexivity]. exfalso. apply (in_lookup _ e He).
      rewrite lookup_ns_del. unfold inside in K. destruct (eqb_str (fst e) new); [reflexivity|]. cbn [orb] in K.
      destruct (lookup a (fst e)) as [v|] eqn:Lx; [|reflexivity]. rewrite (Hbel _ v Lx) in K. discriminate.
  - cbn [fst snd]. split; [intro K; contradiction|]. split; [intro K; apply eqb_str_neq in Eon; contradiction|]. intros _ _.
    split; [exact Ho|].
    assert (Hbel : forall x v, lookup a x = Some v -> below new x = false).
    { intros x v Hx. destruct (below new x) eqn:Eb; [exfalso|reflexivity].
      destruct (Hcl x v Hx new Gn Eb) as (d & Hd & _). congruence. }
    intro m. apply (lookup_ns_move old new Go Ho Gn Hn).
    intros e He. destruct (inside new (fst e)) eqn:K; [|reflexivity]. exfalso. apply (in_lookup _ e He).
    unfold inside in K. destruct (eqb_str (fst e) new) eqn:Ex.
    + apply eqb_str_eq in Ex. rewrite Ex. exact Ln.
    + cbn [orb] in K. destruct (lookup a (fst e)) as [v|] eqn:Lx; [|reflexivity]. rewrite (Hbel _ v Lx) in K. discriminate.
Qed.

Lemma rename_cores a old new : names_good a -> closed a -> good old -> good new -> new <> [slash] ->
  sub_cores (fst (spec_rename a old new)) a.
Proof.
  intros Hng Hcl Go Gn Hn. destruct (rename_lookup a old new Hng Hcl Go Gn Hn) as (A & B & C).
  destruct (eqb_str old new) eqn:Eon.
  { apply eqb_str_eq in Eon. rewrite (B Eon). apply sub_cores_refl. }
  apply eqb_str_neq in Eon.
  destruct (snd (spec_rename a old new)) eqn:Eo; try (rewrite A by discriminate; apply sub_cores_refl).
  destruct (C eq_refl Eon) as (_ & L). intros m v Hm. rewrite L in Hm. unfold threeway in Hm.
  right. destruct (inside new m).
  - eexists _, v. split; [exact Hm|reflexivity].
  - destruct (inside old m); [discriminate|]. exists m, v. split; [exact Hm|reflexivity].
Qed.

Lemma rename_effect a old new m : names_good a -> closed a -> good old -> good new -> new <> [slash] ->
  cof c t (lookup (fst (spec_rename a old new)) m) = upd_w (CRename old new) (snd (spec_rename a old new)) (cm a) m.
Proof.
  intros Hng Hcl Go Gn Hn. destruct (rename_lookup a old new Hng Hcl Go Gn Hn) as (A & B & C).
  destruct (eqb_str old new) eqn:Eon.
  { pose proof Eon as Eon'. apply eqb_str_eq in Eon'. rewrite (B Eon'). unfold upd_w. rewrite Eon.
    destruct (snd (spec_rename a old new)); reflexivity. }
  pose proof Eon as Eon'. apply eqb_str_neq in Eon'.
  destruct (snd (spec_rename a old new)) eqn:Eo; try (rewrite A by discriminate; reflexivity).
  destruct (C eq_refl Eon') as (_ & L). rewrite L. unfold upd_w. rewrite Eon. unfold w_move, threeway.
  destruct (inside new m); [reflexivity|]. destruct (inside old m); reflexivity.
Qed.

Lemma rename_wgood a old new : good old -> good new -> new <> [slash] ->
  snd (spec_rename a old new) = OOk -> wgood (CRename old new).
Proof.
  intros Go Gn Hn. unfold spec_rename. destruct (eqb_str old [slash]) eqn:Eor; [discriminate|]. intros _.
  right. repeat split; try assumption. apply eqb_str_neq. exact Eor.
Qed.
End Spec.
