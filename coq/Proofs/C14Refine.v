(* C14: the file handle model (Model/File.v: hstate/hstep) refines the byte array with a cursor
   (fspec/spec_step) inside an envelope of operations. *)
From Coq Require Import List NArith ZArith Bool Lia.
From Coq Require Import ZifyN ZifyBool.
Import ListNotations.
From STFS Require Import Str Db Tape Index Ops Fs File.
Open Scope N_scope.

(* ---------------------------------------------------------------- lengths of pieces *)
Lemma clen_cons p c : clen (p :: c) = plen p + clen c.
Proof. reflexivity. Qed.

Lemma clen_ctake n c : clen (ctake n c) = N.min n (clen c).
Proof.
  revert n. induction c as [|[[sd off] l] r IH]; intro n.
  - cbn. lia.
  - cbn [ctake]. rewrite clen_cons. cbn [plen snd].
    destruct (n =? 0) eqn:E0; [cbn; lia|].
    destruct (l <=? n) eqn:El.
    + rewrite clen_cons, IH. cbn [plen snd]. lia.
    + rewrite clen_cons. cbn [plen snd clen fold_right]. lia.
Qed.

Lemma clen_cdrop n c : clen (cdrop n c) = clen c - n.
Proof.
  revert n. induction c as [|[[sd off] l] r IH]; intro n.
  - cbn. lia.
  - cbn [cdrop]. destruct (n =? 0) eqn:E0; [lia|].
    destruct (l <=? n) eqn:El.
    + rewrite IH, clen_cons. cbn [plen snd]. lia.
    + rewrite !clen_cons. cbn [plen snd]. lia.
Qed.

Lemma clen_cread c k n : clen (cread c k n) = N.min n (clen c - k).
Proof. unfold cread. rewrite clen_ctake, clen_cdrop. reflexivity. Qed.

Lemma cread_nil k n : cread [] k n = [].
Proof. reflexivity. Qed.

(* ---------------------------------------------------------------- the comparisons are reflexive *)
Lemma eqb_str_refl a : eqb_str a a = true.
Proof. induction a as [|x a IH]; cbn; [reflexivity|]. rewrite N.eqb_refl, IH. reflexivity. Qed.

Lemma ceqb_refl c : ceqb c c = true.
Proof. apply eqb_str_refl. Qed.

Lemma hres_eqb_refl x : hres_eqb x x = true.
Proof.
  destruct x; cbn; try reflexivity.
  - unfold cnorm'. rewrite ceqb_refl, Bool.eqb_reflx. cbn. apply orb_true_r.
  - apply Z.eqb_refl.
  - apply N.eqb_refl.
  - apply N.eqb_refl.
Qed.

Lemma expand_piece_len0 sd off : expand_piece (sd, off, 0) = [].
Proof. unfold expand_piece. destruct (sd =? 0); [reflexivity|]. destruct (1000000 <=? sd); reflexivity. Qed.

Lemma expand_clen0 c : clen c = 0 -> expand c = [].
Proof.
  induction c as [|[[sd off] l] r IH]; intro H; [reflexivity|].
  rewrite clen_cons in H. cbn [plen snd] in H.
  assert (l = 0) by lia. assert (clen r = 0) by lia. subst l.
  unfold expand in *. cbn [flat_map]. rewrite expand_piece_len0, IH by assumption. reflexivity.
Qed.

Lemma ceqb_clen0 a b : clen a = 0 -> clen b = 0 -> ceqb a b = true.
Proof. intros Ha Hb. unfold ceqb. rewrite (expand_clen0 a Ha), (expand_clen0 b Hb). reflexivity. Qed.

(* dropping beyond the end leaves nothing *)
Lemma cdrop_beyond c : forall k, clen c < k -> cdrop k c = [].
Proof.
  induction c as [|[[sd off] l] r IH]; intros k H; [reflexivity|].
  rewrite clen_cons in H. cbn [plen snd] in H. cbn [cdrop].
  destruct (k =? 0) eqn:E0; [lia|].
  destruct (l <=? k) eqn:El; [|lia].
  apply IH. lia.
Qed.

Lemma cread_beyond c k n : clen c < k -> cread c k n = [].
Proof. intro H. unfold cread. rewrite cdrop_beyond by assumption. reflexivity. Qed.

(* no zero-length pieces at the very end of a content (dropping everything leaves the empty piece list) *)
Definition notrail (c : content) : Prop := cdrop (clen c) c = [].

Lemma cread_end_notrail c n : notrail c -> cread c (clen c) n = [].
Proof. unfold notrail, cread. intros ->. reflexivity. Qed.

Lemma notrail_nil : notrail [].
Proof. reflexivity. Qed.

Lemma notrail_clen0 c : notrail c -> clen c = 0 -> c = [].
Proof. unfold notrail. intros H H0. rewrite H0 in H. destruct c as [|[[sd off] l] r]; [reflexivity|exact H]. Qed.

(* ---------------------------------------------------------------- the envelope *)
(* the envelope of the task statement: every operation except a Seek whose target lies beyond the end of the data
   (ReadAt/WriteAt, accepted or refused, are inside: they preserve the cursor since the repair) *)
Definition op_ok (s : fspec) (o : hop) : bool :=
  match o with
  | HSeek off w =>
      (* the target must not lie beyond the end of the data *)
      let base := if w =? 0 then 0%Z else if w =? 1 then Z.of_N (sp_pos s) else Z.of_N (clen (sp_data s)) in
      (base + off <=? Z.of_N (clen (sp_data s)))%Z
  | _ => true
  end.
Fixpoint ops_ok (s : fspec) (ops : list hop) : bool :=
  match ops with [] => true | o :: r => op_ok s o && ops_ok (fst (spec_step s o)) r end.

Definition results_agree (a b : list hres) : Prop := Forall2 (fun x y => hres_eqb x y = true) a b.

(* the wider envelope: [wm] says that the handle is known to be in write mode (it was opened
   truncating a non-empty file for writing, or an earlier Write/WriteAt (accepted or refused for a negative
   offset) or a Truncate to a non-negative size was issued on a writable handle; a Truncate to a negative size
   is refused before write mode is entered).  In write mode every seek is fine; in read mode a seek is fine
   when it is rejected (bad whence, negative target) or its target is not beyond the end.  Everything else,
   including every ReadAt and WriteAt, is fine in both modes. *)
Definition enters_write (fl : flags) (o : hop) : bool :=
  fl_write fl && match o with HWrite _ | HWriteAt _ _ => true | HTruncate sz => negb (sz <? 0)%Z | _ => false end.

Definition op_ok' (wm : bool) (s : fspec) (o : hop) : bool :=
  match o with
  | HSeek off w =>
      let base := if w =? 0 then 0%Z else if w =? 1 then Z.of_N (sp_pos s) else Z.of_N (clen (sp_data s)) in
      wm || (2 <? w) || (base + off <=? Z.of_N (clen (sp_data s)))%Z
  | _ => true
  end.
Fixpoint ops_ok' (wm : bool) (s : fspec) (ops : list hop) : bool :=
  match ops with
  | [] => true
  | o :: r => op_ok' wm s o && ops_ok' (wm || enters_write (sp_fl s) o) (fst (spec_step s o)) r
  end.
Definition wm_open (existing : content) (fl : flags) : bool :=
  fl_write fl && fl_trunc fl && negb (clen existing =? 0).

(* only for SYNTACTIC equality of the results on contents that end in zero-length pieces: an accepted ReadAt in
   read mode must not start beyond the end (the stream stops at the end and delivers those zero-length pieces,
   the byte array delivers the empty piece list; both are zero bytes) *)
Definition op_strict (wm : bool) (s : fspec) (o : hop) : bool :=
  match o with
  | HReadAt _ off => wm || negb (fl_read (sp_fl s)) || (off <=? Z.of_N (clen (sp_data s)))%Z
  | _ => true
  end.
Fixpoint ops_strict (wm : bool) (s : fspec) (ops : list hop) : bool :=
  match ops with
  | [] => true
  | o :: r => op_strict wm s o && ops_strict (wm || enters_write (sp_fl s) o) (fst (spec_step s o)) r
  end.

Lemma op_ok_weaken wm s o : op_ok s o = true -> op_ok' wm s o = true.
Proof.
  destruct o; cbn; try discriminate; try reflexivity.
  intro H. rewrite H. rewrite !orb_true_r. reflexivity.
Qed.

Lemma ops_ok_weaken ops : forall wm s, ops_ok s ops = true -> ops_ok' wm s ops = true.
Proof.
  induction ops as [|o r IH]; intros wm s H; [reflexivity|].
  cbn [ops_ok ops_ok'] in *. apply andb_true_iff in H. destruct H as [H1 H2].
  rewrite (op_ok_weaken wm s o H1), (IH _ _ H2). reflexivity.
Qed.

(* ---------------------------------------------------------------- the simulation relation *)
Definition rp (h : hstate) : N := match hs_rpos h with Some k => k | None => 0 end.
Definition is_w (h : hstate) : bool := match hs_buf h with Some _ => true | None => false end.

(* [z = true]: a handle opened O_TRUNC for writing on an existing content that consists of zero-length
   pieces only stays in read mode with that content on "tape", while the reference holds []; the two
   agree up to [expand] only.  [z = false] excludes that corner and gives syntactic equality.
   [q = true]: the content on "tape" does not end in zero-length pieces. *)
Definition empty_like (z : bool) (c : content) : Prop := if z then clen c = 0 else c = [].
Lemma empty_like_clen z c : empty_like z c -> clen c = 0.
Proof. destruct z; cbn; [auto|intros ->; reflexivity]. Qed.

Definition sim (z q : bool) (h : hstate) (s : fspec) : Prop :=
  hs_fl h = sp_fl s /\
  match hs_buf h with
  | Some (b, cur) => b = sp_data s /\ cur = sp_pos s
  | None =>
      hs_isize h = clen (hs_tape h) /\ sp_pos s = rp h /\ sp_pos s <= clen (hs_tape h) /\
      (q = true -> notrail (hs_tape h)) /\
      (if fl_write (sp_fl s) && fl_trunc (sp_fl s)
       then empty_like z (hs_tape h) /\ sp_data s = []
       else hs_tape h = sp_data s)
  end.

(* results: equal, or both an empty read at end of file (a content consisting of zero-length pieces
   against the empty piece list) *)
Definition res_sim (z : bool) (x y : hres) : Prop :=
  x = y \/ (z = true /\ exists d, x = RData d true /\ y = RData [] true /\ clen d = 0).

Lemma res_sim_eqb z x y : res_sim z x y -> hres_eqb x y = true.
Proof.
  intros [->|(_ & d & -> & -> & H)]; [apply hres_eqb_refl|].
  cbn. unfold cnorm'. rewrite ceqb_clen0 by (assumption || reflexivity). rewrite H. reflexivity.
Qed.

Lemma res_sim_eq x y : res_sim false x y -> x = y.
Proof. intros [H|[H _]]; [exact H|discriminate]. Qed.

(* the corner excluded by [z = false] *)
Definition no_empty_pieces_corner (existing : content) (fl : flags) : Prop :=
  fl_write fl && fl_trunc fl = true -> clen existing = 0 -> existing = [].

Lemma notrail_no_corner existing fl : notrail existing -> no_empty_pieces_corner existing fl.
Proof. intros H _ H0. apply notrail_clen0; assumption. Qed.

Lemma hs_fl_enter_write h : hs_fl (enter_write h) = hs_fl h.
Proof. unfold enter_write. destruct (hs_buf h); reflexivity. Qed.
Lemma is_w_to_end h d : is_w (to_end_if_append h d) = is_w h.
Proof.
  unfold to_end_if_append, is_w. destruct (fl_append (hs_fl h) && _); [|reflexivity].
  destruct (hs_buf h) as [[b cur]|] eqn:Eb; cbn; rewrite ?Eb; reflexivity.
Qed.

Lemma sim_open z q existing fl :
  (z = false -> no_empty_pieces_corner existing fl) ->
  (q = true -> notrail existing) ->
  sim z q (h_open existing fl) (spec_open existing fl).
Proof.
  intros Hz Hq. unfold sim, h_open, spec_open, rp. cbn [hs_fl sp_fl hs_buf hs_tape hs_isize hs_rpos sp_data sp_pos].
  split; [reflexivity|].
  destruct (fl_write fl && fl_trunc fl) eqn:E; cbn [andb].
  - destruct (clen existing =? 0) eqn:E0; cbn [negb].
    + repeat split; try lia; try assumption. unfold empty_like. destruct z; [lia|]. apply Hz; [reflexivity|exact E|lia].
    + split; reflexivity.
  - repeat split; try lia; assumption.
Qed.

Lemma is_w_open existing fl : wm_open existing fl = true -> is_w (h_open existing fl) = true.
Proof. unfold wm_open, is_w, h_open. cbn [hs_buf]. intros ->. reflexivity. Qed.

(* entering write mode preserves the relation *)
Lemma sim_enter_write z q h s : sim z q h s -> fl_write (sp_fl s) = true -> sim z q (enter_write h) s.
Proof.
  destruct h as [tape isz rpos buf fl], s as [data pos fl'].
  unfold sim, enter_write, rp. cbn [hs_fl sp_fl hs_buf hs_tape hs_isize hs_rpos sp_data sp_pos].
  intros (-> & Hm) Hw. destruct buf as [[b cur]|].
  - cbn [hs_fl sp_fl hs_buf hs_tape hs_isize hs_rpos]. auto.
  - cbn [hs_fl sp_fl hs_buf hs_tape hs_isize hs_rpos]. rewrite Hw in Hm. cbn [andb] in Hm.
    split; [reflexivity|].
    destruct Hm as (Hi & Hp & Hle & _ & Hd). destruct (fl_trunc fl').
    + destruct Hd as [H0 ->]. apply empty_like_clen in H0. split; [reflexivity|]. destruct rpos; lia.
    + split; [assumption|]. destruct rpos; lia.
Qed.

Lemma is_w_enter_write h : is_w (enter_write h) = true.
Proof. unfold is_w, enter_write. destruct (hs_buf h); reflexivity. Qed.

(* ---------------------------------------------------------------- seeks, unfolded *)
Lemma h_seek_cur_w h b cur : hs_buf h = Some (b, cur) -> h_seek h 0 1 = (set_buf h b cur, ROff (Z.of_N cur)).
Proof.
  intro E. unfold h_seek. rewrite E.
  change (1 =? 0) with false. change (1 =? 1) with true. change (2 <? 1) with false. cbv beta iota zeta.
  rewrite Z.add_0_r, N2Z.id. cbn [orb].
  destruct (Z.ltb_spec (Z.of_N cur) 0); [lia|reflexivity].
Qed.

Lemma h_seek_cur_r h : hs_buf h = None -> h_seek h 0 1 = (seek_read h (rp h), ROff (Z.of_N (rp h))).
Proof.
  intro E. unfold h_seek. rewrite E. fold (rp h).
  change (1 =? 0) with false. change (1 =? 1) with true. change (2 <? 1) with false. cbv beta iota zeta.
  rewrite Z.add_0_r, N2Z.id. cbn [orb].
  destruct (Z.ltb_spec (Z.of_N (rp h)) 0); [lia|reflexivity].
Qed.

Lemma h_seek_abs_w h b cur off : hs_buf h = Some (b, cur) ->
  h_seek h off 0 = if (off <? 0)%Z then (h, RErr) else (set_buf h b (Z.to_N off), ROff off).
Proof.
  intro E. unfold h_seek. rewrite E.
  change (0 =? 0) with true. change (2 <? 0) with false. cbv beta iota zeta.
  change (0 + off)%Z with off. cbn [orb]. reflexivity.
Qed.

Lemma h_seek_abs_r h off : hs_buf h = None ->
  h_seek h off 0 = if (off <? 0)%Z then (h, RErr) else (seek_read h (Z.to_N off), ROff off).
Proof.
  intro E. unfold h_seek. rewrite E.
  change (0 =? 0) with true. change (2 <? 0) with false. cbv beta iota zeta.
  change (0 + off)%Z with off. cbn [orb]. reflexivity.
Qed.

Lemma of_N_ltb0 n : (Z.of_N n <? 0)%Z = false.
Proof. destruct (Z.ltb_spec (Z.of_N n) 0); [lia|reflexivity]. Qed.

(* ---------------------------------------------------------------- one step *)
Ltac proj := cbn [hs_fl sp_fl hs_buf hs_tape hs_isize hs_rpos sp_data sp_pos fst snd set_buf seek_read] in *.

(* ReadAt and WriteAt on a handle in write mode *)
Lemma hstep_readat_w h b cur n off : hs_buf h = Some (b, cur) -> fl_read (hs_fl h) = true ->
  hstep h (HReadAt n off) =
  if (off <? 0)%Z then (set_buf h b cur, RErr)
  else (set_buf h b cur, let d := cread b (Z.to_N off) n in RData d (clen d =? 0)).
Proof.
  intros E Hr. unfold hstep. rewrite Hr. cbn [negb].
  rewrite (h_seek_cur_w h b cur E).
  rewrite (h_seek_abs_w (set_buf h b cur) b cur off eq_refl).
  destruct (off <? 0)%Z; [reflexivity|].
  unfold h_read. proj. rewrite Hr. cbn [negb].
  erewrite h_seek_abs_w by reflexivity. rewrite of_N_ltb0, N2Z.id. reflexivity.
Qed.

Lemma hstep_writeat_w h b cur d off : hs_buf h = Some (b, cur) ->
  (let '(h0, c) := h_seek h 0 1 in
   match c with
   | ROff c =>
      match h_seek h0 off 0 with
      | (h1, ROff _) =>
        let '(h2, r) := h_write_at_cursor h1 d in
        match h_seek h2 c 0 with
        | (h3, ROff _) => (h3, r)
        | (h3, _) => (h3, RErr)
        end
      | (h1, _) => (h1, RErr)
      end
   | _ => (h0, RErr)
   end) =
  if (off <? 0)%Z then (set_buf h b cur, RErr)
  else (set_buf h (cwrite b (Z.to_N off) d) cur, RN (clen d)).
Proof.
  intros E.
  rewrite (h_seek_cur_w h b cur E).
  rewrite (h_seek_abs_w (set_buf h b cur) b cur off eq_refl).
  destruct (off <? 0)%Z; [reflexivity|].
  unfold h_write_at_cursor. proj.
  erewrite h_seek_abs_w by reflexivity. rewrite of_N_ltb0, N2Z.id. reflexivity.
Qed.

(* ReadAt on a handle in (streaming) read mode whose position is within the content *)
Lemma hstep_readat_r h n off : hs_buf h = None -> fl_read (hs_fl h) = true -> rp h <= clen (hs_tape h) ->
  hstep h (HReadAt n off) =
  if (off <? 0)%Z then (seek_read h (rp h), RErr)
  else (seek_read h (rp h),
        let d := cread (hs_tape h) (N.min (Z.to_N off) (clen (hs_tape h))) n in RData d (clen d =? 0)).
Proof.
  intros E Hr Hle. unfold hstep. rewrite Hr. cbn [negb].
  rewrite (h_seek_cur_r h E).
  rewrite (h_seek_abs_r (seek_read h (rp h)) off eq_refl).
  destruct (off <? 0)%Z; [reflexivity|].
  unfold h_read. proj. rewrite Hr. cbn [negb].
  erewrite h_seek_abs_r by reflexivity. rewrite of_N_ltb0, N2Z.id. reflexivity.
Qed.

Lemma sim_step z q wm h s o :
  sim z q h s -> (wm = true -> is_w h = true) -> op_ok' wm s o = true ->
  z || q || op_strict wm s o = true ->
  sim z q (fst (hstep h o)) (fst (spec_step s o)) /\ res_sim z (snd (hstep h o)) (snd (spec_step s o)).
Proof.
  intros Hsim Hwm Hok Hst. pose proof Hsim as Hsim0.
  destruct Hsim as (Hfl & Hm).
  destruct o as [n|n off|off w|d|d off|sz| |].
  - (* Read *)
    unfold hstep, h_read, spec_step. rewrite Hfl.
    destruct (fl_read (sp_fl s)); cbn [negb]; [|split; [exact Hsim0|left; reflexivity]].
    unfold sim, rp in *.
    destruct (hs_buf h) as [[b cur]|]; proj.
    + destruct Hm as [-> ->]. split; [|left; reflexivity]. auto.
    + destruct Hm as (Hi & Hp & Hle & Hq & Hd). rewrite <- Hp.
      destruct (fl_write (sp_fl s) && fl_trunc (sp_fl s)).
      * destruct Hd as [H0 Hd]. rewrite Hd, cread_nil. pose proof (empty_like_clen _ _ H0) as H00.
        assert (Hc : clen (cread (hs_tape h) (sp_pos s) n) = 0) by (rewrite clen_cread; lia).
        rewrite Hc. cbn [clen fold_right]. split.
        -- repeat split; auto; lia.
        -- destruct z; cbn [empty_like] in H0.
           ++ right. split; [reflexivity|]. eexists. repeat split. exact Hc.
           ++ left. rewrite H0, cread_nil. reflexivity.
      * rewrite Hd in *. split; [|left; reflexivity].
        repeat split; auto. rewrite clen_cread. lia.
  - (* ReadAt *)
    unfold spec_step.
    destruct (fl_read (sp_fl s)) eqn:Er; cbn [negb orb].
    2:{ unfold hstep. rewrite Hfl, Er. cbn [negb]. split; [exact Hsim0|left; reflexivity]. }
    rewrite <- Hfl in Er.
    destruct (hs_buf h) as [[b cur]|] eqn:Eb.
    + (* write mode *)
      rewrite (hstep_readat_w h b cur n off Eb Er). destruct Hm as [-> ->].
      assert (S1 : sim z q (set_buf h (sp_data s) (sp_pos s)) s) by (unfold sim; proj; auto).
      destruct (off <? 0)%Z; (split; [exact S1|left; reflexivity]).
    + (* read mode *)
      destruct Hm as (Hi & Hp & Hle & Hq & Hd).
      rewrite (hstep_readat_r h n off Eb Er) by lia.
      assert (S1 : sim z q (seek_read h (rp h)) s).
      { unfold sim, rp in *. proj. repeat split; auto; lia. }
      destruct (off <? 0)%Z eqn:Eo; [split; [exact S1|left; reflexivity]|].
      split; [exact S1|]. cbn [snd]. cbv zeta.
      destruct (fl_write (sp_fl s) && fl_trunc (sp_fl s)).
      * destruct Hd as [H0 Hd]. rewrite Hd, cread_nil. pose proof (empty_like_clen _ _ H0) as H00.
        set (k := N.min _ _).
        assert (Hc : clen (cread (hs_tape h) k n) = 0) by (rewrite clen_cread; lia).
        rewrite Hc. cbn [clen fold_right].
        destruct z; cbn [empty_like] in H0.
        -- right. split; [reflexivity|]. eexists. repeat split. exact Hc.
        -- left. rewrite H0, cread_nil. reflexivity.
      * rewrite <- Hd.
        destruct (N.le_gt_cases (Z.to_N off) (clen (hs_tape h))) as [Hin|Hout].
        -- rewrite N.min_l by assumption. left. reflexivity.
        -- rewrite N.min_r by lia. rewrite (cread_beyond (hs_tape h) (Z.to_N off) n Hout).
           assert (Hc : clen (cread (hs_tape h) (clen (hs_tape h)) n) = 0) by (rewrite clen_cread; lia).
           rewrite Hc. cbn [clen fold_right].
           destruct z; [right; split; [reflexivity|]; eexists; repeat split; exact Hc|].
           left. destruct q.
           ++ rewrite cread_end_notrail by auto. reflexivity.
           ++ exfalso. cbn [orb op_strict] in Hst. rewrite <- Hfl, Er, <- Hd in Hst. cbn [negb orb] in Hst.
              destruct wm; [specialize (Hwm eq_refl); unfold is_w in Hwm; rewrite Eb in Hwm; discriminate|].
              cbn [orb] in Hst. apply Z.leb_le in Hst. apply Z.ltb_ge in Eo. lia.
  - (* Seek *)
    unfold hstep, h_seek, spec_step, op_ok' in *.
    unfold sim, rp, is_w in *.
    destruct (hs_buf h) as [[b cur]|] eqn:Eb; proj.
    + destruct Hm as [-> ->].
      destruct ((2 <? w) || _); proj; rewrite ?Eb; (split; [auto|left; reflexivity]).
    + destruct Hm as (Hi & Hp & Hle & Hq & Hd).
      assert (Hlen : clen (hs_tape h) = clen (sp_data s)).
      { destruct (fl_write (sp_fl s) && fl_trunc (sp_fl s)); [destruct Hd as [H0 ->]; apply empty_like_clen in H0; rewrite H0; reflexivity|rewrite Hd; reflexivity]. }
      rewrite Hi, Hlen, <- Hp.
      destruct wm; [specialize (Hwm eq_refl); discriminate|]. cbn [orb] in Hok.
      set (base := if w =? 0 then 0%Z else if w =? 1 then Z.of_N (sp_pos s) else Z.of_N (clen (sp_data s))) in *.
      destruct ((2 <? w) || (base + off <? 0)%Z) eqn:Ec; proj; rewrite ?Eb.
      * split; [|left; reflexivity]. repeat split; auto.
      * split; [|left; reflexivity]. apply orb_false_iff in Ec. destruct Ec as [Ec1 Ec2].
        rewrite Ec1 in Hok. cbn [orb] in Hok.
        repeat split; auto; try lia.
  - (* Write *)
    unfold hstep, spec_step. rewrite Hfl.
    destruct (fl_write (sp_fl s)) eqn:Ew; cbn [negb]; [|split; [exact Hsim0|left; reflexivity]].
    pose proof (sim_enter_write z q h s Hsim0 Ew) as H1. pose proof (is_w_enter_write h) as W1.
    generalize dependent (enter_write h). intros h1 H1 W1.
    unfold sim, is_w, h_write_at_cursor, to_end_if_append in *. destruct H1 as (Hfl1 & Hm1).
    destruct (hs_buf h1) as [[b cur]|] eqn:Eb; [|discriminate]. destruct Hm1 as [-> ->]. rewrite Hfl1.
    destruct (fl_append (sp_fl s) && (0 <? clen d)); proj; rewrite ?Eb; proj; (split; [auto|left; reflexivity]).
  - (* WriteAt *)
    unfold hstep, spec_step. rewrite Hfl.
    destruct (fl_write (sp_fl s)) eqn:Ew; cbn [negb orb] in *; [|split; [exact Hsim0|left; reflexivity]].
    pose proof (sim_enter_write z q h s Hsim0 Ew) as H1. pose proof (is_w_enter_write h) as W1.
    generalize dependent (enter_write h). intros h1 H1 W1.
    unfold is_w in W1. destruct (hs_buf h1) as [[b cur]|] eqn:Eb; [|discriminate].
    pose proof (hstep_writeat_w h1 b cur d off Eb) as E. 
    destruct (h_seek h1 0 1) as [h0 c]. rewrite E. clear E.
    unfold sim in H1. rewrite Eb in H1. destruct H1 as (Hfl1 & -> & ->).
    destruct (off <? 0)%Z; (split; [unfold sim; proj; auto|left; reflexivity]).
  - (* Truncate *)
    unfold hstep, spec_step. rewrite Hfl.
    destruct (fl_write (sp_fl s)) eqn:Ew; cbn [negb orb]; [|split; [exact Hsim0|left; reflexivity]].
    destruct (sz <? 0)%Z eqn:Esz; [split; [exact Hsim0|left; reflexivity]|].
    pose proof (sim_enter_write z q h s Hsim0 Ew) as H1. pose proof (is_w_enter_write h) as W1.
    generalize dependent (enter_write h). intros h1 H1 W1. cbn zeta.
    unfold is_w in *. destruct (hs_buf h1) as [[b cur]|] eqn:Eb; [|discriminate].
    unfold sim in *. rewrite Eb in H1. destruct H1 as (Hfl1 & [-> ->]). proj.
    split; [auto|left; reflexivity].
  - (* Sync *)
    unfold hstep, spec_step. unfold sim in *.
    destruct (hs_buf h) as [[b cur]|] eqn:Eb; proj; rewrite ?Eb; (split; [auto|left; reflexivity]).
  - (* Stat *)
    unfold hstep, spec_step. proj. split; [exact Hsim0|]. left. f_equal.
    destruct (hs_buf h) as [[b cur]|] eqn:Eb; [destruct Hm as [-> _]; reflexivity|].
    destruct Hm as (Hi & Hp & Hle & Hq & Hd). rewrite Hi.
    destruct (fl_write (sp_fl s) && fl_trunc (sp_fl s)); [destruct Hd as [H0 ->]; apply empty_like_clen in H0; rewrite H0; reflexivity|rewrite Hd; reflexivity].
Qed.

(* write mode is never left, and Write/WriteAt/Truncate on a writable handle enter it *)
Lemma is_w_h_seek h off w : is_w (fst (h_seek h off w)) = is_w h.
Proof.
  unfold h_seek, is_w. destruct (hs_buf h) as [[b cur]|] eqn:Eb.
  - destruct (_ || _); cbn; rewrite ?Eb; reflexivity.
  - destruct (_ || _); cbn; rewrite ?Eb; reflexivity.
Qed.

Lemma is_w_h_read h n : is_w (fst (h_read h n)) = is_w h.
Proof.
  unfold h_read, is_w. destruct (negb _); [reflexivity|].
  destruct (hs_buf h) as [[b cur]|] eqn:Eb; cbn; rewrite ?Eb; reflexivity.
Qed.

Lemma is_w_h_write h d : is_w (fst (h_write_at_cursor h d)) = is_w h.
Proof.
  unfold h_write_at_cursor, is_w. destruct (hs_buf h) as [[b cur]|] eqn:Eb; cbn; rewrite ?Eb; reflexivity.
Qed.

Lemma is_w_readat h n off : is_w (fst (hstep h (HReadAt n off))) = is_w h.
Proof.
  unfold hstep. destruct (negb _); [reflexivity|].
  pose proof (is_w_h_seek h 0 1) as S0. destruct (h_seek h 0 1) as [h0 r0]. cbn [fst] in S0.
  destruct r0; cbn [fst]; try exact S0.
  pose proof (is_w_h_seek h0 off 0) as S1. destruct (h_seek h0 off 0) as [h1 r1]. cbn [fst] in S1.
  destruct r1; cbn [fst]; try congruence.
  pose proof (is_w_h_read h1 n) as S2. destruct (h_read h1 n) as [h2 r2]. cbn [fst] in S2.
  pose proof (is_w_h_seek h2 o 0) as S3. destruct (h_seek h2 o 0) as [h3 r3]. cbn [fst] in S3.
  destruct r3; cbn [fst]; congruence.
Qed.

Lemma is_w_writeat h d off : fl_write (hs_fl h) = true -> is_w (fst (hstep h (HWriteAt d off))) = true.
Proof.
  intro Hw. unfold hstep. rewrite Hw. cbn [negb].
  pose proof (is_w_enter_write h) as W. generalize dependent (enter_write h). intros h' W.
  pose proof (is_w_h_seek h' 0 1) as S0. destruct (h_seek h' 0 1) as [h0 r0]. cbn [fst] in S0.
  destruct r0; cbn [fst]; try congruence.
  pose proof (is_w_h_seek h0 off 0) as S1. destruct (h_seek h0 off 0) as [h1 r1]. cbn [fst] in S1.
  destruct r1; cbn [fst]; try congruence.
  pose proof (is_w_h_write h1 d) as S2. destruct (h_write_at_cursor h1 d) as [h2 r2]. cbn [fst] in S2.
  pose proof (is_w_h_seek h2 o 0) as S3. destruct (h_seek h2 o 0) as [h3 r3]. cbn [fst] in S3.
  destruct r3; cbn [fst]; congruence.
Qed.

Lemma is_w_writeat_ro h d off : fl_write (hs_fl h) = false -> fst (hstep h (HWriteAt d off)) = h.
Proof. intro Hw. unfold hstep. rewrite Hw. reflexivity. Qed.

Lemma is_w_step h o :
  is_w h = true \/ enters_write (hs_fl h) o = true -> is_w (fst (hstep h o)) = true.
Proof.
  unfold enters_write. intro H. destruct o as [n|n off|off w|d|d off|sz| |].
  - unfold hstep. rewrite is_w_h_read. destruct H as [H|H]; [exact H|]. rewrite andb_false_r in H. discriminate.
  - rewrite is_w_readat. destruct H as [H|H]; [exact H|]. rewrite andb_false_r in H. discriminate.
  - unfold hstep. rewrite is_w_h_seek. destruct H as [H|H]; [exact H|]. rewrite andb_false_r in H. discriminate.
  - unfold hstep. destruct (fl_write (hs_fl h)); cbn [negb andb] in *.
    + rewrite is_w_h_write, is_w_to_end. apply is_w_enter_write.
    + destruct H as [H|H]; [exact H|discriminate].
  - destruct (fl_write (hs_fl h)) eqn:Ew; cbn [negb andb] in *.
    + apply is_w_writeat. exact Ew.
    + rewrite is_w_writeat_ro by exact Ew. destruct H as [H|H]; [exact H|discriminate].
  - unfold hstep. destruct (fl_write (hs_fl h)); cbn [negb andb orb] in *.
    + destruct (sz <? 0)%Z; cbn [negb] in *; [destruct H as [H|H]; [exact H|discriminate]|].
      pose proof (is_w_enter_write h) as W. unfold is_w in *.
      destruct (hs_buf (enter_write h)) as [[b cur]|] eqn:Eb; [|discriminate].
      cbn; rewrite ?Eb; reflexivity.
    + destruct H as [H|H]; [exact H|discriminate].
  - unfold hstep. destruct H as [H|H]; [|rewrite andb_false_r in H; discriminate].
    unfold is_w in *. destruct (hs_buf h) as [[b cur]|] eqn:Eb; cbn; rewrite ?Eb; [reflexivity|exact H].
  - unfold hstep. destruct H as [H|H]; [exact H|]. rewrite andb_false_r in H. discriminate.
Qed.

(* ---------------------------------------------------------------- runs *)
Definition results_sim (z : bool) (a b : list hres) : Prop := Forall2 (res_sim z) a b.

Lemma sim_run z q ops : forall wm h s,
  sim z q h s -> (wm = true -> is_w h = true) -> ops_ok' wm s ops = true ->
  z || q || ops_strict wm s ops = true ->
  sim z q (fst (hrun h ops)) (fst (spec_run s ops)) /\ results_sim z (snd (hrun h ops)) (snd (spec_run s ops)).
Proof.
  induction ops as [|o r IH]; intros wm h s Hsim Hwm Hok Hst.
  - cbn. split; [exact Hsim|constructor].
  - cbn [ops_ok'] in Hok. apply andb_true_iff in Hok. destruct Hok as [Ho Hr].
    assert (Hst1 : z || q || op_strict wm s o = true /\
                   z || q || ops_strict (wm || enters_write (sp_fl s) o) (fst (spec_step s o)) r = true).
    { cbn [ops_strict] in Hst. destruct (z || q); [split; reflexivity|]. cbn [orb] in *.
      apply andb_true_iff in Hst. exact Hst. }
    destruct Hst1 as [Hso Hsr].
    destruct (sim_step z q wm h s o Hsim Hwm Ho Hso) as [S1 R1].
    pose proof (is_w_step h o) as W1.
    assert (Hfl : hs_fl h = sp_fl s) by (destruct Hsim as [E _]; exact E).
    cbn [hrun spec_run].
    destruct (hstep h o) as [h1 x]. destruct (spec_step s o) as [s1 y]. cbn [fst snd] in *.
    assert (Hwm1 : wm || enters_write (sp_fl s) o = true -> is_w h1 = true).
    { intro E. apply W1. apply orb_true_iff in E. destruct E as [E|E]; [left; auto|right; rewrite Hfl; exact E]. }
    destruct (IH _ h1 s1 S1 Hwm1 Hr Hsr) as [S2 R2].
    destruct (hrun h1 r) as [h2 xs]. destruct (spec_run s1 r) as [s2 ys]. cbn [fst snd] in *.
    split; [exact S2|constructor; assumption].
Qed.

Lemma sim_close z q h s : sim z q h s -> ceqb (h_close h) (sp_data s) = true.
Proof.
  unfold sim, h_close. intros (_ & Hm). destruct (hs_buf h) as [[b cur]|].
  - destruct Hm as [-> _]. apply ceqb_refl.
  - destruct Hm as (_ & _ & _ & _ & Hd). destruct (_ && _).
    + destruct Hd as [H0 ->]. apply ceqb_clen0; [exact (empty_like_clen _ _ H0)|reflexivity].
    + rewrite Hd. apply ceqb_refl.
Qed.

(* outside the corner the final content is the very same piece list *)
Lemma sim_close_eq q h s : sim false q h s -> h_close h = sp_data s.
Proof.
  unfold sim, h_close. intros (_ & Hm). destruct (hs_buf h) as [[b cur]|].
  - destruct Hm as [-> _]. reflexivity.
  - destruct Hm as (_ & _ & _ & _ & Hd). destruct (_ && _); [|exact Hd].
    destruct Hd as [H0 ->]. exact H0.
Qed.

Lemma results_sim_agree z a b : results_sim z a b -> results_agree a b.
Proof. unfold results_sim, results_agree. induction 1; constructor; eauto using res_sim_eqb. Qed.

Lemma results_sim_eq a b : results_sim false a b -> a = b.
Proof. unfold results_sim. induction 1; [reflexivity|]. f_equal; [apply res_sim_eq; assumption|assumption]. Qed.

(* the theorem for the wider envelope: every flag combination (O_APPEND included), every ReadAt/WriteAt *)
Theorem C14_refines_wide : forall existing fl ops,
  ops_ok' (wm_open existing fl) (spec_open existing fl) ops = true ->
  let '(h, rs) := hrun (h_open existing fl) ops in
  let '(s, rs') := spec_run (spec_open existing fl) ops in
  results_agree rs rs' /\ ceqb (h_close h) (sp_data s) = true.
Proof.
  intros existing fl ops Hok.
  assert (Hz : true = false -> no_empty_pieces_corner existing fl) by discriminate.
  assert (Hq : false = true -> notrail existing) by discriminate.
  destruct (sim_run true false ops _ _ _ (sim_open true false existing fl Hz Hq) (is_w_open existing fl) Hok eq_refl) as [S R].
  destruct (hrun (h_open existing fl) ops) as [h rs].
  destruct (spec_run (spec_open existing fl) ops) as [s rs']. cbn [fst snd] in *.
  split; [eapply results_sim_agree; exact R|eapply sim_close; exact S].
Qed.

(* syntactic equality of results and of the final piece list, for an existing content that does not end in
   zero-length pieces (in particular: a content without zero-length pieces) *)
Theorem C14_refines_eq : forall existing fl ops,
  notrail existing ->
  ops_ok' (wm_open existing fl) (spec_open existing fl) ops = true ->
  let '(h, rs) := hrun (h_open existing fl) ops in
  let '(s, rs') := spec_run (spec_open existing fl) ops in
  rs = rs' /\ h_close h = sp_data s.
Proof.
  intros existing fl ops Hc Hok.
  destruct (sim_run false true ops _ _ _
              (sim_open false true existing fl (fun _ => notrail_no_corner existing fl Hc) (fun _ => Hc))
              (is_w_open existing fl) Hok eq_refl) as [S R].
  destruct (hrun (h_open existing fl) ops) as [h rs].
  destruct (spec_run (spec_open existing fl) ops) as [s rs']. cbn [fst snd] in *.
  split; [apply results_sim_eq; exact R|eapply sim_close_eq; exact S].
Qed.

(* ... and for ANY existing content outside the corner "opened O_TRUNC for writing on a non-[] content whose pieces
   all have length 0", when no accepted ReadAt in read mode starts beyond the end *)
Theorem C14_refines_eq_strict : forall existing fl ops,
  no_empty_pieces_corner existing fl ->
  ops_ok' (wm_open existing fl) (spec_open existing fl) ops = true ->
  ops_strict (wm_open existing fl) (spec_open existing fl) ops = true ->
  let '(h, rs) := hrun (h_open existing fl) ops in
  let '(s, rs') := spec_run (spec_open existing fl) ops in
  rs = rs' /\ h_close h = sp_data s.
Proof.
  intros existing fl ops Hc Hok Hst.
  assert (Hq : false = true -> notrail existing) by discriminate.
  destruct (sim_run false false ops _ _ _ (sim_open false false existing fl (fun _ => Hc) Hq)
              (is_w_open existing fl) Hok Hst) as [S R].
  destruct (hrun (h_open existing fl) ops) as [h rs].
  destruct (spec_run (spec_open existing fl) ops) as [s rs']. cbn [fst snd] in *.
  split; [apply results_sim_eq; exact R|eapply sim_close_eq; exact S].
Qed.

(* the corner is real: syntactic equality fails there, equality up to [expand] holds *)
Example corner_not_syntactic :
  let existing := [(1, 0, 0)] in
  let fl := {| fl_read := true; fl_write := true; fl_append := false; fl_trunc := true |} in
  let ops := [HRead 1] in
  ops_ok (spec_open existing fl) ops = true /\
  hrun (h_open existing fl) ops =
    ({| hs_tape := [(1,0,0)]; hs_isize := 0; hs_rpos := Some 0; hs_buf := None; hs_fl := fl |}, [RData [(1, 0, 0)] true]) /\
  spec_run (spec_open existing fl) ops = ({| sp_data := []; sp_pos := 0; sp_fl := fl |}, [RData [] true]).
Proof. vm_compute. repeat split. Qed.

(* so is the other one: a ReadAt beyond the end of a content that ends in a zero-length piece, in read mode, delivers that
   piece where the byte array delivers []; inside the envelope, equal up to [expand], not syntactically *)
Example trailing_not_syntactic :
  let existing := [(5, 0, 4); (1, 0, 0)] in
  let fl := {| fl_read := true; fl_write := false; fl_append := false; fl_trunc := false |} in
  let ops := [HReadAt 2 7] in
  ops_ok (spec_open existing fl) ops = true /\ no_empty_pieces_corner existing fl /\
  ops_strict (wm_open existing fl) (spec_open existing fl) ops = false /\
  snd (hrun (h_open existing fl) ops) = [RData [(1, 0, 0)] true] /\
  snd (spec_run (spec_open existing fl) ops) = [RData [] true].
Proof. vm_compute. repeat split. discriminate. Qed.

(* the theorem of the task statement *)
Theorem C14_refines : forall existing fl ops,
  ops_ok (spec_open existing fl) ops = true ->
  let '(h, rs) := hrun (h_open existing fl) ops in
  let '(s, rs') := spec_run (spec_open existing fl) ops in
  results_agree rs rs' /\ ceqb (h_close h) (sp_data s) = true.
Proof.
  intros existing fl ops Hok. apply C14_refines_wide. apply ops_ok_weaken. exact Hok.
Qed.

(* ---------------------------------------------------------------- the envelope is needed *)
(* the restriction of the envelope is violated by a concrete run ([agree_b] decides the conclusion
   of the theorems) *)
Definition agree_b (existing : content) (fl : flags) (ops : list hop) : bool :=
  let '(h, rs) := hrun (h_open existing fl) ops in
  let '(s, rs') := spec_run (spec_open existing fl) ops in
  match first_bad 0 rs rs' with Some _ => false | None => ceqb (h_close h) (sp_data s) end.
(* membership in the wide envelope *)
Definition in_env (existing : content) (fl : flags) (ops : list hop) : bool :=
  ops_ok' (wm_open existing fl) (spec_open existing fl) ops.

Definition fl_ro := {| fl_read := true; fl_write := false; fl_append := false; fl_trunc := false |}.
Definition fl_rw := {| fl_read := true; fl_write := true; fl_append := false; fl_trunc := false |}.
Definition fl_rwa := {| fl_read := true; fl_write := true; fl_append := true; fl_trunc := false |}.
Definition fl_rwt := {| fl_read := true; fl_write := true; fl_append := false; fl_trunc := true |}.
Definition fl_rwat := {| fl_read := true; fl_write := true; fl_append := true; fl_trunc := true |}.
Definition fl_wo := {| fl_read := false; fl_write := true; fl_append := false; fl_trunc := false |}.
Definition fl_woa := {| fl_read := false; fl_write := true; fl_append := true; fl_trunc := false |}.
Definition ten : content := [(5, 0, 10)].

(* a seek beyond the end in read mode loses the position *)
Example needs_seek_bound : agree_b ten fl_ro [HSeek 20 0; HSeek 0 1] = false.
Proof. vm_compute. reflexivity. Qed.
(* ... also after a refused Truncate (negative size), which does not enter write mode *)
Example needs_seek_bound_after_refused_truncate : agree_b ten fl_rw [HTruncate (-1); HSeek 20 0; HSeek 0 1] = false.
Proof. vm_compute. reflexivity. Qed.
(* ... also with ReadAt/WriteAt-free positioned reads in between, and on an append handle *)
Example needs_seek_bound_append : agree_b ten fl_rwa [HSeek 20 0; HSeek 0 1] = false.
Proof. vm_compute. reflexivity. Qed.
(* ... and a ReadAt does not repair a lost position (it restores the clamped one) *)
Example needs_seek_bound_readat : agree_b ten fl_ro [HSeek 20 0; HReadAt 2 3; HSeek 0 1] = false.
Proof. vm_compute. reflexivity. Qed.
(* ... while after an accepted Truncate the same seeks are inside the wider envelope *)
Example seek_free_after_truncate :
  ops_ok' (wm_open ten fl_rw) (spec_open ten fl_rw) [HTruncate 10; HSeek 20 0; HSeek 0 1] = true /\
  ops_ok (spec_open ten fl_rw) [HTruncate 10; HSeek 20 0; HSeek 0 1] = false.
Proof. vm_compute. split; reflexivity. Qed.
(* ... and after a WriteAt, even a refused one (negative offset: write mode is entered before the offset is looked at) *)
Example seek_free_after_writeat :
  in_env ten fl_rw [HWriteAt [] 3; HSeek 20 0; HSeek 0 1] = true /\
  agree_b ten fl_rw [HWriteAt [] 3; HSeek 20 0; HSeek 0 1] = true /\
  in_env ten fl_rw [HWriteAt [(7, 0, 2)] (-1); HSeek 20 0; HSeek 0 1] = true /\
  agree_b ten fl_rw [HWriteAt [(7, 0, 2)] (-1); HSeek 20 0; HSeek 0 1] = true.
Proof. vm_compute. repeat split; reflexivity. Qed.

(* O_APPEND handles: on the pinned tree the flag was honoured only when entering write mode; repaired in /repo
   ("fix: apply O_APPEND on every write"), mirrored in Model/File.v (to_end_if_append).  The sequences that used to
   witness the finding agree with the byte-array specification, and the refinement theorems cover O_APPEND. *)
Example append_agrees :
  agree_b ten fl_rwa [HWrite [(7, 0, 2)]; HSeek 0 0; HWrite [(8, 0, 1)]] = true /\
  agree_b ten fl_rwa [HWrite []; HRead 4] = true /\
  agree_b ten fl_rwa [HRead 3; HTruncate 5; HRead 2; HWrite [(7, 0, 2)]; HSeek 0 1] = true.
Proof. vm_compute. repeat split; reflexivity. Qed.

(* ReadAt/WriteAt used to move the cursor; repaired in /repo (the cursor is remembered and restored), mirrored in
   Model/File.v.  The sequences that used to witness the finding agree, and are inside even the narrow envelope. *)
Example readat_agrees :
  agree_b ten fl_ro [HReadAt 2 3; HRead 1] = true /\ ops_ok (spec_open ten fl_ro) [HReadAt 2 3; HRead 1] = true.
Proof. vm_compute. split; reflexivity. Qed.
Example writeat_agrees :
  agree_b ten fl_rw [HWriteAt [(7, 0, 2)] 0; HWrite [(8, 0, 1)]] = true /\
  ops_ok (spec_open ten fl_rw) [HWriteAt [(7, 0, 2)] 0; HWrite [(8, 0, 1)]] = true.
Proof. vm_compute. split; reflexivity. Qed.

(* a test matrix (instances of the theorems, run): every flag combination below x every sequence below x four
   initial contents: read mode, write mode, append handles, offsets beyond the end, negative offsets, zero-length
   data, after Truncate, after Sync, on the empty file and on contents with zero-length pieces *)
Definition test_flags : list flags := [fl_ro; fl_rw; fl_rwa; fl_rwt; fl_rwat; fl_wo; fl_woa].
Definition test_contents : list content := [ten; []; [(5, 0, 0)]; [(5, 0, 4); (6, 0, 0); (7, 3, 6); (1, 0, 0)]].
Definition test_seqs : list (list hop) := [
  [HReadAt 2 3; HRead 1; HSeek 0 1];
  [HRead 3; HReadAt 4 8; HRead 2; HSeek 0 1; HStat];
  [HRead 3; HReadAt 4 20; HRead 2; HSeek 0 1];
  [HRead 3; HReadAt 4 10; HRead 2; HSeek 0 1];
  [HRead 3; HReadAt 4 (-1); HRead 2; HSeek 0 1];
  [HRead 3; HReadAt 0 2; HRead 2; HSeek 0 1];
  [HWriteAt [(7, 0, 2)] 0; HWrite [(8, 0, 1)]; HSeek 0 1; HStat];
  [HRead 3; HWriteAt [(7, 0, 2)] 20; HRead 2; HSeek 0 1; HStat; HReadAt 30 0];
  [HRead 3; HWriteAt [] 20; HRead 2; HSeek 0 1; HStat; HReadAt 30 0];
  [HRead 3; HWriteAt [(7, 0, 2)] (-3); HRead 2; HSeek 0 1; HStat; HSeek (-1) 2; HSeek 0 1];
  [HRead 3; HTruncate 5; HReadAt 3 4; HWriteAt [(7, 0, 3)] 8; HRead 20; HSeek 0 1; HStat; HReadAt 30 0];
  [HRead 3; HTruncate 15; HReadAt 3 12; HWriteAt [(7, 0, 3)] 8; HRead 20; HSeek 0 1; HStat; HReadAt 30 0];
  [HRead 3; HWrite [(9, 0, 2)]; HSync; HReadAt 3 4; HWriteAt [(7, 0, 3)] 8; HSync; HRead 20; HSeek 0 1; HStat; HReadAt 30 0];
  [HSync; HReadAt 3 4; HRead 2; HWriteAt [(7, 0, 3)] 8; HSync; HRead 20; HSeek 0 1; HStat; HReadAt 30 0];
  [HWriteAt [] 0; HSeek 30 0; HWriteAt [(7, 0, 3)] 8; HSeek 0 1; HWrite [(6, 0, 1)]; HStat; HReadAt 50 0];
  [HRead 5; HWrite []; HSeek 0 1; HReadAt 1 1; HWrite [(6, 0, 1)]; HSeek 0 1;  HStat; HReadAt 50 0];
  [HRead 5; HWriteAt [(6, 0, 1)] 1; HWrite [(6, 0, 1)]; HSeek 0 1;  HStat; HReadAt 50 0];
  [HSeek 0 2; HReadAt 3 3; HRead 1; HSeek 0 1; HReadAt 3 10; HSeek 0 1];
  [HSeek (-2) 2; HReadAt 3 9; HRead 5; HSeek 0 1; HReadAt 3 10; HSeek 0 1];
  [HReadAt 5 1; HWriteAt [(7, 0, 2)] 12; HReadAt 20 0; HSeek 0 1; HWrite [(8, 0, 3)]; HReadAt 20 0; HSeek 0 1] ].
Definition test_matrix : list (bool * bool) :=
  flat_map (fun c => flat_map (fun fl => map (fun ops => (in_env c fl ops, agree_b c fl ops)) test_seqs) test_flags) test_contents.
(* 560 runs; 556 inside the envelope, all of which agree; the other 4 (a read-only handle seeks beyond the end after a
   refused WriteAt) disagree *)
Example readat_writeat_tests :
  length test_matrix = 560%nat /\
  length (filter (fun x => fst x) test_matrix) = 556%nat /\
  forallb (fun x => implb (fst x) (snd x)) test_matrix = true /\
  forallb (fun x => fst x || negb (snd x)) test_matrix = true.
Proof. vm_compute. repeat split; reflexivity. Qed.

Print Assumptions C14_refines_wide.
Print Assumptions C14_refines_eq.
Print Assumptions C14_refines_eq_strict.
Print Assumptions C14_refines.
