(* C14: the file handle model (Model/File.v: hstate/hstep) refines the byte array with a cursor
   (fspec/spec_step) inside an envelope of operations. *)
From Coq Require Import List NArith ZArith Bool Lia.
From Coq Require Import ZifyN ZifyBool.
Import ListNotations.
From STFS Require Import Str Db Tape Index Ops Fs File.
Open Scope N_scope.

(* ---------------------------------------------------------------- lengths of pieces *)
Lemma clen_cons p c : clen (p :: c) = plen p + clen c.
Proof. reflexivity. Qed.

Lemma clen_ctake n c : clen (ctake n c) = N.min n (clen c).
Proof.
  revert n. induction c as [|[[sd off] l] r IH]; intro n.
  - cbn. lia.
  - cbn [ctake]. rewrite clen_cons. cbn [plen snd].
    destruct (n =? 0) eqn:E0; [cbn; lia|].
    destruct (l <=? n) eqn:El.
    + rewrite clen_cons, IH. cbn [plen snd]. lia.
    + rewrite clen_cons. cbn [plen snd clen fold_right]. lia.
Qed.

Lemma clen_cdrop n c : clen (cdrop n c) = clen c - n.
Proof.
  revert n. induction c as [|[[sd off] l] r IH]; intro n.
  - cbn. lia.
  - cbn [cdrop]. destruct (n =? 0) eqn:E0; [lia|].
    destruct (l <=? n) eqn:El.
    + rewrite IH, clen_cons. cbn [plen snd]. lia.
    + rewrite !clen_cons. cbn [plen snd]. lia.
Qed.

Lemma clen_cread c k n : clen (cread c k n) = N.min n (clen c - k).
Proof. unfold cread. rewrite clen_ctake, clen_cdrop. reflexivity. Qed.

Lemma cread_nil k n : cread [] k n = [].
Proof. reflexivity. Qed.

(* ---------------------------------------------------------------- the comparisons are reflexive *)
Lemma eqb_str_refl a : eqb_str a a = true.
Proof. induction a as [|x a IH]; cbn; [reflexivity|]. rewrite N.eqb_refl, IH. reflexivity. Qed.

Lemma ceqb_refl c : ceqb c c = true.
Proof. apply eqb_str_refl. Qed.

Lemma hres_eqb_refl x : hres_eqb x x = true.
Proof.
  destruct x; cbn; try reflexivity.
  - unfold cnorm'. rewrite ceqb_refl, Bool.eqb_reflx. cbn. apply orb_true_r.
  - apply Z.eqb_refl.
  - apply N.eqb_refl.
  - apply N.eqb_refl.
Qed.

Lemma expand_piece_len0 sd off : expand_piece (sd, off, 0) = [].
Proof. unfold expand_piece. destruct (sd =? 0); [reflexivity|]. destruct (1000000 <=? sd); reflexivity. Qed.

Lemma expand_clen0 c : clen c = 0 -> expand c = [].
Proof.
  induction c as [|[[sd off] l] r IH]; intro H; [reflexivity|].
  rewrite clen_cons in H. cbn [plen snd] in H.
  assert (l = 0) by lia. assert (clen r = 0) by lia. subst l.
  unfold expand in *. cbn [flat_map]. rewrite expand_piece_len0, IH by assumption. reflexivity.
Qed.

Lemma ceqb_clen0 a b : clen a = 0 -> clen b = 0 -> ceqb a b = true.
Proof. intros Ha Hb. unfold ceqb. rewrite (expand_clen0 a Ha), (expand_clen0 b Hb). reflexivity. Qed.

(* ---------------------------------------------------------------- the envelope *)
(* the envelope of the task statement *)
Definition op_ok (s : fspec) (o : hop) : bool :=
  match o with
  | HReadAt _ _ | HWriteAt _ _ => false
  | HSeek off w =>
      (* the target must not lie beyond the end of the data *)
      let base := if w =? 0 then 0%Z else if w =? 1 then Z.of_N (sp_pos s) else Z.of_N (clen (sp_data s)) in
      (base + off <=? Z.of_N (clen (sp_data s)))%Z
  | _ => true
  end.
Fixpoint ops_ok (s : fspec) (ops : list hop) : bool :=
  match ops with [] => true | o :: r => op_ok s o && ops_ok (fst (spec_step s o)) r end.

Definition results_agree (a b : list hres) : Prop := Forall2 (fun x y => hres_eqb x y = true) a b.

(* the wider envelope: [wm] says that the handle is known to be in write mode (it was opened
   truncating a non-empty file for writing, or an earlier Write/WriteAt or a Truncate to a
   non-negative size was issued on a writable handle; a Truncate to a negative size is refused
   before write mode is entered).  In write mode every seek is fine; in read mode a seek is fine when it is
   rejected (bad whence, negative target) or its target is not beyond the end.  ReadAt/WriteAt are
   fine only when they are rejected (handle not readable/writable, negative offset). *)
Definition enters_write (fl : flags) (o : hop) : bool :=
  fl_write fl && match o with HWrite _ | HWriteAt _ _ => true | HTruncate sz => negb (sz <? 0)%Z | _ => false end.

Definition op_ok' (wm : bool) (s : fspec) (o : hop) : bool :=
  match o with
  | HReadAt _ off => negb (fl_read (sp_fl s)) || (off <? 0)%Z
  | HWriteAt _ off => negb (fl_write (sp_fl s)) || (off <? 0)%Z
  | HSeek off w =>
      let base := if w =? 0 then 0%Z else if w =? 1 then Z.of_N (sp_pos s) else Z.of_N (clen (sp_data s)) in
      wm || (2 <? w) || (base + off <=? Z.of_N (clen (sp_data s)))%Z
  | _ => true
  end.
Fixpoint ops_ok' (wm : bool) (s : fspec) (ops : list hop) : bool :=
  match ops with
  | [] => true
  | o :: r => op_ok' wm s o && ops_ok' (wm || enters_write (sp_fl s) o) (fst (spec_step s o)) r
  end.
Definition wm_open (existing : content) (fl : flags) : bool :=
  fl_write fl && fl_trunc fl && negb (clen existing =? 0).

Lemma op_ok_weaken wm s o : op_ok s o = true -> op_ok' wm s o = true.
Proof.
  destruct o; cbn; try discriminate; try reflexivity.
  intro H. rewrite H. rewrite !orb_true_r. reflexivity.
Qed.

Lemma ops_ok_weaken ops : forall wm s, ops_ok s ops = true -> ops_ok' wm s ops = true.
Proof.
  induction ops as [|o r IH]; intros wm s H; [reflexivity|].
  cbn [ops_ok ops_ok'] in *. apply andb_true_iff in H. destruct H as [H1 H2].
  rewrite (op_ok_weaken wm s o H1), (IH _ _ H2). reflexivity.
Qed.

(* ---------------------------------------------------------------- the simulation relation *)
Definition rp (h : hstate) : N := match hs_rpos h with Some k => k | None => 0 end.
Definition is_w (h : hstate) : bool := match hs_buf h with Some _ => true | None => false end.

(* [z = true]: a handle opened O_TRUNC for writing on an existing content that consists of zero-length
   pieces only stays in read mode with that content on "tape", while the reference holds []; the two
   agree up to [expand] only.  [z = false] excludes that corner and gives syntactic equality. *)
Definition empty_like (z : bool) (c : content) : Prop := if z then clen c = 0 else c = [].
Lemma empty_like_clen z c : empty_like z c -> clen c = 0.
Proof. destruct z; cbn; [auto|intros ->; reflexivity]. Qed.

Definition sim (z : bool) (h : hstate) (s : fspec) : Prop :=
  hs_fl h = sp_fl s /\ fl_append (sp_fl s) = false /\
  match hs_buf h with
  | Some (b, cur) => b = sp_data s /\ cur = sp_pos s
  | None =>
      hs_isize h = clen (hs_tape h) /\ sp_pos s = rp h /\ sp_pos s <= clen (hs_tape h) /\
      (if fl_write (sp_fl s) && fl_trunc (sp_fl s)
       then empty_like z (hs_tape h) /\ sp_data s = []
       else hs_tape h = sp_data s)
  end.

(* results: equal, or both an empty read at end of file (a content consisting of zero-length pieces
   against the empty piece list) *)
Definition res_sim (z : bool) (x y : hres) : Prop :=
  x = y \/ (z = true /\ exists d, x = RData d true /\ y = RData [] true /\ clen d = 0).

Lemma res_sim_eqb z x y : res_sim z x y -> hres_eqb x y = true.
Proof.
  intros [->|(_ & d & -> & -> & H)]; [apply hres_eqb_refl|].
  cbn. unfold cnorm'. rewrite ceqb_clen0 by (assumption || reflexivity). rewrite H. reflexivity.
Qed.

Lemma res_sim_eq x y : res_sim false x y -> x = y.
Proof. intros [H|[H _]]; [exact H|discriminate]. Qed.

(* the corner excluded by [z = false] *)
Definition no_empty_pieces_corner (existing : content) (fl : flags) : Prop :=
  fl_write fl && fl_trunc fl = true -> clen existing = 0 -> existing = [].

Lemma hs_fl_enter_write h : hs_fl (enter_write h) = hs_fl h.
Proof. unfold enter_write. destruct (hs_buf h); reflexivity. Qed.
Lemma to_end_noappend h d : fl_append (hs_fl h) = false -> to_end_if_append h d = h.
Proof. intro H. unfold to_end_if_append. rewrite H. reflexivity. Qed.
Lemma is_w_to_end h d : is_w (to_end_if_append h d) = is_w h.
Proof.
  unfold to_end_if_append, is_w. destruct (fl_append (hs_fl h) && _); [|reflexivity].
  destruct (hs_buf h) as [[b cur]|] eqn:Eb; cbn; rewrite ?Eb; reflexivity.
Qed.

Lemma sim_open z existing fl : fl_append fl = false ->
  (z = false -> no_empty_pieces_corner existing fl) ->
  sim z (h_open existing fl) (spec_open existing fl).
Proof.
  intros Ha Hz. unfold sim, h_open, spec_open, rp. cbn [hs_fl sp_fl hs_buf hs_tape hs_isize hs_rpos sp_data sp_pos].
  split; [reflexivity|]. split; [assumption|].
  destruct (fl_write fl && fl_trunc fl) eqn:E; cbn [andb].
  - destruct (clen existing =? 0) eqn:E0; cbn [negb].
    + repeat split; try lia. unfold empty_like. destruct z; [lia|]. apply Hz; [reflexivity|exact E|lia].
    + split; reflexivity.
  - repeat split; lia.
Qed.

Lemma is_w_open existing fl : wm_open existing fl = true -> is_w (h_open existing fl) = true.
Proof. unfold wm_open, is_w, h_open. cbn [hs_buf]. intros ->. reflexivity. Qed.

(* entering write mode preserves the relation *)
Lemma sim_enter_write z h s : sim z h s -> fl_write (sp_fl s) = true -> sim z (enter_write h) s.
Proof.
  destruct h as [tape isz rpos buf fl], s as [data pos fl'].
  unfold sim, enter_write, rp. cbn [hs_fl sp_fl hs_buf hs_tape hs_isize hs_rpos sp_data sp_pos].
  intros (-> & Ha & Hm) Hw. destruct buf as [[b cur]|].
  - cbn [hs_fl sp_fl hs_buf hs_tape hs_isize hs_rpos]. auto.
  - cbn [hs_fl sp_fl hs_buf hs_tape hs_isize hs_rpos]. rewrite Ha. rewrite Hw in Hm. cbn [andb] in Hm.
    split; [reflexivity|]. split; [reflexivity|].
    destruct Hm as (Hi & Hp & Hle & Hd). destruct (fl_trunc fl').
    + destruct Hd as [H0 ->]. apply empty_like_clen in H0. split; [reflexivity|]. destruct rpos; lia.
    + split; [assumption|]. destruct rpos; lia.
Qed.

Lemma is_w_enter_write h : is_w (enter_write h) = true.
Proof. unfold is_w, enter_write. destruct (hs_buf h); reflexivity. Qed.

(* ---------------------------------------------------------------- one step *)
Ltac proj := cbn [hs_fl sp_fl hs_buf hs_tape hs_isize hs_rpos sp_data sp_pos fst snd set_buf seek_read] in *.

Lemma sim_step z wm h s o :
  sim z h s -> (wm = true -> is_w h = true) -> op_ok' wm s o = true ->
  sim z (fst (hstep h o)) (fst (spec_step s o)) /\ res_sim z (snd (hstep h o)) (snd (spec_step s o)).
Proof.
  intros Hsim Hwm Hok. pose proof Hsim as Hsim0.
  destruct Hsim as (Hfl & Ha & Hm).
  destruct o as [n|n off|off w|d|d off|sz| |].
  - (* Read *)
    unfold hstep, h_read, spec_step. rewrite Hfl.
    destruct (fl_read (sp_fl s)); cbn [negb]; [|split; [exact Hsim0|left; reflexivity]].
    unfold sim, rp in *.
    destruct (hs_buf h) as [[b cur]|]; proj.
    + destruct Hm as [-> ->]. split; [|left; reflexivity]. auto.
    + destruct Hm as (Hi & Hp & Hle & Hd). rewrite <- Hp.
      destruct (fl_write (sp_fl s) && fl_trunc (sp_fl s)).
      * destruct Hd as [H0 Hd]. rewrite Hd, cread_nil. pose proof (empty_like_clen _ _ H0) as H00.
        assert (Hc : clen (cread (hs_tape h) (sp_pos s) n) = 0) by (rewrite clen_cread; lia).
        rewrite Hc. cbn [clen fold_right]. split.
        -- repeat split; auto; lia.
        -- destruct z; cbn [empty_like] in H0.
           ++ right. split; [reflexivity|]. eexists. repeat split. exact Hc.
           ++ left. rewrite H0, cread_nil. reflexivity.
      * rewrite Hd in *. split; [|left; reflexivity].
        repeat split; auto. rewrite clen_cread. lia.
  - (* ReadAt: only the rejected calls *)
    unfold hstep, spec_step, op_ok' in *. rewrite Hfl.
    destruct (fl_read (sp_fl s)); cbn [negb orb] in *; [|split; [exact Hsim0|left; reflexivity]].
    rewrite Hok. unfold h_seek.
    destruct (hs_buf h) as [[b cur]|]; cbn; rewrite Hok; cbn; (split; [exact Hsim0|left; reflexivity]).
  - (* Seek *)
    unfold hstep, h_seek, spec_step, op_ok' in *.
    unfold sim, rp, is_w in *.
    destruct (hs_buf h) as [[b cur]|] eqn:Eb; proj.
    + destruct Hm as [-> ->].
      destruct ((2 <? w) || _); proj; rewrite ?Eb; (split; [auto|left; reflexivity]).
    + destruct Hm as (Hi & Hp & Hle & Hd).
      assert (Hlen : clen (hs_tape h) = clen (sp_data s)).
      { destruct (fl_write (sp_fl s) && fl_trunc (sp_fl s)); [destruct Hd as [H0 ->]; apply empty_like_clen in H0; rewrite H0; reflexivity|rewrite Hd; reflexivity]. }
      rewrite Hi, Hlen, <- Hp.
      destruct wm; [specialize (Hwm eq_refl); discriminate|]. cbn [orb] in Hok.
      set (base := if w =? 0 then 0%Z else if w =? 1 then Z.of_N (sp_pos s) else Z.of_N (clen (sp_data s))) in *.
      destruct ((2 <? w) || (base + off <? 0)%Z) eqn:Ec; proj; rewrite ?Eb.
      * split; [|left; reflexivity]. repeat split; auto.
      * split; [|left; reflexivity]. apply orb_false_iff in Ec. destruct Ec as [Ec1 Ec2].
        rewrite Ec1 in Hok. cbn [orb] in Hok.
        repeat split; auto; try lia.
  - (* Write *)
    unfold hstep, spec_step. rewrite Hfl.
    destruct (fl_write (sp_fl s)) eqn:Ew; cbn [negb]; [|split; [exact Hsim0|left; reflexivity]].
    rewrite (to_end_noappend (enter_write h) d) by (rewrite hs_fl_enter_write, Hfl; exact Ha).
    pose proof (sim_enter_write z h s Hsim0 Ew) as H1. pose proof (is_w_enter_write h) as W1.
    generalize dependent (enter_write h). intros h1 H1 W1.
    unfold sim, is_w, h_write_at_cursor in *. destruct H1 as (Hfl1 & _ & Hm1).
    destruct (hs_buf h1) as [[b cur]|] eqn:Eb; [|discriminate]. proj. rewrite ?Eb.
    destruct Hm1 as [-> ->]. rewrite Ha. split; [auto|left; reflexivity].
  - (* WriteAt: only the rejected calls *)
    unfold hstep, spec_step, op_ok' in *. rewrite Hfl.
    destruct (fl_write (sp_fl s)) eqn:Ew; cbn [negb orb] in *; [|split; [exact Hsim0|left; reflexivity]].
    rewrite Hok.
    pose proof (sim_enter_write z h s Hsim0 Ew) as H1. pose proof (is_w_enter_write h) as W1.
    generalize dependent (enter_write h). intros h1 H1 W1.
    unfold h_seek, is_w in *.
    destruct (hs_buf h1) as [[b cur]|] eqn:Eb; [|discriminate]. cbn. rewrite Hok. cbn.
    split; [exact H1|left; reflexivity].
  - (* Truncate *)
    unfold hstep, spec_step. rewrite Hfl.
    destruct (fl_write (sp_fl s)) eqn:Ew; cbn [negb orb]; [|split; [exact Hsim0|left; reflexivity]].
    destruct (sz <? 0)%Z eqn:Esz; [split; [exact Hsim0|left; reflexivity]|].
    pose proof (sim_enter_write z h s Hsim0 Ew) as H1. pose proof (is_w_enter_write h) as W1.
    generalize dependent (enter_write h). intros h1 H1 W1. cbn zeta.
    unfold is_w in *. destruct (hs_buf h1) as [[b cur]|] eqn:Eb; [|discriminate].
    unfold sim in *. rewrite Eb in H1. destruct H1 as (Hfl1 & _ & [-> ->]). proj.
    split; [auto|left; reflexivity].
  - (* Sync *)
    unfold hstep, spec_step. unfold sim in *.
    destruct (hs_buf h) as [[b cur]|] eqn:Eb; proj; rewrite ?Eb; (split; [auto|left; reflexivity]).
  - (* Stat *)
    unfold hstep, spec_step. proj. split; [exact Hsim0|]. left. f_equal.
    destruct (hs_buf h) as [[b cur]|] eqn:Eb; [destruct Hm as [-> _]; reflexivity|].
    destruct Hm as (Hi & Hp & Hle & Hd). rewrite Hi.
    destruct (fl_write (sp_fl s) && fl_trunc (sp_fl s)); [destruct Hd as [H0 ->]; apply empty_like_clen in H0; rewrite H0; reflexivity|rewrite Hd; reflexivity].
Qed.

(* write mode is never left, and Write/WriteAt/Truncate on a writable handle enter it *)
Lemma is_w_h_seek h off w : is_w (fst (h_seek h off w)) = is_w h.
Proof.
  unfold h_seek, is_w. destruct (hs_buf h) as [[b cur]|] eqn:Eb.
  - destruct (_ || _); cbn; rewrite ?Eb; reflexivity.
  - destruct (_ || _); cbn; rewrite ?Eb; reflexivity.
Qed.

Lemma is_w_h_read h n : is_w (fst (h_read h n)) = is_w h.
Proof.
  unfold h_read, is_w. destruct (negb _); [reflexivity|].
  destruct (hs_buf h) as [[b cur]|] eqn:Eb; cbn; rewrite ?Eb; reflexivity.
Qed.

Lemma is_w_h_write h d : is_w (fst (h_write_at_cursor h d)) = is_w h.
Proof.
  unfold h_write_at_cursor, is_w. destruct (hs_buf h) as [[b cur]|] eqn:Eb; cbn; rewrite ?Eb; reflexivity.
Qed.

Lemma is_w_step h o :
  is_w h = true \/ enters_write (hs_fl h) o = true -> is_w (fst (hstep h o)) = true.
Proof.
  unfold enters_write. intro H. destruct o as [n|n off|off w|d|d off|sz| |]; unfold hstep.
  - rewrite is_w_h_read. destruct H as [H|H]; [exact H|]. rewrite andb_false_r in H. discriminate.
  - destruct H as [H|H]; [|rewrite andb_false_r in H; discriminate].
    destruct (negb _); [exact H|].
    pose proof (is_w_h_seek h off 0) as S. destruct (h_seek h off 0) as [h' r]. cbn [fst] in S.
    destruct r; cbn [fst]; rewrite ?is_w_h_read; congruence.
  - rewrite is_w_h_seek. destruct H as [H|H]; [exact H|]. rewrite andb_false_r in H. discriminate.
  - destruct (fl_write (hs_fl h)); cbn [negb andb] in *.
    + rewrite is_w_h_write, is_w_to_end. apply is_w_enter_write.
    + destruct H as [H|H]; [exact H|discriminate].
  - destruct (fl_write (hs_fl h)); cbn [negb andb] in *.
    + pose proof (is_w_h_seek (enter_write h) off 0) as S. rewrite is_w_enter_write in S.
      destruct (h_seek (enter_write h) off 0) as [h' r]. cbn [fst] in S.
      destruct r; cbn [fst]; rewrite ?is_w_h_write; congruence.
    + destruct H as [H|H]; [exact H|discriminate].
  - destruct (fl_write (hs_fl h)); cbn [negb andb orb] in *.
    + destruct (sz <? 0)%Z; cbn [negb] in *; [destruct H as [H|H]; [exact H|discriminate]|].
      pose proof (is_w_enter_write h) as W. unfold is_w in *.
      destruct (hs_buf (enter_write h)) as [[b cur]|] eqn:Eb; [|discriminate].
      cbn; rewrite ?Eb; reflexivity.
    + destruct H as [H|H]; [exact H|discriminate].
  - destruct H as [H|H]; [|rewrite andb_false_r in H; discriminate].
    unfold is_w in *. destruct (hs_buf h) as [[b cur]|] eqn:Eb; cbn; rewrite ?Eb; [reflexivity|exact H].
  - destruct H as [H|H]; [exact H|]. rewrite andb_false_r in H. discriminate.
Qed.

(* ---------------------------------------------------------------- runs *)
Definition results_sim (z : bool) (a b : list hres) : Prop := Forall2 (res_sim z) a b.

Lemma sim_run z ops : forall wm h s,
  sim z h s -> (wm = true -> is_w h = true) -> ops_ok' wm s ops = true ->
  sim z (fst (hrun h ops)) (fst (spec_run s ops)) /\ results_sim z (snd (hrun h ops)) (snd (spec_run s ops)).
Proof.
  induction ops as [|o r IH]; intros wm h s Hsim Hwm Hok.
  - cbn. split; [exact Hsim|constructor].
  - cbn [ops_ok'] in Hok. apply andb_true_iff in Hok. destruct Hok as [Ho Hr].
    destruct (sim_step z wm h s o Hsim Hwm Ho) as [S1 R1].
    pose proof (is_w_step h o) as W1.
    assert (Hfl : hs_fl h = sp_fl s) by (destruct Hsim as [E _]; exact E).
    cbn [hrun spec_run].
    destruct (hstep h o) as [h1 x]. destruct (spec_step s o) as [s1 y]. cbn [fst snd] in *.
    assert (Hwm1 : wm || enters_write (sp_fl s) o = true -> is_w h1 = true).
    { intro E. apply W1. apply orb_true_iff in E. destruct E as [E|E]; [left; auto|right; rewrite Hfl; exact E]. }
    destruct (IH _ h1 s1 S1 Hwm1 Hr) as [S2 R2].
    destruct (hrun h1 r) as [h2 xs]. destruct (spec_run s1 r) as [s2 ys]. cbn [fst snd] in *.
    split; [exact S2|constructor; assumption].
Qed.

Lemma sim_close z h s : sim z h s -> ceqb (h_close h) (sp_data s) = true.
Proof.
  unfold sim, h_close. intros (_ & _ & Hm). destruct (hs_buf h) as [[b cur]|].
  - destruct Hm as [-> _]. apply ceqb_refl.
  - destruct Hm as (_ & _ & _ & Hd). destruct (_ && _).
    + destruct Hd as [H0 ->]. apply ceqb_clen0; [exact (empty_like_clen _ _ H0)|reflexivity].
    + rewrite Hd. apply ceqb_refl.
Qed.

(* outside the corner the final content is the very same piece list *)
Lemma sim_close_eq h s : sim false h s -> h_close h = sp_data s.
Proof.
  unfold sim, h_close. intros (_ & _ & Hm). destruct (hs_buf h) as [[b cur]|].
  - destruct Hm as [-> _]. reflexivity.
  - destruct Hm as (_ & _ & _ & Hd). destruct (_ && _); [|exact Hd].
    destruct Hd as [H0 ->]. exact H0.
Qed.

Lemma results_sim_agree z a b : results_sim z a b -> results_agree a b.
Proof. unfold results_sim, results_agree. induction 1; constructor; eauto using res_sim_eqb. Qed.

Lemma results_sim_eq a b : results_sim false a b -> a = b.
Proof. unfold results_sim. induction 1; [reflexivity|]. f_equal; [apply res_sim_eq; assumption|assumption]. Qed.

(* the theorem for the wider envelope *)
Theorem C14_refines_wide : forall existing fl ops,
  fl_append fl = false ->
  ops_ok' (wm_open existing fl) (spec_open existing fl) ops = true ->
  let '(h, rs) := hrun (h_open existing fl) ops in
  let '(s, rs') := spec_run (spec_open existing fl) ops in
  results_agree rs rs' /\ ceqb (h_close h) (sp_data s) = true.
Proof.
  intros existing fl ops Ha Hok.
  assert (Hz : true = false -> no_empty_pieces_corner existing fl) by discriminate.
  destruct (sim_run true ops _ _ _ (sim_open true existing fl Ha Hz) (is_w_open existing fl) Hok) as [S R].
  destruct (hrun (h_open existing fl) ops) as [h rs].
  destruct (spec_run (spec_open existing fl) ops) as [s rs']. cbn [fst snd] in *.
  split; [eapply results_sim_agree; exact R|eapply sim_close; exact S].
Qed.

(* syntactic equality of results and of the final piece list, outside the corner "opened O_TRUNC for
   writing on a non-[] content whose pieces all have length 0" *)
Theorem C14_refines_eq : forall existing fl ops,
  fl_append fl = false ->
  no_empty_pieces_corner existing fl ->
  ops_ok' (wm_open existing fl) (spec_open existing fl) ops = true ->
  let '(h, rs) := hrun (h_open existing fl) ops in
  let '(s, rs') := spec_run (spec_open existing fl) ops in
  rs = rs' /\ h_close h = sp_data s.
Proof.
  intros existing fl ops Ha Hc Hok.
  destruct (sim_run false ops _ _ _ (sim_open false existing fl Ha (fun _ => Hc)) (is_w_open existing fl) Hok) as [S R].
  destruct (hrun (h_open existing fl) ops) as [h rs].
  destruct (spec_run (spec_open existing fl) ops) as [s rs']. cbn [fst snd] in *.
  split; [apply results_sim_eq; exact R|apply sim_close_eq; exact S].
Qed.

(* the corner is real: syntactic equality fails there, equality up to [expand] holds *)
Example corner_not_syntactic :
  let existing := [(1, 0, 0)] in
  let fl := {| fl_read := true; fl_write := true; fl_append := false; fl_trunc := true |} in
  let ops := [HRead 1] in
  ops_ok (spec_open existing fl) ops = true /\
  hrun (h_open existing fl) ops =
    ({| hs_tape := [(1,0,0)]; hs_isize := 0; hs_rpos := Some 0; hs_buf := None; hs_fl := fl |}, [RData [(1, 0, 0)] true]) /\
  spec_run (spec_open existing fl) ops = ({| sp_data := []; sp_pos := 0; sp_fl := fl |}, [RData [] true]).
Proof. vm_compute. repeat split. Qed.

(* the theorem of the task statement *)
Theorem C14_refines : forall existing fl ops,
  fl_append fl = false ->
  ops_ok (spec_open existing fl) ops = true ->
  let '(h, rs) := hrun (h_open existing fl) ops in
  let '(s, rs') := spec_run (spec_open existing fl) ops in
  results_agree rs rs' /\ ceqb (h_close h) (sp_data s) = true.
Proof.
  intros existing fl ops Ha Hok. apply C14_refines_wide; [exact Ha|]. apply ops_ok_weaken. exact Hok.
Qed.

(* ---------------------------------------------------------------- the envelope is needed *)
(* each restriction of the envelope is violated by a concrete run ([agree_b] decides the conclusion
   of the theorems) *)
Definition agree_b (existing : content) (fl : flags) (ops : list hop) : bool :=
  let '(h, rs) := hrun (h_open existing fl) ops in
  let '(s, rs') := spec_run (spec_open existing fl) ops in
  match first_bad 0 rs rs' with Some _ => false | None => ceqb (h_close h) (sp_data s) end.

Definition fl_ro := {| fl_read := true; fl_write := false; fl_append := false; fl_trunc := false |}.
Definition fl_rw := {| fl_read := true; fl_write := true; fl_append := false; fl_trunc := false |}.
Definition fl_rwa := {| fl_read := true; fl_write := true; fl_append := true; fl_trunc := false |}.
Definition ten : content := [(5, 0, 10)].

(* an accepted ReadAt moves the cursor *)
Example needs_no_readat : agree_b ten fl_ro [HReadAt 2 3; HRead 1] = false.
Proof. vm_compute. reflexivity. Qed.
(* an accepted WriteAt moves the cursor *)
Example needs_no_writeat : agree_b ten fl_rw [HWriteAt [(7, 0, 2)] 0; HWrite [(8, 0, 1)]] = false.
Proof. vm_compute. reflexivity. Qed.
(* a seek beyond the end in read mode loses the position *)
Example needs_seek_bound : agree_b ten fl_ro [HSeek 20 0; HSeek 0 1] = false.
Proof. vm_compute. reflexivity. Qed.
(* ... also after a refused Truncate (negative size), which does not enter write mode *)
Example needs_seek_bound_after_refused_truncate : agree_b ten fl_rw [HTruncate (-1); HSeek 20 0; HSeek 0 1] = false.
Proof. vm_compute. reflexivity. Qed.
(* ... while after an accepted Truncate the same seeks are inside the wider envelope *)
Example seek_free_after_truncate :
  ops_ok' (wm_open ten fl_rw) (spec_open ten fl_rw) [HTruncate 10; HSeek 20 0; HSeek 0 1] = true /\
  ops_ok (spec_open ten fl_rw) [HTruncate 10; HSeek 20 0; HSeek 0 1] = false.
Proof. vm_compute. split; reflexivity. Qed.
(* O_APPEND handles: on the pinned tree the flag was honoured only when entering write mode (this sequence disagreed);
   repaired in /repo ("fix: apply O_APPEND on every write"), mirrored in Model/File.v (to_end_if_append).  The sequences
   that used to witness the finding now agree with the byte-array specification; the refinement theorems still carry the
   hypothesis fl_append = false because their proof was written for it (no counterexample is known any more). *)
Example append_agrees :
  agree_b ten fl_rwa [HWrite [(7, 0, 2)]; HSeek 0 0; HWrite [(8, 0, 1)]] = true /\
  agree_b ten fl_rwa [HWrite []; HRead 4] = true /\
  agree_b ten fl_rwa [HRead 3; HTruncate 5; HRead 2; HWrite [(7, 0, 2)]; HSeek 0 1] = true.
Proof. vm_compute. repeat split; reflexivity. Qed.

Print Assumptions C14_refines_wide.
Print Assumptions C14_refines_eq.
Print Assumptions C14_refines.
