(* C14: the file handle model (Model/File.v: hstate/hstep) refines the byte array with a cursor
   (fspec/spec_step): for every operation sequence, every flag combination and every initial content
   (C14_refines_all; no envelope is left). *)
From Coq Require Import List NArith ZArith Bool Lia.
From Coq Require Import ZifyN ZifyBool.
Import ListNotations.
From STFS Require Import Str Db Tape Index Ops Fs File.
Open Scope N_scope.

(* ---------------------------------------------------------------- lengths of pieces *)
Lemma clen_cons p c : clen (p :: c) = plen p + clen c.
Proof. reflexivity. Qed.

Lemma clen_ctake n c : clen (ctake n c) = N.min n (clen c).
Proof.
  revert n. induction c as [|[[sd off] l] r IH]; intro n.
  - cbn. lia.
  - cbn [ctake]. rewrite clen_cons. cbn [plen snd].
    destruct (n =? 0) eqn:E0; [cbn; lia|].
    destruct (l <=? n) eqn:El.
    + rewrite clen_cons, IH. cbn [plen snd]. lia.
    + rewrite clen_cons. cbn [plen snd clen fold_right]. lia.
Qed.

Lemma clen_cdrop n c : clen (cdrop n c) = clen c - n.
Proof.
  revert n. induction c as [|[[sd off] l] r IH]; intro n.
  - cbn. lia.
  - cbn [cdrop]. destruct (n =? 0) eqn:E0; [lia|].
    destruct (l <=? n) eqn:El.
    + rewrite IH, clen_cons. cbn [plen snd]. lia.
    + rewrite !clen_cons. cbn [plen snd]. lia.
Qed.

Lemma clen_cread c k n : clen (cread c k n) = N.min n (clen c - k).
Proof. unfold cread. rewrite clen_ctake, clen_cdrop. reflexivity. Qed.

Lemma cread_nil k n : cread [] k n = [].
Proof. reflexivity. Qed.

(* ---------------------------------------------------------------- the comparisons are reflexive *)
Lemma eqb_str_refl a : eqb_str a a = true.
Proof. induction a as [|x a IH]; cbn; [reflexivity|]. rewrite N.eqb_refl, IH. reflexivity. Qed.

Lemma ceqb_refl c : ceqb c c = true.
Proof. apply eqb_str_refl. Qed.

Lemma hres_eqb_refl x : hres_eqb x x = true.
Proof.
  destruct x; cbn; try reflexivity.
  - unfold cnorm'. rewrite ceqb_refl, Bool.eqb_reflx. cbn. apply orb_true_r.
  - apply Z.eqb_refl.
  - apply N.eqb_refl.
  - apply N.eqb_refl.
Qed.

Lemma expand_piece_len0 sd off : expand_piece (sd, off, 0) = [].
Proof. unfold expand_piece. destruct (sd =? 0); [reflexivity|]. destruct (1000000 <=? sd); reflexivity. Qed.

Lemma expand_clen0 c : clen c = 0 -> expand c = [].
Proof.
  induction c as [|[[sd off] l] r IH]; intro H; [reflexivity|].
  rewrite clen_cons in H. cbn [plen snd] in H.
  assert (l = 0) by lia. assert (clen r = 0) by lia. subst l.
  unfold expand in *. cbn [flat_map]. rewrite expand_piece_len0, IH by assumption. reflexivity.
Qed.

Lemma ceqb_clen0 a b : clen a = 0 -> clen b = 0 -> ceqb a b = true.
Proof. intros Ha Hb. unfold ceqb. rewrite (expand_clen0 a Ha), (expand_clen0 b Hb). reflexivity. Qed.

(* dropping beyond the end leaves nothing *)
Lemma cdrop_beyond c : forall k, clen c < k -> cdrop k c = [].
Proof.
  induction c as [|[[sd off] l] r IH]; intros k H; [reflexivity|].
  rewrite clen_cons in H. cbn [plen snd] in H. cbn [cdrop].
  destruct (k =? 0) eqn:E0; [lia|].
  destruct (l <=? k) eqn:El; [|lia].
  apply IH. lia.
Qed.

Lemma cread_beyond c k n : clen c < k -> cread c k n = [].
Proof. intro H. unfold cread. rewrite cdrop_beyond by assumption. reflexivity. Qed.

(* no zero-length pieces at the very end of a content (dropping everything leaves the empty piece list) *)
Definition notrail (c : content) : Prop := cdrop (clen c) c = [].

Lemma cread_end_notrail c n : notrail c -> cread c (clen c) n = [].
Proof. unfold notrail, cread. intros ->. reflexivity. Qed.

Lemma notrail_nil : notrail [].
Proof. reflexivity. Qed.

Lemma notrail_clen0 c : notrail c -> clen c = 0 -> c = [].
Proof. unfold notrail. intros H H0. rewrite H0 in H. destruct c as [|[[sd off] l] r]; [reflexivity|exact H]. Qed.

Definition results_agree (a b : list hres) : Prop := Forall2 (fun x y => hres_eqb x y = true) a b.

(* ---------------------------------------------------------------- the simulation relation *)
Definition rp (h : hstate) : N := match hs_rpos h with Some k => k | None => 0 end.
Definition is_w (h : hstate) : bool := match hs_buf h with Some _ => true | None => false end.

(* [z = true]: a handle opened O_TRUNC for writing on an existing content that consists of zero-length
   pieces only stays in read mode with that content on "tape", while the reference holds []; the two
   agree up to [expand] only.  [z = false] excludes that corner and gives syntactic equality.
   In read mode the position is the logical cursor, which may lie behind the end of the content. *)
Definition empty_like (z : bool) (c : content) : Prop := if z then clen c = 0 else c = [].
Lemma empty_like_clen z c : empty_like z c -> clen c = 0.
Proof. destruct z; cbn; [auto|intros ->; reflexivity]. Qed.

Definition sim (z : bool) (h : hstate) (s : fspec) : Prop :=
  hs_fl h = sp_fl s /\
  match hs_buf h with
  | Some (b, cur) => b = sp_data s /\ cur = sp_pos s
  | None =>
      hs_isize h = clen (hs_tape h) /\ sp_pos s = rp h /\
      (if fl_write (sp_fl s) && fl_trunc (sp_fl s)
       then empty_like z (hs_tape h) /\ sp_data s = []
       else hs_tape h = sp_data s)
  end.

(* results: equal, or both an empty read at end of file (a content consisting of zero-length pieces
   against the empty piece list) *)
Definition res_sim (z : bool) (x y : hres) : Prop :=
  x = y \/ (z = true /\ exists d, x = RData d true /\ y = RData [] true /\ clen d = 0).

Lemma res_sim_eqb z x y : res_sim z x y -> hres_eqb x y = true.
Proof.
  intros [->|(_ & d & -> & -> & H)]; [apply hres_eqb_refl|].
  cbn. unfold cnorm'. rewrite ceqb_clen0 by (assumption || reflexivity). rewrite H. reflexivity.
Qed.

Lemma res_sim_eq x y : res_sim false x y -> x = y.
Proof. intros [H|[H _]]; [exact H|discriminate]. Qed.

(* the corner excluded by [z = false] *)
Definition no_empty_pieces_corner (existing : content) (fl : flags) : Prop :=
  fl_write fl && fl_trunc fl = true -> clen existing = 0 -> existing = [].

Lemma notrail_no_corner existing fl : notrail existing -> no_empty_pieces_corner existing fl.
Proof. intros H _ H0. apply notrail_clen0; assumption. Qed.

Lemma hs_fl_enter_write h : hs_fl (enter_write h) = hs_fl h.
Proof. unfold enter_write. destruct (hs_buf h); reflexivity. Qed.
Lemma is_w_to_end h d : is_w (to_end_if_append h d) = is_w h.
Proof.
  unfold to_end_if_append, is_w. destruct (fl_append (hs_fl h) && _); [|reflexivity].
  destruct (hs_buf h) as [[b cur]|] eqn:Eb; cbn; rewrite ?Eb; reflexivity.
Qed.

Lemma sim_open z existing fl :
  (z = false -> no_empty_pieces_corner existing fl) ->
  sim z (h_open existing fl) (spec_open existing fl).
Proof.
  intros Hz. unfold sim, h_open, spec_open, rp. cbn [hs_fl sp_fl hs_buf hs_tape hs_isize hs_rpos sp_data sp_pos].
  split; [reflexivity|].
  destruct (fl_write fl && fl_trunc fl) eqn:E; cbn [andb].
  - destruct (clen existing =? 0) eqn:E0; cbn [negb].
    + repeat split; try lia. unfold empty_like. destruct z; [lia|]. apply Hz; [reflexivity|exact E|lia].
    + split; reflexivity.
  - repeat split; try lia.
Qed.

(* entering write mode preserves the relation: the buffer is the reference's data (the empty buffer for an O_TRUNC handle,
   whose file was empty), the cursor is the logical read position, wherever it lies *)
Lemma sim_enter_write z h s : sim z h s -> fl_write (sp_fl s) = true -> sim z (enter_write h) s.
Proof.
  destruct h as [tape isz rpos buf fl], s as [data pos fl'].
  unfold sim, enter_write, rp. cbn [hs_fl sp_fl hs_buf hs_tape hs_isize hs_rpos sp_data sp_pos].
  intros (-> & Hm) Hw. destruct buf as [[b cur]|].
  - cbn [hs_fl sp_fl hs_buf hs_tape hs_isize hs_rpos]. auto.
  - cbn [hs_fl sp_fl hs_buf hs_tape hs_isize hs_rpos]. rewrite Hw in Hm. cbn [andb] in Hm.
    split; [reflexivity|].
    destruct Hm as (Hi & Hp & Hd). destruct (fl_trunc fl').
    + destruct Hd as [H0 ->]. split; [reflexivity|]. destruct rpos; lia.
    + split; [assumption|]. destruct rpos; lia.
Qed.

Lemma is_w_enter_write h : is_w (enter_write h) = true.
Proof. unfold is_w, enter_write. destruct (hs_buf h); reflexivity. Qed.

(* ---------------------------------------------------------------- seeks, unfolded *)
Lemma h_seek_cur_w h b cur : hs_buf h = Some (b, cur) -> h_seek h 0 1 = (set_buf h b cur, ROff (Z.of_N cur)).
Proof.
  intro E. unfold h_seek. rewrite E.
  change (1 =? 0) with false. change (1 =? 1) with true. change (2 <? 1) with false. cbv beta iota zeta.
  rewrite Z.add_0_r, N2Z.id. cbn [orb].
  destruct (Z.ltb_spec (Z.of_N cur) 0); [lia|reflexivity].
Qed.

Lemma h_seek_cur_r h : hs_buf h = None -> h_seek h 0 1 = (seek_read h (rp h), ROff (Z.of_N (rp h))).
Proof.
  intro E. unfold h_seek. rewrite E. fold (rp h).
  change (1 =? 0) with false. change (1 =? 1) with true. change (2 <? 1) with false. cbv beta iota zeta.
  rewrite Z.add_0_r, N2Z.id. cbn [orb].
  destruct (Z.ltb_spec (Z.of_N (rp h)) 0); [lia|reflexivity].
Qed.

Lemma h_seek_abs_w h b cur off : hs_buf h = Some (b, cur) ->
  h_seek h off 0 = if (off <? 0)%Z then (h, RErr) else (set_buf h b (Z.to_N off), ROff off).
Proof.
  intro E. unfold h_seek. rewrite E.
  change (0 =? 0) with true. change (2 <? 0) with false. cbv beta iota zeta.
  change (0 + off)%Z with off. cbn [orb]. reflexivity.
Qed.

Lemma h_seek_abs_r h off : hs_buf h = None ->
  h_seek h off 0 = if (off <? 0)%Z then (h, RErr) else (seek_read h (Z.to_N off), ROff off).
Proof.
  intro E. unfold h_seek. rewrite E.
  change (0 =? 0) with true. change (2 <? 0) with false. cbv beta iota zeta.
  change (0 + off)%Z with off. cbn [orb]. reflexivity.
Qed.

Lemma of_N_ltb0 n : (Z.of_N n <? 0)%Z = false.
Proof. destruct (Z.ltb_spec (Z.of_N n) 0); [lia|reflexivity]. Qed.

(* ---------------------------------------------------------------- one step *)
Ltac proj := cbn [hs_fl sp_fl hs_buf hs_tape hs_isize hs_rpos sp_data sp_pos fst snd set_buf seek_read] in *.

(* ReadAt and WriteAt on a handle in write mode *)
Lemma hstep_readat_w h b cur n off : hs_buf h = Some (b, cur) -> fl_read (hs_fl h) = true ->
  hstep h (HReadAt n off) =
  if (off <? 0)%Z then (set_buf h b cur, RErr)
  else (set_buf h b cur, let d := cread b (Z.to_N off) n in RData d (clen d =? 0)).
Proof.
  intros E Hr. unfold hstep. rewrite Hr. cbn [negb].
  rewrite (h_seek_cur_w h b cur E).
  rewrite (h_seek_abs_w (set_buf h b cur) b cur off eq_refl).
  destruct (off <? 0)%Z; [reflexivity|].
  unfold h_read. proj. rewrite Hr. cbn [negb].
  erewrite h_seek_abs_w by reflexivity. rewrite of_N_ltb0, N2Z.id. reflexivity.
Qed.

Lemma hstep_writeat_w h b cur d off : hs_buf h = Some (b, cur) ->
  (let '(h0, c) := h_seek h 0 1 in
   match c with
   | ROff c =>
      match h_seek h0 off 0 with
      | (h1, ROff _) =>
        let '(h2, r) := h_write_at_cursor h1 d in
        match h_seek h2 c 0 with
        | (h3, ROff _) => (h3, r)
        | (h3, _) => (h3, RErr)
        end
      | (h1, _) => (h1, RErr)
      end
   | _ => (h0, RErr)
   end) =
  if (off <? 0)%Z then (set_buf h b cur, RErr)
  else (set_buf h (cwrite b (Z.to_N off) d) cur, RN (clen d)).
Proof.
  intros E.
  rewrite (h_seek_cur_w h b cur E).
  rewrite (h_seek_abs_w (set_buf h b cur) b cur off eq_refl).
  destruct (off <? 0)%Z; [reflexivity|].
  unfold h_write_at_cursor. proj.
  erewrite h_seek_abs_w by reflexivity. rewrite of_N_ltb0, N2Z.id. reflexivity.
Qed.

(* ReadAt on a handle in (streaming) read mode: the read happens at the offset itself, also behind the end *)
Lemma hstep_readat_r h n off : hs_buf h = None -> fl_read (hs_fl h) = true ->
  hstep h (HReadAt n off) =
  if (off <? 0)%Z then (seek_read h (rp h), RErr)
  else (seek_read h (rp h),
        let d := cread (hs_tape h) (Z.to_N off) n in RData d (clen d =? 0)).
Proof.
  intros E Hr. unfold hstep. rewrite Hr. cbn [negb].
  rewrite (h_seek_cur_r h E).
  rewrite (h_seek_abs_r (seek_read h (rp h)) off eq_refl).
  destruct (off <? 0)%Z; [reflexivity|].
  unfold h_read. proj. rewrite Hr. cbn [negb].
  erewrite h_seek_abs_r by reflexivity. rewrite of_N_ltb0, N2Z.id. reflexivity.
Qed.

Lemma sim_step z h s o :
  sim z h s ->
  sim z (fst (hstep h o)) (fst (spec_step s o)) /\ res_sim z (snd (hstep h o)) (snd (spec_step s o)).
Proof.
  intros Hsim. pose proof Hsim as Hsim0.
  destruct Hsim as (Hfl & Hm).
  destruct o as [n|n off|off w|d|d off|sz| |].
  - (* Read *)
    unfold hstep, h_read, spec_step. rewrite Hfl.
    destruct (fl_read (sp_fl s)); cbn [negb]; [|split; [exact Hsim0|left; reflexivity]].
    unfold sim, rp in *.
    destruct (hs_buf h) as [[b cur]|]; proj.
    + destruct Hm as [-> ->]. split; [|left; reflexivity]. auto.
    + destruct Hm as (Hi & Hp & Hd). rewrite <- Hp.
      destruct (fl_write (sp_fl s) && fl_trunc (sp_fl s)).
      * destruct Hd as [H0 Hd]. rewrite Hd, cread_nil. pose proof (empty_like_clen _ _ H0) as H00.
        assert (Hc : clen (cread (hs_tape h) (sp_pos s) n) = 0) by (rewrite clen_cread; lia).
        rewrite Hc. cbn [clen fold_right]. split.
        -- repeat split; auto.
        -- destruct z; cbn [empty_like] in H0.
           ++ right. split; [reflexivity|]. eexists. repeat split. exact Hc.
           ++ left. rewrite H0, cread_nil. reflexivity.
      * rewrite Hd in *. split; [|left; reflexivity].
        repeat split; auto.
  - (* ReadAt *)
    unfold spec_step.
    destruct (fl_read (sp_fl s)) eqn:Er; cbn [negb orb].
    2:{ unfold hstep. rewrite Hfl, Er. cbn [negb]. split; [exact Hsim0|left; reflexivity]. }
    rewrite <- Hfl in Er.
    destruct (hs_buf h) as [[b cur]|] eqn:Eb.
    + (* write mode *)
      rewrite (hstep_readat_w h b cur n off Eb Er). destruct Hm as [-> ->].
      assert (S1 : sim z (set_buf h (sp_data s) (sp_pos s)) s) by (unfold sim; proj; auto).
      destruct (off <? 0)%Z; (split; [exact S1|left; reflexivity]).
    + (* read mode *)
      destruct Hm as (Hi & Hp & Hd).
      rewrite (hstep_readat_r h n off Eb Er).
      assert (S1 : sim z (seek_read h (rp h)) s).
      { unfold sim, rp in *. proj. repeat split; auto. }
      destruct (off <? 0)%Z eqn:Eo; [split; [exact S1|left; reflexivity]|].
      split; [exact S1|]. cbn [snd]. cbv zeta.
      destruct (fl_write (sp_fl s) && fl_trunc (sp_fl s)).
      * destruct Hd as [H0 Hd]. rewrite Hd, cread_nil. pose proof (empty_like_clen _ _ H0) as H00.
        assert (Hc : clen (cread (hs_tape h) (Z.to_N off) n) = 0) by (rewrite clen_cread; lia).
        rewrite Hc. cbn [clen fold_right].
        destruct z; cbn [empty_like] in H0.
        -- right. split; [reflexivity|]. eexists. repeat split. exact Hc.
        -- left. rewrite H0, cread_nil. reflexivity.
      * rewrite <- Hd. left. reflexivity.
  - (* Seek: in read mode the target becomes the logical position, wherever it lies *)
    unfold hstep, h_seek, spec_step in *.
    unfold sim, rp, is_w in *.
    destruct (hs_buf h) as [[b cur]|] eqn:Eb; proj.
    + destruct Hm as [-> ->].
      destruct ((2 <? w) || _); proj; rewrite ?Eb; (split; [auto|left; reflexivity]).
    + destruct Hm as (Hi & Hp & Hd).
      assert (Hlen : clen (hs_tape h) = clen (sp_data s)).
      { destruct (fl_write (sp_fl s) && fl_trunc (sp_fl s)); [destruct Hd as [H0 ->]; apply empty_like_clen in H0; rewrite H0; reflexivity|rewrite Hd; reflexivity]. }
      rewrite Hi, Hlen, <- Hp.
      set (base := if w =? 0 then 0%Z else if w =? 1 then Z.of_N (sp_pos s) else Z.of_N (clen (sp_data s))) in *.
      destruct ((2 <? w) || (base + off <? 0)%Z) eqn:Ec; proj; rewrite ?Eb.
      * split; [|left; reflexivity]. repeat split; auto.
      * split; [|left; reflexivity]. repeat split; auto.
  - (* Write *)
    unfold hstep, spec_step. rewrite Hfl.
    destruct (fl_write (sp_fl s)) eqn:Ew; cbn [negb]; [|split; [exact Hsim0|left; reflexivity]].
    pose proof (sim_enter_write z h s Hsim0 Ew) as H1. pose proof (is_w_enter_write h) as W1.
    generalize dependent (enter_write h). intros h1 H1 W1.
    unfold sim, is_w, h_write_at_cursor, to_end_if_append in *. destruct H1 as (Hfl1 & Hm1).
    destruct (hs_buf h1) as [[b cur]|] eqn:Eb; [|discriminate]. destruct Hm1 as [-> ->]. rewrite Hfl1.
    destruct (fl_append (sp_fl s) && (0 <? clen d)); proj; rewrite ?Eb; proj; (split; [auto|left; reflexivity]).
  - (* WriteAt *)
    unfold hstep, spec_step. rewrite Hfl.
    destruct (fl_write (sp_fl s)) eqn:Ew; cbn [negb orb] in *; [|split; [exact Hsim0|left; reflexivity]].
    pose proof (sim_enter_write z h s Hsim0 Ew) as H1. pose proof (is_w_enter_write h) as W1.
    generalize dependent (enter_write h). intros h1 H1 W1.
    unfold is_w in W1. destruct (hs_buf h1) as [[b cur]|] eqn:Eb; [|discriminate].
    pose proof (hstep_writeat_w h1 b cur d off Eb) as E.
    destruct (h_seek h1 0 1) as [h0 c]. rewrite E. clear E.
    unfold sim in H1. rewrite Eb in H1. destruct H1 as (Hfl1 & -> & ->).
    destruct (off <? 0)%Z; (split; [unfold sim; proj; auto|left; reflexivity]).
  - (* Truncate *)
    unfold hstep, spec_step. rewrite Hfl.
    destruct (fl_write (sp_fl s)) eqn:Ew; cbn [negb orb]; [|split; [exact Hsim0|left; reflexivity]].
    destruct (sz <? 0)%Z eqn:Esz; [split; [exact Hsim0|left; reflexivity]|].
    pose proof (sim_enter_write z h s Hsim0 Ew) as H1. pose proof (is_w_enter_write h) as W1.
    generalize dependent (enter_write h). intros h1 H1 W1. cbn zeta.
    unfold is_w in *. destruct (hs_buf h1) as [[b cur]|] eqn:Eb; [|discriminate].
    unfold sim in *. rewrite Eb in H1. destruct H1 as (Hfl1 & [-> ->]). proj.
    split; [auto|left; reflexivity].
  - (* Sync *)
    unfold hstep, spec_step. unfold sim in *.
    destruct (hs_buf h) as [[b cur]|] eqn:Eb; proj; rewrite ?Eb; (split; [auto|left; reflexivity]).
  - (* Stat *)
    unfold hstep, spec_step. proj. split; [exact Hsim0|]. left. f_equal.
    destruct (hs_buf h) as [[b cur]|] eqn:Eb; [destruct Hm as [-> _]; reflexivity|].
    destruct Hm as (Hi & Hp & Hd). rewrite Hi.
    destruct (fl_write (sp_fl s) && fl_trunc (sp_fl s)); [destruct Hd as [H0 ->]; apply empty_like_clen in H0; rewrite H0; reflexivity|rewrite Hd; reflexivity].
Qed.

(* ---------------------------------------------------------------- runs *)
Definition results_sim (z : bool) (a b : list hres) : Prop := Forall2 (res_sim z) a b.

Lemma sim_run z ops : forall h s,
  sim z h s ->
  sim z (fst (hrun h ops)) (fst (spec_run s ops)) /\ results_sim z (snd (hrun h ops)) (snd (spec_run s ops)).
Proof.
  induction ops as [|o r IH]; intros h s Hsim.
  - cbn. split; [exact Hsim|constructor].
  - destruct (sim_step z h s o Hsim) as [S1 R1].
    cbn [hrun spec_run].
    destruct (hstep h o) as [h1 x]. destruct (spec_step s o) as [s1 y]. cbn [fst snd] in *.
    destruct (IH h1 s1 S1) as [S2 R2].
    destruct (hrun h1 r) as [h2 xs]. destruct (spec_run s1 r) as [s2 ys]. cbn [fst snd] in *.
    split; [exact S2|constructor; assumption].
Qed.

Lemma sim_close z h s : sim z h s -> ceqb (h_close h) (sp_data s) = true.
Proof.
  unfold sim, h_close. intros (_ & Hm). destruct (hs_buf h) as [[b cur]|].
  - destruct Hm as [-> _]. apply ceqb_refl.
  - destruct Hm as (_ & _ & Hd). destruct (_ && _).
    + destruct Hd as [H0 ->]. apply ceqb_clen0; [exact (empty_like_clen _ _ H0)|reflexivity].
    + rewrite Hd. apply ceqb_refl.
Qed.

(* outside the corner the final content is the very same piece list *)
Lemma sim_close_eq h s : sim false h s -> h_close h = sp_data s.
Proof.
  unfold sim, h_close. intros (_ & Hm). destruct (hs_buf h) as [[b cur]|].
  - destruct Hm as [-> _]. reflexivity.
  - destruct Hm as (_ & _ & Hd). destruct (_ && _); [|exact Hd].
    destruct Hd as [H0 ->]. exact H0.
Qed.

Lemma results_sim_agree z a b : results_sim z a b -> results_agree a b.
Proof. unfold results_sim, results_agree. induction 1; constructor; eauto using res_sim_eqb. Qed.

Lemma results_sim_eq a b : results_sim false a b -> a = b.
Proof. unfold results_sim. induction 1; [reflexivity|]. f_equal; [apply res_sim_eq; assumption|assumption]. Qed.

(* THE THEOREM: EVERY operation sequence, every flag combination, every initial content: each call returns what the
   byte array with a cursor returns (contents compared as bytes), and the content after Close is the reference's data *)
Theorem C14_refines_all : forall existing fl ops,
  let '(h, rs) := hrun (h_open existing fl) ops in
  let '(s, rs') := spec_run (spec_open existing fl) ops in
  results_agree rs rs' /\ ceqb (h_close h) (sp_data s) = true.
Proof.
  intros existing fl ops.
  assert (Hz : true = false -> no_empty_pieces_corner existing fl) by discriminate.
  destruct (sim_run true ops _ _ (sim_open true existing fl Hz)) as [S R].
  destruct (hrun (h_open existing fl) ops) as [h rs].
  destruct (spec_run (spec_open existing fl) ops) as [s rs']. cbn [fst snd] in *.
  split; [eapply results_sim_agree; exact R|eapply sim_close; exact S].
Qed.

(* the former theorems for the envelopes (ops_ok: no seek beyond the end in read mode, later: no lost cursor when an
   O_TRUNC handle on an empty file enters write mode; ops_ok': the same with the mode bookkeeping): both restrictions
   were repaired in /repo, the envelopes are gone, the names stay *)
Corollary C14_refines_wide : forall existing fl ops,
  let '(h, rs) := hrun (h_open existing fl) ops in
  let '(s, rs') := spec_run (spec_open existing fl) ops in
  results_agree rs rs' /\ ceqb (h_close h) (sp_data s) = true.
Proof. exact C14_refines_all. Qed.
Corollary C14_refines : forall existing fl ops,
  let '(h, rs) := hrun (h_open existing fl) ops in
  let '(s, rs') := spec_run (spec_open existing fl) ops in
  results_agree rs rs' /\ ceqb (h_close h) (sp_data s) = true.
Proof. exact C14_refines_all. Qed.

(* SYNTACTIC equality of results and of the final piece list, for every operation sequence and ANY existing content outside
   the corner "opened O_TRUNC for writing on a non-[] content whose pieces all have length 0" (there the handle delivers
   those zero-length pieces where the reference delivers []: corner_not_syntactic below) *)
Theorem C14_refines_all_eq : forall existing fl ops,
  no_empty_pieces_corner existing fl ->
  let '(h, rs) := hrun (h_open existing fl) ops in
  let '(s, rs') := spec_run (spec_open existing fl) ops in
  rs = rs' /\ h_close h = sp_data s.
Proof.
  intros existing fl ops Hc.
  destruct (sim_run false ops _ _ (sim_open false existing fl (fun _ => Hc))) as [S R].
  destruct (hrun (h_open existing fl) ops) as [h rs].
  destruct (spec_run (spec_open existing fl) ops) as [s rs']. cbn [fst snd] in *.
  split; [apply results_sim_eq; exact R|eapply sim_close_eq; exact S].
Qed.
Corollary C14_refines_eq_strict : forall existing fl ops,
  no_empty_pieces_corner existing fl ->
  let '(h, rs) := hrun (h_open existing fl) ops in
  let '(s, rs') := spec_run (spec_open existing fl) ops in
  rs = rs' /\ h_close h = sp_data s.
Proof. exact C14_refines_all_eq. Qed.

(* ... in particular for an existing content that does not end in zero-length pieces *)
Corollary C14_refines_eq : forall existing fl ops,
  notrail existing ->
  let '(h, rs) := hrun (h_open existing fl) ops in
  let '(s, rs') := spec_run (spec_open existing fl) ops in
  rs = rs' /\ h_close h = sp_data s.
Proof. intros existing fl ops Hc. apply C14_refines_all_eq. apply notrail_no_corner. exact Hc. Qed.

(* ... for every handle that is not opened O_TRUNC for writing, and for every non-empty file *)
Corollary C14_refines_eq_notrunc : forall existing fl ops,
  fl_write fl && fl_trunc fl = false ->
  let '(h, rs) := hrun (h_open existing fl) ops in
  let '(s, rs') := spec_run (spec_open existing fl) ops in
  rs = rs' /\ h_close h = sp_data s.
Proof. intros existing fl ops H. apply C14_refines_all_eq. intros E. rewrite E in H. discriminate. Qed.
Corollary C14_refines_eq_nonempty : forall existing fl ops,
  clen existing <> 0 ->
  let '(h, rs) := hrun (h_open existing fl) ops in
  let '(s, rs') := spec_run (spec_open existing fl) ops in
  rs = rs' /\ h_close h = sp_data s.
Proof. intros existing fl ops H. apply C14_refines_all_eq. intros _ E. contradiction. Qed.

(* the corner is real: syntactic equality fails there, equality up to [expand] holds *)
Example corner_not_syntactic :
  let existing := [(1, 0, 0)] in
  let fl := {| fl_read := true; fl_write := true; fl_append := false; fl_trunc := true |} in
  let ops := [HRead 1] in
  hrun (h_open existing fl) ops =
    ({| hs_tape := [(1,0,0)]; hs_isize := 0; hs_rpos := Some 0; hs_buf := None; hs_fl := fl |}, [RData [(1, 0, 0)] true]) /\
  spec_run (spec_open existing fl) ops = ({| sp_data := []; sp_pos := 0; sp_fl := fl |}, [RData [] true]).
Proof. vm_compute. repeat split. Qed.

(* the other one is gone: a ReadAt beyond the end of a content that ends in a zero-length piece, in read mode, used to
   deliver that piece (the stream stopped at the end) where the byte array delivers []; now both deliver [] *)
Example trailing_now_syntactic :
  let existing := [(5, 0, 4); (1, 0, 0)] in
  let fl := {| fl_read := true; fl_write := false; fl_append := false; fl_trunc := false |} in
  let ops := [HReadAt 2 7; HSeek 9 0; HRead 2; HSeek 0 1] in
  snd (hrun (h_open existing fl) ops) = [RData [] true; ROff 9; RData [] true; ROff 9] /\
  snd (spec_run (spec_open existing fl) ops) = [RData [] true; ROff 9; RData [] true; ROff 9].
Proof. vm_compute. repeat split. Qed.

(* ---------------------------------------------------------------- the theorems, run *)
(* [agree_b] decides the conclusion of the theorems *)
Definition agree_b (existing : content) (fl : flags) (ops : list hop) : bool :=
  let '(h, rs) := hrun (h_open existing fl) ops in
  let '(s, rs') := spec_run (spec_open existing fl) ops in
  match first_bad 0 rs rs' with Some _ => false | None => ceqb (h_close h) (sp_data s) end.

(* ... and is decided by them *)
Lemma first_bad_agree : forall a b i, results_agree a b -> first_bad i a b = None.
Proof. intros a b i H. revert i. induction H as [|x y a b Hxy _ IH]; intro i; cbn; [reflexivity|]. rewrite Hxy. apply IH. Qed.
Theorem C14_agree_b_all : forall existing fl ops, agree_b existing fl ops = true.
Proof.
  intros existing fl ops. pose proof (C14_refines_all existing fl ops) as H. unfold agree_b.
  destruct (hrun (h_open existing fl) ops) as [h rs]. destruct (spec_run (spec_open existing fl) ops) as [s rs'].
  destruct H as [H1 H2]. rewrite (first_bad_agree _ _ 0%nat H1). exact H2.
Qed.

Definition fl_ro := {| fl_read := true; fl_write := false; fl_append := false; fl_trunc := false |}.
Definition fl_rw := {| fl_read := true; fl_write := true; fl_append := false; fl_trunc := false |}.
Definition fl_rwa := {| fl_read := true; fl_write := true; fl_append := true; fl_trunc := false |}.
Definition fl_rwt := {| fl_read := true; fl_write := true; fl_append := false; fl_trunc := true |}.
Definition fl_rwat := {| fl_read := true; fl_write := true; fl_append := true; fl_trunc := true |}.
Definition fl_wo := {| fl_read := false; fl_write := true; fl_append := false; fl_trunc := false |}.
Definition fl_woa := {| fl_read := false; fl_write := true; fl_append := true; fl_trunc := false |}.
Definition ten : content := [(5, 0, 10)].

(* the former witnesses of the seek-bound restriction (a seek beyond the end in read mode lost the position) agree now:
   the read handle keeps its logical cursor behind the end of the stream *)
Example seek_beyond_end_agrees :
  agree_b ten fl_ro [HSeek 20 0; HSeek 0 1] = true /\
  agree_b ten fl_rw [HTruncate (-1); HSeek 20 0; HSeek 0 1] = true /\
  agree_b ten fl_rwa [HSeek 20 0; HSeek 0 1] = true /\
  agree_b ten fl_ro [HSeek 20 0; HReadAt 2 3; HSeek 0 1] = true /\
  snd (hrun (h_open ten fl_ro) [HSeek 20 0; HSeek 0 1]) = [ROff 20; ROff 20].
Proof. vm_compute. repeat split; reflexivity. Qed.
(* reads behind the end return nothing and do not move the cursor; relative seeks and seeks from the end continue from the
   logical position; a ReadAt restores it *)
Example seek_beyond_end_reads_agree :
  agree_b ten fl_ro [HSeek 20 0; HRead 3; HSeek 0 1; HSeek (-15) 1; HRead 3; HSeek 0 1] = true /\
  snd (hrun (h_open ten fl_ro) [HSeek 20 0; HRead 3; HSeek 0 1; HSeek (-15) 1; HRead 3; HSeek 0 1]) =
    [ROff 20; RData [] true; ROff 20; ROff 5; RData [(5, 5, 3)] false; ROff 8] /\
  agree_b ten fl_ro [HSeek 5 2; HRead 3; HSeek 3 1; HSeek 0 1; HReadAt 4 8; HSeek 0 1; HStat] = true /\
  snd (hrun (h_open ten fl_ro) [HSeek 5 2; HRead 3; HSeek 3 1; HSeek 0 1; HReadAt 4 8; HSeek 0 1; HStat]) =
    [ROff 15; RData [] true; ROff 18; ROff 18; RData [(5, 8, 2)] false; ROff 18; RSize 10].
Proof. vm_compute. repeat split; reflexivity. Qed.
(* entering write mode from a position behind the end: the first Write lands there and the hole reads as zeros, as in
   the reference; WriteAt and Truncate keep the position *)
Example seek_beyond_end_then_write_agrees :
  agree_b ten fl_rw [HSeek 20 0; HWrite [(7, 0, 2)]; HSeek 0 1; HStat; HReadAt 40 0] = true /\
  h_close (fst (hrun (h_open ten fl_rw) [HSeek 20 0; HWrite [(7, 0, 2)]])) = [(5, 0, 10); (0, 0, 10); (7, 0, 2)] /\
  agree_b ten fl_rwa [HSeek 20 0; HWrite [(7, 0, 2)]; HSeek 0 1; HStat; HReadAt 40 0] = true /\
  h_close (fst (hrun (h_open ten fl_rwa) [HSeek 20 0; HWrite [(7, 0, 2)]])) = [(5, 0, 10); (7, 0, 2)] /\
  agree_b ten fl_rw [HSeek 20 0; HWriteAt [(7, 0, 2)] 3; HSeek 0 1; HWrite [(8, 0, 1)]; HStat; HReadAt 40 0] = true /\
  agree_b ten fl_rw [HSeek 20 0; HTruncate 4; HSeek 0 1; HWrite [(8, 0, 1)]; HStat; HReadAt 40 0] = true /\
  agree_b [] fl_rw [HSeek 20 0; HWrite [(7, 0, 2)]; HSeek 0 1; HStat; HReadAt 40 0] = true /\
  agree_b ten fl_rwt [HSeek 20 0; HWrite [(7, 0, 2)]; HSeek 0 1; HStat; HReadAt 40 0] = true.
Proof. vm_compute. repeat split; reflexivity. Qed.
Example seek_free_after_truncate : agree_b ten fl_rw [HTruncate 10; HSeek 20 0; HSeek 0 1] = true.
Proof. vm_compute. reflexivity. Qed.
Example seek_free_after_writeat :
  agree_b ten fl_rw [HWriteAt [] 3; HSeek 20 0; HSeek 0 1] = true /\
  agree_b ten fl_rw [HWriteAt [(7, 0, 2)] (-1); HSeek 20 0; HSeek 0 1] = true.
Proof. vm_compute. repeat split; reflexivity. Qed.

(* the last restriction is gone too.  A handle opened O_TRUNC for writing on an EMPTY file stays in read mode (there is
   nothing to truncate); enterWriteMode used to start an O_TRUNC handle at position 0 whatever its read cursor was, so the
   first Write after a Seek went to offset 0 where the reference writes at the cursor; repaired in /repo (the cursor is
   kept), mirrored in Model/File.v (enter_write).  The former witnesses (needs_pos0_trunc_on_empty and its variants) agree: *)
Example trunc_on_empty_agrees :
  agree_b [] fl_rwt [HSeek 20 0; HWrite [(7, 0, 2)]] = true /\
  hrun (h_open [] fl_rwt) [HSeek 20 0; HWrite [(7, 0, 2)]; HSeek 0 1] =
    ({| hs_tape := []; hs_isize := 0; hs_rpos := None; hs_buf := Some ([(0, 0, 20); (7, 0, 2)], 22); hs_fl := fl_rwt |},
     [ROff 20; RN 2; ROff 22]) /\
  spec_run (spec_open [] fl_rwt) [HSeek 20 0; HWrite [(7, 0, 2)]; HSeek 0 1] =
    ({| sp_data := [(0, 0, 20); (7, 0, 2)]; sp_pos := 22; sp_fl := fl_rwt |}, [ROff 20; RN 2; ROff 22]) /\
  agree_b [] fl_rwt [HSeek 20 0; HWriteAt [(7, 0, 2)] 3; HSeek 0 1] = true /\
  agree_b [] fl_rwt [HSeek 20 0; HTruncate 3; HSeek 0 1] = true /\
  agree_b [] fl_rwat [HSeek 20 0; HWrite []; HSeek 0 1] = true /\
  agree_b [(5, 0, 0)] fl_rwt [HSeek 1 2; HWrite [(7, 0, 2)]] = true /\
  agree_b [] fl_rwat [HSeek 20 0; HWrite [(7, 0, 2)]; HSeek 0 1] = true /\
  agree_b [] fl_rwt [HSeek 20 0; HTruncate (-1); HSeek 0 1; HRead 2; HSeek 0 0; HWrite [(7, 0, 2)]; HSeek 0 1] = true /\
  agree_b ten fl_rwt [HSeek 20 0; HWrite [(7, 0, 2)]; HSeek 0 1] = true.
Proof. vm_compute. repeat split; reflexivity. Qed.

(* O_APPEND handles: on the pinned tree the flag was honoured only when entering write mode; repaired in /repo
   ("fix: apply O_APPEND on every write"), mirrored in Model/File.v (to_end_if_append).  The sequences that used to
   witness the finding agree with the byte-array specification, and the refinement theorems cover O_APPEND. *)
Example append_agrees :
  agree_b ten fl_rwa [HWrite [(7, 0, 2)]; HSeek 0 0; HWrite [(8, 0, 1)]] = true /\
  agree_b ten fl_rwa [HWrite []; HRead 4] = true /\
  agree_b ten fl_rwa [HRead 3; HTruncate 5; HRead 2; HWrite [(7, 0, 2)]; HSeek 0 1] = true.
Proof. vm_compute. repeat split; reflexivity. Qed.

(* ReadAt/WriteAt used to move the cursor; repaired in /repo (the cursor is remembered and restored), mirrored in
   Model/File.v.  The sequences that used to witness the finding agree. *)
Example readat_agrees : agree_b ten fl_ro [HReadAt 2 3; HRead 1] = true.
Proof. vm_compute. reflexivity. Qed.
Example writeat_agrees : agree_b ten fl_rw [HWriteAt [(7, 0, 2)] 0; HWrite [(8, 0, 1)]] = true.
Proof. vm_compute. reflexivity. Qed.

(* a test matrix (instances of the theorems, run): every flag combination below x every sequence below x four
   initial contents: read mode, write mode, append handles, offsets beyond the end, negative offsets, zero-length
   data, after Truncate, after Sync, on the empty file and on contents with zero-length pieces; seeks beyond the end in
   read mode followed by reads, relative seeks, seeks from the end, ReadAt, then a first Write / WriteAt / Truncate *)
Definition test_flags : list flags := [fl_ro; fl_rw; fl_rwa; fl_rwt; fl_rwat; fl_wo; fl_woa].
Definition test_contents : list content := [ten; []; [(5, 0, 0)]; [(5, 0, 4); (6, 0, 0); (7, 3, 6); (1, 0, 0)]].
Definition test_seqs : list (list hop) := [
  [HReadAt 2 3; HRead 1; HSeek 0 1];
  [HRead 3; HReadAt 4 8; HRead 2; HSeek 0 1; HStat];
  [HRead 3; HReadAt 4 20; HRead 2; HSeek 0 1];
  [HRead 3; HReadAt 4 10; HRead 2; HSeek 0 1];
  [HRead 3; HReadAt 4 (-1); HRead 2; HSeek 0 1];
  [HRead 3; HReadAt 0 2; HRead 2; HSeek 0 1];
  [HWriteAt [(7, 0, 2)] 0; HWrite [(8, 0, 1)]; HSeek 0 1; HStat];
  [HRead 3; HWriteAt [(7, 0, 2)] 20; HRead 2; HSeek 0 1; HStat; HReadAt 30 0];
  [HRead 3; HWriteAt [] 20; HRead 2; HSeek 0 1; HStat; HReadAt 30 0];
  [HRead 3; HWriteAt [(7, 0, 2)] (-3); HRead 2; HSeek 0 1; HStat; HSeek (-1) 2; HSeek 0 1];
  [HRead 3; HTruncate 5; HReadAt 3 4; HWriteAt [(7, 0, 3)] 8; HRead 20; HSeek 0 1; HStat; HReadAt 30 0];
  [HRead 3; HTruncate 15; HReadAt 3 12; HWriteAt [(7, 0, 3)] 8; HRead 20; HSeek 0 1; HStat; HReadAt 30 0];
  [HRead 3; HWrite [(9, 0, 2)]; HSync; HReadAt 3 4; HWriteAt [(7, 0, 3)] 8; HSync; HRead 20; HSeek 0 1; HStat; HReadAt 30 0];
  [HSync; HReadAt 3 4; HRead 2; HWriteAt [(7, 0, 3)] 8; HSync; HRead 20; HSeek 0 1; HStat; HReadAt 30 0];
  [HWriteAt [] 0; HSeek 30 0; HWriteAt [(7, 0, 3)] 8; HSeek 0 1; HWrite [(6, 0, 1)]; HStat; HReadAt 50 0];
  [HRead 5; HWrite []; HSeek 0 1; HReadAt 1 1; HWrite [(6, 0, 1)]; HSeek 0 1;  HStat; HReadAt 50 0];
  [HRead 5; HWriteAt [(6, 0, 1)] 1; HWrite [(6, 0, 1)]; HSeek 0 1;  HStat; HReadAt 50 0];
  [HSeek 0 2; HReadAt 3 3; HRead 1; HSeek 0 1; HReadAt 3 10; HSeek 0 1];
  [HSeek (-2) 2; HReadAt 3 9; HRead 5; HSeek 0 1; HReadAt 3 10; HSeek 0 1];
  [HReadAt 5 1; HWriteAt [(7, 0, 2)] 12; HReadAt 20 0; HSeek 0 1; HWrite [(8, 0, 3)]; HReadAt 20 0; HSeek 0 1];
  (* seeks beyond the end *)
  [HSeek 20 0; HSeek 0 1];
  [HTruncate (-1); HSeek 20 0; HSeek 0 1];
  [HWriteAt [(7, 0, 2)] (-3); HSeek 20 0; HSeek 0 1];
  [HSeek 20 0; HReadAt 2 3; HSeek 0 1; HRead 4; HSeek 0 1];
  [HSeek 20 0; HRead 3; HSeek 0 1; HSeek (-15) 1; HRead 3; HSeek 0 1];
  [HSeek 5 2; HRead 3; HSeek 3 1; HSeek 0 1; HReadAt 4 8; HSeek 0 1; HStat];
  [HSeek 5 2; HSeek (-30) 1; HSeek 0 1; HSeek 7 3; HSeek 0 1];
  [HSeek 20 0; HWrite [(7, 0, 2)]; HSeek 0 1; HStat; HReadAt 40 0];
  [HSeek 20 0; HWrite []; HSeek 0 1; HStat; HReadAt 40 0; HWrite [(7, 0, 2)]; HStat; HReadAt 40 0];
  [HSeek 20 0; HWriteAt [(7, 0, 2)] 3; HSeek 0 1; HStat; HReadAt 40 0; HWrite [(8, 0, 1)]; HStat; HReadAt 40 0];
  [HSeek 20 0; HWriteAt [(7, 0, 2)] 30; HSeek 0 1; HStat; HReadAt 40 0; HWrite [(8, 0, 1)]; HStat; HReadAt 40 0];
  [HSeek 20 0; HTruncate 4; HSeek 0 1; HStat; HReadAt 40 0; HWrite [(7, 0, 2)]; HStat; HReadAt 40 0];
  [HSeek 20 0; HTruncate 30; HSeek 0 1; HStat; HReadAt 40 0; HWrite [(7, 0, 2)]; HStat; HReadAt 40 0];
  [HSeek 3 2; HRead 2; HSeek 2 1; HWrite [(7, 0, 2)]; HSync; HSeek 0 1; HStat; HReadAt 40 0];
  [HSeek 20 0; HSeek 0 0; HWrite [(7, 0, 2)]; HSeek 20 1; HWrite [(8, 0, 1)]; HSeek 0 1; HStat; HReadAt 40 0] ].
Definition test_matrix : list bool :=
  flat_map (fun c => flat_map (fun fl => map (fun ops => agree_b c fl ops) test_seqs) test_flags) test_contents.
(* 980 runs, all of which agree (there is no envelope any more) *)
Example readat_writeat_tests :
  length test_matrix = 980%nat /\ forallb (fun x => x) test_matrix = true.
Proof. vm_compute. split; reflexivity. Qed.

(* ... and EVERY sequence of two operations over an alphabet of 17, on the same flags and contents: 8092 runs agree, none
   disagrees (with three operations: 137564 runs agree, none disagrees; not compiled here, it takes over a minute) *)
Definition alphabet : list hop :=
  [HRead 3; HReadAt 4 12; HReadAt 2 1; HSeek 20 0; HSeek 0 0; HSeek (-4) 1; HSeek 3 2; HSeek 0 1; HWrite [(7, 0, 2)]; HWrite [];
   HWriteAt [(8, 0, 3)] 14; HWriteAt [] 2; HTruncate 4; HTruncate 25; HTruncate (-1); HSync; HStat].
Fixpoint all_seqs (n : nat) : list (list hop) :=
  match n with O => [[]] | S k => flat_map (fun r => map (fun o => o :: r) alphabet) (all_seqs k) end.
Definition tally (acc : N * N) (x : bool) : N * N :=
  let '(a, b) := acc in if x then (a + 1, b) else (a, b + 1).
(* (agreeing runs, disagreeing runs) *)
Definition exhaustive (n : nat) : N * N :=
  fold_left (fun acc c => fold_left (fun acc fl =>
    fold_left (fun acc ops => tally acc (agree_b c fl ops)) (all_seqs n) acc) test_flags acc) test_contents (0, 0).
Example exhaustive_pairs : exhaustive 2 = (8092, 0).
Proof. vm_compute. reflexivity. Qed.

Print Assumptions C14_refines_all.
Print Assumptions C14_refines_all_eq.
Print Assumptions C14_refines_wide.
Print Assumptions C14_refines.
Print Assumptions C14_refines_eq.
Print Assumptions C14_refines_eq_strict.
Print Assumptions C14_agree_b_all.
