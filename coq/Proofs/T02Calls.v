(* T02 / the single-record calls and the removals: Mkdir, Chmod, Chown, Chtimes, Remove, RemoveAll have, on the set
   of live entries, the effect of the reference operation of T02Ns.v, and return the reference outcome.
   (Stated for any state [s] whose header-block queue is positive; T02Spec.v instantiates [with_env s e].)

   State hypotheses.  [Wf hr c s] = the C01 invariant [Inv] (Proofs/C01Ops.v: live index with cached root "/",
   cleaned absolute unique names, tape and index in sync) together with [sizes_ok]: every row stores the size a
   replay of its record would store (established by every record the filesystem calls write; needed because a
   metadata update re-derives the size from the PAX size record; a row without the record - empty, or indexed from a
   foreign archive - gets it from the known size, [keep_size], hence the bound 10^40 in [size_ok]).  [closed (abs s)]: the live entries form a
   tree (every proper ancestor of a live entry is a live directory); needed where the implementation looks at
   direct children or at "everything with this prefix" while the reference looks at the subtree.
   Both are shown to be preserved by every call treated here ([Wf] in each theorem, [closed] in T02Closed.v).

   Call hypotheses: plain configuration, record size > 0, not read-only (the read-only case is
   C02_readonly_refuses), header-block counts >= 1 ([hbok]), names cleaned and absolute ([good]),
   and Remove / RemoveAll not applied to the root (as in [call_ok] of the C01 theorem). *)
From Coq Require Import List NArith ZArith Bool Lia.
From Coq Require Import ZifyN ZifyBool.
Import ListNotations.
From STFS Require Import Str Db Tape Index Ops Fs Diff Norm TapeLemmas StrLemmas
  C01Str C01Db C01Inv C01Sim C01Tape C01Hdr C01Ops C01Ops2 C01Reads C01Fs T02Ns T02Db T02Ops T02Reads.
Open Scope N_scope.

Record Wf (hr : bool) (c : cfg) (s : sys) : Prop := {
  wf_inv : Inv hr c s;
  wf_size : sizes_ok (rows (db s)) }.

(* ---------- the abstraction, through the lookup *)
Lemma lookup_abs hr c s m : Inv hr c s -> lookup (abs s) m = look (rows (db s)) m.
Proof. intro HI. apply lookup_absp. apply (iv_li hr c s HI). Qed.

Lemma look_upsert l r m : Forall rowok l -> NoDup (map r_name l) -> r_link r = [] -> r_del r = false ->
  look (upsert_rows l r) m = if eqb_str m (r_name r) then Some (node_of r) else look l m.
Proof.
  intros A B C D. unfold look. rewrite find_rows_upsert by assumption. destruct (eqb_str m (r_name r)); reflexivity.
Qed.

Lemma look_replace l n new m : Forall rowok l -> NoDup (map r_name l) -> r_name new = n -> has_name l n = true ->
  look (replace_row n [] new l) m = if eqb_str m n then (if live new then Some (node_of new) else None) else look l m.
Proof.
  intros A B C D. unfold look. rewrite find_rows_replace by assumption.
  destruct (eqb_str m n); [destruct (live new)|]; reflexivity.
Qed.

Lemma sizes_upsert l r : sizes_ok l -> size_ok r -> sizes_ok (upsert_rows l r).
Proof.
  intros A B. unfold upsert_rows. destruct (has_key l (r_name r) (r_link r)).
  - apply replace_row_Forall; assumption.
  - apply Forall_app. split; [exact A|constructor; [exact B|constructor]].
Qed.

Lemma env_inv hr c s e : Inv hr c s -> Inv hr c (with_env s e).
Proof. intro H. eapply Inv_ext; [| |exact H]; reflexivity. Qed.

Lemma find_live l n d : find_rows l n = Some d -> live_name l n = true.
Proof.
  intro H. destruct (find_rows_some _ _ _ H) as (F1 & F2 & F3). unfold live_name. apply existsb_exists. exists d.
  split; [exact F1|]. rewrite F2, F3, eqb_str_refl. reflexivity.
Qed.

Section Calls.
Variable hr : bool.
Variable c : cfg.
Hypothesis HP : plain c.
Hypothesis Hrs : 0 < c_rs c.
Hypothesis Hro : c_readonly c = false.

(* the call changed nothing *)
Lemma same_state s : Wf hr c s -> hbok s -> Wf hr c s /\ hbok s /\ ns_eq (abs s) (abs s).
Proof. intros A B. split; [exact A|]. split; [exact B|apply ns_eq_refl]. Qed.

(* ---------- Mkdir *)
Lemma node_of_new_row dir n perm now rec blk :
  node_of (new_row c dir n perm now rec blk) = new_node c dir perm now (rec, blk).
Proof.
  unfold node_of, new_row, new_node. cbn [row_of_hdr with_size_name mknode_hdr r_tf r_size r_mode r_uid r_gid r_uname r_gname
    r_mtime r_atime r_ctime r_rec r_blk h_tf h_size h_mode h_uid h_gid h_uname h_gname h_mtime h_atime h_ctime].
  rewrite perm_bits_idem. destruct dir; reflexivity.
Qed.

Theorem T02_mkdir s n perm : Wf hr c s -> hbok s -> good n ->
  exists s', step c s (CMkdir n perm) = (s', snd (spec_mkdir c (abs s) n perm (clk s))) /\
    Wf hr c s' /\ hbok s' /\ ns_eq (abs s') (fst (spec_mkdir c (abs s) n perm (clk s))).
Proof.
  intros HW Hhb G. pose proof (wf_inv hr c s HW) as HI. pose proof HI as HI0.
  pose proof (iv_li hr c s HI0) as HL.
  assert (Hrows : Forall rowok (rows (db s))) by apply HL.
  assert (Hnd : NoDup (map r_name (rows (db s)))) by apply HL.
  cbn [step]. unfold fs_mkdir. rewrite Hro, (path_clean_good n G).
  rewrite (parent_check_exact hr s n HL (good_abs n G)).
  unfold spec_mkdir, spec_parent. rewrite (lookup_abs hr c s _ HI). unfold look.
  change (db s) with (db s).
  destruct (find_rows (rows (db s)) (path_dir n)) as [pd|] eqn:Ep; cbn [option_map].
  2:{ exists s. split; [reflexivity|]. apply same_state; assumption. }
  change (is_dir (node_of pd)) with (r_tf pd =? TypeDir).
  destruct (r_tf pd =? TypeDir) eqn:Ed.
  2:{ exists s. split; [reflexivity|]. apply same_state; assumption. }
  rewrite (stat_false_exact hr s n HL G). change (db s) with (db s).
  rewrite (lookup_abs hr c s _ HI). unfold look.
  destruct (find_rows (rows (db s)) n) as [d|] eqn:En; cbn [option_map].
  { exists s. split; [reflexivity|]. apply same_state; assumption. }
  rewrite (stat_s_true hr s n HL).
  destruct (mknode_exact hr c HP Hrs Hro s true n perm HI0 Hhb G) as (s' & rec & blk & E & HI' & Hhb' & Eclk & Edb).
  { apply alive_cpre. apply (live_alive _ (path_dir n)). eapply find_live. exact Ep. }
  rewrite E. exists s'. split; [reflexivity|]. change (db s) with (db s) in Edb. change (clk s) with (clk s) in Edb.
  split; [|split; [exact Hhb'|]].
  - split; [exact HI'|]. rewrite Edb, with_rows_rows. apply sizes_upsert; [apply HW|]. reflexivity.
  - intro m. cbn [fst snd]. rewrite (lookup_abs hr c s' m HI'), Edb, with_rows_rows.
    rewrite look_upsert; [|exact Hrows|exact Hnd|reflexivity|reflexivity].
    rewrite lookup_ns_set, (lookup_abs hr c s m HI). change (r_name (new_row c true n perm (clk s) rec blk)) with n.
    destruct (eqb_str m n); [|reflexivity]. rewrite node_of_new_row. reflexivity.
Qed.

(* ---------- Chmod / Chown / Chtimes *)
Lemma ch_node patch f : (forall h, h_name (patch h) = h_name h /\ h_link (patch h) = h_link h /\ h_pax (patch h) = h_pax h /\
                                   h_size (patch h) = h_size h) ->
  (forall d rec blk, node_of (row_of_hdr (r_rec d) rec (r_blk d) blk
                        (with_size_name (meta_hdr (patch (hdr_of_row d))) (r_size d) (h_name (patch (hdr_of_row d)))))
                     = f (node_of d)) ->
  forall s n, Wf hr c s -> hbok s -> good n ->
  exists s', fs_update_meta c s n patch = (s', snd (spec_ch (abs s) n f)) /\
    Wf hr c s' /\ hbok s' /\ ns_eq (abs s') (fst (spec_ch (abs s) n f)).
Proof.
  intros Hpatch Hnode s n HW Hhb G. pose proof (wf_inv hr c s HW) as HI. pose proof HI as HI0.
  pose proof (iv_li hr c s HI0) as HL.
  assert (Hrows : Forall rowok (rows (db s))) by apply HL.
  assert (Hnd : NoDup (map r_name (rows (db s)))) by apply HL.
  unfold fs_update_meta. rewrite Hro.
  destruct n as [|n0 n'] eqn:Enn; [exfalso; exact (good_nonempty [] G eq_refl)|]. rewrite <- Enn in *. clear Enn.
  rewrite (path_clean_good n G).
  rewrite (stat_false_exact hr s n HL G). change (db s) with (db s).
  unfold spec_ch. rewrite (lookup_abs hr c s _ HI). unfold look.
  destruct (find_rows (rows (db s)) n) as [d|] eqn:En; cbn [option_map].
  2:{ rewrite (stat_s_true hr s n HL). exists s. split; [reflexivity|]. apply same_state; assumption. }
  destruct (find_rows_some _ _ _ En) as (Hin & Hlive & Hrn).
  destruct (Hpatch (hdr_of_row d)) as (P1 & P2 & P3 & P4).
  rewrite Forall_forall in Hrows. destruct (Hrows d Hin) as (Gd & Hk & Hu).
  assert (Hsd : size_ok d).
  { pose proof (wf_size hr c s HW) as K. unfold sizes_ok in K. rewrite Forall_forall in K. apply K. exact Hin. }
  set (h0 := patch (hdr_of_row d)) in *.
  assert (N0 : h_name h0 = n) by (rewrite P1; exact Hrn).
  assert (Hsz : hsize (meta_hdr h0) = Some (r_size d)).
  { unfold hsize. rewrite meta_hdr_usize, P3, P4. change (h_pax (hdr_of_row d)) with (r_pax d).
    change (h_size (hdr_of_row d)) with (r_size d).
    unfold size_ok in Hsd. destruct (pax_get K_usize (r_pax d)) as [v|]; [exact Hsd|].
    destruct (0 <? r_size d) eqn:Ez; [apply undecimal_decimal_eq; exact Hsd|].
    change (h_size (meta_hdr h0)) with 0. f_equal. lia. }
  destruct (update_meta_exact hr c HP Hrs s h0 d (r_size d) HI0 Hhb) as (s' & rec & blk & E & HI' & Hhb' & Edb).
  { rewrite N0. exact G. }
  { rewrite P2. exact Hk. }
  { rewrite P3. exact Hu. }
  { rewrite N0. exact En. }
  { exact Hsz. }
  rewrite E. exists s'. split; [reflexivity|]. change (db s) with (db s) in Edb.
  set (nr := row_of_hdr (r_rec d) rec (r_blk d) blk (with_size_name (meta_hdr h0) (r_size d) (h_name h0))) in *.
  assert (Hhas : has_name (rows (db s)) n = true) by (eapply find_rows_has; exact En).
  split; [|split; [exact Hhb'|]].
  - split; [exact HI'|]. rewrite Edb, with_rows_rows. apply replace_row_Forall; [apply HW|].
    apply size_ok_row_of_hdr; [exact Hsz|]. intros _. reflexivity.
  - intro m. cbn [fst snd]. rewrite (lookup_abs hr c s' m HI'), Edb, with_rows_rows. rewrite N0.
    rewrite look_replace; [|apply HL|exact Hnd|exact N0|exact Hhas].
    rewrite lookup_ns_upd, (lookup_abs hr c s _ HI), (lookup_abs hr c s _ HI). unfold look at 2. rewrite En. cbn [option_map].
    destruct (eqb_str m n); [|reflexivity]. change (live nr) with true. cbn iota. unfold nr. rewrite Hnode. reflexivity.
Qed.

Theorem T02_chmod s n m : Wf hr c s -> hbok s -> good n ->
  exists s', step c s (CChmod n m) = (s', snd (spec_chmod (abs s) n m)) /\
    Wf hr c s' /\ hbok s' /\ ns_eq (abs s') (fst (spec_chmod (abs s) n m)).
Proof.
  cbn [step]. unfold spec_chmod. apply ch_node.
  - intro h. repeat split.
  - intros d rec blk. unfold node_of, with_mode. cbn. rewrite perm_bits_idem. reflexivity.
Qed.

Theorem T02_chown s n u g : Wf hr c s -> hbok s -> good n ->
  exists s', step c s (CChown n u g) = (s', snd (spec_chown (abs s) n u g)) /\
    Wf hr c s' /\ hbok s' /\ ns_eq (abs s') (fst (spec_chown (abs s) n u g)).
Proof.
  cbn [step]. unfold spec_chown. apply ch_node.
  - intro h. repeat split.
  - intros d rec blk. unfold node_of, with_owner. cbn. rewrite perm_bits_idem. reflexivity.
Qed.

Theorem T02_chtimes s n at_ mt : Wf hr c s -> hbok s -> good n ->
  exists s', step c s (CChtimes n at_ mt) = (s', snd (spec_chtimes (abs s) n at_ mt)) /\
    Wf hr c s' /\ hbok s' /\ ns_eq (abs s') (fst (spec_chtimes (abs s) n at_ mt)).
Proof.
  cbn [step]. unfold spec_chtimes. apply ch_node.
  - intro h. repeat split.
  - intros d rec blk. unfold node_of, with_times. cbn. rewrite perm_bits_idem. reflexivity.
Qed.

(* ---------- Remove / RemoveAll *)
Lemma has_below_rows lv n : has_below (absp lv) n = existsb (fun r => live r && below n (r_name r)) (rows lv).
Proof.
  unfold has_below, absp. induction (rows lv) as [|x t IH]; cbn [filter map existsb]; [reflexivity|].
  destruct (live x); cbn [map existsb fst andb]; rewrite IH; reflexivity.
Qed.

Lemma has_below_abs s n : has_below (abs s) n = existsb (fun r => live r && below n (r_name r)) (rows (db s)).
Proof. apply has_below_rows. Qed.

Lemma kid_filter_below n x : good n -> n <> [slash] -> good (r_name x) ->
  kid_filter n x = live x && below n (r_name x).
Proof.
  intros G Hn Gx. rewrite (below_good n _ G Hn).
  destruct (kid_filter n x) eqn:E.
  - destruct (kid_filter_facts n x G Hn Gx E) as (A & B & _). rewrite A, B. reflexivity.
  - destruct (live x) eqn:Lx; [|reflexivity]. destruct (has_prefix (n ++ [slash]) (r_name x)) eqn:Hp; [|reflexivity].
    exfalso. unfold kid_filter in E. rewrite (good_trim_slash n G Hn), Lx, Hp, (like_of_prefix _ _ Hp) in E.
    cbn [andb] in E. unfold not_self in E.
    assert (Hx : r_name x <> [slash]) by (eapply nonroot_of_prefix; [apply good_nonempty; exact G|exact Hp]).
    rewrite (good_trim_slash _ Gx Hx) in E.
    pose proof (has_prefix_length _ _ Hp) as L. rewrite app_length in L. cbn [length] in L.
    assert (E1 : eqb_str n (r_name x) = false) by (apply eqb_str_neq; intro K; rewrite <- K in L; lia).
    assert (E2 : eqb_str n (r_name x ++ [slash]) = false).
    { apply eqb_str_neq. intro K. rewrite K, app_length in L. cbn [length] in L. lia. }
    rewrite E1, E2 in E. discriminate.
Qed.

Lemma del_kids_below l n r : Forall rowok l -> good n -> n <> [slash] ->
  del_kids l n r = if r_tf r =? TypeDir then filter (fun x => live x && below n (r_name x)) l else [].
Proof.
  intros Hl G Hn. unfold del_kids. destruct (r_tf r =? TypeDir); [|reflexivity].
  apply filter_ext_in'. intros x Hx. rewrite Forall_forall in Hl. apply kid_filter_below; try assumption. apply (Hl x Hx).
Qed.

Lemma gone_filter (P : row -> bool) l m : NoDup (map r_name l) ->
  gone (map r_name (filter P l)) m = match byname l m with Some x => P x | None => false end.
Proof.
  unfold gone, byname. induction l as [|x t IH]; cbn [filter map existsb find]; intro Hnd; [reflexivity|].
  inversion Hnd as [|? ? Hn Ht]; subst.
  destruct (eqb_str (r_name x) m) eqn:E.
  - apply eqb_str_eq in E. destruct (P x); cbn [map existsb].
    + rewrite E, eqb_str_refl. reflexivity.
    + rewrite IH by exact Ht. assert (K : find (fun r => eqb_str (r_name r) m) t = None) by (apply byname_none; rewrite <- E; exact Hn).
      rewrite K. reflexivity.
  - destruct (P x); cbn [map existsb]; [rewrite eqb_str_sym, E; cbn [orb]|]; apply IH; exact Ht.
Qed.

Theorem T02_remove s n : Wf hr c s -> closed (abs s) -> hbok s -> good n -> n <> [slash] ->
  exists s', step c s (CRemove n) = (s', snd (spec_remove (abs s) n)) /\
    Wf hr c s' /\ hbok s' /\ ns_eq (abs s') (fst (spec_remove (abs s) n)).
Proof.
  intros HW Hcl Hhb G Hn. pose proof (wf_inv hr c s HW) as HI. pose proof HI as HI0.
  pose proof (iv_li hr c s HI0) as HL.
  assert (Hrows : Forall rowok (rows (db s))) by apply HL.
  assert (Hnd : NoDup (map r_name (rows (db s)))) by apply HL.
  assert (Hclr : closed_rows (rows (db s))) by (apply (closed_absp hr (db s) HL); exact Hcl).
  cbn [step]. unfold fs_remove, fs_remove_nl. rewrite Hro, (path_clean_good n G).
  rewrite (stat_false_exact hr s n HL G). change (db s) with (db s).
  unfold spec_remove. rewrite (lookup_abs hr c s _ HI). unfold look.
  destruct (find_rows (rows (db s)) n) as [d|] eqn:En; cbn [option_map].
  2:{ rewrite (stat_s_true hr s n HL). exists s. split; [reflexivity|]. apply same_state; assumption. }
  destruct (find_rows_link hr (db s) n d HL En) as (Hk & Hrn & Hok).
  change (h_tf (hdr_of_row d)) with (r_tf d). change (h_link (hdr_of_row d)) with (r_link d). rewrite Hk.
  change (eqb_str [] []) with true. rewrite andb_true_r.
  change (is_dir (node_of d)) with (r_tf d =? TypeDir).
  rewrite !has_below_abs.
  (* what Delete removes, once it is called *)
  assert (DEL : forall s1, tp s1 = tp s -> db s1 = db s -> hbq s1 = hbq s ->
     (r_tf d =? TypeDir) && existsb (fun r => live r && below n (r_name r)) (rows (db s)) = false ->
     exists s', delete_op c s1 n = (s', OOk) /\ Wf hr c s' /\ hbok s' /\ ns_eq (abs s') (ns_del n (abs s))).
  { intros s1 T1 T2 T3 Hempty.
    assert (HI1 : Inv hr c s1) by (eapply Inv_ext; eassumption).
    assert (Hhb1 : hbok s1) by (unfold hbok; rewrite T3; exact Hhb).
    destruct (delete_exact hr c HP Hrs s1 n d HI1 Hhb1) as (s' & E & HI' & Hhb' & Hsz' & Hfr).
    { rewrite T2. apply HW. } { exact G. } { intros _. exact Hn. } { rewrite T2. exact En. }
    exists s'. split; [exact E|]. split; [split; assumption|]. split; [exact Hhb'|].
    intro m. rewrite (lookup_abs hr c s' m HI'). unfold look. rewrite Hfr. rewrite T2. change (db s) with (db s).
    rewrite (del_kids_below _ n d Hrows G Hn).
    assert (Ek : (if r_tf d =? TypeDir then filter (fun x => live x && below n (r_name x)) (rows (db s)) else []) = []).
    { destruct (r_tf d =? TypeDir); [|reflexivity]. cbn [andb] in Hempty. apply filter_all_false.
      intros x Hx. destruct (live x && below n (r_name x)) eqn:K; [|reflexivity].
      assert (existsb (fun r => live r && below n (r_name r)) (rows (db s)) = true); [|congruence].
      apply existsb_exists. exists x. split; assumption. }
    rewrite Ek. cbn [map gone existsb]. rewrite Hrn, orb_false_r.
    rewrite lookup_ns_del, (lookup_abs hr c s m HI). destruct (eqb_str m n); reflexivity. }
  destruct (r_tf d =? TypeDir) eqn:Ed; cbn [andb].
  - rewrite (inv_list_exact hr (db s) n HL G Hn). rewrite set_db_same.
    pose proof (listed_nil_iff hr (db s) n HL Hclr G Hn) as Hiff. change (db s) with (db s) in Hiff.
    destruct (existsb (fun r => live r && below n (r_name r)) (rows (db s))) eqn:Eb.
    + destruct (listed (db s) n) as [|x0 t0] eqn:El.
      * exfalso. change (db s) with (db s) in El. apply existsb_exists in Eb as (x & Hx & K). apply andb_true_iff in K as [K1 K2].
        rewrite (proj1 Hiff eq_refl x Hx K1) in K2. discriminate.
      * cbn [map]. exists s. split; [reflexivity|]. apply same_state; assumption.
    + assert (El : listed (db s) n = []).
      { apply Hiff. intros x Hx Lx. destruct (below n (r_name x)) eqn:K; [|reflexivity].
        assert (existsb (fun r => live r && below n (r_name r)) (rows (db s)) = true); [|congruence].
        apply existsb_exists. exists x. split; [exact Hx|]. rewrite Lx, K. reflexivity. }
      rewrite El. cbn [map].
      destruct (DEL s eq_refl eq_refl eq_refl) as (s' & E & A & B & C); [reflexivity|].
      rewrite E. exists s'. split; [reflexivity|]. split; [exact A|split; assumption].
  - destruct (DEL s eq_refl eq_refl eq_refl) as (s' & E & A & B & C); [reflexivity|].
    rewrite E. exists s'. split; [reflexivity|]. split; [exact A|split; assumption].
Qed.

Theorem T02_remove_all s n : Wf hr c s -> closed (abs s) -> hbok s -> good n -> n <> [slash] ->
  exists s', step c s (CRemoveAll n) = (s', snd (spec_remove_all (abs s) n)) /\
    Wf hr c s' /\ hbok s' /\ ns_eq (abs s') (fst (spec_remove_all (abs s) n)).
Proof.
  intros HW Hcl Hhb G Hn. pose proof (wf_inv hr c s HW) as HI. pose proof HI as HI0.
  pose proof (iv_li hr c s HI0) as HL.
  assert (Hrows : Forall rowok (rows (db s))) by apply HL.
  assert (Hnd : NoDup (map r_name (rows (db s)))) by apply HL.
  assert (Hclr : closed_rows (rows (db s))) by (apply (closed_absp hr (db s) HL); exact Hcl).
  cbn [step]. unfold fs_removeall. rewrite Hro, (path_clean_good n G).
  unfold spec_remove_all. rewrite (lookup_abs hr c s _ HI). unfold look.
  destruct (find_rows (rows (db s)) n) as [d|] eqn:En; cbn [option_map].
  2:{ unfold delete_op. rewrite (lookup_entry_lv hr (db s) n HL G). change (db s) with (db s). rewrite En.
      cbn [outc_of_res]. change (set_db s (db s)) with (set_db s (db s)). rewrite set_db_same.
      exists s. split; [reflexivity|]. apply same_state; assumption. }
  destruct (find_rows_link hr (db s) n d HL En) as (Hk & Hrn & Hok).
  destruct (delete_exact hr c HP Hrs s n d HI0 Hhb) as (s' & E & HI' & Hhb' & Hsz' & Hfr).
  { apply HW. } { exact G. } { intros _. exact Hn. } { exact En. }
  rewrite E. exists s'. split; [reflexivity|]. split; [split; assumption|]. split; [exact Hhb'|].
  intro m. cbn [fst snd]. rewrite (lookup_abs hr c s' m HI'). unfold look. rewrite Hfr. change (db s) with (db s).
  rewrite (lookup_filter (fun x => eqb_str x n || below n x)), (lookup_abs hr c s m HI). unfold look.
  rewrite (del_kids_below _ n d Hrows G Hn). cbn [map gone existsb]. rewrite Hrn.
  destruct (eqb_str m n) eqn:Emn; cbn [orb]; [reflexivity|].
  destruct (find_rows (rows (db s)) m) as [x|] eqn:Em.
  2:{ destruct (existsb (eqb_str m) _), (below n m); reflexivity. }
  destruct (below n m) eqn:Eb.
  - (* a live entry below n: n is a directory (tree), so Delete selected it *)
    destruct (Hclr m x Em n G Eb) as (pd & Hpd & Hdir). rewrite En in Hpd. inversion Hpd; subst pd.
    rewrite Hdir. change (TypeDir =? TypeDir) with true. cbn iota.
    change (existsb (eqb_str m) (map r_name (filter (fun x => live x && below n (r_name x)) (rows (db s)))))
      with (gone (map r_name (filter (fun x => live x && below n (r_name x)) (rows (db s)))) m).
    rewrite gone_filter by exact Hnd.
    rewrite find_rows_byname in Em by exact Hnd. destruct (byname (rows (db s)) m) as [y|] eqn:Ey; [|discriminate].
    destruct (live y) eqn:Ly; [|discriminate]. inversion Em; subst y.
    apply byname_some in Ey as (_ & Ey). rewrite Ey, Eb. reflexivity.
  - (* not below n: not selected *)
    assert (K : existsb (eqb_str m) (map r_name (if r_tf d =? TypeDir
                 then filter (fun x => live x && below n (r_name x)) (rows (db s)) else [])) = false).
    { destruct (r_tf d =? TypeDir); [|reflexivity].
      change (gone (map r_name (filter (fun x => live x && below n (r_name x)) (rows (db s)))) m = false).
      rewrite gone_filter by exact Hnd. destruct (byname (rows (db s)) m) as [y|] eqn:Ey; [|reflexivity].
      apply byname_some in Ey as (_ & Ey). rewrite Ey, Eb. apply andb_false_r. }
    rewrite K. reflexivity.
Qed.
End Calls.
