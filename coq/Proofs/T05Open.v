(* T05 / opening a filesystem over an existing tape (C16, faithfulness half).
   [fs_initialize] over a tape whose rebuild succeeds appends NOTHING, whatever index it is handed: an index that
   knows a root is left alone; otherwise the index becomes exactly the rebuild of the tape.
   For tapes written by filesystem-level histories (hypotheses of C01_rows_rebuilt_are_live_rows_any_config, ANY
   configuration):
   (1) over an ABSENT index: nothing appended, the rows are the rows of [rebuild] = [map norm_row] of the rows of
       the instance that wrote the tape; the outcome is OOk iff some entry is live;
   (2) over the CURRENT index reopened ([p_open]): nothing appended, rows untouched; when the root was never
       removed ([call_ok]) the reopened index IS the writer's index and Initialize returns the writer's state;
   (3) continuation: from (2) a later history is the longer history of the writer, so every history theorem applies
       ([T05_continue_current]); from (1) the statements that hold for all states apply (shape, append-only,
       positions: [T05_continue_rebuilt]); the C01 invariant itself is stated for the absolute spelling only. *)
From Coq Require Import List NArith ZArith Bool Lia.
From Coq Require Import ZifyN ZifyBool.
Import ListNotations.
From STFS Require Import Str Db Tape Index Ops Fs Diff Norm TapeLemmas Append
  C01Str C01Db C01Inv C01Sim C01Tape C01Hdr C01Ops C01Ops2 C01Reads C01Fs C01Fs2 C01Rows
  C04Db C04Index C04Fs C04Inv
  TcfgSim TcfgOps TcfgFs TcfgHist TcfgThms T05Shape.
Open Scope N_scope.

(* ---------- Initialize over any tape whose rebuild succeeds *)

Lemma index_tape_is_rebuild c t p0 : index_tape c t 0 0 None true false p0 = rebuild c t.
Proof. reflexivity. Qed.

Theorem T05_initialize_over_rebuildable_tape : forall c s rootp p,
  tp s <> [] -> rebuild c (tp s) = (p, Ok tt) ->
  fs_initialize c s rootp =
    match snd (get_root_path (db s)) with
    | Some _ => (set_db s (fst (get_root_path (db s))), OOk)
    | None => (set_db s (fst (get_root_path p)), match snd (get_root_path p) with Some _ => OOk | None => OOther 30 end)
    end.
Proof.
  intros c s rootp p Ht Hr. unfold fs_initialize. destruct (get_root_path (db s)) as [p0 [r|]]; cbn [fst snd]; [reflexivity|].
  change (tp (set_db s p0)) with (tp s). change (db (set_db s p0)) with p0. rewrite index_tape_is_rebuild, Hr.
  destruct (tp s) as [|i t]; [contradiction|]. destruct (get_root_path p) as [p' rr]. reflexivity.
Qed.

Corollary T05_initialize_over_rebuildable_tape_appends_nothing : forall c s rootp p,
  tp s <> [] -> rebuild c (tp s) = (p, Ok tt) ->
  tp (fst (fs_initialize c s rootp)) = tp s /\
  (rows (db (fst (fs_initialize c s rootp))) = rows (db s) \/ rows (db (fst (fs_initialize c s rootp))) = rows p).
Proof.
  intros c s rootp p Ht Hr. rewrite (T05_initialize_over_rebuildable_tape c s rootp p Ht Hr).
  destruct (snd (get_root_path (db s))); cbn [fst tp db set_db]; (split; [reflexivity|]).
  - left. apply get_root_path_rows.
  - right. apply get_root_path_rows.
Qed.

(* ---------- the state a filesystem-level history leaves *)

Lemma live_norm_row r : live (norm_row r) = live r.
Proof. reflexivity. Qed.

Lemma existsb_live_NR l : existsb live (NR l) = existsb live l.
Proof. unfold NR. induction l as [|r l IH]; [reflexivity|]. cbn [map existsb]. rewrite IH. reflexivity. Qed.

Lemma min_depth_row_none l : forall b, min_depth_row l b = None <-> (l = [] /\ b = None).
Proof.
  induction l as [|r t IH]; intro b; cbn [min_depth_row]; [split; [intro H; split; [reflexivity|exact H]|intros [_ H]; exact H]|].
  destruct b as [b|].
  - destruct (slash_count (r_name r) <? slash_count (r_name b)); rewrite IH; split; intros [_ H]; discriminate H.
  - rewrite IH. split; intros [H1 H]; [discriminate H|discriminate H1].
Qed.

Lemma min_depth_row_in l : forall b x, min_depth_row l b = Some x -> In x l \/ b = Some x.
Proof.
  induction l as [|r t IH]; intros b x H; cbn [min_depth_row] in H; [right; exact H|].
  destruct b as [b|].
  - destruct (slash_count (r_name r) <? slash_count (r_name b)).
    + destruct (IH _ _ H) as [K|K]; [left; right; exact K|left; left; congruence].
    + destruct (IH _ _ H) as [K|K]; [left; right; exact K|right; exact K].
  - destruct (IH _ _ H) as [K|K]; [left; right; exact K|left; left; congruence].
Qed.

(* a root is found in an index without a cached root iff some row is live *)
Lemma get_root_path_uncached p : root p = [] ->
  (snd (get_root_path p) = None <-> existsb live (rows p) = false).
Proof.
  intro Hr. unfold get_root_path. rewrite Hr.
  destruct (min_depth_row (filter live (rows p)) None) as [r|] eqn:E; cbn [snd].
  - split; [discriminate|]. intro H. exfalso.
    assert (filter live (rows p) = []) as F.
    { clear E. induction (rows p) as [|x l IH]; [reflexivity|]. cbn [existsb] in H. apply orb_false_iff in H as [H1 H2].
      cbn [filter]. rewrite H1. apply IH. exact H2. }
    rewrite F in E. discriminate.
  - split; [|reflexivity]. intros _. apply min_depth_row_none in E as [E _].
    induction (rows p) as [|x l IH]; [reflexivity|]. cbn [filter] in E. cbn [existsb].
    destruct (live x); [discriminate|]. apply IH. exact E.
Qed.

Lemma get_root_path_cached p : root p <> [] -> get_root_path p = (p, Some (root p)).
Proof. intro H. unfold get_root_path. destruct (root p); [contradiction|reflexivity]. Qed.

Lemma p_open_dead l : existsb live l = false -> p_open l = {| rows := l; root := []; root_empty := false |}.
Proof.
  intro H. pose proof (get_root_path_uncached {| rows := l; root := []; root_empty := false |} eq_refl) as G. cbn [rows] in G.
  apply G in H. unfold p_open, get_root_path in *. cbn [root rows] in *.
  destruct (min_depth_row (filter live l) None); [discriminate H|reflexivity].
Qed.

Lemma p_open_live l : existsb live l = true -> (forall x, In x l -> r_name x <> []) ->
  exists rt, rt <> [] /\ p_open l = {| rows := l; root := rt; root_empty := false |}.
Proof.
  intros H Hn. pose proof (get_root_path_uncached {| rows := l; root := []; root_empty := false |} eq_refl) as G. cbn [rows] in G.
  unfold p_open, get_root_path in *. cbn [root rows] in *.
  destruct (min_depth_row (filter live l) None) as [x|] eqn:Em.
  - exists (r_name x). split; [|reflexivity]. apply Hn.
    destruct (min_depth_row_in _ _ _ Em) as [K|K]; [|discriminate K]. apply filter_In in K as [K _]. exact K.
  - cbn [snd] in G. assert (K : true = false) by (rewrite <- H; apply G; reflexivity). discriminate K.
Qed.

Section Hist.
Variables (c : cfg) (e : env) (r : list (call * env)).
Hypothesis Hrs : 0 < c_rs c.
Hypothesis Hro : c_readonly c = false.
Hypothesis Hhb : forallb hb_ok ((CInitialize [slash], e) :: r) = true.
Hypothesis Hren : forallb (fun ke => rename_ok (fst ke)) r = true.
Hypothesis Hfs : forallb (fun ke => fs_call (fst ke)) r = true.

Let s := final c init_sys ((CInitialize [slash], e) :: r).

(* what the C01 development knows about the final state, transported to an arbitrary configuration *)
Lemma hist_state : safe true r = true ->
  exists hr p, LI hr (db s) /\ rebuild c (tp s) = (p, Ok tt) /\ R (db s) p /\ tp s <> [].
Proof.
  intro Hsafe. cbn [forallb] in Hhb. apply andb_true_iff in Hhb as [Hb0 Hb].
  pose proof (init_ok (plain_of c) Hrs Hro e Hb0) as H0.
  destruct (final_ok (plain_of c) (plain_of_plain c) Hrs Hro r true _ H0 Hfs Hren Hb Hsafe) as (hr' & HI & _).
  change (final (plain_of c) (fst (step (plain_of c) (with_env init_sys e) (CInitialize [slash]))) r)
    with (final (plain_of c) init_sys ((CInitialize [slash], e) :: r)) in HI.
  rewrite (final_hist_Pl c e r) in HI. fold s in HI.
  destruct (iv_reb _ _ _ HI) as (rb & E & HR). cbn [tp db Pl] in E, HR. rewrite rebuild_eff in E.
  exists hr', rb. split; [exact (iv_li _ _ _ HI)|]. split; [exact E|]. split; [exact HR|].
  destruct (iv_sync _ _ _ HI) as (pre & m & Et & _). cbn [tp Pl] in Et. intro K. rewrite K in Et. cbn in Et.
  destruct pre; discriminate.
Qed.

(* when the root is never removed the invariant holds with the root row known live and first *)
Lemma final_ok_kept r0 : forall s0, OKs true (plain_of c) s0 ->
  forallb (fun ke => fs_call (fst ke)) r0 = true ->
  forallb (fun ke => call_ok (fst ke)) r0 = true ->
  forallb hb_ok r0 = true ->
  OKs true (plain_of c) (final (plain_of c) s0 r0).
Proof.
  induction r0 as [|[k e0] r0 IH]; intros s0 HO H1 H2 H3; cbn [final]; [exact HO|].
  cbn [forallb fst] in H1, H2, H3.
  apply andb_true_iff in H1 as [K1 H1]. apply andb_true_iff in H2 as [K2 H2]. apply andb_true_iff in H3 as [K3 H3].
  unfold call_ok in K2. apply andb_true_iff in K2 as [K2a K2b].
  assert (HO' : OKs true (plain_of c) (with_env s0 e0)).
  { split; [eapply Inv_ext; [| |exact (proj1 HO)]; reflexivity|apply (hbok_env (plain_of c) Hrs); exact K3]. }
  destruct (step_ok true (plain_of c) (plain_of_plain c) Hrs Hro (with_env s0 e0) k HO' K1 K2a (fun _ => K2b) (fun _ => eq_refl))
    as (s' & o & E & A).
  rewrite E. cbn [fst]. apply IH; assumption.
Qed.

Lemma hist_state_kept : forallb (fun ke => call_ok (fst ke)) r = true ->
  exists p, LI true (db s) /\ rebuild c (tp s) = (p, Ok tt) /\ R (db s) p /\ tp s <> [].
Proof.
  intro Hok. cbn [forallb] in Hhb. apply andb_true_iff in Hhb as [Hb0 Hb].
  pose proof (init_ok (plain_of c) Hrs Hro e Hb0) as H0.
  pose proof (final_ok_kept r _ H0 Hfs Hok Hb) as [HI _].
  change (final (plain_of c) (fst (step (plain_of c) (with_env init_sys e) (CInitialize [slash]))) r)
    with (final (plain_of c) init_sys ((CInitialize [slash], e) :: r)) in HI.
  rewrite (final_hist_Pl c e r) in HI. fold s in HI.
  destruct (iv_reb _ _ _ HI) as (rb & E & HR). cbn [tp db Pl] in E, HR. rewrite rebuild_eff in E.
  exists rb. split; [exact (iv_li _ _ _ HI)|]. split; [exact E|]. split; [exact HR|].
  destruct (iv_sync _ _ _ HI) as (pre & m & Et & _). cbn [tp Pl] in Et. intro K. rewrite K in Et. cbn in Et.
  destruct pre; discriminate.
Qed.

(* (1) an ABSENT index: nothing is appended; the new index is the rebuild of the tape (with its root cached), whose
       rows are the normalised rows of the writer; the call succeeds iff some entry is live *)
Theorem T05_open_absent_index : safe true r = true -> forall rootp q1 q2 k,
  let s0 := {| tp := tp s; db := p_empty; hbq := q1; encq := q2; clk := k |} in
  exists p, rebuild c (tp s) = (p, Ok tt) /\ rows p = map norm_row (rows (db s)) /\
    tp (fst (fs_initialize c s0 rootp)) = tp s /\
    db (fst (fs_initialize c s0 rootp)) = fst (get_root_path p) /\
    rows (db (fst (fs_initialize c s0 rootp))) = map norm_row (rows (db s)) /\
    snd (fs_initialize c s0 rootp) = (if existsb live (rows (db s)) then OOk else OOther 30).
Proof.
  intros Hsafe rootp q1 q2 k s0. destruct (hist_state Hsafe) as (hr & p & HL & E & HR & Ht).
  exists p. split; [exact E|]. split; [apply HR|].
  rewrite (T05_initialize_over_rebuildable_tape c s0 rootp p Ht E).
  change (get_root_path (db s0)) with (p_empty, @None str). cbn [fst snd tp db set_db].
  split; [reflexivity|]. split; [reflexivity|]. split; [rewrite get_root_path_rows; apply HR|].
  pose proof (get_root_path_uncached p (r_root _ _ HR)) as G. rewrite (r_rows _ _ HR), existsb_live_NR in G.
  destruct (existsb live (rows (db s))); destruct (snd (get_root_path p)) as [l|]; try reflexivity.
  - exfalso. assert (K : true = false) by (apply G; reflexivity). discriminate K.
  - exfalso. assert (K : Some l = None) by (apply G; reflexivity). discriminate K.
Qed.

(* (2) the CURRENT index reopened: nothing is appended.  If some entry is live the reopened index caches a root and
       Initialize leaves it alone; if every entry was removed (the root included) the reopened index has no root and
       Initialize replaces it by the rebuild of the tape, whose rows are the normalised rows *)
Theorem T05_open_current_index : safe true r = true -> forall rootp,
  let s0 := set_db s (p_open (rows (db s))) in
  tp (fst (fs_initialize c s0 rootp)) = tp s /\
  (if existsb live (rows (db s))
   then fs_initialize c s0 rootp = (s0, OOk)
   else rows (db (fst (fs_initialize c s0 rootp))) = map norm_row (rows (db s)) /\ snd (fs_initialize c s0 rootp) = OOther 30).
Proof.
  intros Hsafe rootp s0. destruct (hist_state Hsafe) as (hr & p & HL & E & HR & Ht).
  rewrite (T05_initialize_over_rebuildable_tape c s0 rootp p Ht E).
  change (db s0) with (p_open (rows (db s))).
  destruct (existsb live (rows (db s))) eqn:Lv.
  - destruct (p_open_live (rows (db s)) Lv) as (rt & Hrt & Ep).
    { intros x Hx. apply good_nonempty. pose proof (li_ll _ _ HL) as [Hrows _ _]. rewrite Forall_forall in Hrows. apply (Hrows x Hx). }
    rewrite (get_root_path_cached (p_open (rows (db s)))) by (rewrite Ep; exact Hrt).
    cbn [fst snd]. split; reflexivity.
  - rewrite (p_open_dead _ Lv).
    assert (K : get_root_path {| rows := rows (db s); root := []; root_empty := false |} =
                ({| rows := rows (db s); root := []; root_empty := false |}, None)).
    { pose proof (get_root_path_uncached {| rows := rows (db s); root := []; root_empty := false |} eq_refl) as G.
      cbn [rows] in G. apply G in Lv. unfold get_root_path in *. cbn [root rows] in *.
      destruct (min_depth_row (filter live (rows (db s))) None); [discriminate Lv|reflexivity]. }
    rewrite K. cbn [fst snd set_db tp db].
    split; [reflexivity|].
    split; [rewrite get_root_path_rows; apply HR|].
    pose proof (get_root_path_uncached p (r_root _ _ HR)) as G2. rewrite (r_rows _ _ HR), existsb_live_NR in G2.
    apply G2 in Lv. rewrite Lv. reflexivity.
Qed.

(* (2') when the root was never removed: the reopened index IS the writer's index, Initialize over it returns the
        writer's state, and Initialize over an absent index succeeds *)
Theorem T05_open_current_index_kept : forallb (fun ke => call_ok (fst ke)) r = true ->
  p_open (rows (db s)) = db s /\
  forall rootp, fs_initialize c (set_db s (p_open (rows (db s)))) rootp = (s, OOk).
Proof.
  intro Hok. destruct (hist_state_kept Hok) as (p & HL & E & HR & Ht).
  pose proof (p_open_lv (db s) HL) as Ep. split; [exact Ep|]. intro rootp. rewrite Ep, set_db_same.
  unfold fs_initialize. rewrite (get_root_path_lv true (db s) HL), set_db_same. reflexivity.
Qed.

Theorem T05_open_absent_index_kept : forallb (fun ke => call_ok (fst ke)) r = true -> forall rootp q1 q2 k,
  let s0 := {| tp := tp s; db := p_empty; hbq := q1; encq := q2; clk := k |} in
  tp (fst (fs_initialize c s0 rootp)) = tp s /\
  rows (db (fst (fs_initialize c s0 rootp))) = map norm_row (rows (db s)) /\
  snd (fs_initialize c s0 rootp) = OOk.
Proof.
  intros Hok rootp q1 q2 k s0. destruct (call_ok_safe r Hok) as (Hsafe & _).
  destruct (T05_open_absent_index Hsafe rootp q1 q2 k) as (p & _ & _ & A & _ & B & C). fold s0 in A, B, C.
  split; [exact A|]. split; [exact B|]. rewrite C.
  destruct (hist_state_kept Hok) as (p' & HL & _).
  destruct (ll_head _ _ (li_ll _ _ HL) eq_refl) as (r0 & tl & El & _ & Hd). rewrite El. cbn [existsb]. unfold live. rewrite Hd. reflexivity.
Qed.

End Hist.

(* (1') an index that is a REBUILD of the same tape (an earlier Initialize over an absent index, or `stfs index`):
        nothing is appended and the rows stay the rebuilt rows *)
Theorem T05_open_rebuilt_index : forall c e r, 0 < c_rs c -> c_readonly c = false ->
  forallb hb_ok ((CInitialize [slash], e) :: r) = true ->
  forallb (fun ke => rename_ok (fst ke)) r = true ->
  forallb (fun ke => fs_call (fst ke)) r = true ->
  safe true r = true ->
  let s := final c init_sys ((CInitialize [slash], e) :: r) in
  forall rootp, let s0 := set_db s (fst (rebuild c (tp s))) in
  tp (fst (fs_initialize c s0 rootp)) = tp s /\
  rows (db (fst (fs_initialize c s0 rootp))) = map norm_row (rows (db s)).
Proof.
  intros c e r Hrs Hro Hhb Hren Hfs Hsafe s rootp s0.
  destruct (hist_state c e r Hrs Hro Hhb Hren Hfs Hsafe) as (hr & p & HL & E & HR & Ht). fold s in HL, E, HR, Ht.
  rewrite (T05_initialize_over_rebuildable_tape c s0 rootp p Ht E).
  change (db s0) with (fst (rebuild c (tp s))). rewrite E. cbn [fst].
  destruct (snd (get_root_path p)); cbn [fst tp db set_db]; (split; [reflexivity|]); rewrite get_root_path_rows; apply HR.
Qed.

(* ---------- (3) continuation *)

Lemma final_app c : forall h1 h2 s, final c s (h1 ++ h2) = final c (final c s h1) h2.
Proof. induction h1 as [|[k e] h1 IH]; intros h2 s; cbn [app final]; [reflexivity|apply IH]. Qed.

Lemma forallb_app_true {A} (f : A -> bool) l1 l2 : forallb f l1 = true -> forallb f l2 = true -> forallb f (l1 ++ l2) = true.
Proof. intros H1 H2. rewrite forallb_app, H1, H2. reflexivity. Qed.

(* from the reopened CURRENT index (root never removed): the instance continues exactly as the writer would have;
   a later history is the longer history of the writer, so every theorem about histories applies to it *)
Theorem T05_continue_current : forall c e r, 0 < c_rs c -> c_readonly c = false ->
  forallb hb_ok ((CInitialize [slash], e) :: r) = true ->
  forallb (fun ke => call_ok (fst ke)) r = true ->
  forallb (fun ke => fs_call (fst ke)) r = true ->
  let s := final c init_sys ((CInitialize [slash], e) :: r) in
  forall r2, final c (set_db s (p_open (rows (db s)))) r2 = final c init_sys (((CInitialize [slash], e) :: r) ++ r2).
Proof.
  intros c e r Hrs Hro Hhb Hok Hfs s r2. destruct (call_ok_safe r Hok) as (_ & Hren).
  destruct (T05_open_current_index_kept c e r Hrs Hro Hhb Hfs Hok) as (Ep & _). fold s in Ep.
  rewrite Ep, set_db_same, final_app. reflexivity.
Qed.

(* for instance the C01 statement for the continuation (Initialize "/" again, then more filesystem-level calls) *)
Corollary T05_continue_current_C01 : forall c e r e1 r2, 0 < c_rs c -> c_readonly c = false ->
  forallb hb_ok ((CInitialize [slash], e) :: r) = true ->
  forallb (fun ke => call_ok (fst ke)) r = true ->
  forallb (fun ke => fs_call (fst ke)) r = true ->
  forallb hb_ok ((CInitialize [slash], e1) :: r2) = true ->
  forallb (fun ke => call_ok (fst ke)) r2 = true ->
  forallb (fun ke => fs_call (fst ke)) r2 = true ->
  let s := final c init_sys ((CInitialize [slash], e) :: r) in
  let s' := final c (set_db s (p_open (rows (db s)))) ((CInitialize [slash], e1) :: r2) in
  exists p, rebuild c (tp s') = (p, Ok tt) /\ rows p = map norm_row (rows (db s')).
Proof.
  intros c e r e1 r2 Hrs Hro Hhb Hok Hfs Hhb2 Hok2 Hfs2 s s'.
  unfold s'. rewrite (T05_continue_current c e r Hrs Hro Hhb Hok Hfs). cbn [app].
  apply (C01_rows_norm_root_kept_any_config c e (r ++ (CInitialize [slash], e1) :: r2) Hrs Hro).
  - cbn [forallb] in Hhb |- *. apply andb_true_iff in Hhb as [A B]. rewrite A. cbn [andb]. apply forallb_app_true; assumption.
  - apply forallb_app_true; [exact Hok|]. cbn [forallb fst]. rewrite Hok2. reflexivity.
  - apply forallb_app_true; [exact Hfs|]. cbn [forallb fst fs_call]. rewrite Hfs2. reflexivity.
Qed.

(* from the REBUILT index (Initialize over an absent index): the statements that need no hypothesis on the state
   apply to every later history -- the tape stays a sequence of archives extending the writer's tape, and every
   row keeps designating records (C04).  The C01 / T02 / T13 invariants ([LI]: cached root "/", cleaned ABSOLUTE
   names) are stated for the spelling of an instance that created its root itself; the rebuilt index caches the
   root "" and stores names without the leading slash, so they do not apply as stated (T05OpenDemo.v shows by
   computation that outcomes, views and tape lengths of the two continuations agree, and where the rows differ). *)
Theorem T05_continue_rebuilt : forall c t q1 q2 k rootp h, 0 < c_rs c -> archives t ->
  let s0 := {| tp := t; db := p_empty; hbq := q1; encq := q2; clk := k |} in
  let s' := final c (fst (fs_initialize c s0 rootp)) h in
  archives (tp s') /\ (exists l, Forall nonempty l /\ tp s' = t ++ archs l) /\
  C04Inv.pos_wf c s' /\ C04Inv.pos_ord c s'.
Proof.
  intros c t q1 q2 k rootp h Hrs Ha s0 s'.
  assert (A1 : exists l, Forall nonempty l /\ tp s' = t ++ archs l).
  { destruct (T05_step_appends_archives c s0 (CInitialize rootp)) as (l1 & H1 & E1).
    destruct (T05_final_appends_archives c h (fst (fs_initialize c s0 rootp))) as (l2 & H2 & E2).
    exists (l1 ++ l2). split; [apply Forall_app; split; assumption|]. unfold s'. rewrite E2.
    cbn [step] in E1. rewrite E1. cbn [tp s0]. rewrite archs_app, app_assoc. reflexivity. }
  split; [|split; [exact A1|]].
  - destruct Ha as (l0 & H0 & ->). destruct A1 as (l & Hl & E). exists (l0 ++ l). split; [apply Forall_app; split; assumption|].
    rewrite E, archs_app. reflexivity.
  - split.
    + unfold s'. apply C04Inv.C04_pos_wf_final; [exact Hrs|]. apply (C04Inv.C04_pos_wf_step c s0 (CInitialize rootp) Hrs). intros x [].
    + unfold s'. apply C04Inv.C04_pos_ord_final; [exact Hrs|]. apply (C04Inv.C04_pos_ord_step c s0 (CInitialize rootp) Hrs). intros x [].
Qed.

Print Assumptions T05_open_absent_index.
Print Assumptions T05_open_current_index.
Print Assumptions T05_open_current_index_kept.
Print Assumptions T05_open_rebuilt_index.
Print Assumptions T05_continue_current_C01.
Print Assumptions T05_continue_rebuilt.

(* ---------- what the reopened instance SHOWS: the visible tree depends on the tape and the index only, so the instance
   reopened on the current index (root never removed) shows exactly the tree the writer showed (the "reopen" half of the
   C01 statement at the level of views; the "rebuild" half needs the reads on the relative spelling, see (3)) *)
Lemma read_path_ext c s1 s2 path : tp s1 = tp s2 -> db s1 = db s2 -> snd (read_path c s1 path) = snd (read_path c s2 path).
Proof.
  intros Et Ed. unfold read_path. rewrite Et, Ed.
  destruct (get_header (db s2) (trim_suffix [slash] path)) as [p [d| | |e]]; cbn [snd].
  - destruct (fetch_at c (tp s2) (r_rec d) (r_blk d)); reflexivity.
  - destruct (get_header p (trim_suffix [slash] path ++ [slash])) as [p2 [d| | |e]]; cbn [snd]; try reflexivity.
    destruct (fetch_at c (tp s2) (r_rec d) (r_blk d)); reflexivity.
  - reflexivity.
  - reflexivity.
Qed.

Lemma entry_of_ext c s1 s2 path h : tp s1 = tp s2 -> db s1 = db s2 -> entry_of c s1 path h = entry_of c s2 path h.
Proof.
  intros Et Ed. unfold entry_of. f_equal. destruct (tf_regular (h_tf h)); [|reflexivity].
  pose proof (read_path_ext c s1 s2 (h_name h) Et Ed) as K.
  destruct (read_path c s1 (h_name h)) as [a1 r1]. destruct (read_path c s2 (h_name h)) as [a2 r2]. cbn [snd] in K. subst r2. reflexivity.
Qed.

Lemma walk_ext c s1 s2 : tp s1 = tp s2 -> db s1 = db s2 -> forall fuel dir, walk fuel c s1 dir = walk fuel c s2 dir.
Proof.
  intros Et Ed. induction fuel as [|f IH]; intro dir; [reflexivity|]. cbn [walk]. rewrite Ed.
  destruct (inv_list (db s2) dir None) as [p [hs| | |e]]; try reflexivity.
  apply flat_map_ext. intro h. rewrite (entry_of_ext c s1 s2 _ h Et Ed). f_equal. destruct (h_tf h =? TypeDir); [apply IH|reflexivity].
Qed.

Theorem view_ext c s1 s2 : tp s1 = tp s2 -> db s1 = db s2 -> view c s1 = view c s2.
Proof.
  intros Et Ed. unfold view, stat_s. rewrite Ed. destruct (inv_stat (db s2) [slash] false) as [p [h| | |e]]; try reflexivity.
  rewrite (entry_of_ext c s1 s2 _ h Et Ed). f_equal. destruct (h_tf h =? TypeDir); [apply walk_ext; assumption|reflexivity].
Qed.

Theorem T05_reopened_shows_the_same_tree : forall c e r, 0 < c_rs c -> c_readonly c = false ->
  forallb hb_ok ((CInitialize [slash], e) :: r) = true ->
  forallb (fun ke => fs_call (fst ke)) r = true ->
  forallb (fun ke => call_ok (fst ke)) r = true ->
  let s := final c init_sys ((CInitialize [slash], e) :: r) in
  forall rootp q1 q2 k,
  let s0 := {| tp := tp s; db := p_open (rows (db s)); hbq := q1; encq := q2; clk := k |} in
  fst (fs_initialize c s0 rootp) = s0 /\ snd (fs_initialize c s0 rootp) = OOk /\ view c s0 = view c s.
Proof.
  intros c e r Hrs Hro Hhb Hfs Hok s rootp q1 q2 k s0.
  destruct (T05_open_current_index_kept c e r Hrs Hro Hhb Hfs Hok) as (Ep & _). fold s in Ep.
  assert (HL : get_root_path (db s0) = (db s0, Some [slash])).
  { destruct (hist_state_kept c e r Hrs Hro Hhb Hfs Hok) as (p & HL & _). fold s in HL.
    change (db s0) with (p_open (rows (db s))). rewrite Ep. apply (get_root_path_lv true (db s) HL). }
  unfold fs_initialize. rewrite HL. split; [destruct s0; reflexivity|]. split; [reflexivity|].
  apply view_ext; [reflexivity|exact Ep].
Qed.

Print Assumptions T05_reopened_shows_the_same_tree.
