(* Tcfg / the FORMER counterexamples, now positive examples (regression tests of the repair of the writers).

   Before the repair, [Ops.encode] added the codec suffix to the name of every content record, also when the encoded
   size was 0 (zstandard emits nothing for empty content), while the indexer strips the suffix only from records
   whose tape size is > 0: such a record was indexed under its SUFFIXED name, the update it carried was lost (truncating
   an existing file to empty), the next call failed with "header missing", and the C01 statement failed.  These were
   compiled counterexamples to the *_any_config theorems without the (then necessary) hypothesis [enc_ok].
   After the repair (suffix added iff the encoded size is positive) writer and indexer agree for EVERY encoded size:
   [enc_ok] is gone from all theorems, and each former counterexample satisfies the conclusions.  No counterexample
   to the generalised statements remains (they are proved without any hypothesis on the environment's encoded sizes).

   (A) truncation to empty, no encoded size supplied (default = plain size = 0)
   (B) the environment supplies the encoded size 0 for non-empty content
   (C) a suffix with path syntax ("/..")
   (D) the call after (A) *)
From Coq Require Import String List NArith ZArith Bool.
Import ListNotations.
From STFS Require Import Str Db Tape Index Ops Fs Diff Norm C01Fs2 C01Rows C01Counter T04Def TcfgSim TcfgFs TcfgHist TcfgThms.
Open Scope string_scope.
Open Scope N_scope.

Definition cfs (a b : string) : cfg :=
  {| c_rs := 3; c_csuf := s a; c_esuf := s b; c_readonly := false; c_uid := 0; c_gid := 0;
     c_uname := s "root"; c_gname := s "0" |}.
Definition en (n : Z) : env := {| ev_hb := []; ev_enc := []; ev_now := n |}.      (* no encoded size supplied *)
Definition e33 (n : Z) : env := {| ev_hb := []; ev_enc := [33]; ev_now := n |}.   (* a positive one *)
Definition ez0 (n : Z) : env := {| ev_hb := []; ev_enc := [0]; ev_now := n |}.    (* encoded size 0 *)

Definition pre3 : list (call * env) :=
  [(CMkdir (s "/a") 493, en 2); (CCreateFile (s "/a/x") [(1, 0, 700)], e33 3)].

Definition size_of (st : sys) (n : str) : option N :=
  option_map r_size (find (fun r => live r && eqb_str (r_name r) n) (rows (db st))).

(* ---------- (A) truncation to empty, no encoded size supplied *)
Definition r_A : list (call * env) := (pre3 ++ [(CCreateFile (s "/a/x") [], en 4)])%list.
Definition h_A := (CInitialize [slash], en 1) :: r_A.

Example truncate_to_empty_applied :
  let c := cfs ".gz" ".age" in
  forallb hb_ok h_A = true /\ forallb (fun ke => call_ok (fst ke)) r_A = true /\
  forallb (fun ke => fs_call (fst ke)) r_A = true /\
  (* the file was created with 700 bytes, then Create (= truncate) + Close: it is empty, as under the plain configuration *)
  size_of (final c init_sys h_A) (s "/a/x") = Some 0 /\
  content_of c (final c init_sys h_A) (s "/a/x") = Some [] /\
  size_of (final (plain_of c) init_sys h_A) (s "/a/x") = Some 0 /\
  (* the record of the truncation has encoded size 0 and carries the PLAIN name; the content record before it the suffixed one *)
  map (fun m => (h_name (m_hdr m), h_size (m_hdr m))) (skipn 3 (members_of (tp (final c init_sys h_A)))) =
    [(s "/a/x.gz.age", 33); (s "/a/x", 0)] /\
  eqb_list eqb_obs (run c init_sys h_A) (run (plain_of c) init_sys h_A) = true /\
  rows_norm_all c init_sys h_A = true.
Proof. cbn zeta. repeat split; vm_compute; reflexivity. Qed.

(* ---------- (B) the environment supplies the encoded size 0 for non-empty content *)
Definition r_B : list (call * env) := (pre3 ++ [(CCreateFile (s "/a/y") [(2, 0, 10)], ez0 4)])%list.
Definition h_B := (CInitialize [slash], en 1) :: r_B.

Example zero_encoded_size_applied :
  let c := cfs ".gz" ".age" in
  forallb hb_ok h_B = true /\ forallb (fun ke => call_ok (fst ke)) r_B = true /\
  forallb (fun ke => fs_call (fst ke)) r_B = true /\
  (* 10 bytes were written to the new file "/a/y": the index says 10 bytes (the PAX size record), as under the plain configuration *)
  size_of (final c init_sys h_B) (s "/a/y") = Some 10 /\
  content_of c (final c init_sys h_B) (s "/a/y") = Some [(2, 0, 10)] /\
  size_of (final (plain_of c) init_sys h_B) (s "/a/y") = Some 10 /\
  eqb_list eqb_obs (run c init_sys h_B) (run (plain_of c) init_sys h_B) = true /\
  rows_norm_all c init_sys h_B = true.
Proof. cbn zeta. repeat split; vm_compute; reflexivity. Qed.

(* ---------- (D) the call after the truncation succeeds, positions agree with the rebuild *)
Definition r_D : list (call * env) := (r_A ++ [(CMkdir (s "/b") 493, en 5)])%list.
Definition h_D := (CInitialize [slash], en 1) :: r_D.
Definition pos_of_row (st : sys) (n : str) : option (N * N) :=
  option_map (fun r => (r_rec r, r_blk r)) (find (fun r => eqb_str (r_name r) n) (rows (db st))).

Example call_after_truncation_ok :
  let c := cfs ".gz" ".age" in
  side c (en 1) r_D = true /\
  forallb hb_ok h_D = true /\ forallb (fun ke => call_ok (fst ke)) r_D = true /\
  map ob_out (run c init_sys h_D) = [OOk; OOk; OOk; OOk; OOk] /\
  pos_of_row (final c init_sys h_D) (s "/b") = Some (8, 2) /\
  option_map (fun r => (r_rec r, r_blk r))
    (find (fun r => eqb_str (r_name r) (s "b")) (rows (fst (rebuild c (tp (final c init_sys h_D)))))) = Some (8, 2) /\
  concl c h_D.
Proof.
  cbn zeta. split; [reflexivity|]. split; [reflexivity|]. split; [reflexivity|].
  split; [vm_compute; reflexivity|]. split; [vm_compute; reflexivity|]. split; [vm_compute; reflexivity|].
  (* an instance of the theorem *)
  apply (C01_rows_norm_root_kept_any_config (cfs ".gz" ".age") (en 1) r_D); reflexivity.
Qed.

(* ---------- (C) a suffix with path syntax: the C01 statement holds (instance of the theorem) *)
Example C01_slash_suffix_holds :
  let c := cfs "/.." "" in
  side c (en 1) r_D = true /\ concl c h_D /\ rows_norm_all c init_sys h_D = true /\
  eqb_list eqb_obs (run c init_sys h_D) (run (plain_of c) init_sys h_D) = true.
Proof.
  cbn zeta. split; [reflexivity|]. split; [|split; vm_compute; reflexivity].
  apply (C01_rows_norm_root_kept_any_config (cfs "/.." "") (en 1) r_D); reflexivity.
Qed.
