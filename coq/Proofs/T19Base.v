(* T19 / Base: elementary facts about the relations of T19Rel.v: Forall2 utilities, PAX records, conversions between
   rows and headers, the header transformers of the operations. *)
From Coq Require Import List NArith ZArith Bool Lia.
From Coq Require Import ZifyN ZifyBool.
Import ListNotations.
From STFS Require Import Str Db Tape Index Ops Fs Diff Norm C01Str C01Db C01Inv C01Hdr T19Rel.
Open Scope N_scope.

(* ---------- Forall2 *)
Lemma F2_filter {A B} (P : A -> B -> Prop) (f : A -> bool) (g : B -> bool) la lr :
  Forall2 P la lr -> (forall a r, In a la -> In r lr -> P a r -> f a = g r) -> Forall2 P (filter f la) (filter g lr).
Proof.
  induction 1 as [|a r la lr Har H IH]; intro Hfg; cbn [filter]; [constructor|].
  rewrite (Hfg a r (or_introl eq_refl) (or_introl eq_refl) Har).
  assert (K : Forall2 P (filter f la) (filter g lr)) by (apply IH; intros x y Hx Hy; apply Hfg; right; assumption).
  destruct (g r); [constructor; assumption|exact K].
Qed.

Lemma F2_existsb {A B} (P : A -> B -> Prop) (f : A -> bool) (g : B -> bool) la lr :
  Forall2 P la lr -> (forall a r, In a la -> In r lr -> P a r -> f a = g r) -> existsb f la = existsb g lr.
Proof.
  induction 1 as [|a r la lr Har H IH]; intro Hfg; cbn [existsb]; [reflexivity|].
  rewrite (Hfg a r (or_introl eq_refl) (or_introl eq_refl) Har). f_equal. apply IH. intros x y Hx Hy. apply Hfg; right; assumption.
Qed.

Lemma F2_map {A B A' B'} (P : A -> B -> Prop) (Q : A' -> B' -> Prop) (f : A -> A') (g : B -> B') la lr :
  Forall2 P la lr -> (forall a r, In a la -> In r lr -> P a r -> Q (f a) (g r)) -> Forall2 Q (map f la) (map g lr).
Proof.
  induction 1 as [|a r la lr Har H IH]; intro Hfg; cbn [map]; constructor.
  - apply Hfg; [left; reflexivity|left; reflexivity|exact Har].
  - apply IH. intros x y Hx Hy. apply Hfg; right; assumption.
Qed.

Lemma F2_map_eq {A B C} (P : A -> B -> Prop) (f : A -> C) (g : B -> C) la lr :
  Forall2 P la lr -> (forall a r, In a la -> In r lr -> P a r -> f a = g r) -> map f la = map g lr.
Proof.
  induction 1 as [|a r la lr Har H IH]; intro Hfg; cbn [map]; [reflexivity|]. f_equal.
  - apply Hfg; [left; reflexivity|left; reflexivity|exact Har].
  - apply IH. intros x y Hx Hy. apply Hfg; right; assumption.
Qed.

Lemma F2_in_l {A B} (P : A -> B -> Prop) la lr a : Forall2 P la lr -> In a la -> exists r, In r lr /\ P a r.
Proof.
  induction 1 as [|x y la lr Hxy H IH]; intro Hin; [contradiction|]. destruct Hin as [->|Hin].
  - exists y. split; [left; reflexivity|exact Hxy].
  - destruct (IH Hin) as (r & Hr & Pr). exists r. split; [right; exact Hr|exact Pr].
Qed.

Lemma F2_in_r {A B} (P : A -> B -> Prop) la lr r : Forall2 P la lr -> In r lr -> exists a, In a la /\ P a r.
Proof.
  induction 1 as [|x y la lr Hxy H IH]; intro Hin; [contradiction|]. destruct Hin as [->|Hin].
  - exists x. split; [left; reflexivity|exact Hxy].
  - destruct (IH Hin) as (a & Ha & Pa). exists a. split; [right; exact Ha|exact Pa].
Qed.

Lemma F2_length {A B} (P : A -> B -> Prop) la lr : Forall2 P la lr -> length la = length lr.
Proof. induction 1; cbn; congruence. Qed.

Lemma F2_snoc {A B} (P : A -> B -> Prop) la lr a r : Forall2 P la lr -> P a r -> Forall2 P (la ++ [a]) (lr ++ [r]).
Proof. intros H K. apply Forall2_app; [exact H|constructor; [exact K|constructor]]. Qed.

(* ---------- names *)
Lemma nrel_refl n : nrel n n.
Proof. left. reflexivity. Qed.
Lemma nrel_norm n : nrel n (norm_name n).
Proof. right. reflexivity. Qed.

Lemma norm_name_rel cs : is_abs (join_slash cs) = false -> norm_name (join_slash cs) = join_slash cs.
Proof. unfold norm_name, is_abs. destruct (join_slash cs) as [|c r]; [reflexivity|]. intros ->. reflexivity. Qed.

(* ---------- PAX records *)
Lemma vrel_refl k v : vrel k v v.
Proof. left. reflexivity. Qed.

Lemma pax_rel_refl p : pax_rel p p.
Proof. induction p as [|[k v] p IH]; constructor; [split; [reflexivity|apply vrel_refl]|exact IH]. Qed.

Lemma pax_get_rel k pa pr : pax_rel pa pr -> k <> K_replaces_name -> pax_get k pr = pax_get k pa.
Proof.
  induction 1 as [|[ka va] [kr vr] pa pr [Hk Hv] H IH]; intro Hne; cbn [pax_get]; [reflexivity|].
  cbn [fst snd] in Hk, Hv. subst kr. destruct (eqb_str k ka) eqn:E; [|apply IH; exact Hne].
  apply eqb_str_eq in E. subst ka. destruct Hv as [->|[K _]]; [reflexivity|contradiction].
Qed.

Lemma pax_get_rel_rn pa pr : pax_rel pa pr ->
  match pax_get K_replaces_name pa, pax_get K_replaces_name pr with
  | None, None => True
  | Some va, Some vr => nrel va vr
  | _, _ => False
  end.
Proof.
  induction 1 as [|[ka va] [kr vr] pa pr [Hk Hv] H IH]; cbn [pax_get]; [exact I|].
  cbn [fst snd] in Hk, Hv. subst kr. destruct (eqb_str K_replaces_name ka) eqn:E; [|exact IH].
  destruct Hv as [->|[_ ->]]; [left|right]; reflexivity.
Qed.

Lemma pax_set_rel k va vr pa pr : pax_rel pa pr -> vrel k va vr -> pax_rel (pax_set k va pa) (pax_set k vr pr).
Proof.
  intros H Hv. induction H as [|[ka xa] [kr xr] pa pr [Hk Hx] H IH]; cbn [pax_set].
  - constructor; [split; [reflexivity|exact Hv]|constructor].
  - cbn [fst snd] in Hk, Hx. subst kr. destruct (eqb_str k ka).
    + constructor; [split; [reflexivity|exact Hv]|exact H].
    + destruct (ltb_str k ka).
      * constructor; [split; [reflexivity|exact Hv]|]. constructor; [split; [reflexivity|exact Hx]|exact H].
      * constructor; [split; [reflexivity|exact Hx]|exact IH].
Qed.

Lemma pax_set_rel_eq k v pa pr : pax_rel pa pr -> pax_rel (pax_set k v pa) (pax_set k v pr).
Proof. intro H. apply pax_set_rel; [exact H|apply vrel_refl]. Qed.

Lemma pax_del_rel k pa pr : pax_rel pa pr -> pax_rel (pax_del k pa) (pax_del k pr).
Proof.
  intro H. unfold pax_del. apply F2_filter; [exact H|]. intros [ka xa] [kr xr] _ _ [Hk _]. cbn [fst] in *. subst kr. reflexivity.
Qed.

(* ---------- rows and headers *)
Lemma hrel_of_rowrel a r : rowrel a r -> hrel (hdr_of_row a) (hdr_of_row r).
Proof. intros []. constructor; cbn; try assumption. right. assumption. Qed.

Lemma rowrel_of_hrel a b c d ha hr n : hrel ha hr -> is_abs n = true ->
  rowrel (set_name (row_of_hdr a b c d ha) n) (set_name (row_of_hdr a b c d hr) (norm_name n)).
Proof. intros [] Hn. constructor; cbn; try assumption; reflexivity. Qed.

Lemma rowrel_set_lk a r x y d : rowrel a r -> rowrel (set_lk a x y d) (set_lk r x y d).
Proof. intros []. constructor; cbn; try assumption; reflexivity. Qed.

Lemma rowrel_set_name a r n : rowrel a r -> is_abs n = true -> rowrel (set_name a n) (set_name r (norm_name n)).
Proof. intros [] Hn. constructor; cbn; try assumption; reflexivity. Qed.

Lemma hrel_refl h : hrel h h.
Proof. constructor; try reflexivity; [apply nrel_refl|apply pax_rel_refl]. Qed.

Lemma hrel_wsn ha hr sz na nr : hrel ha hr -> nrel na nr -> hrel (with_size_name ha sz na) (with_size_name hr sz nr).
Proof. intros [] Hn. constructor; cbn; try assumption; reflexivity. Qed.

Lemma hrel_set_pax ha hr pa pr : hrel ha hr -> pax_rel pa pr -> hrel (set_pax ha pa) (set_pax hr pr).
Proof. intros [] Hp. constructor; cbn; assumption. Qed.

Lemma keep_size_rel ha hr : hrel ha hr -> pax_rel (keep_size ha) (keep_size hr).
Proof.
  intro H. unfold keep_size. rewrite (hr_size _ _ H).
  rewrite (pax_get_rel K_usize _ _ (hr_pax _ _ H)) by discriminate.
  destruct (0 <? h_size ha); [|exact (hr_pax _ _ H)].
  destruct (pax_get K_usize (h_pax ha)); [exact (hr_pax _ _ H)|]. apply pax_set_rel_eq. exact (hr_pax _ _ H).
Qed.

Lemma hrel_patch_mode m ha hr : hrel ha hr -> hrel (patch_mode m ha) (patch_mode m hr).
Proof. intros []. constructor; cbn; try assumption; reflexivity. Qed.
Lemma hrel_patch_owner u g ha hr : hrel ha hr -> hrel (patch_owner u g ha) (patch_owner u g hr).
Proof. intros []. constructor; cbn; try assumption; try reflexivity. congruence. Qed.
Lemma hrel_patch_times x y ha hr : hrel ha hr -> hrel (patch_times x y ha) (patch_times x y hr).
Proof. intros []. constructor; cbn; try assumption; try reflexivity. congruence. Qed.
Lemma hrel_stamp ha hr now : hrel ha hr -> hrel (stamp_mtime ha now) (stamp_mtime hr now).
Proof. intros []. constructor; cbn; try assumption; reflexivity. Qed.

(* the name test of the index on related rows *)
Lemma rowrel_name_eqb a r n : rowrel a r -> is_abs n = true ->
  eqb_str (r_name r) (norm_name n) = eqb_str (r_name a) n.
Proof. intros H Hn. rewrite (rr_name _ _ H). apply norm_eqb; [exact (rr_abs _ _ H)|exact Hn]. Qed.

Lemma rowrel_key_eq a r n k : rowrel a r -> is_abs n = true ->
  key_eq (norm_name n) k r = key_eq n k a.
Proof. intros H Hn. unfold key_eq. rewrite (rowrel_name_eqb a r n H Hn), (rr_link _ _ H). reflexivity. Qed.

Lemma rowrel_live a r : rowrel a r -> live r = live a.
Proof. intro H. unfold live. rewrite (rr_del _ _ H). reflexivity. Qed.

(* ---------- tape: positions and contents agree *)
Lemma irel_blocks a r : irel a r -> item_blocks r = item_blocks a.
Proof. intros [|x y []]; [reflexivity|]. cbn. congruence. Qed.

Lemma tape_rel_blocks a r : tape_rel a r -> tape_blocks r = tape_blocks a.
Proof.
  unfold tape_blocks. induction 1 as [|x y a r H _ IH]; cbn [fold_right]; [reflexivity|]. rewrite IH, (irel_blocks _ _ H). reflexivity.
Qed.

Definition srel (x : N * titem) (y : N * titem) : Prop := fst y = fst x /\ irel (snd x) (snd y).

Lemma with_starts_rel a r : tape_rel a r -> forall at_, Forall2 srel (with_starts a at_) (with_starts r at_).
Proof.
  induction 1 as [|x y a r H _ IH]; intro at_; cbn [with_starts]; constructor.
  - split; [reflexivity|exact H].
  - rewrite (irel_blocks _ _ H). apply IH.
Qed.

Lemma member_at_rel a r off : tape_rel a r ->
  match member_at a off, member_at r off with
  | Some x, Some y => mrel x y
  | None, None => True
  | _, _ => False
  end.
Proof.
  intro H. unfold member_at.
  assert (K : Forall2 srel (filter (fun p => fst p =? off) (with_starts a 0)) (filter (fun p => fst p =? off) (with_starts r 0))).
  { apply F2_filter; [apply with_starts_rel; exact H|]. intros x y _ _ [E _]. rewrite E. reflexivity. }
  destruct K as [|[o1 i1] [o2 i2] ? ? [_ Hi] _]; [exact I|]. cbn [snd] in Hi. destruct Hi; [exact I|assumption].
Qed.

Lemma fetch_at_rel c a r rec blk : tape_rel a r -> fetch_at c r rec blk = fetch_at c a rec blk.
Proof.
  intro H. unfold fetch_at. pose proof (member_at_rel a r (off_of (c_rs c) rec blk) H) as K.
  destruct (member_at a _) as [x|], (member_at r _) as [y|]; try contradiction; [|reflexivity].
  rewrite (mr_data _ _ K). reflexivity.
Qed.

Lemma members_from_rel a r from : tape_rel a r ->
  match members_from a from, members_from r from with
  | Some x, Some y => Forall2 (fun p q => fst q = fst p /\ mrel (snd p) (snd q)) x y
  | None, None => True
  | _, _ => False
  end.
Proof.
  intro H. unfold members_from. rewrite (tape_rel_blocks _ _ H).
  pose proof (with_starts_rel a r H 0) as W.
  rewrite (F2_existsb srel (fun p => fst p =? from) (fun p => fst p =? from) _ _ W)
    by (intros x y _ _ [E _]; rewrite E; reflexivity).
  destruct ((from =? tape_blocks a) || existsb (fun p => fst p =? from) (with_starts r 0)); [|exact I].
  induction W as [|[o1 i1] [o2 i2] wa wr [E Hi] _ IH]; cbn [flat_map]; [constructor|].
  cbn [fst snd] in *. subst o2. destruct Hi as [|x y Hm]; [exact IH|].
  destruct (from <=? o1); [|exact IH]. cbn [app]. constructor; [split; [reflexivity|exact Hm]|exact IH].
Qed.

(* ---------- last_indexed *)
Lemma last_indexed_rel pa pr rs : rows_rel (rows pa) (rows pr) -> last_indexed pr rs = last_indexed pa rs.
Proof.
  intro H. unfold last_indexed. generalize (0, 0). induction H as [|a r la lr Har _ IH]; intro best; cbn [fold_left]; [reflexivity|].
  rewrite (rr_lkrec _ _ Har), (rr_lkblk _ _ Har). apply IH.
Qed.
