(* T02 / tests: the statements of T02Spec.v evaluated with vm_compute on concrete states (every call
   kind, on every name of a list, in several reachable states) before they were proved. *)
From Coq Require Import String List NArith ZArith Bool.
Import ListNotations.
From STFS Require Import Str Db Tape Index Ops Fs Diff Norm C01Str T02Ns.
Open Scope string_scope.
Open Scope N_scope.

Definition tcfg : cfg := {| c_rs := 3; c_csuf := []; c_esuf := []; c_readonly := false; c_uid := 7; c_gid := 8;
                            c_uname := s "u"; c_gname := s "g" |}.
Definition e0 (n : Z) : env := {| ev_hb := []; ev_enc := []; ev_now := n |}.

(* the spec's answer for a call in the abstract state [a]; for CreateFile the content id is read off the result *)
Definition spec_of (c : cfg) (a a' : ns) (k : call) (now : Z) : option (ns * outc) :=
  match k with
  | CMkdir n perm => Some (spec_mkdir c a n perm now)
  | CMkdirAll n perm => Some (spec_mkdirall c a n perm now)
  | CRemove n => Some (spec_remove a n)
  | CRemoveAll n => Some (spec_remove_all a n)
  | CRename x y => Some (spec_rename a x y)
  | CChmod n m => Some (spec_chmod a n m)
  | CChown n u g => Some (spec_chown a n u g)
  | CChtimes n x y => Some (spec_chtimes a n x y)
  | CCreateFile n d => Some (spec_create_file c a n (clen d) now
                               (match lookup a' n with Some v => n_cid v | None => (0, 0) end))
  | _ => None
  end.

Definition check (c : cfg) (st : sys) (e : env) (k : call) : bool :=
  let '(st', o) := step c (with_env st e) k in
  match spec_of c (abs st) (abs st') k (ev_now e) with
  | Some (a, o') => ns_eqb (abs st') a && outc_eqb o o' && closedb (abs st')
  | None => false
  end.

Definition names : list str :=
  map s ["/"; "/a"; "/a/b"; "/a/b/c"; "/a/f"; "/a/f/x"; "/b"; "/c"; "/c/d"; "/a_"; "/a/bb"; "/ab"; "/q/r"; "/g"].

Definition calls_on (n : str) : list call :=
  [CMkdir n 493; CMkdirAll n 448; CRemove n; CRemoveAll n; CChmod n 384; CChown n 11 12; CChtimes n 5%Z 6%Z;
   CCreateFile n []; CCreateFile n [(1, 0, 10)]].
Definition renames : list call :=
  flat_map (fun x => map (fun y => CRename x y) names) names.
Definition all_calls : list call := flat_map calls_on names ++ renames.

Definition failing (c : cfg) (st : sys) : list call :=
  filter (fun k => negb (check c st (e0 99) k)) all_calls.

Definition h1 : list (call * env) :=
  [(CInitialize (s "/"), e0 1); (CMkdir (s "/a") 493, e0 2); (CCreateFile (s "/a/f") [(1, 0, 700)], e0 3);
   (CMkdir (s "/a/b") 493, e0 4); (CMkdir (s "/a/b/c") 493, e0 5); (CCreateFile (s "/b") [(2, 0, 10)], e0 6);
   (CMkdir (s "/c") 493, e0 7); (CCreateFile (s "/g") [], e0 8)].
(* with tombstones: removed and re-created names, a removed subtree *)
Definition h2 : list (call * env) :=
  h1 ++ [(CRemoveAll (s "/a/b"), e0 9); (CRemove (s "/b"), e0 10); (CMkdir (s "/b") 493, e0 11);
         (CRename (s "/c") (s "/a/b"), e0 12); (CChmod (s "/a/f") 256, e0 13)].
Definition h3 : list (call * env) := [(CInitialize (s "/"), e0 1)].

Definition st1 := final tcfg init_sys h1.
Definition st2 := final tcfg init_sys h2.
Definition st3 := final tcfg init_sys h3.

(* the calls on which model and reference differ: CreateFile WITHOUT content on an existing EMPTY regular file
   (T02Counter.v (2): nothing is written, the reference stamps the modification time); CreateFile on any other
   existing regular file agrees (the flush stamps the modification time).  [tcfg] has uid 7, gid 8, so CreateFile
   with content on a new name is tested with an identity that is not 0/0/""/"" *)
Definition is_corner (st : sys) (k : call) : bool :=
  match k with
  | CCreateFile n d => match lookup (abs st) n with
                       | Some v => negb (is_dir v) && (n_size v =? 0) && match d with [] => true | _ => false end
                       | None => false end
  | _ => false
  end.

(* every call of [all_calls] (9 call kinds on 14 names, and all 196 renames) that is not such a corner agrees with
   the reference in each of the three states, and every corner call disagrees (the modification time, T02Counter.v (2)) *)
Example test_st3 : forallb (fun k => is_corner st3 k || check tcfg st3 (e0 99) k) all_calls = true.
Proof. vm_compute. reflexivity. Qed.
Example test_st1 : forallb (fun k => is_corner st1 k || check tcfg st1 (e0 99) k) all_calls = true.
Proof. vm_compute. reflexivity. Qed.
Example test_st2 : forallb (fun k => is_corner st2 k || check tcfg st2 (e0 99) k) all_calls = true.
Proof. vm_compute. reflexivity. Qed.
Example test_corners_differ :
  forallb (fun st => forallb (fun k => negb (check tcfg st (e0 99) k)) (filter (is_corner st) all_calls)) [st1; st2; st3] = true /\
  map (fun st => length (filter (is_corner st) all_calls)) [st1; st2; st3] = [1; 1; 0]%nat.
Proof. vm_compute. split; reflexivity. Qed.
Example test_count : (length all_calls, closedb (abs st1), closedb (abs st2), closedb (abs st3)) = (322%nat, true, true, true).
Proof. vm_compute. reflexivity. Qed.
(* the same with the identity 0/0/""/"" *)
Definition rcfg : cfg := {| c_rs := 3; c_csuf := []; c_esuf := []; c_readonly := false; c_uid := 0; c_gid := 0;
                            c_uname := []; c_gname := [] |}.
Definition st1r := final rcfg init_sys h1.
Definition st2r := final rcfg init_sys h2.
Example test_st1_root : forallb (fun k => is_corner st1r k || check rcfg st1r (e0 99) k) all_calls = true.
Proof. vm_compute. reflexivity. Qed.
Example test_st2_root : forallb (fun k => is_corner st2r k || check rcfg st2r (e0 99) k) all_calls = true.
Proof. vm_compute. reflexivity. Qed.
