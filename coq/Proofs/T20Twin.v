(* T20 / Twin: the WRITER TWIN of an opened foreign archive (styles "./" and "/": stored root "").
   The twin is a state no STFS history produced: the same members in the same order at the same positions, its index
   holds the rows of the rebuilt index under ABSOLUTE names ("/" for the top entry, "/d/f" for the member d/f), cached
   root "/".  It is the state a writer instance would be in if it had the foreign members in its index.

   The tape of the twin.  [T19Rel.tape_rel] wants the reader's header name to be the writer's or [norm_name] of the
   writer's, and the C01 invariant [Inv] wants the rebuild of the writer's tape to end with the root-empty flag cached
   as soon as there is an entry besides the root (getSanitizedPath caches it at the first ABSOLUTE non-root name).
   - style "/"  : the members as they are ("/", "/d/", "/d/f": absolute already), the twin's tape IS the archive;
   - style "./" : the top entry as it is ("./": a root spelling), every other member with a slash in front
     ("/./d/", "/./d/f": the replay strips the slash, cleans "./d/" to "d" and caches the flag).  With the archive's
     own tape the rebuild never sees an absolute name and leaves the flag unset: the [R] of [Inv] fails (T20Test.v). *)
From Coq Require Import List NArith ZArith Bool Lia.
From Coq Require Import ZifyN ZifyBool.
Import ListNotations.
From STFS Require Import Str Db Tape Index Ops Fs Diff Norm C01Str T17Tree T17Rebuild T17View.
Open Scope N_scope.

Definition twin_name (st : style) (i : item) : str :=
  match i_path i with
  | [] => tape_name st i
  | _ => if is_abs (tape_name st i) then tape_name st i else slash :: tape_name st i
  end.

Definition twin_member (st : style) (i : item) : member :=
  let m := member_of_item st i in
  {| m_hdr := with_size_name (m_hdr m) (h_size (m_hdr m)) (twin_name st i); m_hb := m_hb m; m_data := m_data m; m_enc := m_enc m |}.

Definition twin_tape (st : style) (t : tree) : tape := map (fun i => TM (twin_member st i)) (items t) ++ [TT].

Definition abs_row (r : row) : row := set_name r (slash :: r_name r).

Definition twin_rows (c : cfg) (st : style) (t : tree) : list row := map abs_row (archive_rows c st t).

Definition twin (c : cfg) (st : style) (t : tree) : sys :=
  {| tp := twin_tape st t;
     db := {| rows := twin_rows c st t; root := [slash]; root_empty := false |};
     hbq := []; encq := []; clk := 0%Z |}.

Lemma twin_tape_slash t : twin_tape Slash t = archive_of Slash t.
Proof.
  unfold twin_tape, archive_of. f_equal. apply map_ext. intro i. f_equal. unfold twin_member, twin_name.
  assert (E : (match i_path i with [] => tape_name Slash i | _ :: _ => if is_abs (tape_name Slash i) then tape_name Slash i else slash :: tape_name Slash i end)
              = tape_name Slash i).
  { destruct (i_path i); reflexivity. }
  rewrite E. reflexivity.
Qed.
