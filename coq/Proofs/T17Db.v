(* T17 / Db: the index queries over rows whose names are relative cleaned names [join_slash (pc x)] (what a rebuild
   from a foreign archive stores): getSanitizedPath for the two cached-root shapes ("" and "top"), lookups by name,
   and GetHeaderDirectChildren = the rows one component below. *)
From Coq Require Import List NArith ZArith Bool Lia.
From Coq Require Import ZifyN ZifyBool.
Import ListNotations.
From STFS Require Import Str Db StrLemmas C01Str C01Db T13Path T13Def T13ListStr T13List T13View T17Str.
Open Scope N_scope.

(* ---------- sanitize, cached root "" with the root row "" present (styles "./" and "/") *)
Definition Foreign (p : pstate) : Prop := root p = [] /\ exists_exact p [] = true.

Definition rel_name (name : str) : str :=
  if is_root_name name then [] else path_join2 [] (trim_prefix [slash] name).

Lemma sanitize_foreign p name : Foreign p ->
  exists p', sanitize p name = (p', rel_name name) /\ rows p' = rows p /\ root p' = root p.
Proof.
  intros [Hr He]. unfold sanitize, rel_name. destruct (is_root_name name) eqn:E1; cbn [orb].
  - exists p. rewrite Hr. repeat split; reflexivity.
  - rewrite Hr.
    assert (E2 : eqb_str name [] = false).
    { unfold is_root_name in E1. destruct (eqb_str name []); [discriminate|reflexivity]. }
    rewrite E2. cbn [eqb_str andb].
    destruct (is_abs name && negb (root_empty p)) eqn:E3.
    + rewrite He. cbv beta iota zeta. cbn [root rows root_empty]. rewrite ?Hr. cbn [is_abs andb eqb_str].
      eexists. repeat split; reflexivity.
    + cbv beta iota zeta. rewrite ?Hr. cbn [is_abs andb eqb_str]. exists p. repeat split; try reflexivity; exact Hr.
Qed.

Lemma foreign_rows p p' : Foreign p -> rows p' = rows p -> root p' = root p -> Foreign p'.
Proof. intros [Hr He] E1 E2. split; [congruence|]. unfold exists_exact in *. rewrite E1. exact He. Qed.

Lemma rel_name_pth q : Forall okc q -> rel_name (pth q) = join_slash q.
Proof.
  intro H. unfold rel_name. destruct q as [|a r]; [reflexivity|].
  rewrite good_is_root_false; [|apply good_pth; exact H|intro K; apply pth_root_iff in K; [discriminate|exact H]].
  unfold pth. rewrite trim_prefix_slash. rewrite path_join2_nil.
  - apply path_clean_rel; [discriminate|exact H].
  - intro K. apply join_nil_iff in K; [discriminate|exact H].
Qed.

Lemma rel_name_pth_slash q : Forall okc q -> rel_name (trim_suffix [slash] (pth q) ++ [slash]) = join_slash q.
Proof.
  intro H. destruct q as [|a r]; [reflexivity|].
  rewrite good_trim_slash; [|apply good_pth; exact H|intro K; apply pth_root_iff in K; [discriminate|exact H]].
  unfold rel_name.
  assert (E : is_root_name (pth (a :: r) ++ [slash]) = false).
  { unfold pth. inversion H as [|? ? Ha Hr]; subst. destruct (join_head a r Ha) as (x & t & E & Ex). rewrite E.
    destruct t; reflexivity. }
  rewrite E. unfold pth. cbn [app]. rewrite trim_prefix_slash. rewrite path_join2_nil.
  - apply path_clean_rel_trailing; [discriminate|exact H].
  - destruct (join_slash (a :: r)); discriminate.
Qed.

Lemma rel_name_join q : Forall okc q -> rel_name (join_slash q) = join_slash q.
Proof.
  intro H. unfold rel_name. destruct q as [|a r]; [reflexivity|].
  rewrite join_is_root by (exact H || discriminate). rewrite trim_slash_rel by exact H.
  rewrite path_join2_nil.
  - apply path_clean_rel; [discriminate|exact H].
  - intro K. apply join_nil_iff in K; [discriminate|exact H].
Qed.

Lemma rel_name_join_slash q : Forall okc q -> q <> [] -> rel_name (join_slash q ++ [slash]) = join_slash q.
Proof.
  intros H Hn. unfold rel_name. destruct q as [|a r]; [contradiction|].
  inversion H as [|? ? Ha Hr]; subst. destruct (join_head a r Ha) as (x & t & E & Ex).
  assert (E1 : is_root_name (join_slash (a :: r) ++ [slash]) = false).
  { unfold is_root_name. rewrite E. cbn [app eqb_str]. rewrite Ex.
    destruct (x =? dot) eqn:Ed; cbn [andb orb]; [|reflexivity].
    apply N.eqb_eq in Ed. subst x. destruct t as [|y t]; cbn [app eqb_str]; [|destruct (y =? slash); destruct t; reflexivity].
    exfalso. destruct r as [|b r].
    - cbn [join_slash] in E. subst a. destruct Ha as (_ & K & _). apply K. reflexivity.
    - rewrite join_cons in E by discriminate. destruct a as [|a0 [|a1 a']]; cbn in E; discriminate. }
  rewrite E1.
  assert (E2 : trim_prefix [slash] (join_slash (a :: r) ++ [slash]) = join_slash (a :: r) ++ [slash]).
  { rewrite E. unfold trim_prefix. cbn [app has_prefix]. rewrite N.eqb_sym, Ex. reflexivity. }
  rewrite E2. rewrite path_join2_nil by (destruct (join_slash (a :: r)); discriminate).
  apply path_clean_rel_trailing; [discriminate|exact H].
Qed.

(* ---------- sanitize, cached root "top" (a named top directory) *)
Lemma okc_root_flags t : okc t ->
  eqb_str t [] = false /\ is_abs t = false /\ eqb_str t [dot] = false /\ eqb_str t [dot; slash] = false /\
  eqb_str t [slash] = false /\ has_prefix [dot; slash] t = false.
Proof.
  intros (A1 & A2 & A3 & A4).
  assert (E1 : eqb_str t [] = false) by (apply eqb_str_neq; exact A1).
  assert (E2 : eqb_str t [dot] = false) by (apply eqb_str_neq; exact A2).
  assert (E3 : eqb_str t [slash] = false) by (apply eqb_str_neq; intros ->; apply A4; left; reflexivity).
  assert (E4 : eqb_str t [dot; slash] = false) by (apply eqb_str_neq; intros ->; apply A4; right; left; reflexivity).
  assert (E5 : is_abs t = false).
  { destruct t as [|x t']; [reflexivity|]. cbn. apply N.eqb_neq. intros ->. apply A4. left. reflexivity. }
  assert (E6 : has_prefix [dot; slash] t = false).
  { destruct (has_prefix [dot; slash] t) eqn:E; [|reflexivity]. apply has_prefix_split' in E as (y & ->).
    exfalso. apply A4. right. left. reflexivity. }
  repeat split; assumption.
Qed.

Lemma sanitize_named p name : okc (root p) ->
  sanitize p name = (p, if is_root_name name || eqb_str name (root p) then root p else name).
Proof.
  intro Ht. destruct (okc_root_flags _ Ht) as (E1 & E2 & E3 & E4 & E5 & E6).
  unfold sanitize. destruct (is_root_name name || eqb_str name (root p)); [reflexivity|].
  rewrite E1. cbn [andb]. rewrite E2. cbn [andb]. rewrite E3, E4, E5, E6, ?E1. reflexivity.
Qed.

(* ---------- GetHeaderDirectChildren as two filters, for any sanitised name *)
Lemma gdc_form' p name p' n : sanitize p name = (p', n) -> Forall (fun r => r_link r = []) (rows p') ->
  get_direct_children p name None =
  match (if is_root_name n then min_slashes (filter live (rows p')) else Some 0) with
  | None => (p', Fail 1)
  | Some rd => (p', Ok (filter (postf (pfx n) n) (filter (selp (pfx n) rd) (rows p'))))
  end.
Proof.
  intros H Hk. unfold get_direct_children. rewrite H. fold (pfx n).
  destruct (if is_root_name n then min_slashes (filter live (rows p')) else Some 0) as [rd|]; [|reflexivity].
  rewrite dq_links_nil by exact Hk. cbn [fold_left]. rewrite app_nil_r. rewrite dq_names. reflexivity.
Qed.

(* ---------- replace(name, prefix, '') on a direct child, any prefix containing a slash *)
Lemma remove_all_none pre c : In slash pre -> noslash c -> forall fuel, sql_remove_all fuel pre c = c.
Proof.
  intros Hp. induction c as [|x c IH]; intros H fuel; destruct fuel as [|f]; cbn [sql_remove_all]; try reflexivity.
  destruct (has_prefix pre (x :: c)) eqn:E.
  - apply has_prefix_split' in E as (y & E). exfalso. apply H. rewrite E. apply in_or_app. left. exact Hp.
  - rewrite IH; [reflexivity|]. intro K. apply H. right. exact K.
Qed.

Lemma replace_child' pre c : In slash pre -> noslash c -> sql_replace_empty (pre ++ c) pre = c.
Proof.
  intros Hp H. unfold sql_replace_empty. destruct pre as [|a pre']; [contradiction|].
  change ((a :: pre') ++ c) with (a :: (pre' ++ c)) at 2. cbn [sql_remove_all].
  change (a :: (pre' ++ c)) with ((a :: pre') ++ c).
  rewrite has_prefix_app'. rewrite skipn_app_len. apply remove_all_none; assumption.
Qed.

Lemma filter_map_ext {A B} (f : B -> bool) (g : A -> bool) (mk : A -> B) l :
  (forall x, In x l -> f (mk x) = g x) -> filter f (map mk l) = map mk (filter g l).
Proof.
  induction l as [|a l IH]; intro H; [reflexivity|]. cbn [map filter]. rewrite (H a (or_introl eq_refl)).
  rewrite IH by (intros x Hx; apply H; right; exact Hx). destruct (g a); reflexivity.
Qed.

Lemma filter_nil_all' {A} (f : A -> bool) l : (forall x, In x l -> f x = false) -> filter f l = [].
Proof.
  induction l as [|a l IH]; intro H; [reflexivity|]. cbn [filter]. rewrite (H a (or_introl eq_refl)).
  apply IH. intros x Hx. apply H. right. exact Hx.
Qed.

Lemma filter_unique {A} (g : A -> bool) l x : NoDup l -> In x l -> g x = true ->
  (forall y, In y l -> g y = true -> y = x) -> filter g l = [x].
Proof.
  induction l as [|a l IH]; intros Hnd Hin Hg Hu; [contradiction|]. inversion Hnd as [|? ? Hnot Hnd']; subst.
  cbn [filter]. destruct Hin as [->|Hin].
  - rewrite Hg. f_equal. apply filter_nil_all'. intros y Hy.
    destruct (g y) eqn:E; [|reflexivity]. exfalso. apply Hnot. rewrite <- (Hu y (or_intror Hy) E). exact Hy.
  - destruct (g a) eqn:E.
    + exfalso. apply Hnot. rewrite (Hu a (or_introl eq_refl) E). exact Hin.
    + apply IH; [exact Hnd'|exact Hin|exact Hg|]. intros y Hy. apply Hu. right. exact Hy.
Qed.

Lemma min_slashes_zero l q : In q l -> slash_count (r_name q) = 0 -> min_slashes l = Some 0.
Proof.
  intros Hq E. destruct l as [|r t]; [contradiction|]. cbn [min_slashes]. f_equal.
  destruct (fold_min_spec t (slash_count (r_name r))) as (A & B & _). cbv zeta in A, B.
  destruct Hq as [->|Hq]; [lia|]. specialize (B q Hq). lia.
Qed.

Lemma filter_all {A} (f : A -> bool) l : (forall x, In x l -> f x = true) -> filter f l = l.
Proof.
  induction l as [|a l IH]; intro H; [reflexivity|]. cbn [filter]. rewrite (H a (or_introl eq_refl)).
  f_equal. apply IH. intros x Hx. apply H. right. exact Hx.
Qed.

(* ---------- rows named by component lists *)
Section Shape.
  Context {X : Type} (mk : X -> row) (pc : X -> list str) (L : list X).
  Hypothesis Hshape : forall x, In x L ->
    live (mk x) = true /\ r_link (mk x) = [] /\ r_name (mk x) = join_slash (pc x) /\ Forall okc (pc x).
  Hypothesis Hnd : NoDup (map pc L).

  Lemma shape_links : Forall (fun r => r_link r = []) (map mk L).
  Proof. apply Forall_forall. intros r Hr. apply in_map_iff in Hr as (x & <- & Hx). apply (Hshape x Hx). Qed.

  Lemma shape_live : filter live (map mk L) = map mk L.
  Proof. apply filter_all. intros r Hr. apply in_map_iff in Hr as (x & <- & Hx). apply (Hshape x Hx). Qed.

  Lemma pc_inj x y : In x L -> In y L -> pc x = pc y -> x = y.
  Proof.
    clear Hshape. induction L as [|a l IH]; intros Hx Hy E; [contradiction|].
    cbn [map] in Hnd. inversion Hnd as [|? ? Hnot Hnd']; subst.
    destruct Hx as [->|Hx], Hy as [->|Hy]; try reflexivity.
    - exfalso. apply Hnot. rewrite E. apply in_map. exact Hy.
    - exfalso. apply Hnot. rewrite <- E. apply in_map. exact Hx.
    - apply IH; assumption.
  Qed.

  Lemma name_eqb x y : In x L -> In y L ->
    eqb_str (r_name (mk y)) (join_slash (pc x)) = if strs_eq_dec (pc y) (pc x) then true else false.
  Proof.
    intros Hx Hy. destruct (Hshape x Hx) as (_ & _ & _ & Fx). destruct (Hshape y Hy) as (_ & _ & Ny & Fy).
    rewrite Ny. destruct (strs_eq_dec (pc y) (pc x)) as [E|E].
    - rewrite E. apply eqb_str_refl.
    - apply eqb_str_neq. intro K. apply E. apply join_inj; assumption.
  Qed.

  Lemma find_shape p x : rows p = map mk L -> In x L -> find_by_name p (join_slash (pc x)) = Some (mk x).
  Proof.
    intros Hr Hx. unfold find_by_name. rewrite Hr.
    rewrite (filter_map_ext _ (fun y => if strs_eq_dec (pc y) (pc x) then true else false)).
    - rewrite (filter_unique _ L x); [reflexivity| | | |].
      + apply NoDup_map_inv in Hnd. exact Hnd.
      + exact Hx.
      + destruct (strs_eq_dec (pc x) (pc x)); [reflexivity|contradiction].
      + intros y Hy E. destruct (strs_eq_dec (pc y) (pc x)) as [E'|]; [|discriminate]. apply pc_inj; assumption.
    - intros y Hy. destruct (Hshape y Hy) as (Lv & _). rewrite Lv. cbn [andb]. apply name_eqb; assumption.
  Qed.

  Lemma find_shape_none p sc : rows p = map mk L -> Forall okc sc -> (forall x, In x L -> pc x <> sc) ->
    find_by_name p (join_slash sc) = None.
  Proof.
    intros Hr Hsc Hno. unfold find_by_name. rewrite Hr. rewrite filter_nil_all'; [reflexivity|].
    intros r Hin. apply in_map_iff in Hin as (y & <- & Hy). destruct (Hshape y Hy) as (_ & _ & Ny & Fy).
    rewrite Ny. replace (eqb_str (join_slash (pc y)) (join_slash sc)) with false; [apply andb_false_r|].
    symmetry. apply eqb_str_neq. intro K. apply (Hno y Hy). apply join_inj; assumption.
  Qed.

  Lemma exists_exact_shape p : rows p = map mk L -> (exists x, In x L /\ pc x = []) -> exists_exact p [] = true.
  Proof.
    intros Hr (x & Hx & E). unfold exists_exact. rewrite Hr. apply existsb_exists. exists (mk x).
    split; [apply in_map; exact Hx|]. destruct (Hshape x Hx) as (Lv & _ & N & _). rewrite Lv, N, E. reflexivity.
  Qed.

  Lemma sel_nonroot sc x : In x L -> sc <> [] -> Forall okc sc ->
    selp (join_slash sc ++ [slash]) 0 (mk x) && postf (join_slash sc ++ [slash]) (join_slash sc) (mk x)
    = childb sc (pc x).
  Proof.
    intros Hx Hn Hsc. destruct (Hshape x Hx) as (Lv & Lk & Nm & Fx).
    assert (Hpre : join_slash sc ++ [slash] <> []) by (destruct (join_slash sc); discriminate).
    destruct (childb sc (pc x)) eqn:E.
    - apply childb_spec in E as (c & E).
      assert (Hc : okc c). { rewrite E in Fx. apply Forall_app in Fx as [_ Fc]. inversion Fc; assumption. }
      assert (F' : Forall okc (sc ++ [c])) by (rewrite <- E; exact Fx).
      assert (Nm' : r_name (mk x) = (join_slash sc ++ [slash]) ++ c).
      { rewrite Nm, E, join_snoc by exact Hn. rewrite <- app_assoc. reflexivity. }
      apply andb_true_iff. split.
      + unfold selp. rewrite Lv, Lk. rewrite Nm'.
        rewrite like_of_prefix by apply has_prefix_app'.
        unfold sql_depth. rewrite replace_child'; [|apply in_or_app; right; left; reflexivity|apply okc_ns; exact Hc].
        rewrite sc_noslash by (apply okc_ns; exact Hc). cbn [N.eqb orb andb eqb_str].
        rewrite <- Nm', Nm, E. rewrite join_is_root; [reflexivity|exact F'|destruct sc; discriminate].
      + unfold postf. apply andb_true_iff. split.
        * rewrite idc_nonempty by exact Hpre. rewrite Nm'. rewrite has_prefix_app', trim_prefix_app.
          rewrite okc_trim_slash by exact Hc. rewrite existsb_noslash by (apply okc_ns; exact Hc). reflexivity.
        * unfold not_self. rewrite Nm, E. rewrite join_trim_slash by exact F'.
          apply andb_true_iff. split; apply negb_true_iff; apply eqb_str_neq.
          -- intro K. apply join_inj in K; [|exact Hsc|exact F'].
             apply (f_equal (@length str)) in K. rewrite app_length in K. cbn in K. lia.
          -- apply length_neq. rewrite join_snoc by exact Hn. rewrite !app_length. cbn [length]. lia.
    - replace (postf (join_slash sc ++ [slash]) (join_slash sc) (mk x)) with false; [apply andb_false_r|].
      symmetry. unfold postf. replace (is_direct_child (join_slash sc ++ [slash]) (r_name (mk x))) with false; [reflexivity|].
      symmetry. destruct (is_direct_child (join_slash sc ++ [slash]) (r_name (mk x))) eqn:D; [|reflexivity].
      exfalso. rewrite idc_nonempty in D by exact Hpre. apply andb_true_iff in D as [D1 D2].
      rewrite Nm in D1, D2. destruct (join_under sc (pc x) Hn Hsc Fx D1) as (rs & Hrs & Ep).
      assert (Frs : Forall okc rs) by (rewrite Ep in Fx; apply Forall_app in Fx as [_ K]; exact K).
      rewrite Ep in D2. rewrite join_app in D2 by assumption.
      replace (join_slash sc ++ slash :: join_slash rs) with ((join_slash sc ++ [slash]) ++ join_slash rs) in D2
        by (rewrite <- app_assoc; reflexivity).
      rewrite trim_prefix_app, join_trim_slash in D2 by exact Frs.
      destruct rs as [|c [|b rs]]; [contradiction| |rewrite join_two_slash in D2; discriminate].
      rewrite Ep, childb_snoc in E. discriminate.
  Qed.

  Lemma sel_root x : In x L -> selp [] 0 (mk x) && postf [] [] (mk x) = childb [] (pc x).
  Proof.
    intros Hx. destruct (Hshape x Hx) as (Lv & Lk & Nm & Fx).
    destruct (pc x) as [|c [|b rs]] eqn:E.
    - unfold selp. rewrite Nm. cbn [join_slash]. change (is_root_name []) with true. cbn [negb].
      rewrite andb_false_r. reflexivity.
    - inversion Fx as [|? ? Hc _]; subst. cbn [childb]. apply andb_true_iff. split.
      + unfold selp. rewrite Lv, Lk, Nm. cbn [join_slash app]. rewrite like_pct_any.
        unfold sql_depth, sql_replace_empty. rewrite sc_noslash by (apply okc_ns; exact Hc).
        cbn [N.eqb orb andb eqb_str].
        change c with (join_slash [c]). rewrite join_is_root; [reflexivity|exact Fx|discriminate].
      + unfold postf. cbn [is_direct_child andb]. unfold not_self. rewrite Nm. cbn [join_slash].
        rewrite okc_trim_slash by exact Hc. destruct Hc as (K & _). destruct c; [contradiction|reflexivity].
    - cbn [childb]. unfold selp. rewrite Nm.
      pose proof (sc_join (c :: b :: rs) Fx ltac:(discriminate)) as S. cbn [length] in S.
      unfold sql_depth, sql_replace_empty.
      assert (D : (slash_count (join_slash (c :: b :: rs)) =? 0) = false) by (apply N.eqb_neq; lia).
      rewrite D. unfold ends_slash. rewrite join_no_trailing by exact Fx.
      cbn [orb andb]. rewrite !andb_false_r. reflexivity.
  Qed.

  (* the listing of a directory = the rows one component below it, in index order *)
  Lemma gdc_shape p name p' sc : sanitize p name = (p', join_slash sc) -> rows p' = map mk L -> Forall okc sc ->
    (sc = [] -> exists x, In x L /\ pc x = []) ->
    get_direct_children p name None = (p', Ok (map mk (filter (fun x => childb sc (pc x)) L))).
  Proof.
    intros Hsan Hrows Hsc Hroot. rewrite (gdc_form' p name p' (join_slash sc) Hsan) by (rewrite Hrows; apply shape_links).
    destruct sc as [|a r].
    - cbn [join_slash]. change (is_root_name []) with true. cbv iota.
      destruct (Hroot eq_refl) as (x0 & Hx0 & E0).
      rewrite Hrows, shape_live.
      rewrite (min_slashes_zero (map mk L) (mk x0)).
      + change (pfx []) with (@nil N). rewrite filter_filter. rewrite (filter_map_ext _ (fun x => childb [] (pc x))); [reflexivity|].
        intros x Hx. apply sel_root. exact Hx.
      + apply in_map. exact Hx0.
      + destruct (Hshape x0 Hx0) as (_ & _ & N & _). rewrite N, E0. reflexivity.
    - rewrite join_is_root by (exact Hsc || discriminate).
      assert (Epf : pfx (join_slash (a :: r)) = join_slash (a :: r) ++ [slash]).
      { unfold pfx. rewrite join_is_root by (exact Hsc || discriminate). rewrite join_trim_slash by exact Hsc. reflexivity. }
      rewrite Epf, Hrows, filter_filter. rewrite (filter_map_ext _ (fun x => childb (a :: r) (pc x))); [reflexivity|].
      intros x Hx. apply sel_nonroot; [exact Hx|discriminate|exact Hsc].
  Qed.
End Shape.
