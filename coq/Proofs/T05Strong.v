(* T05 / a call that does not return OOk has appended nothing -- in every state in which the index is in step with
   the tape ([Sync], the tape/position part of the C01 invariant), provided the state after the call is in step too
   (which the C01 development proves for every filesystem-level call).

   [T05_failed_call_appends_nothing_sync]: ANY configuration, no hypothesis on names; calls that write at most once
   (Mkdir, Remove, RemoveAll, Chmod, Chown, Chtimes, Archive, Update, Delete, Move).
   [T05_failed_call_appends_nothing]: after every filesystem-level history (hypotheses of the C01 theorem, any
   configuration), for the next filesystem-level call of those kinds.
   Proof: the call is one append-and-replay of its own headers (structural, any state); a replay that fails leaves no
   stamp for the last member (T05Sync.replay_ok_of_sync), whereas the state after the call is in step. *)
From Coq Require Import List NArith ZArith Bool Lia.
From Coq Require Import ZifyN ZifyBool.
Import ListNotations.
From STFS Require C04Index C04Fs.
From STFS Require Import Str Db Tape Index Ops Fs Diff Norm TapeLemmas Append C04Db
  C01Str C01Db C01Inv C01Sim C01Tape C01Hdr C01Ops C01Fs C01Fs2 C01Rows
  TcfgSim TcfgHist TcfgThms T05Shape T05Frame T05Refuse T05Sync.
Open Scope N_scope.

Definition hbq_pos (s : sys) : Prop := Forall (fun x => 0 < x) (hbq s).
Definition mpos (ms : list member) : Prop := Forall (fun m => 0 < m_hb m) ms.

(* only the root cache of the index may differ *)
Definition quiet (s s1 : sys) : Prop := silent s s1 /\ rows (db s1) = rows (db s).

Lemma quiet_refl s : quiet s s.
Proof. split; [apply silent_refl|reflexivity]. Qed.
Lemma quiet_trans a b c : quiet a b -> quiet b c -> quiet a c.
Proof. intros [A1 A2] [B1 B2]. split; [eapply silent_trans; eassumption|congruence]. Qed.
Lemma quiet_set_db s p : rows p = rows (db s) -> quiet s (set_db s p).
Proof. intro H. split; [apply silent_set_db|exact H]. Qed.

Lemma stat_s_quiet s n b : quiet s (fst (stat_s s n b)).
Proof. split; [apply stat_s_silent|apply (C04Fs.stat_s_eqv s n b)]. Qed.
Lemma parent_check_quiet s n : quiet s (fst (parent_check s n)).
Proof. split; [apply parent_check_silent|apply (C04Fs.parent_check_eqv s n)]. Qed.

(* ---------- the members an operation builds carry exactly the headers it replays *)
Definition built (s : sys) (ms : list member) (hs : list hdr) (s1 : sys) : Prop :=
  map m_hdr ms = hs /\ tp s1 = tp s /\ db s1 = db s /\ (hbq_pos s -> mpos ms /\ hbq_pos s1).

Lemma pop_hb_built s : tp (snd (pop_hb s)) = tp s /\ db (snd (pop_hb s)) = db s /\
  (hbq_pos s -> 0 < fst (pop_hb s) /\ hbq_pos (snd (pop_hb s))).
Proof.
  unfold pop_hb, hbq_pos. destruct (hbq s) as [|x r] eqn:E; cbn [fst snd tp db hbq].
  - split; [reflexivity|]. split; [reflexivity|]. intros _. split; [lia|]. rewrite E. constructor.
  - split; [reflexivity|]. split; [reflexivity|]. intro H. inversion H; subst. split; assumption.
Qed.

Lemma mk_member_built s h d e :
  m_hdr (fst (mk_member s h d e)) = h /\ tp (snd (mk_member s h d e)) = tp s /\ db (snd (mk_member s h d e)) = db s /\
  (hbq_pos s -> 0 < m_hb (fst (mk_member s h d e)) /\ hbq_pos (snd (mk_member s h d e))).
Proof. unfold mk_member. pose proof (pop_hb_built s) as K. destruct (pop_hb s) as [hb s1]. cbn [fst snd m_hdr m_hb] in *. tauto. Qed.

Lemma encode_built c s h : tp (snd (encode c s h)) = tp s /\ db (snd (encode c s h)) = db s /\ hbq (snd (encode c s h)) = hbq s.
Proof. unfold encode, pop_enc. destruct (encq s); cbn; repeat split; reflexivity. Qed.

Lemma built_cons s m h s1 ms hs s2 :
  m_hdr m = h -> tp s1 = tp s -> db s1 = db s -> (hbq_pos s -> 0 < m_hb m /\ hbq_pos s1) ->
  built s1 ms hs s2 -> built s (m :: ms) (h :: hs) s2.
Proof.
  intros A B C D (A2 & B2 & C2 & D2). split; [cbn [map]; congruence|]. split; [congruence|]. split; [congruence|].
  intro H. destruct (D H) as (D1 & D3). destruct (D2 D3) as (D4 & D5). split; [constructor; assumption|exact D5].
Qed.

Lemma plain_members_built hs : forall s, built s (fst (plain_members s hs)) hs (snd (plain_members s hs)).
Proof.
  induction hs as [|h r IH]; intro s; cbn [plain_members].
  - cbn. split; [reflexivity|]. split; [reflexivity|]. split; [reflexivity|]. intro H. split; [constructor|exact H].
  - destruct (mk_member_built s h None 0) as (A & B & C & D). destruct (mk_member s h None 0) as [m s1]. cbn [fst snd] in *.
    specialize (IH s1). destruct (plain_members s1 r) as [ms s2]. cbn [fst snd] in *. eapply built_cons; eassumption.
Qed.

Lemma archive_members_built c fs : forall s,
  built s (fst (fst (archive_members c s fs))) (snd (fst (archive_members c s fs))) (snd (archive_members c s fs)).
Proof.
  induction fs as [|f r IH]; intro s; cbn [archive_members].
  - cbn. split; [reflexivity|]. split; [reflexivity|]. split; [reflexivity|]. intro H. split; [constructor|exact H].
  - destruct (is_reg (f_hdr f) && (0 <? h_size (f_hdr f))).
    + destruct (encode_built c s (f_hdr f)) as (E1 & E2 & E3). destruct (encode c s (f_hdr f)) as [[h' enc] s0]. cbn [fst snd] in *.
      destruct (mk_member_built s0 h' (Some (f_data f)) enc) as (A & B & C & D).
      destruct (mk_member s0 h' (Some (f_data f)) enc) as [m s1]. cbn [fst snd] in *.
      specialize (IH s1). destruct (archive_members c s1 r) as [[ms hs] s2]. cbn [fst snd] in *.
      apply (built_cons _ _ _ s1 _ _ _ A); [congruence|congruence| |exact IH].
      intro H. apply D. unfold hbq_pos in *. rewrite E3. exact H.
    + destruct (mk_member_built s (f_hdr f) None 0) as (A & B & C & D).
      destruct (mk_member s (f_hdr f) None 0) as [m s1]. cbn [fst snd] in *.
      specialize (IH s1). destruct (archive_members c s1 r) as [[ms hs] s2]. cbn [fst snd] in *.
      eapply built_cons; eassumption.
Qed.

Lemma update_members_built c fs replace skip : forall s,
  built s (fst (fst (update_members c s fs replace skip))) (snd (fst (update_members c s fs replace skip)))
        (snd (update_members c s fs replace skip)).
Proof.
  induction fs as [|f r IH]; intro s; cbn -[pax_set pax_del].
  - split; [reflexivity|]. split; [reflexivity|]. split; [reflexivity|]. intro H. split; [constructor|exact H].
  - match goal with |- context [if ?b then encode c s ?h else _] =>
      destruct (encode_built c s h) as (E1 & E2 & E3); destruct b; [destruct (encode c s h) as [[h2 enc] s0]; cbn [fst snd] in E1, E2, E3|] end.
    + destruct replace.
      * match goal with |- context [mk_member s0 ?h ?d ?e] =>
          destruct (mk_member_built s0 h d e) as (A & B & C & D); destruct (mk_member s0 h d e) as [m s1]; cbn [fst snd] in A, B, C, D end.
        specialize (IH s1). destruct (update_members c s1 r true skip) as [[ms hs] s2]. cbn [fst snd] in *.
        apply (built_cons _ _ _ s1 _ _ _ A); [congruence|congruence| |exact IH].
        intro H. apply D. unfold hbq_pos in *. rewrite E3. exact H.
      * match goal with |- context [mk_member s0 ?h ?d ?e] =>
          destruct (mk_member_built s0 h d e) as (A & B & C & D); destruct (mk_member s0 h d e) as [m s1]; cbn [fst snd] in A, B, C, D end.
        specialize (IH s1). destruct (update_members c s1 r false skip) as [[ms hs] s2]. cbn [fst snd] in *.
        apply (built_cons _ _ _ s1 _ _ _ A); [congruence|congruence| |exact IH].
        intro H. apply D. unfold hbq_pos in *. rewrite E3. exact H.
    + destruct replace.
      * match goal with |- context [mk_member s ?h ?d ?e] =>
          destruct (mk_member_built s h d e) as (A & B & C & D); destruct (mk_member s h d e) as [m s1]; cbn [fst snd] in A, B, C, D end.
        specialize (IH s1). destruct (update_members c s1 r true skip) as [[ms hs] s2]. cbn [fst snd] in *.
        eapply built_cons; eassumption.
      * match goal with |- context [mk_member s ?h ?d ?e] =>
          destruct (mk_member_built s h d e) as (A & B & C & D); destruct (mk_member s h d e) as [m s1]; cbn [fst snd] in A, B, C, D end.
        specialize (IH s1). destruct (update_members c s1 r false skip) as [[ms hs] s2]. cbn [fst snd] in *.
        eapply built_cons; eassumption.
Qed.

(* ---------- one write at most, with the details the replay theorem needs *)
Definition one_write2 (c : cfg) (s : sys) (res : sys * outc) : Prop :=
  exists s1 ms, tp s1 = tp s /\ rows (db s1) = rows (db s) /\ ms <> [] /\ (hbq_pos s -> mpos ms) /\
    res = append_and_index c s1 (last_indexed (db s1) (c_rs c)) ms (map m_hdr ms) false false.

Definition WR2 (c : cfg) (s : sys) (res : sys * outc) : Prop := tp (fst res) = tp s \/ one_write2 c s res.

Lemma WR2_same c s s1 o : tp s1 = tp s -> WR2 c s (s1, o).
Proof. intro E. left. exact E. Qed.

Lemma WR2_quiet c s s0 res : quiet s s0 -> WR2 c s0 res -> WR2 c s res.
Proof.
  intros [(Q1 & Q2 & _) Q3] [H|(s1 & ms & E1 & E2 & Hm & Hp & Hr)]; [left; congruence|right].
  exists s1, ms. split; [congruence|]. split; [congruence|]. split; [exact Hm|]. split; [|exact Hr].
  intro H. apply Hp. unfold hbq_pos in *. rewrite Q2. exact H.
Qed.

Lemma built_WR2 c s s0 ms hs s1 : quiet s s0 -> built s0 ms hs s1 ->
  WR2 c s (append_and_index c s1 (last_indexed (db s) (c_rs c)) ms hs false false).
Proof.
  intros [(Q1 & Q2 & _) Q3] (A & B & C & D). destruct ms as [|m ms].
  - left. rewrite append_and_index_tp. cbn. rewrite app_nil_r. congruence.
  - right. exists s1, (m :: ms). split; [congruence|]. split; [congruence|]. split; [discriminate|]. split.
    + intro H. apply D. unfold hbq_pos in *. rewrite Q2. exact H.
    + rewrite A. f_equal. apply C04Index.last_indexed_rows. congruence.
Qed.

Lemma archive_op_WR2 c s fs : WR2 c s (archive_op c s fs false false).
Proof.
  unfold archive_op. pose proof (archive_members_built c fs s) as H.
  destruct (archive_members c s fs) as [[ms hs] s1]; cbn [fst snd] in H. eapply built_WR2; [apply quiet_refl|exact H].
Qed.

Lemma update_op_WR2 c s fs r k : WR2 c s (update_op c s fs r k).
Proof.
  unfold update_op. pose proof (update_members_built c fs r k s) as H.
  destruct (update_members c s fs r k) as [[ms hs] s1]; cbn [fst snd] in H. eapply built_WR2; [apply quiet_refl|exact H].
Qed.

Lemma plain_tail_WR2 c s p hs : rows p = rows (db s) ->
  WR2 c s (let '(ms, s1) := plain_members (set_db s p) hs in append_and_index c s1 (last_indexed (db s) (c_rs c)) ms hs false false).
Proof.
  intro E. pose proof (plain_members_built hs (set_db s p)) as H. destruct (plain_members (set_db s p) hs) as [ms s1]; cbn [fst snd] in H.
  eapply built_WR2; [apply quiet_set_db; exact E|exact H].
Qed.

Lemma delete_op_WR2 c s n : WR2 c s (delete_op c s n).
Proof.
  unfold delete_op. pose proof (C04Fs.lookup_entry_rows (db s) n) as H.
  destruct (lookup_entry (db s) n) as [p [r| | |e]]; cbn [fst] in H; try (apply WR2_same; reflexivity).
  destruct ((r_tf r =? TypeDir) && eqb_str (r_link r) []).
  - pose proof (get_children_rows p n) as H2. destruct (get_children p n) as [p' kids]; cbn [fst] in H2.
    apply plain_tail_WR2. congruence.
  - apply plain_tail_WR2. exact H.
Qed.

Lemma move_op_WR2 c s a b : WR2 c s (move_op c s a b).
Proof.
  unfold move_op. destruct (eqb_str a b); [apply WR2_same; reflexivity|].
  pose proof (C04Fs.lookup_entry_rows (db s) a) as H.
  destruct (lookup_entry (db s) a) as [p [r| | |e]]; cbn [fst] in H; try (apply WR2_same; reflexivity).
  destruct (eqb_str a (if is_abs b && negb (is_abs (r_name r)) then trim_prefix [slash] b else b)); [apply WR2_same; reflexivity|].
  destruct (r_tf r =? TypeDir).
  - pose proof (get_children_rows p a) as H2. destruct (get_children p a) as [p' kids]; cbn [fst] in H2.
    apply plain_tail_WR2. congruence.
  - apply plain_tail_WR2. exact H.
Qed.

Lemma mknode_WR2 c s d n perm l : WR2 c s (mknode c s d n perm false l false).
Proof. unfold mknode. destruct (c_readonly c); [apply WR2_same; reflexivity|apply archive_op_WR2]. Qed.

Lemma fs_mkdir_WR2 c s n perm : WR2 c s (fs_mkdir c s n perm).
Proof.
  unfold fs_mkdir. destruct (c_readonly c); [apply WR2_same; reflexivity|].
  pose proof (parent_check_quiet s (path_clean n)) as Q1. destruct (parent_check s (path_clean n)) as [s1 o1]; cbn [fst] in Q1.
  destruct o1; try (apply WR2_same; apply Q1).
  pose proof (stat_s_quiet s1 (path_clean n) false) as Q2. destruct (stat_s s1 (path_clean n) false) as [s2 r2]; cbn [fst] in Q2.
  pose proof (quiet_trans _ _ _ Q1 Q2) as Q12.
  pose proof (stat_s_quiet s2 (path_clean n) true) as Q3.
  destruct r2; try (apply WR2_same; apply Q12);
    destruct (stat_s s2 (path_clean n) true) as [s3 r3]; cbn [fst] in Q3; pose proof (quiet_trans _ _ _ Q12 Q3) as Q123;
    destruct r3; try (apply WR2_same; apply Q123); (eapply WR2_quiet; [exact Q123|apply mknode_WR2]).
Qed.

Lemma fs_remove_nl_WR2 c s n : WR2 c s (fs_remove_nl c s n).
Proof.
  unfold fs_remove_nl. destruct (c_readonly c); [apply WR2_same; reflexivity|].
  pose proof (stat_s_quiet s n false) as H1. destruct (stat_s s n false) as [s1 r1]; cbn [fst] in H1.
  assert (forall s2 r, quiet s s2 ->
            WR2 c s (match r with
              | Ok h => if (h_tf h =? TypeDir) && eqb_str (h_link h) []
                        then match inv_list (db s2) n None with
                             | (p, Ok l) => match l with [] => delete_op c (set_db s2 p) n | _ :: _ => (set_db s2 p, ONotEmpty) end
                             | (p, e) => (set_db s2 p, outc_of_res e) end
                        else delete_op c s2 n
              | NoRows => (s2, ONotExist)
              | e => (s2, outc_of_res e) end)) as K.
  { intros s2 r E. destruct r as [h| | |e]; try (apply WR2_same; apply E).
    destruct ((h_tf h =? TypeDir) && eqb_str (h_link h) []).
    - pose proof (C04Fs.inv_list_rows (db s2) n None) as Hl.
      destruct (inv_list (db s2) n None) as [p [l| | |e]]; cbn [fst] in Hl; try (apply WR2_same; apply E).
      destruct l; [|apply WR2_same; apply E].
      eapply WR2_quiet; [|apply delete_op_WR2]. eapply quiet_trans; [exact E|apply quiet_set_db; exact Hl].
    - eapply WR2_quiet; [exact E|apply delete_op_WR2]. }
  destruct r1 as [h| | |e].
  - exact (K s1 (Ok h) H1).
  - pose proof (stat_s_quiet s1 n true) as H2. destruct (stat_s s1 n true) as [s2 r2]; cbn [fst] in H2.
    exact (K s2 r2 (quiet_trans _ _ _ H1 H2)).
  - exact (K s1 Unique H1).
  - exact (K s1 (Fail e) H1).
Qed.

Lemma fs_update_meta_WR2 c s n f : WR2 c s (fs_update_meta c s n f).
Proof.
  unfold fs_update_meta. destruct (c_readonly c); [apply WR2_same; reflexivity|].
  destruct n as [|n0 n']; [apply WR2_same; reflexivity|]. set (name := path_clean (n0 :: n')). clearbody name.
  assert (forall s2 r, quiet s s2 ->
    WR2 c s (match r with
      | Ok h => update_op c s2 [{| f_hdr := f h; f_data := [] |}] false false
      | NoRows => (s2, ONotExist)
      | e => (s2, outc_of_res e) end)) as K.
  { intros s2 r E. destruct r; try (apply WR2_same; apply E). eapply WR2_quiet; [exact E|apply update_op_WR2]. }
  pose proof (stat_s_quiet s name false) as H1. destruct (stat_s s name false) as [s1 r1]; cbn [fst] in H1.
  destruct r1 as [h| | |e]; [exact (K s1 (Ok h) H1)| |exact (K s1 Unique H1)|exact (K s1 (Fail e) H1)].
  pose proof (stat_s_quiet s1 name true) as H2. destruct (stat_s s1 name true) as [s2 r2]; cbn [fst] in H2.
  pose proof (quiet_trans _ _ _ H1 H2) as E2.
  destruct r2 as [lh| | |e]; [|exact (K s2 NoRows E2)|exact (K s2 Unique E2)|exact (K s2 (Fail e) E2)].
  pose proof (stat_s_quiet s2 (h_link lh) false) as H3. destruct (stat_s s2 (h_link lh) false) as [s3 r3]; cbn [fst] in H3.
  exact (K s3 r3 (quiet_trans _ _ _ E2 H3)).
Qed.

(* ---------- Sync is insensitive to the root cache *)
Lemma Sync_quiet c s s1 : tp s1 = tp s -> rows (db s1) = rows (db s) -> Sync c s -> Sync c s1.
Proof. intros E1 E2 [A (pre & m & B1 & B2 & B3)]. unfold Sync. rewrite E1, E2. split; [exact A|]. exists pre, m. repeat split; assumption. Qed.

(* the core: a single append-and-replay between two states in step returns OOk *)
Lemma one_write2_ok c s res : 0 < c_rs c -> hbq_pos s -> Sync c s -> one_write2 c s res -> Sync c (fst res) -> snd res = OOk.
Proof.
  intros Hrs Hq HS (s1 & ms & E1 & E2 & Hm & Hp & ->) HS'.
  apply replay_ok_of_sync; [exact Hrs|eapply Sync_quiet; eassumption|exact Hm|apply Hp; exact Hq|exact HS'].
Qed.

Definition writes_once_fs (k : call) : bool :=
  match k with
  | CMkdir _ _ | CRemove _ | CRemoveAll _ | CChmod _ _ | CChown _ _ _ | CChtimes _ _ _
  | CArchive _ | CUpdate _ _ | CDelete _ | CMove _ _ | CReopen | CNop => true
  | _ => false
  end.

Theorem T05_failed_call_appends_nothing_sync : forall c s k, 0 < c_rs c -> writes_once_fs k = true ->
  hbq_pos s -> Sync c s -> Sync c (fst (step c s k)) ->
  snd (step c s k) <> OOk -> tp (fst (step c s k)) = tp s.
Proof.
  intros c s k Hrs Hk Hq HS HS' Hne.
  assert (G : forall res, WR2 c s res -> Sync c (fst res) -> snd res <> OOk -> tp (fst res) = tp s).
  { intros res [H|H] S' N; [exact H|]. exfalso. apply N. eapply one_write2_ok; eassumption. }
  destruct k; try discriminate; cbn [step] in *.
  - apply G; [apply fs_mkdir_WR2|exact HS'|exact Hne].
  - unfold fs_remove in *. destruct (c_readonly c); [reflexivity|]. apply G; [apply fs_remove_nl_WR2|exact HS'|exact Hne].
  - unfold fs_removeall in *. destruct (c_readonly c); [reflexivity|].
    pose proof (delete_op_WR2 c s (path_clean n)) as W. destruct (delete_op c s (path_clean n)) as [s' o] eqn:Ed.
    destruct W as [W|W]; [cbn [fst] in W; destruct o; exact W|].
    exfalso. assert (Ho : o = OOk).
    { change o with (snd (s', o)). eapply one_write2_ok; try eassumption. cbn [fst]. destruct o; exact HS'. }
    subst o. apply Hne. reflexivity.
  - apply G; [apply fs_update_meta_WR2|exact HS'|exact Hne].
  - apply G; [apply fs_update_meta_WR2|exact HS'|exact Hne].
  - apply G; [apply fs_update_meta_WR2|exact HS'|exact Hne].
  - destruct (c_readonly c); [reflexivity|]. apply G; [apply archive_op_WR2|exact HS'|exact Hne].
  - apply G; [apply update_op_WR2|exact HS'|exact Hne].
  - apply G; [apply delete_op_WR2|exact HS'|exact Hne].
  - apply G; [apply move_op_WR2|exact HS'|exact Hne].
  - reflexivity.
  - reflexivity.
Qed.

(* ---------- after filesystem-level histories, any configuration *)

Lemma Sync_Pl c s : Sync (plain_of c) (Pl c s) -> Sync c s.
Proof.
  intros [A (pre & m & B1 & B2 & B3)]. cbn [tp db Pl] in *. change (c_rs (plain_of c)) with (c_rs c) in *.
  split.
  - unfold pos_items, efft in *. rewrite Forall_map in A. eapply Forall_impl; [|exact A]. intros i Hi. cbv beta in Hi. rewrite (item_blocks_effi c i) in Hi. exact Hi.
  - unfold efft in B1. apply map_eq_app in B1 as (pre0 & l2 & E & E1 & E2).
    destruct l2 as [|i1 [|i2 [|i3 l2]]]; try discriminate. cbn [map] in E2. inversion E2 as [[F1 F2]].
    destruct i1 as [m0|]; [|discriminate]. destruct i2 as [m1|]; [discriminate|].
    exists pre0, m0. split; [exact E|]. rewrite <- E1 in B2, B3. fold (efft c pre0) in B2, B3. rewrite tape_blocks_efft in B2, B3.
    split; assumption.
Qed.

Lemma safe_snoc r : forall hr k e1, is_reopen k = false -> safe hr (r ++ [(k, e1)]) = safe hr r.
Proof.
  induction r as [|[k0 e0] r IH]; intros hr k e1 Hk; cbn [app safe].
  - rewrite Hk. reflexivity.
  - rewrite IH by exact Hk. reflexivity.
Qed.

Lemma final_snoc c h k e1 s : final c s (h ++ [(k, e1)]) = fst (step c (with_env (final c s h) e1) k).
Proof. revert s. induction h as [|[k0 e0] h IH]; intro s; cbn [app final]; [reflexivity|apply IH]. Qed.

Lemma hist_sync c e r : 0 < c_rs c -> c_readonly c = false ->
  forallb hb_ok ((CInitialize [slash], e) :: r) = true -> safe true r = true ->
  forallb (fun ke => rename_ok (fst ke)) r = true -> forallb (fun ke => fs_call (fst ke)) r = true ->
  Sync c (final c init_sys ((CInitialize [slash], e) :: r)).
Proof.
  intros Hrs Hro Hhb Hsafe Hren Hfs. cbn [forallb] in Hhb. apply andb_true_iff in Hhb as [Hb0 Hb].
  pose proof (init_ok (plain_of c) Hrs Hro e Hb0) as H0.
  destruct (final_ok (plain_of c) (plain_of_plain c) Hrs Hro r true _ H0 Hfs Hren Hb Hsafe) as (hr' & HI & _).
  change (final (plain_of c) (fst (step (plain_of c) (with_env init_sys e) (CInitialize [slash]))) r)
    with (final (plain_of c) init_sys ((CInitialize [slash], e) :: r)) in HI.
  rewrite (final_hist_Pl c e r) in HI. apply Sync_Pl. eapply Inv_Sync. exact HI.
Qed.

(* the next filesystem-level call that writes at most once: if it does not return OOk it has appended nothing *)
Theorem T05_failed_call_appends_nothing : forall c e r k e1, 0 < c_rs c -> c_readonly c = false ->
  forallb hb_ok ((CInitialize [slash], e) :: r ++ [(k, e1)]) = true ->
  safe true r = true ->
  forallb (fun ke => rename_ok (fst ke)) r = true ->
  forallb (fun ke => fs_call (fst ke)) (r ++ [(k, e1)]) = true ->
  writes_once_fs k = true ->
  let s := final c init_sys ((CInitialize [slash], e) :: r) in
  snd (step c (with_env s e1) k) <> OOk -> tp (fst (step c (with_env s e1) k)) = tp s.
Proof.
  intros c e r k e1 Hrs Hro Hhb Hsafe Hren Hfs Hk s Hne.
  assert (Hb : forallb hb_ok ((CInitialize [slash], e) :: r) = true /\ hb_ok (k, e1) = true).
  { cbn [forallb] in Hhb |- *. apply andb_true_iff in Hhb as [A B]. rewrite forallb_app in B. apply andb_true_iff in B as [B1 B2].
    rewrite A, B1. cbn [forallb] in B2. rewrite andb_true_r in B2. split; [reflexivity|exact B2]. }
  destruct Hb as [Hb1 Hb2].
  assert (Hf : forallb (fun ke => fs_call (fst ke)) r = true) by (rewrite forallb_app in Hfs; apply andb_true_iff in Hfs; tauto).
  destruct (is_reopen k) eqn:Ero; [destruct k; try discriminate; exfalso; apply Hne; reflexivity|].
  assert (Hnr : is_reopen k = false /\ rename_ok k = true) by (split; [exact Ero|destruct k; try discriminate; reflexivity]).
  assert (S1 : Sync c s) by (apply hist_sync; assumption).
  assert (S2 : Sync c (fst (step c (with_env s e1) k))).
  { unfold s. change (final c init_sys ((CInitialize [slash], e) :: r)) with (final c (fst (step c (with_env init_sys e) (CInitialize [slash]))) r).
    rewrite <- final_snoc.
    change (final c (fst (step c (with_env init_sys e) (CInitialize [slash]))) (r ++ [(k, e1)]))
      with (final c init_sys ((CInitialize [slash], e) :: r ++ [(k, e1)])).
    apply hist_sync; try assumption.
    - rewrite safe_snoc; [exact Hsafe|apply Hnr].
    - rewrite forallb_app, Hren. cbn [forallb fst]. rewrite (proj2 Hnr). reflexivity. }
  change (tp s) with (tp (with_env s e1)).
  apply T05_failed_call_appends_nothing_sync; try assumption.
  - unfold hbq_pos, with_env. cbn [hbq]. apply Forall_forall. intros x Hx. unfold hb_ok in Hb2. cbn [snd] in Hb2.
    rewrite forallb_forall in Hb2. specialize (Hb2 x Hx). lia.
Qed.

Print Assumptions T05_failed_call_appends_nothing.
