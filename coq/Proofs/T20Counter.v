(* T20 / Counter: what the twin shows about ORIGINAL members of a foreign archive (compiled, by computation).

   Archive (style "./"): "./", "./d/", "./d/f" (regular, 700 bytes), "./g" (regular, 10 bytes) - the C17_demo archive.

   (1) FINDING (about the modelled code, the same on the archive's instance and on its twin): a metadata update of an
       original NON-EMPTY regular member - Chmod, Chown, Chtimes, Rename of the member, Rename of a directory above it -
       leaves the member with recorded size 0.  The update record carries tape size 0 and the replay takes the size from
       the PAX record STFS.UncompressedSize, which a foreign header does not have; the content is still on the tape at
       the stored position ([e_data] of the walk reads it), but Stat reports 0 bytes.  Writes (truncate / append /
       overwrite in place) through OpenFile are right (they write a new record with the size record).
   (2) Hence the state hypothesis [Good] of the T02 reference theorems is FALSE for the twin of an archive with a
       non-empty regular member ([sizes_ok]), and the call does depart from the reference ([spec_chmod] keeps the size):
       [T20_twin_Good] / [T20_foreign_reference] assume [empty_files].  The simulation [T20_foreign_sim] and
       [T20_foreign_continuation] need no such hypothesis: archive and twin misbehave alike. *)
From Coq Require Import String List NArith ZArith Bool.
Import ListNotations.
From STFS Require Import Str Db Tape Index Ops Fs Diff Norm C01Sim T02Ns T02Db T02Calls T02Spec
  T17Tree T17Forest T17Rebuild T17Test T19Rel T19Test T20Twin T20Test.
Open Scope N_scope.
Open Scope string_scope.

Definition cc : cfg := tcf 20.
Definition sr0 : sys := opened cc (archive_of DotSlash tdemo).
Definition sa0 : sys := twin cc DotSlash tdemo.
Definition shown (s : sys) : list (str * N * option content) := map (fun e => (e_path e, e_size e, e_data e)) (view cc s).
Definition after (s : sys) (k : call) : sys := fst (step cc (with_env s (e0 5)) k).

(* before: as the writer stored them *)
Example T20_counter_before :
  shown sr0 = [(s "/", 0, None); (s "/d", 0, None); (s "/d/f", 700, Some [(1, 0, 700)]); (s "/g", 10, Some [(2, 0, 10)])]
  /\ shown sa0 = shown sr0.
Proof. vm_compute. split; reflexivity. Qed.

(* (1) after ONE metadata call the member's size is 0; archive and twin alike; each call returns OOk *)
Example T20_counter_chmod :
  snd (step cc (with_env sr0 (e0 5)) (CChmod (s "/d/f") 384)) = OOk /\
  shown (after sr0 (CChmod (s "/d/f") 384)) =
    [(s "/", 0, None); (s "/d", 0, None); (s "/d/f", 0, Some [(1, 0, 700)]); (s "/g", 10, Some [(2, 0, 10)])]
  /\ shown (after sa0 (CChmod (s "/d/f") 384)) = shown (after sr0 (CChmod (s "/d/f") 384)).
Proof. vm_compute. repeat split; reflexivity. Qed.

Example T20_counter_chown_chtimes :
  shown (after sr0 (CChown (s "/g") 1 2)) =
    [(s "/", 0, None); (s "/d", 0, None); (s "/d/f", 700, Some [(1, 0, 700)]); (s "/g", 0, Some [(2, 0, 10)])]
  /\ shown (after sr0 (CChtimes (s "/g") 1 2)) = shown (after sr0 (CChown (s "/g") 1 2))
  /\ shown (after sa0 (CChown (s "/g") 1 2)) = shown (after sr0 (CChown (s "/g") 1 2)).
Proof. vm_compute. repeat split; reflexivity. Qed.

Example T20_counter_rename :
  shown (after sr0 (CRename (s "/g") (s "/gg"))) =
    [(s "/", 0, None); (s "/d", 0, None); (s "/d/f", 700, Some [(1, 0, 700)]); (s "/gg", 0, Some [(2, 0, 10)])]
  /\ shown (after sr0 (CRename (s "/d") (s "/dd"))) =
    [(s "/", 0, None); (s "/dd", 0, None); (s "/dd/f", 0, Some [(1, 0, 700)]); (s "/g", 10, Some [(2, 0, 10)])]
  /\ shown (after sa0 (CRename (s "/d") (s "/dd"))) = shown (after sr0 (CRename (s "/d") (s "/dd"))).
Proof. vm_compute. repeat split; reflexivity. Qed.

(* writes through OpenFile are right: append 5 bytes to the 10, overwrite the first 5 in place *)
Example T20_counter_writes_fine :
  shown (after sr0 (CWriteFile (s "/g") (fl 1 true false false false) 420 [(9, 0, 5)] false)) =
    [(s "/", 0, None); (s "/d", 0, None); (s "/d/f", 700, Some [(1, 0, 700)]); (s "/g", 15, Some [(2, 0, 10); (9, 0, 5)])]
  /\ shown (after sr0 (CWriteFile (s "/g") (fl 1 false false false false) 420 [(9, 0, 5)] false)) =
    [(s "/", 0, None); (s "/d", 0, None); (s "/d/f", 700, Some [(1, 0, 700)]); (s "/g", 10, Some [(9, 0, 5); (2, 5, 5)])].
Proof. vm_compute. split; reflexivity. Qed.

(* (2) [Good] is false for this twin, and Chmod departs from the reference: the reference keeps the 700 bytes *)
Definition size_okb (r : row) : bool :=
  match pax_get K_usize (r_pax r) with
  | Some v => match undecimal v with Some n => (n =? r_size r)%N | None => false end
  | None => (r_size r =? 0)%N
  end.
Lemma size_ok_b l : sizes_ok l -> forallb size_okb l = true.
Proof.
  induction 1 as [|r l Hr _ IH]; [reflexivity|]. cbn [forallb]. rewrite IH, andb_true_r. unfold size_ok in Hr. unfold size_okb.
  destruct (pax_get K_usize (r_pax r)) as [v|]; [rewrite Hr|rewrite Hr]; apply N.eqb_refl.
Qed.

Example T20_counter_not_Good : ~ Good true cc sa0.
Proof.
  intros [[_ Hsz] _]. apply size_ok_b in Hsz. vm_compute in Hsz. discriminate.
Qed.

Example T20_counter_reference_departs :
  let s' := after sa0 (CChmod (s "/d/f") 384) in
  option_map n_size (T02Ns.lookup (abs sa0) (s "/d/f")) = Some 700 /\
  option_map n_size (T02Ns.lookup (fst (spec_chmod (abs sa0) (s "/d/f") 384)) (s "/d/f")) = Some 700 /\
  option_map n_size (T02Ns.lookup (abs s') (s "/d/f")) = Some 0.
Proof. vm_compute. repeat split; reflexivity. Qed.
