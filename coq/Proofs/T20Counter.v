(* T20 / Counter: what the twin shows about ORIGINAL members of a foreign archive (compiled, by computation).

   Archive (style "./"): "./", "./d/", "./d/f" (regular, 700 bytes), "./g" (regular, 10 bytes) - the C17_demo archive.

   HISTORY.  This file used to hold a FINDING about the modelled code: a metadata update of an original NON-EMPTY regular
   member - Chmod, Chown, Chtimes, Rename of the member, Rename of a directory above it - left the member with recorded
   size 0 (the update record carries tape size 0, the replay takes the size from the PAX record STFS.UncompressedSize,
   which a foreign header does not have).  The code was fixed: a content-less record gets the size record from the known
   size when it has none and the size is positive ([keep_size] in Model/Ops.v).  The same archive and the same calls now
   show the POSITIVE facts:
   (1) the sizes are kept (700 / 10) by Chmod, Chown, Chtimes, Rename of the member, Rename of a directory above it,
       archive and twin alike; writes through OpenFile are right as before;
   (2) the twin IS a [Good] state of the T02 reference theorems ([T20_twin_Good], no [empty_files] hypothesis any more), and
       Chmod agrees with the reference ([spec_chmod] keeps the size, so does the implementation);
   (3) what remains excluded: a member of 10^40 bytes or more ([sizes_bounded] of T20Good.v, the bound of every T02
       theorem): the added record is rendered with 40 digits at most and decodes to another size. *)
From Coq Require Import String List NArith ZArith Bool.
Import ListNotations.
From STFS Require Import Str Db Tape Index Ops Fs Diff Norm C01Sim T02Ns T02Db T02Calls T02Spec
  T17Tree T17Forest T17Rebuild T17Test T19Rel T19Test T20Twin T20Test T20Demo T20Good.
Open Scope N_scope.
Open Scope string_scope.

Definition cc : cfg := tcf 20.
Definition sr0 : sys := opened cc (archive_of DotSlash tdemo).
Definition sa0 : sys := twin cc DotSlash tdemo.
Definition shown (s : sys) : list (str * N * option content) := map (fun e => (e_path e, e_size e, e_data e)) (view cc s).
Definition after (s : sys) (k : call) : sys := fst (step cc (with_env s (e0 5)) k).

(* before: as the writer stored them *)
Example T20_counter_before :
  shown sr0 = [(s "/", 0, None); (s "/d", 0, None); (s "/d/f", 700, Some [(1, 0, 700)]); (s "/g", 10, Some [(2, 0, 10)])]
  /\ shown sa0 = shown sr0.
Proof. vm_compute. split; reflexivity. Qed.

(* (1) after a metadata call the member's size is KEPT; archive and twin alike; each call returns OOk *)
Example T20_fixed_chmod :
  snd (step cc (with_env sr0 (e0 5)) (CChmod (s "/d/f") 384)) = OOk /\
  shown (after sr0 (CChmod (s "/d/f") 384)) =
    [(s "/", 0, None); (s "/d", 0, None); (s "/d/f", 700, Some [(1, 0, 700)]); (s "/g", 10, Some [(2, 0, 10)])]
  /\ shown (after sa0 (CChmod (s "/d/f") 384)) = shown (after sr0 (CChmod (s "/d/f") 384)).
Proof. vm_compute. repeat split; reflexivity. Qed.

Example T20_fixed_chown_chtimes :
  shown (after sr0 (CChown (s "/g") 1 2)) =
    [(s "/", 0, None); (s "/d", 0, None); (s "/d/f", 700, Some [(1, 0, 700)]); (s "/g", 10, Some [(2, 0, 10)])]
  /\ shown (after sr0 (CChtimes (s "/g") 1 2)) = shown (after sr0 (CChown (s "/g") 1 2))
  /\ shown (after sa0 (CChown (s "/g") 1 2)) = shown (after sr0 (CChown (s "/g") 1 2)).
Proof. vm_compute. repeat split; reflexivity. Qed.

Example T20_fixed_rename :
  shown (after sr0 (CRename (s "/g") (s "/gg"))) =
    [(s "/", 0, None); (s "/d", 0, None); (s "/d/f", 700, Some [(1, 0, 700)]); (s "/gg", 10, Some [(2, 0, 10)])]
  /\ shown (after sr0 (CRename (s "/d") (s "/dd"))) =
    [(s "/", 0, None); (s "/dd", 0, None); (s "/dd/f", 700, Some [(1, 0, 700)]); (s "/g", 10, Some [(2, 0, 10)])]
  /\ shown (after sa0 (CRename (s "/d") (s "/dd"))) = shown (after sr0 (CRename (s "/d") (s "/dd"))).
Proof. vm_compute. repeat split; reflexivity. Qed.

(* the size record the call added: the row of "/d/f" has none before, and STFS.UncompressedSize = "700" afterwards; a second
   metadata call finds the record and keeps it *)
Definition usize_of (sy : sys) (n : str) : option str :=
  match find (fun r => eqb_str (r_name r) n) (rows (db sy)) with Some r => pax_get K_usize (r_pax r) | None => None end.
Example T20_fixed_record :
  usize_of sa0 (s "/d/f") = None /\
  usize_of (after sa0 (CChmod (s "/d/f") 384)) (s "/d/f") = Some (s "700") /\
  usize_of (after (after sa0 (CChmod (s "/d/f") 384)) (CChown (s "/d/f") 1 2)) (s "/d/f") = Some (s "700") /\
  shown (after (after sa0 (CChmod (s "/d/f") 384)) (CChown (s "/d/f") 1 2)) = shown sa0.
Proof. vm_compute. repeat split; reflexivity. Qed.

(* writes through OpenFile are right: append 5 bytes to the 10, overwrite the first 5 in place *)
Example T20_counter_writes_fine :
  shown (after sr0 (CWriteFile (s "/g") (fl 1 true false false false) 420 [(9, 0, 5)] false)) =
    [(s "/", 0, None); (s "/d", 0, None); (s "/d/f", 700, Some [(1, 0, 700)]); (s "/g", 15, Some [(2, 0, 10); (9, 0, 5)])]
  /\ shown (after sr0 (CWriteFile (s "/g") (fl 1 false false false false) 420 [(9, 0, 5)] false)) =
    [(s "/", 0, None); (s "/d", 0, None); (s "/d/f", 700, Some [(1, 0, 700)]); (s "/g", 10, Some [(9, 0, 5); (2, 5, 5)])].
Proof. vm_compute. split; reflexivity. Qed.

(* (2) [Good] holds for this twin (an instance of T20_twin_Good), and Chmod agrees with the reference: both keep the 700 bytes *)
Lemma tdemo_bounded : sizes_bounded tdemo.
Proof.
  assert (B : forallb (fun i => (clen (i_data i) <? 10 ^ 40)%N) (items tdemo) = true) by (vm_compute; reflexivity).
  rewrite forallb_forall in B. unfold sizes_bounded. apply Forall_forall. intros i Hi _. apply N.ltb_lt. apply B. exact Hi.
Qed.

Example T20_fixed_Good : Good true cc sa0.
Proof. apply T20_twin_Good; [exact cc_plain|reflexivity|exact I|reflexivity|exact tdemo_wf|exact tdemo_bounded]. Qed.

Example T20_fixed_reference_agrees :
  let s' := after sa0 (CChmod (s "/d/f") 384) in
  option_map n_size (T02Ns.lookup (abs sa0) (s "/d/f")) = Some 700 /\
  option_map n_size (T02Ns.lookup (fst (spec_chmod (abs sa0) (s "/d/f") 384)) (s "/d/f")) = Some 700 /\
  option_map n_size (T02Ns.lookup (abs s') (s "/d/f")) = Some 700 /\
  ns_eqb (abs s') (fst (spec_chmod (abs sa0) (s "/d/f") 384)) = true.
Proof. vm_compute. repeat split; reflexivity. Qed.

(* (3) the bound [sizes_bounded] is needed: a member of 10^40 + 7 bytes.  The record added by Chmod is the last 40 digits
   ("00...07"), the replay stores 7; the reference keeps the size.  Archive and twin alike. *)
Definition tbig : tree := {| t_meta := tmt 1; t_kids := [File (s "f") (tmt 1) [(1, 0, 10 ^ 40 + 7)]] |}.
Definition sizes (sy : sys) : list (str * N) := map (fun e => (e_path e, e_size e)) (view cc sy).
Example T20_counter_bound :
  sizes (twin cc DotSlash tbig) = [(s "/", 0); (s "/f", 10 ^ 40 + 7)] /\
  sizes (after (twin cc DotSlash tbig) (CChmod (s "/f") 384)) = [(s "/", 0); (s "/f", 7)] /\
  sizes (after (opened cc (archive_of DotSlash tbig)) (CChmod (s "/f") 384)) = [(s "/", 0); (s "/f", 7)] /\
  option_map n_size (T02Ns.lookup (fst (spec_chmod (abs (twin cc DotSlash tbig)) (s "/f") 384)) (s "/f")) = Some (10 ^ 40 + 7).
Proof. vm_compute. repeat split; reflexivity. Qed.

Example T20_counter_bound_not_Good : ~ Good true cc (twin cc DotSlash tbig).
Proof.
  intros [[_ Hsz] _]. unfold sizes_ok in Hsz. rewrite Forall_forall in Hsz.
  assert (Hin : exists r, In r (rows (db (twin cc DotSlash tbig))) /\ pax_get K_usize (r_pax r) = None /\ r_size r = 10 ^ 40 + 7).
  { eexists. split; [right; left; reflexivity|]. split; reflexivity. }
  destruct Hin as (r & Hr & Hp & Hs). specialize (Hsz r Hr). unfold size_ok in Hsz. rewrite Hp, Hs in Hsz.
  apply N.ltb_lt in Hsz. vm_compute in Hsz. discriminate.
Qed.
