(* T05 / shape of the tape (C05): at rest the tape is a concatenation of well-formed archives -- one or more
   members followed by one two-block trailer -- for ALL histories: any calls (operation-level ones included),
   any outcomes, any configuration, any environment oracle.  Every call appends zero or more such archives.
   The decomposition is unique and decidable ([parse]). *)
From Coq Require Import List NArith ZArith Bool Lia.
From Coq Require Import ZifyN ZifyBool.
Import ListNotations.
From STFS Require Import Str Db Tape Index Ops Fs Diff TapeLemmas Append T05Gen.
Open Scope N_scope.

Definition nonempty {A} (l : list A) : Prop := l <> [].

(* one archive: its members, then the end-of-archive trailer *)
Definition arch (ms : list member) : tape := map TM ms ++ [TT].
Definition archs (l : list (list member)) : tape := flat_map arch l.

(* a tape is a sequence of archives, none of them empty *)
Definition archives (t : tape) : Prop := exists l, Forall nonempty l /\ t = archs l.

(* the same as an inductive predicate *)
Inductive archives_ind : tape -> Prop :=
| A_nil : archives_ind []
| A_cons m ms t : archives_ind t -> archives_ind (TM m :: map TM ms ++ TT :: t).

Lemma archs_app l1 l2 : archs (l1 ++ l2) = archs l1 ++ archs l2.
Proof. unfold archs. apply flat_map_app. Qed.

Lemma archs_cons ms l : archs (ms :: l) = map TM ms ++ TT :: archs l.
Proof. unfold archs, arch. cbn [flat_map]. rewrite <- app_assoc. reflexivity. Qed.

Lemma archives_ind_iff t : archives t <-> archives_ind t.
Proof.
  split.
  - intros [l [Hl ->]]. induction l as [|ms l IH]; [constructor|].
    inversion Hl as [|? ? Hms Hl']; subst. rewrite archs_cons.
    destruct ms as [|m ms]; [exfalso; apply Hms; reflexivity|]. cbn [map app]. constructor. apply IH. exact Hl'.
  - induction 1 as [|m ms t _ [l [Hl ->]]]; [exists []; split; [constructor|reflexivity]|].
    exists ((m :: ms) :: l). split; [constructor; [discriminate|exact Hl]|]. rewrite archs_cons. reflexivity.
Qed.

(* ---- the decomposition is decidable and unique *)

(* [cur]: members of the archive being read, oldest first *)
Fixpoint parse (t : tape) (cur : list member) : option (list (list member)) :=
  match t with
  | [] => match cur with [] => Some [] | _ => None end
  | TM m :: r => parse r (cur ++ [m])
  | TT :: r => match cur with
               | [] => None
               | _ => match parse r [] with Some l => Some (cur :: l) | None => None end
               end
  end.

Lemma parse_members ms : forall cur r, parse (map TM ms ++ r) cur = parse r (cur ++ ms).
Proof.
  induction ms as [|m ms IH]; intros cur r; cbn [map app parse]; [rewrite app_nil_r; reflexivity|].
  rewrite IH, <- app_assoc. reflexivity.
Qed.

Lemma parse_archs l : Forall nonempty l -> parse (archs l) [] = Some l.
Proof.
  induction l as [|ms l IH]; intro H; [reflexivity|]. inversion H as [|? ? Hms Hl]; subst.
  rewrite archs_cons, parse_members. cbn [app parse]. destruct ms; [exfalso; apply Hms; reflexivity|].
  rewrite (IH Hl). reflexivity.
Qed.

Lemma parse_sound t : forall cur l, parse t cur = Some l ->
  match l with
  | [] => cur = [] /\ t = []
  | ms :: l' => exists rest, ms = cur ++ rest /\ ms <> [] /\ t = map TM rest ++ TT :: archs l' /\ Forall nonempty l'
  end.
Proof.
  induction t as [|[m|] r IH]; intros cur l H; cbn [parse] in H.
  - destruct cur; [|discriminate]. inversion H; subst. split; reflexivity.
  - specialize (IH _ _ H). destruct l as [|ms l'].
    + destruct IH as [E _]. destruct cur; discriminate.
    + destruct IH as [rest [E1 [E2 [E3 E4]]]]. exists (m :: rest). rewrite <- app_assoc in E1. cbn in E1.
      repeat split; try assumption. cbn [map app]. rewrite E3. reflexivity.
  - destruct cur as [|m0 cur]; [discriminate|]. destruct (parse r []) as [l0|] eqn:E; [|discriminate].
    inversion H; subst. exists []. rewrite app_nil_r. repeat split; [discriminate| |].
    + cbn [map app]. f_equal. specialize (IH _ _ E). destruct l0 as [|ms l'].
      * destruct IH as [_ ->]. reflexivity.
      * destruct IH as [rest [E1 [E2 [E3 E4]]]]. cbn [app] in E1. subst rest. rewrite archs_cons. exact E3.
    + specialize (IH _ _ E). destruct l0 as [|ms l']; [constructor|].
      destruct IH as [rest [E1 [E2 [E3 E4]]]]. constructor; assumption.
Qed.

Theorem parse_spec t l : parse t [] = Some l <-> Forall nonempty l /\ t = archs l.
Proof.
  split.
  - intro H. apply parse_sound in H. destruct l as [|ms l'].
    + destruct H as [_ ->]. split; [constructor|reflexivity].
    + destruct H as [rest [E1 [E2 [E3 E4]]]]. cbn [app] in E1. subst rest. split; [constructor; assumption|].
      rewrite archs_cons. exact E3.
  - intros [H ->]. apply parse_archs. exact H.
Qed.

Corollary archives_iff_parse t : archives t <-> exists l, parse t [] = Some l.
Proof. split; intros [l H]; exists l; apply parse_spec; exact H. Qed.

Corollary archives_dec t : {archives t} + {~ archives t}.
Proof.
  destruct (parse t []) as [l|] eqn:E.
  - left. exists l. apply parse_spec. exact E.
  - right. intros [l H]. apply parse_spec in H. congruence.
Qed.

Corollary archs_unique l l' : Forall nonempty l -> Forall nonempty l' -> archs l = archs l' -> l = l'.
Proof.
  intros H H' E. pose proof (parse_archs l H) as P. rewrite E, (parse_archs l' H') in P. congruence.
Qed.

(* ---- every call appends archives *)

Definition appends_archives (t t' : tape) : Prop := exists l, Forall nonempty l /\ t' = t ++ archs l.

Lemma aa_refl t : appends_archives t t.
Proof. exists []. split; [constructor|]. cbn. rewrite app_nil_r. reflexivity. Qed.

Lemma aa_trans a b c : appends_archives a b -> appends_archives b c -> appends_archives a c.
Proof.
  intros [l1 [H1 ->]] [l2 [H2 ->]]. exists (l1 ++ l2). split; [apply Forall_app; split; assumption|].
  rewrite archs_app, app_assoc. reflexivity.
Qed.

Lemma aa_app t ms : appends_archives t (t ++ map TM ms ++ (match ms with [] => [] | _ => [TT] end)).
Proof.
  destruct ms as [|m ms].
  - exists []. split; [constructor|reflexivity].
  - exists [m :: ms]. split; [constructor; [discriminate|constructor]|].
    unfold archs, arch. cbn [flat_map]. rewrite app_nil_r. reflexivity.
Qed.

(* one call: the new tape is the old one followed by zero or more complete archives *)
Theorem T05_step_appends_archives : forall c s k,
  exists l, Forall nonempty l /\ tp (fst (step c s k)) = tp s ++ flat_map (fun ms => map TM ms ++ [TT]) l.
Proof. intros c s k. exact (step_R appends_archives aa_refl aa_trans aa_app c s k). Qed.

Theorem T05_final_appends_archives : forall c h s,
  exists l, Forall nonempty l /\ tp (final c s h) = tp s ++ flat_map (fun ms => map TM ms ++ [TT]) l.
Proof. intros c h s. exact (final_R appends_archives aa_refl aa_trans aa_app c h s). Qed.

(* the shape is an invariant of every call ... *)
Theorem T05_step_preserves_archives : forall c s k, archives (tp s) -> archives (tp (fst (step c s k))).
Proof.
  intros c s k [l0 [H0 E0]]. destruct (T05_step_appends_archives c s k) as [l [H E]].
  exists (l0 ++ l). split; [apply Forall_app; split; assumption|]. rewrite E, E0, archs_app. reflexivity.
Qed.

(* ... and holds after every history from the empty tape *)
Theorem T05_tape_is_archives : forall c h, archives (tp (final c init_sys h)).
Proof.
  intros c h. destruct (T05_final_appends_archives c h init_sys) as [l [H E]]. exists l. split; [exact H|exact E].
Qed.

Corollary T05_tape_is_archives_ind : forall c h, archives_ind (tp (final c init_sys h)).
Proof. intros c h. apply archives_ind_iff. apply T05_tape_is_archives. Qed.

(* immediate consequences of the shape: a non-empty tape begins with a member and ends with a trailer *)
Lemma archives_head t : archives t -> t = [] \/ exists m r, t = TM m :: r.
Proof.
  intro H. apply archives_ind_iff in H. destruct H; [left; reflexivity|right]. eauto.
Qed.

Lemma archives_last t : archives t -> t = [] \/ exists r m, t = r ++ [TM m; TT].
Proof.
  intros [l [Hl ->]]. destruct l as [|ms l] using rev_ind; [left; reflexivity|right].
  apply Forall_app in Hl as [_ Hms]. inversion Hms as [|? ? Hne _]; subst.
  rewrite archs_app. destruct ms as [|m ms] using rev_ind; [exfalso; apply Hne; reflexivity|].
  exists (archs l ++ map TM ms), m. unfold archs at 2, arch. cbn [flat_map]. rewrite app_nil_r, map_app. cbn [map].
  rewrite <- !app_assoc. reflexivity.
Qed.

(* no two trailers in a row, and never a trailer first *)
Lemma archives_no_double_trailer t : archives t -> forall a b, t <> a ++ TT :: TT :: b.
Proof.
  intro H. apply archives_ind_iff in H. induction H as [|m ms t H IH]; intros a b E.
  - destruct a; discriminate.
  - destruct a as [|x a]; [discriminate|]. cbn [app] in E. inversion E as [[E1 E2]]. clear E E1.
    revert a E2. induction ms as [|m1 ms IHms]; intros a E2; cbn [map app] in E2.
    + destruct a as [|y a]; cbn [app] in E2.
      * inversion E2 as [E3]. destruct H; discriminate.
      * inversion E2 as [[E3 E4]]. exact (IH a b E4).
    + destruct a as [|y a]; cbn [app] in E2; [discriminate|]. inversion E2. eapply IHms. eassumption.
Qed.

Print Assumptions T05_tape_is_archives.
Print Assumptions T05_step_appends_archives.
