(* T13 / effects: what replaying one header does to the type map of the live rows. *)
From Coq Require Import List NArith ZArith Bool Lia.
From Coq Require Import ZifyN ZifyBool.
Import ListNotations.
From STFS Require Import Str Db Tape Index Norm C01Str C01Db C01Inv C01Sim T13Path T13Def.
Open Scope N_scope.

(* ---------- list level *)
Lemma tfo_cons y l m : tfo (y :: l) m = if live y && eqb_str (r_name y) m then Some (r_tf y) else tfo l m.
Proof. unfold tfo. cbn [find]. destruct (live y && eqb_str (r_name y) m); reflexivity. Qed.

Lemma tfo_notin l n : ~ In n (map r_name l) -> tfo l n = None.
Proof.
  induction l as [|y l IH]; intro H; [reflexivity|]. rewrite tfo_cons.
  assert (E : eqb_str (r_name y) n = false) by (apply eqb_str_neq; intro K; apply H; left; exact K).
  rewrite E, andb_false_r. apply IH. intro K. apply H. right. exact K.
Qed.

Definition setv (new : row) : option N := if live new then Some (r_tf new) else None.

Lemma tfo_replace l n new : Forall rowok l -> NoDup (map r_name l) -> r_name new = n -> has_name l n = true ->
  forall m, tfo (replace_row n [] new l) m = if eqb_str m n then setv new else tfo l m.
Proof.
  intros Hok Hnd Hn. induction l as [|y t IH]; intros Hhas m; [discriminate|].
  inversion Hok as [|? ? Hy Ht]; subst. cbn [map] in Hnd. inversion Hnd as [|? ? Hnot Hnd']; subst.
  destruct Hy as (_ & Hk & _). cbn [replace_row]. rewrite (key_eq_nil _ y Hk).
  destruct (eqb_str (r_name y) (r_name new)) eqn:E.
  - apply eqb_str_eq in E. rewrite !tfo_cons. rewrite E.
    destruct (eqb_str m (r_name new)) eqn:Em.
    + apply eqb_str_eq in Em. subst m. rewrite eqb_str_refl, andb_true_r. unfold setv.
      destruct (live new); [reflexivity|]. apply tfo_notin. rewrite <- E. exact Hnot.
    + rewrite (eqb_str_sym (r_name new) m), Em, !andb_false_r. reflexivity.
  - rewrite !tfo_cons. cbn [has_name existsb] in Hhas. unfold has_name in IH. rewrite E in Hhas. cbn [orb] in Hhas.
    destruct (live y && eqb_str (r_name y) m) eqn:Ey.
    + apply andb_true_iff in Ey as [_ Ey]. apply eqb_str_eq in Ey. subst m. rewrite E. reflexivity.
    + apply IH; assumption.
Qed.

Lemma tfo_app_new l r : has_name l (r_name r) = false ->
  forall m, tfo (l ++ [r]) m = if eqb_str m (r_name r) then setv r else tfo l m.
Proof.
  induction l as [|y t IH]; intros Hhas m.
  - cbn [app]. rewrite tfo_cons. rewrite (eqb_str_sym (r_name r) m). unfold setv.
    destruct (eqb_str m (r_name r)); [rewrite andb_true_r; destruct (live r); reflexivity|rewrite andb_false_r; reflexivity].
  - cbn [app]. rewrite !tfo_cons. cbn [has_name existsb] in Hhas. apply orb_false_iff in Hhas as [H1 H2].
    destruct (live y && eqb_str (r_name y) m) eqn:Ey.
    + apply andb_true_iff in Ey as [_ Ey]. apply eqb_str_eq in Ey. subst m. rewrite H1. reflexivity.
    + apply IH. exact H2.
Qed.

Lemma tfo_upsert l r : Forall rowok l -> NoDup (map r_name l) -> r_link r = [] ->
  forall m, tfo (upsert_rows l r) m = if eqb_str m (r_name r) then setv r else tfo l m.
Proof.
  intros Hok Hnd Hk m. unfold upsert_rows. rewrite Hk. rewrite has_key_nil by exact Hok.
  destruct (has_name l (r_name r)) eqn:E.
  - apply tfo_replace; try assumption. reflexivity.
  - apply tfo_app_new. exact E.
Qed.

Lemma tfo_mv l o n a b : n <> o ->
  forall m, tfo (map (mv_fun o n a b) (filter (fun r => negb (eqb_str (r_name r) n)) l)) m
            = if eqb_str m n then tfo l o else if eqb_str m o then None else tfo l m.
Proof.
  intros Hne m. induction l as [|y t IH]; [cbn; destruct (eqb_str m n), (eqb_str m o); reflexivity|].
  cbn [filter]. rewrite !tfo_cons.
  destruct (eqb_str (r_name y) n) eqn:E1; cbn [negb].
  - apply eqb_str_eq in E1. rewrite IH. rewrite E1.
    assert (Eno : eqb_str n o = false) by (apply eqb_str_neq; exact Hne). rewrite Eno, andb_false_r.
    destruct (eqb_str m n) eqn:Em; [reflexivity|]. destruct (eqb_str m o); [reflexivity|].
    rewrite (eqb_str_sym n m), Em, andb_false_r. reflexivity.
  - cbn [map]. rewrite tfo_cons.
    destruct (eqb_str (r_name y) o) eqn:E2.
    + assert (Emv : mv_fun o n a b y = set_lk (set_name y n) a b (r_del y)) by (unfold mv_fun; rewrite E2; reflexivity).
      rewrite Emv. apply eqb_str_eq in E2.
      change (r_name (set_lk (set_name y n) a b (r_del y))) with n.
      change (r_tf (set_lk (set_name y n) a b (r_del y))) with (r_tf y).
      change (live (set_lk (set_name y n) a b (r_del y))) with (live y).
      rewrite IH. rewrite (eqb_str_sym n m).
      destruct (eqb_str m n) eqn:Em.
      * rewrite andb_true_r. destruct (live y); reflexivity.
      * rewrite andb_false_r. destruct (eqb_str m o) eqn:Emo; [reflexivity|].
        rewrite E2, (eqb_str_sym o m), Emo, andb_false_r. reflexivity.
    + assert (Emv : mv_fun o n a b y = y) by (unfold mv_fun; rewrite E2; reflexivity).
      rewrite Emv. rewrite IH.
      destruct (live y && eqb_str (r_name y) m) eqn:Ey.
      * apply andb_true_iff in Ey as [_ Ey]. apply eqb_str_eq in Ey. subst m. rewrite E1, E2. reflexivity.
      * rewrite andb_false_r. reflexivity.
Qed.

(* ---------- one header *)
Section Eff.
Variables (hr : bool) (c : cfg) (rec blk : N) (h : hdr) (lv : pstate).
Hypothesis HP : plain c.
Hypothesis HL : LI hr lv.
Hypothesis HN : hnames_ok hr h.
Hypothesis HV : ver_ok h.

Let Hrows : Forall rowok (rows lv).
Proof. apply HL. Qed.
Let Hnd : NoDup (map r_name (rows lv)).
Proof. apply HL. Qed.

Lemma eff_create lv' : h_act h = V_create -> index_header c rec blk h false lv = (lv', Ok tt) ->
  forall m, tfo (rows lv') m = if eqb_str m (h_name h) then Some (h_tf h) else tfo (rows lv) m.
Proof.
  intros Ha E m. destruct (ih_live_start hr c rec blk h lv HP HN) as (sz & E0). rewrite E0 in E. clear E0.
  unfold ih_body in E.
  change (h_pax (with_size_name h sz (h_name h))) with (h_pax h) in E.
  rewrite (ver_ok_test h HV) in E.
  change (h_act (with_size_name h sz (h_name h))) with (h_act h) in E. rewrite Ha in E.
  change (eqb_str V_create V_create) with true in E. cbn iota in E.
  rewrite (upsert_lv hr) in E; [|exact HL|apply HN].
  inversion E; subst lv'. rewrite with_rows_rows.
  rewrite tfo_upsert; [reflexivity|exact Hrows|exact Hnd|]. cbn. apply HN.
Qed.

Lemma eff_delete lv' : h_act h = V_delete -> live_name (rows lv) (h_name h) = true ->
  index_header c rec blk h false lv = (lv', Ok tt) ->
  forall m, tfo (rows lv') m = if eqb_str m (h_name h) then None else tfo (rows lv) m.
Proof.
  intros Ha Hlive E m. destruct (ih_live_start hr c rec blk h lv HP HN) as (sz & E0). rewrite E0 in E. clear E0.
  unfold ih_body in E.
  change (h_pax (with_size_name h sz (h_name h))) with (h_pax h) in E.
  rewrite (ver_ok_test h HV) in E.
  change (h_act (with_size_name h sz (h_name h))) with (h_act h) in E. rewrite Ha in E.
  change (eqb_str V_delete V_create) with false in E. change (eqb_str V_delete V_delete) with true in E. cbn iota in E.
  change (h_name (with_size_name h sz (h_name h))) with (h_name h) in E.
  rewrite (delete_row_lv hr) in E; [|exact HL|apply HN].
  destruct (find_rows_live _ _ Hlive) as (r & Ef). rewrite Ef in E. cbn [lift] in E.
  inversion E; subst lv'. rewrite with_rows_rows.
  rewrite tfo_replace; [reflexivity|exact Hrows|exact Hnd| |apply live_name_has; exact Hlive].
  cbn. apply find_rows_some in Ef. apply Ef.
Qed.

Lemma eff_update lv' : h_act h = V_update -> h_rep h = None -> live_name (rows lv) (h_name h) = true ->
  index_header c rec blk h false lv = (lv', Ok tt) ->
  forall m, tfo (rows lv') m = if eqb_str m (h_name h) then Some (h_tf h) else tfo (rows lv) m.
Proof.
  intros Ha Hr Hlive E m. destruct (ih_live_start hr c rec blk h lv HP HN) as (sz & E0). rewrite E0 in E. clear E0.
  unfold ih_body in E.
  change (h_pax (with_size_name h sz (h_name h))) with (h_pax h) in E.
  rewrite (ver_ok_test h HV) in E.
  change (h_act (with_size_name h sz (h_name h))) with (h_act h) in E. rewrite Ha in E.
  change (eqb_str V_update V_create) with false in E. change (eqb_str V_update V_delete) with false in E.
  change (eqb_str V_update V_update) with true in E. cbn iota in E.
  unfold upd_body in E.
  change (h_rep (with_size_name h sz (h_name h))) with (h_rep h) in E. rewrite Hr in E.
  change (h_pax (with_size_name h sz (h_name h))) with (h_pax h) in E.
  change (h_name (with_size_name h sz (h_name h))) with (h_name h) in E.
  assert (Hhas : has_name (rows lv) (h_name h) = true) by (apply live_name_has; exact Hlive).
  assert (G : good (h_name h)) by apply HN.
  assert (Hlk : h_link h = []) by apply HN.
  assert (CU : forall r1 r2,
     lift (lv, Ok tt) (fun p _ => update_meta p (row_of_hdr r1 rec r2 blk (with_size_name h sz (h_name h)))) = (lv', Ok tt) ->
     tfo (rows lv') m = if eqb_str m (h_name h) then Some (h_tf h) else tfo (rows lv) m).
  { intros r1 r2 K. cbn [lift] in K. rewrite (update_meta_lv hr) in K; [|exact HL|exact G].
    inversion K; subst lv'. rewrite with_rows_rows.
    change (r_link (row_of_hdr r1 rec r2 blk (with_size_name h sz (h_name h)))) with (h_link h). rewrite Hlk.
    change (r_name (row_of_hdr r1 rec r2 blk (with_size_name h sz (h_name h)))) with (h_name h).
    rewrite tfo_replace; [reflexivity|exact Hrows|exact Hnd|reflexivity|exact Hhas]. }
  assert (MU :
     match get_header lv (h_name h) with
     | (p, Ok o) => lift (p, Ok tt) (fun p _ => update_meta p (row_of_hdr (r_rec o) rec (r_blk o) blk (with_size_name h sz (h_name h))))
     | (p, NoRows) => (p, Ok tt) | (p, Unique) => (p, Unique) | (p, Fail e) => (p, Fail e) end = (lv', Ok tt) ->
     tfo (rows lv') m = if eqb_str m (h_name h) then Some (h_tf h) else tfo (rows lv) m).
  { rewrite (get_header_lv hr); [|exact HL|exact G].
    destruct (find_rows_live _ _ Hlive) as (r & Ef). rewrite Ef. apply CU. }
  destruct (pax_get K_replaces_content (h_pax h)) as [v|]; [|exact (MU E)].
  destruct (eqb_str v V_true); [exact (CU _ _ E)|exact (MU E)].
Qed.

Lemma eff_move lv' o : h_act h = V_update -> h_rep h = Some o -> live_name (rows lv) o = true ->
  index_header c rec blk h false lv = (lv', Ok tt) ->
  forall m, tfo (rows lv') m = if eqb_str m (h_name h) then Some (h_tf h)
                               else if eqb_str m o then None else tfo (rows lv) m.
Proof.
  intros Ha Hr Hlive E m. destruct (ih_live_start hr c rec blk h lv HP HN) as (sz & E0). rewrite E0 in E. clear E0.
  unfold ih_body in E.
  change (h_pax (with_size_name h sz (h_name h))) with (h_pax h) in E.
  rewrite (ver_ok_test h HV) in E.
  change (h_act (with_size_name h sz (h_name h))) with (h_act h) in E. rewrite Ha in E.
  change (eqb_str V_update V_create) with false in E. change (eqb_str V_update V_delete) with false in E.
  change (eqb_str V_update V_update) with true in E. cbn iota in E.
  unfold upd_body in E.
  change (h_rep (with_size_name h sz (h_name h))) with (h_rep h) in E. rewrite Hr in E.
  change (h_pax (with_size_name h sz (h_name h))) with (h_pax h) in E.
  change (h_name (with_size_name h sz (h_name h))) with (h_name h) in E.
  destruct (hn_rep hr h HN Ha o Hr) as (Go & Ho & Hn & Hne).
  assert (Hhas : has_name (rows lv) o = true) by (apply live_name_has; exact Hlive).
  assert (G : good (h_name h)) by apply HN.
  assert (Hlk : h_link h = []) by apply HN.
  pose proof (move_list_live (rows lv) o (h_name h) rec blk Hrows Hne) as EM.
  set (l1 := map (mv_fun o (h_name h) rec blk) (mv_rows1 (rows lv) o (h_name h))) in *.
  assert (LL1 : LL hr l1) by (apply mv_result_LL; try assumption; apply HL).
  destruct (mv_result_stamp (rows lv) o (h_name h) rec blk Hne Hhas) as (St1 & Hn1). fold l1 in St1, Hn1.
  assert (MVE : move_rows lv o (h_name h) rec blk = (with_rows lv l1, Ok tt)).
  { rewrite (move_rows_lv hr) by assumption. rewrite EM. reflexivity. }
  assert (T1 : forall m, tfo l1 m = if eqb_str m (h_name h) then tfo (rows lv) o
                                    else if eqb_str m o then None else tfo (rows lv) m).
  { intro m0. unfold l1, mv_rows1. rewrite Hhas. apply tfo_mv. exact Hne. }
  assert (CU : forall r1 r2,
     lift (move_rows lv o (h_name h) rec blk) (fun p _ => update_meta p (row_of_hdr r1 rec r2 blk (with_size_name h sz (h_name h)))) = (lv', Ok tt) ->
     tfo (rows lv') m = if eqb_str m (h_name h) then Some (h_tf h) else if eqb_str m o then None else tfo (rows lv) m).
  { intros r1 r2 K. rewrite MVE in K. cbn [lift] in K.
    rewrite (update_meta_lv hr) in K; [|apply LI_with; [exact HL|exact LL1]|exact G].
    inversion K; subst lv'. rewrite !with_rows_rows.
    change (r_link (row_of_hdr r1 rec r2 blk (with_size_name h sz (h_name h)))) with (h_link h). rewrite Hlk.
    change (r_name (row_of_hdr r1 rec r2 blk (with_size_name h sz (h_name h)))) with (h_name h).
    rewrite tfo_replace; [|apply LL1|apply LL1|reflexivity|exact Hn1].
    destruct (eqb_str m (h_name h)) eqn:Em; [reflexivity|]. rewrite T1, Em. reflexivity. }
  assert (MU :
     match get_header lv o with
     | (p, Ok o') => lift (move_rows p o (h_name h) rec blk) (fun p _ => update_meta p (row_of_hdr (r_rec o') rec (r_blk o') blk (with_size_name h sz (h_name h))))
     | (p, NoRows) => move_rows p o (h_name h) rec blk | (p, Unique) => (p, Unique) | (p, Fail e) => (p, Fail e) end = (lv', Ok tt) ->
     tfo (rows lv') m = if eqb_str m (h_name h) then Some (h_tf h) else if eqb_str m o then None else tfo (rows lv) m).
  { rewrite (get_header_lv hr); [|exact HL|exact Go].
    destruct (find_rows_live _ _ Hlive) as (r & Ef). rewrite Ef. apply CU. }
  destruct (pax_get K_replaces_content (h_pax h)) as [v|]; [|exact (MU E)].
  destruct (eqb_str v V_true); [exact (CU _ _ E)|exact (MU E)].
Qed.
End Eff.
