(* T17 / View: a foreign archive, opened: Stat of every member, the listing of every directory, the content of
   every regular member, and the walk of the visible tree - for all well-formed trees and the three root styles. *)
From Coq Require Import List NArith ZArith Bool Lia.
From Coq Require Import ZifyN ZifyBool.
Import ListNotations.
From STFS Require Import Str Db Tape Index Ops Fs TapeLemmas StrLemmas C01Str C01Db C01Sim C01Tape T04Tape
  T13Path T13ListStr T13List T13View T17Tree T17Str T17Forest T17Db T17Rebuild.
Open Scope N_scope.

Definition style_root (st : style) : str := match st with Named top => top | _ => [] end.

(* an index holding the rows of the archive, its root read into the cache *)
Definition Opened (c : cfg) (st : style) (t : tree) (p : pstate) : Prop :=
  rows p = archive_rows c st t /\ root p = style_root st.

Lemma min_depth_first t r : slash_count (r_name r) = 0 -> min_depth_row t (Some r) = Some r.
Proof.
  intro H. induction t as [|x t IH]; [reflexivity|]. cbn [min_depth_row]. rewrite H.
  replace (slash_count (r_name x) <? 0) with false by (symmetry; apply N.ltb_ge; lia). exact IH.
Qed.

(* ---------- names that resolve to a member *)
Definition Res (p : pstate) (name : str) (sc : list str) : Prop :=
  exists p', sanitize p name = (p', join_slash sc) /\ rows p' = rows p.

Lemma res_shown_gen st p q : wf_style st -> root p = style_root st -> (style_root st = [] -> Foreign p) ->
  Forall okc q -> Res p (shown_path st q) (stored_comps st q).
Proof.
  intros Hst Hroot Hf Hq. destruct st as [| |top].
  - destruct (sanitize_foreign p (pth q) (Hf eq_refl)) as (p' & Hs & Hr & _).
    exists p'. split; [|exact Hr]. cbn [shown_path]. fold (pth q). rewrite Hs. rewrite rel_name_pth by exact Hq. reflexivity.
  - destruct (sanitize_foreign p (pth q) (Hf eq_refl)) as (p' & Hs & Hr & _).
    exists p'. split; [|exact Hr]. cbn [shown_path]. fold (pth q). rewrite Hs. rewrite rel_name_pth by exact Hq. reflexivity.
  - cbn in Hroot, Hst. exists p. split; [|reflexivity].
    rewrite sanitize_named by (rewrite Hroot; exact Hst). rewrite Hroot. cbn [shown_path stored_comps].
    destruct q as [|a r].
    + cbn [join_slash]. rewrite eqb_str_refl, orb_true_r. reflexivity.
    + assert (F : Forall okc (top :: a :: r)) by (constructor; assumption).
      rewrite join_is_root by (exact F || discriminate). cbn [orb].
      replace (eqb_str (join_slash (top :: a :: r)) top) with false; [reflexivity|].
      symmetry. apply eqb_str_neq. intro K. change top with (join_slash [top]) in K at 2.
      apply join_inj in K; [discriminate|exact F|constructor; [exact Hst|constructor]].
Qed.

Lemma res_stored_gen st p q : wf_style st -> root p = style_root st -> (style_root st = [] -> Foreign p) ->
  Forall okc q -> Res p (stored_name st q) (stored_comps st q).
Proof.
  intros Hst Hroot Hf Hq. destruct st as [| |top].
  - destruct (sanitize_foreign p (join_slash q) (Hf eq_refl)) as (p' & Hs & Hr & _).
    exists p'. split; [|exact Hr]. unfold stored_name, stored_comps. rewrite Hs. rewrite rel_name_join by exact Hq. reflexivity.
  - destruct (sanitize_foreign p (join_slash q) (Hf eq_refl)) as (p' & Hs & Hr & _).
    exists p'. split; [|exact Hr]. unfold stored_name, stored_comps. rewrite Hs. rewrite rel_name_join by exact Hq. reflexivity.
  - exact (res_shown_gen (Named top) p q Hst Hroot Hf Hq).
Qed.

Lemma shown_child st q k : wf_style st -> Forall okc q -> okc (node_name k) ->
  path_join2 (shown_path st q) (path_base (h_name (shdr st (item_of q k)))) = shown_path st (q ++ [node_name k]).
Proof.
  intros Hst Hq Hk. cbn [shdr h_name item_of i_path]. unfold stored_name.
  replace (stored_comps st (q ++ [node_name k])) with (stored_comps st q ++ [node_name k]) by (destruct st; reflexivity).
  rewrite path_base_join; [|apply stored_okc; assumption|exact Hk].
  destruct st as [| |top].
  - apply path_join2_pth; assumption.
  - apply path_join2_pth; assumption.
  - cbn [shown_path]. change (top :: q ++ [node_name k]) with ((top :: q) ++ [node_name k]).
    apply path_join2_rel; [discriminate|constructor; [exact Hst|exact Hq]|exact Hk].
Qed.

Section Archive.
  Variables (c : cfg) (st : style) (t : tree).
  Hypothesis HP : plain c.
  Hypothesis Hrs : 0 < c_rs c.
  Hypothesis Hst : wf_style st.
  Hypothesis Hwf : wf t.

  Let L := istarts 0 (items t).

  Lemma L_okc : forall x, In x L -> Forall okc (i_path (snd x)).
  Proof. intros x Hx. apply (items_okc t); [exact Hwf|]. rewrite <- (istarts_snd (items t) 0). apply in_map. exact Hx. Qed.

  Lemma L_shape : forall x, In x L ->
    live (srow st (c_rs c) x) = true /\ r_link (srow st (c_rs c) x) = [] /\
    r_name (srow st (c_rs c) x) = join_slash (spc st x) /\ Forall okc (spc st x).
  Proof. apply srow_shape; [exact Hst|exact L_okc]. Qed.

  Lemma L_nodup : NoDup (map (spc st) L).
  Proof. apply spc_nodup. unfold L. rewrite istarts_snd. apply items_nodup. exact Hwf. Qed.

  Lemma L_in i : In i (items t) -> exists a, In (a, i) L.
  Proof.
    intro Hi. rewrite <- (istarts_snd (items t) 0) in Hi. apply in_map_iff in Hi as ([a j] & E & Hx).
    cbn in E. subst j. exists a. exact Hx.
  Qed.

  Lemma L_top : exists a, In (a, top_item t) L.
  Proof. apply L_in. left. reflexivity. Qed.

  Lemma style_root_slashes : slash_count (style_root st) = 0.
  Proof. destruct st; try reflexivity. cbn. apply sc_noslash. apply okc_ns. exact Hst. Qed.

  Lemma opened_Opened : Opened c st t (db (opened c (archive_of st t))).
  Proof.
    destruct (T17_rebuild_rows c st t HP Hst Hwf) as (p & Hreb & Hrows & Hroot).
    unfold opened. cbn [db]. rewrite Hreb. cbn [fst]. unfold get_root_path. rewrite Hroot.
    rewrite Hrows. unfold archive_rows. fold L. rewrite (shape_live _ _ L L_shape).
    unfold L at 1. unfold items at 1. cbn [istarts map min_depth_row].
    rewrite min_depth_first.
    - cbn [fst rows root]. split; [reflexivity|]. destruct st; reflexivity.
    - change (r_name (srow st (c_rs c) (0, top_item t))) with (stored_name st []).
      destruct st; try reflexivity. cbn. apply sc_noslash. apply okc_ns. exact Hst.
  Qed.

  Lemma rebuild_ok : snd (rebuild c (archive_of st t)) = Ok tt.
  Proof. destruct (T17_rebuild_rows c st t HP Hst Hwf) as (p & Hreb & _). rewrite Hreb. reflexivity. Qed.

  Variable p : pstate.
  Hypothesis Hop : Opened c st t p.

  Lemma opened_foreign : style_root st = [] -> Foreign p.
  Proof.
    intro E. destruct Hop as [Hrows Hroot]. split; [rewrite Hroot; exact E|].
    apply (exists_exact_shape (srow st (c_rs c)) (spc st) L L_shape); [exact Hrows|].
    destruct L_top as (a & Ha). exists (a, top_item t). split; [exact Ha|]. unfold spc. cbn. destruct st; try reflexivity.
    cbn in E. exfalso. destruct Hst as (K & _). exact (K E).
  Qed.

  (* the path the walk reports, and the stored name itself *)
  Lemma res_shown q : Forall okc q -> Res p (shown_path st q) (stored_comps st q).
  Proof. intro Hq. apply res_shown_gen; [exact Hst|apply Hop|exact opened_foreign|exact Hq]. Qed.

  Lemma res_stored q : Forall okc q -> Res p (stored_name st q) (stored_comps st q).
  Proof. intro Hq. apply res_stored_gen; [exact Hst|apply Hop|exact opened_foreign|exact Hq]. Qed.

  (* ---------- lookups *)
  Lemma get_header_res name x : In x L -> Res p name (spc st x) ->
    exists p', get_header p name = (p', Ok (srow st (c_rs c) x)) /\ rows p' = rows p.
  Proof.
    intros Hx (p' & Hs & Hr). exists p'. unfold get_header. rewrite Hs.
    rewrite (find_shape (srow st (c_rs c)) (spc st) L L_shape L_nodup p' x); [split; [reflexivity|exact Hr]| |exact Hx].
    rewrite Hr. apply Hop.
  Qed.

  Lemma stat_res name x : In x L -> Res p name (spc st x) ->
    exists p', inv_stat p name false = (p', Ok (shdr st (snd x))) /\ rows p' = rows p.
  Proof.
    intros Hx R. destruct (get_header_res name x Hx R) as (p' & Hg & Hr). exists p'.
    unfold inv_stat. rewrite Hg. cbv beta iota zeta.
    change (r_link (srow st (c_rs c) x)) with (@nil N). cbn [eqb_str negb]. rewrite hdr_of_srow. split; [reflexivity|exact Hr].
  Qed.

  (* ---------- every directory lists its members *)
  Lemma childb_stored q q' : childb (stored_comps st q) (stored_comps st q') = childb q q'.
  Proof. destruct st; cbn [stored_comps childb]; try reflexivity. rewrite eqb_str_refl. reflexivity. Qed.

  Lemma filter_istarts (g : item -> bool) l : forall a, map snd (filter (fun x => g (snd x)) (istarts a l)) = filter g l.
  Proof.
    induction l as [|i l IH]; intro a; [reflexivity|]. cbn [istarts filter snd]. destruct (g i); cbn [map snd]; rewrite IH; reflexivity.
  Qed.

  Lemma list_res name q ks : Forall okc q -> Res p name (stored_comps st q) -> lookup q (t_kids t) = Some ks ->
    exists p', inv_list p name None = (p', Ok (map (fun k => shdr st (item_of q k)) ks)).
  Proof.
    intros Hq (p' & Hs & Hr) Hl. exists p'. unfold inv_list.
    rewrite (gdc_shape (srow st (c_rs c)) (spc st) L L_shape p name p' (stored_comps st q) Hs).
    - f_equal. f_equal. rewrite map_map.
      rewrite (map_ext _ (fun x => shdr st (snd x))) by (intro; apply hdr_of_srow).
      rewrite <- (map_map snd (shdr st)). unfold spc.
      rewrite (filter_ext _ (fun x => (fun i => childb q (i_path i)) (snd x))) by (intro x; apply childb_stored).
      unfold L. rewrite (filter_istarts (fun i => childb q (i_path i))). rewrite (children_items t q ks Hwf Hl). rewrite map_map. reflexivity.
    - rewrite Hr. apply Hop.
    - apply stored_okc; assumption.
    - intro E. destruct L_top as (a & Ha). exists (a, top_item t). split; [exact Ha|].
      unfold spc. cbn [snd top_item i_path]. destruct st; cbn in *; try reflexivity. discriminate E.
  Qed.

  Theorem listing_opened : forall q ks, lookup q (t_kids t) = Some ks ->
    snd (inv_list p (shown_path st q) None) = Ok (map (fun k => shdr st (item_of q k)) ks).
  Proof.
    intros q ks Hl. destruct (lookup_wf q _ _ (proj2 Hwf) Hl) as [_ Hq].
    destruct (list_res (shown_path st q) q ks Hq (res_shown q Hq) Hl) as (p' & E). rewrite E. reflexivity.
  Qed.

  (* ---------- regular members read back what the writer stored *)
  Variable s : sys.
  Hypothesis Hdb : db s = p.
  Hypothesis Htp : tp s = archive_of st t.

  Lemma read_res x : In x L -> i_dir (snd x) = false ->
    snd (read_path c s (stored_name st (i_path (snd x)))) = Ok (i_data (snd x)).
  Proof.
    intros Hx Hd. unfold read_path. rewrite Hdb.
    unfold stored_name. rewrite join_trim_slash by (apply stored_okc; [exact Hst|apply L_okc; exact Hx]).
    destruct (get_header_res (stored_name st (i_path (snd x))) x Hx (res_stored _ (L_okc x Hx))) as (p' & Hg & _).
    unfold stored_name in Hg. rewrite Hg. cbv beta iota zeta.
    unfold fetch_at. change (r_rec (srow st (c_rs c) x)) with (fst (pos_of (c_rs c) (fst x))).
    change (r_blk (srow st (c_rs c) x)) with (snd (pos_of (c_rs c) (fst x))).
    rewrite pos_of_roundtrip by exact Hrs. rewrite Htp. unfold archive_of. fold (tape_items st (items t)).
    rewrite (member_at_items st (items t) [TT] x); [|intros i Hi; apply (items_hb t i Hwf Hi)|exact Hx].
    cbn [member_of_item m_data]. rewrite Hd. reflexivity.
  Qed.

  Lemma entry_res x : In x L ->
    entry_of c s (shown_path st (i_path (snd x))) (shdr st (snd x)) = expected_entry st (snd x).
  Proof.
    intro Hx. unfold entry_of, expected_entry. destruct (i_dir (snd x)) eqn:Hd.
    - unfold shdr. rewrite Hd. reflexivity.
    - pose proof (read_res x Hx Hd) as R. unfold shdr at 9. cbn [h_name]. unfold shdr. rewrite Hd. cbn [h_tf h_size h_mode h_uid h_gid h_mtime h_link].
      change (tf_regular TypeReg) with true. cbv iota.
      destruct (read_path c s (stored_name st (i_path (snd x)))) as [s' r]. cbn [snd] in R. rewrite R. reflexivity.
  Qed.

  (* ---------- the walk from a directory shows exactly the members below it, in archive order *)
  Lemma walk_res : forall f q ks, lookup q (t_kids t) = Some ks -> (depth_forest ks <= f)%nat ->
    walk f c s (shown_path st q) = map (expected_entry st) (flatten_forest q ks).
  Proof.
    induction f as [|f IH]; intros q ks Hl Hd.
    - apply depth_forest_zero in Hd. subst ks. reflexivity.
    - destruct (lookup_wf q _ _ (proj2 Hwf) Hl) as [[Hall Hndk] Hq].
      cbn [walk]. rewrite Hdb.
      destruct (list_res (shown_path st q) q ks Hq (res_shown q Hq) Hl) as (p' & E). rewrite E.
      rewrite flat_map_map. unfold flatten_forest. rewrite map_flat_map.
      apply flat_map_ext_in'. intros k Hk. rewrite Forall_forall in Hall. pose proof (Hall k Hk) as Wk.
      rewrite shown_child; [|exact Hst|exact Hq|exact (wf_node_okc k Wk)].
      assert (Hin : In (item_of q k) (items t)).
      { pose proof (children_items t q ks Hwf Hl) as C.
        assert (K : In (item_of q k) (map (item_of q) ks)) by (apply in_map; exact Hk).
        rewrite <- C in K. apply filter_In in K as [K _]. exact K. }
      destruct (L_in _ Hin) as (a & Ha).
      pose proof (entry_res (a, item_of q k) Ha) as Ee. cbn [snd item_of i_path] in Ee. rewrite Ee.
      destruct k as [nm mt d|nm mt kk].
      + reflexivity.
      + cbn [shdr h_tf item_of i_dir node_isdir]. change (TypeDir =? TypeDir) with true. cbv iota.
        cbn [flatten map node_name]. f_equal.
        rewrite (IH (q ++ [nm]) kk).
        * unfold flatten_forest. rewrite map_flat_map. reflexivity.
        * apply (lookup_snoc q _ ks nm mt kk (proj2 Hwf) Hl Hk).
        * pose proof (depth_forest_in ks _ Hk) as D. rewrite depth_dir in D. lia.
  Qed.

  (* ---------- the visible tree *)
  Theorem view_res : (depth_forest (t_kids t) <= 16)%nat ->
    view_at c s (view_base st) = expected_entries st t.
  Proof.
    intro Hd. unfold view_at, stat_s. rewrite Hdb.
    assert (Eb : view_base st = shown_path st []) by (destruct st; reflexivity).
    destruct L_top as (a & Ha).
    destruct (stat_res (view_base st) (a, top_item t) Ha) as (p' & Hs & _).
    { rewrite Eb. apply res_shown. constructor. }
    rewrite Hs. cbn [snd]. unfold expected_entries, items. cbn [map].
    rewrite Eb. pose proof (entry_res (a, top_item t) Ha) as Ee.
    change (entry_of c s (shown_path st []) (shdr st (top_item t)) = expected_entry st (top_item t)) in Ee.
    rewrite Ee. f_equal.
    change (h_tf (shdr st (top_item t)) =? TypeDir) with true. cbv iota.
    apply walk_res; [reflexivity|exact Hd].
  Qed.
End Archive.
