(* T05 / a failed call appends nothing, for ALL the calls of the reference theorem T02 (Proofs/T02Spec.v):
   Mkdir, MkdirAll, Remove, RemoveAll, Rename, Chmod, Chown, Chtimes, CreateFile -- in the states [Good] describes
   (the C01 invariant, sizes, and the live entries forming a TREE) and under the call preconditions of T02.
   The calls that write once follow from T05Strong.v; the calls that check preconditions between writes need the tree
   shape: in a tree MkdirAll meets a regular file before it creates anything, Rename removes its target only when the
   move will find its source, and CreateFile fails only before it creates.  (WriteFile can create and then refuse the
   write: T05Counter.v.)
   Method: T02 gives the outcome of the call as the reference's; where the reference succeeds there is nothing to show,
   and where it refuses the model is evaluated up to the refusal. *)
From Coq Require Import List NArith ZArith Bool Lia.
From Coq Require Import ZifyN ZifyBool.
Import ListNotations.
From STFS Require Spelling.
From STFS Require Import Str Db Tape Index Ops Fs Diff Norm TapeLemmas StrLemmas
  C01Str C01Db C01Inv C01Sim C01Tape C01Hdr C01Ops C01Ops2 C01Reads C01Fs C01Fs2 C01Rows
  T02Ns T02Db T02Ops T02Reads T02Str T02Closed T02Move T02Calls T02Rename T02MkdirAll T02Create T02Spec
  TcfgSim TcfgOps TcfgFs TcfgHist TcfgT02 T05Sync T05Strong.
Open Scope N_scope.

Section Strong.
Variable hr : bool.
Variable c : cfg.
Hypothesis HP : plain c.
Hypothesis Hrs : 0 < c_rs c.
Hypothesis Hro : c_readonly c = false.

(* ---------- the calls that write at most once *)
Lemma single_failed s k : Wf hr c s -> hbok s -> writes_once_fs k = true -> Wf hr c (fst (step c s k)) ->
  snd (step c s k) <> OOk -> tp (fst (step c s k)) = tp s.
Proof.
  intros HW Hhb Hk HW' Hne. apply T05_failed_call_appends_nothing_sync; try assumption.
  - eapply Inv_Sync. apply HW.
  - eapply Inv_Sync. apply HW'.
Qed.

(* ---------- MkdirAll *)
Fixpoint chain' (ps : list str) : Prop :=
  match ps with
  | [] => True
  | p :: rest => good p /\ (forall q, In q rest -> q = p \/ below p q = true) /\ chain' rest
  end.

Lemma chain_chain' ps : chain ps -> chain' ps.
Proof.
  induction ps as [|p rest IH]; [exact id|]. intros (A & B & C). split; [exact A|]. split; [|apply IH; exact C].
  intros q Hq. right. apply B. exact Hq.
Qed.

Lemma spec_loop_ok' perm now ps : forall a,
  (forall q, In q ps -> match lookup a q with Some v => is_dir v = true | None => True end) ->
  snd (spec_mkdirall_loop c a ps perm now) = OOk.
Proof. intros a H. apply spec_loop_ok. exact H. Qed.

(* in a tree, a MkdirAll that the reference refuses leaves the STATE as it is *)
Lemma mloop_fail perm now ps : forall s, Wf hr c s -> closed (abs s) -> chain' ps ->
  snd (spec_mkdirall_loop c (abs s) ps perm now) <> OOk ->
  mloop c s ps perm = (s, snd (spec_mkdirall_loop c (abs s) ps perm now)).
Proof.
  induction ps as [|p rest IH]; intros s HW Hcl Hch Hf; cbn [mloop spec_mkdirall_loop] in *; [reflexivity|].
  destruct Hch as (Gp & Hb & Hch).
  pose proof (wf_inv hr c s HW) as HI. pose proof (iv_li hr c s HI) as HL.
  rewrite (stat_false_exact hr s p HL Gp). rewrite (lookup_abs hr c s p HI) in *. unfold look in *.
  destruct (find_rows (rows (db s)) p) as [d|] eqn:Ep; cbn [option_map] in *.
  - change (h_tf (hdr_of_row d)) with (r_tf d). change (is_dir (node_of d)) with (r_tf d =? TypeDir) in *.
    destruct (r_tf d =? TypeDir); [apply IH; assumption|reflexivity].
  - exfalso. apply Hf. apply spec_loop_ok. intros q Hq. rewrite lookup_ns_set.
    destruct (eqb_str q p) eqn:Eq; [reflexivity|].
    destruct (lookup (abs s) q) as [w|] eqn:Lq; [|exact I]. exfalso.
    destruct (Hb q Hq) as [K|K]; [subst q; rewrite eqb_str_refl in Eq; discriminate|].
    destruct (Hcl q w Lq p Gp K) as (d & Hd & _). rewrite (lookup_abs hr c s p HI) in Hd. unfold look in Hd. rewrite Ep in Hd. discriminate.
Qed.

Lemma spec_mkdirall_snd a n perm now : snd (spec_mkdirall c a n perm now) = snd (spec_mkdirall_loop c a (paths n) perm now).
Proof. unfold spec_mkdirall. destruct (spec_mkdirall_loop c a (paths n) perm now) as [a' o]. destruct o; reflexivity. Qed.

Theorem T05_mkdirall_failed s n perm : Wf hr c s -> closed (abs s) -> hbok s -> good n ->
  snd (step c s (CMkdirAll n perm)) <> OOk -> step c s (CMkdirAll n perm) = (s, snd (step c s (CMkdirAll n perm))).
Proof.
  intros HW Hcl Hhb G Hne.
  destruct (T02MkdirAll.T02_mkdirall hr c HP Hrs Hro s n perm HW Hcl Hhb G) as (s' & E & _).
  assert (Eo : snd (step c s (CMkdirAll n perm)) = snd (spec_mkdirall_loop c (abs s) (paths n) perm (clk s)))
    by (rewrite E; cbn [snd]; apply spec_mkdirall_snd).
  rewrite Eo in Hne |- *. clear E Eo s'.
  cbn [step]. unfold fs_mkdirall. rewrite Hro, (path_clean_good n G), mkdirall_loop_mloop.
  pose proof (chain_paths n G) as Hch. destruct G as (cs & Hcs & ->). fold (P cs) in *.
  destruct cs as [|c0 r].
  - change (P []) with [slash] in *. rewrite curs_root. change (paths [slash]) with [[slash]] in *.
    rewrite <- spec_loop_root_twice in Hne |- *. apply mloop_fail; try assumption.
    split; [apply good_root|]. split; [intros q [<-|[]]; left; reflexivity|]. split; [apply good_root|]. split; [intros q []|exact I].
  - rewrite curs_top by (try assumption; discriminate). apply mloop_fail; try assumption. apply chain_chain'. exact Hch.
Qed.

(* ---------- CreateFile *)
Theorem T05_create_file_failed s n d : Wf hr c s -> hbok s -> good n -> clen d < 10 ^ 40 ->
  match lookup (abs s) n with
  | Some v => is_dir v = true \/ (n_size v =? 0) && no_content d = false
  | None => True end ->
  snd (step c s (CCreateFile n d)) <> OOk -> step c s (CCreateFile n d) = (s, snd (step c s (CCreateFile n d))).
Proof.
  intros HW Hhb G Hlen Hpre Hne.
  destruct (T02Create.T02_create_file hr c HP Hrs Hro s n d HW Hhb G Hlen Hpre) as (s' & cid & E & _).
  assert (Eo : snd (step c s (CCreateFile n d)) = snd (spec_create_file c (abs s) n (clen d) (clk s) cid))
    by (rewrite E; reflexivity).
  rewrite Eo in Hne |- *. clear E Eo s'.
  pose proof (wf_inv hr c s HW) as HI. pose proof (iv_li hr c s HI) as HL.
  cbn [step]. unfold fs_create. rewrite Hro. destruct n as [|n0 n'] eqn:En; [exfalso; exact (good_nonempty [] G eq_refl)|].
  rewrite <- En in *. rewrite (path_clean_good n G). rewrite (parent_check_exact hr s n HL (good_abs n G)).
  unfold spec_create_file, spec_parent in Hne |- *. rewrite (lookup_abs hr c s (path_dir n) HI) in Hne |- *. unfold look in Hne |- *.
  destruct (find_rows (rows (db s)) (path_dir n)) as [pd|] eqn:Ep; cbn [option_map] in Hne |- *; [|reflexivity].
  change (is_dir (node_of pd)) with (r_tf pd =? TypeDir) in Hne |- *.
  destruct (r_tf pd =? TypeDir); [|reflexivity].
  rewrite (lookup_abs hr c s n HI) in Hne |- *. unfold look in Hne |- *.
  destruct (find_rows (rows (db s)) n) as [dn|] eqn:Ed; cbn [option_map] in Hne |- *; [|exfalso; apply Hne; reflexivity].
  change (is_dir (node_of dn)) with (r_tf dn =? TypeDir) in Hne |- *.
  destruct (r_tf dn =? TypeDir) eqn:Edir; [|exfalso; apply Hne; reflexivity].
  unfold fs_openfile. rewrite En. rewrite <- En. rewrite (path_clean_good n G). rewrite (stat_false_exact hr s n HL G), Ed.
  cbn [negb andb o_create o_excl]. rewrite Hro. cbn [negb andb].
  change (h_tf (hdr_of_row dn)) with (r_tf dn). rewrite Edir.
  unfold decode_flags. rewrite Hro. cbn [fl_write o_acc N.eqb orb andb]. reflexivity.
Qed.

(* ---------- Rename *)
Theorem T05_rename_failed s old new : Wf hr c s -> closed (abs s) -> hbok s -> good old -> good new -> new <> [slash] ->
  snd (step c s (CRename old new)) <> OOk -> tp (fst (step c s (CRename old new))) = tp s.
Proof.
  intros HW Hcl Hhb Go Gn Hn Hne. pose proof (wf_inv hr c s HW) as HI. pose proof (iv_li hr c s HI) as HL.
  destruct (T02Rename.T02_rename hr c HP Hrs Hro s old new HW Hcl Hhb Go Gn Hn) as (s' & E & _).
  assert (Eo : snd (step c s (CRename old new)) = snd (spec_rename (abs s) old new)) by (rewrite E; reflexivity).
  rewrite Eo in Hne. clear E Eo s'.
  cbn [step]. rewrite (fs_rename_unfold c s old new Hro (good_nonempty old Go) (good_nonempty new Gn)).
  cbv zeta. rewrite (path_clean_good old Go), (path_clean_good new Gn).
  rewrite (get_root_path_lv hr (db s) HL). rewrite set_db_same.
  rewrite ?Spelling.spelling_root, ?(Spelling.spelling_good old Go), ?(Spelling.spelling_good new Gn), ?Spelling.orb_same.
  unfold spec_rename in Hne. rewrite (eqb_str_sym [slash] old).
  destruct (eqb_str old [slash]) eqn:Eor; [reflexivity|].
  rewrite (stat_false_exact hr s old HL Go). rewrite (lookup_abs hr c s old HI) in Hne. unfold look in Hne.
  destruct (find_rows (rows (db s)) old) as [sd|] eqn:Eo; cbn [option_map] in Hne.
  2:{ rewrite (stat_s_true hr s old HL). reflexivity. }
  destruct (eqb_str old new) eqn:Eon; [reflexivity|].
  change (h_tf (hdr_of_row sd)) with (r_tf sd). change (is_dir (node_of sd)) with (r_tf sd =? TypeDir) in Hne.
  change (trim_suffix [slash] old ++ [slash]) with (pfx old).
  destruct ((r_tf sd =? TypeDir) && has_prefix (pfx old) new) eqn:Einto; [reflexivity|].
  rewrite (parent_check_exact hr s new HL (good_abs new Gn)).
  unfold spec_parent in Hne. rewrite (lookup_abs hr c s (path_dir new) HI) in Hne. unfold look in Hne.
  destruct (find_rows (rows (db s)) (path_dir new)) as [pd|] eqn:Ep; cbn [option_map] in Hne; [|reflexivity].
  change (is_dir (node_of pd)) with (r_tf pd =? TypeDir) in Hne.
  destruct (r_tf pd =? TypeDir) eqn:Epd; [|reflexivity].
  rewrite (stat_false_exact hr s new HL Gn). rewrite (lookup_abs hr c s new HI) in Hne. unfold look in Hne.
  destruct (find_rows (rows (db s)) new) as [td|] eqn:En; cbn [option_map] in Hne; [|exfalso; apply Hne; reflexivity].
  change (h_tf (hdr_of_row td)) with (n_tf (node_of td)). change (r_tf sd) with (n_tf (node_of sd)).
  destruct (negb (n_tf (node_of td) =? n_tf (node_of sd))) eqn:Ekind; [reflexivity|].
  (* the target is removed first: Remove is a call that writes once *)
  destruct (T02Calls.T02_remove hr c HP Hrs Hro s new HW Hcl Hhb Gn Hn) as (s1 & E1 & HW1 & _).
  pose proof (single_failed s (CRemove new) HW Hhb eq_refl) as SF. rewrite E1 in SF. cbn [fst snd] in SF. specialize (SF HW1).
  cbn [step] in E1. unfold fs_remove in E1. rewrite Hro, (path_clean_good new Gn) in E1. rewrite E1.
  destruct (spec_remove (abs s) new) as [a1 o1] eqn:Esr. cbn [fst snd] in *.
  destruct o1; try (cbn [fst]; apply SF; discriminate).
  exfalso. apply Hne. reflexivity.
Qed.

(* ---------- all the calls of the reference theorem, with their environments *)
Theorem T05_failed_call_appends_nothing_T02 : forall s e k, Good hr c s -> hb_env e -> call_pre (abs s) k ->
  snd (step c (with_env s e) k) <> OOk -> tp (fst (step c (with_env s e) k)) = tp s.
Proof.
  intros s e k HG Hhb Hpre Hne.
  pose proof (Wf_env hr c s e (g_wf _ _ _ HG)) as HW0. pose proof (g_closed _ _ _ HG) as Hcl0.
  pose proof (hbok_env c Hrs s e Hhb) as Hhb0.
  pose proof (T02_step hr c HP Hrs Hro s e k HG Hhb Hpre) as K.
  assert (HW' : Wf hr c (fst (step c (with_env s e) k))).
  { destruct (step c (with_env s e) k) as [s' o]. destruct K as (cid & sp & _ & HG' & _). apply HG'. }
  clear K. change (tp s) with (tp (with_env s e)). change (abs s) with (abs (with_env s e)) in *.
  destruct k; cbn [call_pre] in Hpre; try contradiction.
  - apply single_failed; try assumption. reflexivity.
  - rewrite (T05_mkdirall_failed (with_env s e) n perm HW0 Hcl0 Hhb0 Hpre Hne). reflexivity.
  - apply single_failed; try assumption. reflexivity.
  - apply single_failed; try assumption. reflexivity.
  - destruct Hpre as (Ga & Gb & Hn). apply T05_rename_failed; assumption.
  - apply single_failed; try assumption. reflexivity.
  - apply single_failed; try assumption. reflexivity.
  - apply single_failed; try assumption. reflexivity.
  - destruct Hpre as (G & P1 & P2). rewrite (T05_create_file_failed (with_env s e) n d HW0 Hhb0 G P1 P2 Hne). reflexivity.
Qed.

(* along a history each of whose calls meets its precondition: every call that fails leaves the tape as it was *)
Fixpoint failed_keep (s : sys) (r : list (call * env)) : Prop :=
  match r with
  | [] => True
  | (k, e) :: r' =>
    (snd (step c (with_env s e) k) <> OOk -> tp (fst (step c (with_env s e) k)) = tp s) /\
    failed_keep (fst (step c (with_env s e) k)) r'
  end.

Theorem T05_history_failed_calls_append_nothing : forall r s, Good hr c s -> ok_run c s r -> failed_keep s r.
Proof.
  induction r as [|[k e] r IH]; intros s HG Hok; cbn [ok_run failed_keep] in *; [exact I|].
  destruct Hok as (Hhb & Hpre & Hrest). split; [apply T05_failed_call_appends_nothing_T02; assumption|].
  apply IH; [|exact Hrest].
  pose proof (T02_step hr c HP Hrs Hro s e k HG Hhb Hpre) as K.
  destruct (step c (with_env s e) k) as [s' o]. destruct K as (cid & sp & _ & HG' & _). exact HG'.
Qed.

End Strong.

(* ---------- ANY configuration (arbitrary codec suffixes): the run under c is the run under [plain_of c] on the tape with
   the indexed names (Proofs/Tcfg*.v); a tape that grew has a longer image *)
Lemma efft_same_length c t suf : efft c (t ++ suf) = efft c t -> suf = [].
Proof.
  intro H. apply (f_equal (@length titem)) in H. unfold efft in H. rewrite !map_length, app_length in H.
  destruct suf; [reflexivity|cbn in H; lia].
Qed.

Section Any.
Variable hr : bool.
Variable c : cfg.
Hypothesis Hrs : 0 < c_rs c.
Hypothesis Hro : c_readonly c = false.

Theorem T05_failed_call_appends_nothing_T02_any_config : forall s e k, Good hr c s -> hb_env e -> call_pre (abs s) k ->
  snd (step c (with_env s e) k) <> OOk -> tp (fst (step c (with_env s e) k)) = tp s.
Proof.
  intros s e k HG Hhb Hpre Hne.
  pose proof (T05_failed_call_appends_nothing_T02 hr (plain_of c) (plain_of_plain c) Hrs Hro (Pl c s) e k
                (proj1 (Good_Pl hr c s) HG) Hhb Hpre) as K.
  rewrite with_env_Pl, (step_Pl c (with_env s e) k) in K. unfold liftP in K. cbn [fst snd tp Pl] in K.
  specialize (K Hne).
  destruct (Append.step_extends c (with_env s e) k) as [suf E]. change (tp (with_env s e)) with (tp s) in E.
  rewrite E in K |- *. apply efft_same_length in K. rewrite K, app_nil_r. reflexivity.
Qed.

Theorem T05_history_failed_calls_append_nothing_any_config : forall r s, Good hr c s -> ok_run c s r -> failed_keep c s r.
Proof.
  induction r as [|[k e] r IH]; intros s HG Hok; cbn [ok_run failed_keep] in *; [exact I|].
  destruct Hok as (Hhb & Hpre & Hrest). split; [apply T05_failed_call_appends_nothing_T02_any_config; assumption|].
  apply IH; [|exact Hrest].
  pose proof (T02_step_any_config hr c Hrs Hro s e k HG Hhb Hpre) as K.
  destruct (step c (with_env s e) k) as [s' o]. destruct K as (cid & sp & _ & HG' & _). exact HG'.
Qed.
End Any.

Print Assumptions T05_history_failed_calls_append_nothing_any_config.
