(* C01 / reads: on a live index (cached root "/") every query leaves the index state unchanged;
   link-name lookups find nothing; Stat results come from live rows. *)
From Coq Require Import List NArith ZArith Bool Lia.
From Coq Require Import ZifyN ZifyBool.
Import ListNotations.
From STFS Require Import Str Db Tape Index Ops Fs Norm TapeLemmas C01Str C01Db C01Inv C01Sim C01Tape C01Hdr C01Ops C01Ops2.
Open Scope N_scope.

Definition from_row (lv : pstate) (h : hdr) : Prop :=
  exists d, In d (rows lv) /\ live d = true /\ h = hdr_of_row d.

Lemma get_header_any hr lv x : LI hr lv ->
  exists res, get_header lv x = (lv, res) /\
    match res with
    | Ok r => In r (rows lv) /\ live r = true
    | NoRows => True
    | _ => False
    end.
Proof.
  intro HL. rewrite get_header_form. rewrite (sanitize_root_fst lv x (li_root hr lv HL)).
  destruct (find_rows (rows lv) (snd (sanitize lv x))) as [r|] eqn:E.
  - exists (Ok r). split; [reflexivity|]. apply find_rows_some in E. tauto.
  - exists NoRows. split; [reflexivity|exact I].
Qed.

Lemma inv_stat_true hr lv name : LI hr lv -> inv_stat lv name true = (lv, NoRows).
Proof.
  intro HL. unfold inv_stat. rewrite (gh_link_none hr lv name HL). rewrite (gh_link_none hr lv _ HL). reflexivity.
Qed.

Lemma inv_stat_false hr lv name : LI hr lv ->
  exists res, inv_stat lv name false = (lv, res) /\
    match res with Ok h => from_row lv h | NoRows => True | _ => False end.
Proof.
  intro HL. unfold inv_stat.
  destruct (get_header_any hr lv name HL) as (r1 & E1 & P1). rewrite E1.
  destruct r1 as [d| | |e]; try contradiction.
  - destruct (negb (eqb_str (r_link d) [])).
    + exists NoRows. split; [reflexivity|exact I].
    + exists (Ok (hdr_of_row d)). split; [reflexivity|]. exists d. tauto.
  - destruct (get_header_any hr lv (trim_suffix [slash] name ++ [slash]) HL) as (r2 & E2 & P2). rewrite E2.
    destruct r2 as [d| | |e]; try contradiction.
    + destruct (negb (eqb_str (r_link d) [])).
      * exists NoRows. split; [reflexivity|exact I].
      * exists (Ok (hdr_of_row d)). split; [reflexivity|]. exists d. tauto.
    + exists NoRows. split; [reflexivity|exact I].
Qed.

Lemma stat_s_true hr s name : LI hr (db s) -> stat_s s name true = (s, NoRows).
Proof. intro HL. unfold stat_s. rewrite (inv_stat_true hr _ name HL). rewrite set_db_same. reflexivity. Qed.

Lemma stat_s_false hr s name : LI hr (db s) ->
  exists res, stat_s s name false = (s, res) /\
    match res with Ok h => from_row (db s) h | NoRows => True | _ => False end.
Proof.
  intro HL. unfold stat_s. destruct (inv_stat_false hr _ name HL) as (res & E & P). rewrite E, set_db_same.
  exists res. split; [reflexivity|exact P].
Qed.

Lemma parent_check_lv hr s name : LI hr (db s) -> exists o, parent_check s name = (s, o).
Proof.
  intro HL. unfold parent_check. destruct (stat_s_false hr s (path_dir name) HL) as (res & E & P). rewrite E.
  destruct res as [h| | |e]; try contradiction.
  - destruct (h_tf h =? TypeDir); eexists; reflexivity.
  - eexists; reflexivity.
Qed.

(* ---------- listing *)
Lemma links_fold_fst hr lv (l : list row) : LI hr lv -> forall out,
  fst (fold_left (fun acc lr =>
        let '(p, out) := acc in
        let '(p, tr) := get_header p [] in
        match tr with
        | Ok t => (p, out ++ [set_link (set_name t (r_link lr)) []])
        | _ => (p, out ++ [set_link (set_name lr (r_link lr)) []])
        end) l (lv, out)) = lv.
Proof.
  intro HL. induction l as [|x t IH]; intro out; cbn [fold_left]; [reflexivity|].
  destruct (get_header_any hr lv [] HL) as (res & E & _). rewrite E.
  destruct res; apply IH.
Qed.

Lemma get_direct_children_fst hr lv name lim : LI hr lv -> fst (get_direct_children lv name lim) = lv.
Proof.
  intro HL. unfold get_direct_children.
  pose proof (sanitize_root_fst lv name (li_root hr lv HL)) as E1.
  destruct (sanitize lv name) as [p1 n]. cbn [fst] in E1. subst p1.
  destruct (if is_root_name n then min_slashes (filter live (rows lv)) else Some 0) as [rd|]; [|reflexivity].
  match goal with |- context [fold_left ?f ?l (lv, [])] =>
    pose proof (links_fold_fst hr lv l HL []) as E2; destruct (fold_left f l (lv, [])) as [p2 links] end.
  cbn [fst] in E2. subst p2.
  destruct lim as [k|]; [|reflexivity].
  match goal with |- context [if ?b then _ else _] => destruct b end; reflexivity.
Qed.

Lemma inv_list_fst hr lv name lim : LI hr lv -> fst (inv_list lv name lim) = lv.
Proof.
  intro HL. unfold inv_list. pose proof (get_direct_children_fst hr lv name lim HL) as E.
  destruct (get_direct_children lv name lim) as [p [l| | |e]]; exact E.
Qed.

(* ---------- root path and reopen *)
Lemma get_root_path_lv hr lv : LI hr lv -> get_root_path lv = (lv, Some [slash]).
Proof. intro HL. unfold get_root_path. rewrite (li_root hr lv HL). reflexivity. Qed.

Lemma slash_count_good n : good n -> 1 <= slash_count n.
Proof. intros (cs & _ & ->). unfold slash_count. cbn. lia. Qed.

Lemma min_depth_keep r0 l : (forall x, In x l -> slash_count (r_name r0) <= slash_count (r_name x)) ->
  min_depth_row l (Some r0) = Some r0.
Proof.
  induction l as [|x t IH]; intro H; cbn; [reflexivity|].
  replace (slash_count (r_name x) <? slash_count (r_name r0)) with false.
  - apply IH. intros y Hy. apply H. right. exact Hy.
  - symmetry. apply N.ltb_ge. apply H. left. reflexivity.
Qed.

Lemma p_open_lv lv : LI true lv -> p_open (rows lv) = lv.
Proof.
  intros [Hr He [Hrows _ Hh]]. destruct (Hh eq_refl) as (r0 & tl & E & Hn & Hd). unfold p_open, get_root_path. cbn [root rows].
  rewrite E. cbn [filter]. unfold live at 1. rewrite Hd. cbn [negb min_depth_row].
  rewrite min_depth_keep.
  - cbn [fst]. rewrite Hn. destruct lv as [rw rt re]. cbn in *. subst. reflexivity.
  - intros x Hx. apply filter_In in Hx as [Hx _]. rewrite Hn.
    change (slash_count [slash]) with 1. apply slash_count_good.
    rewrite E in Hrows. inversion Hrows as [|? ? _ Ht]; subst. rewrite Forall_forall in Ht. apply (Ht x Hx).
Qed.

(* ---------- reading content *)
Lemma read_path_lv hr c s path : LI hr (db s) -> fst (read_path c s path) = s.
Proof.
  intro HL. unfold read_path.
  destruct (get_header_any hr (db s) (trim_suffix [slash] path) HL) as (r1 & E1 & P1). rewrite E1.
  destruct r1 as [d| | |e]; try contradiction.
  - destruct (fetch_at c (tp s) (r_rec d) (r_blk d)); cbn [fst]; apply set_db_same.
  - destruct (get_header_any hr (db s) (trim_suffix [slash] path ++ [slash]) HL) as (r2 & E2 & P2). rewrite E2.
    destruct r2 as [d| | |e]; try contradiction.
    + destruct (fetch_at c (tp s) (r_rec d) (r_blk d)); cbn [fst]; apply set_db_same.
    + cbn [fst]. apply set_db_same.
Qed.

Lemma handle_write_all_lv hr c s hd d : LI hr (db s) -> fst (fst (handle_write_all c s hd d)) = s.
Proof.
  intro HL. unfold handle_write_all.
  destruct (h_tf (hd_info hd) =? TypeDir); [reflexivity|].
  destruct (negb (fl_write (hd_flags hd))); [reflexivity|].
  destruct (hd_buf hd); [reflexivity|].
  destruct (stat_s_false hr s (hd_path hd) HL) as (res & E & P). rewrite E.
  destruct res as [h| | |e]; try contradiction.
  - destruct (negb (h_size h =? 0)).
    + pose proof (read_path_lv hr c s (hd_path hd) HL) as E2.
      destruct (read_path c s (hd_path hd)) as [s2 [x| | |e]]; cbn [fst] in *; subst s2; reflexivity.
    + reflexivity.
  - reflexivity.
Qed.
