(* T07 / transfer: the rebuilt-style runs (root "", names without the leading slash) are the images of the
   live-style runs under [NR]; the replay theorem for well-formed record lists, on rebuilt-style indexes. *)
From Coq Require Import List NArith ZArith Bool Lia.
From Coq Require Import ZifyN ZifyBool.
Import ListNotations.
From STFS Require Import Str Db Tape Index Ops Fs Diff Prefix Replay Norm
  C01Str C01Db C01Inv C01Sim C01Tape T07Order T07Look T07Core.
Open Scope N_scope.

(* a well-formed tape starts with the creation of the root *)
Definition TW (c : cfg) (l : list (N * hdr)) : Prop :=
  twrun c l p_live0 /\ exists st h l', l = (st, h) :: l' /\ h_name h = [slash] /\ h_act h = V_create.

Lemma R_empty : R p_live0 p_empty.
Proof. split; [reflexivity|reflexivity|right; constructor]. Qed.

Lemma run_sim_true c (HP : plain c) : forall l lv rb lv', LI true lv -> R lv rb ->
  Forall (hnames_ok true) (map snd l) -> loop0 c l lv = (lv', Ok tt) ->
  exists rb', loop0 c l rb = (rb', Ok tt) /\ LI true lv' /\ R lv' rb'.
Proof.
  induction l as [|[st h] l IH]; intros lv rb lv' HL HR HF E; cbn [loop0] in *.
  - inversion E; subst. exists rb. split; [reflexivity|]. split; assumption.
  - cbn [map snd] in HF. inversion HF as [|? ? Hh Hrest]; subst.
    destruct (index_header_sim true c (fst (pos_of (c_rs c) st)) (snd (pos_of (c_rs c) st)) h lv rb HP HL HR Hh (hpre_hr lv rb h HL))
      as (lv1 & rb1 & res & A & B & C).
    rewrite A in E. rewrite B.
    destruct res as [[]| | |e]; try discriminate.
    destruct (C eq_refl) as (HL1 & HR1 & _).
    eapply IH; eassumption.
Qed.

(* the first record: creation of the root in the empty index *)
Lemma first_sim c (HP : plain c) rec blk h lv1 : hnames_ok true h -> ver_ok h -> h_name h = [slash] -> h_act h = V_create ->
  index_header c rec blk h false p_live0 = (lv1, Ok tt) ->
  exists rb1, index_header c rec blk h false p_empty = (rb1, Ok tt) /\ LI true lv1 /\ R lv1 rb1.
Proof.
  intros HN HV Hn Ha E.
  pose proof (hnames_ok_true false h HN) as HNf.
  destruct (index_header_sim false c rec blk h p_live0 p_empty HP LI_live0 R_empty HNf) as (lv' & rb1 & res & A & B & C).
  { right. right. split; [exact Hn|]. intro K. rewrite Ha in K. discriminate. }
  rewrite E in A. inversion A; subst lv' res. exists rb1. split; [exact B|].
  destruct (C eq_refl) as (HL1 & HR1 & _). split; [|exact HR1].
  (* the live-style result is the single live root row *)
  rewrite (index_header_live false c rec blk h p_live0 HP HNf) in E.
  destruct (hsz_facts h) as (Ea & Er & En & Ecl).
  pose proof (ih_body_live false rec blk (hsz h) p_live0 LI_live0 (hsz_ok false h HNf) (hsz_ver h HV)) as LG.
  unfold ih_rows in LG. rewrite Ea, Ha in LG. change (eqb_str V_create V_create) with true in LG. cbn iota in LG.
  rewrite E in LG. inversion LG; subst lv1.
  split; [reflexivity|reflexivity|]. cbn [rows with_rows p_live0].
  split.
  - apply HL1.
  - apply HL1.
  - intros _. unfold upsert_rows. cbn [has_key existsb app]. eexists _, []. split; [reflexivity|].
    cbn [r_name r_del row_of_hdr]. rewrite En. split; [exact Hn|reflexivity].
Qed.

Lemma sim_from_empty c (HP : plain c) st h l' lv' :
  Forall (hnames_ok true) (map snd ((st, h) :: l')) -> ver_ok h -> h_name h = [slash] -> h_act h = V_create ->
  loop0 c ((st, h) :: l') p_live0 = (lv', Ok tt) ->
  exists rb', loop0 c ((st, h) :: l') p_empty = (rb', Ok tt) /\ LI true lv' /\ R lv' rb'.
Proof.
  intros HF HV Hn Ha E. cbn [map snd] in HF. inversion HF as [|? ? Hh Hrest]; subst.
  cbn [loop0] in *.
  destruct (index_header c (fst (pos_of (c_rs c) st)) (snd (pos_of (c_rs c) st)) h false p_live0) as [lv1 [[]| | |e]] eqn:E1;
    try discriminate.
  destruct (first_sim c HP _ _ h lv1 Hh HV Hn Ha E1) as (rb1 & B & HL1 & HR1). rewrite B.
  eapply run_sim_true; eassumption.
Qed.

(* ---------- normalised rows *)
Lemma NR_nodup l : Forall absr l -> NoDup (map r_name l) -> NoDup (map r_name (NR l)).
Proof.
  intros Ha Hnd. unfold NR. rewrite map_map.
  change (fun x => r_name (norm_row x)) with (fun x => norm_name (r_name x)).
  rewrite <- (map_map r_name norm_name). apply NoDup_map_inj_in; [|exact Hnd].
  intros x y Hx Hy E. apply in_map_iff in Hx as (rx & <- & Hrx). apply in_map_iff in Hy as (ry & <- & Hry).
  rewrite Forall_forall in Ha. apply norm_name_inj; [apply Ha; exact Hrx|apply Ha; exact Hry|exact E].
Qed.

Lemma NR_in A B : (forall x, In x A <-> In x B) -> forall y, In y (NR A) <-> In y (NR B).
Proof.
  intros H y. unfold NR. rewrite !in_map_iff. split; intros (x & E & Hx); exists x; (split; [exact E|]); apply H; exact Hx.
Qed.

Lemma visible_of_look lv1 lv2 rb1 rb2 : LI false lv1 -> LI false lv2 -> R lv1 rb1 -> R lv2 rb2 ->
  (forall n, look (rows lv1) n = look (rows lv2) n) -> visible rb1 = visible rb2.
Proof.
  intros L1 L2 R1 R2 H. apply visible_canon.
  - rewrite (r_rows _ _ R1). apply NR_nodup; [eapply LI_absr; exact L1|apply L1].
  - rewrite (r_rows _ _ R2). apply NR_nodup; [eapply LI_absr; exact L2|apply L2].
  - rewrite (r_rows _ _ R1), (r_rows _ _ R2). apply NR_in. apply look_ext_in; [apply L1|apply L2|exact H].
Qed.

(* ---------- the theorem on record lists *)
(* replay into any index that is the image of a live-style index whose names are all written by the list *)
Theorem replay_from c l lv0 rb0 : plain c -> TW c l -> LI true lv0 -> R lv0 rb0 -> covered l lv0 ->
  exists p rb lvp, loop0 c l rb0 = (p, Ok tt) /\ loop0 c l p_empty = (rb, Ok tt) /\ visible p = visible rb /\
                   LI true lvp /\ R lvp p /\ covered l lvp.
Proof.
  intros HP (HT & st & h & l' & -> & Hn & Ha) HL0 HR0 Hcov.
  pose proof (twrun_hnames c _ _ HT) as HF.
  assert (HV : ver_ok h) by (cbn [twrun] in HT; apply HT).
  destruct (live_converges_gen c _ lv0 HP HT (LI_weaken true lv0 HL0) Hcov) as (Gn & Mn & E1 & E2 & L1 & L2 & Hlook & HcG & HcM).
  destruct (sim_from_empty c HP st h l' Gn HF HV Hn Ha E1) as (rb & Erb & HLn & HRn).
  destruct (run_sim_true c HP _ lv0 rb0 Mn HL0 HR0 HF E2) as (p & Ep & HLM & HRM).
  exists p, rb, Mn. repeat (split; [assumption|]). split; [|split; [exact HLM|split; [exact HRM|exact HcM]]].
  eapply visible_of_look; [exact L2|exact L1|exact HRM|exact HRn|exact Hlook].
Qed.

Theorem hdrs_converge c l j : plain c -> TW c l ->
  exists Pj p rb lvp, loop0 c (firstn j l) p_empty = (Pj, Ok tt) /\ loop0 c l Pj = (p, Ok tt) /\
                  loop0 c l p_empty = (rb, Ok tt) /\ visible p = visible rb /\
                  LI true lvp /\ R lvp p /\ covered l lvp.
Proof.
  intros HP HTW. pose proof HTW as (HT & st & h & l' & -> & Hn & Ha).
  pose proof (twrun_hnames c _ _ HT) as HF.
  assert (HV : ver_ok h) by (cbn [twrun] in HT; apply HT).
  destruct j as [|j'].
  - destruct (twrun_loop c _ _ HT) as (Gn & EGn).
    destruct (sim_from_empty c HP st h l' Gn HF HV Hn Ha EGn) as (rb & Erb & HLn & HRn).
    destruct (covered_prefix c _ (length ((st, h) :: l')) Gn HP HT) as (_ & HcG); [rewrite firstn_all; exact EGn|].
    exists p_empty, rb, rb, Gn. cbn [firstn loop0]. split; [reflexivity|]. split; [exact Erb|]. split; [exact Erb|].
    split; [reflexivity|]. split; [exact HLn|split; [exact HRn|exact HcG]].
  - assert (HTj : twrun c (firstn (S j') ((st, h) :: l')) p_live0).
    { rewrite <- (firstn_skipn (S j') ((st, h) :: l')) in HT. apply twrun_app in HT. apply HT. }
    destruct (twrun_loop c _ _ HTj) as (Gj & EGj).
    destruct (covered_prefix c _ (S j') Gj HP HT EGj) as (_ & Hcov).
    cbn [firstn] in EGj, HTj |- *.
    destruct (sim_from_empty c HP st h (firstn j' l') Gj (twrun_hnames c _ _ HTj) HV Hn Ha EGj) as (Pj & EPj & HLj & HRj).
    destruct (replay_from c _ Gj Pj HP HTW HLj HRj Hcov) as (p & rb & lvp & A & B & C & D).
    exists Pj, p, rb, lvp. split; [exact EPj|]. split; [exact A|]. split; [exact B|]. split; [exact C|exact D].
Qed.
