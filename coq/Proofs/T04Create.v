(* T04 / CreateFile (Create; Write d; Close) in every state: new name, existing regular file (overwrite), existing
   directory, missing parent.  A successful call leaves, under the name, an entry whose recorded position designates
   the member that carries exactly the bytes written (the corner T02Counter.v (2), nothing written to an existing empty
   regular file, concerns the modification time only and is covered here). *)
From Coq Require Import List NArith ZArith Bool Lia.
From Coq Require Import ZifyN ZifyBool.
Import ListNotations.
From STFS Require Import Str Db Tape Index Ops Fs Diff Norm TapeLemmas StrLemmas
  C01Str C01Db C01Inv C01Sim C01Tape C01Hdr C01Ops C01Ops2 C01Reads C01Fs
  T02Ns T02Db T02Ops T02Reads T02Str T02Closed T02Calls T02Create T04Def T04Tape T04Ops.
Open Scope N_scope.

Lemma coverlay_nil_eq d : coverlay [] 0 d = d.
Proof. unfold coverlay. cbn. apply app_nil_r. Qed.

Section Create.
Variable hr : bool.
Variable c : cfg.
Hypothesis HP : plain c.
Hypothesis Hrs : 0 < c_rs c.
Hypothesis Hro : c_readonly c = false.

(* after the call the name [n] carries a regular entry [v] of the size of [d] whose content position designates a
   member [m] of the tape with exactly the data [d]; every other name is as before *)
Definition written (s s' : sys) (n : str) (d : content) : Prop :=
  exists v m, ns_eq (abs s') (ns_set (abs s) n v) /\ n_tf v = TypeReg /\ n_size v = clen d /\
    member_at (tp s') (off_of (c_rs c) (fst (n_cid v)) (snd (n_cid v))) = Some m /\ mdata m = d /\
    is_content_record m (clen d).

Lemma end_off s : off_of (c_rs c) (end_rec c s) (end_blk c s) = tape_blocks (tp s).
Proof. unfold end_rec, end_blk. apply pos_of_roundtrip. exact Hrs. Qed.

(* ---------- the flush of a handle on an existing entry *)
Lemma flush_written s hd bb d0 now : Wf hr c s -> hbok s -> good (hd_path hd) -> hd_link hd = [] -> clen bb < 10 ^ 40 ->
  find_rows (rows (db s)) (hd_path hd) = Some d0 ->
  exists s', update_op c s [{| f_hdr := stamp_mtime (flush_hdr hd (clen bb)) now; f_data := bb |}] true true = (s', OOk) /\
    Wf hr c s' /\ hbok s' /\
    exists v m, (forall x, lookup (abs s') x = if eqb_str x (hd_path hd) then Some v else lookup (abs s) x) /\
      n_tf v = TypeReg /\ n_size v = clen bb /\
      member_at (tp s') (off_of (c_rs c) (fst (n_cid v)) (snd (n_cid v))) = Some m /\ mdata m = bb /\
      is_content_record m (clen bb).
Proof.
  intros HW Hhb G Hk Hlen Hf. pose proof (wf_inv hr c s HW) as HI. pose proof (iv_li hr c s HI) as HL.
  assert (Hrows : Forall rowok (rows (db s))) by apply HL.
  assert (Hnd : NoDup (map r_name (rows (db s)))) by apply HL.
  set (fh := stamp_mtime (flush_hdr hd (clen bb)) now).
  destruct (update_content_pos hr c HP Hrs s fh bb d0 HI Hhb)
    as (s2 & m & enc & E2 & HI2 & Hhb2 & Etp & Ehdr & Edata & Edb2).
  { exact G. } { exact Hk. } { reflexivity. } { exact Hlen. } { exact Hf. }
  exists s2. split; [exact E2|].
  change (h_name fh) with (hd_path hd) in Edb2.
  change (h_size fh) with (clen bb) in Edb2.
  set (fr := row_of_hdr (end_rec c s) (end_rec c s) (end_blk c s) (end_blk c s)
               (with_size_name (content_hdr fh enc) (clen bb) (hd_path hd))) in *.
  assert (Hsz : hsize (content_hdr fh enc) = Some (clen bb)).
  { unfold hsize, content_hdr, upd_pax. cbn [h_pax with_size_name set_pax]. paxs.
    apply undecimal_decimal_eq. exact Hlen. }
  split; [|split; [exact Hhb2|]].
  - split; [exact HI2|]. rewrite Edb2, with_rows_rows. apply replace_row_Forall; [apply HW|].
    unfold fr. apply size_ok_row_of_hdr; [exact Hsz|].
    unfold content_hdr, upd_pax. cbn [h_pax with_size_name set_pax]. paxs. discriminate.
  - exists (node_of fr), m. split; [|split; [reflexivity|split; [reflexivity|]]].
    + intro x. rewrite (lookup_abs hr c s2 x HI2), Edb2, with_rows_rows.
      rewrite look_replace; [|exact Hrows|exact Hnd|reflexivity|eapply find_rows_has; exact Hf].
      rewrite (lookup_abs hr c s x HI). reflexivity.
    + change (n_cid (node_of fr)) with (end_rec c s, end_blk c s). cbn [fst snd].
      rewrite end_off, Etp. split; [apply member_at_new; apply HI|].
      split; [unfold mdata; rewrite Edata; reflexivity|].
      split; [rewrite Ehdr; reflexivity|]. split; [rewrite Ehdr; exact Hsz|].
      unfold mdata. rewrite Edata. reflexivity.
Qed.

(* ---------- a name that does not exist, or is a directory *)
Lemma create_new s n d : Wf hr c s -> hbok s -> good n -> clen d < 10 ^ 40 ->
  match lookup (abs s) n with Some v => is_dir v = true | None => True end ->
  exists s' o, step c s (CCreateFile n d) = (s', o) /\ Wf hr c s' /\ hbok s' /\
    match o with
    | OOk => spec_parent (abs s) n = OOk /\ lookup (abs s) n = None /\ written s s' n d
    | _ => ns_eq (abs s') (abs s)
    end.
Proof.
  intros HW Hhb G Hlen Hnew. pose proof (wf_inv hr c s HW) as HI. pose proof (iv_li hr c s HI) as HL.
  assert (Hrows : Forall rowok (rows (db s))) by apply HL.
  assert (Hnd : NoDup (map r_name (rows (db s)))) by apply HL.
  cbn [step]. unfold fs_create. rewrite Hro.
  destruct n as [|n0 n'] eqn:Enn; [exfalso; exact (good_nonempty [] G eq_refl)|]. rewrite <- Enn in *. clear Enn.
  rewrite (path_clean_good n G).
  rewrite (parent_check_exact hr s n HL (good_abs n G)).
  unfold spec_parent. rewrite (lookup_abs hr c s (path_dir n) HI). unfold look at 1.
  destruct (find_rows (rows (db s)) (path_dir n)) as [pd|] eqn:Ep; cbn [option_map].
  2:{ eexists s, _. split; [reflexivity|]. split; [exact HW|]. split; [exact Hhb|]. cbn iota. apply ns_eq_refl. }
  change (is_dir (node_of pd)) with (r_tf pd =? TypeDir).
  destruct (r_tf pd =? TypeDir) eqn:Ed.
  2:{ eexists s, _. split; [reflexivity|]. split; [exact HW|]. split; [exact Hhb|]. cbn iota. apply ns_eq_refl. }
  unfold fs_openfile. destruct n as [|n2 n3] eqn:Enn; [exfalso; exact (good_nonempty [] G eq_refl)|]. rewrite <- Enn in *. clear Enn.
  rewrite (path_clean_good n G).
  rewrite (stat_false_exact hr s n HL G).
  rewrite (lookup_abs hr c s n HI) in Hnew |- *. unfold look in Hnew |- *.
  destruct (find_rows (rows (db s)) n) as [dd|] eqn:En; cbn [option_map] in Hnew |- *.
  { (* an existing directory *)
    change (h_tf (hdr_of_row dd)) with (r_tf dd). change (is_dir (node_of dd)) with (r_tf dd =? TypeDir) in Hnew.
    rewrite Hnew. unfold decode_flags. rewrite Hro. cbn.
    eexists s, _. split; [reflexivity|]. split; [exact HW|]. split; [exact Hhb|]. cbn iota. apply ns_eq_refl. }
  rewrite (stat_s_true hr s n HL). rewrite Hro. cbn [negb andb create_flags o_create].
  rewrite (parent_check_exact hr s n HL (good_abs n G)), Ep, Ed.
  destruct (mknode_pos hr c HP Hrs Hro s false n 438 HI Hhb G) as (s1 & m1 & E & HI1 & Hhb1 & Eclk & Etp1 & Ehdr1 & Edata1 & Edb).
  { apply alive_cpre. apply (live_alive _ (path_dir n)). eapply find_live. exact Ep. }
  rewrite E. pose proof (iv_li hr c s1 HI1) as HL1.
  set (nr := new_row c false n 438 (clk s) (end_rec c s) (end_blk c s)) in *.
  assert (Fn1 : find_rows (rows (db s1)) n = Some nr).
  { rewrite Edb, with_rows_rows. rewrite find_rows_upsert; [|exact Hrows|exact Hnd|reflexivity|reflexivity].
    change (r_name nr) with n. rewrite eqb_str_refl. reflexivity. }
  rewrite (stat_false_exact hr s1 n HL1 G), Fn1.
  assert (HW1 : Wf hr c s1).
  { split; [exact HI1|]. rewrite Edb, with_rows_rows. apply sizes_upsert; [apply HW|]. reflexivity. }
  assert (Ea1 : forall x, lookup (abs s1) x = if eqb_str x n then Some (node_of nr) else lookup (abs s) x).
  { intro x. rewrite (lookup_abs hr c s1 x HI1), Edb, with_rows_rows.
    rewrite look_upsert; [|exact Hrows|exact Hnd|reflexivity|reflexivity].
    rewrite (lookup_abs hr c s x HI). reflexivity. }
  (* the handle *)
  unfold decode_flags. rewrite Hro.
  cbn [o_acc o_append o_create o_excl o_trunc create_flags negb andb orb fl_write fl_append fl_trunc N.eqb Pos.eqb].
  change (h_tf (hdr_of_row nr)) with TypeReg. change (h_size (hdr_of_row nr)) with 0.
  change (TypeReg =? TypeDir) with false. cbn [andb negb orb N.eqb].
  unfold write_close.
  destruct d as [|p0 dr].
  - (* nothing to write: the handle has no buffer, Close writes nothing; the record of mknode carries no data *)
    cbn [hd_buf handle_close]. eexists s1, _. split; [reflexivity|]. split; [exact HW1|]. split; [exact Hhb1|]. cbn iota.
    split; [reflexivity|]. split; [reflexivity|].
    exists (node_of nr), m1. split; [|split; [reflexivity|split; [reflexivity|]]].
    + intro x. rewrite lookup_ns_set. apply Ea1.
    + change (n_cid (node_of nr)) with (end_rec c s, end_blk c s). cbn [fst snd].
      rewrite end_off, Etp1. split; [apply member_at_new; apply HI|].
      split; [unfold mdata; rewrite Edata1; reflexivity|].
      split; [rewrite Ehdr1; reflexivity|]. split; [rewrite Ehdr1; reflexivity|].
      unfold mdata. rewrite Edata1. reflexivity.
  - remember (p0 :: dr) as d eqn:Ed0.
    assert (Hdne : match d with [] => False | _ => True end) by (subst d; exact I). clear Ed0 p0 dr.
    unfold handle_write_all. cbn [hd_info hd_flags hd_buf hd_path fl_write fl_append fl_trunc negb].
    change (h_tf (hdr_of_row nr)) with TypeReg. change (TypeReg =? TypeDir) with false. cbn iota.
    change (h_name (hdr_of_row nr)) with n.
    rewrite (stat_false_exact hr s1 n HL1 G), Fn1.
    change (h_size (hdr_of_row nr)) with 0. cbn [N.eqb negb].
    unfold handle_close.
    destruct d as [|p0 dr]; [contradiction|]. remember (p0 :: dr) as d eqn:Ed0. clear Hdne.
    match goal with |- context [flush_hdr ?h _] => set (hd := h) end.
    rewrite coverlay_nil_eq.
    destruct (flush_written s1 hd d nr (clk s1) HW1 Hhb1) as (s2 & E2 & HW2 & Hhb2 & v & m & Lk & V1 & V2 & V3 & V4 & V5).
    { exact G. } { reflexivity. } { exact Hlen. } { exact Fn1. }
    rewrite E2. eexists s2, _. split; [rewrite Ed0; reflexivity|]. split; [exact HW2|]. split; [exact Hhb2|]. cbn iota.
    split; [reflexivity|]. split; [reflexivity|].
    exists v, m. split; [|exact (conj V1 (conj V2 (conj V3 (conj V4 V5))))].
    intro x. rewrite lookup_ns_set, Lk. change (hd_path hd) with n. destruct (eqb_str x n) eqn:Ex; [reflexivity|].
    rewrite Ea1, Ex. reflexivity.
Qed.

(* ---------- an existing entry that is not a directory: the content, size and content position are replaced;
   nothing at all happens when the file is empty and nothing is written *)
Lemma create_existing s n d v : Wf hr c s -> hbok s -> good n -> clen d < 10 ^ 40 ->
  lookup (abs s) n = Some v -> is_dir v = false -> spec_parent (abs s) n = OOk ->
  exists s', step c s (CCreateFile n d) = (s', OOk) /\ Wf hr c s' /\ hbok s' /\
    ((d = [] /\ n_size v = 0 /\ ns_eq (abs s') (abs s)) \/ written s s' n d).
Proof.
  intros HW Hhb G Hlen Hv Hnd Hpar. pose proof (wf_inv hr c s HW) as HI. pose proof (iv_li hr c s HI) as HL.
  cbn [step]. unfold fs_create. rewrite Hro.
  destruct n as [|n0 n'] eqn:Enn; [exfalso; exact (good_nonempty [] G eq_refl)|]. rewrite <- Enn in *. clear Enn.
  rewrite (path_clean_good n G).
  rewrite (parent_check_exact hr s n HL (good_abs n G)).
  unfold spec_parent in Hpar. rewrite (lookup_abs hr c s _ HI) in Hpar. rewrite (lookup_abs hr c s _ HI) in Hv. unfold look in Hpar, Hv.
  destruct (find_rows (rows (db s)) (path_dir n)) as [pd|] eqn:Ep; cbn [option_map] in Hpar; [|discriminate].
  change (is_dir (node_of pd)) with (r_tf pd =? TypeDir) in Hpar.
  destruct (r_tf pd =? TypeDir) eqn:Ed; [clear Hpar|discriminate].
  unfold fs_openfile. destruct n as [|n2 n3] eqn:Enn; [exfalso; exact (good_nonempty [] G eq_refl)|]. rewrite <- Enn in *. clear Enn.
  rewrite (path_clean_good n G).
  rewrite (stat_false_exact hr s n HL G).
  destruct (find_rows (rows (db s)) n) as [d0|] eqn:En; cbn [option_map] in Hv; [|discriminate].
  inversion Hv; subst v. clear Hv. change (is_dir (node_of d0)) with (r_tf d0 =? TypeDir) in Hnd.
  destruct (find_rows_link hr (db s) n d0 HL En) as (Hk & Hrn & Hok).
  unfold decode_flags. rewrite Hro.
  cbn [o_acc o_append o_create o_excl o_trunc negb andb orb fl_write fl_append fl_trunc N.eqb Pos.eqb].
  change (h_tf (hdr_of_row d0)) with (r_tf d0). rewrite Hnd. cbn [andb negb].
  change (h_size (hdr_of_row d0)) with (r_size d0). change (n_size (node_of d0)) with (r_size d0).
  change (h_name (hdr_of_row d0)) with (r_name d0). change (h_link (hdr_of_row d0)) with (r_link d0). rewrite Hrn, Hk.
  set (fl := {| fl_read := true; fl_write := true; fl_append := false; fl_trunc := true |}).
  (* flushing a buffer *)
  assert (FLUSH : forall buf bb, bb = d ->
     exists s', update_op c s [{| f_hdr := stamp_mtime (flush_hdr {| hd_path := n; hd_link := []; hd_flags := fl; hd_info := hdr_of_row d0; hd_buf := buf |} (clen bb)) (clk s);
                                      f_data := bb |}] true true = (s', OOk) /\ Wf hr c s' /\ hbok s' /\
       ((d = [] /\ r_size d0 = 0 /\ ns_eq (abs s') (abs s)) \/ written s s' n d)).
  { intros buf bb Hbb. subst bb.
    set (hd := {| hd_path := n; hd_link := []; hd_flags := fl; hd_info := hdr_of_row d0; hd_buf := buf |}).
    destruct (flush_written s hd d d0 (clk s) HW Hhb) as (s2 & E2 & HW2 & Hhb2 & v & m & Lk & V1 & V2 & V3 & V4 & V5).
    { exact G. } { reflexivity. } { exact Hlen. } { exact En. }
    exists s2. split; [exact E2|]. split; [exact HW2|]. split; [exact Hhb2|]. right.
    exists v, m. split; [|exact (conj V1 (conj V2 (conj V3 (conj V4 V5))))].
    intro x. rewrite lookup_ns_set, Lk. reflexivity. }
  unfold write_close.
  destruct (r_size d0 =? 0) eqn:Esz; cbn [negb andb].
  - (* an empty file: the handle has no buffer *)
    destruct d as [|p0 dr].
    + cbn [hd_buf handle_close]. exists s. split; [reflexivity|]. split; [exact HW|]. split; [exact Hhb|]. left.
      split; [reflexivity|]. split; [apply N.eqb_eq; exact Esz|apply ns_eq_refl].
    + remember (p0 :: dr) as d eqn:Ed0.
      assert (Hdne : match d with [] => False | _ => True end) by (subst d; exact I). clear Ed0 p0 dr.
      unfold handle_write_all. cbn [hd_info hd_flags hd_buf hd_path fl fl_write fl_append fl_trunc negb].
      change (h_tf (hdr_of_row d0)) with (r_tf d0). rewrite Hnd. cbn iota.
      rewrite (stat_false_exact hr s n HL G), En.
      change (h_size (hdr_of_row d0)) with (r_size d0). rewrite Esz. cbn [negb].
      unfold handle_close.
      destruct d as [|p0 dr]; [contradiction|]. apply FLUSH. apply coverlay_nil_eq.
  - (* a non-empty file: O_TRUNC gave the handle an empty buffer *)
    destruct d as [|p0 dr].
    + cbn [hd_buf handle_close]. apply (FLUSH (Some []) []). reflexivity.
    + remember (p0 :: dr) as d eqn:Ed0.
      assert (Hdne : match d with [] => False | _ => True end) by (subst d; exact I). clear Ed0 p0 dr.
      unfold handle_write_all. cbn [hd_info hd_flags hd_buf hd_path fl fl_write fl_append fl_trunc negb].
      change (h_tf (hdr_of_row d0)) with (r_tf d0). rewrite Hnd. cbn iota.
      unfold handle_close.
      destruct d as [|p0 dr]; [contradiction|]. apply FLUSH. apply coverlay_nil_eq.
Qed.
(* ---------- the parent is missing or is not a directory: the call fails and changes nothing *)
Lemma create_noparent s n d : Wf hr c s -> good n -> spec_parent (abs s) n <> OOk ->
  exists o, step c s (CCreateFile n d) = (s, o) /\ o <> OOk.
Proof.
  intros HW G Hpar. pose proof (wf_inv hr c s HW) as HI. pose proof (iv_li hr c s HI) as HL.
  cbn [step]. unfold fs_create. rewrite Hro.
  destruct n as [|n0 n'] eqn:Enn; [exfalso; exact (good_nonempty [] G eq_refl)|]. rewrite <- Enn in *. clear Enn.
  rewrite (path_clean_good n G).
  rewrite (parent_check_exact hr s n HL (good_abs n G)).
  unfold spec_parent in Hpar. rewrite (lookup_abs hr c s (path_dir n) HI) in Hpar. unfold look in Hpar.
  destruct (find_rows (rows (db s)) (path_dir n)) as [pd|] eqn:Ep; cbn [option_map] in Hpar.
  - change (is_dir (node_of pd)) with (r_tf pd =? TypeDir) in Hpar.
    destruct (r_tf pd =? TypeDir); [exfalso; apply Hpar; reflexivity|]. eexists. split; [reflexivity|discriminate].
  - eexists. split; [reflexivity|discriminate].
Qed.
End Create.
