(* T19 / Db: every index operation commutes with the renaming on related index states.
   Writer side: the C01 characterisations ([*_lv], index with cached root "/").  Reader side: getSanitizedPath over the
   cached root "" with the root row "" live ([T17Db.sanitize_foreign]) maps every spelling of a name ("/a/f", "a/f",
   "/a/f/", "a/f/") to the stored one. *)
From Coq Require Import List NArith ZArith Bool Lia.
From Coq Require Import ZifyN ZifyBool.
Import ListNotations.
From STFS Require Import Str Db Tape Index Ops Fs Diff Norm StrLemmas C01Str C01Db C01Inv C01Sim C01Ops2
  T13Path T13ListStr T13List T17Str T17Db T19Rel T19Base.
Open Scope N_scope.

(* the reader's index after a query: same rows, same cached root (only root_empty may have been set) *)
Definition same (p p' : pstate) : Prop := rows p' = rows p /\ root p' = root p.
Lemma same_refl p : same p p. Proof. split; reflexivity. Qed.
Lemma same_trans p q r : same p q -> same q r -> same p r.
Proof. intros [A B] [C D]. split; congruence. Qed.

(* standing hypotheses: the writer's index satisfies the C01 invariant with the root row live and first *)
Record PR (pa pr : pstate) : Prop := { PR_li : LI true pa; PR_rel : prel pa pr }.

Lemma prel_same pa pr pr' : prel pa pr -> same pr pr' -> prel pa pr'.
Proof. intros [A B C] [E1 E2]. split; [rewrite E1; exact A|exact B|congruence]. Qed.
Lemma PR_same pa pr pr' : PR pa pr -> same pr pr' -> PR pa pr'.
Proof. intros [A B] S. split; [exact A|eapply prel_same; eassumption]. Qed.

Lemma PR_rowok pa pr : PR pa pr -> Forall rowok (rows pa).
Proof. intros [[_ _ [H _ _]] _]. exact H. Qed.

Lemma PR_head pa pr : PR pa pr -> exists a0 ta r0 tr, rows pa = a0 :: ta /\ rows pr = r0 :: tr /\ rowrel a0 r0 /\
  r_name a0 = [slash] /\ r_del a0 = false /\ r_name r0 = [] /\ r_del r0 = false.
Proof.
  intros [[_ _ [_ _ H]] [HR _ _]]. destruct (H eq_refl) as (a0 & ta & E & N & D). unfold rows_rel in HR. rewrite E in HR.
  inversion HR as [|? r0 ? tr H0 Ht E1 E2]; subst. exists a0, ta, r0, tr.
  split; [exact E|]. split; [reflexivity|]. split; [exact H0|]. split; [exact N|]. split; [exact D|]. split.
  - rewrite (rr_name _ _ H0), N. reflexivity.
  - rewrite (rr_del _ _ H0). exact D.
Qed.

Lemma PR_foreign pa pr : PR pa pr -> Foreign pr.
Proof.
  intro H. destruct (PR_head pa pr H) as (a0 & ta & r0 & tr & _ & E & _ & _ & _ & N & D).
  split; [exact (pr_root_r _ _ (PR_rel _ _ H))|]. unfold exists_exact. rewrite E. cbn [existsb]. unfold live. rewrite D, N. reflexivity.
Qed.

(* ---------- getSanitizedPath *)
Lemma sanitize_wr pa pr g : PR pa pr -> good g -> sanitize pa g = (pa, g).
Proof. intros H G. apply sanitize_live; [exact (pr_root_a _ _ (PR_rel _ _ H))|exact G]. Qed.

Lemma sanitize_rd pa pr g nr : PR pa pr -> good g -> nrel g nr ->
  exists pr', sanitize pr nr = (pr', norm_name g) /\ same pr pr'.
Proof.
  intros H G Hn. destruct (sanitize_foreign pr nr (PR_foreign _ _ H)) as (p' & E & S1 & S2).
  exists p'. split; [|split; assumption]. rewrite E. f_equal.
  destruct (good_inv g G) as (cs & Hcs & ->). unfold nrel in Hn. replace (norm_name (pth cs)) with (join_slash cs) in * by (symmetry; apply norm_name_good).
  destruct Hn as [-> | ->]; [apply rel_name_pth; exact Hcs|]. apply rel_name_join. exact Hcs.
Qed.

(* the directory spelling of a name *)
Lemma sanitize_rd_slash pa pr g nr : PR pa pr -> good g -> nrel g nr ->
  exists pr', sanitize pr (trim_suffix [slash] nr ++ [slash]) = (pr', norm_name g) /\ same pr pr'.
Proof.
  intros H G Hn. destruct (sanitize_foreign pr (trim_suffix [slash] nr ++ [slash]) (PR_foreign _ _ H)) as (p' & E & S1 & S2).
  exists p'. split; [|split; assumption]. rewrite E. f_equal.
  destruct (good_inv g G) as (cs & Hcs & ->). unfold nrel in Hn. replace (norm_name (pth cs)) with (join_slash cs) in * by (symmetry; apply norm_name_good).
  destruct Hn as [-> | ->]; [apply rel_name_pth_slash; exact Hcs|].
  destruct cs as [|c cs]; [reflexivity|]. rewrite join_trim_slash by exact Hcs. apply rel_name_join_slash; [exact Hcs|discriminate].
Qed.

(* ---------- lookups *)
Inductive optrel {A B} (P : A -> B -> Prop) : option A -> option B -> Prop :=
| optrel_none : optrel P None None
| optrel_some a b : P a b -> optrel P (Some a) (Some b).

Inductive resrel {A B} (P : A -> B -> Prop) : res A -> res B -> Prop :=
| resrel_ok a b : P a b -> resrel P (Ok a) (Ok b)
| resrel_norows : resrel P NoRows NoRows
| resrel_unique : resrel P Unique Unique
| resrel_fail e : resrel P (Fail e) (Fail e).

Lemma min_link_rel la lr : rows_rel la lr -> forall ba br, optrel rowrel ba br -> optrel rowrel (min_link la ba) (min_link lr br).
Proof.
  induction 1 as [|a r la lr Har _ IH]; intros ba br Hb; cbn [min_link]; [exact Hb|].
  destruct Hb as [|b b' Hb].
  - apply IH. constructor. exact Har.
  - rewrite (rr_link _ _ Har), (rr_link _ _ Hb). destruct (ltb_str (r_link a) (r_link b)); apply IH; constructor; assumption.
Qed.

Lemma find_rows_rel la lr n : rows_rel la lr -> is_abs n = true -> optrel rowrel (find_rows la n) (find_rows lr (norm_name n)).
Proof.
  intros H Hn. unfold find_rows. apply min_link_rel; [|constructor].
  apply F2_filter; [exact H|]. intros a r _ _ Har. rewrite (rowrel_live _ _ Har), (rowrel_name_eqb _ _ n Har Hn). reflexivity.
Qed.

Definition of_find (o : option row) : res row := match o with Some r => Ok r | None => NoRows end.

Lemma get_header_sim pa pr g nr : PR pa pr -> good g -> nrel g nr ->
  exists pr' rr, get_header pa g = (pa, of_find (find_rows (rows pa) g)) /\
    get_header pr nr = (pr', rr) /\ same pr pr' /\ resrel rowrel (of_find (find_rows (rows pa) g)) rr.
Proof.
  intros H G Hn. destruct (sanitize_rd pa pr g nr H G Hn) as (pr' & Es & S).
  exists pr', (of_find (find_rows (rows pr) (norm_name g))). split; [|split; [|split; [exact S|]]].
  - rewrite (get_header_lv true pa g (PR_li _ _ H) G). reflexivity.
  - rewrite get_header_form, Es. cbn [fst snd]. rewrite (proj1 S). reflexivity.
  - destruct (find_rows_rel (rows pa) (rows pr) g (pr_rows _ _ (PR_rel _ _ H)) (good_abs g G)); constructor. assumption.
Qed.

(* no stored name ends in a slash *)
Lemma find_rows_trailing pa pr g : PR pa pr -> good g -> g <> [slash] -> find_rows (rows pa) (g ++ [slash]) = None.
Proof.
  intros H G Hg. destruct (find_rows (rows pa) (g ++ [slash])) as [r|] eqn:E; [|reflexivity]. exfalso.
  apply find_rows_some in E as (Hin & _ & Nm). pose proof (PR_rowok _ _ H) as F. rewrite Forall_forall in F.
  destruct (F r Hin) as (Gr & _). rewrite Nm in Gr.
  assert (K : has_suffix [slash] (g ++ [slash]) = true) by (unfold has_suffix; rewrite rev_app_distr; reflexivity).
  rewrite good_no_trailing in K; [discriminate|exact Gr|]. intro Q. destruct g as [|x g']; [exact (good_nonempty _ G eq_refl)|destruct g'; discriminate].
Qed.

(* the second lookup of inventory.Stat / Restore (directory spelling) adds nothing on either side *)
Lemma get_header_slash_wr pa pr g : PR pa pr -> good g -> find_rows (rows pa) g = None ->
  get_header pa (trim_suffix [slash] g ++ [slash]) = (pa, NoRows).
Proof.
  intros H G E. destruct (str_eq_dec g [slash]) as [->|Hg].
  - rewrite root_trim_slash. cbn [app]. rewrite (get_header_lv true pa [slash] (PR_li _ _ H) good_root), E. reflexivity.
  - rewrite good_trim_slash by assumption. rewrite get_header_form.
    assert (Es : sanitize pa (g ++ [slash]) = (pa, g ++ [slash])).
    { rewrite (sanitize_root_eq pa _ (pr_root_a _ _ (PR_rel _ _ H))).
      destruct (good_cons g G) as (gj & ->). cbn [app is_abs]. rewrite N.eqb_refl.
      replace (is_root_name (slash :: gj ++ [slash]) || eqb_str (slash :: gj ++ [slash]) [slash]) with false; [reflexivity|].
      symmetry. apply orb_false_iff. split.
      - destruct gj as [|y gj']; [exfalso; apply Hg; reflexivity|reflexivity].
      - destruct gj as [|y gj']; [exfalso; apply Hg; reflexivity|reflexivity]. }
    rewrite Es. cbn [fst snd]. rewrite (find_rows_trailing pa pr g H G Hg). reflexivity.
Qed.

Lemma get_header_slash_rd pa pr g nr : PR pa pr -> good g -> nrel g nr -> find_rows (rows pa) g = None ->
  exists pr', get_header pr (trim_suffix [slash] nr ++ [slash]) = (pr', NoRows) /\ same pr pr'.
Proof.
  intros H G Hn E. destruct (sanitize_rd_slash pa pr g nr H G Hn) as (pr' & Es & S). exists pr'. split; [|exact S].
  rewrite get_header_form, Es. cbn [fst snd]. rewrite (proj1 S).
  pose proof (find_rows_rel (rows pa) (rows pr) g (pr_rows _ _ (PR_rel _ _ H)) (good_abs g G)) as K. rewrite E in K.
  inversion K. reflexivity.
Qed.

Lemma find_rows_row pa pr g d : PR pa pr -> find_rows (rows pa) g = Some d ->
  In d (rows pa) /\ live d = true /\ r_name d = g /\ r_link d = [] /\ rowok d.
Proof.
  intros H E. destruct (find_rows_link true pa g d (PR_li _ _ H) E) as (A & B & C).
  apply find_rows_some in E as (E1 & E2 & E3). repeat split; try assumption; apply C.
Qed.

(* inventory.Stat(name, false) *)
Lemma inv_stat_false_sim pa pr g nr : PR pa pr -> good g -> nrel g nr ->
  exists pr' rr, inv_stat pa g false = (pa, match find_rows (rows pa) g with Some d => Ok (hdr_of_row d) | None => NoRows end) /\
    inv_stat pr nr false = (pr', rr) /\ same pr pr' /\
    resrel hrel (match find_rows (rows pa) g with Some d => Ok (hdr_of_row d) | None => NoRows end) rr.
Proof.
  intros H G Hn. unfold inv_stat.
  destruct (get_header_sim pa pr g nr H G Hn) as (pr1 & rr & Ea & Er & S1 & HR). rewrite Ea, Er.
  destruct (find_rows (rows pa) g) as [d|] eqn:Ef; cbn [of_find] in *.
  - inversion HR as [? d' Hd| | |]; subst. destruct (find_rows_row pa pr g d H Ef) as (_ & _ & _ & Lk & _).
    rewrite (rr_link _ _ Hd), Lk. cbn [eqb_str negb]. exists pr1, (Ok (hdr_of_row d')).
    repeat split; try reflexivity; try apply S1. constructor. apply hrel_of_rowrel. exact Hd.
  - inversion HR; subst. rewrite (get_header_slash_wr pa pr g H G Ef).
    destruct (get_header_slash_rd pa pr1 g nr (PR_same _ _ _ H S1) G Hn Ef) as (pr2 & E2 & S2). rewrite E2.
    exists pr2, NoRows. repeat split; try reflexivity; try apply (same_trans _ _ _ S1 S2). constructor.
Qed.

(* inventory.Stat(name, true) of a name other than the root: no link names in the index *)
Lemma links_nil pa pr : PR pa pr -> Forall (fun r => r_link r = []) (rows pa) /\ Forall (fun r => r_link r = []) (rows pr).
Proof.
  intro H. pose proof (PR_rowok _ _ H) as F. split.
  - eapply Forall_impl; [|exact F]. intros a (_ & K & _). exact K.
  - apply Forall_forall. intros r Hr. destruct (F2_in_r _ _ _ r (pr_rows _ _ (PR_rel _ _ H)) Hr) as (a & Ha & Har).
    rewrite Forall_forall in F. rewrite (rr_link _ _ Har). apply (F a Ha).
Qed.

Lemma norm_good_nonempty g : good g -> g <> [slash] -> norm_name g <> [].
Proof.
  intros G Hg. destruct (good_inv g G) as (cs & Hcs & ->). unfold pth. rewrite norm_name_good.
  intro K. apply join_nil_iff in K; [|exact Hcs]. subst cs. apply Hg. reflexivity.
Qed.

Lemma gh_link_rd pa pr g nr : PR pa pr -> good g -> g <> [slash] -> nrel g nr ->
  (exists pr', get_header_by_linkname pr nr = (pr', NoRows) /\ same pr pr') /\
  (exists pr', get_header_by_linkname pr (trim_suffix [slash] nr ++ [slash]) = (pr', NoRows) /\ same pr pr').
Proof.
  intros H G Hg Hn. pose proof (norm_good_nonempty g G Hg) as Hne.
  assert (K : forall p', same pr p' -> filter (fun r => live r && eqb_str (r_link r) (norm_name g)) (rows p') = []).
  { intros p' S. rewrite (proj1 S). apply filter_nil_all'. intros r Hr. destruct (links_nil _ _ H) as [_ F]. rewrite Forall_forall in F.
    rewrite (F r Hr). destruct (norm_name g); [contradiction|]. apply andb_false_r. }
  split.
  - destruct (sanitize_rd pa pr g nr H G Hn) as (pr' & Es & S). exists pr'. split; [|exact S].
    unfold get_header_by_linkname. rewrite Es, (K pr' S). reflexivity.
  - destruct (sanitize_rd_slash pa pr g nr H G Hn) as (pr' & Es & S). exists pr'. split; [|exact S].
    unfold get_header_by_linkname. rewrite Es, (K pr' S). reflexivity.
Qed.

Lemma inv_stat_true_rd pa pr g nr : PR pa pr -> good g -> g <> [slash] -> nrel g nr ->
  exists pr', inv_stat pr nr true = (pr', NoRows) /\ same pr pr'.
Proof.
  intros H G Hg Hn. unfold inv_stat. destruct (gh_link_rd pa pr g nr H G Hg Hn) as ((p1 & E1 & S1) & _). rewrite E1.
  destruct (gh_link_rd pa p1 g nr (PR_same _ _ _ H S1) G Hg Hn) as (_ & (p2 & E2 & S2)). rewrite E2.
  exists p2. split; [reflexivity|eapply same_trans; eassumption].
Qed.

Lemma lookup_entry_sim pa pr g nr : PR pa pr -> good g -> g <> [slash] -> nrel g nr ->
  exists pr' rr, lookup_entry pa g = (pa, of_find (find_rows (rows pa) g)) /\
    lookup_entry pr nr = (pr', rr) /\ same pr pr' /\ resrel rowrel (of_find (find_rows (rows pa) g)) rr.
Proof.
  intros H G Hg Hn. rewrite (lookup_entry_lv true pa g (PR_li _ _ H) G). unfold lookup_entry.
  destruct (get_header_sim pa pr g nr H G Hn) as (pr1 & rr & _ & Er & S1 & HR). rewrite Er.
  destruct (find_rows (rows pa) g) as [d|] eqn:Ef; cbn [of_find] in *; inversion HR as [a b Hab| | |]; subst.
  - exists pr1, (Ok b). repeat split; try apply S1. constructor. exact Hab.
  - destruct (gh_link_rd pa pr1 g nr (PR_same _ _ _ H S1) G Hg Hn) as ((p2 & E2 & S2) & _). rewrite E2.
    exists p2, NoRows. repeat split; try apply (same_trans _ _ _ S1 S2). constructor.
Qed.

(* ---------- GetHeaderChildren (the subtree of a directory other than the root) *)
Lemma slash_like pat x : sql_like (slash :: pat) (slash :: x) = sql_like pat x.
Proof. rewrite sql_like_lit_cons by reflexivity. reflexivity. Qed.

Lemma kid_filter_rel g a r : good g -> g <> [slash] -> rowrel a r -> good (r_name a) ->
  kid_filter (norm_name g) r = kid_filter g a.
Proof.
  intros G Hg Har Ga. unfold kid_filter. rewrite (rowrel_live _ _ Har), (rr_name _ _ Har).
  destruct (good_inv g G) as (cs & Hcs & ->). destruct (good_inv _ Ga) as (ds & Hds & Ea). rewrite Ea.
  unfold pth at 1 3 5. rewrite !norm_name_good.
  assert (Hc : cs <> []) by (intro K; subst cs; apply Hg; reflexivity).
  rewrite join_trim_slash by exact Hcs. rewrite (good_trim_slash (pth cs)) by (apply good_pth || exact Hg; exact Hcs).
  unfold pth. cbn [app]. rewrite slash_like. cbn [has_prefix]. rewrite N.eqb_refl. cbn [andb].
  f_equal. unfold not_self. rewrite (rr_name _ _ Har), Ea. unfold pth. rewrite norm_name_good.
  destruct ds as [|d ds].
  - cbn [join_slash]. change (trim_suffix [slash] []) with (@nil N). change (trim_suffix [slash] [slash]) with (@nil N).
    cbn [app eqb_str]. rewrite N.eqb_refl. cbn [andb].
    replace (eqb_str (join_slash cs) []) with false; [|symmetry; apply eqb_str_neq; apply join_nonempty; assumption].
    replace (eqb_str (join_slash cs) [slash]) with false.
    + reflexivity.
    + symmetry. apply eqb_str_neq. intro K. pose proof (join_no_trailing cs Hcs) as T. rewrite K in T. discriminate.
  - rewrite join_trim_slash by exact Hds. change (slash :: join_slash (d :: ds)) with (pth (d :: ds)).
    rewrite (good_trim_slash (pth (d :: ds))); [|apply good_pth; exact Hds|intro K; apply pth_root_iff in K; [discriminate|exact Hds]].
    unfold pth. cbn [app eqb_str]. rewrite N.eqb_refl. reflexivity.
Qed.

Lemma get_children_sim pa pr g nr : PR pa pr -> good g -> g <> [slash] -> nrel g nr ->
  exists pr' lr, get_children pa g = (pa, filter (kid_filter g) (rows pa)) /\
    get_children pr nr = (pr', lr) /\ same pr pr' /\ rows_rel (filter (kid_filter g) (rows pa)) lr.
Proof.
  intros H G Hg Hn. destruct (sanitize_rd pa pr g nr H G Hn) as (pr' & Es & S).
  exists pr', (filter (kid_filter (norm_name g)) (rows pr)). split; [|split; [|split; [exact S|]]].
  - apply (get_children_lv true); [exact (PR_li _ _ H)|exact G].
  - unfold get_children. rewrite Es, (proj1 S). reflexivity.
  - apply F2_filter; [exact (pr_rows _ _ (PR_rel _ _ H))|]. intros a r Ha _ Har. symmetry. apply kid_filter_rel; try assumption.
    pose proof (PR_rowok _ _ H) as F. rewrite Forall_forall in F. apply (F a Ha).
Qed.

(* ---------- GetHeaderDirectChildren (no limit): the rows one component below, on both sides *)
Lemma childp_childb sc cs : Forall okc sc -> Forall okc cs ->
  negb (eqb_str (pth cs) [slash]) && eqb_str (path_dir (pth cs)) (pth sc) = childb sc cs.
Proof.
  intros Hsc Hcs. destruct (strs_eq_dec cs []) as [->|Hn].
  - cbn. destruct sc; reflexivity.
  - replace (eqb_str (pth cs) [slash]) with false by (symmetry; apply eqb_str_neq; intro K; apply pth_root_iff in K; [contradiction|exact Hcs]).
    cbn [negb andb]. destruct (exists_last Hn) as (cs' & c & ->).
    apply Forall_app in Hcs as [Hcs' Hc]. inversion Hc as [|? ? Hc' _]; subst.
    rewrite path_dir_pth by assumption.
    destruct (strs_eq_dec cs' sc) as [->|Hne].
    + rewrite eqb_str_refl, childb_snoc. reflexivity.
    + replace (eqb_str (pth cs') (pth sc)) with false by (symmetry; apply eqb_str_neq; intro K; apply pth_inj in K; [contradiction|assumption|assumption]).
      symmetry. apply childb_false. intros x K. apply app_inj_tail in K as [K _]. contradiction.
Qed.

Lemma direct_pred_rel g a r : good g -> rowrel a r -> good (r_name a) -> r_link a = [] ->
  (let n := norm_name g in
   selp (pfx n) 0 r && postf (pfx n) n r) = childp g a.
Proof.
  intros G Har Ga Lk. cbv zeta. destruct (good_inv g G) as (sc & Hsc & ->). destruct (good_inv _ Ga) as (cs & Hcs & Ea).
  assert (Er : r_name r = join_slash cs) by (rewrite (rr_name _ _ Har), Ea; apply norm_name_good).
  unfold pth at 1 2 3. rewrite norm_name_good.
  destruct (live a) eqn:Lv.
  - assert (Sh : forall x : row, In x [r] -> live (id x) = true /\ r_link (id x) = [] /\ r_name (id x) = join_slash ((fun _ => cs) x) /\ Forall okc ((fun _ => cs) x)).
    { intros x [<-|[]]. unfold id. rewrite (rowrel_live _ _ Har), (rr_link _ _ Har). repeat split; assumption. }
    unfold childp. rewrite Lv, Ea. cbn [andb]. rewrite childp_childb by assumption.
    destruct sc as [|s0 sc].
    + cbn [join_slash]. change (pfx []) with (@nil N).
      exact (sel_root id (fun _ => cs) [r] Sh r (or_introl eq_refl)).
    + assert (Epf : pfx (join_slash (s0 :: sc)) = join_slash (s0 :: sc) ++ [slash]).
      { unfold pfx. rewrite join_is_root by (exact Hsc || discriminate). rewrite join_trim_slash by exact Hsc. reflexivity. }
      rewrite Epf. exact (sel_nonroot id (fun _ => cs) [r] Sh (s0 :: sc) r (or_introl eq_refl) ltac:(discriminate) Hsc).
  - unfold childp. rewrite Lv. cbn [andb]. unfold selp. rewrite (rowrel_live _ _ Har), Lv. rewrite !andb_false_r. reflexivity.
Qed.

Lemma gdc_sim pa pr g nr : PR pa pr -> good g -> nrel g nr ->
  exists pr' lr, get_direct_children pa g None = (pa, Ok (filter (childp g) (rows pa))) /\
    get_direct_children pr nr None = (pr', Ok lr) /\ same pr pr' /\ rows_rel (filter (childp g) (rows pa)) lr.
Proof.
  intros H G Hn. destruct (links_nil _ _ H) as [La Lr]. pose proof (PR_rowok _ _ H) as F.
  destruct (PR_head _ _ H) as (a0 & ta & r0 & tr & Ea & Er & H0 & Na & Da & Nr & Dr).
  destruct (sanitize_rd pa pr g nr H G Hn) as (pr' & Es & S).
  exists pr', (filter (fun r => selp (pfx (norm_name g)) 0 r && postf (pfx (norm_name g)) (norm_name g) r) (rows pr)).
  split; [|split; [|split; [exact S|]]].
  - rewrite (gdc_form' pa g pa g (sanitize_wr pa pr g H G) La).
    destruct (str_eq_dec g [slash]) as [->|Hg].
    + change (is_root_name [slash]) with true. cbv iota.
      rewrite (min_slashes_one (filter live (rows pa))).
      * change (pfx [slash]) with (@nil N). rewrite filter_filter. f_equal. f_equal. apply filter_ext_in'. intros x Hx.
        rewrite Forall_forall in F, La. apply row_root; [apply La; exact Hx|intros _; apply (F x Hx)].
      * intros r Hr. apply filter_In in Hr as [Hr _]. rewrite Forall_forall in F. apply (F r Hr).
      * exists a0. split; [|exact Na]. apply filter_In. split; [rewrite Ea; left; reflexivity|]. unfold live. rewrite Da. reflexivity.
    + rewrite (good_is_root_false g G Hg).
      assert (Epf : pfx g = g ++ [slash]) by (unfold pfx; rewrite (good_is_root_false g G Hg), good_trim_slash by assumption; reflexivity).
      rewrite Epf, filter_filter. f_equal. f_equal. apply filter_ext_in'. intros x Hx.
      rewrite Forall_forall in F, La. apply row_nonroot; [exact G|exact Hg|apply La; exact Hx|intros _; apply (F x Hx)].
  - assert (Lr' : Forall (fun r => r_link r = []) (rows pr')) by (rewrite (proj1 S); exact Lr).
    rewrite (gdc_form' pr nr pr' (norm_name g) Es Lr').
    destruct (str_eq_dec g [slash]) as [->|Hg].
    + change (norm_name [slash]) with (@nil N). change (is_root_name []) with true. cbv iota.
      rewrite (proj1 S). rewrite (min_slashes_zero (filter live (rows pr)) r0).
      * rewrite filter_filter. reflexivity.
      * apply filter_In. split; [rewrite Er; left; reflexivity|]. unfold live. rewrite Dr. reflexivity.
      * rewrite Nr. reflexivity.
    + destruct (good_inv g G) as (sc & Hsc & ->). unfold pth. rewrite norm_name_good.
      assert (Hc : sc <> []) by (intro K; subst sc; apply Hg; reflexivity).
      rewrite join_is_root by assumption. rewrite (proj1 S), filter_filter. reflexivity.
  - apply F2_filter; [exact (pr_rows _ _ (PR_rel _ _ H))|]. intros a r Ha _ Har. symmetry.
    rewrite Forall_forall in F, La. apply (direct_pred_rel g a r G Har); [apply (F a Ha)|apply La; exact Ha].
Qed.

(* inventory.List *)
Lemma inv_list_sim pa pr g nr : PR pa pr -> good g -> nrel g nr ->
  exists pr' lr, inv_list pa g None = (pa, Ok (map hdr_of_row (filter (childp g) (rows pa)))) /\
    inv_list pr nr None = (pr', Ok (map hdr_of_row lr)) /\ same pr pr' /\ rows_rel (filter (childp g) (rows pa)) lr.
Proof.
  intros H G Hn. destruct (gdc_sim pa pr g nr H G Hn) as (pr' & lr & Ea & Er & S & HR). exists pr', lr.
  unfold inv_list. rewrite Ea, Er. repeat split; try apply S. exact HR.
Qed.

(* ---------- the list functions behind the write operations *)
Lemma replace_row_rel la lr n k na nr : rows_rel la lr -> is_abs n = true -> rowrel na nr ->
  rows_rel (replace_row n k na la) (replace_row (norm_name n) k nr lr).
Proof.
  intros H Hn Hnew. induction H as [|a r la lr Har Ht IH]; cbn [replace_row]; [constructor|].
  rewrite (rowrel_key_eq a r n k Har Hn). destruct (key_eq n k a); constructor; assumption.
Qed.

Lemma has_key_rel la lr n k : rows_rel la lr -> is_abs n = true -> has_key lr (norm_name n) k = has_key la n k.
Proof.
  intros H Hn. unfold has_key. symmetry. apply (F2_existsb rowrel); [exact H|]. intros a r _ _ Har. symmetry. apply rowrel_key_eq; assumption.
Qed.

Lemma upsert_rows_rel la lr a r : rows_rel la lr -> rowrel a r -> rows_rel (upsert_rows la a) (upsert_rows lr r).
Proof.
  intros H Har. unfold upsert_rows. rewrite (rr_name _ _ Har), (rr_link _ _ Har).
  rewrite (has_key_rel la lr (r_name a) (r_link a) H (rr_abs _ _ Har)).
  destruct (has_key la (r_name a) (r_link a)).
  - apply replace_row_rel; [exact H|exact (rr_abs _ _ Har)|exact Har].
  - apply F2_snoc; assumption.
Qed.

Lemma move_list_rel la lr old new x y : rows_rel la lr -> is_abs old = true -> is_abs new = true ->
  rows_rel (fst (move_list la old new x y)) (fst (move_list lr (norm_name old) (norm_name new) x y)) /\
  snd (move_list lr (norm_name old) (norm_name new) x y) = snd (move_list la old new x y).
Proof.
  intros H Ho Hn. unfold move_list. rewrite (norm_eqb new old Hn Ho).
  set (ma := filter (fun r => eqb_str (r_name r) old) la). set (mr := filter (fun r => eqb_str (r_name r) (norm_name old)) lr).
  assert (Hm : rows_rel ma mr).
  { apply F2_filter; [exact H|]. intros a r _ _ Har. symmetry. apply rowrel_name_eqb; assumption. }
  set (r1a := if eqb_str new old then la else filter _ la). set (r1r := if eqb_str new old then lr else filter _ lr).
  assert (H1 : rows_rel r1a r1r).
  { unfold r1a, r1r. destruct (eqb_str new old); [exact H|]. apply F2_filter; [exact H|]. intros a r _ _ Har.
    rewrite (rowrel_name_eqb a r new Har Hn). f_equal. f_equal. rewrite (rr_link _ _ Har).
    apply (F2_existsb rowrel); [exact Hm|]. intros a' r' _ _ Har'. rewrite (rr_link _ _ Har'). reflexivity. }
  set (sa := filter (fun r => negb (eqb_str (r_name r) old)) r1a).
  set (sr := filter (fun r => negb (eqb_str (r_name r) (norm_name old))) r1r).
  assert (Hs : rows_rel sa sr).
  { apply F2_filter; [exact H1|]. intros a r _ _ Har. rewrite (rowrel_name_eqb a r old Har Ho). reflexivity. }
  assert (E : existsb (fun m => has_key sr (norm_name new) (r_link m)) mr = existsb (fun m => has_key sa new (r_link m)) ma).
  { symmetry. apply (F2_existsb rowrel); [exact Hm|]. intros a r _ _ Har. rewrite (rr_link _ _ Har). symmetry. apply has_key_rel; assumption. }
  rewrite E. destruct (existsb (fun m => has_key sa new (r_link m)) ma); cbn [fst snd]; (split; [|reflexivity]); [exact H1|].
  apply (F2_map rowrel rowrel); [exact H1|]. intros a r _ _ Har. rewrite (rowrel_name_eqb a r old Har Ho).
  destruct (eqb_str (r_name a) old); [|exact Har]. rewrite (rr_del _ _ Har). apply rowrel_set_lk. apply rowrel_set_name; assumption.
Qed.
