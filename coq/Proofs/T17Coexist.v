(* T17 / Coexist: files and directories added through the filesystem coexist with the members of a foreign archive
   and survive an index rebuild.  Mkdir and Create (of an empty file) of a new name under any existing directory,
   addressed by any spelling: the call succeeds, the new state is [Live] for the tree with the new member added
   (so all the theorems about the visible tree, listings and contents apply to it: every old member is kept),
   and a rebuild of the new tape yields exactly the rows of the new index.  [Live] is an invariant: the calls compose. *)
From Coq Require Import List NArith ZArith Bool Lia.
From Coq Require Import ZifyN ZifyBool.
Import ListNotations.
From STFS Require Import Str Db Tape Index Ops Fs Diff StrLemmas C01Str C01Db C01Sim C01Tape C01Ops T13Path T13View
  T17Tree T17Str T17Forest T17Db T17Rebuild T17View T17Main T17Gen T17Insert T17Keep T17Mknode T17Spell T17Names.
Open Scope N_scope.

Lemma lookup_unsnoc q0 x : forall ks ks0, lookup (q0 ++ [x]) ks = Some ks0 ->
  exists ksp mt, lookup q0 ks = Some ksp /\ In (Dir x mt ks0) ksp.
Proof.
  induction q0 as [|y r IH]; intros ks ks0 H; cbn [app lookup] in *.
  - destruct (find _ ks) as [[|nm mt kk]|] eqn:E; try discriminate. inversion H; subst kk.
    apply find_name_in in E as [Hin En]. cbn in En. subst nm. exists ks, mt. split; [reflexivity|exact Hin].
  - destruct (find _ ks) as [[|nm mt kk]|] eqn:E; try discriminate. apply IH. exact H.
Qed.

Lemma last_or_nil {A} (l : list A) : l = [] \/ exists l0 x, l = l0 ++ [x].
Proof. destruct l as [|a l]; [left; reflexivity|right]. destruct (exists_last (l := a :: l) ltac:(discriminate)) as (l0 & x & E). exists l0, x. exact E. Qed.

Lemma pop_hb_set_db s p : fst (pop_hb (set_db s p)) = fst (pop_hb s).
Proof. unfold pop_hb. cbn [set_db hbq]. destruct (hbq s); reflexivity. Qed.

Section Calls.
  Variables (c : cfg) (st : style) (t : tree) (L : list (N * item)).
  Hypothesis HP : plain c.
  Hypothesis Hrs : 0 < c_rs c.
  Hypothesis Hro : c_readonly c = false.
  Hypothesis Hst : wf_style st.
  Hypothesis Hwf : wf t.
  Variables (q : list str) (nm : str) (ks0 : list node) (name : str).
  Hypothesis Hl : lookup q (t_kids t) = Some ks0.
  Hypothesis Hnm : okc nm.
  Hypothesis Hfresh : ~ In nm (map node_name ks0).
  Hypothesis HC : CleanName st (q ++ [nm]) name.

  Lemma q_okc : Forall okc q.
  Proof. destruct (lookup_wf q _ _ (proj2 Hwf) Hl) as [_ Hq]. exact Hq. Qed.
  Lemma q'_okc : Forall okc (q ++ [nm]).
  Proof. apply Forall_app. split; [exact q_okc|constructor; [exact Hnm|constructor]]. Qed.
  Lemma q'_ne : q ++ [nm] <> [].
  Proof. destruct q; discriminate. Qed.

  (* the directory q has a row, and it is a directory *)
  Lemma dir_item p : GenIdx c st t L p -> exists x, In x L /\ i_path (snd x) = q /\ i_dir (snd x) = true.
  Proof.
    intro G. destruct (last_or_nil q) as [E|(q0 & x & E)].
    - destruct (g_top _ _ _ _ _ G) as (a & Ha). exists (a, top_item t). rewrite E. repeat split. exact Ha.
    - pose proof Hl as Hl'. rewrite E in Hl'. destruct (lookup_unsnoc q0 x _ _ Hl') as (ksp & mt & Hlp & Hin).
      destruct (gen_child_in c st t L Hwf p G q0 ksp (Dir x mt ks0) Hlp Hin) as (a & Ha).
      exists (a, item_of q0 (Dir x mt ks0)). rewrite E. repeat split. exact Ha.
  Qed.

  Section OnState.
  Variable s : sys.
  Hypothesis HL : Live c st t L s.

  Lemma live_fresh_path : forall x, In x L -> i_path (snd x) <> q ++ [nm].
  Proof. exact (mk_fresh_path c st t L s Hwf HL q nm ks0 Hl Hfresh). Qed.

  Lemma parent_check_ok : exists p1, parent_check s name = (set_db s p1, OOk) /\ keeps (db s) p1.
  Proof.
    pose proof (lv_idx _ _ _ _ _ HL) as G. destruct (dir_item (db s) G) as (x & Hx & Ep & Ed).
    pose proof (clean_name_parent c st t L (db s) q nm name Hst Hwf G q_okc Hnm HC) as R.
    assert (R' : Res (db s) (path_dir name) (spc st x)) by (unfold spc; rewrite Ep; exact R).
    destruct (gen_stat c st t L Hst (db s) G (path_dir name) x Hx R') as (p1 & E & _).
    pose proof (inv_stat_keeps (db s) (path_dir name) false (Live_settled c st t L s Hst HL)) as K. rewrite E in K. cbn [fst] in K.
    exists p1. split; [|exact K]. unfold parent_check, stat_s. rewrite E.
    cbn [shdr h_tf]. rewrite Ed. reflexivity.
  Qed.

  Lemma stat_missing b : exists p1, stat_s s name b = (set_db s p1, NoRows) /\ keeps (db s) p1.
  Proof.
    destruct (inv_stat_missing c st t L Hst (q ++ [nm]) name q'_ne q'_okc HC live_fresh_path (db s) b (lv_idx _ _ _ _ _ HL)) as (p1 & E & K).
    exists p1. split; [|exact K]. unfold stat_s. rewrite E. reflexivity.
  Qed.
  End OnState.

  Lemma Live_set_db s p1 : Live c st t L s -> keeps (db s) p1 -> Live c st t L (set_db s p1).
  Proof. intros HL K. apply (Live_db c st t L s (set_db s p1) HL); [exact K|reflexivity]. Qed.

  Definition new_dir_node (s : sys) (dir : bool) (perm : N) : node := new_node dir nm (mk_meta c perm (clk s) (fst (pop_hb s))).

  (* ---------- Mkdir *)
  Theorem mkdir_live s perm name0 : Live c st t L s -> hbok s -> path_clean name0 = name ->
    exists s', step c s (CMkdir name0 perm) = (s', OOk) /\
      Live c st (tinsert q (new_dir_node s true perm) t) (L ++ [(tape_blocks (tp s), item_of q (new_dir_node s true perm))]) s' /\ hbok s'.
  Proof.
    intros HL Hhb En. cbn [step]. unfold fs_mkdir. rewrite Hro, En.
    destruct (parent_check_ok s HL) as (p1 & E1 & K1). rewrite E1.
    pose proof (Live_set_db s p1 HL K1) as HL1.
    destruct (stat_missing (set_db s p1) HL1 false) as (p2 & E2 & K2). rewrite E2. cbn [set_db db tp hbq encq clk] in *.
    pose proof (Live_set_db s p2 HL (keeps_trans _ _ _ K1 K2)) as HL2.
    destruct (stat_missing (set_db s p2) HL2 true) as (p3 & E3 & K3).
    change (set_db (set_db s p1) p2) with (set_db s p2). rewrite E3. cbn [set_db db tp hbq encq clk] in *.
    change (set_db (set_db s p2) p3) with (set_db s p3).
    pose proof (Live_set_db s p3 HL (keeps_trans _ _ _ (keeps_trans _ _ _ K1 K2) K3)) as HL3.
    destruct (mknode_live c st t L (set_db s p3) HP Hrs Hro Hst Hwf HL3 Hhb q nm ks0 name true perm Hl Hnm Hfresh
                (clean_name_ok st (q ++ [nm]) name Hst q'_okc HC)) as (s' & E & HL' & Hhb' & _).
    rewrite pop_hb_set_db in HL'. exists s'. split; [exact E|]. split; [exact HL'|exact Hhb'].
  Qed.

  (* ---------- Create of an empty file (Create; Close) *)
  Theorem create_empty_live s name0 : Live c st t L s -> hbok s -> name0 <> [] -> path_clean name0 = name ->
    exists s', step c s (CCreateFile name0 []) = (s', OOk) /\
      Live c st (tinsert q (new_dir_node s false 438) t) (L ++ [(tape_blocks (tp s), item_of q (new_dir_node s false 438))]) s' /\ hbok s'.
  Proof.
    intros HL Hhb Hne En. cbn [step]. unfold fs_create. rewrite Hro.
    destruct name0 as [|c0 r0]; [contradiction|]. rewrite En.
    destruct (parent_check_ok s HL) as (p1 & E1 & K1). rewrite E1.
    pose proof (Live_set_db s p1 HL K1) as HL1.
    unfold fs_openfile.
    pose proof (clean_name_nonempty st (q ++ [nm]) name Hst q'_ne q'_okc HC) as Hnn.
    destruct name as [|n0 nr] eqn:Ename; [contradiction|]. rewrite <- Ename in *.
    rewrite (clean_name_idem st (q ++ [nm]) name Hst q'_ne q'_okc HC).
    destruct (stat_missing (set_db s p1) HL1 false) as (p2 & E2 & K2). rewrite E2. cbn [set_db db tp hbq encq clk] in *.
    pose proof (Live_set_db s p2 HL (keeps_trans _ _ _ K1 K2)) as HL2.
    destruct (stat_missing (set_db s p2) HL2 true) as (p3 & E3 & K3).
    change (set_db (set_db s p1) p2) with (set_db s p2). rewrite E3. cbn [set_db db tp hbq encq clk] in *.
    change (set_db (set_db s p2) p3) with (set_db s p3).
    pose proof (Live_set_db s p3 HL (keeps_trans _ _ _ (keeps_trans _ _ _ K1 K2) K3)) as HL3.
    rewrite Hro. cbn [negb o_create andb].
    destruct (parent_check_ok (set_db s p3) HL3) as (p4 & E4 & K4). rewrite E4.
    change (set_db (set_db s p3) p4) with (set_db s p4). cbn [set_db db] in K4.
    pose proof (Live_set_db s p4 HL (keeps_trans _ _ _ (keeps_trans _ _ _ (keeps_trans _ _ _ K1 K2) K3) K4)) as HL4.
    destruct (mknode_live c st t L (set_db s p4) HP Hrs Hro Hst Hwf HL4 Hhb q nm ks0 name false 438 Hl Hnm Hfresh
                (clean_name_ok st (q ++ [nm]) name Hst q'_okc HC)) as (s5 & E5 & HL5 & Hhb5 & _).
    rewrite E5. cbn [set_db clk hbq tp] in HL5.
    rewrite pop_hb_set_db in HL5.
    fold (new_dir_node s false 438) in HL5.
    set (n := new_dir_node s false 438) in *. set (a := tape_blocks (tp s)) in *.
    set (t' := tinsert q n t) in *. set (L' := L ++ [(a, item_of q n)]) in *.
    (* Stat of the new file *)
    pose proof (lv_idx _ _ _ _ _ HL5) as G5.
    assert (Wn : wf_node n).
    { apply new_node_wf; [exact Hnm|]. cbn [mk_meta mt_hb]. destruct (pop_hb_spec s Hhb) as (Hb & _). lia. }
    assert (Wt' : wf t').
    { apply (tinsert_wf q n t ks0 Hwf Wn Hl). unfold n, new_dir_node. rewrite new_node_name. exact Hfresh. }
    assert (Hin' : In (a, item_of q n) L') by (apply in_or_app; right; left; reflexivity).
    assert (R5 : Res (db s5) name (spc st (a, item_of q n))).
    { pose proof (Live_settled c st t' L' s5 Hst HL5) as Hset.
      pose proof (sanitize_keeps (db s5) name Hset) as [Kr _].
      pose proof (nameok_sanitize_live c st t' L' (db s5) (q ++ [nm]) name Hst G5 q'_ne q'_okc
                    (clean_name_ok st (q ++ [nm]) name Hst q'_okc HC)) as Hs.
      destruct (sanitize (db s5) name) as [pp nn] eqn:Es. cbn [fst snd] in *. exists pp. split; [|exact Kr].
      rewrite Es, Hs. unfold spc, stored_name, n, new_dir_node. rewrite new_node_item. reflexivity. }
    destruct (gen_stat c st t' L' Hst (db s5) G5 name (a, item_of q n) Hin' R5) as (p6 & E6 & _).
    pose proof (inv_stat_keeps (db s5) name false (Live_settled c st t' L' s5 Hst HL5)) as K6. rewrite E6 in K6. cbn [fst] in K6.
    unfold stat_s at 1. rewrite E6. cbn [snd].
    assert (Ei : item_of q n = {| i_path := q ++ [nm]; i_dir := false; i_meta := mk_meta c 438 (clk s) (fst (pop_hb s)); i_data := [] |})
      by (unfold n, new_dir_node; apply new_node_item).
    rewrite Ei. cbn [shdr i_dir i_data h_tf h_size clen fold_right].
    unfold decode_flags. rewrite ?Hro. cbn [negb andb orb o_create o_excl fl_write fl_trunc fl_append o_acc o_append o_trunc].
    change (TypeReg =? TypeDir) with false. cbn [negb andb orb].
    unfold write_close. cbn [hd_buf handle_close]. rewrite ?andb_false_r. cbn [handle_close].
    exists (set_db s5 p6). split; [reflexivity|]. split.
    - apply (Live_db c st t' L' s5 (set_db s5 p6) HL5 K6). reflexivity.
    - exact Hhb5.
  Qed.
End Calls.

(* ---------- what [Live] gives: the visible tree, listings, contents, and the rebuild *)
Theorem Live_view c st t L s : 0 < c_rs c -> wf_style st -> wf t -> Live c st t L s -> (depth_forest (t_kids t) <= 16)%nat ->
  view_at c s (view_base st) = expected_entries st t.
Proof. intros Hrs Hs Hw [G D _ _] Hd. exact (gen_view c st t L Hs Hw s G D Hd). Qed.

Theorem Live_listing c st t L s q ks : wf_style st -> wf t -> Live c st t L s -> lookup q (t_kids t) = Some ks ->
  snd (inv_list (db s) (shown_path st q) None) = Ok (map (fun k => shdr st (item_of q k)) ks).
Proof.
  intros Hs Hw [G _ _ _] Hl. destruct (lookup_wf q _ _ (proj2 Hw) Hl) as [_ Hq].
  destruct (gen_list c st t L Hs Hw (db s) G (shown_path st q) q ks Hq (gen_res_shown c st t L Hs (db s) G q Hq) Hl) as (p' & E & _).
  rewrite E. reflexivity.
Qed.

Theorem Live_rebuild c st t L s : Live c st t L s -> exists rb, rebuild c (tp s) = (rb, Ok tt) /\ rows rb = rows (db s).
Proof. intros [_ _ _ (rb & E & Hr & _)]. exists rb. split; assumption. Qed.

Lemma Live_with_env c st t L s e : Live c st t L s -> Live c st t L (with_env s e).
Proof. intros [A B C D]. split; assumption. Qed.

(* the visible tree after adding a leaf = the old one with the new entry put after the old members of its directory *)
Theorem T17_insert_view : forall st t q n ks0, leaf n -> wf t -> lookup q (t_kids t) = Some ks0 ->
  exists EA EB, expected_entries st t = EA ++ EB /\
                expected_entries st (tinsert q n t) = EA ++ expected_entry st (item_of q n) :: EB.
Proof.
  intros st t q n ks0 Hleaf Hw Hl. destruct (tinsert_items q n t ks0 Hleaf Hw Hl) as (A & B & E1 & E2 & _).
  exists (map (expected_entry st) A), (map (expected_entry st) B). unfold expected_entries. rewrite E1, E2, !map_app. split; reflexivity.
Qed.

(* ---------- from the opened archive *)
Definition FsName (st : style) (q' : list str) (name0 : str) : Prop :=
  match st with Named top => name0 = join_slash (top :: q') | _ => In name0 (spellings q') end.

Lemma fsname_clean st q' name0 : wf_style st -> q' <> [] -> Forall okc q' -> FsName st q' name0 ->
  CleanName st q' (path_clean name0) /\ name0 <> [].
Proof.
  intros Hs Hn Hq HF. destruct st as [| |top]; cbn [FsName] in HF.
  - split; [apply clean_name_spelling; try assumption; reflexivity|].
    destruct HF as [<-|[<-|[<-|[]]]]; try discriminate. intro K. apply join_nil_iff in K; [contradiction|exact Hq].
  - split; [apply clean_name_spelling; try assumption; reflexivity|].
    destruct HF as [<-|[<-|[<-|[]]]]; try discriminate. intro K. apply join_nil_iff in K; [contradiction|exact Hq].
  - subst name0. assert (F : Forall okc (top :: q')) by (constructor; assumption). split.
    + cbn [CleanName]. apply path_clean_rel; [discriminate|exact F].
    + intro K. apply join_nil_iff in K; [discriminate|exact F].
Qed.

Section FromOpen.
  Variables (c : cfg) (st : style) (t : tree) (s : sys).
  Hypothesis HP : plain c.
  Hypothesis Hrs : 0 < c_rs c.
  Hypothesis Hro : c_readonly c = false.
  Hypothesis Hst : wf_style st.
  Hypothesis Hwf : wf t.
  Hypothesis Hop : is_open c st t s.
  Hypothesis Hhb : hbok s.
  Variables (q : list str) (nm : str) (ks0 : list node) (name0 : str).
  Hypothesis Hl : lookup q (t_kids t) = Some ks0.
  Hypothesis Hnm : okc nm.
  Hypothesis Hfresh : ~ In nm (map node_name ks0).
  Hypothesis Hname : FsName st (q ++ [nm]) name0.

  Let L := istarts 0 (items t).

  Lemma open_new_wf dir perm : wf (tinsert q (new_dir_node c nm s dir perm) t).
  Proof.
    apply (tinsert_wf q _ t ks0 Hwf); [|exact Hl|unfold new_dir_node; rewrite new_node_name; exact Hfresh].
    apply new_node_wf; [exact Hnm|]. cbn [mk_meta mt_hb]. destruct (pop_hb_spec s Hhb) as (Hb & _). lia.
  Qed.

  Let Hq' : Forall okc (q ++ [nm]) := q'_okc t Hwf q nm ks0 Hl Hnm.

  (* Mkdir of a new name under an existing directory of the foreign archive, by any spelling *)
  Theorem T17_mkdir_coexists : forall perm,
    let n := new_dir_node c nm s true perm in
    let t' := tinsert q n t in
    exists s', step c s (CMkdir name0 perm) = (s', OOk) /\
      Live c st t' (L ++ [(tape_blocks (tp s), item_of q n)]) s' /\ hbok s' /\
      ((depth_forest (t_kids t') <= 16)%nat -> view_at c s' (view_base st) = expected_entries st t') /\
      (exists rb, rebuild c (tp s') = (rb, Ok tt) /\ rows rb = rows (db s')).
  Proof.
    intros perm n t'. destruct (fsname_clean st (q ++ [nm]) name0 Hst ltac:(destruct q; discriminate) Hq' Hname) as [HC Hne].
    destruct (mkdir_live c st t L HP Hrs Hro Hst Hwf q nm ks0 (path_clean name0) Hl Hnm Hfresh HC s perm name0
                (Live_opened c st t s HP Hrs Hst Hwf Hop) Hhb eq_refl) as (s' & E & HL' & Hhb').
    exists s'. split; [exact E|]. split; [exact HL'|]. split; [exact Hhb'|]. split.
    - intro Hd. apply (Live_view c st t' _ s' Hrs Hst (open_new_wf true perm) HL' Hd).
    - apply (Live_rebuild c st t' _ s' HL').
  Qed.

  (* Create (and Close) of a new empty file *)
  Theorem T17_create_coexists :
    let n := new_dir_node c nm s false 438 in
    let t' := tinsert q n t in
    exists s', step c s (CCreateFile name0 []) = (s', OOk) /\
      Live c st t' (L ++ [(tape_blocks (tp s), item_of q n)]) s' /\ hbok s' /\
      ((depth_forest (t_kids t') <= 16)%nat -> view_at c s' (view_base st) = expected_entries st t') /\
      (exists rb, rebuild c (tp s') = (rb, Ok tt) /\ rows rb = rows (db s')).
  Proof.
    intros n t'. destruct (fsname_clean st (q ++ [nm]) name0 Hst ltac:(destruct q; discriminate) Hq' Hname) as [HC Hne].
    destruct (create_empty_live c st t L HP Hrs Hro Hst Hwf q nm ks0 (path_clean name0) Hl Hnm Hfresh HC s name0
                (Live_opened c st t s HP Hrs Hst Hwf Hop) Hhb Hne eq_refl) as (s' & E & HL' & Hhb').
    exists s'. split; [exact E|]. split; [exact HL'|]. split; [exact Hhb'|]. split.
    - intro Hd. apply (Live_view c st t' _ s' Hrs Hst (open_new_wf false 438) HL' Hd).
    - apply (Live_rebuild c st t' _ s' HL').
  Qed.
End FromOpen.

Print Assumptions T17_mkdir_coexists.
Print Assumptions T17_create_coexists.
