(* T23 / Index: replaying psi-RELATED headers into psi-RELATED indexes gives related indexes and the same result
   (index_header, the replay loop), for the two cached roots of the named side ("top": the running index, "": a rebuild
   of its tape in progress).  Plain configuration. *)
From Coq Require Import List NArith ZArith Bool Lia.
From Coq Require Import ZifyN ZifyBool.
Import ListNotations.
From STFS Require T19Index.
From STFS Require Import Str Db Tape Index Ops Fs Diff Norm StrLemmas C01Str C01Db C01Inv C01Sim C01Tape C01Hdr C01Ops C01Ops2
  T23Rel T23Base T23Db.
Open Scope N_scope.
Set Default Proof Using "All".

Section Top.
Variable top : str.
Hypothesis Htop : okc top.

Notation psi := (psi top).
Notation rowrel := (rowrel top).
Notation hrel := (hrel top).
Notation mrel := (mrel top).
Notation rows_rel := (rows_rel top).
Notation prel := (prel top).
Notation PR := (PR top).
Notation RT := (RT top).
Notation top_nonempty := (T23Base.top_nonempty top Htop).
Notation psi_root := (T23Base.psi_root top Htop).
Notation psi_pth := (T23Base.psi_pth top Htop).
Notation psi_good := (T23Base.psi_good top Htop).
Notation psi_nonroot := (T23Base.psi_nonroot top Htop).
Notation psi_inj := (T23Base.psi_inj top Htop).
Notation psi_eqb := (T23Base.psi_eqb top Htop).
Notation tcs_okc := (T23Base.tcs_okc top Htop).
Notation psi_not_abs := (T23Base.psi_not_abs top Htop).
Notation psi_nonempty := (T23Base.psi_nonempty top Htop).
Notation psi_is_root := (T23Base.psi_is_root top Htop).
Notation psi_clean := (T23Base.psi_clean top Htop).
Notation psi_trim_slash := (T23Base.psi_trim_slash top Htop).
Notation vrel_refl := (T23Base.vrel_refl top Htop).
Notation pax_rel_nil := (T23Base.pax_rel_nil top Htop).
Notation pax_get_rel := (T23Base.pax_get_rel top Htop).
Notation pax_get_rel_rn := (T23Base.pax_get_rel_rn top Htop).
Notation pax_set_rel := (T23Base.pax_set_rel top Htop).
Notation pax_set_rel_eq := (T23Base.pax_set_rel_eq top Htop).
Notation pax_del_rel := (T23Base.pax_del_rel top Htop).
Notation pax_rel_fun := (T23Base.pax_rel_fun top Htop).
Notation hrel_of_rowrel := (T23Base.hrel_of_rowrel top Htop).
Notation rowrel_of_hrel := (T23Base.rowrel_of_hrel top Htop).
Notation rowrel_set_lk := (T23Base.rowrel_set_lk top Htop).
Notation rowrel_set_name := (T23Base.rowrel_set_name top Htop).
Notation rowrel_fun := (T23Base.rowrel_fun top Htop).
Notation rows_rel_fun := (T23Base.rows_rel_fun top Htop).
Notation hrel_wsn := (T23Base.hrel_wsn top Htop).
Notation hrel_wsn_self := (T23Base.hrel_wsn_self top Htop).
Notation hrel_set_pax := (T23Base.hrel_set_pax top Htop).
Notation keep_size_rel := (T23Base.keep_size_rel top Htop).
Notation hrel_patch_mode := (T23Base.hrel_patch_mode top Htop).
Notation hrel_patch_owner := (T23Base.hrel_patch_owner top Htop).
Notation hrel_patch_times := (T23Base.hrel_patch_times top Htop).
Notation hrel_stamp := (T23Base.hrel_stamp top Htop).
Notation rowrel_name_eqb := (T23Base.rowrel_name_eqb top Htop).
Notation rowrel_key_eq := (T23Base.rowrel_key_eq top Htop).
Notation rowrel_live := (T23Base.rowrel_live top Htop).
Notation last_indexed_rel := (T23Base.last_indexed_rel top Htop).
Notation PR_rowok := (T23Db.PR_rowok top Htop).
Notation PR_good_r := (T23Db.PR_good_r top Htop).
Notation prel_with := (T23Db.prel_with top Htop).
Notation sanitize_wr := (T23Db.sanitize_wr top Htop).
Notation sanitize_top := (T23Db.sanitize_top top Htop).
Notation sanitize_nil := (T23Db.sanitize_nil top Htop).
Notation sanitize_rd := (T23Db.sanitize_rd top Htop).
Notation psi_slash_not_root := (T23Db.psi_slash_not_root top Htop).
Notation sanitize_rd_slash := (T23Db.sanitize_rd_slash top Htop).
Notation min_link_rel := (T23Db.min_link_rel top Htop).
Notation find_rows_rel := (T23Db.find_rows_rel top Htop).
Notation get_header_wr := (T23Db.get_header_wr top Htop).
Notation get_header_rd := (T23Db.get_header_rd top Htop).
Notation find_rel := (T23Db.find_rel top Htop).
Notation find_rows_trailing_rd := (T23Db.find_rows_trailing_rd top Htop).
Notation get_header_slash_rd := (T23Db.get_header_slash_rd top Htop).
Notation find_rows_row := (T23Db.find_rows_row top Htop).
Notation inv_stat_false_wr := (T23Db.inv_stat_false_wr top Htop).
Notation inv_stat_false_rd := (T23Db.inv_stat_false_rd top Htop).
Notation stat_res_rel := (T23Db.stat_res_rel top Htop).
Notation links_nil := (T23Db.links_nil top Htop).
Notation gh_link_rd := (T23Db.gh_link_rd top Htop).
Notation inv_stat_true_rd := (T23Db.inv_stat_true_rd top Htop).
Notation lookup_entry_wr := (T23Db.lookup_entry_wr top Htop).
Notation lookup_entry_rd := (T23Db.lookup_entry_rd top Htop).
Notation psi_pth_app := (T23Db.psi_pth_app top Htop).
Notation kid_filter_rel := (T23Db.kid_filter_rel top Htop).
Notation get_children_wr := (T23Db.get_children_wr top Htop).
Notation get_children_rd := (T23Db.get_children_rd top Htop).
Notation kids_rel := (T23Db.kids_rel top Htop).
Notation direct_pred_rel := (T23Db.direct_pred_rel top Htop).
Notation gdc_wr := (T23Db.gdc_wr top Htop).
Notation gdc_rd := (T23Db.gdc_rd top Htop).
Notation inv_list_wr := (T23Db.inv_list_wr top Htop).
Notation inv_list_rd := (T23Db.inv_list_rd top Htop).
Notation replace_row_rel := (T23Db.replace_row_rel top Htop).
Notation has_key_rel := (T23Db.has_key_rel top Htop).
Notation upsert_rows_rel := (T23Db.upsert_rows_rel top Htop).
Notation move_list_rel := (T23Db.move_list_rel top Htop).

(* what a replay step leaves: the indexes stay related whatever the result; the twin's invariant is kept on success *)
Definition PRw (rt : str) (res : res unit) (pa pr : pstate) : Prop := prel rt pa pr /\ (res = Ok tt -> LI true pa).
Lemma PR_PRw rt res pa pr : PR rt pa pr -> PRw rt res pa pr.
Proof. intros [A B]. split; [exact B|intros _; exact A]. Qed.
Lemma PRw_PR rt pa pr : PRw rt (Ok tt) pa pr -> PR rt pa pr.
Proof. intros [A B]. split; [apply B; reflexivity|exact A]. Qed.

(* ---------- the write operations of the index *)
Lemma upsert_simr rt pa pr ha hr a b c d : RT rt -> PR rt pa pr -> hnames_ok true ha -> hrel ha hr ->
  exists pa' pr', upsert pa (row_of_hdr a b c d ha) false = (pa', Ok tt) /\
    upsert pr (row_of_hdr a b c d hr) false = (pr', Ok tt) /\ PR rt pa' pr'.
Proof.
  intros Hrt H Hok Hh. pose proof (hn_name _ _ Hok) as G.
  destruct (rowok_row_of_hdr true a b c d ha Hok) as (Rok & Rdel).
  destruct (C01Sim.upsert_sim true pa (T19Index.canon pa) _ (PR_li _ _ _ _ H) (T19Index.R_canon pa) Rok Rdel (T19Index.pre_canon _ _))
    as (lv' & rb' & E1 & _ & HL & _ & _ & _ & Elv).
  exists lv', (with_rows pr (upsert_rows (rows pr) (set_name (row_of_hdr a b c d hr) (psi (h_name ha))))).
  split; [exact E1|]. split.
  - rewrite upsert_form. change (r_name (row_of_hdr a b c d hr)) with (h_name hr). rewrite (hr_name _ _ _ Hh), (sanitize_rd rt pa pr _ Hrt H G). reflexivity.
  - split; [exact HL|]. rewrite Elv. apply prel_with; [exact (PR_rel _ _ _ _ H)|].
    apply upsert_rows_rel; [exact (pr_rows _ _ _ _ (PR_rel _ _ _ _ H))|].
    rewrite <- (set_name_id (row_of_hdr a b c d ha)) at 1. apply rowrel_of_hrel; [exact Hh|apply good_abs; exact G].
Qed.

Lemma update_meta_simr rt pa pr ha hr a b c d : RT rt -> PR rt pa pr -> hnames_ok true ha -> hrel ha hr ->
  exists pa' pr', update_meta pa (row_of_hdr a b c d ha) = (pa', Ok tt) /\
    update_meta pr (row_of_hdr a b c d hr) = (pr', Ok tt) /\ PR rt pa' pr'.
Proof.
  intros Hrt H Hok Hh. pose proof (hn_name _ _ Hok) as G.
  destruct (rowok_row_of_hdr true a b c d ha Hok) as (Rok & Rdel).
  destruct (C01Sim.update_meta_sim true pa (T19Index.canon pa) _ (PR_li _ _ _ _ H) (T19Index.R_canon pa) Rok Rdel (T19Index.pre_canon _ _))
    as (lv' & rb' & E1 & _ & HL & _ & _ & _ & Elv).
  eexists lv', _. split; [exact E1|]. split.
  - rewrite update_meta_form. change (r_name (row_of_hdr a b c d hr)) with (h_name hr). rewrite (hr_name _ _ _ Hh), (sanitize_rd rt pa pr _ Hrt H G). reflexivity.
  - split; [exact HL|]. rewrite Elv. cbn [fst snd]. apply prel_with; [exact (PR_rel _ _ _ _ H)|].
    change (r_link (row_of_hdr a b c d hr)) with (h_link hr). rewrite (hr_link _ _ _ Hh), (hn_link _ _ Hok).
    change (r_name (row_of_hdr a b c d ha)) with (h_name ha).
    apply replace_row_rel; [exact (pr_rows _ _ _ _ (PR_rel _ _ _ _ H))|apply good_abs; exact G|].
    rewrite <- (set_name_id (row_of_hdr a b c d ha)) at 1. apply rowrel_of_hrel; [exact Hh|apply good_abs; exact G].
Qed.

Lemma delete_simr rt pa pr g x y : RT rt -> PR rt pa pr -> good g -> g <> [slash] ->
  exists pa' pr' res, lift (delete_row pa g x y) (fun p _ => (p, Ok tt)) = (pa', res) /\
    lift (delete_row pr (psi g) x y) (fun p _ => (p, Ok tt)) = (pr', res) /\ PRw rt res pa' pr'.
Proof.
  intros Hrt H G Hg.
  destruct (C01Sim.delete_sim true pa (T19Index.canon pa) g x y (PR_li _ _ _ _ H) (T19Index.R_canon pa) G (fun _ => Hg) (T19Index.pre_canon _ _))
    as (lv' & rb' & res & E1 & _ & HL).
  assert (Er : delete_row pr (psi g) x y =
               match find_rows (rows pr) (psi g) with
               | None => (pr, NoRows)
               | Some r => (with_rows pr (replace_row (psi g) (r_link r) (set_lk r x y true) (rows pr)), Ok (set_lk r x y true))
               end).
  { rewrite delete_row_form, (sanitize_rd rt pa pr g Hrt H G). reflexivity. }
  rewrite (delete_row_lv true pa g x y (PR_li _ _ _ _ H) G) in E1. rewrite Er.
  pose proof (find_rel rt pa pr g H G) as K.
  destruct (find_rows (rows pa) g) as [d|] eqn:Ef; destruct (find_rows (rows pr) (psi g)) as [d'|] eqn:Efr;
    inversion K as [|? ? Hd]; subst; cbn [lift] in *.
  - inversion E1; subst. eexists _, _, _. split; [rewrite (delete_row_lv true pa g x y (PR_li _ _ _ _ H) G), Ef; reflexivity|].
    split; [reflexivity|]. apply PR_PRw.
    split; [apply HL; reflexivity|]. apply prel_with; [exact (PR_rel _ _ _ _ H)|].
    destruct (find_rows_row _ _ _ g d H Ef) as (_ & _ & _ & Lk & _). rewrite (rr_link _ _ _ Hd), Lk.
    apply replace_row_rel; [exact (pr_rows _ _ _ _ (PR_rel _ _ _ _ H))|apply good_abs; exact G|apply rowrel_set_lk; exact Hd].
  - eexists _, _, _. split; [rewrite (delete_row_lv true pa g x y (PR_li _ _ _ _ H) G), Ef; reflexivity|]. split; [reflexivity|].
    split; [exact (PR_rel _ _ _ _ H)|discriminate].
Qed.

Lemma move_simr rt pa pr old new x y : RT rt -> PR rt pa pr -> good old -> good new -> old <> [slash] -> new <> [slash] -> new <> old ->
  exists pa' pr', move_rows pa old new x y = (pa', Ok tt) /\ move_rows pr (psi old) (psi new) x y = (pr', Ok tt) /\ PR rt pa' pr'.
Proof.
  intros Hrt H Go Gn Ho Hnw Hne.
  destruct (C01Sim.move_sim true pa (T19Index.canon pa) old new x y (PR_li _ _ _ _ H) (T19Index.R_canon pa) Go Gn Ho Hnw Hne (T19Index.pre_canon _ _))
    as (lv' & rb' & E1 & _ & HL & _ & _ & _ & _).
  pose proof E1 as E1'. rewrite (move_rows_lv true pa old new x y (PR_li _ _ _ _ H) Go Gn) in E1.
  destruct (move_list_rel (rows pa) (rows pr) old new x y (pr_rows _ _ _ _ (PR_rel _ _ _ _ H)) (good_abs _ Go) (good_abs _ Gn)) as (Hrows & Hres).
  injection E1 as Elv Eres.
  eexists _, _. split; [exact E1'|]. split.
  - rewrite move_rows_form, (sanitize_rd rt pa pr new Hrt H Gn). cbn [fst snd]. rewrite (sanitize_rd rt pa pr old Hrt H Go). cbn [fst snd].
    rewrite Hres, Eres. reflexivity.
  - split; [exact HL|]. rewrite <- Elv. apply prel_with; [exact (PR_rel _ _ _ _ H)|exact Hrows].
Qed.

(* ---------- index_header *)
Lemma usz_rel ha hr : hrel ha hr -> usz hr = usz ha.
Proof.
  intro H. unfold usz. rewrite (pax_get_rel K_usize _ _ (hr_pax _ _ _ H)) by discriminate. rewrite (hr_size _ _ _ H). reflexivity.
Qed.

Lemma h_act_rel ha hr : hrel ha hr -> h_act hr = h_act ha.
Proof. intro H. unfold h_act. rewrite (pax_get_rel K_action _ _ (hr_pax _ _ _ H)) by discriminate. reflexivity. Qed.

Lemma upd_body_simr rt rec blk ha hr pa pr : RT rt -> PR rt pa pr -> hnames_ok true ha -> h_act ha = V_update -> hrel ha hr ->
  exists pa' pr' res, upd_body rec blk ha pa = (pa', res) /\ upd_body rec blk hr pr = (pr', res) /\ PRw rt res pa' pr'.
Proof.
  intros Hrt H Hok Hact Hh. unfold upd_body, h_rep.
  rewrite (pax_get_rel_rn _ _ (hr_pax _ _ _ Hh)).
  rewrite (pax_get_rel K_replaces_content _ _ (hr_pax _ _ _ Hh)) by discriminate.
  pose proof (hn_name _ _ Hok) as G. rewrite (hr_name _ _ _ Hh).
  destruct (pax_get K_replaces_name (h_pax ha)) as [oa|] eqn:Ea; cbn [option_map].
  - (* a move record *)
    destruct (hn_rep _ _ Hok Hact oa Ea) as (Go & Ho & Hnw & Hne).
    assert (MV : forall qa qr, PR rt qa qr -> exists qa' qr', move_rows qa oa (h_name ha) rec blk = (qa', Ok tt) /\
               move_rows qr (psi oa) (psi (h_name ha)) rec blk = (qr', Ok tt) /\ PR rt qa' qr').
    { intros qa qr HQ. apply move_simr; assumption. }
    assert (CU : forall a b c d qa qr, PR rt qa qr -> exists qa' qr' res,
               lift (move_rows qa oa (h_name ha) rec blk) (fun p _ => update_meta p (row_of_hdr a b c d ha)) = (qa', res) /\
               lift (move_rows qr (psi oa) (psi (h_name ha)) rec blk) (fun p _ => update_meta p (row_of_hdr a b c d hr)) = (qr', res) /\
               PRw rt res qa' qr').
    { intros a b c d qa qr HQ. destruct (MV qa qr HQ) as (qa1 & qr1 & E1 & E2 & HQ1). rewrite E1, E2. cbn [lift].
      destruct (update_meta_simr rt qa1 qr1 ha hr a b c d Hrt HQ1 Hok Hh) as (qa2 & qr2 & E3 & E4 & HQ2). rewrite E3, E4.
      eexists _, _, _. split; [reflexivity|]. split; [reflexivity|]. apply PR_PRw. exact HQ2. }
    assert (MU : exists pa' pr' res,
               match get_header pa oa with
               | (p, Ok o) => lift (move_rows p oa (h_name ha) rec blk) (fun p _ => update_meta p (row_of_hdr (r_rec o) rec (r_blk o) blk ha))
               | (p, NoRows) => move_rows p oa (h_name ha) rec blk
               | (p, Unique) => (p, Unique) | (p, Fail e) => (p, Fail e) end = (pa', res) /\
               match get_header pr (psi oa) with
               | (p, Ok o) => lift (move_rows p (psi oa) (psi (h_name ha)) rec blk) (fun p _ => update_meta p (row_of_hdr (r_rec o) rec (r_blk o) blk hr))
               | (p, NoRows) => move_rows p (psi oa) (psi (h_name ha)) rec blk
               | (p, Unique) => (p, Unique) | (p, Fail e) => (p, Fail e) end = (pr', res) /\ PRw rt res pa' pr').
    { rewrite (get_header_wr rt pa pr oa H Go), (get_header_rd rt pa pr oa Hrt H Go).
      pose proof (find_rel rt pa pr oa H Go) as HRr.
      destruct (find_rows (rows pa) oa) as [o|]; inversion HRr as [|? o' Ho']; subst; cbn [of_find].
      - rewrite (rr_rec _ _ _ Ho'), (rr_blk _ _ _ Ho'). apply CU. exact H.
      - destruct (MV pa pr H) as (qa1 & qr1 & E1 & E2 & HQ1). rewrite E1, E2. eexists _, _, _. split; [reflexivity|]. split; [reflexivity|].
        apply PR_PRw. exact HQ1. }
    destruct (pax_get K_replaces_content (h_pax ha)) as [v|]; [destruct (eqb_str v V_true)|]; [apply CU; exact H|exact MU|exact MU].
  - (* an update in place *)
    assert (CU : forall a b c d qa qr, PR rt qa qr -> exists qa' qr' res,
               lift (qa, Ok tt) (fun p _ => update_meta p (row_of_hdr a b c d ha)) = (qa', res) /\
               lift (qr, Ok tt) (fun p _ => update_meta p (row_of_hdr a b c d hr)) = (qr', res) /\
               PRw rt res qa' qr').
    { intros a b c d qa qr HQ. cbn [lift].
      destruct (update_meta_simr rt qa qr ha hr a b c d Hrt HQ Hok Hh) as (qa2 & qr2 & E3 & E4 & HQ2). rewrite E3, E4.
      eexists _, _, _. split; [reflexivity|]. split; [reflexivity|]. apply PR_PRw. exact HQ2. }
    assert (MU : exists pa' pr' res,
               match get_header pa (h_name ha) with
               | (p, Ok o) => lift (p, Ok tt) (fun p _ => update_meta p (row_of_hdr (r_rec o) rec (r_blk o) blk ha))
               | (p, NoRows) => (p, Ok tt)
               | (p, Unique) => (p, Unique) | (p, Fail e) => (p, Fail e) end = (pa', res) /\
               match get_header pr (psi (h_name ha)) with
               | (p, Ok o) => lift (p, Ok tt) (fun p _ => update_meta p (row_of_hdr (r_rec o) rec (r_blk o) blk hr))
               | (p, NoRows) => (p, Ok tt)
               | (p, Unique) => (p, Unique) | (p, Fail e) => (p, Fail e) end = (pr', res) /\ PRw rt res pa' pr').
    { rewrite (get_header_wr rt pa pr _ H G), (get_header_rd rt pa pr _ Hrt H G).
      pose proof (find_rel rt pa pr _ H G) as HRr.
      destruct (find_rows (rows pa) (h_name ha)) as [o|]; inversion HRr as [|? o' Ho']; subst; cbn [of_find].
      - rewrite (rr_rec _ _ _ Ho'), (rr_blk _ _ _ Ho'). apply CU. exact H.
      - eexists _, _, _. split; [reflexivity|]. split; [reflexivity|]. apply PR_PRw. exact H. }
    destruct (pax_get K_replaces_content (h_pax ha)) as [v|]; [destruct (eqb_str v V_true)|]; [apply CU; exact H|exact MU|exact MU].
Qed.

Lemma ih_body_simr rt rec blk ha hr pa pr : RT rt -> PR rt pa pr -> hnames_ok true ha -> hrel ha hr ->
  exists pa' pr' res, ih_body rec blk ha false pa = (pa', res) /\ ih_body rec blk hr false pr = (pr', res) /\ PRw rt res pa' pr'.
Proof.
  intros Hrt H Hok Hh. unfold ih_body. rewrite (pax_get_rel K_version _ _ (hr_pax _ _ _ Hh)) by discriminate.
  rewrite (h_act_rel _ _ Hh).
  destruct (negb (eqb_str match pax_get K_version (h_pax ha) with Some v => v | None => V_1 end V_1)).
  { eexists _, _, _. split; [reflexivity|]. split; [reflexivity|]. split; [exact (PR_rel _ _ _ _ H)|discriminate]. }
  destruct (eqb_str (h_act ha) V_create) eqn:Ec.
  { destruct (upsert_simr rt pa pr ha hr rec rec blk blk Hrt H Hok Hh) as (pa' & pr' & E1 & E2 & HP). rewrite E1, E2.
    eexists _, _, _. split; [reflexivity|]. split; [reflexivity|]. apply PR_PRw. exact HP. }
  destruct (eqb_str (h_act ha) V_delete) eqn:Ed.
  { apply eqb_str_eq in Ed. rewrite (hr_name _ _ _ Hh). apply delete_simr; [exact Hrt|exact H|exact (hn_name _ _ Hok)|exact (hn_del _ _ Hok eq_refl Ed)]. }
  destruct (eqb_str (h_act ha) V_update) eqn:Eu.
  { apply eqb_str_eq in Eu. apply upd_body_simr; assumption. }
  eexists _, _, _. split; [reflexivity|]. split; [reflexivity|]. split; [exact (PR_rel _ _ _ _ H)|discriminate].
Qed.

Theorem index_header_simr rt c rec blk ha hr pa pr : RT rt -> plain c -> PR rt pa pr -> hnames_ok true ha -> hrel ha hr ->
  exists pa' pr' res, index_header c rec blk ha false pa = (pa', res) /\
    index_header c rec blk hr false pr = (pr', res) /\ PRw rt res pa' pr'.
Proof.
  intros Hrt HP H Hok Hh. rewrite !index_header_plain by exact HP. rewrite (usz_rel _ _ Hh).
  destruct (usz ha) as [sz|]; [|eexists _, _, _; split; [reflexivity|]; split; [reflexivity|]; split; [exact (PR_rel _ _ _ _ H)|discriminate]].
  apply ih_body_simr; [exact Hrt|exact H|apply hnames_ok_wsn; exact Hok|].
  apply hrel_wsn_self. exact Hh.
Qed.

(* ---------- the replay loop over related headers at equal positions *)
Definition shrel (x y : N * hdr) : Prop := fst y = fst x /\ hrel (snd x) (snd y).

Lemma loop0_simr rt c : RT rt -> plain c -> forall la lr, Forall2 shrel la lr -> Forall (hnames_ok true) (map snd la) ->
  forall pa pr, PR rt pa pr ->
  exists pa' pr' res, loop0 c la pa = (pa', res) /\ loop0 c lr pr = (pr', res) /\ PRw rt res pa' pr'.
Proof.
  intros Hrt HP la lr H. induction H as [|[sa ha] [sr hr] la lr [Es Hh] _ IH]; intros Hok pa pr HQ; cbn [loop0].
  - eexists _, _, _. split; [reflexivity|]. split; [reflexivity|]. apply PR_PRw. exact HQ.
  - cbn [fst snd] in Es, Hh. subst sr. cbn [map snd] in Hok. inversion Hok as [|? ? Hok1 Hok2]; subst.
    destruct (index_header_simr rt c (fst (pos_of (c_rs c) sa)) (snd (pos_of (c_rs c) sa)) ha hr pa pr Hrt HP HQ Hok1 Hh)
      as (pa1 & pr1 & res & E1 & E2 & HQ1). rewrite E1, E2.
    destruct res as [[]| | |e]; try (eexists _, _, _; split; [reflexivity|]; split; [reflexivity|]; split; [exact (proj1 HQ1)|discriminate]).
    apply IH; [exact Hok2|apply PRw_PR; exact HQ1].
Qed.

Lemma mstarts_rel msa msr : Forall2 mrel msa msr -> forall B, Forall2 shrel (hd_of (mstarts msa B)) (hd_of (mstarts msr B)).
Proof.
  induction 1 as [|a r msa msr Hm _ IH]; intro B; cbn [mstarts hd_of map]; constructor.
  - split; [reflexivity|exact (mr_hdr _ _ _ Hm)].
  - cbn [item_blocks]. rewrite (mr_hb _ _ _ Hm), (mr_enc _ _ _ Hm). apply IH.
Qed.

(* ---------- tapes *)
Lemma tape_rel_split pre m t : tape_rel (pre ++ [TM m; TT]) t ->
  exists pre' m', t = pre' ++ [TM m'; TT] /\ tape_rel pre pre' /\ irel (TM m) (TM m').
Proof.
  intro H. apply Forall2_app_inv_l in H as (pre' & tl & Hp & Ht & ->).
  inversion Ht as [|? i1 ? tl1 H1 Ht1]; subst. inversion Ht1 as [|? i2 ? tl2 H2 Ht2]; subst. inversion Ht2; subst.
  inversion H1 as [|? m' A B C]; subst. inversion H2; subst. exists pre', m'. split; [reflexivity|]. split; assumption.
Qed.

Lemma pos_items_rel a r : tape_rel a r -> pos_items a -> pos_items r.
Proof.
  unfold pos_items. induction 1 as [|x y a r H _ IH]; intro Hp; [constructor|]. inversion Hp; subst.
  constructor; [rewrite (irel_blocks _ _ H); assumption|apply IH; assumption].
Qed.

Lemma irel_of_mrel a r : mrel a r -> irel (TM a) (TM r).
Proof. intros [_ A B C]. constructor; assumption. Qed.

Lemma tape_rel_new a r msa msr : tape_rel a r -> Forall2 mrel msa msr -> msa <> [] ->
  tape_rel (a ++ map TM msa ++ (match msa with [] => [] | _ => [TT] end)) (r ++ map TM msr ++ (match msr with [] => [] | _ => [TT] end)).
Proof.
  intros H Hm Hne. apply Forall2_app; [exact H|]. apply Forall2_app.
  - apply (F2_map mrel irel); [exact Hm|]. intros x y _ _ K. apply irel_of_mrel. exact K.
  - destruct Hm; [contradiction|]. constructor; constructor.
Qed.
End Top.
