(* T15 / View: what a read returns.
   1. no read depends on the read-only switch: [view], [read_path], [walk], [stat_s], [inv_list] under [set_ro c b] are those under [c];
      OpenFile O_RDONLY under [c] and under the writable twin return the same state, outcome and handle.
   2. the root-cache fills of a read-only history do not change what is read: [ceq] relates index states with the same rows and
      the same cached root whose [root_empty] flags may differ only where the flag is not consulted; every query returns the same
      on [ceq] states.  On states whose cache is consistent ([cok]) every query keeps the state in its [ceq] class. *)
From Coq Require Import List NArith ZArith Bool.
Import ListNotations.
From STFS Require Import Str Db Tape Index Ops Fs File Diff Norm T15Def T15Db T15Step T15Hist.
Open Scope N_scope.

(* ---------------------------------------------------------------- 1. the switch is not read *)
Lemma fetch_at_set_ro c b t rec blk : fetch_at (set_ro c b) t rec blk = fetch_at c t rec blk.
Proof. reflexivity. Qed.
Theorem T15_read_path_set_ro c b s path : read_path (set_ro c b) s path = read_path c s path.
Proof. reflexivity. Qed.
Lemma entry_of_set_ro c b s path h : entry_of (set_ro c b) s path h = entry_of c s path h.
Proof. reflexivity. Qed.
Lemma walk_set_ro c b s : forall fuel dir, walk fuel (set_ro c b) s dir = walk fuel c s dir.
Proof.
  induction fuel as [|f IH]; intro dir; [reflexivity|]. cbn [walk].
  destruct (inv_list (db s) dir None) as [p [hs| | |e]]; [|reflexivity..].
  apply flat_map_ext. intro h. rewrite IH. reflexivity.
Qed.
Theorem T15_view_set_ro c b s : view (set_ro c b) s = view c s.
Proof.
  unfold view. destruct (stat_s s [slash] false) as [s1 [h| | |e]]; [|reflexivity..].
  rewrite walk_set_ro. reflexivity.
Qed.
Corollary T15_view_wr c s : view (wr c) s = view c s.
Proof. apply T15_view_set_ro. Qed.

(* OpenFile with the access mode O_RDONLY and none of O_APPEND / O_CREATE / O_TRUNC (O_EXCL is irrelevant without O_CREATE) *)
Definition plain_rdonly (o : oflag) : Prop :=
  o_acc o = 0 /\ o_append o = false /\ o_create o = false /\ o_trunc o = false.

Theorem T15_openfile_rdonly_set_ro c b s n o perm : plain_rdonly o ->
  fs_openfile (set_ro c b) s n o perm = fs_openfile c s n o perm.
Proof.
  intros (A & P & C & T). unfold fs_openfile, decode_flags. cbn [c_readonly set_ro]. rewrite A, P, C, T.
  destruct n as [|a n']; [reflexivity|]. rewrite !andb_false_r. cbn [andb orb N.eqb].
  destruct b, (c_readonly c); reflexivity.
Qed.

(* ---------------------------------------------------------------- 2. queries on [ceq] states *)
From STFS Require Import T15Ceq.

Lemma get_header_ceq p q n : ceq p q ->
  snd (get_header p n) = snd (get_header q n) /\ ceq (fst (get_header p n)) (fst (get_header q n)).
Proof.
  intro H. unfold get_header. destruct (sanitize_ceq p q n H) as [E1 E2].
  destruct (sanitize p n) as [p1 n1], (sanitize q n) as [q1 n2]. cbn [fst snd] in *. subst n2.
  rewrite (find_by_name_rows p1 q1 n1 (proj1 E2)). destruct (find_by_name q1 n1); split; auto.
Qed.

Lemma inv_stat_false_ceq p q n : ceq p q -> snd (inv_stat p n false) = snd (inv_stat q n false).
Proof.
  intro H. unfold inv_stat. destruct (get_header_ceq p q n H) as [E1 E2].
  destruct (get_header p n) as [p1 r1], (get_header q n) as [q1 r2]. cbn [fst snd] in *. subst r2.
  destruct r1 as [d| | |e]; try reflexivity.
  - destruct (negb (eqb_str (r_link d) [])); reflexivity.
  - destruct (get_header_ceq p1 q1 (trim_suffix [slash] n ++ [slash]) E2) as [F1 F2].
    destruct (get_header p1 (trim_suffix [slash] n ++ [slash])) as [p2 r1], (get_header q1 (trim_suffix [slash] n ++ [slash])) as [q2 r2].
    cbn [fst snd] in *. subst r2. destruct r1 as [d| | |e]; try reflexivity.
    destruct (negb (eqb_str (r_link d) [])); reflexivity.
Qed.

Definition veq (s s' : sys) : Prop := tp s = tp s' /\ ceq (db s) (db s').

Lemma stat_s_false_veq s s' n : veq s s' -> snd (stat_s s n false) = snd (stat_s s' n false).
Proof.
  intros [_ H]. unfold stat_s. pose proof (inv_stat_false_ceq _ _ n H) as E.
  destruct (inv_stat (db s) n false), (inv_stat (db s') n false). exact E.
Qed.

Lemma read_path_veq c s s' path : veq s s' -> snd (read_path c s path) = snd (read_path c s' path).
Proof.
  intros [T H]. unfold read_path. rewrite <- T.
  destruct (get_header_ceq _ _ (trim_suffix [slash] path) H) as [E1 E2].
  destruct (get_header (db s) (trim_suffix [slash] path)) as [p1 r1], (get_header (db s') (trim_suffix [slash] path)) as [q1 r2].
  cbn [fst snd] in *. subst r2. destruct r1 as [d| | |e]; try reflexivity.
  - destruct (fetch_at c (tp s) (r_rec d) (r_blk d)); reflexivity.
  - destruct (get_header_ceq p1 q1 (trim_suffix [slash] path ++ [slash]) E2) as [F1 F2].
    destruct (get_header p1 (trim_suffix [slash] path ++ [slash])) as [p2 r1], (get_header q1 (trim_suffix [slash] path ++ [slash])) as [q2 r2].
    cbn [fst snd] in *. subst r2. destruct r1 as [d| | |e]; try reflexivity.
    destruct (fetch_at c (tp s) (r_rec d) (r_blk d)); reflexivity.
Qed.

Lemma get_header_nil p : get_header p [] = (p, match find_by_name p (root p) with Some r => Ok r | None => NoRows end).
Proof. unfold get_header, sanitize. cbn [is_root_name eqb_str orb]. destruct (find_by_name p (root p)); reflexivity. Qed.

Definition link_row (o : option row) (lr : row) : row :=
  match o with
  | Some t => set_link (set_name t (r_link lr)) []
  | None => set_link (set_name lr (r_link lr)) []
  end.

Lemma links_fold_eq p (l : list row) : forall out,
  fold_left (fun acc lr =>
        let '(p, out) := acc in
        let '(p, tr) := get_header p [] in
        match tr with
        | Ok t => (p, out ++ [set_link (set_name t (r_link lr)) []])
        | _ => (p, out ++ [set_link (set_name lr (r_link lr)) []])
        end) l (p, out) = (p, out ++ map (link_row (find_by_name p (root p))) l).
Proof.
  induction l as [|lr l IH]; intro out; cbn [fold_left map]; [rewrite app_nil_r; reflexivity|].
  rewrite get_header_nil. destruct (find_by_name p (root p)) eqn:F; rewrite IH, <- app_assoc; reflexivity.
Qed.

Lemma get_direct_children_ceq p q n lim : ceq p q ->
  snd (get_direct_children p n lim) = snd (get_direct_children q n lim).
Proof.
  intro H. unfold get_direct_children. destruct (sanitize_ceq p q n H) as [E1 (A & B & _)].
  destruct (sanitize p n) as [p1 n1], (sanitize q n) as [q1 n2]. cbn [fst snd] in *. subst n2.
  rewrite <- A.
  destruct (if is_root_name n1 then min_slashes (filter live (rows p1)) else Some 0); [|reflexivity].
  rewrite !links_fold_eq. rewrite <- (find_by_name_rows p1 q1 _ A), <- B. unfold direct_query. rewrite <- A.
  destruct lim; [|reflexivity].
  match goal with |- context [if ?b then _ else _] => destruct b end; reflexivity.
Qed.

Lemma inv_list_ceq p q n lim : ceq p q -> snd (inv_list p n lim) = snd (inv_list q n lim).
Proof.
  intro H. unfold inv_list. pose proof (get_direct_children_ceq p q n lim H) as E.
  destruct (get_direct_children p n lim) as [p1 r1], (get_direct_children q n lim) as [q1 r2]. cbn [snd] in E. subst r2.
  destruct r1; reflexivity.
Qed.

Lemma entry_of_veq c s s' path h : veq s s' -> entry_of c s path h = entry_of c s' path h.
Proof.
  intro H. unfold entry_of. pose proof (read_path_veq c s s' (h_name h) H) as E.
  destruct (read_path c s (h_name h)) as [a r1], (read_path c s' (h_name h)) as [b r2]. cbn [snd] in E. subst r2. reflexivity.
Qed.

Lemma walk_veq c s s' : veq s s' -> forall fuel dir, walk fuel c s dir = walk fuel c s' dir.
Proof.
  intros H fuel. induction fuel as [|f IH]; intro dir; [reflexivity|]. cbn [walk].
  pose proof (inv_list_ceq _ _ dir None (proj2 H)) as E.
  destruct (inv_list (db s) dir None) as [p1 r1], (inv_list (db s') dir None) as [q1 r2]. cbn [snd] in E. subst r2.
  destruct r1 as [hs| | |e]; [|reflexivity..].
  apply flat_map_ext. intro h. rewrite IH, (entry_of_veq c s s' _ h H). reflexivity.
Qed.

(* the walk of the visible tree is the same on [veq] states *)
Theorem view_veq c s s' : veq s s' -> view c s = view c s'.
Proof.
  intro H. unfold view. pose proof (stat_s_false_veq s s' [slash] H) as E.
  destruct (stat_s s [slash] false) as [a r1], (stat_s s' [slash] false) as [b r2]. cbn [snd] in E. subst r2.
  destruct r1 as [h| | |e]; [|reflexivity..].
  rewrite (entry_of_veq c s s' _ h H), (walk_veq c s s' H). reflexivity.
Qed.
