(* T02 / Rename: the entry moves with its whole subtree, an existing target of the same kind is replaced
   (a directory only when empty), a directory is not moved into itself, a missing source is not-exist. *)
From Coq Require Import List NArith ZArith Bool Lia.
From Coq Require Import ZifyN ZifyBool.
Import ListNotations.
From STFS Require Spelling.
From STFS Require Import Str Db Tape Index Ops Fs Diff Norm TapeLemmas StrLemmas
  C01Str C01Db C01Inv C01Sim C01Tape C01Hdr C01Ops C01Ops2 C01Reads C01Fs
  T02Ns T02Db T02Ops T02Reads T02Str T02Closed T02Move T02Calls.
Open Scope N_scope.

(* ---------- the reference move, as a lookup *)
Lemma in_lookup a e : In e a -> lookup a (fst e) <> None.
Proof.
  induction a as [|x a IH]; intro H; [contradiction|]. rewrite lookup_cons.
  destruct (eqb_str (fst x) (fst e)) eqn:E; [discriminate|].
  destruct H as [->|H]; [rewrite eqb_str_refl in E; discriminate|apply IH; exact H].
Qed.

Lemma eqb_app_head p q x y : eqb_str (p ++ x) (p ++ y) = eqb_str (q ++ x) (q ++ y).
Proof.
  destruct (eqb_str (p ++ x) (p ++ y)) eqn:E1; destruct (eqb_str (q ++ x) (q ++ y)) eqn:E2; try reflexivity; eqs; exfalso.
  - apply app_inv_head in E1. subst y. apply E2. reflexivity.
  - apply app_inv_head in E2. subst y. apply E1. reflexivity.
Qed.

Section RefMove.
Variables (old new : str).
Hypothesis Go : good old.
Hypothesis Ho : old <> [slash].
Hypothesis Gn : good new.
Hypothesis Hn : new <> [slash].

Definition threeway (f : str -> option node) (m : str) : option node :=
  if inside new m then f (old ++ skipn (length new) m) else if inside old m then None else f m.

Lemma inside_app d s : good d -> d <> [slash] -> sfx_ok s = true -> inside d (d ++ s) = true.
Proof. intros G H K. apply (inside_iff d _ G H). exists s. split; [reflexivity|exact K]. Qed.

Lemma lookup_ns_move a m : (forall e, In e a -> inside new (fst e) = false) ->
  lookup (ns_move a old new) m = threeway (lookup a) m.
Proof.
  unfold threeway. induction a as [|e a IH]; intro H.
  - unfold lookup. cbn. destruct (inside new m); [reflexivity|destruct (inside old m); reflexivity].
  - unfold ns_move. cbn [map]. fold (ns_move a old new).
    change (eqb_str (fst e) old || below old (fst e)) with (inside old (fst e)).
    specialize (IH (fun e' He' => H e' (or_intror He'))).
    pose proof (H e (or_introl eq_refl)) as He.
    destruct (inside old (fst e)) eqn:Ee.
    + rewrite lookup_cons. cbn [fst snd]. rewrite IH.
      apply (inside_iff old _ Go Ho) in Ee as (sx & Ex & Hsx). rewrite Ex, moved_name_app.
      destruct (inside new m) eqn:Em.
      * pose proof Em as Em'. apply (inside_iff new _ Gn Hn) in Em' as (sm & Emm & Hsm). subst m.
        rewrite skipn_app_len. rewrite lookup_cons, Ex. rewrite (eqb_app_head new old sx sm). reflexivity.
      * assert (E1 : eqb_str (new ++ sx) m = false).
        { apply eqb_str_neq. intro K. subst m. rewrite inside_app in Em by assumption. discriminate. }
        rewrite E1. destruct (inside old m) eqn:Eo; [reflexivity|]. rewrite lookup_cons, Ex.
        assert (E2 : eqb_str (old ++ sx) m = false).
        { apply eqb_str_neq. intro K. subst m. rewrite inside_app in Eo by assumption. discriminate. }
        rewrite E2. reflexivity.
    + rewrite lookup_cons, IH. destruct (inside new m) eqn:Em.
      * assert (E1 : eqb_str (fst e) m = false) by (apply eqb_str_neq; intro K; subst m; congruence).
        rewrite E1. pose proof Em as Em'. apply (inside_iff new _ Gn Hn) in Em' as (sm & Emm & Hsm). subst m.
        rewrite skipn_app_len. rewrite lookup_cons.
        assert (E2 : eqb_str (fst e) (old ++ sm) = false).
        { apply eqb_str_neq. intro K. rewrite K in Ee. rewrite inside_app in Ee by assumption. discriminate. }
        rewrite E2. reflexivity.
      * destruct (inside old m) eqn:Eo.
        -- assert (E1 : eqb_str (fst e) m = false) by (apply eqb_str_neq; intro K; subst m; congruence).
           rewrite E1. reflexivity.
        -- rewrite lookup_cons. reflexivity.
Qed.

Lemma ns_move_eq a b : ns_eq a b -> (forall x, inside new x = true -> lookup a x = None) ->
  ns_eq (ns_move a old new) (ns_move b old new).
Proof.
  intros E H m. rewrite !lookup_ns_move.
  - unfold threeway. rewrite !E. reflexivity.
  - intros e He. destruct (inside new (fst e)) eqn:K; [|reflexivity]. exfalso. apply (in_lookup b e He). rewrite <- E. apply H. exact K.
  - intros e He. destruct (inside new (fst e)) eqn:K; [|reflexivity]. exfalso. apply (in_lookup a e He). apply H. exact K.
Qed.

(* ---------- the implementation's move, as the same lookup *)
Variable hr : bool.
Hypothesis Hne : old <> new.
Hypothesis Hd1 : inside old new = false.
Hypothesis Hd2 : inside new old = false.

Lemma moves_threeway lv r m : LI hr lv -> find_rows (rows lv) old = Some r ->
  (forall x y, find_rows (rows lv) x = Some y -> inside old x = true -> In y (r :: mv_kids old (rows lv) r)) ->
  (forall x, inside new x = true -> look (rows lv) x = None) ->
  apply_moves old new (r :: mv_kids old (rows lv) r) (look (rows lv)) m = threeway (look (rows lv)) m.
Proof.
  intros HL Ef Hcomplete Hempty.
  destruct (sel_facts hr old new Go Gn Ho Hn lv r HL Ef) as (HF & Hnd).
  set (xs := r :: mv_kids old (rows lv) r) in *. rewrite Forall_forall in HF.
  assert (HPP : forall x, In x xs -> PP old new x) by (intros x Hx; apply HF; exact Hx).
  assert (Hself : forall x, In x xs -> find_rows (rows lv) (r_name x) = Some x) by (intros x Hx; apply HF; exact Hx).
  rewrite apply_moves_spec.
  2:{ apply NoDup_map_inj_in; [|eapply NoDup_map_inv; exact Hnd].
      intros x y Hx Hy E. pose proof (PP_nn_inj old new Go Gn Ho Hn x y (HPP x Hx) (HPP y Hy) E) as K.
      pose proof (Hself x Hx) as A. rewrite K, (Hself y Hy) in A. congruence. }
  2:{ intros x x' Hx Hx'. apply (PP_apart old new Go Gn Ho Hn Hd1 Hd2); apply HPP; assumption. }
  unfold threeway. destruct (inside new m) eqn:Em.
  - pose proof Em as Em'. apply (inside_iff new _ Gn Hn) in Em' as (sm & Emm & Hsm). subst m. rewrite skipn_app_len.
    destruct (find (fun x => eqb_str (new ++ sm) (nn old new x)) xs) as [x|] eqn:F.
    + apply find_some in F as [Hx F]. apply eqb_str_eq in F.
      destruct (PP_inside old new Go Gn Ho Hn x (HPP x Hx)) as (A & _ & N1).
      apply (inside_iff old _ Go Ho) in A as (sx & Ex & _). rewrite N1, Ex, moved_name_app in F. apply app_inv_head in F. subst sx.
      unfold look. rewrite <- Ex, (Hself x Hx). reflexivity.
    + assert (X : existsb (fun x => eqb_str (new ++ sm) (r_name x)) xs = false).
      { apply not_true_is_false. intro K. apply existsb_exists in K as (x & Hx & K). apply eqb_str_eq in K.
        destruct (PP_inside old new Go Gn Ho Hn x (HPP x Hx)) as (A & _ & _).
        assert (G : good (r_name x)) by apply (HPP x Hx).
        pose proof (inside_disjoint old new (r_name x) Go Gn G Hd1 Hd2 A) as B. rewrite <- K, Em in B. discriminate. }
      rewrite X. rewrite (Hempty _ Em). unfold look.
      destruct (find_rows (rows lv) (old ++ sm)) as [y|] eqn:Ey; [exfalso|reflexivity].
      assert (Hy : In y xs) by (eapply Hcomplete; [exact Ey|apply inside_app; assumption]).
      destruct (PP_inside old new Go Gn Ho Hn y (HPP y Hy)) as (_ & _ & N1).
      apply find_rows_some in Ey as (_ & _ & Ey). rewrite Ey, moved_name_app in N1.
      pose proof (find_none _ _ F y Hy) as K. cbn beta in K. rewrite N1, eqb_str_refl in K. discriminate.
  - assert (F : find (fun x => eqb_str m (nn old new x)) xs = None).
    { destruct (find _ xs) as [x|] eqn:F; [exfalso|reflexivity]. apply find_some in F as [Hx F]. apply eqb_str_eq in F.
      destruct (PP_inside old new Go Gn Ho Hn x (HPP x Hx)) as (_ & B & _). rewrite <- F, Em in B. discriminate. }
    rewrite F. destruct (inside old m) eqn:Eo.
    + destruct (existsb (fun x => eqb_str m (r_name x)) xs) eqn:X; [reflexivity|].
      unfold look. destruct (find_rows (rows lv) m) as [y|] eqn:Ey; [exfalso|reflexivity].
      assert (Hy : In y xs) by (eapply Hcomplete; eassumption).
      apply find_rows_some in Ey as (_ & _ & Ey).
      assert (existsb (fun x => eqb_str m (r_name x)) xs = true); [|congruence].
      apply existsb_exists. exists y. split; [exact Hy|]. rewrite Ey. apply eqb_str_refl.
    + assert (X : existsb (fun x => eqb_str m (r_name x)) xs = false).
      { apply not_true_is_false. intro K. apply existsb_exists in K as (x & Hx & K). apply eqb_str_eq in K.
        destruct (PP_inside old new Go Gn Ho Hn x (HPP x Hx)) as (A & _ & _). rewrite <- K, Eo in A. discriminate. }
      rewrite X. reflexivity.
Qed.
End RefMove.

(* ---------- the call *)
Lemma fs_rename_unfold c s old0 new0 : c_readonly c = false -> old0 <> [] -> new0 <> [] ->
  fs_rename c s old0 new0 =
    let old := path_clean old0 in
    let new := path_clean new0 in
    let '(p, rt) := get_root_path (db s) in
    let s := set_db s p in
    match rt with
    | None => (s, OInvalid)
    | Some r =>
      if eqb_str r old || eqb_str (spelling r) (spelling old) then (s, OInvalid) else
      let '(s, src) := match stat_s s old false with
                       | (s, NoRows) => stat_s s old true
                       | x => x end in
      match src with
      | Ok sh =>
        if eqb_str old new || eqb_str (spelling old) (spelling new) then (s, OOk) else
        if (h_tf sh =? TypeDir) && has_prefix (trim_suffix [slash] (spelling old) ++ [slash]) (spelling new) then (s, OInvalid) else
        match parent_check s new with
        | (s, OOk) =>
          match stat_s s new false with
          | (s, Ok th) =>
            if negb (h_tf th =? h_tf sh) then (s, OExist)
            else match fs_remove_nl c s new with
                 | (s, OOk) => move_op c s old new
                 | x => x
                 end
          | (s, _) => move_op c s old new
          end
        | x => x
        end
      | NoRows => (s, ONotExist)
      | e => (s, outc_of_res e)
      end
    end.
Proof.
  intros Hro Ho Hn. unfold fs_rename. rewrite Hro. destruct old0; [contradiction|]. destruct new0; [contradiction|]. reflexivity.
Qed.

Section Rename.
Variable hr : bool.
Variable c : cfg.
Hypothesis HP : plain c.
Hypothesis Hrs : 0 < c_rs c.
Hypothesis Hro : c_readonly c = false.

Lemma closed_rows_abs s : Inv hr c s -> closed (abs s) -> closed_rows (rows (db s)).
Proof. intros HI H. apply (closed_absp hr (db s) (iv_li hr c s HI)). exact H. Qed.

Lemma move_case s1 old new r1 : Wf hr c s1 -> hbok s1 -> closed (abs s1) ->
  good old -> old <> [slash] -> good new -> new <> [slash] -> old <> new ->
  inside old new = false -> inside new old = false ->
  find_rows (rows (db s1)) old = Some r1 ->
  (forall x, inside new x = true -> look (rows (db s1)) x = None) ->
  exists s', move_op c s1 old new = (s', OOk) /\ Wf hr c s' /\ hbok s' /\ ns_eq (abs s') (ns_move (abs s1) old new).
Proof.
  intros HW Hhb Hcl Go Ho Gn Hn Hne Hd1 Hd2 Ef Hempty.
  pose proof (wf_inv hr c s1 HW) as HI. pose proof (iv_li hr c s1 HI) as HL.
  assert (Hrows : Forall rowok (rows (db s1))) by apply HL.
  pose proof (closed_rows_abs s1 HI Hcl) as Hclr.
  destruct (move_exact hr c HP Hrs old new Go Gn Ho Hn Hne Hd1 Hd2 s1 r1 HI Hhb (wf_size hr c s1 HW) Ef)
    as (s' & E & HI' & Hhb' & Hsz' & Hlook).
  exists s'. split; [exact E|]. split; [split; assumption|]. split; [exact Hhb'|].
  intro m. rewrite (lookup_abs hr c s' m HI'), Hlook.
  rewrite (moves_threeway old new Go Ho Gn Hn hr Hd1 Hd2 (db s1) r1 m HL Ef); [| |exact Hempty].
  - rewrite (lookup_ns_move old new Go Ho Gn Hn).
    + unfold threeway. rewrite !(lookup_abs hr c s1 _ HI). reflexivity.
    + intros e He. destruct (inside new (fst e)) eqn:K; [|reflexivity]. exfalso. apply (in_lookup _ e He).
      rewrite (lookup_abs hr c s1 _ HI). apply Hempty. exact K.
  - (* every live entry at or below the source is selected *)
    intros x y Ey Hx. unfold inside in Hx. apply orb_true_iff in Hx as [Hx|Hx].
    + apply eqb_str_eq in Hx. subst x. left. congruence.
    + right. destruct (find_rows_some _ _ _ Ey) as (Y1 & Y2 & Y3).
      destruct (Hclr x y Ey old Go Hx) as (pd & Hpd & Hdir). rewrite Ef in Hpd. inversion Hpd; subst pd.
      unfold mv_kids. rewrite Hdir. change (TypeDir =? TypeDir) with true. cbn iota.
      apply filter_In. split; [exact Y1|]. rewrite Forall_forall in Hrows.
      rewrite (kid_filter_below c Hrs old y Go Ho (proj1 (Hrows y Y1))). rewrite Y2, Y3, Hx. reflexivity.
Qed.

Theorem T02_rename s old new : Wf hr c s -> closed (abs s) -> hbok s -> good old -> good new -> new <> [slash] ->
  exists s', step c s (CRename old new) = (s', snd (spec_rename (abs s) old new)) /\
    Wf hr c s' /\ hbok s' /\ ns_eq (abs s') (fst (spec_rename (abs s) old new)).
Proof.
  intros HW Hcl Hhb Go Gn Hn. pose proof (wf_inv hr c s HW) as HI. pose proof (iv_li hr c s HI) as HL.
  pose proof (names_good_abs hr c s HI) as Hng.
  cbn [step]. rewrite (fs_rename_unfold c s old new Hro (good_nonempty old Go) (good_nonempty new Gn)).
  cbv zeta. rewrite (path_clean_good old Go), (path_clean_good new Gn).
  rewrite (get_root_path_lv hr (db s) HL). rewrite set_db_same.
  rewrite ?Spelling.spelling_root, ?(Spelling.spelling_good old Go), ?(Spelling.spelling_good new Gn), ?Spelling.orb_same.
  unfold spec_rename. rewrite (eqb_str_sym [slash] old).
  destruct (eqb_str old [slash]) eqn:Eor.
  { exists s. split; [reflexivity|]. apply same_state; assumption. }
  assert (Ho : old <> [slash]) by (apply eqb_str_neq; exact Eor).
  rewrite (stat_false_exact hr s old HL Go). rewrite (lookup_abs hr c s old HI). unfold look.
  destruct (find_rows (rows (db s)) old) as [sd|] eqn:Eo; cbn [option_map].
  2:{ rewrite (stat_s_true hr s old HL). exists s. split; [reflexivity|]. apply same_state; assumption. }
  assert (Lo : lookup (abs s) old = Some (node_of sd)) by (rewrite (lookup_abs hr c s old HI); unfold look; rewrite Eo; reflexivity).
  destruct (eqb_str old new) eqn:Eon.
  { exists s. split; [reflexivity|]. apply same_state; assumption. }
  assert (Hne : old <> new) by (apply eqb_str_neq; exact Eon).
  change (h_tf (hdr_of_row sd)) with (r_tf sd). change (is_dir (node_of sd)) with (r_tf sd =? TypeDir).
  change (trim_suffix [slash] old ++ [slash]) with (pfx old).
  destruct ((r_tf sd =? TypeDir) && has_prefix (pfx old) new) eqn:Einto.
  { exists s. split; [reflexivity|]. apply same_state; assumption. }
  rewrite (parent_check_exact hr s new HL (good_abs new Gn)).
  unfold spec_parent. rewrite (lookup_abs hr c s (path_dir new) HI). unfold look.
  destruct (find_rows (rows (db s)) (path_dir new)) as [pd|] eqn:Ep; cbn [option_map].
  2:{ exists s. split; [reflexivity|]. apply same_state; assumption. }
  assert (Lp : lookup (abs s) (path_dir new) = Some (node_of pd)) by (rewrite (lookup_abs hr c s _ HI); unfold look; rewrite Ep; reflexivity).
  change (is_dir (node_of pd)) with (r_tf pd =? TypeDir).
  destruct (r_tf pd =? TypeDir) eqn:Epd.
  2:{ exists s. split; [reflexivity|]. apply same_state; assumption. }
  (* the source is not an ancestor of the target *)
  assert (Hd1 : inside old new = false).
  { unfold inside. rewrite (eqb_str_sym new old), Eon. cbn [orb]. destruct (below old new) eqn:Eb; [exfalso|reflexivity].
    destruct (r_tf sd =? TypeDir) eqn:Esd.
    - cbn [andb] in Einto. unfold below in Eb. rewrite Einto in Eb. discriminate.
    - destruct (below_parent old new Go Gn Eb) as [K|K].
      + rewrite <- K in Lp. rewrite Lo in Lp. assert (K2 : node_of sd = node_of pd) by congruence.
        apply (f_equal n_tf) in K2. change (r_tf sd = r_tf pd) in K2. rewrite K2 in Esd. congruence.
      + destruct (Hcl _ _ Lp old Go K) as (d & Hd & Hdir). rewrite Lo in Hd. inversion Hd; subst d.
        change (is_dir (node_of sd)) with (r_tf sd =? TypeDir) in Hdir. congruence. }
  rewrite (stat_false_exact hr s new HL Gn). rewrite (lookup_abs hr c s new HI). unfold look.
  destruct (find_rows (rows (db s)) new) as [td|] eqn:En; cbn [option_map].
  - (* the target exists *)
    assert (Ln : lookup (abs s) new = Some (node_of td)) by (rewrite (lookup_abs hr c s new HI); unfold look; rewrite En; reflexivity).
    change (h_tf (hdr_of_row td)) with (n_tf (node_of td)). change (r_tf sd) with (n_tf (node_of sd)).
    destruct (negb (n_tf (node_of td) =? n_tf (node_of sd))) eqn:Ekind.
    { exists s. split; [reflexivity|]. apply same_state; assumption. }
    destruct (T02_remove hr c HP Hrs Hro s new HW Hcl Hhb Gn Hn) as (s1 & E1 & HW1 & Hhb1 & Eq1).
    cbn [step] in E1. unfold fs_remove in E1. rewrite Hro, (path_clean_good new Gn) in E1. rewrite E1.
    pose proof (closed_remove (abs s) new Hng Gn Hcl) as Hcl1.
    unfold spec_remove in *. rewrite Ln in *.
    destruct (is_dir (node_of td) && has_below (abs s) new) eqn:Ecase; cbn [fst snd] in *.
    { exists s1. split; [reflexivity|]. split; [exact HW1|]. split; assumption. }
    pose proof (wf_inv hr c s1 HW1) as HI1.
    assert (Hbel : forall x v, lookup (abs s) x = Some v -> below new x = false).
    { intros x v Hx. destruct (below new x) eqn:Eb; [exfalso|reflexivity].
      destruct (Hcl x v Hx new Gn Eb) as (d & Hd & Hdir). rewrite Ln in Hd. inversion Hd; subst d.
      rewrite Hdir in Ecase. cbn [andb] in Ecase. rewrite (has_below_false _ _ _ _ Ecase Hx) in Eb. discriminate. }
    assert (Hd2 : inside new old = false).
    { unfold inside. rewrite Eon. cbn [orb]. exact (Hbel old _ Lo). }
    assert (Hempty : forall x, inside new x = true -> look (rows (db s1)) x = None).
    { intros x Hx. rewrite <- (lookup_abs hr c s1 x HI1), Eq1, lookup_ns_del.
      unfold inside in Hx. destruct (eqb_str x new); [reflexivity|]. cbn [orb] in Hx.
      destruct (lookup (abs s) x) as [v|] eqn:Lx; [|reflexivity]. rewrite (Hbel x v Lx) in Hx. discriminate. }
    assert (Ef1 : exists r1, find_rows (rows (db s1)) old = Some r1).
    { pose proof (Eq1 old) as K. rewrite lookup_ns_del, Eon, Lo in K. rewrite (lookup_abs hr c s1 old HI1) in K. unfold look in K.
      destruct (find_rows (rows (db s1)) old) as [r1|]; [eexists; reflexivity|discriminate]. }
    destruct Ef1 as (r1 & Ef1).
    destruct (move_case s1 old new r1 HW1 Hhb1 (closed_ns_eq _ _ (ns_eq_sym _ _ Eq1) Hcl1) Go Ho Gn Hn Hne Hd1 Hd2 Ef1 Hempty)
      as (s' & E & HW' & Hhb' & Eq').
    rewrite E. exists s'. split; [reflexivity|]. split; [exact HW'|]. split; [exact Hhb'|].
    eapply ns_eq_trans; [exact Eq'|]. apply (ns_move_eq old new Go Ho Gn Hn); [exact Eq1|].
    intros x Hx. rewrite (lookup_abs hr c s1 x HI1). apply Hempty. exact Hx.
  - (* no target *)
    assert (Ln : lookup (abs s) new = None) by (rewrite (lookup_abs hr c s new HI); unfold look; rewrite En; reflexivity).
    assert (Hbel : forall x v, lookup (abs s) x = Some v -> below new x = false).
    { intros x v Hx. destruct (below new x) eqn:Eb; [exfalso|reflexivity].
      destruct (Hcl x v Hx new Gn Eb) as (d & Hd & _). congruence. }
    assert (Hd2 : inside new old = false).
    { unfold inside. rewrite Eon. cbn [orb]. exact (Hbel old _ Lo). }
    assert (Hempty : forall x, inside new x = true -> look (rows (db s)) x = None).
    { intros x Hx. rewrite <- (lookup_abs hr c s x HI). unfold inside in Hx. destruct (eqb_str x new) eqn:Ex.
      - apply eqb_str_eq in Ex. subst x. exact Ln.
      - cbn [orb] in Hx. destruct (lookup (abs s) x) as [v|] eqn:Lx; [|reflexivity]. rewrite (Hbel x v Lx) in Hx. discriminate. }
    destruct (move_case s old new sd HW Hhb Hcl Go Ho Gn Hn Hne Hd1 Hd2 Eo Hempty) as (s' & E & HW' & Hhb' & Eq').
    rewrite E. exists s'. split; [reflexivity|]. split; [exact HW'|]. split; [exact Hhb'|exact Eq'].
Qed.
End Rename.

(* ---------- Rename keeps the tree shape *)
Section ClosedMove.
Variables (old new : str).
Hypothesis Go : good old.
Hypothesis Ho : old <> [slash].
Hypothesis Gn : good new.
Hypothesis Hn : new <> [slash].
Hypothesis Hd1 : inside old new = false.

Lemma closed_move a1 pv : names_good a1 -> closed a1 ->
  (forall x, inside new x = true -> lookup a1 x = None) ->
  lookup a1 (path_dir new) = Some pv -> is_dir pv = true ->
  closed (ns_move a1 old new).
Proof.
  intros Hng Hcl Hempty Hpar Hpd.
  assert (Hent : forall e, In e a1 -> inside new (fst e) = false).
  { intros e He. destruct (inside new (fst e)) eqn:K; [|reflexivity]. exfalso. apply (in_lookup a1 e He). apply Hempty. exact K. }
  destruct Go as (co & Hco & Eo). fold (P co) in Eo.
  destruct Gn as (cn & Hcn & En). fold (P cn) in En.
  assert (Hcone : co <> []) by (intro K; subst co; apply Ho; exact Eo).
  assert (Hcnne : cn <> []) by (intro K; subst cn; apply Hn; exact En).
  intros m v Hm p Gp Hb.
  rewrite (lookup_ns_move old new Go Ho Gn Hn a1 m Hent) in Hm.
  rewrite (lookup_ns_move old new Go Ho Gn Hn a1 p Hent).
  unfold threeway in *.
  destruct (inside new m) eqn:Em.
  - (* a moved entry *)
    pose proof Em as Em'. apply (inside_iff new _ Gn Hn) in Em' as (sm & Emm & Hsm). subst m. rewrite skipn_app_len in Hm.
    pose proof (Hng _ _ Hm) as Gx.
    destruct (inside_comps old (old ++ sm) Go Ho Gx (inside_app old sm Go Ho Hsm)) as (co' & t & Hco' & _ & Ht & Eo' & Ex).
    rewrite Eo in Eo'. apply P_inj in Eo'; [|exact Hco|exact Hco']. subst co'.
    rewrite (P_app co t Hcone), <- Eo in Ex. apply app_inv_head in Ex. subst sm.
    assert (Em2 : new ++ sfx_of t = P (cn ++ t)) by (rewrite (P_app cn t Hcnne), <- En; reflexivity).
    assert (Gm : good (new ++ sfx_of t)) by (rewrite Em2; apply good_P; apply Forall_app; split; assumption).
    destruct (below_inv p _ Gp Gm Hb) as (ps & u & Hps & Hu & Hune & Ep & Em3).
    rewrite Em2 in Em3. apply P_inj in Em3; [|apply Forall_app; split; assumption|apply Forall_app; split; assumption].
    apply app_eq_app in Em3 as (l & [[E1 E2]|[E1 E2]]).
    + (* p is the target or one of its ancestors *)
      destruct l as [|l0 lr].
      * rewrite app_nil_r in E1. subst ps. cbn [app] in E2. subst u.
        rewrite Ep, <- En, inside_refl. rewrite skipn_all, app_nil_r.
        apply (Hcl _ _ Hm old Go).
        replace (old ++ sfx_of t) with (P (co ++ t)) by (rewrite (P_app co t Hcone), <- Eo; reflexivity).
        rewrite Eo. apply below_comps; assumption.
      * assert (Hbp : below p new = true).
        { rewrite Ep, En, E1. apply below_comps; [exact Hps| |discriminate]. rewrite E1 in Hcn. apply Forall_app in Hcn. apply Hcn. }
        assert (N1 : inside new p = false).
        { unfold inside. rewrite (below_asym p new Gp Gn Hbp), orb_false_r. apply eqb_str_neq. intro K. rewrite K, below_irrefl in Hbp. discriminate. }
        assert (N2 : inside old p = false).
        { destruct (inside old p) eqn:K; [|reflexivity]. exfalso.
          pose proof (inside_trans old p new Go Gp Gn K Hbp) as C. unfold inside in Hd1. rewrite C, orb_true_r in Hd1. discriminate. }
        rewrite N1, N2. destruct (below_parent p new Gp Gn Hbp) as [->|Hbb].
        -- exists pv. split; assumption.
        -- exact (Hcl _ _ Hpar p Gp Hbb).
    + (* p is a moved name *)
      subst ps t.
      assert (Ep2 : p = new ++ sfx_of l) by (rewrite Ep, (P_app cn l Hcnne), <- En; reflexivity).
      rewrite Ep2. rewrite (inside_app new _ Gn Hn (sfx_of_ok l)). rewrite skipn_app_len.
      apply Forall_app in Ht as [Hl _].
      assert (Ex2 : old ++ sfx_of l = P (co ++ l)) by (rewrite (P_app co l Hcone), <- Eo; reflexivity).
      apply (Hcl _ _ Hm (old ++ sfx_of l)).
      * rewrite Ex2. apply good_P. apply Forall_app. split; assumption.
      * rewrite Ex2.
        replace (old ++ sfx_of (l ++ u)) with (P ((co ++ l) ++ u)) by (rewrite <- app_assoc, (P_app co (l ++ u) Hcone), <- Eo; reflexivity).
        apply below_comps; [apply Forall_app; split; assumption|exact Hu|exact Hune].
  - destruct (inside old m) eqn:Eom; [discriminate|].
    pose proof (Hng _ _ Hm) as Gm.
    destruct (Hcl _ _ Hm p Gp Hb) as (d & Hd & Hdir).
    assert (N1 : inside new p = false).
    { destruct (inside new p) eqn:K; [|reflexivity]. rewrite (Hempty p K) in Hd. discriminate. }
    assert (N2 : inside old p = false).
    { destruct (inside old p) eqn:K; [|reflexivity]. exfalso.
      pose proof (inside_trans old p m Go Gp Gm K Hb) as C. unfold inside in Eom. rewrite C, orb_true_r in Eom. discriminate. }
    rewrite N1, N2. exists d. split; assumption.
Qed.
End ClosedMove.

Lemma closed_rename a old new : names_good a -> closed a -> good old -> good new -> new <> [slash] ->
  closed (fst (spec_rename a old new)).
Proof.
  intros Hng Hcl Go Gn Hn. unfold spec_rename.
  destruct (eqb_str old [slash]) eqn:Eor; [exact Hcl|]. assert (Ho : old <> [slash]) by (apply eqb_str_neq; exact Eor).
  destruct (lookup a old) as [sv|] eqn:Lo; [|exact Hcl].
  destruct (eqb_str old new) eqn:Eon; [exact Hcl|].
  destruct (is_dir sv && has_prefix (pfx old) new) eqn:Einto; [exact Hcl|].
  unfold spec_parent. destruct (lookup a (path_dir new)) as [pv|] eqn:Lp; [|exact Hcl].
  destruct (is_dir pv) eqn:Epd; [|exact Hcl].
  assert (Hd1 : inside old new = false).
  { unfold inside. rewrite (eqb_str_sym new old), Eon. cbn [orb]. destruct (below old new) eqn:Eb; [exfalso|reflexivity].
    destruct (is_dir sv) eqn:Esd.
    - cbn [andb] in Einto. unfold below in Eb. rewrite Einto in Eb. discriminate.
    - destruct (below_parent old new Go Gn Eb) as [K|K].
      + rewrite <- K in Lp. congruence.
      + destruct (Hcl _ _ Lp old Go K) as (d & Hd & Hdir). congruence. }
  destruct (lookup a new) as [tv|] eqn:Ln.
  - destruct (negb (n_tf tv =? n_tf sv)); [exact Hcl|].
    pose proof (closed_remove a new Hng Gn Hcl) as Hcl1.
    unfold spec_remove in *. rewrite Ln in *.
    destruct (is_dir tv && has_below a new) eqn:Ecase; cbn [fst snd] in *; [exact Hcl|].
    assert (Hbel : forall x v, lookup a x = Some v -> below new x = false).
    { intros x v Hx. destruct (below new x) eqn:Eb; [exfalso|reflexivity].
      destruct (Hcl x v Hx new Gn Eb) as (d & Hd & Hdir). rewrite Ln in Hd. inversion Hd; subst d.
      rewrite Hdir in Ecase. cbn [andb] in Ecase. rewrite (has_below_false _ _ _ _ Ecase Hx) in Eb. discriminate. }
    apply (closed_move old new Go Ho Gn Hn Hd1) with (pv := pv).
    + intros m v Hm. rewrite lookup_ns_del in Hm. destruct (eqb_str m new); [discriminate|]. exact (Hng m v Hm).
    + exact Hcl1.
    + intros x Hx. rewrite lookup_ns_del. unfold inside in Hx. destruct (eqb_str x new); [reflexivity|]. cbn [orb] in Hx.
      destruct (lookup a x) as [v|] eqn:Lx; [|reflexivity]. rewrite (Hbel x v Lx) in Hx. discriminate.
    + rewrite lookup_ns_del. destruct (eqb_str (path_dir new) new) eqn:K; [|exact Lp].
      exfalso. apply eqb_str_eq in K. destruct (parent_below new Gn Hn) as (B & _). rewrite K, below_irrefl in B. discriminate.
    + exact Epd.
  - assert (Hbel : forall x v, lookup a x = Some v -> below new x = false).
    { intros x v Hx. destruct (below new x) eqn:Eb; [exfalso|reflexivity].
      destruct (Hcl x v Hx new Gn Eb) as (d & Hd & _). congruence. }
    cbn [fst]. apply (closed_move old new Go Ho Gn Hn Hd1) with (pv := pv).
    + exact Hng.
    + exact Hcl.
    + intros x Hx. unfold inside in Hx. destruct (eqb_str x new) eqn:Ex.
      * apply eqb_str_eq in Ex. subst x. exact Ln.
      * cbn [orb] in Hx. destruct (lookup a x) as [v|] eqn:Lx; [|reflexivity]. rewrite (Hbel x v Lx) in Hx. discriminate.
    + exact Lp.
    + exact Epd.
Qed.
