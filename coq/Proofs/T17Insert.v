(* T17 / Insert: adding one leaf (an empty directory or a file) as the last member of the directory at q. *)
From Coq Require Import List NArith ZArith Bool Lia.
Import ListNotations.
From STFS Require Import Str Db Tape C01Str T13Path T13View T17Tree T17Str T17Forest.
Open Scope N_scope.

Definition ins_map (x : str) (f : list node -> list node) (k : node) : node :=
  match k with
  | Dir nm mt kk => if eqb_str nm x then Dir nm mt (f kk) else k
  | File _ _ _ => k
  end.

Fixpoint insert (q : list str) (n : node) (ks : list node) : list node :=
  match q with
  | [] => ks ++ [n]
  | x :: q' => map (ins_map x (insert q' n)) ks
  end.

Definition tinsert (q : list str) (n : node) (t : tree) : tree := {| t_meta := t_meta t; t_kids := insert q n (t_kids t) |}.

Definition leaf (n : node) : Prop := match n with File _ _ _ => True | Dir _ _ ks => ks = [] end.

Lemma flatten_leaf pre n : leaf n -> flatten pre n = [item_of pre n].
Proof. destruct n as [nm mt d|nm mt ks]; cbn; [reflexivity|]. intros ->. reflexivity. Qed.

Lemma ins_map_name x f k : node_name (ins_map x f k) = node_name k.
Proof. destruct k as [nm mt d|nm mt kk]; cbn; [reflexivity|]. destruct (eqb_str nm x); reflexivity. Qed.

Lemma ins_map_other x f k : node_name k <> x -> ins_map x f k = k.
Proof.
  destruct k as [nm mt d|nm mt kk]; cbn; [reflexivity|]. intro H.
  replace (eqb_str nm x) with false; [reflexivity|]. symmetry. apply eqb_str_neq. exact H.
Qed.

Lemma ins_map_others x f ks : ~ In x (map node_name ks) -> map (ins_map x f) ks = ks.
Proof.
  induction ks as [|k ks IH]; intro H; [reflexivity|]. cbn [map]. rewrite ins_map_other.
  - rewrite IH; [reflexivity|]. intro K. apply H. right. exact K.
  - intro K. apply H. left. exact K.
Qed.

(* ---------- well-formedness *)
Lemma insert_wf q n : wf_node n -> forall ks ks0, wf_forest ks -> lookup q ks = Some ks0 ->
  ~ In (node_name n) (map node_name ks0) -> wf_forest (insert q n ks).
Proof.
  intro Hn. induction q as [|x q IH]; intros ks ks0 [Hall Hnd] Hl Hfresh; cbn [lookup insert] in *.
  - inversion Hl; subst ks0. split.
    + apply Forall_app. split; [exact Hall|constructor; [exact Hn|constructor]].
    + rewrite map_app. apply NoDup_app_intro; [exact Hnd|constructor; [intros []|constructor]|].
      intros a Ha [<-|[]]. exact (Hfresh Ha).
  - destruct (find _ ks) as [[|nm mt kk]|] eqn:E; try discriminate.
    apply find_name_in in E as [Hin En]. cbn in En. subst nm.
    split.
    + apply Forall_forall. intros k' Hk'. apply in_map_iff in Hk' as (k & <- & Hk).
      rewrite Forall_forall in Hall. pose proof (Hall k Hk) as Wk.
      destruct k as [nm' mt' d'|nm' mt' kk']; cbn [ins_map]; [exact Wk|].
      destruct (eqb_str nm' x) eqn:Ex; [|exact Wk]. apply eqb_str_eq in Ex. subst nm'.
      assert (Ek : Dir x mt' kk' = Dir x mt kk).
      { pose proof (find_name_of ks (Dir x mt' kk') Hnd Hk) as F1. pose proof (find_name_of ks (Dir x mt kk) Hnd Hin) as F2.
        cbn [node_name] in F1, F2. rewrite F1 in F2. inversion F2. reflexivity. }
      inversion Ek; subst mt' kk'. inversion Wk as [|? ? ? Ho Hb Hka Hkn]; subst.
      destruct (IH kk ks0 (conj Hka Hkn) Hl Hfresh) as [A B]. constructor; assumption.
    + rewrite map_map. rewrite (map_ext _ node_name) by (intro; apply ins_map_name). exact Hnd.
Qed.

Lemma tinsert_wf q n t ks0 : wf t -> wf_node n -> lookup q (t_kids t) = Some ks0 ->
  ~ In (node_name n) (map node_name ks0) -> wf (tinsert q n t).
Proof. intros [Hm Hf] Hn Hl Hfr. split; [exact Hm|]. exact (insert_wf q n Hn _ _ Hf Hl Hfr). Qed.

(* ---------- the flat member list: the new member sits after the last old member of its directory *)
Lemma insert_flatten q n : leaf n -> forall pre ks ks0, wf_forest ks -> lookup q ks = Some ks0 ->
  exists A B, flatten_forest pre ks = A ++ B /\
              flatten_forest pre (insert q n ks) = A ++ item_of (pre ++ q) n :: B /\
              forall i, In i B -> forall x, i_path i <> (pre ++ q) ++ [x].
Proof.
  intro Hleaf. induction q as [|x q IH]; intros pre ks ks0 Hwf Hl; cbn [lookup insert] in *.
  - exists (flatten_forest pre ks), []. rewrite !app_nil_r. split; [reflexivity|]. split; [|intros i []].
    unfold flatten_forest. rewrite flat_map_app. cbn [flat_map]. rewrite flatten_leaf by exact Hleaf. rewrite app_nil_r. reflexivity.
  - destruct (find _ ks) as [[|nm mt kk]|] eqn:E; try discriminate.
    destruct Hwf as [Hall Hnd].
    revert E Hall Hnd. induction ks as [|k ks IHk]; intros E Hall Hnd; [discriminate|].
    cbn [find] in E. cbn [map] in Hnd. inversion Hnd as [|? ? Hnot Hnd']; subst.
    inversion Hall as [|? ? Hk Hall']; subst.
    destruct (eqb_str (node_name k) x) eqn:En.
    + inversion E; subst k. apply eqb_str_eq in En. cbn [node_name] in En. subst nm.
      cbn [map ins_map]. rewrite eqb_str_refl. cbn [node_name] in Hnot. rewrite (ins_map_others x _ ks Hnot).
      destruct (IH (pre ++ [x]) kk ks0 (wf_node_kids _ _ _ Hk) Hl) as (A & B & E1 & E2 & E3).
      exists (item_of pre (Dir x mt kk) :: A), (B ++ flatten_forest pre ks).
      unfold flatten_forest in *. cbn [flat_map flatten]. rewrite E1, E2.
      replace ((pre ++ [x]) ++ q) with (pre ++ x :: q) in * by (rewrite <- app_assoc; reflexivity).
      split; [cbn [app]; rewrite <- ?app_assoc; reflexivity|]. split; [cbn [app]; rewrite <- ?app_assoc; reflexivity|].
      intros i Hi y. apply in_app_or in Hi as [Hi|Hi]; [apply E3; exact Hi|].
      apply in_flat_map in Hi as (k' & Hk' & Hi). destruct (flatten_paths' k' pre i Hi) as (r & Ep). rewrite Ep.
      rewrite <- app_assoc. intro K. apply app_inv_head in K. inversion K as [[Kn Kr]].
      apply Hnot. rewrite <- Kn. apply in_map. exact Hk'.
    + assert (Hne : node_name k <> x) by (apply eqb_str_neq; exact En).
      cbn [map]. rewrite (ins_map_other x _ k Hne).
      destruct (IHk E Hall' Hnd') as (A & B & E1 & E2 & E3).
      exists (flatten pre k ++ A), B. unfold flatten_forest in *. cbn [flat_map]. rewrite E1, E2.
      split; [rewrite <- app_assoc; reflexivity|]. split; [rewrite <- app_assoc; reflexivity|exact E3].
Qed.

Lemma tinsert_items q n t ks0 : leaf n -> wf t -> lookup q (t_kids t) = Some ks0 ->
  exists A B, items t = A ++ B /\ items (tinsert q n t) = A ++ item_of q n :: B /\
              (forall i, In i B -> forall x, i_path i <> q ++ [x]).
Proof.
  intros Hleaf [_ Hwf] Hl. destruct (insert_flatten q n Hleaf [] (t_kids t) ks0 Hwf Hl) as (A & B & E1 & E2 & E3).
  exists (top_item t :: A), B. unfold items. cbn [tinsert t_kids app]. rewrite E1, E2. cbn [app] in *.
  repeat split; try reflexivity. exact E3.
Qed.

(* the children filter over the old members followed by the new one = the children filter over the new tree *)
Lemma tinsert_children q n t ks0 q' : leaf n -> wf t -> lookup q (t_kids t) = Some ks0 ->
  filter (fun i => childb q' (i_path i)) (items t) ++ (if childb q' (q ++ [node_name n]) then [item_of q n] else [])
  = filter (fun i => childb q' (i_path i)) (items (tinsert q n t)).
Proof.
  intros Hleaf Hwf Hl. destruct (tinsert_items q n t ks0 Hleaf Hwf Hl) as (A & B & E1 & E2 & E3).
  rewrite E1, E2. rewrite !filter_app. cbn [filter item_of i_path].
  destruct (childb q' (q ++ [node_name n])) eqn:Ec.
  - assert (Eq : q' = q).
    { apply childb_spec in Ec as (x & Ex). apply app_inj_tail in Ex as [Ex _]. symmetry. exact Ex. }
    subst q'. assert (Fb : filter (fun i => childb q (i_path i)) B = []).
    { apply filter_nil_all. intros i Hi. apply childb_false. intros x. apply E3. exact Hi. }
    rewrite Fb, !app_nil_r. reflexivity.
  - rewrite app_nil_r. reflexivity.
Qed.

(* depth grows by at most the new leaf *)
Lemma lookup_insert_same q n : forall ks ks0, wf_forest ks -> lookup q ks = Some ks0 -> lookup q (insert q n ks) = Some (ks0 ++ [n]).
Proof.
  induction q as [|x q IH]; intros ks ks0 Hwf Hl; cbn [lookup insert] in *.
  - inversion Hl. reflexivity.
  - destruct (find _ ks) as [[|nm mt kk]|] eqn:E; try discriminate.
    destruct Hwf as [Hall Hnd]. pose proof (find_name_in _ _ _ E) as [Hin En]. cbn in En. subst nm.
    assert (F : find (fun k => eqb_str (node_name k) x) (map (ins_map x (insert q n)) ks) = Some (Dir x mt (insert q n kk))).
    { clear -E. induction ks as [|k ks IHk]; [discriminate|]. cbn [find map] in *. rewrite ins_map_name.
      destruct (eqb_str (node_name k) x) eqn:En.
      - inversion E; subst k. cbn [ins_map]. rewrite eqb_str_refl. reflexivity.
      - apply IHk. exact E. }
    rewrite F. rewrite Forall_forall in Hall. apply IH; [|exact Hl]. exact (wf_node_kids _ _ _ (Hall _ Hin)).
Qed.
