(* T04 / the hypotheses of T04_reachable are decidable on concrete histories; an instance (the 29 calls of
   T04Test.hist after Initialize "/": create, overwrite, renames of files and of a directory with files, remove and
   re-create, truncation, RemoveAll, failing calls), run by a process with identity 7/8/"u"/"g". *)
From Coq Require Import String List NArith ZArith Bool Lia.
From Coq Require Import ZifyN ZifyBool.
Import ListNotations.
From STFS Require Import Str Db Tape Index Ops Fs File Diff Norm C01Str C01Sim C01Rows T02Ns T02Db T02Str T02Spec T02Test T02Demo
  T04Def T04Ns T04Content T04Test.
Open Scope N_scope.

Definition call_pre4b (k : call) : bool :=
  match k with
  | CMkdir n _ | CMkdirAll n _ | CChmod n _ | CChown n _ _ | CChtimes n _ _ => goodb n
  | CRemove n | CRemoveAll n => goodb n && nonrootb n
  | CRename x y => goodb x && goodb y && nonrootb y
  | CCreateFile n d => goodb n && (clen d <? 10 ^ 40)
  | CInitialize _ | CNop | CReopen => true
  | _ => false
  end.

Lemma call_pre4b_sound k : call_pre4b k = true -> call_pre4 true k.
Proof.
  destruct k; cbn [call_pre4b call_pre4]; try discriminate; intro H.
  - apply goodb_good; exact H.
  - apply goodb_good; exact H.
  - apply andb_true_iff in H as [A B]. split; [apply goodb_good; exact A|apply nonrootb_ok; exact B].
  - apply andb_true_iff in H as [A B]. split; [apply goodb_good; exact A|apply nonrootb_ok; exact B].
  - apply andb_true_iff in H as [H C]. apply andb_true_iff in H as [A B].
    split; [apply goodb_good; exact A|]. split; [apply goodb_good; exact B|apply nonrootb_ok; exact C].
  - apply goodb_good; exact H.
  - apply goodb_good; exact H.
  - apply goodb_good; exact H.
  - apply andb_true_iff in H as [A B]. split; [apply goodb_good; exact A|apply N.ltb_lt; exact B].
  - exact I.
  - reflexivity.
  - exact I.
Qed.

Fixpoint ok_run4b (r : list (call * env)) : bool :=
  match r with
  | [] => true
  | (k, e) :: r' => forallb (fun x => 0 <? x) (ev_hb e) && call_pre4b k && ok_run4b r'
  end.

Lemma ok_run4b_sound r : ok_run4b r = true -> ok_run4 true r.
Proof.
  induction r as [|[k e] r IH]; intro H; cbn [ok_run4b ok_run4] in *; [exact I|].
  apply andb_true_iff in H as [H H3]. apply andb_true_iff in H as [H1 H2].
  split; [exact H1|]. split; [apply call_pre4b_sound; exact H2|apply IH; exact H3].
Qed.

Example demo_history :
  let c := cfg_rs 3 in let h := hist [1; 2] in
  Good4 true c (final c init_sys h) /\
  (forall m, good m -> content_eq (content_of c (final c init_sys h) m) (last_written c init_sys h w_empty m)) /\
  (forall x, In x (rows (db (final c init_sys h))) -> live x = true -> tf_regular (r_tf x) = true ->
     exists m, member_at (tp (final c init_sys h)) (off_of (c_rs c) (r_rec x) (r_blk x)) = Some m /\
               is_content_record m (r_size x) /\
               content_eq (Some (mdata m)) (last_written c init_sys h w_empty (r_name x))).
Proof.
  cbn zeta. apply (T04_reachable (cfg_rs 3) (eh [1; 2] 1) (tl (hist [1; 2]))).
  - split; reflexivity.
  - reflexivity.
  - reflexivity.
  - reflexivity.
  - apply ok_run4b_sound. vm_compute. reflexivity.
Qed.
