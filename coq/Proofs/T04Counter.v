(* T04 / corners, each as a compiled example; the theorems of T04Content.v carry the hypothesis (or the weaker
   conclusion) that corresponds to each. *)
From Coq Require Import String List NArith ZArith Bool.
Import ListNotations.
From STFS Require Import Str Db Tape Index Ops Fs File Diff Norm C01Str T02Ns T02Db T02Str T02Test T04Def T04Test.
Open Scope string_scope.
Open Scope N_scope.

Definition c3 : cfg := cfg_rs 3.
Definition after (h : list (call * env)) : sys := final c3 init_sys h.
Definition hroot : list (call * env) := [(CInitialize (s "/"), eh [] 1)].

(* (1) equality of PIECE LISTS fails in exactly one situation: CreateFile n [] on an existing file of size 0 writes
       nothing (the handle never enters write mode), so what is read afterwards is the old zero-length content.  If
       that was written as a list of zero-length pieces, the read returns that list, not [].  As byte strings they are
       equal: [T04_create] / [T04_step] state [content_eq] (= equality after [expand]) for this case and equality of
       piece lists whenever d <> [] or the name did not read as a regular file before. *)
Definition hzero : list (call * env) :=
  hroot ++ [(CCreateFile (s "/f") [(1, 0, 0)], eh [] 2); (CCreateFile (s "/f") [], eh [] 3)].
Example empty_onto_zero_length_pieces :
  content_of c3 (after hzero) (s "/f") = Some [(1, 0, 0)] /\
  last_written c3 init_sys hzero w_empty (s "/f") = Some [] /\
  content_eqb (content_of c3 (after hzero) (s "/f")) (last_written c3 init_sys hzero w_empty (s "/f")) = true /\
  snd (step c3 (with_env (after (removelast hzero)) (eh [] 3)) (CCreateFile (s "/f") [])) = OOk /\
  tp (after hzero) = tp (after (removelast hzero)).            (* nothing was appended *)
Proof. vm_compute. repeat split; reflexivity. Qed.

(* (2) the frame "nobody else's content changed" is about cleaned absolute names ([good]): other spellings of the
       written name can read the written entry (the relative spelling "a/f" is resolved to "/a/f"; "/a/f/" is not
       resolved by Stat), so their reads change too. *)
Definition hdir : list (call * env) := hroot ++ [(CMkdir (s "/a") 493, eh [] 2)].
Example other_spellings_read_the_same_entry :
  let s1 := fst (step c3 (with_env (after hdir) (eh [] 3)) (CCreateFile (s "/a/f") [(1, 0, 10)])) in
  map (content_of c3 (after hdir)) [s "a/f"; s "/a/f/"] = [None; None] /\
  map (content_of c3 s1) [s "/a/f"; s "a/f"; s "/a/f/"] = [Some [(1, 0, 10)]; Some [(1, 0, 10)]; None].
Proof. vm_compute. split; reflexivity. Qed.

(* (3) the ghost map follows the FILESYSTEM calls only ([call_pre4] is False for the operations-level calls): an
       operations-level Update with replace = true rewrites the content of an entry without any CreateFile. *)
Definition hfile : list (call * env) := hroot ++ [(CCreateFile (s "/f") [(1, 0, 10)], eh [] 2)].
Definition upd_file : file :=
  {| f_hdr := {| h_tf := TypeReg; h_name := s "/f"; h_link := []; h_size := 5; h_mode := 420; h_uid := 0; h_gid := 0;
                 h_uname := []; h_gname := []; h_mtime := 7%Z; h_atime := 0%Z; h_ctime := 0%Z; h_pax := [] |};
     f_data := [(9, 0, 5)] |}.
Example operations_level_update_is_outside_the_alphabet :
  let '(s1, o) := step c3 (with_env (after hfile) (eh [] 3)) (CUpdate [upd_file] true) in
  o = OOk /\ content_of c3 (after hfile) (s "/f") = Some [(1, 0, 10)] /\ content_of c3 s1 (s "/f") = Some [(9, 0, 5)] /\
  upd_w (CUpdate [upd_file] true) o (content_of c3 (after hfile)) (s "/f") = Some [(1, 0, 10)].
Proof. vm_compute. repeat split; reflexivity. Qed.

(* (4) [content_of] is about regular entries: for a directory the low-level read path does return a (empty) content -
       the directory's record carries no data - but a directory has no content to compare, [content_of] is None. *)
Example directory_has_no_content :
  content_of c3 (after hdir) (s "/a") = None /\
  snd (read_path c3 (after hdir) (s "/a")) = Ok [].
Proof. vm_compute. split; reflexivity. Qed.

(* (5) CreateFile on an existing regular file (T02Counter.v (2); the corner that remains there, nothing written to an
       empty file, concerns the modification time column only): the contents are right (no hypothesis of T04 excludes
       the call; [cfg_rs] has uid 7, gid 8, and since the flush keeps the owner of the entry and stamps the
       modification time no theorem of T02 has a hypothesis on the identity or excludes this call either).  The
       overwritten file reads the new content, the position moved to the new record, and the old record is still on
       the tape at its old position. *)
Definition hover : list (call * env) := hfile ++ [(CCreateFile (s "/f") [(2, 0, 700)], eh [] 3)].
Example overwrite_reads_new_content :
  content_of c3 (after hover) (s "/f") = Some [(2, 0, 700)] /\
  option_map n_cid (lookup (abs (after hfile)) (s "/f")) = Some (3, 1) /\
  option_map n_cid (lookup (abs (after hover)) (s "/f")) = Some (5, 1) /\
  option_map mdata (member_at (tp (after hover)) (off_of 3 3 1)) = Some [(1, 0, 10)] /\
  option_map mdata (member_at (tp (after hover)) (off_of 3 5 1)) = Some [(2, 0, 700)].
Proof. vm_compute. repeat split; reflexivity. Qed.

(* (6) an empty file: the record that carries its "content" is the CREATE record of mknode (no data); a metadata
       update appends a record but the position keeps designating the CREATE record. *)
Definition hempty : list (call * env) := hroot ++ [(CCreateFile (s "/g") [], eh [] 2); (CChmod (s "/g") 256, eh [] 3)].
Example empty_file_position :
  content_of c3 (after hempty) (s "/g") = Some [] /\
  option_map n_cid (lookup (abs (after hempty)) (s "/g")) = Some (1, 2) /\
  option_map (fun m => (m_data m, h_size (m_hdr m))) (member_at (tp (after hempty)) (off_of 3 1 2)) = Some (None, 0) /\
  designatesb c3 (after hempty) = true.
Proof. vm_compute. repeat split; reflexivity. Qed.
