(* T05 / C16: the faithfulness theorems on a concrete history (a test of the statements), and the continuation from a
   REBUILT index, which the history theorems do not cover (Proofs/T05Open.v (3)): by computation, with a codec suffix. *)
From Coq Require Import String List NArith ZArith Bool.
Import ListNotations.
From STFS Require Import Str Db Tape Index Ops Fs Diff Norm Prefix C01Fs2 C01Rows T05Shape T05Open.
Open Scope string_scope.
Open Scope N_scope.

Definition e0 (n : Z) : env := {| ev_hb := []; ev_enc := []; ev_now := n |}.
Definition cf : cfg :=
  {| c_rs := 3; c_csuf := s ".z"; c_esuf := []; c_readonly := false; c_uid := 0; c_gid := 0;
     c_uname := s "root"; c_gname := s "0" |}.
Definition r1 : list (call * env) :=
  [(CMkdir (s "/a") 493, e0 2); (CCreateFile (s "/a/f") [(1, 0, 700)], e0 3);
   (CRemove (s "/a/f"), e0 4); (CCreateFile (s "/b") [(2, 0, 10)], e0 5); (CRename (s "/b") (s "/a/f"), e0 6);
   (CChmod (s "/a/f") 384, e0 7); (CRename (s "/a") (s "/c"), e0 8)].
Definition h2 : list (call * env) :=
  [(CInitialize (s "/"), e0 9); (CMkdir (s "/c/d") 493, e0 10); (CCreateFile (s "/c/d/g") [(3, 0, 70)], e0 11);
   (CRename (s "/c/f") (s "/c/d/h"), e0 12); (CRemoveAll (s "/c/d"), e0 13); (CMkdirAll (s "/x/y/z") 493, e0 14);
   (CChtimes (s "/x") 5 6, e0 15); (CCreateFile (s "/x/y/w") [], e0 16); (CRemove (s "/x/y/w"), e0 17);
   (CRename (s "/x/y") (s "/q"), e0 18)].
Definition s1 : sys := final cf init_sys ((CInitialize [slash], e0 1) :: r1).
(* the same tape without an index *)
Definition s0 : sys := {| tp := tp s1; db := p_empty; hbq := []; encq := []; clk := 0%Z |}.

(* the theorems of T05Open.v apply (their hypotheses are decidable here) *)
Example demo_open_absent :
  tp (fst (fs_initialize cf s0 (s "/"))) = tp s1 /\
  rows (db (fst (fs_initialize cf s0 (s "/")))) = map norm_row (rows (db s1)) /\
  snd (fs_initialize cf s0 (s "/")) = OOk.
Proof. apply (T05_open_absent_index_kept cf (e0 1) r1); reflexivity. Qed.

Example demo_open_current : fs_initialize cf (set_db s1 (p_open (rows (db s1)))) (s "/") = (s1, OOk).
Proof. apply (T05_open_current_index_kept cf (e0 1) r1); reflexivity. Qed.

(* ---------- continuing from the rebuilt index *)
Definition exact_rows (c : cfg) (st : sys) : bool :=
  match rebuild c (tp st) with (p, Ok _) => eqb_list eqb_row (rows p) (rows (db st)) | _ => false end.
Fixpoint exact_all (c : cfg) (st : sys) (h : list (call * env)) : bool :=
  match h with
  | [] => true
  | (k, e) :: r => let st' := fst (step c (with_env st e) k) in exact_rows c st' && exact_all c st' r
  end.

(* the two continuations (writer's index / rebuilt index) return the same outcomes, show the same tree and write tapes
   of the same length after every call; the instance on the rebuilt index satisfies "rows of a rebuild = rows of the
   index" EXACTLY (no normalisation: it stores the spelling the rebuild produces), the writer up to norm_row *)
Example continuations_agree :
  map ob_out (run cf s0 h2) = map ob_out (run cf s1 h2) /\
  eqb_list (eqb_list eqb_entry) (map ob_view (run cf s0 h2)) (map ob_view (run cf s1 h2)) = true /\
  map ob_blocks (run cf s0 h2) = map ob_blocks (run cf s1 h2) /\
  exact_all cf s0 h2 = true /\ rows_norm_all cf s1 h2 = true.
Proof. vm_compute. repeat split; reflexivity. Qed.

(* ... but the ROWS of the two continuations are not related by norm_row: the records the rebuilt instance writes for
   Move carry the stored (relative) spelling in STFS.ReplacesName, which ends up in the pax column.  An invariant for
   the continuation from a rebuilt index has to relate tapes and rows up to this spelling as well. *)
Definition unpax (r : row) : row :=
  {| r_name := r_name r; r_link := r_link r; r_tf := r_tf r; r_size := r_size r; r_mode := r_mode r;
     r_uid := r_uid r; r_gid := r_gid r; r_uname := r_uname r; r_gname := r_gname r;
     r_mtime := r_mtime r; r_atime := r_atime r; r_ctime := r_ctime r;
     r_rec := r_rec r; r_blk := r_blk r; r_lkrec := r_lkrec r; r_lkblk := r_lkblk r; r_del := r_del r; r_pax := [] |}.
Example continuation_rows_differ_in_pax_only :
  eqb_list eqb_row (map norm_row (rows (db (final cf s1 h2)))) (rows (db (final cf s0 h2))) = false /\
  eqb_list eqb_row (map unpax (map norm_row (rows (db (final cf s1 h2))))) (map unpax (rows (db (final cf s0 h2)))) = true /\
  root (db (final cf s0 h2)) = [] /\ root_empty (db (final cf s0 h2)) = true /\
  map r_name (rows (db (final cf s0 h2))) = [s ""; s "c"; s "c/d/h"; s "c/d"; s "c/d/g"; s "x"; s "q"; s "q/z"; s "x/y/w"].
Proof. vm_compute. repeat split; reflexivity. Qed.

(* ---------- T05Strong.T05_failed_call_appends_nothing on this history (a test of the statement): Mkdir below a missing
   parent answers ONotExist -- an outcome a failing replay could give as well -- and the theorem concludes that
   nothing was appended *)
From STFS Require Import T05Strong.
Example demo_failed_mkdir :
  let k := CMkdir (s "/nope/x") 493 in
  snd (step cf (with_env s1 (e0 9)) k) = ONotExist /\ tp (fst (step cf (with_env s1 (e0 9)) k)) = tp s1.
Proof.
  cbn zeta. split; [vm_compute; reflexivity|].
  apply (T05_failed_call_appends_nothing cf (e0 1) r1 (CMkdir (s "/nope/x") 493) (e0 9)); try reflexivity.
  vm_compute. discriminate.
Qed.
