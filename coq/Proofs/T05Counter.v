(* T05: compiled corners of the C05 statements (Proofs/T05Shape.v, T05Blocks.v, T05Hb.v, T05Refuse.v).
   Every example is closed by computation on the executable model. *)
From Coq Require Import String List NArith ZArith Bool.
Import ListNotations.
From STFS Require Import Str Db Tape Index Ops Fs Diff Prefix T05Shape T05Blocks T05Hb T05Refuse.
Open Scope string_scope.
Open Scope N_scope.

Definition e0 (n : Z) : env := {| ev_hb := []; ev_enc := []; ev_now := n |}.
Definition cf : cfg :=
  {| c_rs := 3; c_csuf := []; c_esuf := []; c_readonly := false; c_uid := 0; c_gid := 0;
     c_uname := s "root"; c_gname := s "0" |}.
Definition cf_ro : cfg :=
  {| c_rs := 3; c_csuf := []; c_esuf := []; c_readonly := true; c_uid := 0; c_gid := 0;
     c_uname := s "root"; c_gname := s "0" |}.
Definition fileh (n : string) (sz : N) (px : pax) : hdr :=
  {| h_tf := 48; h_name := s n; h_link := []; h_size := sz; h_mode := 420; h_uid := 0; h_gid := 0;
     h_uname := []; h_gname := []; h_mtime := 0%Z; h_atime := 0%Z; h_ctime := 0%Z; h_pax := px |}.

(* outcome and tape length (blocks) after each call *)
Definition trace (c : cfg) (h : list (call * env)) : list (outc * N) :=
  map (fun o => (ob_out o, ob_blocks o)) (run c init_sys h).

(* ---------- calls that append although they do not return OOk *)

(* (1) MkdirAll checks each component after creating the previous one: "/a" is created (5 blocks appended), then "/a/b"
       turns out to be a regular file.  (The orphan "/a/b" comes from an operation-level Archive; filesystem-level histories
       keep the tree closed, Proofs/T02Spec.v.)  Excluded from T05_refused_precondition_appends_nothing by [checks_first]. *)
Definition h_mkdirall : list (call * env) :=
  [(CInitialize (s "/"), e0 1); (CArchive [{| f_hdr := fileh "/a/b" 0 []; f_data := [] |}], e0 2);
   (CMkdirAll (s "/a/b/c") 493, e0 3)].
Example mkdirall_appends_then_refuses : trace cf h_mkdirall = [(OOk, 5); (OOk, 10); (OIsFile, 15)].
Proof. vm_compute. reflexivity. Qed.

(* (2) OpenFile(O_CREATE|O_RDONLY) creates the entry (5 blocks appended), the Write on the handle is then refused *)
Definition h_writefile : list (call * env) :=
  [(CInitialize (s "/"), e0 1);
   (CWriteFile (s "/f") {| o_acc := 0; o_append := false; o_create := true; o_excl := false; o_trunc := false |} 420 [(1, 0, 5)] false, e0 2)].
Example writefile_creates_then_refuses : trace cf h_writefile = [(OOk, 5); (OPerm, 10)].
Proof. vm_compute. reflexivity. Qed.

(* (3) a call that writes once and whose REPLAY fails: the archive is on the tape, the outcome is the replay's
       (T05_failed_after_write_is_replay_failure, second disjunct).  (a) an operation-level Archive of a header with an
       unknown STFS.Version; (b) a filesystem-level Mkdir after a RemoveAll whose two records had empty header groups
       (header-block counts of 0: the records share a start block, the next replay is handed one header too few) *)
Definition h_version : list (call * env) :=
  [(CInitialize (s "/"), e0 1); (CArchive [{| f_hdr := fileh "/x" 0 [(K_version, s "2")]; f_data := [] |}], e0 2)].
Example archive_written_replay_fails : trace cf h_version = [(OOk, 5); (OOther 111, 10)].
Proof. vm_compute. reflexivity. Qed.

Definition ez (n : Z) : env := {| ev_hb := [0; 0; 0; 0]; ev_enc := []; ev_now := n |}.
Definition h_zero : list (call * env) :=
  [(CInitialize (s "/"), e0 1); (CMkdir (s "/a") 493, e0 2); (CMkdir (s "/a/b") 493, e0 2); (CRemoveAll (s "/a"), ez 3);
   (CMkdir (s "/c") 493, e0 4)].
Example mkdir_written_replay_fails : trace cf h_zero = [(OOk, 5); (OOk, 10); (OOk, 15); (OOk, 17); (OOther 113, 22)].
Proof. vm_compute. reflexivity. Qed.

(* the shape theorem holds on these tapes all the same (it has no hypothesis): *)
Example zero_tape_is_archives :
  option_map (map (@List.length member)) (parse (tp (final cf init_sys h_zero)) []) = Some [1; 1; 1; 2; 1]%nat.
Proof. vm_compute. reflexivity. Qed.

(* ---------- positions need non-empty header groups (hypothesis [hb_pos] / [hb_ok] of T05_position_designates,
              T05_members_at_their_positions): on the tape of [h_zero] the two records of RemoveAll start at block 15,
              and the position of the second one, "/a/b", designates the first one, "/a" *)
Example zero_headers_share_a_position :
  let t := tp (final cf init_sys h_zero) in
  map fst (all_members t) = [0; 5; 10; 15; 15; 17] /\
  map (fun p => h_name (m_hdr (snd p))) (all_members t) = [s "/"; s "/a"; s "/a/b"; s "/a"; s "/a/b"; s "/c"] /\
  map (fun p => option_map (fun m => h_name (m_hdr m)) (member_at t (fst p))) (all_members t)
    = [Some (s "/"); Some (s "/a"); Some (s "/a/b"); Some (s "/a"); Some (s "/a"); Some (s "/c")] /\
  forallb hb_ok h_zero = false.
Proof. vm_compute. repeat split; reflexivity. Qed.

(* ---------- read-only: the operation-level Update / Delete / Move are not guarded in the model ([guarded] of
              T05_readonly_appends_nothing excludes them): a Delete on a read-only configuration appends *)
Example readonly_operation_level_appends :
  let s1 := final cf init_sys [(CInitialize (s "/"), e0 1); (CMkdir (s "/a") 493, e0 2)] in
  tape_blocks (tp s1) = 10 /\ snd (step cf_ro s1 (CDelete (s "/a"))) = OOk /\
  tape_blocks (tp (fst (step cf_ro s1 (CDelete (s "/a"))))) = 15.
Proof. vm_compute. repeat split; reflexivity. Qed.

(* ---------- the size written by a flush: [decimal] has 40 digits, larger contents are still flushed (no failing flush
              exists in the model: it has no I/O errors, and after a successful create the replay of the flush starts at
              the created record) *)
Example huge_flush_succeeds :
  map fst (trace cf [(CInitialize (s "/"), e0 1); (CCreateFile (s "/f") [(1, 0, 10 ^ 40)], e0 2)]) = [OOk; OOk].
Proof. vm_compute. reflexivity. Qed.
