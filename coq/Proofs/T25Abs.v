(* T25 / Abs: the transfer of the C13, C02 and C04 statements along the simulation of T19, for ANY configuration
   ([SimC c sa sr] of Proofs/T19Cfg.v; for a plain configuration it is [Sim c sa sr]: SimC_plain).
   [sa] is the writer (or writer twin), [sr] the instance that continues from a rebuilt index / the opened archive.
   - T25_C13_rd            : tree, listing, walk on the READER's index and calls (Proofs/T25Core.v) from [wf_tree (db sa)];
   - [abs_rd sr]           : the reader's abstract namespace with its names spelled absolutely; it IS the writer's
                             (abs_rd_eq), so the reference of C02 can be run on the reader's own namespace:
     T25_ok_run_rd, T25_conforms_rd : the preconditions and the conformance of a history, stated on the reader alone,
                             are those of the writer; every call of the reader returns the reference's outcome and
                             leaves the reference's namespace;
   - T25_content_rd        : a read through the reader (either spelling of the name) returns what the writer returns;
     T25_last_written_rd   : the ghost map "last written" computed along the reader's run is the writer's;
     T25_read_is_last_written_rd : after any further history the reader reads what was last written. *)
From Coq Require Import List NArith ZArith Bool Lia.
From Coq Require Import ZifyN ZifyBool.
Import ListNotations.
From STFS Require Import Str Db Tape Index Ops Fs File Diff Norm StrLemmas C01Str C01Db C01Inv C01Sim C01Ops C01Fs2 C01Rows
  T02Ns T02Spec T04Def T04Content T13Def T13View
  TcfgSim TcfgFs TcfgHist TcfgT02 TcfgT04
  T19Rel T19Base T19Db T19Reads T19Main T19Cfg T25Core.
From STFS Require T13List T13ListStr T04View T20Abs T20Good.
Open Scope N_scope.

(* ---------- what SimC gives about the two states *)
Lemma SimC_PR c sa sr : SimC c sa sr -> PR (db sa) (db sr).
Proof. intro H. exact (Sim_PR _ _ _ H). Qed.

Lemma SimC_tape c sa sr : SimC c sa sr -> tape_rel (efft c (tp sa)) (efft c (tp sr)).
Proof. intros (_ & HR & _). exact (R_tp _ _ HR). Qed.

Lemma SimC_rows c sa sr : SimC c sa sr -> rows_rel (rows (db sa)) (rows (db sr)).
Proof. intro H. exact (pr_rows _ _ (PR_rel _ _ (SimC_PR c sa sr H))). Qed.

(* ---------- C13 on the reader *)
Lemma ent_rd_Pl c s r : ent_rd (plain_of c) (Pl c s) r = ent_rd c s r.
Proof. unfold ent_rd. apply entry_of_Pl. Qed.

Theorem T25_C13_rd : forall c sa sr, SimC c sa sr -> wf_tree (db sa) -> idx_plain (db sa) ->
  (* the reader's live rows form a tree, in the relative spelling *)
  wf_tree_rel (db sr) /\
  (* every directory listing, asked with either spelling of the directory, is exactly the live rows directly below it *)
  (forall d nr, good d -> nrel d nr ->
    exists l, snd (get_direct_children (db sr) nr None) = Ok l /\
      l = filter (childp_rel d) (rows (db sr)) /\
      NoDup (map r_name l) /\
      (forall x, In x l <-> (In x (lrows (db sr)) /\ r_name x <> [] /\ path_dir (slash :: r_name x) = d)) /\
      (forall k lk, snd (get_direct_children (db sr) nr (Some k)) = Ok lk -> exists j, (j <= k)%nat /\ lk = firstn j l) /\
      rows_rel (filter (T13ListStr.childp d) (rows (db sa))) l /\
      snd (inv_list (db sr) nr None) = Ok (map hdr_of_row l)) /\
  (* the walk shows the writer's tree: exactly the live rows of the reader's index, each once *)
  view c sr = view c sa /\
  (exists l, view c sr = map (ent_rd c sr) l /\ NoDup l /\
     forall x, In x l <-> (In x (lrows (db sr)) /\ slash_count (slash :: r_name x) <= 16)).
Proof.
  intros c sa sr H W I. pose proof (SimC_PR c sa sr H) as HP. split; [|split].
  - exact (T25_tree_rd _ _ (SimC_rows c sa sr H) W).
  - intros d nr G Hn. exact (T25_listing_rd (db sa) (db sr) d nr HP G Hn).
  - destruct (T25_walk_rd (plain_of c) (Pl c sa) (Pl c sr) HP (SimC_tape c sa sr H) W I) as (Ev & l & El & Hnd & Hl).
    rewrite !view_Pl in Ev. split; [exact Ev|]. exists l. split; [|split; [exact Hnd|exact Hl]].
    rewrite view_Pl in El. rewrite El. apply map_ext. intro r. apply ent_rd_Pl.
Qed.

(* ---------- the reader's namespace, names spelled absolutely *)
Definition abs_rd (s : sys) : ns := map (fun e => (slash :: fst e, snd e)) (abs s).

Lemma abs_rd_eq sa sr : rows_rel (rows (db sa)) (rows (db sr)) -> abs_rd sr = abs sa.
Proof.
  unfold abs_rd, abs, absp. intro H. rewrite map_map. cbn [fst snd].
  induction H as [|a r la lr Har _ IH]; [reflexivity|]. cbn [filter]. rewrite (rowrel_live a r Har).
  destruct (live a); [|exact IH]. cbn [map]. rewrite IH, (T20Abs.node_of_rel a r Har), <- (rowrel_abs_name a r Har). reflexivity.
Qed.

(* the lookup of a name in the reader's own namespace (relative spelling) *)
Lemma lookup_abs_rd s n : lookup (abs_rd s) (slash :: n) = lookup (abs s) n.
Proof.
  unfold abs_rd. induction (abs s) as [|e a IH]; [reflexivity|]. cbn [map]. rewrite !lookup_cons. cbn [fst snd].
  change (eqb_str (slash :: fst e) (slash :: n)) with ((slash =? slash) && eqb_str (fst e) n).
  rewrite N.eqb_refl. cbn [andb]. destruct (eqb_str (fst e) n); [reflexivity|exact IH].
Qed.

(* preconditions and conformance of a history, stated on the reader alone *)
Fixpoint ok_run_rd (c : cfg) (s : sys) (r : list (call * env)) : Prop :=
  match r with
  | [] => True
  | (k, e) :: r' => hb_env e /\ call_pre (abs_rd s) k /\ ok_run_rd c (fst (step c (with_env s e) k)) r'
  end.

Fixpoint conforms_rd (c : cfg) (s : sys) (r : list (call * env)) : Prop :=
  match r with
  | [] => True
  | (k, e) :: r' =>
    let '(s', o) := step c (with_env s e) k in
    (exists cid sp, spec_call c (abs_rd s) k (ev_now e) cid = Some sp /\ o = snd sp /\ ns_eq (abs_rd s') (fst sp)) /\
    conforms_rd c s' r'
  end.

Section Any.
Variable c : cfg.
Hypothesis Hrs : 0 < c_rs c.
Hypothesis Hro : c_readonly c = false.

Lemma pre_step sa sr k e : SimC c sa sr -> hb_env e -> call_pre (abs sa) k ->
  snd (step c (with_env sr e) k) = snd (step c (with_env sa e) k) /\
  SimC c (fst (step c (with_env sa e) k)) (fst (step c (with_env sr e) k)).
Proof.
  intros H Hb Hp. destruct (T20Good.call_pre_fs _ _ Hp) as (A & B).
  apply (T19_step_sim_any_config c Hrs Hro sa sr k e H A B). unfold hb_ok. cbn [snd]. exact Hb.
Qed.

Theorem T25_ok_run_rd : forall r sa sr, SimC c sa sr -> (ok_run_rd c sr r <-> ok_run c sa r).
Proof.
  induction r as [|[k e] r IH]; intros sa sr H; cbn [ok_run_rd ok_run]; [tauto|].
  rewrite (abs_rd_eq sa sr (SimC_rows c sa sr H)).
  split; intros (Hb & Hp & Hr); (split; [exact Hb|split; [exact Hp|]]);
    destruct (pre_step sa sr k e H Hb Hp) as (_ & H'); apply (IH _ _ H'); exact Hr.
Qed.

Theorem T25_conforms_rd : forall r sa sr, SimC c sa sr -> ok_run c sa r -> conforms c sa r ->
  conforms_rd c sr r /\ map ob_out (run c sr r) = map ob_out (run c sa r) /\ SimC c (final c sa r) (final c sr r).
Proof.
  induction r as [|[k e] r IH]; intros sa sr H Hok Hc; cbn [conforms_rd conforms ok_run run final map] in *; [split; [exact I|split; [reflexivity|exact H]]|].
  destruct Hok as (Hb & Hp & Hr). destruct (pre_step sa sr k e H Hb Hp) as (Eo & H').
  rewrite (abs_rd_eq sa sr (SimC_rows c sa sr H)).
  destruct (step c (with_env sa e) k) as [sa' oa]. destruct (step c (with_env sr e) k) as [sr' or_]. cbn [fst snd] in *. subst or_.
  destruct Hc as ((cid & sp & E1 & E2 & E3) & Hc). destruct (IH sa' sr' H' Hr Hc) as (A & B & C).
  split; [split; [|exact A]|split; [|exact C]].
  - exists cid, sp. split; [exact E1|]. split; [exact E2|]. rewrite (abs_rd_eq sa' sr' (SimC_rows c sa' sr' H')). exact E3.
  - cbn [map ob_out observe]. rewrite B. reflexivity.
Qed.

(* the reference run on the reader: from a [Good] writer state *)
Corollary T25_history_rd : forall hr r sa sr, SimC c sa sr -> Good hr c sa -> ok_run_rd c sr r ->
  conforms_rd c sr r /\ map ob_out (run c sr r) = map ob_out (run c sa r) /\
  SimC c (final c sa r) (final c sr r) /\ Good hr c (final c sa r).
Proof.
  intros hr r sa sr H HG Hok. apply (T25_ok_run_rd r sa sr H) in Hok.
  destruct (T02_history_any_config hr c Hrs Hro r sa HG Hok) as (A & B).
  destruct (T25_conforms_rd r sa sr H Hok A) as (X & Y & Z). split; [exact X|]. split; [exact Y|]. split; [exact Z|exact B].
Qed.

(* ---------- contents *)
Lemma content_of_sim c0 sa sr g nr : PR (db sa) (db sr) -> tape_rel (tp sa) (tp sr) -> good g -> nrel g nr ->
  content_of c0 sr nr = content_of c0 sa g.
Proof.
  intros H Ht G Hn. unfold content_of.
  destruct (stat_false_sim sa sr g nr H G Hn) as (pr' & rr & Ea & Er & _ & HR). rewrite Ea, Er.
  pose proof (read_path_sim c0 sa sr g nr H Ht G Hn) as K.
  destruct (find_rows (rows (db sa)) g) as [d|]; inversion HR as [? hr Hh| | |]; subst; [|reflexivity].
  rewrite (hr_tf _ _ Hh). destruct (tf_regular (h_tf (hdr_of_row d))); [|reflexivity].
  destruct (read_path c0 sr nr) as [x1 y1]. destruct (read_path c0 sa g) as [x2 y2]. cbn [snd] in K. subst y1. reflexivity.
Qed.

Theorem T25_content_rd : forall sa sr g nr, SimC c sa sr -> good g -> nrel g nr -> content_of c sr nr = content_of c sa g.
Proof.
  intros sa sr g nr H G Hn. rewrite <- (content_of_Pl c sr nr), <- (content_of_Pl c sa g).
  apply content_of_sim; [exact (SimC_PR c sa sr H)|exact (SimC_tape c sa sr H)|exact G|exact Hn].
Qed.

Theorem T25_last_written_rd : forall r sa sr w, SimC c sa sr ->
  forallb (fun ke => fs_call (fst ke)) r = true -> forallb (fun ke => call_ok (fst ke)) r = true -> forallb hb_ok r = true ->
  last_written c sr r w = last_written c sa r w.
Proof.
  induction r as [|[k e] r IH]; intros sa sr w H H1 H2 H3; cbn [last_written]; [reflexivity|].
  cbn [forallb fst] in H1, H2, H3. apply andb_true_iff in H1 as [K1 H1]. apply andb_true_iff in H2 as [K2 H2]. apply andb_true_iff in H3 as [K3 H3].
  destruct (T19_step_sim_any_config c Hrs Hro sa sr k e H K1 K2 K3) as (Eo & H').
  destruct (step c (with_env sa e) k) as [sa' oa]. destruct (step c (with_env sr e) k) as [sr' or_]. cbn [fst snd] in *. subst or_.
  apply IH; assumption.
Qed.

(* the member a position designates: same position on the reader's tape, a content record of the same size with the
   same bytes *)
Lemma icr_mrel ma mr size : mrel ma mr -> is_content_record ma size -> is_content_record mr size.
Proof.
  intros [Hh _ Hd _] (A & B & C). unfold is_content_record, T02Db.hsize, mdata in *.
  rewrite (hr_tf _ _ Hh), (hr_size _ _ Hh), Hd. rewrite (pax_get_rel K_usize _ _ (hr_pax _ _ Hh)) by discriminate.
  repeat split; assumption.
Qed.

Theorem T25_member_rd : forall sa sr, SimC c sa sr -> forall a x ma size, rowrel a x ->
  member_at (tp sa) (off_of (c_rs c) (r_rec a) (r_blk a)) = Some ma -> is_content_record ma size ->
  exists mr, member_at (tp sr) (off_of (c_rs c) (r_rec x) (r_blk x)) = Some mr /\ is_content_record mr size /\ m_data mr = m_data ma.
Proof.
  intros sa sr H a x ma size Hax Hma Hrec. rewrite (rr_rec _ _ Hax), (rr_blk _ _ Hax).
  pose proof (member_at_rel _ _ (off_of (c_rs c) (r_rec a) (r_blk a)) (SimC_tape c sa sr H)) as K.
  rewrite !member_at_efft, Hma in K. cbn [option_map] in K.
  destruct (member_at (tp sr) (off_of (c_rs c) (r_rec a) (r_blk a))) as [mr|]; cbn [option_map] in K; [|contradiction].
  exists mr. split; [reflexivity|]. split.
  - apply (is_content_record_effm c). apply (icr_mrel _ _ size K). apply (is_content_record_effm c). exact Hrec.
  - exact (mr_data _ _ K).
Qed.

(* T04's preconditions give the side conditions of the simulation as soon as Initialize is only called with "/" *)
Lemma call_pre4_ok hr k : call_pre4 hr k -> call_ok k = true.
Proof.
  unfold call_ok. destruct k; cbn [call_pre4 rename_ok root_kept]; try reflexivity; try contradiction.
  - intros (G & Hn). rewrite (path_clean_good n G). apply negb_true_iff. apply eqb_str_neq. exact Hn.
  - intros (G & Hn). rewrite (path_clean_good n G). apply negb_true_iff. apply eqb_str_neq. exact Hn.
  - intros (Ga & Gb & Hn). rewrite (path_clean_good b Gb). rewrite andb_true_r. apply negb_true_iff. apply eqb_str_neq. exact Hn.
Qed.

Lemma ok_run4_hyps hr r : ok_run4 hr r -> forallb (fun ke => call_ok (fst ke)) r = true /\ forallb hb_ok r = true.
Proof.
  induction r as [|[k e] r IH]; cbn [ok_run4 forallb fst]; [split; reflexivity|].
  intros (Hb & Hp & Hr). destruct (IH Hr) as (A & B). rewrite A, B, (call_pre4_ok hr k Hp). unfold hb_ok at 1. cbn [snd].
  unfold hb_env in Hb. rewrite Hb. split; reflexivity.
Qed.

(* after any further history that meets T04's preconditions, a read through the reader - with either spelling of the
   name - returns what was last written under that name; [w] is what had been written when the reader took over *)
Theorem T25_read_is_last_written_rd : forall r sa sr w, SimC c sa sr -> Good4 true c sa ->
  (forall m, good m -> content_eq (content_of c sa m) (w m)) ->
  ok_run4 true r -> forallb (fun ke => fs_call (fst ke)) r = true ->
  SimC c (final c sa r) (final c sr r) /\ Good4 true c (final c sa r) /\
  (forall m nr, good m -> nrel m nr -> content_eq (content_of c (final c sr r) nr) (last_written c sr r w m)) /\
  (forall e, In e (view c (final c sr r)) -> content_eq (e_data e) (last_written c sr r w (e_path e))).
Proof.
  intros r sa sr w H H4 Hw Hok Hfs. destruct (ok_run4_hyps true r Hok) as (Hcok & Hhb).
  destruct (T19_run_sim_any_config c Hrs Hro r sa sr H Hfs Hcok Hhb) as (_ & H').
  destruct (T04_history_any_config true c Hrs Hro r sa w H4 Hok Hw) as (H4' & Hc).
  rewrite (T25_last_written_rd r sa sr w H Hfs Hcok Hhb).
  split; [exact H'|]. split; [exact H4'|]. split.
  - intros m nr G Hn. rewrite (T25_content_rd _ _ m nr H' G Hn). apply Hc. exact G.
  - intros e He. rewrite (T19_view_sim_any_config c _ _ H') in He.
    pose proof (g4_good _ _ _ H4') as HG.
    rewrite (T04View.T04_view_data true c _ HG e He). apply Hc.
    destruct (T04View.Good_wf_tree true c _ HG) as (W & Ip).
    destruct (T13_view_exact c _ W Ip) as (l & Ev & _ & Hl). rewrite Ev in He. apply in_map_iff in He as (x & <- & Hx).
    apply Hl in Hx as (Hx & _). rewrite ent_path. destruct W as (_ & _ & W3). apply W3. exact Hx.
Qed.
End Any.
