(* T13 / type maps: preservation of the parent condition [wfm] by the four kinds of change a write makes
   to the live rows: set one name (create / update), remove a closed set of names (delete),
   re-root a subtree (move).  Pure reasoning on maps str -> option N and component lists. *)
From Coq Require Import List NArith ZArith Bool Lia.
From Coq Require Import ZifyN ZifyBool.
Import ListNotations.
From STFS Require Import Str Db Norm C01Str T13Path T13Def.
Open Scope N_scope.

(* ---------- set one name *)
Lemma wfm_set f g n t : wfm f -> good n ->
  (n = [slash] \/ f (path_dir n) = Some TypeDir) ->
  (f n = Some TypeDir -> t = TypeDir) ->
  (forall m, g m = if eqb_str m n then Some t else f m) -> wfm g.
Proof.
  intros Hw G Hpar Ht Hg cs c Hcs Hc Hl.
  assert (F : Forall okc (cs ++ [c])) by (apply Forall_app; split; [exact Hcs|constructor; [exact Hc|constructor]]).
  rewrite Hg in Hl. rewrite (Hg (pth cs)).
  destruct (eqb_str (pth (cs ++ [c])) n) eqn:E1.
  - apply eqb_str_eq in E1.
    assert (Hnr : n <> [slash]).
    { rewrite <- E1. intro K. apply pth_root_iff in K; [destruct cs; discriminate|exact F]. }
    destruct Hpar as [K|K]; [contradiction|].
    rewrite <- E1 in K. rewrite path_dir_pth in K by assumption.
    destruct (eqb_str (pth cs) n) eqn:E2; [|exact K].
    apply eqb_str_eq in E2. rewrite <- E2 in E1. apply pth_inj in E1; [|exact F|exact Hcs].
    exfalso. apply (f_equal (@length str)) in E1. rewrite app_length in E1. cbn in E1. lia.
  - pose proof (Hw cs c Hcs Hc Hl) as K.
    destruct (eqb_str (pth cs) n) eqn:E2; [|exact K].
    apply eqb_str_eq in E2. rewrite E2 in K. rewrite (Ht K). reflexivity.
Qed.

(* ---------- remove a set of names closed under live children *)
Lemma wfm_remove f g (D : str -> Prop) : wfm f ->
  (forall m, D m -> g m = None) -> (forall m, ~ D m -> g m = f m) ->
  (forall m, D m \/ ~ D m) ->
  (forall cs c, Forall okc cs -> okc c -> D (pth cs) -> f (pth (cs ++ [c])) <> None -> D (pth (cs ++ [c]))) ->
  wfm g.
Proof.
  intros Hw HD HN Hdec Hcl cs c Hcs Hc Hl.
  destruct (Hdec (pth (cs ++ [c]))) as [K|K]; [rewrite (HD _ K) in Hl; contradiction|].
  rewrite (HN _ K) in Hl.
  destruct (Hdec (pth cs)) as [K2|K2].
  - exfalso. apply K. apply Hcl; assumption.
  - rewrite (HN _ K2). apply Hw with (c := c); assumption.
Qed.

(* ---------- a fold of removals *)
Definition rm_step (f : str -> option N) (n : str) : str -> option N :=
  fun m => if eqb_str m n then None else f m.

Lemma fold_rm names : forall f m,
  fold_left rm_step names f m = if existsb (eqb_str m) names then None else f m.
Proof.
  induction names as [|n names IH]; intros f m; cbn [fold_left existsb]; [reflexivity|].
  rewrite IH. unfold rm_step. destruct (eqb_str m n); cbn [orb]; [|reflexivity].
  destruct (existsb (eqb_str m) names); reflexivity.
Qed.

(* ---------- a fold of renames *)
Definition mv_step (f : str -> option N) (x : str * str * N) : str -> option N :=
  let '(o, n, t) := x in fun m => if eqb_str m n then Some t else if eqb_str m o then None else f m.

Definition olds (L : list (str * str * N)) : list str := map (fun x => fst (fst x)) L.
Definition news (L : list (str * str * N)) : list str := map (fun x => snd (fst x)) L.

Lemma fold_mv_frame L : forall f m, ~ In m (olds L) -> ~ In m (news L) -> fold_left mv_step L f m = f m.
Proof.
  induction L as [|[[o n] t] L IH]; intros f m H1 H2; cbn [fold_left]; [reflexivity|].
  cbn [olds news map fst snd] in H1, H2.
  rewrite IH; [|intro K; apply H1; right; exact K|intro K; apply H2; right; exact K].
  unfold mv_step.
  assert (E1 : eqb_str m n = false) by (apply eqb_str_neq; intro K; apply H2; left; congruence).
  assert (E2 : eqb_str m o = false) by (apply eqb_str_neq; intro K; apply H1; left; congruence).
  rewrite E1, E2. reflexivity.
Qed.

Lemma fold_mv_spec L : forall f, NoDup (olds L) -> NoDup (news L) ->
  (forall o n, In o (olds L) -> In n (news L) -> o <> n) ->
  forall o n t, In (o, n, t) L -> fold_left mv_step L f n = Some t /\ fold_left mv_step L f o = None.
Proof.
  induction L as [|[[o0 n0] t0] L IH]; intros f Ho Hn Hd o n t Hin; [contradiction|].
  cbn [olds news map fst snd] in Ho, Hn, Hd. inversion Ho as [|? ? Ho1 Ho2]; subst. inversion Hn as [|? ? Hn1 Hn2]; subst.
  cbn [fold_left]. destruct Hin as [E|Hin].
  - inversion E; subst o0 n0 t0. split.
    + rewrite fold_mv_frame; [|intro K; apply (Hd n n); [right; exact K|left; reflexivity|reflexivity]|exact Hn1].
      unfold mv_step. rewrite eqb_str_refl. reflexivity.
    + rewrite fold_mv_frame; [|exact Ho1|intro K; apply (Hd o o); [left; reflexivity|right; exact K|reflexivity]].
      unfold mv_step.
      assert (E1 : eqb_str o n = false) by (apply eqb_str_neq; apply Hd; left; reflexivity).
      rewrite E1, eqb_str_refl. reflexivity.
  - apply IH; try assumption. intros o' n' A B. apply Hd; right; assumption.
Qed.

(* ---------- re-rooting a subtree: rows named old ++ rs (rs in R) become new ++ rs *)
Section Move.
Variables (f g : str -> option N) (os ns' : list str) (nc : str) (R : list str -> Prop).
Let ns := ns' ++ [nc].
Hypothesis Hw : wfm f.
Hypothesis Hos : Forall okc os.
Hypothesis Hns' : Forall okc ns'.
Hypothesis Hnc : okc nc.
Hypothesis Rdec : forall rs, R rs \/ ~ R rs.
Hypothesis Rok : forall rs, R rs -> Forall okc rs.
Hypothesis H1 : forall rs, R rs -> g (pth (ns ++ rs)) = f (pth (os ++ rs)) /\ f (pth (os ++ rs)) <> None.
Hypothesis H2 : forall rs, R rs -> g (pth (os ++ rs)) = None.
Hypothesis H3 : forall cs, Forall okc cs ->
  (forall rs, R rs -> cs <> ns ++ rs) -> (forall rs, R rs -> cs <> os ++ rs) -> g (pth cs) = f (pth cs).
Hypothesis H5 : forall rs, Forall okc rs -> f (pth (os ++ rs)) <> None -> R rs.
Hypothesis H6 : f (pth ns) = None.
Hypothesis H7 : f (pth ns') = Some TypeDir.
Hypothesis H8 : forall rs, ns' <> os ++ rs.

Lemma Hns : Forall okc ns.
Proof. apply Forall_app. split; [exact Hns'|constructor; [exact Hnc|constructor]]. Qed.

Lemma below_new_dead rs : Forall okc rs -> f (pth (ns ++ rs)) = None.
Proof.
  intro Hr. destruct rs as [|r0 rt]; [rewrite app_nil_r; exact H6|].
  destruct (f (pth (ns ++ r0 :: rt))) eqn:E; [|reflexivity]. exfalso.
  assert (K : f (pth ns) = Some TypeDir).
  { apply (wfm_ancestor f ns Hw (r0 :: rt)); [apply Forall_app; split; [exact Hns|exact Hr]|discriminate|rewrite E; discriminate]. }
  rewrite H6 in K. discriminate.
Qed.

Lemma Rdec_new cs : (exists rs, R rs /\ cs = ns ++ rs) \/ (forall rs, R rs -> cs <> ns ++ rs).
Proof.
  destruct (prefix_dec ns cs) as [(rs & ->)|H].
  - destruct (Rdec rs) as [K|K]; [left; exists rs; split; [exact K|reflexivity]|].
    right. intros rs' Hr E. apply app_inv_head in E. subst rs'. contradiction.
  - right. intros rs _. apply H.
Qed.

Lemma Rdec_old cs : (exists rs, R rs /\ cs = os ++ rs) \/ (forall rs, R rs -> cs <> os ++ rs).
Proof.
  destruct (prefix_dec os cs) as [(rs & ->)|H].
  - destruct (Rdec rs) as [K|K]; [left; exists rs; split; [exact K|reflexivity]|].
    right. intros rs' Hr E. apply app_inv_head in E. subst rs'. contradiction.
  - right. intros rs _. apply H.
Qed.

Lemma wfm_move : wfm g.
Proof.
  intros cs c Hcs Hc Hl.
  assert (F : Forall okc (cs ++ [c])) by (apply Forall_app; split; [exact Hcs|constructor; [exact Hc|constructor]]).
  destruct (Rdec_new (cs ++ [c])) as [(rs & Hr & E)|HA].
  - (* the entry is a moved one *)
    symmetry in E. apply app_snoc_split in E as [[-> E]|(rs' & -> & ->)].
    + (* the new name itself: its parent is the checked parent of the destination *)
      unfold ns in E. apply app_inj_tail in E as [E _]. subst cs.
      rewrite H3; [exact H7|exact Hns'| |].
      * intros rs _ K. apply (f_equal (@length str)) in K. unfold ns in K. rewrite !app_length in K. cbn in K. lia.
      * intros rs _. apply H8.
    + (* below the new name: the parent is the image of the old parent *)
      destruct (H1 _ Hr) as [_ Hlive].
      pose proof (Rok _ Hr) as Fr. apply Forall_app in Fr as [Fr' _].
      assert (K : f (pth (os ++ rs')) = Some TypeDir).
      { apply Hw with (c := c); [apply Forall_app; split; assumption|exact Hc|]. rewrite <- app_assoc. exact Hlive. }
      assert (Hr' : R rs') by (apply H5; [exact Fr'|rewrite K; discriminate]).
      destruct (H1 _ Hr') as [Eg _]. rewrite Eg. exact K.
  - destruct (Rdec_old (cs ++ [c])) as [(rs & Hr & E)|HB].
    + rewrite E, (H2 _ Hr) in Hl. contradiction.
    + rewrite (H3 _ F HA HB) in Hl.
      pose proof (Hw cs c Hcs Hc Hl) as K.
      rewrite H3; [exact K|exact Hcs| |].
      * intros rs Hr E. subst cs. rewrite below_new_dead in K by (apply Rok; exact Hr). discriminate.
      * intros rs Hr E. subst cs. apply (HB (rs ++ [c])); [|rewrite app_assoc; reflexivity].
        apply H5; [apply Forall_app; split; [apply Rok; exact Hr|constructor; [exact Hc|constructor]]|].
        rewrite app_assoc. exact Hl.
Qed.
End Move.
