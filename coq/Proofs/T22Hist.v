(* T22 / C01 and C07 for histories that MIX the filesystem-level calls with the operation-level calls
   CArchive / CUpdate / CDelete / CMove (batched, successful and failing).

   MAIN RESULTS, for histories  (CInitialize "/", e) :: r  with [ok_hist] (T22Def.v: every operation-level call satisfies
   [op_call_ok] in the state it is issued in; every other call is a filesystem-level call with absolute names that does not
   remove / rename onto the root):
   - [T22_rows_norm]          C01: the rows of a rebuild of the tape are the normalised rows of the running index
                              (same order, same positions, tombstones included);
   - [T22_replay_converges]   C07: replaying the whole tape into the index of its first j records (any j) succeeds and
                              yields the visible rows of the rebuild;
   - [T22_replay_idempotent], [T22_rebuild_ok];
   - [..._any_config]         the same for arbitrary codec suffixes and encoded sizes (through Tcfg: the run under c is the run
                              under [plain_of c] on the image tape, for EVERY call of the alphabet).
   HYPOTHESES: 0 < c_rs c, c_readonly c = false, [hb_ok] (header block counts >= 1), [ok_hist]; plain configuration for the
   first group only.  The filesystem-only theorems (C01_rows_norm_root_kept, T07_replay_converges) are the instances without
   operation-level calls ([ok_hist_of_fs]). *)
From Coq Require Import List NArith ZArith Bool Lia.
From Coq Require Import ZifyN ZifyBool.
Import ListNotations.
From STFS Require Import Str Db Tape Index Ops Fs Diff Prefix Replay Norm TapeLemmas
  C01Str C01Db C01Inv C01Sim C01Tape C01Hdr C01Ops C01Ops2 C01Reads C01Fs C01Fs2 C01Rows
  T07Order T07Look T07Core T07Sim T07Inv T07Fs T07Replay
  TcfgSim TcfgOps TcfgFs TcfgHist TcfgThms
  T22Def T22Append T22Ops T22Step.
Open Scope N_scope.

Lemma call_ok22_env s e k : call_ok22 (with_env s e) k = call_ok22 s k.
Proof. unfold call_ok22. rewrite op_call_ok_env. reflexivity. Qed.

Section Hist.
Variable c : cfg.
Hypothesis HP : plain c.
Hypothesis Hrs : 0 < c_rs c.
Hypothesis Hro : c_readonly c = false.

Lemma final_ok22 r : forall s, OKs2 c s -> forallb hb_ok r = true -> ok_hist c s r = true -> OKs2 c (final c s r).
Proof.
  induction r as [|[k e] r IH]; intros s HO H3 H1; cbn [final]; [exact HO|].
  cbn [forallb ok_hist] in H1, H3.
  apply andb_true_iff in H1 as [K1 H1]. apply andb_true_iff in H3 as [K3 H3].
  assert (HO' : OKs2 c (with_env s e)).
  { destruct HO as (HI & Hb & HT). split; [eapply Inv_ext; [| |exact HI]; reflexivity|].
    split; [apply (hbok_env c Hrs); exact K3|eapply TWs_ext; [| |exact HT]; reflexivity]. }
  rewrite <- (call_ok22_env s e k) in K1.
  destruct (mixed_step_ok2 c HP Hrs Hro (with_env s e) k HO' K1) as (s' & o & E & A).
  rewrite E in H1 |- *. cbn [fst] in *. apply IH; assumption.
Qed.
End Hist.

(* the state after any such history satisfies the C01 invariant and the T07 tape invariant *)
Theorem T22_history_inv : forall c e r,
  0 < c_rs c -> c_readonly c = false -> c_csuf c = [] -> c_esuf c = [] ->
  forallb hb_ok ((CInitialize [slash], e) :: r) = true ->
  ok_hist c init_sys ((CInitialize [slash], e) :: r) = true ->
  let s := final c init_sys ((CInitialize [slash], e) :: r) in
  Inv true c s /\ TW c (hdrs (tp s)) /\ loop0 c (hdrs (tp s)) p_live0 = (db s, Ok tt).
Proof.
  intros c e r Hrs Hro Hc He Hhb Hok. cbn zeta. cbn [final].
  cbn [forallb] in Hhb. apply andb_true_iff in Hhb as [Hb0 Hb].
  cbn [ok_hist] in Hok. apply andb_true_iff in Hok as [_ Hok].
  assert (HP : plain c) by (split; assumption).
  pose proof (init_ok2 c Hrs Hro e Hb0) as H0.
  pose proof (final_ok22 c HP Hrs Hro r _ H0 Hb Hok) as (HI & _ & HT). split; [exact HI|exact HT].
Qed.

(* ---------- C01 *)
Theorem T22_rows_norm : forall c e r,
  0 < c_rs c -> c_readonly c = false -> c_csuf c = [] -> c_esuf c = [] ->
  forallb hb_ok ((CInitialize [slash], e) :: r) = true ->
  ok_hist c init_sys ((CInitialize [slash], e) :: r) = true ->
  let s := final c init_sys ((CInitialize [slash], e) :: r) in
  exists p, rebuild c (tp s) = (p, Ok tt) /\ rows p = map norm_row (rows (db s)).
Proof.
  intros c e r Hrs Hro Hc He Hhb Hok. cbn zeta.
  destruct (T22_history_inv c e r Hrs Hro Hc He Hhb Hok) as (HI & _).
  destruct (iv_reb true c _ HI) as (rb & E & HR). exists rb. split; [exact E|]. apply HR.
Qed.

(* ---------- C07 *)
Section Main.
Variables (c : cfg) (e : env) (r : list (call * env)).
Hypothesis Hrs : 0 < c_rs c.
Hypothesis Hro : c_readonly c = false.
Hypothesis Hc : c_csuf c = [].
Hypothesis He : c_esuf c = [].
Hypothesis Hhb : forallb hb_ok ((CInitialize [slash], e) :: r) = true.
Hypothesis Hok : ok_hist c init_sys ((CInitialize [slash], e) :: r) = true.

Let t := tp (final c init_sys ((CInitialize [slash], e) :: r)).

Lemma main_facts22 j :
  exists p rb lvp, replay_into c t (prefix_index c t j) = (p, Ok tt) /\ rebuild c t = (rb, Ok tt) /\
    visible p = visible rb /\ LI true lvp /\ R lvp p /\ covered (hdrs t) lvp /\ TW c (hdrs t).
Proof.
  assert (HP : plain c) by (split; assumption).
  destruct (T22_history_inv c e r Hrs Hro Hc He Hhb Hok) as (_ & HT & _). fold t in HT.
  destruct (hdrs_converge c (hdrs t) j HP HT) as (Pj & p & rb & lvp & A & B & C & D & E).
  exists p, rb, lvp. rewrite prefix_index_loop, A. cbn [fst]. rewrite replay_into_loop, rebuild_hdrs.
  split; [exact B|]. split; [exact C|]. split; [exact D|]. destruct E as (E1 & E2 & E3). split; [exact E1|]. split; [exact E2|]. split; [exact E3|exact HT].
Qed.

Theorem T22_rebuild_ok_ : res_ok (snd (rebuild c t)) = true.
Proof. destruct (main_facts22 0) as (p & rb & lvp & _ & B & _). rewrite B. reflexivity. Qed.

Theorem T22_replay_converges_ j :
  let '(p, rr) := replay_into c t (prefix_index c t j) in
  res_ok rr = true /\ eqb_list eqb_row (visible p) (visible (fst (rebuild c t))) = true.
Proof.
  destruct (main_facts22 j) as (p & rb & lvp & A & B & C & _). rewrite A, B. cbn [fst].
  split; [reflexivity|]. rewrite C. apply eqb_list_row_refl.
Qed.

Theorem T22_replay_idempotent_ j :
  let p1 := fst (replay_into c t (prefix_index c t j)) in
  let '(p2, r2) := replay_into c t p1 in
  res_ok r2 = true /\ eqb_list eqb_row (visible p2) (visible p1) = true.
Proof.
  assert (HP : plain c) by (split; assumption).
  destruct (main_facts22 j) as (p & rb & lvp & A & B & C & D1 & D2 & D3 & HT). rewrite A. cbn [fst].
  destruct (replay_from c (hdrs t) lvp p HP HT D1 D2 D3) as (p2 & rb2 & lv2 & A2 & B2 & C2 & _).
  rewrite replay_into_loop, A2. split; [reflexivity|].
  rewrite rebuild_hdrs in B. rewrite B in B2. inversion B2; subst rb2.
  rewrite C2, <- C. apply eqb_list_row_refl.
Qed.
End Main.

Theorem T22_rebuild_ok : forall c e r,
  0 < c_rs c -> c_readonly c = false -> c_csuf c = [] -> c_esuf c = [] ->
  forallb hb_ok ((CInitialize [slash], e) :: r) = true ->
  ok_hist c init_sys ((CInitialize [slash], e) :: r) = true ->
  res_ok (snd (rebuild c (tp (final c init_sys ((CInitialize [slash], e) :: r))))) = true.
Proof. intros. apply T22_rebuild_ok_; assumption. Qed.

Theorem T22_replay_converges : forall c e r j,
  0 < c_rs c -> c_readonly c = false -> c_csuf c = [] -> c_esuf c = [] ->
  forallb hb_ok ((CInitialize [slash], e) :: r) = true ->
  ok_hist c init_sys ((CInitialize [slash], e) :: r) = true ->
  let t := tp (final c init_sys ((CInitialize [slash], e) :: r)) in
  let '(p, rr) := replay_into c t (prefix_index c t j) in
  res_ok rr = true /\ eqb_list eqb_row (visible p) (visible (fst (rebuild c t))) = true.
Proof. intros. apply T22_replay_converges_; assumption. Qed.

Theorem T22_replay_idempotent : forall c e r j,
  0 < c_rs c -> c_readonly c = false -> c_csuf c = [] -> c_esuf c = [] ->
  forallb hb_ok ((CInitialize [slash], e) :: r) = true ->
  ok_hist c init_sys ((CInitialize [slash], e) :: r) = true ->
  let t := tp (final c init_sys ((CInitialize [slash], e) :: r)) in
  let p1 := fst (replay_into c t (prefix_index c t j)) in
  let '(p2, r2) := replay_into c t p1 in
  res_ok r2 = true /\ eqb_list eqb_row (visible p2) (visible p1) = true.
Proof. intros. apply T22_replay_idempotent_; assumption. Qed.

(* ---------- the filesystem-only histories are instances *)
Lemma ok_hist_of_fs c r : forall s,
  forallb (fun ke => call_ok (fst ke)) r = true -> forallb (fun ke => fs_call (fst ke)) r = true -> ok_hist c s r = true.
Proof.
  induction r as [|[k e] r IH]; intros s H1 H2; [reflexivity|]. cbn [forallb fst ok_hist] in *.
  apply andb_true_iff in H1 as [K1 H1]. apply andb_true_iff in H2 as [K2 H2].
  rewrite (IH _ H1 H2), andb_true_r. unfold call_ok22.
  destruct k; cbn [op_call]; try (rewrite K1, K2; reflexivity); discriminate.
Qed.

(* ---------- any configuration *)
Lemma call_ok22_Pl c s k : call_ok22 (Pl c s) k = call_ok22 s k.
Proof. unfold call_ok22. destruct k; reflexivity. Qed.

Lemma ok_hist_Pl c h : forall s, ok_hist (plain_of c) (Pl c s) h = ok_hist c s h.
Proof.
  induction h as [|[k e] r IH]; intros s; [reflexivity|]. cbn [ok_hist].
  rewrite call_ok22_Pl, with_env_Pl, (step_Pl c (with_env s e) k). unfold liftP. cbn [fst]. rewrite IH. reflexivity.
Qed.

Lemma ok_hist_init_Pl c h : ok_hist (plain_of c) init_sys h = ok_hist c init_sys h.
Proof. rewrite <- (ok_hist_Pl c h init_sys). reflexivity. Qed.

Theorem T22_rows_norm_any_config : forall c e r,
  0 < c_rs c -> c_readonly c = false ->
  forallb hb_ok ((CInitialize [slash], e) :: r) = true ->
  ok_hist c init_sys ((CInitialize [slash], e) :: r) = true ->
  let s := final c init_sys ((CInitialize [slash], e) :: r) in
  exists p, rebuild c (tp s) = (p, Ok tt) /\ rows p = map norm_row (rows (db s)).
Proof.
  intros c e r Hrs Hro Hhb Hok. cbn zeta. rewrite <- ok_hist_init_Pl in Hok.
  pose proof (T22_rows_norm (plain_of c) e r Hrs Hro eq_refl eq_refl Hhb Hok) as K. cbn zeta in K.
  rewrite (final_hist_Pl c e r) in K. cbn [tp db Pl] in K. rewrite rebuild_eff in K. exact K.
Qed.

Section AnyConfig.
Variables (c : cfg) (e : env) (r : list (call * env)).
Hypothesis Hrs : 0 < c_rs c.
Hypothesis Hro : c_readonly c = false.
Hypothesis Hhb : forallb hb_ok ((CInitialize [slash], e) :: r) = true.
Hypothesis Hok : ok_hist c init_sys ((CInitialize [slash], e) :: r) = true.

Let t := tp (final c init_sys ((CInitialize [slash], e) :: r)).

Lemma tape_image22 : tp (final (plain_of c) init_sys ((CInitialize [slash], e) :: r)) = efft c t.
Proof. rewrite (final_hist_Pl c e r). reflexivity. Qed.

Lemma Hok_pl : ok_hist (plain_of c) init_sys ((CInitialize [slash], e) :: r) = true.
Proof. rewrite ok_hist_init_Pl. exact Hok. Qed.

Theorem T22_rebuild_ok_any_config_ : res_ok (snd (rebuild c t)) = true.
Proof.
  pose proof (T22_rebuild_ok (plain_of c) e r Hrs Hro eq_refl eq_refl Hhb Hok_pl) as K.
  rewrite tape_image22, rebuild_eff in K. exact K.
Qed.

Theorem T22_replay_converges_any_config_ j :
  let '(p, rr) := replay_into c t (prefix_index c t j) in
  res_ok rr = true /\ eqb_list eqb_row (visible p) (visible (fst (rebuild c t))) = true.
Proof.
  pose proof (T22_replay_converges (plain_of c) e r j Hrs Hro eq_refl eq_refl Hhb Hok_pl) as K. cbn zeta in K.
  rewrite tape_image22, prefix_index_eff, replay_into_eff, rebuild_eff in K. exact K.
Qed.

Theorem T22_replay_idempotent_any_config_ j :
  let p1 := fst (replay_into c t (prefix_index c t j)) in
  let '(p2, r2) := replay_into c t p1 in
  res_ok r2 = true /\ eqb_list eqb_row (visible p2) (visible p1) = true.
Proof.
  pose proof (T22_replay_idempotent (plain_of c) e r j Hrs Hro eq_refl eq_refl Hhb Hok_pl) as K. cbn zeta in K.
  rewrite tape_image22, prefix_index_eff, !replay_into_eff in K. exact K.
Qed.
End AnyConfig.

Theorem T22_rebuild_ok_any_config : forall c e r,
  0 < c_rs c -> c_readonly c = false ->
  forallb hb_ok ((CInitialize [slash], e) :: r) = true ->
  ok_hist c init_sys ((CInitialize [slash], e) :: r) = true ->
  res_ok (snd (rebuild c (tp (final c init_sys ((CInitialize [slash], e) :: r))))) = true.
Proof. intros. apply T22_rebuild_ok_any_config_; assumption. Qed.

Theorem T22_replay_converges_any_config : forall c e r j,
  0 < c_rs c -> c_readonly c = false ->
  forallb hb_ok ((CInitialize [slash], e) :: r) = true ->
  ok_hist c init_sys ((CInitialize [slash], e) :: r) = true ->
  let t := tp (final c init_sys ((CInitialize [slash], e) :: r)) in
  let '(p, rr) := replay_into c t (prefix_index c t j) in
  res_ok rr = true /\ eqb_list eqb_row (visible p) (visible (fst (rebuild c t))) = true.
Proof. intros. apply T22_replay_converges_any_config_; assumption. Qed.

Theorem T22_replay_idempotent_any_config : forall c e r j,
  0 < c_rs c -> c_readonly c = false ->
  forallb hb_ok ((CInitialize [slash], e) :: r) = true ->
  ok_hist c init_sys ((CInitialize [slash], e) :: r) = true ->
  let t := tp (final c init_sys ((CInitialize [slash], e) :: r)) in
  let p1 := fst (replay_into c t (prefix_index c t j)) in
  let '(p2, r2) := replay_into c t p1 in
  res_ok r2 = true /\ eqb_list eqb_row (visible p2) (visible p1) = true.
Proof. intros. apply T22_replay_idempotent_any_config_; assumption. Qed.

Print Assumptions T22_rows_norm.
Print Assumptions T22_replay_converges.
Print Assumptions T22_replay_idempotent.
Print Assumptions T22_rows_norm_any_config.
Print Assumptions T22_replay_converges_any_config.
Print Assumptions T22_replay_idempotent_any_config.
