(* T19 / Rel: the relation between a "writer" state (absolute spelling, cached root "/") and a "reader" state
   (the spelling a rebuild stores: cached root "" with root_empty = true, names without the leading slash).

   What the two states have in common and where they differ (found by computation, Proofs/T19Test.v):
   - index rows: same rows in the same order, TOMBSTONES INCLUDED (a rebuild keeps deleted rows); every column is
     equal except r_name (reader = norm_name of the writer's) and the VALUE of the PAX record STFS.ReplacesName in
     r_pax (reader = the writer's value, or norm_name of it: the rows the reader got from the rebuild carry the
     writer's absolute value, the rows it moved itself carry its own stored spelling);
   - tape: same items in the same order (same header-block counts, contents, encoded sizes, hence same positions);
     headers equal except h_name (reader = the writer's, or norm_name of it: Mkdir/Create write the caller's
     absolute name on both sides, Update/Delete/Move write the stored spelling) and the ReplacesName value;
   - cached root "/" vs "". *)
From Coq Require Import List NArith ZArith Bool.
Import ListNotations.
From STFS Require Import Str Db Tape Index Ops Fs Diff Norm.
Open Scope N_scope.

(* the task's rel_name: what norm_row does to r_name ("/a/f" -> "a/f", "/" -> "") *)
Definition rel_name (n : str) : str := norm_name n.

(* ---------- PAX records *)
Definition vrel (k va vr : str) : Prop := vr = va \/ (k = K_replaces_name /\ vr = norm_name va).
Definition kvrel (a r : str * str) : Prop := fst r = fst a /\ vrel (fst a) (snd a) (snd r).
Definition pax_rel (a r : pax) : Prop := Forall2 kvrel a r.

(* ---------- rows: every column equal except the name (exactly normalised) and the ReplacesName value *)
Record rowrel (a r : row) : Prop := {
  rr_abs : is_abs (r_name a) = true;
  rr_name : r_name r = norm_name (r_name a);
  rr_link : r_link r = r_link a;
  rr_tf : r_tf r = r_tf a; rr_size : r_size r = r_size a; rr_mode : r_mode r = r_mode a;
  rr_uid : r_uid r = r_uid a; rr_gid : r_gid r = r_gid a; rr_uname : r_uname r = r_uname a; rr_gname : r_gname r = r_gname a;
  rr_mtime : r_mtime r = r_mtime a; rr_atime : r_atime r = r_atime a; rr_ctime : r_ctime r = r_ctime a;
  rr_rec : r_rec r = r_rec a; rr_blk : r_blk r = r_blk a; rr_lkrec : r_lkrec r = r_lkrec a; rr_lkblk : r_lkblk r = r_lkblk a;
  rr_del : r_del r = r_del a;
  rr_pax : pax_rel (r_pax a) (r_pax r) }.

(* ---------- headers: the name in either spelling *)
Definition nrel (na nr : str) : Prop := nr = na \/ nr = norm_name na.
Record hrel (a r : hdr) : Prop := {
  hr_name : nrel (h_name a) (h_name r);
  hr_link : h_link r = h_link a;
  hr_tf : h_tf r = h_tf a; hr_size : h_size r = h_size a; hr_mode : h_mode r = h_mode a;
  hr_uid : h_uid r = h_uid a; hr_gid : h_gid r = h_gid a; hr_uname : h_uname r = h_uname a; hr_gname : h_gname r = h_gname a;
  hr_mtime : h_mtime r = h_mtime a; hr_atime : h_atime r = h_atime a; hr_ctime : h_ctime r = h_ctime a;
  hr_pax : pax_rel (h_pax a) (h_pax r) }.

Record mrel (a r : member) : Prop := {
  mr_hdr : hrel (m_hdr a) (m_hdr r);
  mr_hb : m_hb r = m_hb a; mr_data : m_data r = m_data a; mr_enc : m_enc r = m_enc a }.

Inductive irel : titem -> titem -> Prop :=
| irel_T : irel TT TT
| irel_M a r : mrel a r -> irel (TM a) (TM r).

Definition tape_rel (a r : tape) : Prop := Forall2 irel a r.
Definition rows_rel (a r : list row) : Prop := Forall2 rowrel a r.

Record prel (a r : pstate) : Prop := {
  pr_rows : rows_rel (rows a) (rows r);
  pr_root_a : root a = [slash];
  pr_root_r : root r = [] }.
(* [root_empty r] is NOT part of the relation: a rebuild of a tape that holds only the root record leaves it false, and
   so does Reopen (p_open); getSanitizedPath sets it at the next absolute non-root name as long as the root row "" is
   live (Proofs/T19Test.v test_C, the calls after CReopen).  With the root row removed the reader's cache is poisoned
   instead (Proofs/T19Counter.v). *)

(* the relation between the two instances: tape and index.  The oracle queues and the clock are set by [with_env] at
   every call; [Re] adds their equality (it holds after every call of two runs of one history). *)
Record R (sa sr : sys) : Prop := {
  R_tp : tape_rel (tp sa) (tp sr);
  R_db : prel (db sa) (db sr) }.
Record Re (sa sr : sys) : Prop := {
  Re_R : R sa sr;
  Re_hbq : hbq sr = hbq sa; Re_encq : encq sr = encq sa; Re_clk : clk sr = clk sa }.

(* ---------- the same relation as a boolean checker (for tests by computation) *)
Definition vrelb (k va vr : str) : bool := eqb_str vr va || (eqb_str k K_replaces_name && eqb_str vr (norm_name va)).
Fixpoint pax_relb (a r : pax) : bool :=
  match a, r with
  | [], [] => true
  | (k, v) :: a', (k', v') :: r' => eqb_str k' k && vrelb k v v' && pax_relb a' r'
  | _, _ => false
  end.
Definition rowrelb (a r : row) : bool :=
  is_abs (r_name a) && eqb_str (r_name r) (norm_name (r_name a)) && eqb_str (r_link r) (r_link a) && (r_tf r =? r_tf a) && (r_size r =? r_size a)
  && (r_mode r =? r_mode a) && (r_uid r =? r_uid a) && (r_gid r =? r_gid a)
  && eqb_str (r_uname r) (r_uname a) && eqb_str (r_gname r) (r_gname a)
  && (r_mtime r =? r_mtime a)%Z && (r_atime r =? r_atime a)%Z && (r_ctime r =? r_ctime a)%Z
  && (r_rec r =? r_rec a) && (r_blk r =? r_blk a) && (r_lkrec r =? r_lkrec a) && (r_lkblk r =? r_lkblk a)
  && Bool.eqb (r_del r) (r_del a) && pax_relb (r_pax a) (r_pax r).
Definition nrelb (na nr : str) : bool := eqb_str nr na || eqb_str nr (norm_name na).
Definition hrelb (a r : hdr) : bool :=
  nrelb (h_name a) (h_name r) && eqb_str (h_link r) (h_link a) && (h_tf r =? h_tf a) && (h_size r =? h_size a)
  && (h_mode r =? h_mode a) && (h_uid r =? h_uid a) && (h_gid r =? h_gid a)
  && eqb_str (h_uname r) (h_uname a) && eqb_str (h_gname r) (h_gname a)
  && (h_mtime r =? h_mtime a)%Z && (h_atime r =? h_atime a)%Z && (h_ctime r =? h_ctime a)%Z
  && pax_relb (h_pax a) (h_pax r).
Definition eqb_ocontent (a b : option content) : bool :=
  match a, b with
  | Some x, Some y => eqb_list (fun p q => (fst (fst p) =? fst (fst q)) && (snd (fst p) =? snd (fst q)) && (snd p =? snd q)) x y
  | None, None => true
  | _, _ => false
  end.
Definition mrelb (a r : member) : bool :=
  hrelb (m_hdr a) (m_hdr r) && (m_hb r =? m_hb a) && eqb_ocontent (m_data r) (m_data a) && (m_enc r =? m_enc a).
Definition irelb (a r : titem) : bool :=
  match a, r with TT, TT => true | TM x, TM y => mrelb x y | _, _ => false end.
Definition prelb (a r : pstate) : bool :=
  eqb_list rowrelb (rows a) (rows r) && eqb_str (root a) [slash] && eqb_str (root r) [].
Definition Rb (sa sr : sys) : bool := eqb_list irelb (tp sa) (tp sr) && prelb (db sa) (db sr).
Definition Reb (sa sr : sys) : bool :=
  Rb sa sr && eqb_list N.eqb (hbq sr) (hbq sa) && eqb_list N.eqb (encq sr) (encq sa) && (clk sr =? clk sa)%Z.

(* the relation, outcomes and views along two runs of the same history *)
Fixpoint Rb_all (c : cfg) (sa sr : sys) (h : list (call * env)) : bool :=
  match h with
  | [] => true
  | (k, e) :: r =>
    let '(sa', oa) := step c (with_env sa e) k in
    let '(sr', or_) := step c (with_env sr e) k in
    eqb_outc oa or_ && match oa, or_ with OOther x, OOther y => x =? y | _, _ => true end
    && Reb sa' sr' && eqb_list eqb_entry (view c sa') (view c sr') && Rb_all c sa' sr' r
  end.
