(* T17 / Test: the statements of T17Main / T17Spell evaluated on concrete trees (depth 4, several siblings, empty
   directories, empty files, names with LIKE wildcards, names equal to the top, mixed header sizes), every root
   style, several record sizes - by vm_compute, with exact equality. *)
From Coq Require Import String List NArith ZArith Bool.
Import ListNotations.
From STFS Require Import Str Db Tape Index Ops Fs Diff T17Tree T17Forest T17Rebuild T17Spell.
Open Scope N_scope.
Open Scope string_scope.

Definition tmt (hb : N) : meta := {| mt_mode := 420; mt_uid := 1000; mt_gid := 1000; mt_uname := s "u"; mt_gname := s "g";
                                     mt_mtime := 1500000000%Z; mt_atime := 0%Z; mt_ctime := 0%Z; mt_hb := hb |}.
Definition tF n (sd sz : N) := File (s n) (tmt 1) (if (sz =? 0)%N then [] else [(sd, 0, sz)]).
Definition tD n ks := Dir (s n) (tmt 3) ks.
Definition tt1 : tree := {| t_meta := tmt 1; t_kids :=
  [tD "d" [tF "f" 1 700; tD "e" []; tD "sub" [tF "x" 2 10; tF "empty" 0 0; tD "deep" [tF "z" 3 513]]]; tF "g" 4 10; tD "d2" [tF "f" 5 1]] |}.
Definition tt2 : tree := {| t_meta := tmt 1; t_kids := [] |}.
Definition tt3 : tree := {| t_meta := tmt 1; t_kids :=
  [tD "top" [tD "top" [tF "top" 1 5]]; tF "a%" 2 3; tD "a_" [tF "b" 3 4]; tD "A_" [tF "b" 6 4]; tD "ab" [tF "b" 4 4]; tD "..." [tF ".x" 7 1]] |}.
Definition tcf rs : cfg := {| c_rs := rs; c_csuf := []; c_esuf := []; c_readonly := false; c_uid := 0; c_gid := 0; c_uname := []; c_gname := [] |}.

Definition holds rs st t : Prop :=
  snd (rebuild (tcf rs) (archive_of st t)) = Ok tt /\
  view_at (tcf rs) (opened (tcf rs) (archive_of st t)) (view_base st) = expected_entries st t /\
  rows (db (opened (tcf rs) (archive_of st t))) = archive_rows (tcf rs) st t.

Example T17_test_1 : holds 20 DotSlash tt1 /\ holds 1 Slash tt1 /\ holds 7 (Named (s "top")) tt1.
Proof. vm_compute. repeat split; reflexivity. Qed.
Example T17_test_2 : holds 20 DotSlash tt2 /\ holds 1 Slash tt2 /\ holds 7 (Named (s "top")) tt2.
Proof. vm_compute. repeat split; reflexivity. Qed.
Example T17_test_3 : holds 20 DotSlash tt3 /\ holds 1 Slash tt3 /\ holds 7 (Named (s "top")) tt3 /\ holds 3 (Named (s "a_")) tt3.
Proof. vm_compute. repeat split; reflexivity. Qed.

(* spellings *)
Example T17_test_spellings :
  let sy := opened (tcf 20) (archive_of DotSlash tt1) in
  let q := [s "d"; s "sub"; s "x"] in
  map (fun n => snd (sanitize (db sy) n)) (spellings q) = [s "d/sub/x"; s "d/sub/x"; s "d/sub/x"]
  /\ map (fun n => match snd (stat_s sy (path_clean n) false) with Ok h => Some (h_name h, h_size h) | _ => None end) (spellings q)
     = [Some (s "d/sub/x", 10); Some (s "d/sub/x", 10); Some (s "d/sub/x", 10)]
  /\ map (path_join2 (s "top")) (spellings q) = [s "top/d/sub/x"; s "top/d/sub/x"; s "top/d/sub/x"].
Proof. vm_compute. repeat split; reflexivity. Qed.
