(* Block arithmetic of tape positions (C04) *)
From Coq Require Import List NArith ZArith Bool Lia.
From Coq Require Import ZifyN ZifyBool.
Import ListNotations.
From STFS Require Import Str Db Tape.
Open Scope N_scope.
Ltac Zify.zify_post_hook ::= Z.div_mod_to_equations.

Lemma pos_of_spec rs off : 0 < rs ->
  let '(q, b) := pos_of rs off in b < rs /\ off_of rs q b = off.
Proof.
  intro H. unfold pos_of, off_of. split.
  - pose proof (N.mod_lt off rs ltac:(lia)). pose proof (N.div_mod off rs ltac:(lia)). lia.
  - pose proof (N.div_mod off rs ltac:(lia)). pose proof (N.mod_lt off rs ltac:(lia)). lia.
Qed.

Lemma pos_of_blk_lt rs off : 0 < rs -> snd (pos_of rs off) < rs.
Proof. intro H. pose proof (pos_of_spec rs off H) as P. destruct (pos_of rs off); cbn; tauto. Qed.

Lemma pos_of_roundtrip rs off : 0 < rs -> off_of rs (fst (pos_of rs off)) (snd (pos_of rs off)) = off.
Proof. intro H. pose proof (pos_of_spec rs off H) as P. destruct (pos_of rs off); cbn; tauto. Qed.

(* the position is unique: (record, block) with block < rs decode to one block offset only *)
Lemma off_of_inj rs q1 b1 q2 b2 : 0 < rs -> b1 < rs -> b2 < rs ->
  off_of rs q1 b1 = off_of rs q2 b2 -> q1 = q2 /\ b1 = b2.
Proof.
  unfold off_of. intros Hrs H1 H2 E.
  assert (Q1 : q1 = (rs * q1 + b1) / rs) by (apply N.div_unique with b1; [exact H1|reflexivity]).
  assert (Q2 : q2 = (rs * q1 + b1) / rs) by (apply N.div_unique with b2; [exact H2|exact E]).
  assert (Hq : q1 = q2) by congruence. split; [exact Hq|]. rewrite <- Hq in E. lia.
Qed.

(* byte offset the readers seek to: (rs*record+block)*512 is the 512-byte boundary at or after every
   byte offset that rounds up to that block *)
Lemma cdiv_spec a : cdiv a 512 * 512 >= a /\ cdiv a 512 * 512 < a + 512.
Proof. unfold cdiv. lia. Qed.

Lemma cdiv_aligned k : cdiv (k * 512) 512 = k.
Proof. unfold cdiv. lia. Qed.

(* the dead branches of index.go: block is never negative, never >= rs *)
Lemma index_go_branches_dead rs total : 0 < rs ->
  let record := total / rs in let block := total - record * rs in block < rs.
Proof. intro H. cbn zeta. pose proof (N.div_mod total rs ltac:(lia)). pose proof (N.mod_lt total rs ltac:(lia)). lia. Qed.

Lemma tape_blocks_app t1 t2 : tape_blocks (t1 ++ t2) = tape_blocks t1 + tape_blocks t2.
Proof. induction t1 as [|i t1 IH]; cbn; [reflexivity|]. unfold tape_blocks in *. cbn. rewrite IH. lia. Qed.

Lemma with_starts_app t1 t2 a : with_starts (t1 ++ t2) a = with_starts t1 a ++ with_starts t2 (a + tape_blocks t1).
Proof.
  revert a. induction t1 as [|i t1 IH]; intro a; cbn.
  - f_equal. unfold tape_blocks; cbn. lia.
  - f_equal. rewrite IH. f_equal. f_equal. unfold tape_blocks; cbn. lia.
Qed.

Lemma with_starts_lt t a p : In p (with_starts t a) -> a <= fst p /\ fst p + item_blocks (snd p) <= a + tape_blocks t.
Proof.
  revert a. induction t as [|i t IH]; intros a Hin; cbn in Hin; [contradiction|].
  destruct Hin as [<-|Hin]; cbn.
  - unfold tape_blocks; cbn. fold (tape_blocks t). lia.
  - apply IH in Hin. unfold tape_blocks in *; cbn. lia.
Qed.

(* appending to the tape never changes what is found at an existing position (append-only => stable positions) *)
Lemma member_at_app t suf off m : member_at t off = Some m -> member_at (t ++ suf) off = Some m.
Proof.
  unfold member_at. rewrite with_starts_app, filter_app.
  destruct (filter (fun p => fst p =? off) (with_starts t 0)) as [|[a i] l] eqn:E; [discriminate|].
  cbn. auto.
Qed.
