(* T22 / vocabulary: histories that mix the filesystem-level calls with the OPERATION-LEVEL calls
   (CArchive / CUpdate / CDelete / CMove: operations.Operations used directly, as the CLI does).

   [op_call_ok s k]: the precondition under which an operation-level call k, issued in state s, is covered
   by the C01 / C07 theorems of T22Hist.v.  It is a boolean (decidable on concrete histories), and it only
   looks at the index of s (and, for everything but Update, not even at that):
     CArchive fs       every header: cleaned absolute name ([goodb]), no link name, a parsable STFS.UncompressedSize
                       record if any, STFS.Action absent or CREATE, STFS.Version absent or 1 (the CLI passes tar.FileInfoHeader
                       results: no STFS records at all).  NOT required: the parent exists, the names are distinct, the name is new
                       (an existing name is upserted in place, tombstones are revived), the name differs from the root.
                       The batch may be empty.
     CUpdate fs repl   every header: cleaned absolute name, no link name, parsable size record, and the name has a LIVE row
                       (otherwise: T22Counter.v [T22_update_unindexed_refuted]); with repl = true a tombstoned row is enough
                       (the entry is revived; with repl = false it is not: [T22_update_tombstone_meta_refuted]).  STFS.Action/Version/ReplacesName records of the
                       caller are overwritten by Update itself.  The batch may be empty.
     CDelete n         ANY name that does not denote the root: [san n] (the spelling the index gives the name: "" "." "/" "./" are
                       the root, an absolute name is taken as it is, a relative one is joined to "/" and cleaned) differs from "/".
                       A missing name -- in particular an uncleaned absolute one such as "/a/" or "//a" -- is refused without writing.
     CMove a b         a = b (nothing happens), or both cleaned absolute names other than the root (a missing source is refused
                       without writing; an existing target is replaced; a target below the source is allowed).
   [ok_hist c s r]: every call of r is either an operation-level call satisfying [op_call_ok] IN THE STATE IT IS ISSUED IN, or a
   filesystem-level call with absolute names that does not remove / rename onto the root ([fs_call], [call_ok]). *)
From Coq Require Import List NArith ZArith Bool Lia.
From Coq Require Import ZifyN ZifyBool.
Import ListNotations.
From STFS Require Import Str Db Tape Index Ops Fs Diff Norm C01Str C01Db C01Inv C01Sim C01Fs2 C01Rows.
Open Scope N_scope.

Definition goodb (n : str) : bool := is_abs n && eqb_str (path_clean n) n.

Definition usize_okb (p : pax) : bool :=
  match pax_get K_usize p with
  | Some v => match undecimal v with Some _ => true | None => false end
  | None => true
  end.

Definition act_createb (p : pax) : bool :=
  match pax_get K_action p with Some v => eqb_str v V_create | None => true end.
Definition ver_okb (p : pax) : bool :=
  match pax_get K_version p with Some v => eqb_str v V_1 | None => true end.

Definition name_okb (h : hdr) : bool := goodb (h_name h) && eqb_str (h_link h) [] && usize_okb (h_pax h).

Definition arch_hdr_okb (h : hdr) : bool := name_okb h && act_createb (h_pax h) && ver_okb (h_pax h).

(* the entry an Update record edits: a live row; with replace = true a tombstoned row is enough (the content update
   overwrites every column of the row, the deletion mark included: the entry is revived, in the running index and on rebuild) *)
Definition upd_src_okb (p : pstate) (replace : bool) (n : str) : bool :=
  live_name (rows p) n || (replace && has_name (rows p) n).
Definition upd_hdr_okb (p : pstate) (replace : bool) (h : hdr) : bool := name_okb h && upd_src_okb p replace (h_name h).

Definition nonrootb (n : str) : bool := negb (eqb_str n [slash]).

(* getSanitizedPath of the running index (cached root "/"): Proofs/C01Db.v [sanitize_root_eq] *)
Definition san (n : str) : str :=
  if is_root_name n || eqb_str n [slash] then [slash]
  else if is_abs n then n else path_join2 [slash] (trim_prefix [slash] n).

Definition op_call (k : call) : bool :=
  match k with CArchive _ | CUpdate _ _ | CDelete _ | CMove _ _ => true | _ => false end.

Definition op_call_ok (s : sys) (k : call) : bool :=
  match k with
  | CArchive fs => forallb (fun f => arch_hdr_okb (f_hdr f)) fs
  | CUpdate fs replace => forallb (fun f => upd_hdr_okb (db s) replace (f_hdr f)) fs
  | CDelete n => nonrootb (san n)
  | CMove a b => eqb_str a b || (goodb a && goodb b && nonrootb a && nonrootb b)
  | _ => false
  end.

(* one call of a mixed history, judged in the state it is issued in *)
Definition call_ok22 (s : sys) (k : call) : bool :=
  if op_call k then op_call_ok s k else fs_call k && call_ok k.

Fixpoint ok_hist (c : cfg) (s : sys) (r : list (call * env)) : bool :=
  match r with
  | [] => true
  | (k, e) :: r' => call_ok22 s k && ok_hist c (fst (step c (with_env s e) k)) r'
  end.

(* ---------- reflection *)
Lemma goodb_good n : goodb n = true -> good n.
Proof.
  unfold goodb. intro H. apply andb_true_iff in H as [A B]. apply eqb_str_eq in B.
  rewrite <- B. apply path_clean_abs_good. exact A.
Qed.

Lemma good_goodb n : good n -> goodb n = true.
Proof.
  intro G. unfold goodb. rewrite (good_abs n G), (path_clean_good n G), eqb_str_refl. reflexivity.
Qed.

Lemma usize_okb_ok p : usize_okb p = true -> usize_ok p.
Proof.
  unfold usize_okb, usize_ok. destruct (pax_get K_usize p) as [v|]; [|intros _; exact I].
  destruct (undecimal v); [intros _; discriminate|discriminate].
Qed.

Lemma nonrootb_ne n : nonrootb n = true -> n <> [slash].
Proof. unfold nonrootb. intro H. apply negb_true_iff in H. apply eqb_str_neq. exact H. Qed.

Lemma name_okb_facts h : name_okb h = true -> good (h_name h) /\ h_link h = [] /\ usize_ok (h_pax h).
Proof.
  unfold name_okb. intro H. apply andb_true_iff in H as [H C]. apply andb_true_iff in H as [A B].
  split; [apply goodb_good; exact A|]. split; [apply eqb_str_eq; exact B|apply usize_okb_ok; exact C].
Qed.

Lemma act_createb_act h : act_createb (h_pax h) = true -> h_act h = V_create.
Proof.
  unfold act_createb, h_act. destruct (pax_get K_action (h_pax h)) as [v|]; [|reflexivity].
  intro H. apply eqb_str_eq. exact H.
Qed.

Lemma ver_okb_ver h : ver_okb (h_pax h) = true -> ver_ok h.
Proof.
  unfold ver_okb, ver_ok. destruct (pax_get K_version (h_pax h)) as [v|]; [|intros _; exact I].
  intro H. apply eqb_str_eq. exact H.
Qed.

Lemma san_spec p n : root p = [slash] -> sanitize p n = (p, san n).
Proof.
  intro H. rewrite (sanitize_root_eq p n H). unfold san.
  destruct (is_root_name n || eqb_str n [slash]); [reflexivity|]. destruct (is_abs n); reflexivity.
Qed.

Lemma san_cases n : good (san n) \/ (san n = n /\ ~ good n).
Proof.
  unfold san. destruct (is_root_name n || eqb_str n [slash]); [left; apply good_root|].
  destruct (is_abs n) eqn:Ea.
  - destruct (goodb n) eqn:Eg; [left; apply goodb_good; exact Eg|].
    right. split; [reflexivity|]. intro G. rewrite (good_goodb n G) in Eg. discriminate.
  - left. apply path_join2_good. apply good_root.
Qed.

Lemma san_good n : good n -> san n = n.
Proof.
  intro G. unfold san. destruct (eqb_str n [slash]) eqn:E.
  - apply eqb_str_eq in E. subst. reflexivity.
  - apply eqb_str_neq in E. rewrite (good_is_root_false n G E), (good_abs n G). reflexivity.
Qed.
