(* Tcfg / operations: Archive, Update, Delete, Move under a configuration with codec suffixes are the
   operations of the plain configuration on the image state [Pl c s].
   The only place where the suffix matters is [encode]: the writer adds the suffix exactly when the encoded size is
   positive, the indexer strips it exactly when the tape size is positive, so the two agree for EVERY encoded size
   the environment supplies (no hypothesis on the environment). *)
From Coq Require Import List NArith ZArith Bool Lia.
From Coq Require Import ZifyN ZifyBool.
Import ListNotations.
From STFS Require Import Str Db Tape Index Ops TapeLemmas C01Sim C03Names TcfgSim.
Open Scope N_scope.

Lemma pop_enc_Pl c s n : pop_enc (Pl c s) n = (fst (pop_enc s n), Pl c (snd (pop_enc s n))).
Proof. unfold pop_enc. cbn [encq Pl]. destruct (encq s); reflexivity. Qed.

Lemma mk_member_eff c s h d enc :
  mk_member (Pl c s) (effh c h) d enc = (effm c (fst (mk_member s h d enc)), Pl c (snd (mk_member s h d enc))).
Proof. unfold mk_member, pop_hb. cbn [hbq Pl]. destruct (hbq s); reflexivity. Qed.

(* ---------- encode: for every encoded size *)
Lemma encode_eff c s h : tf_regular (h_tf h) = true ->
  encode (plain_of c) (Pl c s) h =
  (effh c (fst (fst (encode c s h))), snd (fst (encode c s h)), Pl c (snd (encode c s h))).
Proof.
  intros Hr. unfold encode. rewrite pop_enc_Pl.
  destruct (pop_enc s (h_size h)) as [enc s1]. cbn [fst snd] in *.
  f_equal. f_equal.
  set (h1 := set_pax h (pax_set K_usize (decimal (h_size h)) (h_pax h))).
  change (h_name h1) with (h_name h).
  rewrite (suffix_if_plain (plain_of c) _ _ (plain_of_plain c)).
  destruct (0 <? enc) eqn:Ez.
  - apply N.ltb_lt in Ez. rewrite (effh_encoded c h1 enc (h_name h) Hr Ez). reflexivity.
  - assert (E0 : enc = 0) by (apply N.ltb_ge in Ez; lia). subst enc.
    rewrite effh_size0 by reflexivity. reflexivity.
Qed.

(* ---------- member lists *)
Definition liftM (c : cfg) (x : list member * list hdr * sys) : list member * list hdr * sys :=
  (map (effm c) (fst (fst x)), map (effh c) (snd (fst x)), Pl c (snd x)).

Lemma archive_members_eff c fs : forall s,
  archive_members (plain_of c) (Pl c s) fs = liftM c (archive_members c s fs).
Proof.
  induction fs as [|f r IH]; intros s; [reflexivity|].
  cbn [archive_members]. unfold is_reg.
  destruct (tf_regular (h_tf (f_hdr f)) && (0 <? h_size (f_hdr f))) eqn:Ec.
  - apply andb_true_iff in Ec as [Hr Hs].
    rewrite (encode_eff c s (f_hdr f) Hr).
    destruct (encode c s (f_hdr f)) as [[h' enc] s1]. cbn [fst snd] in *.
    rewrite mk_member_eff.
    destruct (mk_member s1 h' (Some (f_data f)) enc) as [m s2]. cbn [fst snd] in *.
    rewrite (IH s2).
    destruct (archive_members c s2 r) as [[ms hs] s3]. reflexivity.
  - rewrite <- (effh_nocontent c (f_hdr f) Ec) at 1. rewrite mk_member_eff.
    destruct (mk_member s (f_hdr f) None 0) as [m s2]. cbn [fst snd] in *.
    rewrite (IH s2).
    destruct (archive_members c s2 r) as [[ms hs] s3].
    unfold liftM. cbn [fst snd map]. rewrite (effh_nocontent c (f_hdr f) Ec). reflexivity.
Qed.

Lemma update_members_eff c replace skip fs : forall s,
  update_members (plain_of c) (Pl c s) fs replace skip = liftM c (update_members c s fs replace skip).
Proof.
  induction fs as [|f r IH]; intros s; [reflexivity|].
  cbn [update_members]. unfold is_reg.
  set (h0 := f_hdr f).
  set (h1 := set_pax h0 (pax_del K_replaces_name (pax_set K_action V_update (pax_set K_version V_1 (h_pax h0))))).
  change (h_tf h1) with (h_tf h0). change (h_size h1) with (h_size h0).
  destruct (tf_regular (h_tf h0) && replace && ((0 <? h_size h0) || skip)) eqn:Ec.
  - apply andb_true_iff in Ec as [Ec Hs]. apply andb_true_iff in Ec as [Hr Hrep]. subst replace.
    rewrite (encode_eff c s h1 Hr).
    destruct (encode c s h1) as [[h2 enc] s1]. cbn [fst snd] in *.
    change (h_pax (effh c h2)) with (h_pax h2).
    change (set_pax (effh c h2) (pax_set K_replaces_content V_true (h_pax h2)))
      with (effh c (set_pax h2 (pax_set K_replaces_content V_true (h_pax h2)))).
    rewrite mk_member_eff.
    destruct (mk_member s1 (set_pax h2 (pax_set K_replaces_content V_true (h_pax h2))) (Some (f_data f)) enc) as [m s2].
    cbn [fst snd] in *. rewrite (IH s2).
    destruct (update_members c s2 r true skip) as [[ms hs] s3]. reflexivity.
  - destruct replace.
    + assert (En : tf_regular (h_tf h0) && (0 <? h_size h0) = false).
      { destruct (tf_regular (h_tf h0)); [|reflexivity]. cbn [andb] in Ec |- *. apply orb_false_iff in Ec. apply Ec. }
      set (h3 := set_pax h1 (pax_set K_replaces_content V_true (h_pax h1))).
      assert (E3 : effh c h3 = h3) by (apply effh_nocontent; exact En).
      rewrite <- E3 at 1. rewrite mk_member_eff.
      destruct (mk_member s h3 None 0) as [m s2]. cbn [fst snd] in *. rewrite (IH s2).
      destruct (update_members c s2 r true skip) as [[ms hs] s3]. unfold liftM. cbn [fst snd map]. rewrite E3. reflexivity.
    + set (h3 := with_size_name (set_pax h1 (pax_set K_replaces_content V_false (keep_size h1))) 0 (h_name h1)).
      assert (E3 : effh c h3 = h3) by (apply effh_size0; reflexivity).
      rewrite <- E3 at 1. rewrite mk_member_eff.
      destruct (mk_member s h3 None 0) as [m s2]. cbn [fst snd] in *. rewrite (IH s2).
      destruct (update_members c s2 r false skip) as [[ms hs] s3]. unfold liftM. cbn [fst snd map]. rewrite E3. reflexivity.
Qed.

(* ---------- the operations *)
Lemma archive_op_eff c s fs ow init :
  archive_op (plain_of c) (Pl c s) fs ow init = liftP c (archive_op c s fs ow init).
Proof.
  unfold archive_op. change (c_rs (plain_of c)) with (c_rs c). change (db (Pl c s)) with (db s).
  rewrite (archive_members_eff c fs s).
  destruct (archive_members c s fs) as [[ms hs] s1]. unfold liftM. cbn [fst snd].
  apply append_and_index_eff.
Qed.

Lemma update_op_eff c s fs replace skip :
  update_op (plain_of c) (Pl c s) fs replace skip = liftP c (update_op c s fs replace skip).
Proof.
  unfold update_op. change (c_rs (plain_of c)) with (c_rs c). change (db (Pl c s)) with (db s).
  rewrite (update_members_eff c replace skip fs s).
  destruct (update_members c s fs replace skip) as [[ms hs] s1]. unfold liftM. cbn [fst snd].
  apply append_and_index_eff.
Qed.

Lemma plain_members_eff c hs : forall s, Forall (fun h => effh c h = h) hs ->
  plain_members (Pl c s) hs = (map (effm c) (fst (plain_members s hs)), Pl c (snd (plain_members s hs))).
Proof.
  induction hs as [|h r IH]; intros s H; [reflexivity|]. inversion H as [|? ? Hh Hr]; subst.
  cbn [plain_members]. rewrite <- Hh at 1. rewrite mk_member_eff.
  destruct (mk_member s h None 0) as [m s1]. cbn [fst snd]. rewrite (IH s1 Hr).
  destruct (plain_members s1 r) as [ms s2]. reflexivity.
Qed.

Lemma map_fix {A} (f : A -> A) l : Forall (fun x => f x = x) l -> map f l = l.
Proof. induction 1 as [|x l Hx Hl IH]; cbn; [reflexivity|]. rewrite Hx, IH. reflexivity. Qed.

(* records without content: size 0 *)
Lemma plain_tail_eff c s last hs ow init : Forall (fun h => effh c h = h) hs ->
  (let '(ms, s1) := plain_members (Pl c s) hs in append_and_index (plain_of c) s1 last ms hs ow init) =
  liftP c (let '(ms, s1) := plain_members s hs in append_and_index c s1 last ms hs ow init).
Proof.
  intro H. rewrite (plain_members_eff c hs s H). destruct (plain_members s hs) as [ms s1]. cbn [fst snd].
  rewrite <- (map_fix (effh c) hs H) at 1. apply append_and_index_eff.
Qed.

Lemma Forall_map_size0 {A} c (g : A -> hdr) l : (forall x, h_size (g x) = 0) -> Forall (fun h => effh c h = h) (map g l).
Proof. intro H. apply Forall_forall. intros h Hin. apply in_map_iff in Hin as (x & <- & _). apply effh_size0. apply H. Qed.

Lemma delete_op_eff c s name : delete_op (plain_of c) (Pl c s) name = liftP c (delete_op c s name).
Proof.
  unfold delete_op. change (c_rs (plain_of c)) with (c_rs c). change (db (Pl c s)) with (db s).
  destruct (lookup_entry (db s) name) as [p [r| | |e]]; try reflexivity.
  destruct (if (r_tf r =? TypeDir) && eqb_str (r_link r) [] then get_children p name else (p, [])) as [p' kids].
  change (set_db (Pl c s) p') with (Pl c (set_db s p')).
  apply plain_tail_eff. apply Forall_map_size0. intro x. reflexivity.
Qed.

Lemma move_op_eff c s from to : move_op (plain_of c) (Pl c s) from to = liftP c (move_op c s from to).
Proof.
  unfold move_op. destruct (eqb_str from to); [reflexivity|].
  change (c_rs (plain_of c)) with (c_rs c). change (db (Pl c s)) with (db s).
  destruct (lookup_entry (db s) from) as [p [r| | |e]]; try reflexivity.
  destruct (eqb_str from (if is_abs to && negb (is_abs (r_name r)) then trim_prefix [slash] to else to)); [reflexivity|].
  destruct (if r_tf r =? TypeDir then get_children p from else (p, [])) as [p' kids].
  change (set_db (Pl c s) p') with (Pl c (set_db s p')).
  apply plain_tail_eff. apply Forall_map_size0. intro x. reflexivity.
Qed.

