(* T17 / Spell: equivalent spellings of a path ("/d/f", "d/f", "./d/f") resolve to the same entry of an opened
   foreign archive (styles "./" and "/": cached root ""), at the level of getSanitizedPath, of GetHeader, and of
   inventory.Stat as the filesystem calls use it (after path.Clean).  For a named top directory the index uses names
   as they are; the base-path composition (Clean(Join(top, name)), outside the model) maps the three spellings to
   the one stored name. *)
From Coq Require Import List NArith ZArith Bool Lia.
Import ListNotations.
From STFS Require Import Str Db Tape Index Ops Fs StrLemmas C01Str C01Sim T13Path
  T17Tree T17Str T17Forest T17Db T17Rebuild T17View T17Main.
Open Scope N_scope.

Definition spellings (q : list str) : list str :=
  [slash :: join_slash q; join_slash q; [dot; slash] ++ join_slash q].

Lemma rel_name_dotslash q : q <> [] -> Forall okc q -> rel_name ([dot; slash] ++ join_slash q) = join_slash q.
Proof.
  intros Hn Hq.
  pose proof (rel_tape_name DotSlash {| i_path := q; i_dir := false; i_meta := Build_meta 0 0 0 [] [] 0 0 0 0; i_data := [] |} I Hq) as R.
  unfold tape_name, stored_name in R. cbn [i_path i_dir style_prefix stored_comps] in R. rewrite app_nil_r in R. exact R.
Qed.

Lemma rel_name_spelling q n : q <> [] -> Forall okc q -> In n (spellings q) -> rel_name n = join_slash q.
Proof.
  intros Hn Hq [<-|[<-|[<-|[]]]].
  - apply (rel_name_pth q Hq).
  - apply rel_name_join. exact Hq.
  - apply rel_name_dotslash; assumption.
Qed.

(* getSanitizedPath: the three spellings give the stored name *)
Theorem T17_spellings_sanitize : forall p q n, Foreign p -> q <> [] -> Forall okc q -> In n (spellings q) ->
  snd (sanitize p n) = join_slash q.
Proof.
  intros p q n Hf Hn Hq Hin. destruct (sanitize_foreign p n Hf) as (p' & E & _). rewrite E. cbn [snd].
  apply rel_name_spelling; assumption.
Qed.

Corollary T17_spellings_equal : forall p q, Foreign p -> q <> [] -> Forall okc q ->
  snd (sanitize p (slash :: join_slash q)) = snd (sanitize p (join_slash q)) /\
  snd (sanitize p ([dot; slash] ++ join_slash q)) = snd (sanitize p (join_slash q)).
Proof.
  intros p q Hf Hn Hq. rewrite !(T17_spellings_sanitize p q) by (assumption || (cbn; tauto)). split; reflexivity.
Qed.

(* path.Clean, applied by every filesystem call first, maps a spelling to a spelling *)
Lemma clean_spelling q n : q <> [] -> Forall okc q -> In n (spellings q) -> In (path_clean n) (spellings q).
Proof.
  intros Hn Hq [<-|[<-|[<-|[]]]].
  - left. symmetry. apply path_clean_good. apply (good_pth q Hq).
  - right. left. symmetry. apply path_clean_rel; assumption.
  - right. left. symmetry. apply path_clean_dotslash; assumption.
Qed.

Lemma foreign_style_comps st q : style_root st = [] -> wf_style st -> stored_comps st q = q.
Proof. intros E Hs. destruct st; try reflexivity. cbn in E, Hs. destruct Hs as (K & _). contradiction. Qed.

(* GetHeader and Stat through any spelling return the row / header of that member *)
Theorem T17_spellings_resolve : forall c st t s i n, wf_style st -> style_root st = [] -> wf t -> is_open c st t s ->
  In i (items t) -> i_path i <> [] -> In n (spellings (i_path i)) ->
  (exists a, In (a, i) (istarts 0 (items t)) /\ snd (get_header (db s) n) = Ok (srow st (c_rs c) (a, i))) /\
  snd (stat_s s n false) = Ok (shdr st i) /\
  snd (stat_s s (path_clean n) false) = Ok (shdr st i).
Proof.
  intros c st t s i n Hs Er Hw [Ho Ht] Hi Hne Hin.
  pose proof (items_okc t i Hw Hi) as Hq. destruct (L_in t i Hi) as (a & Ha).
  assert (Hf : Foreign (db s)) by (apply (opened_foreign c st t Hs Hw (db s) Ho Er)).
  assert (R : forall m, In m (spellings (i_path i)) -> Res (db s) m (spc st (a, i))).
  { intros m Hm. destruct (sanitize_foreign (db s) m Hf) as (p' & E & Hr & _). exists p'. split; [|exact Hr].
    rewrite E. unfold spc. cbn [snd]. rewrite (foreign_style_comps st _ Er Hs). f_equal. apply rel_name_spelling; assumption. }
  split; [|split].
  - exists a. split; [exact Ha|].
    destruct (get_header_res c st t Hs Hw (db s) Ho n (a, i) Ha (R n Hin)) as (p' & E & _). rewrite E. reflexivity.
  - destruct (stat_res c st t Hs Hw (db s) Ho n (a, i) Ha (R n Hin)) as (p' & E & _). unfold stat_s. rewrite E. reflexivity.
  - destruct (stat_res c st t Hs Hw (db s) Ho (path_clean n) (a, i) Ha (R _ (clean_spelling _ n Hne Hq Hin))) as (p' & E & _).
    unfold stat_s. rewrite E. reflexivity.
Qed.

(* the root: every root spelling gives the top entry *)
Theorem T17_root_spellings_resolve : forall c st t s n, wf_style st -> wf t -> is_open c st t s -> is_root_name n = true ->
  snd (stat_s s n false) = Ok (shdr st (top_item t)).
Proof.
  intros c st t s n Hs Hw [Ho Ht] Hn. destruct (L_in t (top_item t) (or_introl eq_refl)) as (a & Ha).
  destruct (stat_res c st t Hs Hw (db s) Ho n (a, top_item t) Ha) as (p' & E & _).
  - exists (db s). split; [|reflexivity]. unfold sanitize. rewrite Hn. cbn [orb]. f_equal.
    destruct Ho as [_ Hr]. rewrite Hr. unfold spc. cbn. destruct st; reflexivity.
  - unfold stat_s. rewrite E. reflexivity.
Qed.

(* named top: what the base-path layer hands to the filesystem, Clean(Join(top, spelling)), is the stored name *)
Lemma clean_with_mid top mid q : okc top -> q <> [] -> Forall okc q -> (mid = [] \/ mid = [dot]) ->
  path_clean (top ++ slash :: mid ++ slash :: join_slash q) = join_slash (top :: q).
Proof.
  intros Ht Hn Hq Hm.
  assert (F : Forall okc (top :: q)) by (constructor; assumption).
  destruct (okc_head top Ht) as (x & r & E & Ex).
  apply (path_clean_rel_gen _ (top :: mid :: q) (top :: q)).
  - rewrite E. exact Ex.
  - rewrite E. discriminate.
  - rewrite !split_slash_app. rewrite (split_join q Hn (okc_noslash q Hq)).
    unfold split_slash at 1. rewrite split_aux_noslash by (apply okc_ns; exact Ht).
    unfold split_slash. rewrite split_aux_noslash by (destruct Hm as [->| ->]; [intros []|intros [K|[]]; discriminate K]).
    reflexivity.
  - constructor; [left; exact Ht|]. constructor; [right; exact Hm|apply okc_or; exact Hq].
  - cbn [filter]. unfold keepb at 1. destruct (okc_flags top Ht) as (E1 & E2 & _). rewrite E1, E2. cbn [orb negb].
    replace (keepb mid) with false by (destruct Hm as [->| ->]; reflexivity).
    rewrite filter_keepb_okc by exact Hq. reflexivity.
  - discriminate.
Qed.

Lemma path_join2_ne a b : a <> [] -> b <> [] -> path_join2 a b = path_clean (a ++ slash :: b).
Proof. destruct a, b; intros; try contradiction; reflexivity. Qed.

Theorem T17_named_base_path : forall top q n, okc top -> q <> [] -> Forall okc q -> In n (spellings q) ->
  path_join2 top n = join_slash (top :: q).
Proof.
  intros top q n Ht Hn Hq Hin.
  assert (F : Forall okc (top :: q)) by (constructor; assumption).
  assert (Htn : top <> []) by (destruct Ht; assumption).
  assert (Hjn : join_slash q <> []) by (intro K; apply join_nil_iff in K; [contradiction|exact Hq]).
  destruct Hin as [<-|[<-|[<-|[]]]].
  - rewrite path_join2_ne by (exact Htn || discriminate). apply (clean_with_mid top [] q Ht Hn Hq). left. reflexivity.
  - rewrite path_join2_ne by assumption. rewrite <- join_cons by exact Hn. apply path_clean_rel; [discriminate|exact F].
  - rewrite path_join2_ne by (exact Htn || discriminate). apply (clean_with_mid top [dot] q Ht Hn Hq). right. reflexivity.
Qed.

Print Assumptions T17_spellings_resolve.
