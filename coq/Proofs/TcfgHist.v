(* Tcfg / histories: for EVERY history and environment the whole observable behaviour of the model (outcomes, index rows, visible tree,
   tape length, rebuild and replay of the tape) is that of the plain configuration [plain_of c]. *)
From Coq Require Import List NArith ZArith Bool Lia.
From Coq Require Import ZifyN ZifyBool.
Import ListNotations.
From STFS Require Import Str Db Tape Index Ops Fs Diff Prefix Replay Norm TapeLemmas C01Str C01Sim C03Names
  TcfgSim TcfgOps TcfgFs.
Open Scope N_scope.

(* ---------- histories *)
Lemma with_env_Pl c s e : with_env (Pl c s) e = Pl c (with_env s e).
Proof. reflexivity. Qed.

Lemma Pl_init c : Pl c init_sys = init_sys.
Proof. reflexivity. Qed.

Theorem final_Pl c h : forall s, final (plain_of c) (Pl c s) h = Pl c (final c s h).
Proof.
  induction h as [|[k e] r IH]; intros s; [reflexivity|]. cbn [final].
  rewrite with_env_Pl, (step_Pl c (with_env s e) k). unfold liftP. cbn [fst]. apply IH.
Qed.

Corollary final_init_Pl c h : final (plain_of c) init_sys h = Pl c (final c init_sys h).
Proof. rewrite <- (final_Pl c h init_sys). reflexivity. Qed.

(* ---------- the visible tree *)
Lemma entry_of_Pl c s path h : entry_of (plain_of c) (Pl c s) path h = entry_of c s path h.
Proof. unfold entry_of. rewrite read_path_Pl. destruct (read_path c s (h_name h)) as [s1 [x| | |e]]; reflexivity. Qed.

Lemma walk_Pl c s fuel : forall dir, walk fuel (plain_of c) (Pl c s) dir = walk fuel c s dir.
Proof.
  induction fuel as [|f IH]; intro dir; [reflexivity|]. cbn [walk]. change (db (Pl c s)) with (db s).
  destruct (inv_list (db s) dir None) as [p [hs| | |e]]; try reflexivity.
  apply flat_map_ext. intro h. rewrite entry_of_Pl, IH. reflexivity.
Qed.

Theorem view_Pl c s : view (plain_of c) (Pl c s) = view c s.
Proof.
  unfold view. rewrite stat_s_Pl. destruct (stat_s s [slash] false) as [s1 [h| | |e]]; [|reflexivity|reflexivity|reflexivity].
  unfold liftP. cbn [fst snd]. rewrite entry_of_Pl, walk_Pl. reflexivity.
Qed.

Lemma observe_Pl c s o : observe (plain_of c) (Pl c s) o = observe c s o.
Proof. unfold observe. rewrite view_Pl. cbn [tp db Pl]. rewrite tape_blocks_efft. reflexivity. Qed.

(* THE OBSERVATIONS OF A RUN DO NOT DEPEND ON THE CODEC SUFFIXES *)
Theorem run_Pl c h : forall s, run (plain_of c) (Pl c s) h = run c s h.
Proof.
  induction h as [|[k e] r IH]; intros s; [reflexivity|]. cbn [run].
  rewrite with_env_Pl, (step_Pl c (with_env s e) k).
  destruct (step c (with_env s e) k) as [s' o]. unfold liftP. cbn [fst snd].
  rewrite observe_Pl, (IH s'). reflexivity.
Qed.

Corollary run_config_independent c h : run c init_sys h = run (plain_of c) init_sys h.
Proof. rewrite <- (run_Pl c h init_sys). reflexivity. Qed.

(* ---------- rebuild / replay of the tape *)
Lemma all_members_efft c t : all_members (efft c t) = map (effpm c) (all_members t).
Proof.
  unfold all_members. rewrite with_starts_efft.
  induction (with_starts t 0) as [|[a i] l IH]; [reflexivity|]. cbn [map flat_map]. rewrite map_app, IH. f_equal.
  destruct i; reflexivity.
Qed.

Lemma prefix_index_eff c t j : prefix_index (plain_of c) (efft c t) j = prefix_index c t j.
Proof.
  unfold prefix_index. rewrite all_members_efft, firstn_map.
  pose proof (index_loop_eff c false (firstn j (all_members t)) 0%nat 0%nat None p_empty) as E. cbn [option_map] in E.
  rewrite E. reflexivity.
Qed.

Lemma replay_into_eff c t p : replay_into (plain_of c) (efft c t) p = replay_into c t p.
Proof. unfold replay_into. apply (index_tape_eff c t 0 0 None false false p). Qed.

Lemma all_members_length_efft c t : length (all_members (efft c t)) = length (all_members t).
Proof. rewrite all_members_efft. apply map_length. Qed.
