(* T15 / Handle: handles obtained on a read-only instance (Model/File.v state machine and the whole-file handle calls of Model/Fs.v).
   The handle state machine [hstep] works on the handle's own state [hstate] (stream position, write buffer): it has no access to
   the tape or the index at all; those are touched only by Close of a handle that has a write buffer ([handle_close] with [Some b]),
   and a handle without the write flag never gets one ([nowrite] is invariant). *)
From Coq Require Import List NArith ZArith Bool.
Import ListNotations.
From STFS Require Import Str Db Tape Index Ops Fs File Diff Norm T15Def T15Db T15Step.
Open Scope N_scope.

Definition nowrite (h : hstate) : Prop := fl_write (hs_fl h) = false /\ hs_buf h = None.

Definition is_wop (o : hop) : bool :=
  match o with HWrite _ | HWriteAt _ _ | HTruncate _ => true | _ => false end.

Lemma h_open_nowrite existing fl : fl_write fl = false -> nowrite (h_open existing fl).
Proof. intro W. unfold nowrite, h_open. cbn. rewrite W. split; reflexivity. Qed.

(* the handle OpenFile returns on a read-only instance, as a state of the handle machine over the entry's content *)
Lemma h_open_ro_flags existing o : nowrite (h_open existing (ro_flags o)).
Proof. apply h_open_nowrite. reflexivity. Qed.

Ltac ifs := repeat match goal with |- context [if ?b then _ else _] => destruct b eqn:? end.

Definition keep (h h' : hstate) : Prop :=
  nowrite h' /\ hs_tape h' = hs_tape h /\ hs_isize h' = hs_isize h /\ hs_fl h' = hs_fl h.
Lemma keep_refl h : nowrite h -> keep h h.
Proof. intro N. repeat split; apply N. Qed.
Lemma keep_trans a b c : keep a b -> keep b c -> keep a c.
Proof. intros (A1 & A2 & A3 & A4) (B1 & B2 & B3 & B4). repeat split; try apply B1; congruence. Qed.

Lemma h_seek_keep h off w : nowrite h -> keep h (fst (h_seek h off w)).
Proof.
  destruct h as [tape isize rpos buf fl]. unfold nowrite, keep. cbn [hs_fl hs_buf]. intros [W B]. subst buf.
  unfold h_seek, seek_read; cbn [hs_fl hs_buf hs_rpos hs_tape hs_isize]. ifs; cbn [fst hs_fl hs_buf hs_tape hs_isize]; repeat split; assumption.
Qed.
Lemma h_read_keep h n : nowrite h -> keep h (fst (h_read h n)).
Proof.
  destruct h as [tape isize rpos buf fl]. unfold nowrite, keep. cbn [hs_fl hs_buf]. intros [W B]. subst buf.
  unfold h_read; cbn [hs_fl hs_buf hs_rpos hs_tape hs_isize]. ifs; cbn [fst hs_fl hs_buf hs_tape hs_isize]; repeat split; assumption.
Qed.

Lemma readat_keep h n off : nowrite h -> keep h (fst (hstep h (HReadAt n off))).
Proof.
  intro N. cbn [hstep]. destruct (negb (fl_read (hs_fl h))); [apply keep_refl; exact N|].
  pose proof (h_seek_keep h 0 1 N) as K0. destruct (h_seek h 0 1) as [h0 r0]. cbn [fst] in K0.
  destruct r0; try exact K0.
  pose proof (h_seek_keep h0 off 0 (proj1 K0)) as K1. destruct (h_seek h0 off 0) as [h1 r1]. cbn [fst] in K1.
  pose proof (keep_trans _ _ _ K0 K1) as K01.
  destruct r1; try exact K01.
  pose proof (h_read_keep h1 n (proj1 K1)) as K2. destruct (h_read h1 n) as [h2 r2]. cbn [fst] in K2.
  pose proof (keep_trans _ _ _ K01 K2) as K02.
  pose proof (h_seek_keep h2 o 0 (proj1 K2)) as K3. destruct (h_seek h2 o 0) as [h3 r3]. cbn [fst] in K3.
  pose proof (keep_trans _ _ _ K02 K3) as K03. destruct r3; exact K03.
Qed.

Theorem T15_hstep_nowrite h o : nowrite h ->
  nowrite (fst (hstep h o)) /\ hs_tape (fst (hstep h o)) = hs_tape h /\ hs_isize (fst (hstep h o)) = hs_isize h
  /\ hs_fl (fst (hstep h o)) = hs_fl h /\ (is_wop o = true -> snd (hstep h o) = RErr).
Proof.
  intro N. assert (K : keep h (fst (hstep h o)) /\ (is_wop o = true -> snd (hstep h o) = RErr)).
  { destruct o; cbn [is_wop]; try (split; [|discriminate]).
    - apply h_read_keep; exact N.
    - apply readat_keep; exact N.
    - apply h_seek_keep; exact N.
    - cbn [hstep]. rewrite (proj1 N). cbn [negb fst snd]. split; [apply keep_refl; exact N|reflexivity].
    - cbn [hstep]. rewrite (proj1 N). cbn [negb fst snd]. split; [apply keep_refl; exact N|reflexivity].
    - cbn [hstep]. rewrite (proj1 N). cbn [negb orb fst snd]. split; [apply keep_refl; exact N|reflexivity].
    - cbn [hstep]. rewrite (proj2 N). apply keep_refl; exact N.
    - apply keep_refl; exact N. }
  destruct K as [(A & B & C & D) E]. repeat split; try apply A; assumption.
Qed.

Theorem T15_hrun_nowrite : forall ops h, nowrite h ->
  nowrite (fst (hrun h ops)) /\ hs_tape (fst (hrun h ops)) = hs_tape h /\ hs_fl (fst (hrun h ops)) = hs_fl h
  /\ h_close (fst (hrun h ops)) = hs_tape h
  /\ Forall2 (fun o r => is_wop o = true -> r = RErr) ops (snd (hrun h ops)).
Proof.
  induction ops as [|o ops IH]; intros h N; cbn [hrun].
  - cbn [fst snd]. repeat split; try apply N. + unfold h_close. destruct N as [_ ->]. reflexivity. + constructor.
  - destruct (T15_hstep_nowrite h o N) as (N1 & T1 & _ & F1 & E1). destruct (hstep h o) as [h1 r]. cbn [fst snd] in *.
    destruct (IH h1 N1) as (N2 & T2 & F2 & C2 & A2). destruct (hrun h1 ops) as [h2 rs]. cbn [fst snd] in *.
    repeat split; try apply N2; try congruence. constructor; assumption.
Qed.

(* reads and seeks do not look at the append / truncate flags of a handle without write flag: the handle a writable instance
   returns for O_RDONLY (whatever else is set in the flag word) behaves the same *)
Definition hsim (a b : hstate) : Prop :=
  hs_tape a = hs_tape b /\ hs_isize a = hs_isize b /\ hs_rpos a = hs_rpos b /\ hs_buf a = None /\ hs_buf b = None
  /\ fl_read (hs_fl a) = fl_read (hs_fl b) /\ fl_write (hs_fl a) = false /\ fl_write (hs_fl b) = false.

Lemma h_seek_sim a b off w : hsim a b -> snd (h_seek a off w) = snd (h_seek b off w) /\ hsim (fst (h_seek a off w)) (fst (h_seek b off w)).
Proof.
  destruct a as [t1 i1 r1 b1 f1], b as [t2 i2 r2 b2 f2]. unfold hsim. cbn [hs_tape hs_isize hs_rpos hs_buf hs_fl].
  intros (-> & -> & -> & -> & -> & R & W1 & W2).
  unfold h_seek, seek_read; cbn [hs_fl hs_buf hs_rpos hs_tape hs_isize]; ifs; cbn [fst snd hs_fl hs_buf hs_tape hs_isize hs_rpos];
    repeat split; assumption.
Qed.
Lemma h_read_sim a b n : hsim a b -> snd (h_read a n) = snd (h_read b n) /\ hsim (fst (h_read a n)) (fst (h_read b n)).
Proof.
  destruct a as [t1 i1 r1 b1 f1], b as [t2 i2 r2 b2 f2]. unfold hsim. cbn [hs_tape hs_isize hs_rpos hs_buf hs_fl].
  intros (-> & -> & -> & -> & -> & R & W1 & W2).
  unfold h_read; cbn [hs_fl hs_buf hs_rpos hs_tape hs_isize]; rewrite R; ifs; cbn [fst snd hs_fl hs_buf hs_tape hs_isize hs_rpos];
    repeat split; assumption.
Qed.

Theorem T15_hstep_sim a b o : hsim a b -> snd (hstep a o) = snd (hstep b o) /\ hsim (fst (hstep a o)) (fst (hstep b o)).
Proof.
  intro S. pose proof S as (_ & _ & _ & B1 & B2 & R & W1 & W2). destruct o; cbn [hstep].
  - apply h_read_sim; exact S.
  - rewrite R. destruct (negb (fl_read (hs_fl b))); [split; [reflexivity|exact S]|].
    destruct (h_seek_sim a b 0 1 S) as [E0 S0]. destruct (h_seek a 0 1) as [a0 x0], (h_seek b 0 1) as [b0 y0]. cbn [fst snd] in *. subst y0.
    destruct x0; try (split; [reflexivity|exact S0]).
    destruct (h_seek_sim a0 b0 off 0 S0) as [E1 S1]. destruct (h_seek a0 off 0) as [a1 x1], (h_seek b0 off 0) as [b1 y1]. cbn [fst snd] in *. subst y1.
    destruct x1; try (split; [reflexivity|exact S1]).
    destruct (h_read_sim a1 b1 n S1) as [E2 S2]. destruct (h_read a1 n) as [a2 x2], (h_read b1 n) as [b2 y2]. cbn [fst snd] in *. subst y2.
    destruct (h_seek_sim a2 b2 o 0 S2) as [E3 S3]. destruct (h_seek a2 o 0) as [a3 x3], (h_seek b2 o 0) as [b3 y3]. cbn [fst snd] in *. subst y3.
    destruct x3; split; try reflexivity; exact S3.
  - apply h_seek_sim; exact S.
  - rewrite W1, W2. split; [reflexivity|exact S].
  - rewrite W1, W2. split; [reflexivity|exact S].
  - rewrite W1, W2. split; [reflexivity|exact S].
  - rewrite B1, B2. split; [reflexivity|exact S].
  - rewrite B1, B2. pose proof S as (_ & I & _). rewrite I. split; [reflexivity|exact S].
Qed.

Theorem T15_hrun_sim : forall ops a b, hsim a b ->
  snd (hrun a ops) = snd (hrun b ops) /\ hsim (fst (hrun a ops)) (fst (hrun b ops)) /\ h_close (fst (hrun a ops)) = h_close (fst (hrun b ops)).
Proof.
  induction ops as [|o ops IH]; intros a b S; cbn [hrun].
  - cbn [fst snd]. split; [reflexivity|]. split; [exact S|]. unfold h_close. destruct S as (T & _ & _ & B1 & B2 & _). rewrite B1, B2. exact T.
  - destruct (T15_hstep_sim a b o S) as [E S1]. destruct (hstep a o) as [a1 x], (hstep b o) as [b1 y]. cbn [fst snd] in *. subst y.
    destruct (IH a1 b1 S1) as (E2 & S2 & C2). destruct (hrun a1 ops) as [a2 xs], (hrun b1 ops) as [b2 ys]. cbn [fst snd] in *.
    subst ys. repeat split; try apply S2; assumption.
Qed.

(* O_RDONLY handle of the read-only instance vs. O_RDONLY handle of the writable twin, any other bits of the flag word *)
Corollary T15_rdonly_handle_as_writable c o existing ops : ro c -> o_acc o = 0 ->
  snd (hrun (h_open existing (decode_flags c o)) ops) = snd (hrun (h_open existing (decode_flags (wr c) o)) ops)
  /\ h_close (fst (hrun (h_open existing (decode_flags c o)) ops)) = h_close (fst (hrun (h_open existing (decode_flags (wr c) o)) ops)).
Proof.
  intros R A. rewrite (decode_flags_ro c o R).
  assert (S : hsim (h_open existing (ro_flags o)) (h_open existing (decode_flags (wr c) o))).
  { unfold hsim, h_open, decode_flags, ro_flags. cbn. rewrite A. cbn. repeat split. }
  destruct (T15_hrun_sim ops _ _ S) as (E & _ & C). split; assumption.
Qed.

(* the handle of a read-only instance, any flag word: every write operation is refused, the content stays the tape's *)
Corollary T15_ro_handle_ops c o existing ops : ro c ->
  let '(h, rs) := hrun (h_open existing (decode_flags c o)) ops in
  Forall2 (fun op r => is_wop op = true -> r = RErr) ops rs /\ h_close h = existing /\ hs_buf h = None.
Proof.
  intro R. rewrite (decode_flags_ro c o R).
  destruct (T15_hrun_nowrite ops _ (h_open_ro_flags existing o)) as (N & _ & _ & C & F).
  destruct (hrun (h_open existing (ro_flags o)) ops) as [h rs]. cbn [fst snd] in *. split; [exact F|]. split; [exact C|apply N].
Qed.

(* the whole-file handle calls of Model/Fs.v on such a handle, for ANY configuration and state (T15Step):
   [T15_handle_write_refused], [T15_handle_close_nobuf], [T15_write_close_ro] : the state is returned as it was *)

Print Assumptions T15_ro_handle_ops.
Print Assumptions T15_rdonly_handle_as_writable.
