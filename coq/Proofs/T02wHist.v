(* T02w / histories that may contain CWriteFile: the vocabulary of T02Spec.v ([spec_call], [call_pre], [T02_step],
   [T02_history]) and of T04Content.v ([upd_w], [call_pre4], [T04_step], [T04_history], [ok_run4], [last_written])
   extended with the CWriteFile case.  The existing definitions are untouched (the statements of T02Spec.v /
   T04Content.v, and Props/C02.v, Props/C04.v that re-export them, stand as they are); the extended versions coincide
   with them on every other call kind:  spec_call_w q a k = spec_call c a k,  call_pre_w q a k <-> call_pre a k,
   upd_ww k = upd_w k,  call_pre4w hr a k = call_pre4 hr k  for k not a CWriteFile.

   [q = true]: CWriteFile against [spec_write_file_q true] (every flag combination, nothing excluded);
   [q = false]: against the reference [spec_write_file], the corners W1-W3 of T02wNs.v excluded.

   The ghost map of T04 (name -> content last written) cannot tell a directory from a missing name (both read None),
   so the content histories exclude one more call ([dir_create_corner], T02wCounter.v (W4)): O_CREATE (without
   O_EXCL) on an existing DIRECTORY opened read-only with nothing written - it succeeds and changes nothing, and the
   ghost update would take it for a creation.  [T04_write_file] (T02wSpec.v) covers that call too. *)
From Coq Require Import List NArith ZArith Bool Lia.
From Coq Require Import ZifyN ZifyBool.
Import ListNotations.
From STFS Require Import Str Db Tape Index Ops Fs File Diff Norm TapeLemmas Append StrLemmas
  C01Str C01Db C01Inv C01Sim C01Tape C01Hdr C01Ops C01Ops2 C01Reads C01Fs C01Fs2 C01Rows
  T02Ns T02Db T02Ops T02Reads T02Str T02Closed T02Move T02Calls T02Rename T02MkdirAll T02Create T02Spec
  T04Def T04Tape T04Ops T04Create T04Ns T04Content C14Refine T02wNs T02wStr T02wCore T02wSpec.
Open Scope N_scope.

(* ---------- the ghost update of the contents, with CWriteFile *)
Definition upd_ww (k : call) (oc : outc) (w : wmap) : wmap :=
  match k with
  | CWriteFile n o perm d force =>
    match oc with
    | OOk => fun m => if eqb_str m n
                      then match w n with
                           | Some old => Some (spec_data o d force old)
                           | None => if o_create o then Some (spec_data o d force []) else None
                           end
                      else w m
    | OPerm => fun m => if eqb_str m n then Some (old_content (w n)) else w m     (* a created file stays *)
    | _ => w
    end
  | _ => upd_w k oc w
  end.

Fixpoint last_written_w (c : cfg) (s : sys) (h : list (call * env)) (w : wmap) : wmap :=
  match h with
  | [] => w
  | (k, e) :: r => let '(s', o) := step c (with_env s e) k in last_written_w c s' r (upd_ww k o w)
  end.

(* O_CREATE on an existing directory, opened read-only, nothing written *)
Definition dir_create_corner (a : ns) (n : str) (o : oflag) (d : content) (force : bool) : bool :=
  match lookup a n with
  | Some v => is_dir v && o_create o && negb (o_excl o) && negb (wr_acc o || o_trunc o || o_append o || writes d force)
  | None => false
  end.

Lemma spec_data_congr o d force x y : expand x = expand y -> expand (spec_data o d force x) = expand (spec_data o d force y).
Proof.
  intro H. unfold spec_data. destruct (wr_acc o && writes d force).
  - destruct (o_trunc o); [reflexivity|]. destruct (o_append o); [apply coverlay_congr_end|apply coverlay_congr]; auto.
  - destruct (wr_acc o && o_trunc o); [reflexivity|exact H].
Qed.

Lemma upd_ww_rel k oc f g m : (oc = OOk -> wgood k) -> (forall x, good x -> content_eq (f x) (g x)) -> good m ->
  content_eq (upd_ww k oc f m) (upd_ww k oc g m).
Proof.
  intros Hw H Gm.
  destruct k; try (apply (upd_w_rel content_eq); [apply content_eq_refl|exact Hw|exact H|exact Gm]).
  cbn [upd_ww]. destruct oc; try (apply H; exact Gm).
  - destruct (eqb_str m n) eqn:E; [|apply H; exact Gm]. apply eqb_str_eq in E. subst m.
    pose proof (H n Gm) as K. destruct (f n) as [x|], (g n) as [y|]; cbn [content_eq] in K |- *; try contradiction.
    + apply spec_data_congr. exact K.
    + destruct (o_create o); [reflexivity|exact I].
  - destruct (eqb_str m n) eqn:E; [|apply H; exact Gm]. apply eqb_str_eq in E. subst m.
    pose proof (H n Gm) as K. destruct (f n) as [x|], (g n) as [y|]; cbn [content_eq old_content] in K |- *; try contradiction; auto.
Qed.

(* the reference content is the ghost update of the content before *)
Lemma spec_content_upd c a n o perm d force now cid (w : wmap) :
  match lookup a n with Some v => if is_dir v then w n = None else w n <> None | None => w n = None end ->
  dir_create_corner a n o d force = false ->
  spec_content a n o d force (w n) =
  upd_ww (CWriteFile n o perm d force) (snd (spec_write_file_q true c a n o perm d force now cid)) w n.
Proof.
  unfold dir_create_corner, spec_content, spec_write_file_q. cbn [upd_ww].
  destruct (lookup a n) as [v|] eqn:Ln.
  - destruct (is_dir v) eqn:Ed.
    + intros Hw Hc. rewrite Hw.
      destruct (o_create o) eqn:E1, (o_excl o) eqn:E2, (wr_acc o) eqn:E3, (o_trunc o) eqn:E4, (o_append o) eqn:E5, (writes d force) eqn:E6;
        cbn [andb orb negb snd] in Hc |- *; rewrite ?eqb_str_refl, ?Hw; try reflexivity; discriminate.
    + intros Hw _. destruct (w n) as [x|] eqn:Ew; [|contradiction]. cbn [old_content].
      destruct (o_create o && o_excl o); cbn [snd]; [rewrite Ew; reflexivity|].
      unfold rw_node. destruct (writes d force) eqn:E4, (wr_acc o) eqn:E5; cbn [negb andb orb snd].
      * rewrite eqb_str_refl. reflexivity.
      * rewrite eqb_str_refl. unfold spec_data. rewrite E5. reflexivity.
      * destruct (o_trunc o && negb (n_size v =? 0)); cbn [snd]; rewrite eqb_str_refl; reflexivity.
      * rewrite eqb_str_refl. reflexivity.
  - intros Hw _. rewrite Hw. destruct (o_create o) eqn:E1; cbn [andb snd]; [|rewrite ?Hw; reflexivity].
    unfold spec_parent. destruct (lookup a (path_dir n)) as [pd|]; cbn [outc_eqb snd]; [|rewrite ?Hw; reflexivity].
    destruct (is_dir pd); cbn [outc_eqb snd]; [|rewrite ?Hw; reflexivity].
    assert (K : forall (X : node -> ns) (Y : ns),
              snd (let (o0, e) := rw_node true o d force now cid (new_node c false perm now cid) in
                   match o0 with Some v' => (X v', e) | None => (Y, e) end)
              = snd (rw_node true o d force now cid (new_node c false perm now cid))).
    { intros X Y. destruct (rw_node true o d force now cid _) as [[v'|] e]; reflexivity. }
    rewrite (K (fun v' => ns_set a n v')). unfold rw_node. destruct (writes d force) eqn:E4, (wr_acc o) eqn:E5; cbn [negb andb orb snd].
    + rewrite eqb_str_refl. reflexivity.
    + rewrite eqb_str_refl. cbn [old_content]. unfold spec_data. rewrite E5. reflexivity.
    + destruct (o_trunc o && negb (n_size (new_node c false perm now cid) =? 0)); cbn [snd]; rewrite eqb_str_refl; reflexivity.
    + rewrite eqb_str_refl. reflexivity.
Qed.

Section Hist.
Variable hr : bool.
Variable c : cfg.
Hypothesis HP : plain c.
Hypothesis Hrs : 0 < c_rs c.
Hypothesis Hro : c_readonly c = false.

(* ================= T02: outcomes and namespaces ================= *)
Definition spec_call_w (q : bool) (a : ns) (k : call) (now : Z) (cid : N * N) : option (ns * outc) :=
  match k with
  | CWriteFile n o perm d force => Some (spec_write_file_q q c a n o perm d force now cid)
  | _ => spec_call c a k now cid
  end.

Definition call_pre_w (q : bool) (a : ns) (k : call) : Prop :=
  match k with
  | CWriteFile n o perm d force => good n /\ write_bound a n d /\ (q = false -> write_corner a n o d force = false)
  | _ => call_pre a k
  end.

Lemma call_pre_pre4 a k : call_pre a k -> call_pre4 hr k.
Proof. destruct k; cbn [call_pre call_pre4]; try tauto. intros (G & H1 & _). split; assumption. Qed.

Theorem T02_step_w : forall q s e k, Good4 hr c s -> hb_env e -> call_pre_w q (abs s) k ->
  let '(s', o) := step c (with_env s e) k in
  exists cid sp, spec_call_w q (abs s) k (ev_now e) cid = Some sp /\
    Good4 hr c s' /\ o = snd sp /\ ns_eq (abs s') (fst sp).
Proof.
  intros q s e k H4 Hhb Hpre.
  assert (OLD : call_pre (abs s) k -> spec_call_w q (abs s) k = spec_call c (abs s) k ->
    let '(s', o) := step c (with_env s e) k in
    exists cid sp, spec_call_w q (abs s) k (ev_now e) cid = Some sp /\ Good4 hr c s' /\ o = snd sp /\ ns_eq (abs s') (fst sp)).
  { intros Hp Es. pose proof (T02_step hr c HP Hrs Hro s e k (g4_good _ _ _ H4) Hhb Hp) as K.
    pose proof (T04_step hr c HP Hrs Hro s e k H4 Hhb (call_pre_pre4 _ _ Hp)) as K4.
    destruct (step c (with_env s e) k) as [s' o]. destruct K as (cid & sp & E & _ & Eo & Eq). destruct K4 as (H4' & _).
    exists cid, sp. rewrite Es. split; [exact E|]. split; [exact H4'|]. split; assumption. }
  destruct k; try (apply OLD; [exact Hpre|reflexivity]).
  clear OLD. cbn [call_pre_w] in Hpre. destruct Hpre as (G & Hb & Hc). cbn [spec_call_w].
  destruct q.
  - pose proof (T02_write_file_exact hr c HP Hrs Hro s e n o perm d force H4 Hhb G Hb) as K.
    destruct (step c (with_env s e) (CWriteFile n o perm d force)) as [s' oc]. destruct K as (cid & K).
    exists cid. eexists. split; [reflexivity|exact K].
  - pose proof (T02_write_file hr c HP Hrs Hro s e n o perm d force H4 Hhb G (conj Hb (Hc eq_refl))) as K.
    destruct (step c (with_env s e) (CWriteFile n o perm d force)) as [s' oc]. destruct K as (cid & K).
    exists cid. eexists. split; [reflexivity|exact K].
Qed.

(* a history each of whose calls meets its precondition in the state in which it is issued *)
Fixpoint ok_run_w (q : bool) (s : sys) (r : list (call * env)) : Prop :=
  match r with
  | [] => True
  | (k, e) :: r' => hb_env e /\ call_pre_w q (abs s) k /\ ok_run_w q (fst (step c (with_env s e) k)) r'
  end.

(* every call of the history returns the reference outcome and has the reference effect *)
Fixpoint conforms_w (q : bool) (s : sys) (r : list (call * env)) : Prop :=
  match r with
  | [] => True
  | (k, e) :: r' =>
    let '(s', o) := step c (with_env s e) k in
    (exists cid sp, spec_call_w q (abs s) k (ev_now e) cid = Some sp /\ o = snd sp /\ ns_eq (abs s') (fst sp)) /\
    conforms_w q s' r'
  end.

Theorem T02_history_w : forall q r s, Good4 hr c s -> ok_run_w q s r -> conforms_w q s r /\ Good4 hr c (final c s r).
Proof.
  intro q. induction r as [|[k e] r IH]; intros s HG Hok; cbn [ok_run_w conforms_w final] in *; [split; [exact I|exact HG]|].
  destruct Hok as (Hhb & Hpre & Hrest). pose proof (T02_step_w q s e k HG Hhb Hpre) as K.
  destruct (step c (with_env s e) k) as [s' o]. cbn [fst] in *. destruct K as (cid & sp & E & HG' & Eo & Eq).
  destruct (IH s' HG' Hrest) as (A & B). split; [|exact B]. split; [|exact A].
  exists cid, sp. split; [exact E|]. split; assumption.
Qed.

(* the extended vocabulary coincides with the old one on histories without CWriteFile *)
Definition no_write (k : call) : Prop := match k with CWriteFile _ _ _ _ _ => False | _ => True end.
Lemma spec_call_w_old q a k now cid : no_write k -> spec_call_w q a k now cid = spec_call c a k now cid.
Proof. destruct k; cbn; try reflexivity. contradiction. Qed.
Lemma call_pre_w_old q a k : no_write k -> call_pre_w q a k = call_pre a k.
Proof. destruct k; cbn; try reflexivity. contradiction. Qed.

(* ================= T04: contents ================= *)
Definition call_pre4w (a : ns) (k : call) : Prop :=
  match k with
  | CWriteFile n o perm d force => good n /\ write_bound a n d /\ dir_create_corner a n o d force = false
  | _ => call_pre4 hr k
  end.

Lemma upd_ww_old k o w : no_write k -> upd_ww k o w = upd_w k o w.
Proof. destruct k; cbn; try reflexivity. contradiction. Qed.

(* a live file reads some content; a directory and a missing name read nothing *)
Lemma content_of_kinds s n : Good4 hr c s -> good n ->
  match lookup (abs s) n with
  | Some v => if is_dir v then content_of c s n = None else content_of c s n <> None
  | None => content_of c s n = None
  end.
Proof.
  intros H4 G. pose proof (wf_inv _ _ _ (g_wf _ _ _ (g4_good _ _ _ H4))) as HI.
  rewrite (content_of_abs hr c s n HI G). destruct (lookup (abs s) n) as [v|] eqn:Ln; [|reflexivity].
  destruct (is_dir v) eqn:Ed.
  - apply cof_dir. apply N.eqb_eq. exact Ed.
  - assert (Hreg : tf_regular (n_tf v) = true).
    { unfold is_dir in Ed. destruct (g4_kinds _ _ _ H4 n v Ln) as [K|K]; rewrite K in Ed |- *; [discriminate|reflexivity]. }
    destruct (g4_des _ _ _ H4 n v Ln Hreg) as (m & Hm & _). rewrite (cof_member c (tp s) v m Hreg Hm). discriminate.
Qed.

Theorem T04_step_w : forall s e k, Good4 hr c s -> hb_env e -> call_pre4w (abs s) k ->
  let '(s', o) := step c (with_env s e) k in
  Good4 hr c s' /\ (o = OOk -> wgood k) /\
  forall m, good m -> content_eq (content_of c s' m) (upd_ww k o (content_of c s) m).
Proof.
  intros s e k H4 Hhb Hpre.
  destruct k; try exact (T04_step hr c HP Hrs Hro s e _ H4 Hhb Hpre).
  cbn [call_pre4w] in Hpre. destruct Hpre as (G & Hb & Hc).
  pose proof (write_file_all hr c HP Hrs Hro s e n o perm d force H4 Hhb G Hb) as K.
  destruct (step c (with_env s e) (CWriteFile n o perm d force)) as [s' oc]. destruct K as (cid & A & B & _ & D & E).
  cbn zeta in B. split; [exact A|]. split; [intros _; exact I|]. intros m Gm.
  destruct (eqb_str m n) eqn:Em.
  - apply eqb_str_eq in Em. subst m.
    rewrite (spec_content_upd c (abs s) n o perm d force (ev_now e) cid (content_of c s)) in E; [|exact (content_of_kinds s n H4 G)|exact Hc].
    rewrite B. exact E.
  - apply content_eq_of_eq. rewrite (D m Gm (proj1 (eqb_str_neq m n) Em)).
    cbn [upd_ww]. destruct oc; try reflexivity; rewrite Em; reflexivity.
Qed.

Fixpoint ok_run4w (s : sys) (r : list (call * env)) : Prop :=
  match r with
  | [] => True
  | (k, e) :: r' => hb_env e /\ call_pre4w (abs s) k /\ ok_run4w (fst (step c (with_env s e) k)) r'
  end.

(* what is read at the end of a history is what the history last wrote *)
Theorem T04_history_w : forall r s w, Good4 hr c s -> ok_run4w s r ->
  (forall m, good m -> content_eq (content_of c s m) (w m)) ->
  Good4 hr c (final c s r) /\
  forall m, good m -> content_eq (content_of c (final c s r) m) (last_written_w c s r w m).
Proof.
  induction r as [|[k e] r IH]; intros s w H4 Hok Hw; cbn [ok_run4w final last_written_w] in *; [split; [exact H4|exact Hw]|].
  destruct Hok as (Hhb & Hpre & Hrest). pose proof (T04_step_w s e k H4 Hhb Hpre) as K.
  destruct (step c (with_env s e) k) as [s' o]. cbn [fst] in *. destruct K as (H4' & Wg & B).
  apply (IH s' (upd_ww k o w) H4' Hrest). intros m Gm.
  eapply content_eq_trans; [apply B; exact Gm|].
  apply upd_ww_rel; [exact Wg|exact Hw|exact Gm].
Qed.

(* the invariant form (C04), for histories with CWriteFile: the position of every live regular row designates a
   content record of the row, and the data it carries is what was last written under the row's name *)
Theorem T04_positions_designate_content_w : forall r s w, Good4 hr c s -> ok_run4w s r ->
  (forall m, good m -> content_eq (content_of c s m) (w m)) ->
  forall x, In x (rows (db (final c s r))) -> live x = true -> tf_regular (r_tf x) = true ->
  exists m, member_at (tp (final c s r)) (off_of (c_rs c) (r_rec x) (r_blk x)) = Some m /\
            is_content_record m (r_size x) /\
            content_eq (Some (mdata m)) (last_written_w c s r w (r_name x)).
Proof.
  intros r s w H4 Hok Hw x Hin Hlive Hreg.
  destruct (T04_history_w r s w H4 Hok Hw) as (H4' & Hc). set (s' := final c s r) in *.
  pose proof (wf_inv _ _ _ (g_wf _ _ _ (g4_good _ _ _ H4'))) as HI'. pose proof (iv_li hr c s' HI') as HL'.
  assert (Hnd : NoDup (map r_name (rows (db s')))) by apply HL'.
  assert (Gx : good (r_name x)).
  { assert (Hrows : Forall rowok (rows (db s'))) by apply HL'. rewrite Forall_forall in Hrows. apply (Hrows x Hin). }
  assert (Ef : find_rows (rows (db s')) (r_name x) = Some x) by (apply find_rows_self; assumption).
  assert (Lx : lookup (abs s') (r_name x) = Some (node_of x)) by (rewrite (lookup_abs hr c s' _ HI'); unfold look; rewrite Ef; reflexivity).
  destruct (g4_des _ _ _ H4' (r_name x) (node_of x) Lx Hreg) as (m & Hm & Hrec).
  assert (Ecid : n_cid (node_of x) = (r_rec x, r_blk x)) by (unfold node_of; cbn [n_cid]; rewrite Hreg; reflexivity).
  rewrite Ecid in Hm. cbn [fst snd] in Hm. exists m. split; [exact Hm|]. split; [exact Hrec|].
  specialize (Hc (r_name x) Gx). rewrite (content_of_abs hr c s' _ HI' Gx), Lx in Hc.
  rewrite (cof_member c (tp s') (node_of x) m Hreg) in Hc; [exact Hc|]. rewrite Ecid. exact Hm.
Qed.
End Hist.

(* ---------- from the empty system: Initialize "/" and then any history of filesystem calls, CWriteFile included *)
Theorem T02w_reachable : forall c e0 r q, plain c -> 0 < c_rs c -> c_readonly c = false -> hb_env e0 ->
  let s0 := fst (step c (with_env init_sys e0) (CInitialize [slash])) in
  ok_run_w c q s0 r ->
  conforms_w c q s0 r /\ Good4 true c (final c s0 r).
Proof.
  intros c e0 r q HP Hrs Hro Hhb s0 Hok. destruct (Good4_init c e0 Hrs Hro Hhb) as (H4 & _).
  exact (T02_history_w true c HP Hrs Hro q r s0 H4 Hok).
Qed.

Theorem T04w_reachable : forall c e0 r, plain c -> 0 < c_rs c -> c_readonly c = false -> hb_env e0 ->
  let s0 := fst (step c (with_env init_sys e0) (CInitialize [slash])) in
  ok_run4w true c s0 r ->
  Good4 true c (final c s0 r) /\
  forall m, good m -> content_eq (content_of c (final c s0 r) m) (last_written_w c s0 r w_empty m).
Proof.
  intros c e0 r HP Hrs Hro Hhb s0 Hok. destruct (Good4_init c e0 Hrs Hro Hhb) as (H4 & Hnone).
  apply (T04_history_w true c HP Hrs Hro r s0 w_empty H4 Hok).
  intros m Gm. fold s0 in Hnone. rewrite (Hnone m Gm). exact I.
Qed.

Print Assumptions T02_step_w.
Print Assumptions T02_history_w.
Print Assumptions T04_step_w.
Print Assumptions T04_history_w.
Print Assumptions T04_positions_designate_content_w.
Print Assumptions T02w_reachable.
Print Assumptions T04w_reachable.
