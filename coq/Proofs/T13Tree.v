(* T13 (property C13): the index is a well-formed tree after every history of filesystem-level calls.

   [wf_tree p] (Proofs/T13Def.v), over the LIVE rows of p:
     (i)   no two live rows have the same name;
     (ii)  every live row other than the root "/" has a live row named [path_dir] of its name whose typeflag is TypeDir;
     (iii) every live name is a cleaned absolute name ([good], Proofs/C01Str.v).

   HYPOTHESES of the main theorem, beyond those of the statement proposed in TASK.md: none.  They are the
   hypotheses TASK.md lists: plain configuration (c_csuf c = [] and c_esuf c = []), [hb_ok] (header-block counts
   >= 1), [call_ok] (no Remove / RemoveAll of the root, no Rename onto the root), [fs_call] (filesystem-level calls
   with absolute names).  No counterexample was found on the corner cases listed in TASK.md (see the end of this
   file: Rename of a directory below a regular file, MkdirAll through a file, Remove of a non-empty directory,
   CreateFile below a missing parent, WriteFile below a file, Rename onto a file / a non-empty directory / into
   the own subtree / of a child onto its parent, Create on a directory are all REFUSED by the model and the tree
   stays well formed); each is checked here by computation.

   Structure of the proof: the C01 invariant [Inv] gives unique good names and empty link names for ALL rows
   (tombstones included).  On top of it, [wfm (tfo (rows p))] says that the type map of the live rows is closed
   under parents; T13Eff computes the effect of replaying one header on that map, T13Ops/T13Ops2 the effect of
   the four write operations (create, update, delete = the whole subtree, move = re-rooting the whole subtree),
   T13Map shows each effect preserves [wfm] under the checks the afero-level calls make, T13Fs lifts this to
   every call of the alphabet. *)
From Coq Require Import String List NArith ZArith Bool Lia.
From Coq Require Import ZifyN ZifyBool.
Import ListNotations.
From STFS Require Import Str Db Tape Index Ops Fs Diff Norm TapeLemmas
  C01Str C01Db C01Inv C01Sim C01Tape C01Hdr C01Ops C01Ops2 C01Reads C01Fs C01Fs2 C01Rows
  T13Path T13Def T13Map T13Eff T13Ops T13Ops2 T13Fs T13ListStr T13List T13View.
Open Scope N_scope.

Section Main.
Variable c : cfg.
Hypothesis HP : plain c.
Hypothesis Hrs : 0 < c_rs c.
Hypothesis Hro : c_readonly c = false.

Lemma init_t e : forallb (fun x => 0 <? x) (ev_hb e) = true ->
  OKt true c (fst (step c (with_env init_sys e) (CInitialize [slash]))).
Proof.
  intro Hhb. destruct (init_ok c Hrs Hro e Hhb) as [A B]. split; [exact A|]. split; [exact B|].
  destruct (init_eq c Hrs Hro e Hhb) as (m & r0 & s1 & E & _ & _ & Er & Em). rewrite E. cbn [fst db rows].
  intros cs c0 Hcs Hc0 Hl. exfalso. apply Hl. unfold tfo. cbn [find].
  assert (En : r_name r0 = [slash]) by (rewrite Er, Em; reflexivity). rewrite En.
  assert (Hne : eqb_str [slash] (pth (cs ++ [c0])) = false).
  { apply eqb_str_neq. intro K. symmetry in K. apply pth_root_iff in K; [destruct cs; discriminate|].
    apply Forall_app. split; [exact Hcs|constructor; [exact Hc0|constructor]]. }
  rewrite Hne, andb_false_r. reflexivity.
Qed.

Lemma final_t r : forall s, OKt true c s ->
  forallb (fun ke => fs_call (fst ke)) r = true ->
  forallb (fun ke => call_ok (fst ke)) r = true ->
  forallb hb_ok r = true ->
  OKt true c (final c s r).
Proof.
  induction r as [|[k e] r IH]; intros s HO H1 H2 H3; cbn [final]; [exact HO|].
  cbn [forallb fst] in H1, H2, H3.
  apply andb_true_iff in H1 as [K1 H1]. apply andb_true_iff in H2 as [K2 H2]. apply andb_true_iff in H3 as [K3 H3].
  assert (HO' : OKt true c (with_env s e)).
  { destruct HO as (A & _ & W). split; [eapply Inv_ext; [| |exact A]; reflexivity|]. split; [apply (hbok_env c Hrs); exact K3|exact W]. }
  destruct (step_t true c HP Hrs Hro (with_env s e) k HO' K1 K2 (fun _ => eq_refl)) as (s' & o & E & A).
  rewrite E. cbn [fst]. apply IH; assumption.
Qed.
End Main.

Lemma OKt_wf hr c s : OKt hr c s -> wf_tree (db s) /\ idx_plain (db s).
Proof.
  intros (HI & _ & W). pose proof (iv_li hr c s HI) as HL. split.
  - apply wf_of_wfm; [apply HL|apply HL|exact W].
  - split; [apply HL|]. assert (H : Forall rowok (rows (db s))) by apply HL.
    eapply Forall_impl; [|exact H]. intros r (_ & K & _). exact K.
Qed.

Lemma all_histories_OKt : forall c e r, 0 < c_rs c -> c_readonly c = false -> c_csuf c = [] -> c_esuf c = [] ->
  forallb hb_ok ((CInitialize [slash], e) :: r) = true ->
  forallb (fun ke => call_ok (fst ke)) r = true -> forallb (fun ke => fs_call (fst ke)) r = true ->
  OKt true c (final c init_sys ((CInitialize [slash], e) :: r)).
Proof.
  intros c e r Hrs Hro Hc He Hhb Hok Hfs. cbn [final].
  cbn [forallb] in Hhb. apply andb_true_iff in Hhb as [Hb0 Hb].
  assert (HP : plain c) by (split; assumption).
  apply (final_t c HP Hrs Hro r _ (init_t c Hrs Hro e Hb0) Hfs Hok Hb).
Qed.

(* MAIN THEOREM (TASK.md item 1) *)
Theorem T13_wf_all_histories : forall c e r, 0 < c_rs c -> c_readonly c = false -> c_csuf c = [] -> c_esuf c = [] ->
  forallb hb_ok ((CInitialize [slash], e) :: r) = true ->
  forallb (fun ke => call_ok (fst ke)) r = true -> forallb (fun ke => fs_call (fst ke)) r = true ->
  wf_tree (db (final c init_sys ((CInitialize [slash], e) :: r))).
Proof. intros. eapply OKt_wf. apply all_histories_OKt; assumption. Qed.

(* the same histories keep the cached root "/" and never store a link name: the side conditions of the
   listing theorem (Proofs/T13List.v) hold on every reachable state *)
Theorem T13_plain_all_histories : forall c e r, 0 < c_rs c -> c_readonly c = false -> c_csuf c = [] -> c_esuf c = [] ->
  forallb hb_ok ((CInitialize [slash], e) :: r) = true ->
  forallb (fun ke => call_ok (fst ke)) r = true -> forallb (fun ke => fs_call (fst ke)) r = true ->
  idx_plain (db (final c init_sys ((CInitialize [slash], e) :: r))).
Proof. intros. eapply OKt_wf. apply all_histories_OKt; assumption. Qed.

(* stronger facts available on every reachable state: names are unique among ALL rows (tombstones included),
   and the root row is live *)
Theorem T13_root_live_all_histories : forall c e r, 0 < c_rs c -> c_readonly c = false -> c_csuf c = [] -> c_esuf c = [] ->
  forallb hb_ok ((CInitialize [slash], e) :: r) = true ->
  forallb (fun ke => call_ok (fst ke)) r = true -> forallb (fun ke => fs_call (fst ke)) r = true ->
  exists q, In q (lrows (db (final c init_sys ((CInitialize [slash], e) :: r)))) /\ r_name q = [slash].
Proof.
  intros c e r H1 H2 H3 H4 H5 H6 H7.
  destruct (all_histories_OKt c e r H1 H2 H3 H4 H5 H6 H7) as (HI & _ & _).
  pose proof (iv_li true c _ HI) as HL. destruct (ll_head true _ (li_ll true _ HL) eq_refl) as (r0 & tl & E & A & B).
  exists r0. split; [|exact A]. unfold lrows. rewrite E. cbn [filter]. unfold live. rewrite B. left. reflexivity.
Qed.

(* ---------- items 2 and 3 on every reachable state (Proofs/T13List.v, Proofs/T13View.v) *)
Theorem T13_listing_all_histories : forall c e r, 0 < c_rs c -> c_readonly c = false -> c_csuf c = [] -> c_esuf c = [] ->
  forallb hb_ok ((CInitialize [slash], e) :: r) = true ->
  forallb (fun ke => call_ok (fst ke)) r = true -> forallb (fun ke => fs_call (fst ke)) r = true ->
  let p := db (final c init_sys ((CInitialize [slash], e) :: r)) in
  forall d, good d ->
    exists l, snd (get_direct_children p d None) = Ok l /\
      l = filter (fun x => live x && negb (eqb_str (r_name x) [slash]) && eqb_str (path_dir (r_name x)) d) (rows p) /\
      NoDup (map r_name l) /\
      (forall x, In x l <-> (In x (lrows p) /\ r_name x <> [slash] /\ path_dir (r_name x) = d)) /\
      (forall k lk, snd (get_direct_children p d (Some k)) = Ok lk -> exists j, (j <= k)%nat /\ lk = firstn j l).
Proof.
  intros c e r H1 H2 H3 H4 H5 H6 H7 p d G.
  destruct (OKt_wf true c _ (all_histories_OKt c e r H1 H2 H3 H4 H5 H6 H7)) as (W & I). fold p in W, I.
  destruct (T13_root_live_all_histories c e r H1 H2 H3 H4 H5 H6 H7) as (q & Q1 & Q2). fold p in Q1.
  destruct (T13_listing_total_root_live p d None I G (ex_intro _ q (conj Q1 Q2))) as (l & El).
  exists l. split; [exact El|]. split; [apply T13_listing_exact; assumption|].
  split; [apply (T13_listing_nodup_names p d l W I G El)|].
  split; [apply (T13_listing_in p d l W I G El)|].
  intros k lk Hk. apply (T13_listing_limited_prefix p d k l lk I G El Hk).
Qed.

Theorem T13_view_all_histories : forall c e r, 0 < c_rs c -> c_readonly c = false -> c_csuf c = [] -> c_esuf c = [] ->
  forallb hb_ok ((CInitialize [slash], e) :: r) = true ->
  forallb (fun ke => call_ok (fst ke)) r = true -> forallb (fun ke => fs_call (fst ke)) r = true ->
  let s := final c init_sys ((CInitialize [slash], e) :: r) in
  exists l, view c s = map (ent c s) l /\ NoDup l /\
    forall x, In x l <-> (In x (lrows (db s)) /\ slash_count (r_name x) <= 16).
Proof.
  intros c e r H1 H2 H3 H4 H5 H6 H7 s.
  destruct (OKt_wf true c _ (all_histories_OKt c e r H1 H2 H3 H4 H5 H6 H7)) as (W & I).
  apply T13_view_exact; assumption.
Qed.

(* ---------- the corner cases of TASK.md, by computation: each is refused and the tree stays well formed *)
Module Corners.
Open Scope string_scope.
Definition e0 (n : Z) : env := {| ev_hb := []; ev_enc := []; ev_now := n |}.
Definition cf : cfg :=
  {| c_rs := 3; c_csuf := []; c_esuf := []; c_readonly := false; c_uid := 0; c_gid := 0;
     c_uname := s "root"; c_gname := s "0" |}.
Definition hist (r : list call) := (CInitialize [slash], e0 1) :: map (fun k => (k, e0 2)) r.
Definition last_out (r : list call) : option outc := option_map ob_out (last (map Some (run cf init_sys (hist r))) None).
Definition live_names (r : list call) : list (str * N) :=
  map (fun x => (r_name x, r_tf x)) (lrows (db (final cf init_sys (hist r)))).
Definition refused (o : option outc) : bool := match o with Some OOk | None => false | _ => true end.

Definition pre : list call := [CMkdir (s "/a") 493; CMkdir (s "/a/b") 493; CCreateFile (s "/f") []].
Definition unchanged (k : call) : bool :=
  refused (last_out (pre ++ [k])) &&
  eqb_list (fun a b => eqb_str (fst a) (fst b) && (snd a =? snd b)%N) (live_names (pre ++ [k])) (live_names pre).

Example rename_dir_below_file : unchanged (CRename (s "/a") (s "/f/x")) = true.          Proof. vm_compute. reflexivity. Qed.
Example mkdirall_through_file : unchanged (CMkdirAll (s "/f/x/y") 493) = true.            Proof. vm_compute. reflexivity. Qed.
Example remove_nonempty_dir : unchanged (CRemove (s "/a")) = true.                        Proof. vm_compute. reflexivity. Qed.
Example create_below_missing : unchanged (CCreateFile (s "/m/g") []) = true.              Proof. vm_compute. reflexivity. Qed.
Example create_below_file : unchanged (CCreateFile (s "/f/g") []) = true.                 Proof. vm_compute. reflexivity. Qed.
Example mkdir_below_file : unchanged (CMkdir (s "/f/d") 493) = true.                      Proof. vm_compute. reflexivity. Qed.
Example rename_file_onto_dir : unchanged (CRename (s "/f") (s "/a")) = true.              Proof. vm_compute. reflexivity. Qed.
Example rename_dir_onto_file : unchanged (CRename (s "/a") (s "/f")) = true.              Proof. vm_compute. reflexivity. Qed.
Example rename_into_own_subtree : unchanged (CRename (s "/a") (s "/a/b/c")) = true.       Proof. vm_compute. reflexivity. Qed.
Example rename_child_onto_parent : unchanged (CRename (s "/a/b") (s "/a")) = true.        Proof. vm_compute. reflexivity. Qed.
Example create_on_dir : unchanged (CCreateFile (s "/a") []) = true.                       Proof. vm_compute. reflexivity. Qed.
(* RemoveAll "/" is excluded by [call_ok]; it succeeds on the model and empties the tree (still well formed:
   no live rows at all) *)
Example removeall_root : call_ok (CRemoveAll (s "/")) = false /\ live_names (pre ++ [CRemoveAll (s "/")]) = [].
Proof. split; vm_compute; reflexivity. Qed.
End Corners.

Print Assumptions T13_wf_all_histories.
Print Assumptions T13_plain_all_histories.
Print Assumptions T13_listing_all_histories.
Print Assumptions T13_view_all_histories.
