(* T20 / Main: arbitrary further filesystem calls on an opened FOREIGN archive (styles "./" and "/").
   [T20_foreign_sim] (Proofs/T20Inv.v) puts the opened archive in the simulation [Sim] of T19 with its writer twin; the
   theorems of T19Main then give, for every history of filesystem-level calls (absolute names, the root never removed or
   renamed onto, header-block counts >= 1):
   - every call returns on the archive what it returns on the twin, the sorted views and the tape lengths agree after
     every call, the visible trees agree at the end;
   - the twin keeps the C01 invariant and the two instances stay in [Sim] (so the statement composes);
   - what was written through the archive's instance survives: its tape rebuilds to EXACTLY the rows of its index, and
     opening that tape again without an index succeeds, appends nothing and shows the same tree. *)
From Coq Require Import List NArith ZArith Bool Lia.
From Coq Require Import ZifyN ZifyBool.
Import ListNotations.
From STFS Require Import Str Db Tape Index Ops Fs Diff Norm C01Str C01Inv C01Sim C01Ops C01Fs2 C01Rows
  T17Tree T17View T19Rel T19Append T19Main T20Twin T20Inv.
Open Scope N_scope.

Theorem T20_foreign_continuation : forall c st t h, plain c -> 0 < c_rs c -> c_readonly c = false ->
  wf_style st -> style_root st = [] -> wf t ->
  forallb (fun ke => fs_call (fst ke)) h = true -> forallb (fun ke => call_ok (fst ke)) h = true -> forallb hb_ok h = true ->
  let sr := opened c (archive_of st t) in
  let sa := twin c st t in
  let sr' := final c sr h in
  let sa' := final c sa h in
  (* every call answers as on the twin; sorted views and tape lengths after every call *)
  map ob_out (run c sr h) = map ob_out (run c sa h) /\
  map ob_view (run c sr h) = map ob_view (run c sa h) /\
  map ob_blocks (run c sr h) = map ob_blocks (run c sa h) /\
  Forall2 rows_rel (map ob_rows (run c sa h)) (map ob_rows (run c sr h)) /\
  (* the same visible tree after the history *)
  view c sr' = view c sa' /\
  (* the invariant of the twin, the simulation: the statement composes with any further history *)
  Inv true c sa' /\ Sim c sa' sr' /\
  (* survives a rebuild, exactly *)
  (exists p, rebuild c (tp sr') = (p, Ok tt) /\ rows p = rows (db sr') /\ rows_rel (rows (db sa')) (rows (db sr'))) /\
  (* opening the tape again without an index: success, nothing appended, the same tree *)
  forall rootp q1 q2 k,
    let s2 := {| tp := tp sr'; db := p_empty; hbq := q1; encq := q2; clk := k |} in
    snd (fs_initialize c s2 rootp) = OOk /\ tp (fst (fs_initialize c s2 rootp)) = tp sr' /\
    view c (fst (fs_initialize c s2 rootp)) = view c sr'.
Proof.
  intros c st t h HP Hrs Hro Hs Hsr Hwf H1 H2 H3 sr sa sr' sa'.
  pose proof (T20_foreign_sim c st t HP Hrs Hs Hsr Hwf) as HS. fold sr sa in HS.
  destruct (T19_run_sim c HP Hrs Hro h sa sr HS H1 H2 H3) as (Hobs & HS'). fold sr' sa' in HS'.
  destruct (obs_rel_maps _ _ Hobs) as (A & B & C & D).
  split; [exact A|]. split; [exact B|]. split; [exact C|]. split; [exact D|].
  split; [exact (T19_view_sim' c _ _ HS')|]. split; [exact (proj1 HS')|]. split; [exact HS'|].
  split; [exact (T19_rebuilt_continuation_keeps_C01 c _ _ HS')|].
  intros rootp q1 q2 k s2. destruct (T19_reopen_rebuilt c sa' sr' rootp q1 q2 k HS') as (X & Y & _ & Z).
  split; [exact X|]. split; [exact Y|exact Z].
Qed.

(* one call at a time (any state in [Sim] with some twin state, e.g. after a history) *)
Theorem T20_foreign_step : forall c st t h k e, plain c -> 0 < c_rs c -> c_readonly c = false ->
  wf_style st -> style_root st = [] -> wf t ->
  forallb (fun ke => fs_call (fst ke)) h = true -> forallb (fun ke => call_ok (fst ke)) h = true -> forallb hb_ok h = true ->
  fs_call k = true -> call_ok k = true -> hb_ok (k, e) = true ->
  let sr' := final c (opened c (archive_of st t)) h in
  let sa' := final c (twin c st t) h in
  snd (step c (with_env sr' e) k) = snd (step c (with_env sa' e) k) /\
  view c (fst (step c (with_env sr' e) k)) = view c (fst (step c (with_env sa' e) k)).
Proof.
  intros c st t h k e HP Hrs Hro Hs Hsr Hwf H1 H2 H3 K1 K2 K3 sr' sa'.
  destruct (T20_foreign_continuation c st t h HP Hrs Hro Hs Hsr Hwf H1 H2 H3) as (_ & _ & _ & _ & _ & _ & HS' & _).
  fold sr' sa' in HS'. destruct (T19_step_sim c HP Hrs Hro sa' sr' k e HS' K1 K2 K3) as (A & B & _).
  split; [exact A|exact (T19_view_sim' c _ _ B)].
Qed.

Print Assumptions T20_foreign_continuation.
Print Assumptions T20_foreign_step.
