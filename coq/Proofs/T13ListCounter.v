(* T13 / listing: compiled witnesses for the hypotheses of T13_listing_exact and for the exact shape of the
   count-limited statement (T13List.v). *)
From Coq Require Import String List NArith ZArith Bool.
Import ListNotations.
From STFS Require Import Str Db.
Open Scope string_scope.
Open Scope N_scope.

Definition mkr (n l : string) (tf : N) (del : bool) : row :=
  {| r_name := s n; r_link := s l; r_tf := tf; r_size := 0; r_mode := 0; r_uid := 0; r_gid := 0; r_uname := []; r_gname := [];
     r_mtime := 0%Z; r_atime := 0%Z; r_ctime := 0%Z; r_rec := 0; r_blk := 0; r_lkrec := 0; r_lkblk := 0; r_del := del; r_pax := [] |}.
Definition Dr n := mkr n "" TypeDir false.
Definition Fr n := mkr n "" TypeReg false.
Definition Pst (l : list row) : pstate := {| rows := l; root := [slash]; root_empty := false |}.
Definition childrenb (p : pstate) (d : str) : list str :=
  map r_name (filter (fun r => live r && negb (eqb_str (r_name r) [slash]) && eqb_str (path_dir (r_name r)) d) (rows p)).
Definition listing (p : pstate) (d : string) (lim : option nat) : option (list str) :=
  match snd (get_direct_children p (s d) lim) with Ok l => Some (map r_name l) | _ => None end.

(* 1. [idx_plain] (no link names) is needed: a live row with a link name (a hard-link row: key = name + linkname)
   is a live entry below "/a" but is not listed under its name: the name query requires linkname = '', and the
   link query keys on the link name, so the row appears as a second entry named like its target "/a/f". *)
Definition p_link := Pst [Dr "/"; Dr "/a"; Fr "/a/f"; mkr "/a/l" "/a/f" 49 false].
Example link_row_not_listed :
  listing p_link "/a" None = Some [s "/a/f"; s "/a/f"] /\ childrenb p_link (s "/a") = [s "/a/f"; s "/a/l"].
Proof. vm_compute. split; reflexivity. Qed.

(* 2. the tree hypothesis (ii) is needed for the root: if no live row is named "/", the SQL root depth is the
   smallest slash count among the live names, and the root listing shows rows that are not directly below "/". *)
Definition p_noroot := Pst [Dr "/a/b"; Fr "/a/b/c"].
Example root_listing_without_root_row :
  listing p_noroot "/" None = Some [s "/a/b"] /\ childrenb p_noroot [slash] = [].
Proof. vm_compute. split; reflexivity. Qed.

(* 3. [good d] is needed: for a non-cleaned spelling the listing is that of the cleaned directory, while
   [path_dir (r_name r) = d] compares with the spelling given. *)
Example trailing_slash_dir :
  listing (Pst [Dr "/"; Dr "/a"; Fr "/a/f"]) "/a/" None = Some [s "/a/f"] /\
  childrenb (Pst [Dr "/"; Dr "/a"; Fr "/a/f"]) (s "/a/") = [].
Proof. vm_compute. split; reflexivity. Qed.

(* 4. the root of an index without live rows: the listing fails (statement T13_listing_root_empty_fails) *)
Example empty_root_fails : snd (get_direct_children (Pst []) [slash] None) = Fail 1.
Proof. reflexivity. Qed.

(* 5. the count-limited listing is a prefix of the full one but NOT always its first min(k, length) entries:
   the SQL limit (k+2) is applied before the exact post-filter, so rows that pass the SQL depth test without
   being direct children ("/a/x/a/y" has depth 0 for prefix "/a/": every occurrence of the prefix is removed)
   use up the limit.  Here the tree is well formed, "/a" has two children, and the listing limited to 2 (or 1)
   returns one entry (none). *)
Definition p_short := Pst [Dr "/"; Fr "/a/x/a/y"; Fr "/a/x/a/z"; Fr "/a/x/a/w"; Dr "/a"; Dr "/a/x"; Dr "/a/x/a"; Fr "/a/k"].
Example limited_shorter_than_limit :
  listing p_short "/a" None = Some [s "/a/x"; s "/a/k"] /\
  listing p_short "/a" (Some 2%nat) = Some [s "/a/x"] /\
  listing p_short "/a" (Some 1%nat) = Some [].
Proof. vm_compute. repeat split; reflexivity. Qed.

(* a limit of 0 given as [Some 0] returns the empty list ("limit <= 0 means all" is the caller's mapping to None) *)
Example limit_zero : listing p_short "/a" (Some 0%nat) = Some [].
Proof. reflexivity. Qed.
