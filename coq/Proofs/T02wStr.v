(* T02w / contents as byte strings: [expand] of take / drop / overlay of piece lists are firstn / skipn / overlay of the
   byte strings, so [coverlay] respects equality of byte strings ([content_eq]); lengths. *)
From Coq Require Import List NArith ZArith Bool Lia.
From Coq Require Import ZifyN ZifyBool.
Import ListNotations.
From STFS Require Import Str Db Tape Index Ops Fs File C14Refine.
Open Scope N_scope.

Lemma clen_app a b : clen (a ++ b) = clen a + clen b.
Proof. induction a as [|p a IH]; [reflexivity|]. cbn [app]. rewrite !clen_cons, IH. lia. Qed.

Lemma clen_czeros k : clen (czeros k) = k.
Proof. unfold czeros. destruct (k =? 0) eqn:E; cbn; lia. Qed.

Lemma clen_coverlay c at_ d : at_ <= clen c -> clen (coverlay c at_ d) = N.max (clen c) (at_ + clen d).
Proof.
  intro H. unfold coverlay. replace (at_ <=? clen c) with true by lia.
  rewrite !clen_app, clen_ctake, clen_cdrop. lia.
Qed.

(* ---------- bytes of a piece *)
Lemma firstn_repeat_le {A} (x : A) n l : (n <= l)%nat -> firstn n (repeat x l) = repeat x n.
Proof.
  revert l. induction n as [|n IH]; intros l H; [reflexivity|]. destruct l as [|l]; [lia|].
  cbn. f_equal. apply IH. lia.
Qed.
Lemma skipn_repeat_le {A} (x : A) n l : skipn n (repeat x l) = repeat x (l - n).
Proof.
  revert l. induction n as [|n IH]; intros l; [rewrite Nat.sub_0_r; reflexivity|]. destruct l as [|l]; [reflexivity|].
  cbn. apply IH.
Qed.

Lemma pat_take_firstn x n l : (n <= l)%nat -> firstn n (pat_take x l) = pat_take x n.
Proof.
  revert x l. induction n as [|n IH]; intros x l H; [reflexivity|]. destruct l as [|l]; [lia|].
  cbn. f_equal. apply IH. lia.
Qed.
Lemma pat_skip_add x a b : pat_skip x (a + b) = pat_skip (pat_skip x a) b.
Proof. revert x. induction a as [|a IH]; intro x; [reflexivity|]. cbn. apply IH. Qed.
Lemma pat_take_skipn x n l : skipn n (pat_take x l) = pat_take (pat_skip x n) (l - n).
Proof.
  revert x l. induction n as [|n IH]; intros x l; [rewrite Nat.sub_0_r; reflexivity|]. destruct l as [|l]; [reflexivity|].
  cbn. apply IH.
Qed.

Lemma length_expand_piece p : length (expand_piece p) = N.to_nat (plen p).
Proof.
  destruct p as [[sd off] l]. unfold expand_piece. cbn [plen snd].
  destruct (sd =? 0); [apply repeat_length|]. destruct (1000000 <=? sd); [apply repeat_length|].
  unfold pat_bytes. generalize (pat_skip ((sd * 2654435761 + 12345) mod 4294967296) (N.to_nat off)).
  induction (N.to_nat l) as [|k IH]; intro x; [reflexivity|]. cbn. f_equal. apply IH.
Qed.

Lemma expand_piece_take sd off l n : n <= l -> expand_piece (sd, off, n) = firstn (N.to_nat n) (expand_piece (sd, off, l)).
Proof.
  intro H. unfold expand_piece. assert (K : (N.to_nat n <= N.to_nat l)%nat) by lia.
  destruct (sd =? 0); [symmetry; apply firstn_repeat_le; exact K|].
  destruct (1000000 <=? sd); [symmetry; apply firstn_repeat_le; exact K|].
  unfold pat_bytes. symmetry. apply pat_take_firstn. exact K.
Qed.

Lemma expand_piece_drop sd off l n : n <= l ->
  expand_piece (sd, off + n, l - n) = skipn (N.to_nat n) (expand_piece (sd, off, l)).
Proof.
  intro H. unfold expand_piece. rewrite N2Nat.inj_sub.
  destruct (sd =? 0); [symmetry; apply skipn_repeat_le|].
  destruct (1000000 <=? sd); [symmetry; apply skipn_repeat_le|].
  unfold pat_bytes. rewrite pat_take_skipn, N2Nat.inj_add, pat_skip_add. reflexivity.
Qed.

(* ---------- bytes of a content *)
Lemma expand_cons p c : expand (p :: c) = expand_piece p ++ expand c.
Proof. reflexivity. Qed.
Lemma expand_app a b : expand (a ++ b) = expand a ++ expand b.
Proof. unfold expand. apply flat_map_app. Qed.

Lemma length_expand c : length (expand c) = N.to_nat (clen c).
Proof.
  induction c as [|p c IH]; [reflexivity|]. rewrite expand_cons, app_length, IH, length_expand_piece, clen_cons. lia.
Qed.

Lemma clen_of_expand a b : expand a = expand b -> clen a = clen b.
Proof. intro H. apply (f_equal (@length N)) in H. rewrite !length_expand in H. lia. Qed.

Lemma expand_ctake c : forall k, expand (ctake k c) = firstn (N.to_nat k) (expand c).
Proof.
  induction c as [|[[sd off] l] r IH]; intro k; [cbn; rewrite firstn_nil; reflexivity|].
  cbn [ctake]. destruct (k =? 0) eqn:E0.
  - apply N.eqb_eq in E0. subst k. reflexivity.
  - destruct (l <=? k) eqn:El.
    + rewrite !expand_cons, IH. rewrite firstn_app, length_expand_piece. cbn [plen snd].
      rewrite (@firstn_all2 _ _ (expand_piece (sd, off, l))) by (rewrite length_expand_piece; cbn [plen snd]; lia).
      f_equal. f_equal. lia.
    + rewrite !expand_cons. cbn [expand app]. rewrite app_nil_r.
      rewrite firstn_app, length_expand_piece. cbn [plen snd].
      replace (N.to_nat k - N.to_nat l)%nat with 0%nat by lia. cbn [firstn]. rewrite app_nil_r.
      apply expand_piece_take. lia.
Qed.

Lemma expand_cdrop c : forall k, expand (cdrop k c) = skipn (N.to_nat k) (expand c).
Proof.
  induction c as [|[[sd off] l] r IH]; intro k; [cbn; rewrite skipn_nil; reflexivity|].
  cbn [cdrop]. destruct (k =? 0) eqn:E0.
  - apply N.eqb_eq in E0. subst k. reflexivity.
  - destruct (l <=? k) eqn:El.
    + rewrite IH, expand_cons, skipn_app, length_expand_piece. cbn [plen snd].
      rewrite (@skipn_all2 _ _ (expand_piece (sd, off, l))) by (rewrite length_expand_piece; cbn [plen snd]; lia).
      cbn [app]. f_equal. lia.
    + rewrite !expand_cons, skipn_app, length_expand_piece. cbn [plen snd].
      replace (N.to_nat k - N.to_nat l)%nat with 0%nat by lia. cbn [skipn].
      f_equal. apply expand_piece_drop. lia.
Qed.

Lemma expand_czeros k : expand (czeros k) = repeat 0 (N.to_nat k).
Proof.
  unfold czeros. destruct (k =? 0) eqn:E.
  - apply N.eqb_eq in E. subst k. reflexivity.
  - cbn. apply app_nil_r.
Qed.

(* the overlay, on byte strings *)
Definition boverlay (b : list N) (at_ : N) (d : list N) : list N :=
  (if at_ <=? N.of_nat (length b) then firstn (N.to_nat at_) b else b ++ repeat 0 (N.to_nat at_ - length b))
  ++ d ++ skipn (N.to_nat at_ + length d) b.

Lemma expand_coverlay c at_ d : expand (coverlay c at_ d) = boverlay (expand c) at_ (expand d).
Proof.
  unfold coverlay, boverlay. rewrite !expand_app, expand_cdrop, !length_expand, N2Nat.id.
  f_equal; [|f_equal; f_equal; lia].
  destruct (at_ <=? clen c); [apply expand_ctake|]. rewrite expand_app, expand_czeros. f_equal. f_equal. lia.
Qed.

(* [coverlay] respects equality of byte strings *)
Lemma coverlay_congr a b at_ d d' : expand a = expand b -> expand d = expand d' ->
  expand (coverlay a at_ d) = expand (coverlay b at_ d').
Proof. intros H1 H2. rewrite !expand_coverlay, H1, H2. reflexivity. Qed.

Lemma coverlay_congr_end a b d d' : expand a = expand b -> expand d = expand d' ->
  expand (coverlay a (clen a) d) = expand (coverlay b (clen b) d').
Proof. intros H1 H2. rewrite (clen_of_expand a b H1). apply coverlay_congr; assumption. Qed.

(* writing nothing changes no byte (positions 0 and end) *)
Lemma expand_clen0' x : clen x = 0 -> expand x = [].
Proof. intro H. pose proof (length_expand x) as L. rewrite H in L. destruct (expand x); [reflexivity|discriminate]. Qed.

Lemma coverlay_nothing a at_ d : clen d = 0 -> at_ <= clen a -> expand (coverlay a at_ d) = expand a.
Proof.
  intros Hd Hat. rewrite expand_coverlay. unfold boverlay. rewrite (expand_clen0' d Hd), length_expand.
  replace (at_ <=? N.of_nat (N.to_nat (clen a))) with true by lia. cbn [app length]. rewrite Nat.add_0_r.
  apply firstn_skipn.
Qed.
